import JSight.TreeEvents
import JSight.Rfc
/-!
C05, "⇐" against the grammar itself: every text the RFC 8259 grammar generates — a value tree whose scalars are
grammar tokens (string = quote *char quote, number = [-] int [frac] [exp], true / false / null), with any layout
(ws) at every place the grammar allows it — is accepted by the recogniser `Rfc.accepts` (and hence, with
`C05_check_iff_rfc`, by the scanner model). No bound on size or depth.
-/
namespace RfcG
open JsonScan (Cls JA IsWs StrBody NumTok IsDigits renderItems renderMembers)
open Rfc

/-- a scalar token of the grammar, on byte classes -/
inductive GTok : List Cls → Prop
  | str (b : List Cls) : StrBody b → GTok (.quote :: (b ++ [.quote]))
  | num (t : NumTok) : t.WF → GTok t.render
  | wtrue : GTok [.lt, .lr, .lu, .le]
  | wfalse : GTok [.lf, .la, .ll, .ls, .le]
  | wnull : GTok [.ln, .lu, .ll, .ll]

def GKey (k : List Cls) : Prop := ∃ b, StrBody b ∧ k = .quote :: (b ++ [.quote])

mutual
def GValid : JA → Prop
  | .scalar tok => GTok tok
  | .arr ws0 items => IsWs ws0 ∧ GItems items
  | .obj ws0 members => IsWs ws0 ∧ GMembers members
def GItems : List (List Cls × JA × List Cls) → Prop
  | [] => True
  | (w1, v, w2) :: its => IsWs w1 ∧ GValid v ∧ IsWs w2 ∧ GItems its
def GMembers : List (List Cls × List Cls × List Cls × List Cls × JA × List Cls) → Prop
  | [] => True
  | (w1, k, w2, w3, v, w4) :: ms => IsWs w1 ∧ GKey k ∧ IsWs w2 ∧ IsWs w3 ∧ GValid v ∧ IsWs w4 ∧ GMembers ms
end

theorem run_append (r : RCfg) (a b : List Cls) : run r (a ++ b) = (run r a).bind (fun r' => run r' b) := by
  induction a generalizing r with
  | nil => rfl
  | cons c cs ih =>
    simp only [List.cons_append, run]
    cases step r c with
    | none => rfl
    | some r' => exact ih r'

theorem run_append_of {r r' : RCfg} {a : List Cls} (h : run r a = some r') (b : List Cls) : run r (a ++ b) = run r' b := by
  rw [run_append, h]; rfl

/-- a complete value has been read: `.after`, or a number in a final state -/
def Done (r : RCfg) : Prop := r.st = .after ∨ ∃ n, r.st = .num n ∧ n.final = true

/-- states in which a value may begin -/
def VSt (s : RSt) : Prop := s = .value ∨ s = .arrFirst

theorem ws_loop (st : RSt) (h : st = .value ∨ st = .arrFirst ∨ st = .objFirst ∨ st = .key ∨ st = .colon ∨ st = .after)
    (ctx : List Ctx) (ws : List Cls) (hw : IsWs ws) : run ⟨st, ctx⟩ ws = some ⟨st, ctx⟩ := by
  induction ws with
  | nil => rfl
  | cons c cs ih =>
    have hc := hw c (by simp)
    have : step ⟨st, ctx⟩ c = some ⟨st, ctx⟩ := by
      rcases h with rfl | rfl | rfl | rfl | rfl | rfl <;> cases c <;> simp [Cls.isWs] at hc <;> rfl
    simp only [run, this]
    exact ih (fun x hx => hw x (by simp [hx]))

theorem done_step (r : RCfg) (h : Done r) (c : Cls)
    (hc : c = .sp ∨ c = .wsctl ∨ c = .comma ∨ c = .rbrack ∨ c = .rbrace) : step r c = afterValue r.ctx c := by
  obtain ⟨st, ctx⟩ := r
  rcases h with h | ⟨n, h, hf⟩
  · simp only at h; subst h; rfl
  · simp only at h; subst h
    cases n <;> simp [Num.final] at hf <;> rcases hc with rfl | rfl | rfl | rfl | rfl <;> rfl

theorem done_ws (r : RCfg) (h : Done r) (ws : List Cls) (hw : IsWs ws) :
    ∃ r', Done r' ∧ r'.ctx = r.ctx ∧ run r ws = some r' := by
  cases ws with
  | nil => exact ⟨r, h, rfl, rfl⟩
  | cons c cs =>
    have hc := hw c (by simp)
    have hs : step r c = some ⟨.after, r.ctx⟩ := by
      rw [done_step r h c (by cases c <;> simp [Cls.isWs] at hc <;> simp)]
      cases c <;> simp [Cls.isWs] at hc <;> rfl
    refine ⟨⟨.after, r.ctx⟩, Or.inl rfl, rfl, ?_⟩
    simp only [run, hs]
    exact ws_loop .after (by simp) r.ctx cs (fun x hx => hw x (by simp [hx]))

/-! ### tokens -/

theorem hex_step (k : Bool) (n : Nat) (ctx : List Ctx) (c : Cls) (hc : c.isHex = true) :
    step ⟨.hex k n, ctx⟩ c = (if n ≤ 1 then some ⟨.str k, ctx⟩ else some ⟨.hex k (n - 1), ctx⟩) := by
  show (if c.isHex = true then (if n ≤ 1 then some (RCfg.mk (.str k) ctx) else some (RCfg.mk (.hex k (n - 1)) ctx)) else none) = _
  rw [if_pos hc]

theorem strBody_run (k : Bool) (ctx : List Ctx) (b : List Cls) (hb : StrBody b) : run ⟨.str k, ctx⟩ b = some ⟨.str k, ctx⟩ := by
  induction hb with
  | nil => rfl
  | plain c b hc _ ih =>
    have : step ⟨.str k, ctx⟩ c = some ⟨.str k, ctx⟩ := by cases c <;> simp [Cls.isPlainStr] at hc <;> rfl
    simp only [run, this]; exact ih
  | esc c b hc _ ih =>
    have e1 : step ⟨.str k, ctx⟩ .bslash = some ⟨.esc k, ctx⟩ := rfl
    have e2 : step ⟨.esc k, ctx⟩ c = some ⟨.str k, ctx⟩ := by cases c <;> simp [Cls.isSimpleEsc] at hc <;> rfl
    simp only [run, e1, e2]; exact ih
  | uni h1 h2 h3 h4 b a1 a2 a3 a4 _ ih =>
    have e1 : step ⟨.str k, ctx⟩ .bslash = some ⟨.esc k, ctx⟩ := rfl
    have e2 : step ⟨.esc k, ctx⟩ .lu = some ⟨.hex k 4, ctx⟩ := rfl
    have e3 : step ⟨.hex k 4, ctx⟩ h1 = some ⟨.hex k 3, ctx⟩ := hex_step k 4 ctx h1 a1
    have e4 : step ⟨.hex k 3, ctx⟩ h2 = some ⟨.hex k 2, ctx⟩ := hex_step k 3 ctx h2 a2
    have e5 : step ⟨.hex k 2, ctx⟩ h3 = some ⟨.hex k 1, ctx⟩ := hex_step k 2 ctx h3 a3
    have e6 : step ⟨.hex k 1, ctx⟩ h4 = some ⟨.str k, ctx⟩ := hex_step k 1 ctx h4 a4
    simp only [run, e1, e2, e3, e4, e5, e6]; exact ih

theorem string_run (k : Bool) (ctx : List Ctx) (b : List Cls) (hb : StrBody b) :
    run ⟨.str k, ctx⟩ (b ++ [.quote]) = some (strEnd k ctx) := by
  rw [run_append_of (strBody_run k ctx b hb)]; rfl

theorem digits_run (n : Num) (hn : n = .int ∨ n = .frac ∨ n = .exp) (ctx : List Ctx) (ds : List Cls) (hd : IsDigits ds) :
    run ⟨.num n, ctx⟩ ds = some ⟨.num n, ctx⟩ := by
  induction ds with
  | nil => rfl
  | cons c cs ih =>
    have hc := hd c (by simp)
    have : step ⟨.num n, ctx⟩ c = some ⟨.num n, ctx⟩ := by
      rcases hn with rfl | rfl | rfl <;> cases c <;> simp [Cls.isDigit] at hc <;> rfl
    simp only [run, this]; exact ih (fun x hx => hd x (by simp [hx]))

/-- the exponent part, from a state in which `e` may follow -/
theorem exp_run (n : Num) (hn : n = .zero ∨ n = .int ∨ n = .frac) (ctx : List Ctx)
    (x : Option (Cls × Option Cls × Cls × List Cls))
    (hx : ∀ e s d ds, x = some (e, s, d, ds) → (e = .le ∨ e = .uE) ∧ (∀ y, s = some y → y = .plus ∨ y = .minus) ∧
      d.isDigit = true ∧ IsDigits ds) :
    ∃ m, m.final = true ∧
      run ⟨.num n, ctx⟩ (match x with | none => [] | some (e, none, d, ds) => e :: d :: ds | some (e, some s, d, ds) => e :: s :: d :: ds)
        = some ⟨.num m, ctx⟩ := by
  match x with
  | none => exact ⟨n, by rcases hn with rfl | rfl | rfl <;> rfl, rfl⟩
  | some (e, none, d, ds) =>
    obtain ⟨he, _, hd, hds⟩ := hx e none d ds rfl
    refine ⟨.exp, rfl, ?_⟩
    have e1 : step ⟨.num n, ctx⟩ e = some ⟨.num .e, ctx⟩ := by
      rcases hn with rfl | rfl | rfl <;> rcases he with rfl | rfl <;> rfl
    have e2 : step ⟨.num .e, ctx⟩ d = some ⟨.num .exp, ctx⟩ := by cases d <;> simp [Cls.isDigit] at hd <;> rfl
    simp only [run, e1, e2]
    exact digits_run .exp (by simp) ctx ds hds
  | some (e, some s, d, ds) =>
    obtain ⟨he, hs, hd, hds⟩ := hx e (some s) d ds rfl
    refine ⟨.exp, rfl, ?_⟩
    have e1 : step ⟨.num n, ctx⟩ e = some ⟨.num .e, ctx⟩ := by
      rcases hn with rfl | rfl | rfl <;> rcases he with rfl | rfl <;> rfl
    have e2 : step ⟨.num .e, ctx⟩ s = some ⟨.num .esign, ctx⟩ := by rcases hs s rfl with rfl | rfl <;> rfl
    have e3 : step ⟨.num .esign, ctx⟩ d = some ⟨.num .exp, ctx⟩ := by cases d <;> simp [Cls.isDigit] at hd <;> rfl
    simp only [run, e1, e2, e3]
    exact digits_run .exp (by simp) ctx ds hds

/-- fraction and exponent, after the integer part -/
theorem tail_run (n : Num) (hn : n = .zero ∨ n = .int) (ctx : List Ctx) (t : NumTok) (wf : t.WF) :
    ∃ m, m.final = true ∧ run ⟨.num n, ctx⟩
      ((match t.frac with | none => [] | some (d, ds) => .dot :: d :: ds) ++
       (match t.exp with | none => [] | some (e, none, d, ds) => e :: d :: ds | some (e, some s, d, ds) => e :: s :: d :: ds))
        = some ⟨.num m, ctx⟩ := by
  cases hf : t.frac with
  | none =>
    simp only [List.nil_append]
    exact exp_run n (by rcases hn with rfl | rfl <;> simp) ctx t.exp wf.exp
  | some p =>
    obtain ⟨d, ds⟩ := p
    obtain ⟨hd, hds⟩ := wf.frac d ds hf
    obtain ⟨m, hm, e⟩ := exp_run .frac (by simp) ctx t.exp wf.exp
    refine ⟨m, hm, ?_⟩
    have e1 : step ⟨.num n, ctx⟩ .dot = some ⟨.num .dot, ctx⟩ := by rcases hn with rfl | rfl <;> rfl
    have e2 : step ⟨.num .dot, ctx⟩ d = some ⟨.num .frac, ctx⟩ := by cases d <;> simp [Cls.isDigit] at hd <;> rfl
    simp only [List.cons_append, run, e1, e2]
    rw [run_append_of (digits_run .frac (by simp) ctx ds hds)]
    exact e

theorem int_run (ctx : List Ctx) (t : NumTok) (wf : t.WF) (r : RCfg)
    (hr : ∀ c, c = .zero ∨ c = .d19 → step r c = some ⟨.num (if c = .zero then .zero else .int), ctx⟩) :
    ∃ n, (n = .zero ∨ n = .int) ∧ run r t.int = some ⟨.num n, ctx⟩ := by
  rcases wf.int with h | ⟨ds, h, hds⟩
  · exact ⟨.zero, by simp, by rw [h]; simp only [run, hr .zero (by simp)]; rfl⟩
  · refine ⟨.int, by simp, ?_⟩
    rw [h]
    simp only [run, hr .d19 (by simp)]
    exact digits_run .int (by simp) ctx ds hds

theorem number_run (st : RSt) (hst : VSt st) (ctx : List Ctx) (t : NumTok) (wf : t.WF) :
    ∃ m, m.final = true ∧ run ⟨st, ctx⟩ t.render = some ⟨.num m, ctx⟩ := by
  unfold NumTok.render
  rw [List.append_assoc, List.append_assoc]
  cases hneg : t.neg with
  | false =>
    obtain ⟨n, hn, e1⟩ := int_run ctx t wf ⟨st, ctx⟩ (by
      intro c hc; rcases hst with rfl | rfl <;> rcases hc with rfl | rfl <;> rfl)
    obtain ⟨m, hm, e2⟩ := tail_run n hn ctx t wf
    refine ⟨m, hm, ?_⟩
    simp only [Bool.false_eq_true, if_false, List.nil_append]
    rw [run_append_of e1]; exact e2
  | true =>
    obtain ⟨n, hn, e1⟩ := int_run ctx t wf ⟨.num .minus, ctx⟩ (by
      intro c hc; rcases hc with rfl | rfl <;> rfl)
    obtain ⟨m, hm, e2⟩ := tail_run n hn ctx t wf
    refine ⟨m, hm, ?_⟩
    have e0 : step ⟨st, ctx⟩ .minus = some ⟨.num .minus, ctx⟩ := by rcases hst with rfl | rfl <;> rfl
    simp only [if_true, List.cons_append, List.nil_append, run, e0]
    rw [run_append_of e1]; exact e2

theorem tok_run (st : RSt) (hst : VSt st) (ctx : List Ctx) (tok : List Cls) (h : GTok tok) :
    ∃ r, Done r ∧ r.ctx = ctx ∧ run ⟨st, ctx⟩ tok = some r := by
  cases h with
  | str b hb =>
    refine ⟨⟨.after, ctx⟩, Or.inl rfl, rfl, ?_⟩
    have e0 : step ⟨st, ctx⟩ .quote = some ⟨.str false, ctx⟩ := by rcases hst with rfl | rfl <;> rfl
    simp only [run, e0]
    exact string_run false ctx b hb
  | num t wf =>
    obtain ⟨m, hm, e⟩ := number_run st hst ctx t wf
    exact ⟨⟨.num m, ctx⟩, Or.inr ⟨m, rfl, hm⟩, rfl, e⟩
  | wtrue => exact ⟨⟨.after, ctx⟩, Or.inl rfl, rfl, by rcases hst with rfl | rfl <;> rfl⟩
  | wfalse => exact ⟨⟨.after, ctx⟩, Or.inl rfl, rfl, by rcases hst with rfl | rfl <;> rfl⟩
  | wnull => exact ⟨⟨.after, ctx⟩, Or.inl rfl, rfl, by rcases hst with rfl | rfl <;> rfl⟩

/-! ### values -/

mutual
theorem value_run : (v : JA) → GValid v → (st : RSt) → VSt st → (ctx : List Ctx) →
    ∃ r, Done r ∧ r.ctx = ctx ∧ run ⟨st, ctx⟩ v.render = some r
  | .scalar tok, hv, st, hst, ctx => tok_run st hst ctx tok (by simpa [GValid] using hv)
  | .arr ws0 items, hv, st, hst, ctx => by
    obtain ⟨hw0, hi⟩ : IsWs ws0 ∧ GItems items := by simpa [GValid] using hv
    refine ⟨⟨.after, ctx⟩, Or.inl rfl, rfl, ?_⟩
    have e0 : step ⟨st, ctx⟩ .lbrack = some ⟨.arrFirst, .arr :: ctx⟩ := by rcases hst with rfl | rfl <;> rfl
    simp only [JA.render, run, e0]
    rw [run_append_of (ws_loop .arrFirst (by simp) _ ws0 hw0)]
    exact items_run items hi .arrFirst (Or.inl rfl) ctx
  | .obj ws0 members, hv, st, hst, ctx => by
    obtain ⟨hw0, hi⟩ : IsWs ws0 ∧ GMembers members := by simpa [GValid] using hv
    refine ⟨⟨.after, ctx⟩, Or.inl rfl, rfl, ?_⟩
    have e0 : step ⟨st, ctx⟩ .lbrace = some ⟨.objFirst, .obj :: ctx⟩ := by rcases hst with rfl | rfl <;> rfl
    simp only [JA.render, run, e0]
    rw [run_append_of (ws_loop .objFirst (by simp) _ ws0 hw0)]
    exact members_run members hi .objFirst (Or.inl rfl) ctx
theorem items_run : (its : List (List Cls × JA × List Cls)) → GItems its → (st : RSt) →
    (st = .arrFirst ∨ (st = .value ∧ its ≠ [])) → (k : List Ctx) →
    run ⟨st, .arr :: k⟩ (renderItems its) = some ⟨.after, k⟩
  | [], _, st, hst, k => by
    rcases hst with rfl | ⟨_, h⟩
    · rfl
    · exact absurd rfl h
  | (w1, v, w2) :: its, hv, st, hst, k => by
    obtain ⟨h1, hvv, h2, hits⟩ : IsWs w1 ∧ GValid v ∧ IsWs w2 ∧ GItems its := by simpa [GItems] using hv
    have hvs : VSt st := by rcases hst with rfl | ⟨rfl, _⟩ <;> simp [VSt]
    simp only [renderItems]
    rw [run_append_of (ws_loop st (by rcases hvs with rfl | rfl <;> simp) _ w1 h1)]
    obtain ⟨r, hd, hc, e⟩ := value_run v hvv st hvs (.arr :: k)
    rw [run_append_of e]
    obtain ⟨r', hd', hc', e'⟩ := done_ws r hd w2 h2
    rw [run_append_of e']
    have hctx : r'.ctx = .arr :: k := hc'.trans hc
    cases its with
    | nil =>
      simp only [List.isEmpty_nil, if_true, List.nil_append, renderItems, run]
      rw [done_step r' hd' .rbrack (by simp), hctx]; rfl
    | cons it its' =>
      simp only [List.isEmpty_cons, Bool.false_eq_true, if_false, List.cons_append, List.nil_append, run]
      rw [done_step r' hd' .comma (by simp), hctx]
      exact items_run (it :: its') hits .value (Or.inr ⟨rfl, by simp⟩) k
theorem members_run : (ms : List (List Cls × List Cls × List Cls × List Cls × JA × List Cls)) → GMembers ms → (st : RSt) →
    (st = .objFirst ∨ (st = .key ∧ ms ≠ [])) → (k : List Ctx) →
    run ⟨st, .obj :: k⟩ (renderMembers ms) = some ⟨.after, k⟩
  | [], _, st, hst, k => by
    rcases hst with rfl | ⟨_, h⟩
    · rfl
    · exact absurd rfl h
  | (w1, key, w2, w3, v, w4) :: ms, hv, st, hst, k => by
    obtain ⟨h1, ⟨b, hb, rfl⟩, h2, h3, hvv, h4, hms⟩ :
      IsWs w1 ∧ GKey key ∧ IsWs w2 ∧ IsWs w3 ∧ GValid v ∧ IsWs w4 ∧ GMembers ms := by simpa [GMembers] using hv
    have hks : st = .objFirst ∨ st = .key := by rcases hst with rfl | ⟨rfl, _⟩ <;> simp
    simp only [renderMembers]
    rw [run_append_of (ws_loop st (by rcases hks with rfl | rfl <;> simp) _ w1 h1)]
    have e0 : step ⟨st, .obj :: k⟩ .quote = some ⟨.str true, .obj :: k⟩ := by rcases hks with rfl | rfl <;> rfl
    have ek : run ⟨st, .obj :: k⟩ (.quote :: (b ++ [.quote])) = some ⟨.colon, .obj :: k⟩ := by
      simp only [run, e0]; exact string_run true _ b hb
    rw [run_append_of ek, run_append_of (ws_loop .colon (by simp) _ w2 h2)]
    have ec : step ⟨.colon, .obj :: k⟩ .colon = some ⟨.value, .obj :: k⟩ := rfl
    simp only [run, ec]
    rw [run_append_of (ws_loop .value (by simp) _ w3 h3)]
    obtain ⟨r, hd, hc, e⟩ := value_run v hvv .value (Or.inl rfl) (.obj :: k)
    rw [run_append_of e]
    obtain ⟨r', hd', hc', e'⟩ := done_ws r hd w4 h4
    rw [run_append_of e']
    have hctx : r'.ctx = .obj :: k := hc'.trans hc
    cases ms with
    | nil =>
      simp only [List.isEmpty_nil, if_true, List.nil_append, renderMembers, run]
      rw [done_step r' hd' .rbrace (by simp), hctx]; rfl
    | cons m ms' =>
      simp only [List.isEmpty_cons, Bool.false_eq_true, if_false, List.cons_append, List.nil_append, run]
      rw [done_step r' hd' .comma (by simp), hctx]
      exact members_run (m :: ms') hms .key (Or.inr ⟨rfl, by simp⟩) k
end

/-- **every text of the RFC 8259 grammar is accepted** (classes level) -/
theorem grammar_accepted (v : JA) (hv : GValid v) (ws0 ws1 : List Cls) (h0 : IsWs ws0) (h1 : IsWs ws1) :
    acceptsC (ws0 ++ (v.render ++ ws1)) = true := by
  unfold acceptsC RCfg.init
  rw [run_append_of (ws_loop .value (by simp) [] ws0 h0)]
  obtain ⟨r, hd, hc, e⟩ := value_run v hv .value (Or.inl rfl) []
  rw [run_append_of e]
  obtain ⟨r', hd', hc', e'⟩ := done_ws r hd ws1 h1
  rw [e']
  have hctx : r'.ctx = [] := hc'.trans hc
  obtain ⟨st, ctx⟩ := r'
  simp only at hctx; subst hctx
  rcases hd' with h | ⟨n, h, hf⟩
  · simp only at h; subst h; rfl
  · simp only at h; subst h; simp [accepting, hf]

end RfcG
