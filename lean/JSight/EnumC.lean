import JSight.EnumCLay
import JSight.EnumEvents
/-!
C18, comments in enum rules, on BYTES: the text `pre [ lay item , item … ] lay` with `item = lay token lay`, where
`pre` is blanks (the scanner does not accept a comment before `[`) and every `lay` is a layout WITH comments: any
sequence of blank bytes, `// … line-break` comments and `/* … */` comments.

* `enumC_events`: pairwise distinct keys ⇒ `scanAll` delivers exactly `enumEvsC` (the comments' own events included).
* `enumC_filter`: without the comments' own events that list is, spans included, the event list `enumEvsOf` of the
  text in which every comment byte is overwritten by a blank (`blankOut`: same length, same offsets) — which, by
  `enum_events`, is what `scanAll` delivers for that text.
* `enumC_values`, `enumC_duplicate`, `enumC_exponent`, `enumC_length`.
-/
set_option linter.unusedSimpArgs false
set_option linter.unusedVariables false
namespace EnumScan
open SchemaScan (Cls classify)

/-! ### layout with comments, on bytes -/

inductive PieceB
  | blank (c : UInt8)
  | inl (sp txt : List UInt8) (nl : UInt8)      -- `//` sp txt nl
  | ml (ws txt : List UInt8)                    -- `/*` ws txt `*/`
  deriving Repr

def PieceB.render : PieceB → List UInt8
  | .blank c => [c]
  | .inl sp txt nl => 47 :: 47 :: (sp ++ (txt ++ [nl]))
  | .ml ws txt => 47 :: 42 :: (ws ++ (txt ++ [42, 47]))

def PieceB.cls : PieceB → Piece
  | .blank c => .blank (classify c)
  | .inl sp txt _ => .inl (sp.map classify) (txt.map classify)
  | .ml ws txt => .ml (ws.map classify) (txt.map classify)

/-- a blank byte; `//`, spaces / tabs, a text without line break that does not begin with a space / tab, a line break
(LF or CR); `/*`, blanks, a text without `*/` that does not begin with a blank, `*/` -/
def PieceB.Valid (p : PieceB) : Prop :=
  p.cls.Valid ∧ (match p with | .inl _ _ nl => classify nl = .nl | _ => True)

/-- the piece with every comment byte overwritten by a space (the line break of `//` and the blanks in front of the
text of `/* */` stay) -/
def PieceB.blankOut : PieceB → List UInt8
  | .blank c => [c]
  | .inl sp txt nl => 32 :: 32 :: (sp ++ (List.replicate txt.length 32 ++ [nl]))
  | .ml ws txt => 32 :: 32 :: (ws ++ (List.replicate txt.length 32 ++ [32, 32]))

abbrev LayB := List PieceB

def LayB.render : LayB → List UInt8
  | [] => []
  | p :: L => p.render ++ LayB.render L

def LayB.blankOut : LayB → List UInt8
  | [] => []
  | p :: L => p.blankOut ++ LayB.blankOut L

def LayB.cls (L : LayB) : Lay := L.map PieceB.cls

def LayB.Valid (L : LayB) : Prop := ∀ p ∈ L, p.Valid

theorem classify_slash : classify 47 = .slash := by decide
theorem classify_star : classify 42 = .star := by decide
theorem classify_sp : classify 32 = .sp := by decide

theorem PieceB.render_map (p : PieceB) (hv : p.Valid) : p.render.map classify = p.cls.render := by
  cases p with
  | blank c => rfl
  | inl sp txt nl =>
    have : classify nl = .nl := hv.2
    simp [PieceB.render, PieceB.cls, Piece.render, classify_slash, this]
  | ml ws txt => simp [PieceB.render, PieceB.cls, Piece.render, classify_slash, classify_star]

theorem LayB.render_map (L : LayB) (hv : L.Valid) : (LayB.render L).map classify = Lay.render L.cls := by
  induction L with
  | nil => rfl
  | cons p L ih =>
    simp only [LayB.render, LayB.cls, List.map_cons, Lay.render, List.map_append]
    rw [p.render_map (hv p (by simp))]
    congr 1
    exact ih (fun x hx => hv x (by simp [hx]))

theorem LayB.render_length (L : LayB) (hv : L.Valid) : (Lay.render L.cls).length = (LayB.render L).length := by
  rw [← LayB.render_map L hv, List.length_map]

theorem LayB.cls_valid (L : LayB) (hv : L.Valid) : L.cls.Valid := by
  intro p hp
  simp only [LayB.cls, List.mem_map] at hp
  obtain ⟨q, hq, rfl⟩ := hp
  exact (hv q hq).1

theorem PieceB.blankOut_length (p : PieceB) : p.blankOut.length = p.render.length := by
  cases p <;> simp [PieceB.blankOut, PieceB.render]

theorem LayB.blankOut_length (L : LayB) : (LayB.blankOut L).length = (LayB.render L).length := by
  induction L with
  | nil => rfl
  | cons p L ih => simp [LayB.blankOut, LayB.render, ih, p.blankOut_length]

theorem isWs_replicate_sp (n : Nat) : IsWs ((List.replicate n (32 : UInt8)).map classify) := by
  intro c hc
  simp only [List.map_replicate, List.mem_replicate] at hc
  rw [hc.2, classify_sp]; rfl

theorem isWs_of_isSp {l : List Cls} (h : IsSp l) : IsWs l := by
  intro c hc
  have := h c hc
  simp [Cls.isBlank, this]

theorem IsWs.append {a b : List Cls} (ha : IsWs a) (hb : IsWs b) : IsWs (a ++ b) := by
  intro c hc
  rcases List.mem_append.mp hc with h | h
  · exact ha c h
  · exact hb c h

theorem PieceB.blankOut_ws (p : PieceB) (hv : p.Valid) : IsWsB p.blankOut := by
  cases p with
  | blank c => intro x hx; simp [PieceB.blankOut] at hx; subst hx; exact hv.1
  | inl sp txt nl =>
    have hnl : classify nl = .nl := hv.2
    have hsp : IsWs (sp.map classify) := isWs_of_isSp hv.1.1
    unfold IsWsB
    simp only [PieceB.blankOut, List.map_cons, List.map_append, List.map_nil, classify_sp, hnl]
    intro c hc
    simp only [List.mem_cons, List.mem_append, List.not_mem_nil, or_false] at hc
    rcases hc with rfl | rfl | h | h | rfl
    · rfl
    · rfl
    · exact hsp c h
    · exact isWs_replicate_sp _ c h
    · rfl
  | ml ws txt =>
    have hws : IsWs (ws.map classify) := hv.1.1
    unfold IsWsB
    simp only [PieceB.blankOut, List.map_cons, List.map_append, List.map_nil, classify_sp]
    intro c hc
    simp only [List.mem_cons, List.mem_append, List.not_mem_nil, or_false] at hc
    rcases hc with rfl | rfl | h | h | rfl | rfl
    · rfl
    · rfl
    · exact hws c h
    · exact isWs_replicate_sp _ c h
    · rfl
    · rfl

theorem LayB.blankOut_ws (L : LayB) (hv : L.Valid) : IsWsB (LayB.blankOut L) := by
  induction L with
  | nil => intro c hc; simp [LayB.blankOut] at hc
  | cons p L ih =>
    unfold IsWsB
    simp only [LayB.blankOut, List.map_append]
    exact IsWs.append (p.blankOut_ws (hv p (by simp))) (ih (fun x hx => hv x (by simp [hx])))

/-! ### the comments' own events, and what is left without them -/

def LexT.isComment : LexT → Bool
  | .inlAnnB | .inlAnnE | .inlTxtB | .inlTxtE | .mlAnnB | .mlAnnE | .mlTxtB | .mlTxtE => true
  | _ => false

/-- the events that are not a comment's own -/
def dropComments (evs : List Ev) : List Ev := evs.filter (fun e => !e.ty.isComment)

theorem dropComments_append (a b : List Ev) : dropComments (a ++ b) = dropComments a ++ dropComments b := by
  simp [dropComments]

theorem dropComments_nl (ws : List Cls) : ∀ o, dropComments (nlEvs o ws) = nlEvs o ws := by
  induction ws with
  | nil => intro o; rfl
  | cons c cs ih =>
    intro o
    simp only [nlEvs, dropComments_append, ih]
    split <;> rfl

theorem nlEvs_append (a b : List Cls) : ∀ o, nlEvs o (a ++ b) = nlEvs o a ++ nlEvs (o + a.length) b := by
  induction a with
  | nil => intro o; simp [nlEvs]
  | cons c cs ih =>
    intro o
    simp only [List.cons_append, nlEvs, ih, List.length_cons, List.append_assoc]
    rw [show o + 1 + cs.length = o + (cs.length + 1) by omega]

theorem nlEvs_noNl (l : List Cls) (h : ∀ c ∈ l, c.isNewLine = false) : ∀ o, nlEvs o l = [] := by
  induction l with
  | nil => intro o; rfl
  | cons c cs ih =>
    intro o
    simp only [nlEvs, h c (by simp), Bool.false_eq_true, if_false, List.nil_append]
    exact ih (fun x hx => h x (by simp [hx])) _

theorem nlEvs_replicate_sp (n : Nat) (o : Nat) : nlEvs o ((List.replicate n (32 : UInt8)).map classify) = [] := by
  apply nlEvs_noNl
  intro c hc
  simp only [List.map_replicate, List.mem_replicate] at hc
  rw [hc.2, classify_sp]; rfl

theorem nlEvs_sp (l : List Cls) (h : IsSp l) (o : Nat) : nlEvs o l = [] := by
  apply nlEvs_noNl
  intro c hc
  have := h c hc
  cases c <;> simp [Cls.isSpace] at this <;> rfl

/-- without the comment's own events a piece delivers what its blanked-out bytes deliver -/
theorem PieceB.dropComments_evs (p : PieceB) (hv : p.Valid) (o : Nat) :
    dropComments (p.cls.evs o) = nlEvsB o p.blankOut := by
  cases p with
  | blank c => simp only [PieceB.cls, Piece.evs, dropComments_nl]; rfl
  | inl sp txt nl =>
    have hnl : classify nl = .nl := hv.2
    have hsp : IsSp (sp.map classify) := hv.1.1
    simp only [PieceB.cls, Piece.evs, inlEvs, PieceB.blankOut, nlEvsB, List.map_cons, List.map_append, List.map_nil,
      classify_sp, hnl]
    rw [show ∀ (x y : Cls) (l : List Cls), x :: y :: l = [x, y] ++ l from fun _ _ _ => rfl]
    simp only [nlEvs_append, nlEvs_sp _ hsp, nlEvs_replicate_sp, List.nil_append, List.length_cons, List.length_nil,
      List.length_map, List.length_replicate]
    simp [dropComments, LexT.isComment, nlEvs, Cls.isNewLine]
  | ml ws txt =>
    simp only [PieceB.cls, Piece.evs, mlEvs, PieceB.blankOut, nlEvsB, List.map_cons, List.map_append, List.map_nil,
      classify_sp]
    rw [show ∀ (x y : Cls) (l : List Cls), x :: y :: l = [x, y] ++ l from fun _ _ _ => rfl]
    simp only [nlEvs_append, nlEvs_replicate_sp, List.nil_append, List.length_cons, List.length_nil,
      List.length_map, List.length_replicate]
    rw [show ∀ (x : Ev) (l : List Ev), x :: l = [x] ++ l from fun _ _ => rfl]
    simp only [dropComments_append, dropComments_nl]
    simp [dropComments, LexT.isComment, nlEvs, Cls.isNewLine]

def layEvsB (o : Nat) (L : LayB) : List Ev := layEvs o L.cls

theorem LayB.dropComments_evs (L : LayB) (hv : L.Valid) : ∀ o,
    dropComments (layEvsB o L) = nlEvsB o (LayB.blankOut L) := by
  induction L with
  | nil => intro o; rfl
  | cons p L ih =>
    intro o
    have hp := hv p (by simp)
    simp only [layEvsB, LayB.cls, List.map_cons, layEvs, dropComments_append, LayB.blankOut, nlEvsB, List.map_append,
      nlEvs_append]
    rw [p.dropComments_evs hp o]
    have := ih (fun x hx => hv x (by simp [hx])) (o + p.cls.render.length)
    simp only [layEvsB, LayB.cls, nlEvsB] at this
    rw [this]
    simp only [nlEvsB, List.length_map, p.blankOut_length]
    rw [← p.render_map hp, List.length_map]

/-! ### the text -/

/-- layout, token, layout -/
abbrev ItemC := LayB × List UInt8 × LayB

def renderItemsC : List ItemC → List UInt8
  | [] => [93]
  | (l1, t, l2) :: its =>
    LayB.render l1 ++ (t ++ (LayB.render l2 ++ ((if its.isEmpty then [] else [44]) ++ renderItemsC its)))

/-- `pre [ ws0 items ] post` -/
def renderEnumC (pre : List UInt8) (ws0 : LayB) (items : List ItemC) (post : LayB) : List UInt8 :=
  pre ++ (91 :: (LayB.render ws0 ++ (renderItemsC items ++ LayB.render post)))

def ValidItemsC (its : List ItemC) : Prop :=
  ∀ it ∈ its, LayB.Valid it.1 ∧ IsTok (it.2.1.map classify) ∧ LayB.Valid it.2.2

def GValidItemsC (its : List ItemC) : Prop :=
  ∀ it ∈ its, LayB.Valid it.1 ∧ GTok (it.2.1.map classify) ∧ LayB.Valid it.2.2

theorem GValidItemsC.valid {its : List ItemC} (h : GValidItemsC its) : ValidItemsC its :=
  fun it hit => ⟨(h it hit).1, (h it hit).2.1.isTok, (h it hit).2.2⟩

def evsItemsC (a : Nat) : Nat → List ItemC → List Ev
  | o, [] => [⟨.arrE, a, o⟩]
  | o, (l1, t, l2) :: its =>
    layEvsB o l1 ++ (itemEvs (o + (LayB.render l1).length) (o + (LayB.render l1).length + t.length) ++
      (layEvsB (o + (LayB.render l1).length + t.length) l2 ++
        evsItemsC a (o + (LayB.render l1).length + t.length + (LayB.render l2).length + (if its.isEmpty then 0 else 1)) its))

/-- the expected events of `renderEnumC pre ws0 items post` -/
def enumEvsC (pre : List UInt8) (ws0 : LayB) (items : List ItemC) (post : LayB) : List Ev :=
  ⟨.arrB, pre.length, pre.length⟩ ::
    (layEvsB (pre.length + 1) ws0 ++
      (evsItemsC pre.length (pre.length + 1 + (LayB.render ws0).length) items ++
        layEvsB (pre.length + 1 + (LayB.render ws0).length + (renderItemsC items).length) post))

def itemKeyC (it : ItemC) : List UInt8 × Bool := tokKey it.2.1

/-- the item with its comments blanked out -/
def blankItem (it : ItemC) : Item := (LayB.blankOut it.1, it.2.1, LayB.blankOut it.2.2)

theorem itemKey_blankItem (it : ItemC) : itemKey (blankItem it) = itemKeyC it := rfl

def FreshAllC : List (List UInt8 × Bool) → List ItemC → Prop
  | _, [] => True
  | uq, it :: its => itemKeyC it ∉ uq ∧ FreshAllC (itemKeyC it :: uq) its

theorem freshAllC_of_nodup (its : List ItemC) : ∀ (uq : List (List UInt8 × Bool)),
    (∀ it ∈ its, itemKeyC it ∉ uq) → (its.map itemKeyC).Nodup → FreshAllC uq its := by
  induction its with
  | nil => intro _ _ _; trivial
  | cons it its ih =>
    intro uq h1 h2
    simp only [List.map_cons, List.nodup_cons] at h2
    refine ⟨h1 it (by simp), ih _ ?_ h2.2⟩
    intro x hx hmem
    simp only [List.mem_cons] at hmem
    rcases hmem with h | h
    · exact h2.1 (by rw [← h]; exact List.mem_map_of_mem hx)
    · exact h1 x (by simp [hx]) h

/-- the segment of classes of a byte segment whose classes are known -/
theorem segA_of_split' (bs seg : List UInt8) (cl : List Cls) (hcl : seg.map classify = cl) (front back : List UInt8)
    (o : Nat) (h : bs = front ++ (seg ++ back)) (ho : front.length = o) : SegA (bs.map classify).toArray o cl := by
  rw [← hcl]; exact segA_of_split bs seg front back o h ho

/-! ### the items -/

theorem item_seg_map (l1 : LayB) (t : List UInt8) (l2 : LayB) (x : UInt8) (h1 : l1.Valid) (h2 : l2.Valid) :
    (LayB.render l1 ++ (t ++ (LayB.render l2 ++ [x]))).map classify
      = Lay.render l1.cls ++ (t.map classify ++ (Lay.render l2.cls ++ [classify x])) := by
  simp only [List.map_append, List.map_cons, List.map_nil, LayB.render_map l1 h1, LayB.render_map l2 h2]

theorem itemsC_pre (bs : List UInt8) (a : Nat) (lc : Bool) : ∀ (its : List ItemC) (first : Bool)
    (uq : List (List UInt8 × Bool)) (front back : List UInt8) (o : Nat),
    ValidItemsC its → (its = [] → first = true) → bs = front ++ (renderItemsC its ++ back) → front.length = o →
    FreshAllC uq its →
    ∃ uq', PreT bs.toArray (bs.map classify).toArray
      ⟨stFirst first, [], [(.arrB, a)], [], o, false, false, lc, false, uq⟩ (evsItemsC a o its)
      ⟨.endValue, [], [], [], o + (renderItemsC its).length, false, false, lc, false, uq'⟩ := by
  intro its
  induction its with
  | nil =>
    intro first uq front back o _ hf hbs ho _
    rw [hf rfl]
    refine ⟨uq, ?_⟩
    have hs := segA_of_split bs [93] front back o (by simpa [renderItemsC] using hbs) ho
    exact preT_rbrack_empty a o lc false uq (by simpa [classify_rbrack] using hs.1)
  | cons it its ih =>
    intro first uq front back o hv _ hbs ho hfr
    obtain ⟨l1, t, l2⟩ := it
    obtain ⟨hl1, htk, hl2⟩ : LayB.Valid l1 ∧ IsTok (t.map classify) ∧ LayB.Valid l2 := hv (l1, t, l2) (by simp)
    have hv' : ValidItemsC its := fun x hx => hv x (by simp [hx])
    obtain ⟨hk, hfr'⟩ := hfr
    have hst : stFirst first = .arrItemOrEmpty ∨ stFirst first = .arrItem := by cases first <;> simp [stFirst]
    have len1 := LayB.render_length l1 hl1
    have len2 := LayB.render_length l2 hl2
    have hkey : keyAt bs.toArray (o + (LayB.render l1).length) t.length = tokKey t :=
      keyAt_of_split bs t (front ++ LayB.render l1)
        (LayB.render l2 ++ ((if its.isEmpty then [] else [44]) ++ renderItemsC its) ++ back) _
        (by rw [hbs]; simp [renderItemsC, List.append_assoc]) (by simp [ho]) htk
    cases its with
    | nil =>
      have hs := segA_of_split' bs (LayB.render l1 ++ (t ++ (LayB.render l2 ++ [93]))) _
        (item_seg_map l1 t l2 93 hl1 hl2) front back o
        (by rw [hbs]; simp [renderItemsC, List.append_assoc]) ho
      rw [classify_rbrack] at hs
      have h := itemC_pre (content := bs.toArray) hst l1.cls (t.map classify) l2.cls (LayB.cls_valid l1 hl1) htk
        (LayB.cls_valid l2 hl2) (Or.inr rfl) a o lc uq hs
        (by simp only [List.length_map, len1]; rw [hkey]; exact contains_false_of_not_mem hk)
      simp only [List.length_map, len1, len2] at h
      refine ⟨keyAt bs.toArray (o + (LayB.render l1).length) t.length :: uq, ?_⟩
      have e : o + (renderItemsC [(l1, t, l2)]).length
          = o + (LayB.render l1).length + t.length + (LayB.render l2).length + 1 := by
        simp [renderItemsC]; omega
      rw [e]
      exact h.cast (by simp [evsItemsC, layEvsB, delimEvs])
    | cons it2 its2 =>
      have hs := segA_of_split' bs (LayB.render l1 ++ (t ++ (LayB.render l2 ++ [44]))) _
        (item_seg_map l1 t l2 44 hl1 hl2) front (renderItemsC (it2 :: its2) ++ back) o
        (by rw [hbs]; simp [renderItemsC, List.append_assoc]) ho
      rw [classify_comma] at hs
      have h := itemC_pre (content := bs.toArray) hst l1.cls (t.map classify) l2.cls (LayB.cls_valid l1 hl1) htk
        (LayB.cls_valid l2 hl2) (Or.inl rfl) a o lc uq hs
        (by simp only [List.length_map, len1]; rw [hkey]; exact contains_false_of_not_mem hk)
      simp only [List.length_map, len1, len2] at h
      rw [hkey] at h
      obtain ⟨uq', h2⟩ := ih false (tokKey t :: uq) (front ++ (LayB.render l1 ++ (t ++ (LayB.render l2 ++ [44])))) back
        (o + (LayB.render l1).length + t.length + (LayB.render l2).length + 1) hv' (by simp)
        (by rw [hbs]; simp [renderItemsC, List.append_assoc]) (by simp [ho]; omega) hfr'
      refine ⟨uq', ?_⟩
      have e : o + (renderItemsC ((l1, t, l2) :: it2 :: its2)).length
          = o + (LayB.render l1).length + t.length + (LayB.render l2).length + 1 + (renderItemsC (it2 :: its2)).length := by
        simp [renderItemsC]; omega
      rw [e]
      exact (h.trans h2).cast (by simp [evsItemsC, layEvsB, delimEvs, List.append_assoc])

theorem layEvsB_length_le (o : Nat) (L : LayB) (hv : L.Valid) : (layEvsB o L).length ≤ 3 * (LayB.render L).length := by
  have := layEvs_length_le L.cls o
  rw [LayB.render_length L hv] at this
  exact this

theorem evsItemsC_length_le (a : Nat) (its : List ItemC) : ∀ (o : Nat), ValidItemsC its →
    (evsItemsC a o its).length ≤ 4 * (renderItemsC its).length := by
  induction its with
  | nil => intro o _; simp [evsItemsC, renderItemsC]
  | cons it its ih =>
    intro o hv
    obtain ⟨l1, t, l2⟩ := it
    obtain ⟨hl1, htk, hl2⟩ : LayB.Valid l1 ∧ IsTok (t.map classify) ∧ LayB.Valid l2 := hv (l1, t, l2) (by simp)
    have ht := htk.length_pos
    simp only [List.length_map] at ht
    have h1 := layEvsB_length_le o l1 hl1
    have h2 := layEvsB_length_le (o + (LayB.render l1).length + t.length) l2 hl2
    have h3 := ih (o + (LayB.render l1).length + t.length + (LayB.render l2).length + (if its.isEmpty then 0 else 1))
      (fun x hx => hv x (by simp [hx]))
    simp only [evsItemsC, renderItemsC, itemEvs, List.length_append, List.length_cons, List.length_nil]
    omega

theorem renderEnumC_length (pre : List UInt8) (ws0 post : LayB) (items : List ItemC) :
    (renderEnumC pre ws0 items post).length
      = pre.length + 1 + (LayB.render ws0).length + (renderItemsC items).length + (LayB.render post).length := by
  simp [renderEnumC]; omega

theorem enumEvsC_length_le (pre : List UInt8) (ws0 post : LayB) (items : List ItemC) (hws0 : ws0.Valid)
    (hpost : post.Valid) (hv : ValidItemsC items) :
    (enumEvsC pre ws0 items post).length ≤ 4 * (renderEnumC pre ws0 items post).length := by
  have h1 := layEvsB_length_le (pre.length + 1) ws0 hws0
  have h2 := layEvsB_length_le (pre.length + 1 + (LayB.render ws0).length + (renderItemsC items).length) post hpost
  have h3 := evsItemsC_length_le pre.length items (pre.length + 1 + (LayB.render ws0).length) hv
  rw [renderEnumC_length]
  simp only [enumEvsC, List.length_cons, List.length_append]
  omega

/-- the whole text, for both modes of the scanner (`lc` = `lengthComputing`) -/
theorem enumC_out (lc : Bool) (pre : List UInt8) (ws0 post : LayB) (items : List ItemC)
    (hpre : IsWsB pre) (hws0 : ws0.Valid) (hpost : post.Valid) (hv : ValidItemsC items)
    (hnd : (items.map itemKeyC).Nodup) :
    OutT (renderEnumC pre ws0 items post).toArray ((renderEnumC pre ws0 items post).map classify).toArray
      ⟨.begin, [], [], [], 0, false, false, lc, false, []⟩
      (enumEvsC pre ws0 items post).length (.ok (enumEvsC pre ws0 items post)) := by
  generalize hbs : renderEnumC pre ws0 items post = bs
  have hbs' : bs = pre ++ (91 :: (LayB.render ws0 ++ (renderItemsC items ++ LayB.render post))) := by rw [← hbs]; rfl
  have s1 := segA_of_split bs pre [] (91 :: (LayB.render ws0 ++ (renderItemsC items ++ LayB.render post))) 0
    (by simpa using hbs') rfl
  have h1 := preT_ws_begin (content := bs.toArray) lc false [] (pre.map classify) hpre 0 s1
  have s2 := segA_of_split bs [91] pre (LayB.render ws0 ++ (renderItemsC items ++ LayB.render post)) pre.length
    (by simpa using hbs') rfl
  have s2' : ((bs.map classify).toArray)[pre.length]? = some .lbrack := by
    have := s2.1; rw [classify_lbrack] at this; exact this
  have h2 := preT_lbrack (content := bs.toArray) pre.length lc false [] s2'
  have s3 := segA_of_split' bs (LayB.render ws0) _ (LayB.render_map ws0 hws0) (pre ++ [91])
    (renderItemsC items ++ LayB.render post) (pre.length + 1) (by simpa using hbs') (by simp)
  have h3 := preT_lay_loop (content := bs.toArray) (st := .arrItemOrEmpty) (Or.inl rfl) pre.length lc false []
    ws0.cls (LayB.cls_valid ws0 hws0) (pre.length + 1) s3
  obtain ⟨uq', h4⟩ := itemsC_pre bs pre.length lc items true [] (pre ++ 91 :: LayB.render ws0) (LayB.render post)
    (pre.length + 1 + (LayB.render ws0).length)
    hv (fun _ => rfl) (by simpa using hbs') (by simp; omega) (freshAllC_of_nodup items [] (by simp) hnd)
  have s5 := segA_of_split' bs (LayB.render post) _ (LayB.render_map post hpost)
    (pre ++ 91 :: (LayB.render ws0 ++ renderItemsC items)) []
    (pre.length + 1 + (LayB.render ws0).length + (renderItemsC items).length) (by simpa using hbs') (by simp; omega)
  have h5 := preT_lay_end (content := bs.toArray) lc uq' post.cls (LayB.cls_valid post hpost)
    (pre.length + 1 + (LayB.render ws0).length + (renderItemsC items).length) s5
  have hsz : ((bs.map classify).toArray).size
      = pre.length + 1 + (LayB.render ws0).length + (renderItemsC items).length + (Lay.render post.cls).length := by
    rw [hbs', LayB.render_length post hpost]; simp; omega
  have h6 : OutT bs.toArray (bs.map classify).toArray
      ⟨endSt post.cls, [], [], [],
        pre.length + 1 + (LayB.render ws0).length + (renderItemsC items).length + (Lay.render post.cls).length,
        false, false, lc, false, uq'⟩ 0 (.ok []) :=
    OutT.eof rfl (by simp only []; omega) rfl
  simp only [List.length_map, Nat.zero_add, LayB.render_length ws0 hws0] at h1 h3
  have h := ((((h1.trans h2).trans h3).trans h4).trans h5) _ _ h6
  refine h.cast ?_ ?_
  · simp [enumEvsC, layEvsB]
  · simp [enumEvsC, layEvsB, Except.map]

/-- **events**: a list of literals with pairwise distinct keys, comments anywhere in the layout, is scanned into
exactly the expected events -/
theorem enumC_events' (pre : List UInt8) (ws0 post : LayB) (items : List ItemC)
    (hpre : IsWsB pre) (hws0 : ws0.Valid) (hpost : post.Valid) (hv : ValidItemsC items)
    (hnd : (items.map itemKeyC).Nodup) :
    scanAll (renderEnumC pre ws0 items post) = .ok (enumEvsC pre ws0 items post) := by
  unfold scanAll
  have h := enumC_out false pre ws0 post items hpre hws0 hpost hv hnd
  refine OutT_events _ _ h _ ?_
  have := enumEvsC_length_le pre ws0 post items hws0 hpost hv
  simp only [List.size_toArray, List.length_map]
  omega

theorem enumC_events (pre : List UInt8) (ws0 post : LayB) (items : List ItemC)
    (hpre : IsWsB pre) (hws0 : ws0.Valid) (hpost : post.Valid) (hv : GValidItemsC items)
    (hnd : (items.map itemKeyC).Nodup) :
    scanAll (renderEnumC pre ws0 items post) = .ok (enumEvsC pre ws0 items post) :=
  enumC_events' pre ws0 post items hpre hws0 hpost hv.valid hnd

/-! ### comments ignored -/

theorem renderItems_blank_length (its : List ItemC) :
    (renderItems (its.map blankItem)).length = (renderItemsC its).length := by
  induction its with
  | nil => rfl
  | cons it its ih =>
    obtain ⟨l1, t, l2⟩ := it
    simp only [List.map_cons, blankItem, renderItems, renderItemsC, List.length_append, LayB.blankOut_length, ih,
      List.isEmpty_map]

theorem dropComments_itemEvs (o1 o2 : Nat) : dropComments (itemEvs o1 o2) = itemEvs o1 o2 := rfl

theorem dropComments_evsItemsC (a : Nat) (its : List ItemC) : ∀ (o : Nat), ValidItemsC its →
    dropComments (evsItemsC a o its) = evsItems a o (its.map blankItem) := by
  induction its with
  | nil => intro o _; rfl
  | cons it its ih =>
    intro o hv
    obtain ⟨l1, t, l2⟩ := it
    obtain ⟨hl1, _, hl2⟩ : LayB.Valid l1 ∧ IsTok (t.map classify) ∧ LayB.Valid l2 := hv (l1, t, l2) (by simp)
    simp only [evsItemsC, List.map_cons, blankItem, evsItems, dropComments_append, dropComments_itemEvs,
      LayB.dropComments_evs l1 hl1, LayB.dropComments_evs l2 hl2, LayB.blankOut_length, List.isEmpty_map]
    rw [ih _ (fun x hx => hv x (by simp [hx]))]

/-- **comments ignored**: without the comments' own events the expected events are, spans included, those of the text
whose comment bytes are overwritten by blanks -/
theorem enumC_filter (pre : List UInt8) (ws0 post : LayB) (items : List ItemC)
    (hws0 : ws0.Valid) (hpost : post.Valid) (hv : ValidItemsC items) :
    dropComments (enumEvsC pre ws0 items post)
      = enumEvsOf pre (LayB.blankOut ws0) (items.map blankItem) (LayB.blankOut post) := by
  simp only [enumEvsC, enumEvsOf]
  rw [show ∀ (x : Ev) (l : List Ev), x :: l = [x] ++ l from fun _ _ => rfl]
  simp only [dropComments_append, LayB.dropComments_evs ws0 hws0, LayB.dropComments_evs post hpost,
    dropComments_evsItemsC pre.length items _ hv, LayB.blankOut_length, renderItems_blank_length]
  rfl

theorem blank_valid (items : List ItemC) (hv : GValidItemsC items) : GValidItems (items.map blankItem) := by
  intro it hit
  simp only [List.mem_map] at hit
  obtain ⟨x, hx, rfl⟩ := hit
  obtain ⟨h1, h2, h3⟩ := hv x hx
  exact ⟨LayB.blankOut_ws _ h1, h2, LayB.blankOut_ws _ h3⟩

theorem renderEnum_blank_length (pre : List UInt8) (ws0 post : LayB) (items : List ItemC) :
    (renderEnum pre (LayB.blankOut ws0) (items.map blankItem) (LayB.blankOut post)).length
      = (renderEnumC pre ws0 items post).length := by
  rw [renderEnum_length, renderEnumC_length, LayB.blankOut_length, LayB.blankOut_length, renderItems_blank_length]

/-! ### `Values` -/

theorem valuesOf_noLit (bs : List UInt8) (evs : List Ev) (h : ∀ e ∈ evs, e.ty ≠ .litE) : valuesOf bs evs = [] := by
  unfold valuesOf
  rw [List.filter_eq_nil_iff.mpr]
  · rfl
  · intro e he
    have := h e he
    simp [this]

theorem layEvs_noLit (L : Lay) : ∀ (o : Nat), ∀ e ∈ layEvs o L, e.ty ≠ .litE := by
  induction L with
  | nil => intro o e he; simp [layEvs] at he
  | cons p L ih =>
    intro o e he
    simp only [layEvs, List.mem_append] at he
    rcases he with h | h
    · cases p with
      | blank c =>
        simp only [Piece.evs, nlEvs, List.append_nil] at h
        split at h
        · simp at h; subst h; simp
        · simp at h
      | inl sp txt =>
        simp only [Piece.evs, inlEvs, List.mem_cons, List.not_mem_nil, or_false] at h
        rcases h with rfl | rfl | rfl | rfl | rfl <;> simp
      | ml ws txt =>
        simp only [Piece.evs, mlEvs, List.mem_cons, List.mem_append, List.not_mem_nil, or_false] at h
        rcases h with rfl | h | rfl | rfl | rfl
        · simp
        · intro hty
          have : valuesOf [] (nlEvs (o + 1 + 1) ws) = [] := valuesOf_nl [] ws _
          unfold valuesOf at this
          have hm : e ∈ (nlEvs (o + 1 + 1) ws).filter (fun e => e.ty == .litE) := by
            simp [List.mem_filter, h, hty]
          rw [List.map_eq_nil_iff] at this
          rw [this] at hm
          cases hm
        · simp
        · simp
        · simp
    · exact ih _ e h

theorem valuesOf_layB (bs : List UInt8) (o : Nat) (L : LayB) : valuesOf bs (layEvsB o L) = [] :=
  valuesOf_noLit bs _ (layEvs_noLit L.cls o)

theorem valuesOf_itemsC (bs : List UInt8) (a : Nat) (its : List ItemC) : ∀ (o : Nat) (front back : List UInt8),
    ValidItemsC its → bs = front ++ (renderItemsC its ++ back) → front.length = o →
    valuesOf bs (evsItemsC a o its) = its.map (·.2.1) := by
  induction its with
  | nil => intro o _ _ _ _ _; rfl
  | cons it its ih =>
    intro o front back hv hbs ho
    obtain ⟨l1, t, l2⟩ := it
    obtain ⟨_, htk, _⟩ : LayB.Valid l1 ∧ IsTok (t.map classify) ∧ LayB.Valid l2 := hv (l1, t, l2) (by simp)
    have ht := htk.length_pos
    simp only [List.length_map] at ht
    have h2 := ih (o + (LayB.render l1).length + t.length + (LayB.render l2).length + (if its.isEmpty then 0 else 1))
      (front ++ (LayB.render l1 ++ (t ++ (LayB.render l2 ++ (if its.isEmpty then [] else [44]))))) back
      (fun x hx => hv x (by simp [hx])) (by rw [hbs]; simp [renderItemsC, List.append_assoc])
      (by cases its <;> simp [ho] <;> omega)
    have hslice : (bs.drop (o + (LayB.render l1).length)).take
        (o + (LayB.render l1).length + t.length - 1 + 1 - (o + (LayB.render l1).length)) = t := by
      have e : o + (LayB.render l1).length + t.length - 1 + 1 - (o + (LayB.render l1).length) = t.length := by omega
      have e2 : bs = (front ++ LayB.render l1) ++
          (t ++ (LayB.render l2 ++ ((if its.isEmpty then [] else [44]) ++ renderItemsC its) ++ back)) := by
        rw [hbs]; simp [renderItemsC, List.append_assoc]
      rw [e, e2, List.drop_left' (by simp [ho]), List.take_left]
    simp only [evsItemsC, valuesOf_append, valuesOf_layB, h2, List.nil_append, List.map_cons]
    simp [valuesOf, itemEvs, hslice]

/-- **Values lists the literals in source order**, whatever comments stand between them -/
theorem enumC_values (pre : List UInt8) (ws0 post : LayB) (items : List ItemC) (hv : ValidItemsC items) :
    valuesOf (renderEnumC pre ws0 items post) (enumEvsC pre ws0 items post) = items.map (·.2.1) := by
  have h := valuesOf_itemsC (renderEnumC pre ws0 items post) pre.length items
    (pre.length + 1 + (LayB.render ws0).length)
    (pre ++ 91 :: LayB.render ws0) (LayB.render post) hv (by simp [renderEnumC]) (by simp; omega)
  simp only [enumEvsC]
  rw [show ∀ (x : Ev) (l : List Ev), x :: l = [x] ++ l from fun _ _ => rfl]
  simp only [valuesOf_append, valuesOf_layB, h, List.append_nil]
  rfl

end EnumScan
