import JSight.C02TextQ
/-!
C02 at TEXT level, third part — an admissible rule set (`okRulesE`) has LIST values only under `or` / `enum` / `allOf`:
every other constraint constructor refuses a value that begins with `[` (`createRule_list`), and a `type` rule with such
a value — which the constructor lets pass — is refused by `compileNode` (`typeOK` / the `enum` class's `type: "enum"`).
So the hypothesis `GObj.listsEmb` of `load_gannot` follows from `okRulesE`, and `C02_text_is_closed_extended` holds as
stated.
-/
namespace C02T
open Compile Lay SchemaScan

theorem ne91 (t l : Bytes) (h : l.head? ≠ some 91) : ((91 :: t : Bytes) == l) = false := by
  cases l with
  | nil => rfl
  | cons b m =>
    rw [Bool.eq_false_iff]
    intro heq
    have := eq_of_beq heq
    injection this with h1 _
    exact h (by simp [← h1])

theorem parseUint91 (t : Bytes) : parseUint (91 :: t) = none := by simp [parseUint, isDigit]

theorem number91 (t : Bytes) : RulesF.number (91 :: t) = none := by
  simp [RulesF.number, RulesF.toCh, Num.scan, List.foldlM, Num.Sc.step]

theorem parseBool91 (t : Bytes) : parseBool (91 :: t) = none := by
  simp [parseBool, RulesF.sTrue, RulesF.sFalse]

theorem unq91 (t : Bytes) : unq (91 :: t) = 91 :: t := by
  simp [unq, Unquote.unquote, Unquote.inQuotes]

theorem parseAdd91 (t : Bytes) : parseAdd (91 :: t) = .error (.code 103 0) := by
  have hu : isUserTypeName (91 :: t) = false := by simp [isUserTypeName]
  simp only [parseAdd, unq91, hu,
    ne91 t (sb "any") (by decide +kernel), ne91 t (sb "true") (by decide +kernel), ne91 t (sb "false") (by decide +kernel),
    ne91 t (sb "object") (by decide +kernel), ne91 t (sb "array") (by decide +kernel),
    ne91 t (sb "string") (by decide +kernel), ne91 t (sb "email") (by decide +kernel), ne91 t (sb "uri") (by decide +kernel),
    ne91 t (sb "uuid") (by decide +kernel), ne91 t (sb "date") (by decide +kernel), ne91 t (sb "datetime") (by decide +kernel),
    ne91 t (sb "integer") (by decide +kernel), ne91 t (sb "float") (by decide +kernel),
    ne91 t (sb "decimal") (by decide +kernel), ne91 t (sb "boolean") (by decide +kernel),
    ne91 t (sb "null") (by decide +kernel), ne91 t (sb "enum") (by decide +kernel), ne91 t (sb "mixed") (by decide +kernel),
    ne91 t (sb "comment") (by decide +kernel), Bool.or_self, Bool.false_eq_true, if_false]

theorem known_tag (n : Bytes) (h0 : n ∈ knownRules) : tagOf n ≠ .other := by
  intro ht
  have h : knownRules.contains n = true := by simpa using h0
  simp only [knownRules, List.map_cons, List.map_nil, List.contains_cons, List.contains_nil] at h
  tag_rw at h
  rw [ht] at h
  simp at h

/-- **a value that begins with `[` passes only the constructors of `or`, `enum`, `allOf` — and of `type`** -/
theorem createRule_list (seen : List Bytes) (p : Pair) (t : Bytes) (hv : p.2 = 91 :: t)
    (h : createRule .lit seen (mkR p) = .ok ()) :
    tagOf p.1 = .or ∨ tagOf p.1 = .enum ∨ tagOf p.1 = .allOf ∨ tagOf p.1 = .type := by
  by_cases hk : p.1 ∈ knownRules
  · have hno := known_tag p.1 hk
    unfold createRule at h
    simp only [mkR, hv] at h
    tag_rw at h
    generalize tagOf p.1 = tg at h hno ⊢
    cases tg <;> simp [hk, parseUint91, number91, parseBool91, parseAdd91] at h hno ⊢
  · unfold createRule at h
    simp only [mkR, hv] at h
    simp [hk] at h

theorem createRules_mem : ∀ (ps : List Pair) (seen : List Bytes), createRules .lit seen (mk ps) = .ok () →
    ∀ p ∈ ps, ∃ seen', createRule .lit seen' (mkR p) = .ok ()
  | [], _, _, p, hp => absurd hp List.not_mem_nil
  | q :: ps, seen, h, p, hp => by
    have e : mk (q :: ps) = mkR q :: mk ps := rfl
    rw [e] at h
    simp only [createRules] at h
    cases hc : createRule .lit seen (mkR q) with
    | error e => rw [hc] at h; cases h
    | ok u =>
      cases u
      rw [hc] at h
      rcases List.mem_cons.1 hp with rfl | hp'
      · exact ⟨seen, hc⟩
      · exact createRules_mem ps _ h p hp'

/-- a `type` rule whose value begins with `[` does not pass `compileNode` -/
theorem type_list_refused (ps : List Pair) (jt : JT) (hf : Facts ps) (p : Pair) (hp : p ∈ ps) (t : Bytes)
    (hv : p.2 = 91 :: t) (ht : tagOf p.1 = .type) (hb : okBasicR (mk ps) jt = true ∨ okBasicRE (mk ps) jt = true) :
    False := by
  have hn : p.1 = sb "type" := (tag_iff_of_eq (eq_type p.1)).1 ht
  have hkeep : keepP p = true := by simp [keepP, ht]
  have hmem : p ∈ ps.filter keepP := List.mem_filter.2 ⟨hp, hkeep⟩
  have hnd : ((ps.filter keepP).map (·.1)).Nodup :=
    hf.nodup.sublist (List.Sublist.map _ List.filter_sublist)
  have hfind := findRule_mk_of_mem (ps.filter keepP) hnd p hmem "type" hn
  rcases hb with hb | hb
  · obtain ⟨_, _, _, _, _, h6, _⟩ := okBasicR_parts hb
    rw [filt_mk] at h6
    have hu : isUserTypeName (91 :: t) = false := by simp [isUserTypeName]
    simp only [typeOK, typeVal, hfind, mkR, hv, Option.map_some, Option.getD_some, unq91, hu, fmtOfType, isPlainType,
      ne91 t (sb "mixed") (by decide +kernel), ne91 t (sb "enum") (by decide +kernel),
      ne91 t (sb "any") (by decide +kernel), ne91 t (sb "decimal") (by decide +kernel),
      ne91 t (sb "email") (by decide +kernel), ne91 t (sb "uri") (by decide +kernel),
      ne91 t (sb "uuid") (by decide +kernel), ne91 t (sb "date") (by decide +kernel),
      ne91 t (sb "datetime") (by decide +kernel), ne91 t (sb "object") (by decide +kernel),
      ne91 t (sb "array") (by decide +kernel), ne91 t (sb "string") (by decide +kernel),
      ne91 t (sb "integer") (by decide +kernel), ne91 t (sb "float") (by decide +kernel),
      ne91 t (sb "boolean") (by decide +kernel), ne91 t (sb "null") (by decide +kernel)] at h6
    simp at h6
  · simp only [okBasicRE, Bool.and_eq_true] at hb
    have hty := hb.1.1.1.1.1.1.1.1.1.2
    rw [filt_mk, hfind] at hty
    simp only [mkR, hv] at hty
    have : (some (91 :: t : Bytes) == some (sb "\"enum\"")) = false := by
      have := ne91 t (sb "\"enum\"") (by decide +kernel)
      simpa using this
    rw [this] at hty
    cases hty

/-- **list values sit under `or` / `enum` / `allOf`** in every admissible rule set -/
theorem pairs_listEmb (ex : Bytes) (ps : List Pair) (hok : okRulesE ex ps = true) (p : Pair) (hp : p ∈ ps) (t : Bytes)
    (hv : p.2 = 91 :: t) : embName p.1 = true := by
  simp only [okRulesE, Bool.and_eq_true, Bool.or_eq_true] at hok
  obtain ⟨⟨_, hc⟩, hb⟩ := hok
  have hf := facts_of_okCreate hc
  have hcr : createRules .lit [] (mk ps) = .ok () := by
    unfold okCreate at hc
    cases hcc : createRules .lit [] (mk ps) with
    | error e => rw [hcc] at hc; simp [isOk] at hc
    | ok u => rfl
  obtain ⟨seen', h1⟩ := createRules_mem ps [] hcr p hp
  rcases createRule_list seen' p t hv h1 with h | h | h | h
  · have := (tag_iff_of_eq (eq_or p.1)).1 h
    simp [embName, this, sb]
  · have := (tag_iff_of_eq (eq_enum p.1)).1 h
    simp [embName, this, sb]
  · have := (tag_iff_of_eq (eq_allOf p.1)).1 h
    simp [embName, this, sb]
  · exact (type_list_refused ps _ hf p hp t hv h hb).elim

theorem listsEmb_of_okRulesE (ex : Bytes) (ob : GObj) (hok : okRulesE ex ob.pairs = true) : ob.listsEmb :=
  listsEmb_of_pairs ob (fun p hp t ht => pairs_listEmb ex ob.pairs hok p hp t ht)

/-- **the text pipeline is the closed form on the extended grammar** -/
theorem text_is_closed_extended (a : Ann) (ha : a.isAnn = true) (tok s1 s2 : List UInt8) (ob : GObj) (s3 tl : List UInt8)
    (hv : GAnnValid a tok s1 s2 ob s3 tl) (hok : okRulesE tok ob.pairs = true)
    (d ws0 ws1 : List UInt8) (hd : JsonScan.IsScalar (d.map JsonScan.classify))
    (hw0 : JsonScan.IsWs (ws0.map JsonScan.classify)) (hw1 : JsonScan.IsWs (ws1.map JsonScan.classify)) :
    E2E.validateText (gannText a tok s1 s2 ob s3 tl) [] (ws0 ++ (d ++ ws1)) = closed tok ob.pairs d :=
  text_is_closed_gannot a ha tok s1 s2 ob s3 tl hv (listsEmb_of_okRulesE tok ob hok) hok d ws0 ws1 hd hw0 hw1

end C02T
