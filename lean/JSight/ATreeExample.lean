import JSight.ATreeDefs
import JSight.ExampleTextR
/-!
C15 at text level for ANNOTATED trees, definitions (core Lean only; the driver imports this file):
`ATree.compact` — the compact JSON text of the tree's VALUE (scalar and key tokens byte for byte, no layout, no
comments, no annotations) — and `ATree.exClass`, the decidable class of annotated trees on which the rules do not change
what `Example()` emits: no container carries a rule named `or` or `allOf` (see `ExampleTextR`); scalars may carry any
rules (`min`, `max`, `minLength`, `maxLength`, `regex`, `const`, `nullable`, `optional`, `type`, `precision`,
`exclusiveMinimum`, `enum`, `or`, … — the builder emits the literal token without consulting them), containers any other
rules (`minItems`, `maxItems`, `additionalProperties`, `nullable`, `optional`, `type`, …).
-/
namespace AT
open Loader (joinB changesContainer)

mutual
/-- the compact text of the value of an annotated tree: what `Example()` emits -/
def ATree.compact : ATree → Bytes
  | .scalar tok _ => tok
  | .arr _ items => 91 :: (joinB items.parts ++ [93])
  | .obj _ ms => 123 :: (joinB ms.parts ++ [125])
def AItems.parts : AItems → List Bytes
  | .nil _ => []
  | .cons _ v _ _ rest => v.compact :: rest.parts
def AMembers.parts : AMembers → List Bytes
  | .nil _ => []
  | .cons _ k _ _ v _ _ rest => (k ++ 58 :: v.compact) :: rest.parts
end

/-- the head annotation of a container leaves the builder alone -/
def headIgnored : Option (Gap × Annot) → Bool
  | none => true
  | some (_, a) => !a.ob.names.any changesContainer

mutual
/-- **the class**: no container carries `or` / `allOf` -/
def ATree.exClass : ATree → Bool
  | .scalar _ _ => true
  | .arr an items => headIgnored an && items.exClass
  | .obj an ms => headIgnored an && ms.exClass
def AItems.exClass : AItems → Bool
  | .nil _ => true
  | .cons _ v _ _ rest => v.exClass && rest.exClass
def AMembers.exClass : AMembers → Bool
  | .nil _ => true
  | .cons _ _ _ _ v _ _ rest => v.exClass && rest.exClass
end

end AT
