import JSight.C02TextNames
/-!
C02 at TEXT level, second part: the SPEC form and the rule order.

* `litOKFull_congr` / `litOKFull_perm`: `ValidateLiteralValue` depends on the validator LIST only through its members
  (every validator must pass; the kind gate asks whether an `enum` is among them);
* `createRules_facts`: what `okCreate` implies — the rule names are pairwise distinct, `nullable` / `const` carry a boolean;
* `spec_eq_compiled`: under these facts the node `compileNode` leaves (`compiledOf`: validators in written order, the
  format last, exclusive flags read off the FIRST rule of that name) and `RulesF.compile` of the parsed pairs
  (`specOfRules`) have the same kind, example, nullable flag and the same validators as a set;
* `okRules_perm`, `spec_perm`: the stages' conditions and the verdict are invariant under permutation of the pairs.
-/
namespace C02T
open Compile

/-! ### `litOKFull` and the validator list -/

theorem all_congr_mem {α : Type} {a b : List α} (p : α → Bool) (h : ∀ r, r ∈ a ↔ r ∈ b) : a.all p = b.all p := by
  rw [Bool.eq_iff_iff]
  simp only [List.all_eq_true]
  exact ⟨fun H x hx => H x ((h x).2 hx), fun H x hx => H x ((h x).1 hx)⟩

theorem any_congr_mem {α : Type} {a b : List α} (p : α → Bool) (h : ∀ r, r ∈ a ↔ r ∈ b) : a.any p = b.any p := by
  rw [Bool.eq_iff_iff]
  simp only [List.any_eq_true]
  exact ⟨fun ⟨x, hx, hp⟩ => ⟨x, (h x).1 hx, hp⟩, fun ⟨x, hx, hp⟩ => ⟨x, (h x).2 hx, hp⟩⟩

/-- **the verdict depends on the validators as a SET** -/
theorem litOKFull_congr (o : RulesF.Oracles) (l l' : RulesF.LitSpecF) (hk : l.kind = l'.kind) (he : l.ex = l'.ex)
    (hn : l.nul = l'.nul) (hr : ∀ r, r ∈ l.rules ↔ r ∈ l'.rules) (tok : Bytes) :
    RulesF.litOKFull o l tok = RulesF.litOKFull o l' tok := by
  unfold RulesF.litOKFull RulesF.kindGate RulesF.hasEnum
  rw [hk, he, hn, any_congr_mem _ hr, all_congr_mem _ hr]

/-- … in particular up to permutation -/
theorem litOKFull_perm (o : RulesF.Oracles) (l : RulesF.LitSpecF) (rs' : List RulesF.Rule) (hp : l.rules.Perm rs')
    (tok : Bytes) : RulesF.litOKFull o l tok = RulesF.litOKFull o { l with rules := rs' } tok :=
  litOKFull_congr o l { l with rules := rs' } rfl rfl rfl (fun _ => hp.mem_iff) tok

/-- the validators that call the standard library -/
def usesStd : RulesF.Rule → Bool
  | .regex _ => true
  | .fmt .email | .fmt .uri | .fmt .datetime => true
  | _ => false

theorem ruleOK_oracle (o o' : RulesF.Oracles) (ex tok : Bytes) (r : RulesF.Rule) (h : usesStd r = false) :
    RulesF.ruleOK o ex tok r = RulesF.ruleOK o' ex tok r := by
  cases r with
  | regex p => simp [usesStd] at h
  | fmt f => cases f <;> first | rfl | simp [usesStd] at h
  | _ => rfl

theorem litOKFull_oracle (o o' : RulesF.Oracles) (l : RulesF.LitSpecF) (h : ∀ r ∈ l.rules, usesStd r = false) (tok : Bytes) :
    RulesF.litOKFull o l tok = RulesF.litOKFull o' l tok := by
  unfold RulesF.litOKFull
  have : l.rules.all (RulesF.ruleOK o l.ex tok) = l.rules.all (RulesF.ruleOK o' l.ex tok) :=
by
    rw [Bool.eq_iff_iff]
    simp only [List.all_eq_true]
    exact ⟨fun H r hr => (ruleOK_oracle o o' l.ex tok r (h r hr)) ▸ H r hr,
      fun H r hr => (ruleOK_oracle o o' l.ex tok r (h r hr)).symm ▸ H r hr⟩
  rw [this]

/-! ### what `okCreate` implies -/

def mkR (p : Pair) : Rule := { name := p.1, gen := false, val := some p.2, pos := 0, npos := 0 }

theorem mk_eq (ps : List Pair) : mk ps = ps.map mkR := rfl

theorem createRule_facts (seen : List Bytes) (p : Pair) (h : createRule .lit seen (mkR p) = .ok ()) :
    seen.contains p.1 = false ∧ ((tagOf p.1 = .nullable ∨ tagOf p.1 = .const) → (parseBool p.2).isSome = true) := by
  unfold createRule at h
  simp only [mkR] at h
  tag_rw at h
  generalize tagOf p.1 = t at h ⊢
  by_cases hs : p.1 ∈ seen <;> by_cases hk : p.1 ∈ knownRules <;> cases t <;>
    simp [hs, hk] at h ⊢
  all_goals (split at h <;> try simp_all)
  all_goals (repeat' split at h) <;> cases h


/-- the facts about a rule set that the constraint constructors establish -/
structure Facts (ps : List Pair) : Prop where
  nodup : (ps.map (·.1)).Nodup
  bool : ∀ p ∈ ps, (tagOf p.1 = .nullable ∨ tagOf p.1 = .const) → (parseBool p.2).isSome = true

theorem createRules_facts : ∀ (ps : List Pair) (seen : List Bytes), createRules .lit seen (mk ps) = .ok () →
    Facts ps ∧ ∀ p ∈ ps, p.1 ∉ seen
  | [], _, _ => ⟨⟨List.nodup_nil, fun _ h => absurd h List.not_mem_nil⟩, fun _ h => absurd h List.not_mem_nil⟩
  | p :: ps, seen, h => by
    have e : mk (p :: ps) = mkR p :: mk ps := rfl
    rw [e] at h
    simp only [createRules] at h
    cases hc : createRule .lit seen (mkR p) with
    | error e => rw [hc] at h; cases h
    | ok u =>
      cases u
      rw [hc] at h
      obtain ⟨hfresh, hbool⟩ := createRule_facts seen p hc
      obtain ⟨⟨hnd, hb⟩, hns⟩ := createRules_facts ps (p.1 :: seen) h
      refine ⟨⟨?_, ?_⟩, ?_⟩
      · simp only [List.map_cons, List.nodup_cons]
        refine ⟨?_, hnd⟩
        intro hm
        obtain ⟨q, hq, hqe⟩ := List.mem_map.1 hm
        exact hns q hq (by simp [hqe])
      · intro q hq
        rcases List.mem_cons.1 hq with rfl | hq
        · exact hbool
        · exact hb q hq
      · intro q hq
        rcases List.mem_cons.1 hq with rfl | hq
        · simpa using hfresh
        · intro hm; exact hns q hq (List.mem_cons_of_mem _ hm)

theorem facts_of_okCreate {ps : List Pair} (h : okCreate ps = true) : Facts ps := by
  unfold okCreate at h
  cases hc : createRules .lit [] (mk ps) with
  | error e => rw [hc] at h; simp [isOk] at h
  | ok u => cases u; exact (createRules_facts ps [] hc).1

/-! ### rule lookup by name in a list of pairs with distinct names -/

theorem findRule_mk_of_mem : ∀ (qs : List Pair), (qs.map (·.1)).Nodup → ∀ p ∈ qs, ∀ (nm : String), p.1 = sb nm →
    findRule (mk qs) nm = some (mkR p)
  | q :: qs, hnd, p, hp, nm, hn => by
    simp only [List.map_cons, List.nodup_cons] at hnd
    have e : mk (q :: qs) = mkR q :: mk qs := rfl
    simp only [findRule, e, List.find?_cons]
    by_cases hq : q.1 = sb nm
    · have : ((mkR q).name == sb nm) = true := by simpa [mkR] using hq
      simp only [this]
      rcases List.mem_cons.1 hp with rfl | hp'
      · rfl
      · exact absurd (List.mem_map.2 ⟨p, hp', by rw [hn, hq]⟩) hnd.1
    · have : ((mkR q).name == sb nm) = false := by simpa [mkR] using hq
      simp only [this]
      rcases List.mem_cons.1 hp with rfl | hp'
      · exact absurd hn hq
      · exact findRule_mk_of_mem qs hnd.2 p hp' nm hn

theorem findRule_mk_some {qs : List Pair} {nm : String} {x : Rule} (h : findRule (mk qs) nm = some x) :
    ∃ p ∈ qs, p.1 = sb nm ∧ x = mkR p := by
  unfold findRule at h
  have h1 := List.find?_some h
  have h2 := List.mem_of_find?_eq_some h
  rw [mk_eq] at h2
  obtain ⟨p, hp, rfl⟩ := List.mem_map.1 h2
  exact ⟨p, hp, by simpa [mkR] using h1, rfl⟩

theorem findRule_mk_none {qs : List Pair} {nm : String} (h : findRule (mk qs) nm = none) : ∀ p ∈ qs, p.1 ≠ sb nm := by
  unfold findRule at h
  rw [List.find?_eq_none] at h
  intro p hp he
  have := h (mkR p) (by rw [mk_eq]; exact List.mem_map_of_mem hp)
  simp [mkR, he] at this

theorem hasRule_mk (qs : List Pair) (nm : String) : hasRule (mk qs) nm = qs.any (fun p => p.1 == sb nm) := by
  simp only [hasRule, mk_eq, List.any_map]
  rfl

/-! ### `falseConstraints` on pairs -/

def keepP (p : Pair) : Bool :=
  !((tagOf p.1 == .nullable || tagOf p.1 == .const) && parseBool p.2 == some false)

theorem filt_mk (ps : List Pair) : filt (mk ps) = mk (ps.filter keepP) := by
  simp only [filt, mk_eq, List.filter_map]
  congr 1
  apply List.filter_congr
  intro p _
  simp only [Function.comp, mkR, keepP, eq_nullable, eq_const, Option.bind_some]

theorem nodup_filter {ps : List Pair} (h : (ps.map (·.1)).Nodup) (f : Pair → Bool) : ((ps.filter f).map (·.1)).Nodup :=
  List.Nodup.sublist (List.Sublist.map _ List.filter_sublist) h

/-! ### the two readings of one pair -/

theorem rawOf_tag (p : Pair) : rawOf p = match tagOf p.1 with
    | .min => some (.min p.2) | .max => some (.max p.2)
    | .exMin => (parseBool p.2).map .exclusiveMinimum | .exMax => (parseBool p.2).map .exclusiveMaximum
    | .nullable => (parseBool p.2).map .nullable | .const => (parseBool p.2).map .const
    | .minLength => (parseUint p.2).map .minLength | .maxLength => (parseUint p.2).map .maxLength
    | .precision => (parseUint p.2).map .precision
    | .type => some (match fmtOfType (unq p.2) with | some f => .typeFmt f | none => .typeOther)
    | .enum => (scalarItems p.2).map .enum
    | _ => none := by
  unfold rawOf
  tag_rw
  generalize tagOf p.1 = t
  cases t <;> rfl

/-- `RulesF.compileRule` with the two exclusive flags as parameters -/
def compileRuleB (e1 e2 : Bool) : RulesF.RawRule → Option RulesF.Rule
  | .nullable _ => none
  | .const v => if v then some .const else none
  | .min b => some (.min b e1)
  | .max b => some (.max b e2)
  | .exclusiveMinimum _ => none
  | .exclusiveMaximum _ => none
  | .precision p => some (.precision p)
  | .minLength n => some (.minLength n)
  | .maxLength n => some (.maxLength n)
  | .regex p => some (.regex p)
  | .enum items => some (.enum items)
  | .typeFmt f => some (.fmt f)
  | .typeOther => none

theorem compileRule_eq (raws : List RulesF.RawRule) :
    RulesF.compileRule raws = compileRuleB (raws.contains (.exclusiveMinimum true)) (raws.contains (.exclusiveMaximum true)) := by
  funext r
  cases r <;> rfl

/-- the validator `compileNode` derives from one surviving rule (the format of a `type` rule apart) -/
def gP (e1 e2 : Bool) (p : Pair) : Option RulesF.Rule :=
  match tagOf p.1 with
  | .min => some (.min p.2 e1) | .max => some (.max p.2 e2)
  | .minLength => (parseUint p.2).map .minLength | .maxLength => (parseUint p.2).map .maxLength
  | .precision => (parseUint p.2).map .precision
  | .const => some .const
  | .enum => (scalarItems p.2).map .enum
  | _ => none

/-- … the format included, a dropped rule excluded -/
def codeP (e1 e2 : Bool) (p : Pair) : Option RulesF.Rule :=
  if keepP p then (if tagOf p.1 == .type then (fmtOfType (unq p.2)).map .fmt else gP e1 e2 p) else none

/-- **one pair, read by the compiler and read by the spec**: the same validator -/
theorem codeP_eq_spec (e1 e2 : Bool) (p : Pair)
    (hb : (tagOf p.1 = .nullable ∨ tagOf p.1 = .const) → (parseBool p.2).isSome = true) :
    codeP e1 e2 p = (rawOf p).bind (compileRuleB e1 e2) := by
  rw [rawOf_tag]
  unfold codeP keepP gP
  generalize tagOf p.1 = t at hb ⊢
  cases t <;> simp at hb ⊢
  case exMin => cases parseBool p.2 <;> rfl
  case exMax => cases parseBool p.2 <;> rfl
  case nullable => cases parseBool p.2 <;> rfl
  case const =>
    cases hp : parseBool p.2 with
    | none => rw [hp] at hb; simp at hb
    | some b => cases b <;> simp [compileRuleB]
  case minLength => cases parseUint p.2 <;> rfl
  case maxLength => cases parseUint p.2 <;> rfl
  case precision => cases parseUint p.2 <;> rfl
  case type => cases fmtOfType (unq p.2) <;> rfl
  case enum => cases scalarItems p.2 <;> rfl
  case min => rfl
  case max => rfl

/-! ### the flags -/

theorem tag_exMin {n : Bytes} : tagOf n = .exMin ↔ n = sb "exclusiveMinimum" := tag_iff_of_eq (eq_exclusiveMinimum n)
theorem tag_exMax {n : Bytes} : tagOf n = .exMax ↔ n = sb "exclusiveMaximum" := tag_iff_of_eq (eq_exclusiveMaximum n)
theorem tag_nullable {n : Bytes} : tagOf n = .nullable ↔ n = sb "nullable" := tag_iff_of_eq (eq_nullable n)
theorem tag_type {n : Bytes} : tagOf n = .type ↔ n = sb "type" := tag_iff_of_eq (eq_type n)

theorem keepP_of_tag {p : Pair} (h1 : tagOf p.1 ≠ .nullable) (h2 : tagOf p.1 ≠ .const) : keepP p = true := by
  simp [keepP, h1, h2]

/-- a boolean rule other than `nullable` / `const`, looked up in the surviving rules: present with value `true` -/
theorem boolRule_true_iff (ps : List Pair) (hnd : (ps.map (·.1)).Nodup) (nm : String) (t : Tag)
    (ht : ∀ n : Bytes, tagOf n = t ↔ n = sb nm) (h1 : t ≠ .nullable) (h2 : t ≠ .const) :
    (boolRule (mk (ps.filter keepP)) nm == some true) = true ↔
      ∃ p ∈ ps, tagOf p.1 = t ∧ parseBool p.2 = some true := by
  unfold boolRule
  constructor
  · intro h
    cases hf : findRule (mk (ps.filter keepP)) nm with
    | none => rw [hf] at h; simp at h
    | some x =>
      rw [hf] at h
      obtain ⟨p, hp, hn, rfl⟩ := findRule_mk_some hf
      exact ⟨p, (List.mem_filter.1 hp).1, (ht _).2 hn, by simpa [mkR] using h⟩
  · rintro ⟨p, hp, htag, hv⟩
    have hk : keepP p = true := keepP_of_tag (by rw [htag]; exact h1) (by rw [htag]; exact h2)
    rw [findRule_mk_of_mem _ (nodup_filter hnd keepP) p (List.mem_filter.2 ⟨hp, hk⟩) nm ((ht _).1 htag)]
    simp [mkR, hv]

theorem contains_raw_iff (ps : List Pair) (x : RulesF.RawRule) :
    (ps.filterMap rawOf).contains x = true ↔ ∃ p ∈ ps, rawOf p = some x := by
  simp only [List.contains_iff_mem, List.mem_filterMap]

theorem rawOf_exMin (p : Pair) (b : Bool) : rawOf p = some (.exclusiveMinimum b) ↔ tagOf p.1 = .exMin ∧ parseBool p.2 = some b := by
  rw [rawOf_tag]
  generalize tagOf p.1 = t
  cases t <;> simp
  all_goals (first | (cases parseUint p.2 <;> simp) | (cases scalarItems p.2 <;> simp) | (cases fmtOfType (unq p.2) <;> simp))

theorem rawOf_exMax (p : Pair) (b : Bool) : rawOf p = some (.exclusiveMaximum b) ↔ tagOf p.1 = .exMax ∧ parseBool p.2 = some b := by
  rw [rawOf_tag]
  generalize tagOf p.1 = t
  cases t <;> simp
  all_goals (first | (cases parseUint p.2 <;> simp) | (cases scalarItems p.2 <;> simp) | (cases fmtOfType (unq p.2) <;> simp))

theorem rawOf_nullable (p : Pair) (b : Bool) : rawOf p = some (.nullable b) ↔ tagOf p.1 = .nullable ∧ parseBool p.2 = some b := by
  rw [rawOf_tag]
  generalize tagOf p.1 = t
  cases t <;> simp
  all_goals (first | (cases parseUint p.2 <;> simp) | (cases scalarItems p.2 <;> simp) | (cases fmtOfType (unq p.2) <;> simp))

theorem exMin_eq (ps : List Pair) (hnd : (ps.map (·.1)).Nodup) :
    exMinOf (mk (ps.filter keepP)) = (ps.filterMap rawOf).contains (.exclusiveMinimum true) := by
  rw [Bool.eq_iff_iff, contains_raw_iff]
  simp only [rawOf_exMin]
  exact boolRule_true_iff ps hnd "exclusiveMinimum" .exMin (fun _ => tag_exMin) (by decide) (by decide)

theorem exMax_eq (ps : List Pair) (hnd : (ps.map (·.1)).Nodup) :
    exMaxOf (mk (ps.filter keepP)) = (ps.filterMap rawOf).contains (.exclusiveMaximum true) := by
  rw [Bool.eq_iff_iff, contains_raw_iff]
  simp only [rawOf_exMax]
  exact boolRule_true_iff ps hnd "exclusiveMaximum" .exMax (fun _ => tag_exMax) (by decide) (by decide)

/-- `nullable` survives compilation ⇔ `nullable: true` is written -/
theorem nul_eq (ps : List Pair) (hf : Facts ps) :
    hasRule (mk (ps.filter keepP)) "nullable" = (ps.filterMap rawOf).contains (.nullable true) := by
  rw [Bool.eq_iff_iff, contains_raw_iff, hasRule_mk]
  simp only [rawOf_nullable, List.any_eq_true, List.mem_filter, eq_nullable, beq_iff_eq]
  constructor
  · rintro ⟨p, ⟨hp, hk⟩, ht⟩
    refine ⟨p, hp, ht, ?_⟩
    have hb := hf.bool p hp (Or.inl ht)
    cases hv : parseBool p.2 with
    | none => rw [hv] at hb; simp at hb
    | some b =>
      cases b
      · simp [keepP, ht, hv] at hk
      · rfl
  · rintro ⟨p, hp, ht, hv⟩
    exact ⟨p, ⟨hp, by simp [keepP, ht, hv]⟩, ht⟩

/-! ### the validators as a set -/

theorem litsOf_gP (qs : List Pair) :
    litsOf (mk qs) = qs.filterMap (gP (exMinOf (mk qs)) (exMaxOf (mk qs))) ++
      (match (typeVal (mk qs)).bind fmtOfType with | some f => [.fmt f] | none => []) := by
  unfold litsOf
  congr 1
  rw [mk_eq, List.filterMap_map]
  congr 1
  funext p
  simp only [Function.comp, mkR, Option.getD_some]
  tag_rw
  unfold gP
  generalize tagOf p.1 = t
  cases t <;> rfl

theorem mem_fmt_part (qs : List Pair) (hnd : (qs.map (·.1)).Nodup) (r : RulesF.Rule) :
    r ∈ (match (typeVal (mk qs)).bind fmtOfType with | some f => [RulesF.Rule.fmt f] | none => []) ↔
      ∃ p ∈ qs, tagOf p.1 = .type ∧ (fmtOfType (unq p.2)).map .fmt = some r := by
  unfold typeVal
  cases hf : findRule (mk qs) "type" with
  | none =>
    simp only [Option.map_none, Option.bind_none, List.not_mem_nil, false_iff]
    rintro ⟨p, hp, ht, _⟩
    exact findRule_mk_none hf p hp (tag_type.1 ht)
  | some x =>
    obtain ⟨p0, hp0, hn0, rfl⟩ := findRule_mk_some hf
    simp only [Option.map_some, Option.bind_some, mkR, Option.getD_some]
    constructor
    · intro h
      refine ⟨p0, hp0, tag_type.2 hn0, ?_⟩
      cases hfm : fmtOfType (unq p0.2) with
      | none => rw [hfm] at h; simp at h
      | some f => rw [hfm] at h; simp at h; simp [h]
    · rintro ⟨p, hp, ht, hr⟩
      have := findRule_mk_of_mem qs hnd p hp "type" (tag_type.1 ht)
      rw [hf] at this
      have hv : p0.2 = p.2 := by simpa [mkR] using congrArg Rule.val (Option.some.inj this)
      rw [hv]
      cases hfm : fmtOfType (unq p.2) with
      | none => rw [hfm] at hr; simp at hr
      | some f => rw [hfm] at hr; simp at hr; simp [hr]

theorem mem_litsOf (ps : List Pair) (hnd : (ps.map (·.1)).Nodup) (r : RulesF.Rule) :
    r ∈ litsOf (mk (ps.filter keepP)) ↔
      ∃ p ∈ ps, codeP (exMinOf (mk (ps.filter keepP))) (exMaxOf (mk (ps.filter keepP))) p = some r := by
  rw [litsOf_gP, List.mem_append, mem_fmt_part _ (nodup_filter hnd keepP), List.mem_filterMap]
  simp only [List.mem_filter]
  constructor
  · rintro (⟨p, ⟨hp, hk⟩, hg⟩ | ⟨p, ⟨hp, hk⟩, ht, hr⟩)
    · refine ⟨p, hp, ?_⟩
      have : (tagOf p.1 == Tag.type) = false := by
        cases h : tagOf p.1 <;> simp [gP, h] at hg ⊢
      simp [codeP, hk, this, hg]
    · exact ⟨p, hp, by simp [codeP, hk, ht, hr]⟩
  · rintro ⟨p, hp, hc⟩
    unfold codeP at hc
    cases hk : keepP p with
    | false => simp [hk] at hc
    | true =>
      simp only [hk, if_true] at hc
      cases ht : (tagOf p.1 == Tag.type) with
      | true => exact Or.inr ⟨p, ⟨hp, hk⟩, by simpa using ht, by simpa [ht] using hc⟩
      | false => exact Or.inl ⟨p, ⟨hp, hk⟩, by simpa [ht] using hc⟩

/-- **the node the compiler leaves and the node the spec describes**: same kind, example, nullable flag, and the same
validators as a set -/
theorem spec_vs_compiled (ex : Bytes) (ps : List Pair) (hf : Facts ps) :
    (specOfRules ex ps).kind = (compiledOf ex (mk ps)).kind ∧ (specOfRules ex ps).ex = (compiledOf ex (mk ps)).ex ∧
    (specOfRules ex ps).nul = (compiledOf ex (mk ps)).nul ∧
    ∀ r, r ∈ (specOfRules ex ps).rules ↔ r ∈ (compiledOf ex (mk ps)).rules := by
  refine ⟨rfl, rfl, ?_, ?_⟩
  · simp only [specOfRules, RulesF.compile, compiledOf, filt_mk]
    exact (nul_eq ps hf).symm
  · intro r
    simp only [specOfRules, RulesF.compile, compiledOf, filt_mk]
    rw [mem_litsOf ps hf.nodup, compileRule_eq, List.filterMap_filterMap, List.mem_filterMap,
      exMin_eq ps hf.nodup, exMax_eq ps hf.nodup]
    constructor
    · rintro ⟨p, hp, h⟩
      exact ⟨p, hp, by rw [codeP_eq_spec _ _ p (hf.bool p hp)]; exact h⟩
    · rintro ⟨p, hp, h⟩
      exact ⟨p, hp, by rw [← codeP_eq_spec _ _ p (hf.bool p hp)]; exact h⟩

/-- **the SPEC form of the verdict** -/
theorem spec_eq_compiled (o : RulesF.Oracles) (ex : Bytes) (ps : List Pair) (hf : Facts ps) (tok : Bytes) :
    RulesF.litOKFull o (specOfRules ex ps) tok = RulesF.litOKFull o (compiledOf ex (mk ps)) tok := by
  obtain ⟨h1, h2, h3, h4⟩ := spec_vs_compiled ex ps hf
  exact litOKFull_congr o _ _ h1 h2 h3 h4 tok

end C02T
