import JSight.AstTextShort2
/-!
C16 at text level, schema texts whose values are type shortcuts — stage 2: the AST on TOKENS.

`astS t key` is a structural function of the byte-level tree `t : SE.BST` alone (no offsets, no text): scalar leaves as in
`AstText.astB`, shortcut leaves `S2.shortLeaf` (names as byte lists, rules `type` / `or` marked generated), `array` /
`object` nodes with their children in written order and the decoded keys.  `ast_of_stree` : `astOfText` of every text of
the class is `astS` of its tree.  `leaf_at`: the AST node at the position (path) of any leaf of the tree.
-/
namespace AstText
namespace S2
open Loader (slice keyText valOff)
open LoaderS (nextItem nextMember)
open SE (Bytes Alt BST BItem BMember scBytes clsSc clsB clsItems clsMembers renderItems renderMembers)
open SchemaScan (Cls classify STree)
open SchemaScan.Len (IsSpTabs)
open Lay (AtB AtB_append slice_tok keyText_tok scalar_ne key_ne)

mutual
/-- **the AST of a schema whose leaves are scalars or type shortcuts, from the TREE** -/
def astS : BST → Bytes × Bool → M AstNode
  | .scalar tok, key =>
    match RulesF.kindOfTok tok with
    | none => unsup "literal kind"
    | some k => pure (.mk key.1 key.2 (kindTok k) (schemaTypeOf [] (kindName k)) (unq tok) [] [] [])
  | .short f as _, key => pure (shortLeaf key f as)
  | .arr _ items, key =>
    match astItemsS items with
    | .error e => .error e
    | .ok kids => pure (.mk key.1 key.2 "array" (schemaTypeOf [] "array") [] [] [] kids)
  | .obj _ members, key =>
    match astMembersS members with
    | .error e => .error e
    | .ok kids => pure (.mk key.1 key.2 "object" (schemaTypeOf [] "object") [] [] [] kids)
def astItemsS : List BItem → M (List AstNode)
  | [] => pure []
  | (_, v, _) :: its => do
    let n ← astS v ([], false)
    let ns ← astItemsS its
    pure (n :: ns)
def astMembersS : List BMember → M (List AstNode)
  | [] => pure []
  | (_, k, _, _, v, _) :: ms => do
    let n ← astS v (Unquote.unquote k, false)
    let ns ← astMembersS ms
    pure (n :: ns)
end

section tokens
variable (src : Array UInt8) (evs : List SchemaScan.Ev)

mutual
theorem astOff_eq : (t : BST) → (o : Nat) → (key : Bytes × Bool) → t.cls.Valid → AtB src o t.render →
    S.astOff src evs o t.cls key = astS t key
  | .scalar tok, o, key, hv, hat => by
    have hs : SchemaScan.IsScalar (tok.map classify) := by simpa [BST.cls, STree.Valid, clsB] using hv
    simp only [BST.render] at hat
    have hsl : slice src o (o + tok.length - 1) = tok := slice_tok src tok o hat (scalar_ne hs)
    simp only [BST.cls, S.astOff, astS, clsB, List.length_map, hsl]
    rfl
  | .short f as sps, o, key, hv, hat => by
    obtain ⟨h1, h2⟩ : (clsSc f as).Valid ∧ IsSpTabs (clsB sps) := by simpa [BST.cls, STree.Valid] using hv
    simp only [BST.render] at hat
    simp only [BST.cls, astS]
    exact astOff_short_leaf src evs o f as sps key h1 h2 hat
  | .arr w0 its, o, key, hv, hat => by
    obtain ⟨_, hi⟩ : SchemaScan.IsWs (clsB w0) ∧ SchemaScan.SValidItems (clsItems its) := by
      simpa [BST.cls, STree.Valid] using hv
    simp only [BST.render] at hat
    obtain ⟨_, hat⟩ := hat
    rw [AtB_append] at hat
    have := itemsOff_eq its (o + 1 + w0.length) hi hat.2
    simp only [BST.cls, S.astOff, astS, SE.clsB_length, this]
    rfl
  | .obj w0 ms, o, key, hv, hat => by
    obtain ⟨_, hi⟩ : SchemaScan.IsWs (clsB w0) ∧ SchemaScan.SValidMembers (clsMembers ms) := by
      simpa [BST.cls, STree.Valid] using hv
    simp only [BST.render] at hat
    obtain ⟨_, hat⟩ := hat
    rw [AtB_append] at hat
    have := membersOff_eq ms (o + 1 + w0.length) hi hat.2
    simp only [BST.cls, S.astOff, astS, SE.clsB_length, this]
    rfl
theorem itemsOff_eq : (its : List BItem) → (o : Nat) → SchemaScan.SValidItems (clsItems its) →
    AtB src o (renderItems its) → S.itemsOff src evs o (clsItems its) = astItemsS its
  | [], _, _, _ => rfl
  | (w1, v, w2) :: its, o, hv, hat => by
    obtain ⟨_, hvv, _, _, hits⟩ : SchemaScan.IsWs (clsB w1) ∧ v.cls.Valid ∧ SchemaScan.IsWs (clsB w2) ∧
        SchemaScan.Follow v.cls (clsB w2) ∧ SchemaScan.SValidItems (clsItems its) := by
      simpa [clsItems, SchemaScan.SValidItems] using hv
    obtain ⟨hatv, hatr⟩ := SE.AtB_items hat
    have e1 := astOff_eq v (o + w1.length) ([], false) hvv hatv
    have e2 := itemsOff_eq its _ hits hatr
    simp only [clsItems, S.itemsOff, astItemsS, SE.clsB_length, SE.nextItem_eq, e1, e2]
theorem membersOff_eq : (ms : List BMember) → (o : Nat) → SchemaScan.SValidMembers (clsMembers ms) →
    AtB src o (renderMembers ms) → S.membersOff src evs o (clsMembers ms) = astMembersS ms
  | [], _, _, _ => rfl
  | (w1, k, w2, w3, v, w4) :: ms, o, hv, hat => by
    obtain ⟨_, hk, _, _, hvv, _, _, hms⟩ :
        SchemaScan.IsWs (clsB w1) ∧ SchemaScan.IsKey (clsB k) ∧ SchemaScan.IsWs (clsB w2) ∧ SchemaScan.IsWs (clsB w3) ∧
          v.cls.Valid ∧ SchemaScan.IsWs (clsB w4) ∧ SchemaScan.Follow v.cls (clsB w4) ∧
          SchemaScan.SValidMembers (clsMembers ms) := by
      simpa [clsMembers, SchemaScan.SValidMembers] using hv
    obtain ⟨hatk, hatv, hatr⟩ := SE.AtB_members hat
    have hkt := keyText_tok src k _ hatk (key_ne hk)
    have e1 := astOff_eq v _ (Unquote.unquote k, false) hvv hatv
    have e2 := membersOff_eq ms _ hms hatr
    simp only [clsMembers, S.membersOff, astMembersS, SE.clsB_length, SE.valOff_eq, SE.nextMember_eq, hkt, e1, e2]
end

end tokens

/-- **C16 on schema texts with shortcut values, any depth and layout, stage 2**: scanner model → loader model → AST
builders give the AST of the TREE, stated on tokens -/
theorem ast_of_stree (w0 : Bytes) (t : BST) (w1 : Bytes) (h : SE.TextOK w0 t w1) :
    astOfText (SE.docText w0 t w1) = astS t ([], false) := by
  have hat : AtB (SE.docText w0 t w1).toArray w0.length t.render := by
    have := Lay.AtB_toArray (SE.docText w0 t w1) w0 (t.render ++ w1) rfl
    rw [AtB_append] at this
    exact this.1
  rw [S.ast_of_stree_text w0 t w1 h]
  exact astOff_eq _ _ t w0.length ([], false) h.valid hat

/-! ### the result is not an error -/

mutual
theorem astS_ok : (t : BST) → t.sideOK = true → (key : Bytes × Bool) → ∃ n, astS t key = .ok n
  | .scalar tok, hg, key => by
    simp only [BST.sideOK, Option.isSome_iff_exists] at hg
    obtain ⟨k, hk⟩ := hg
    exact ⟨_, by simp only [astS, hk]; rfl⟩
  | .short f as sps, _, key => ⟨_, rfl⟩
  | .arr w0 its, hg, key => by
    obtain ⟨ns, hn⟩ := astItemsS_ok its (by simpa [BST.sideOK] using hg)
    exact ⟨_, by simp only [astS, hn]; rfl⟩
  | .obj w0 ms, hg, key => by
    obtain ⟨ns, hn⟩ := astMembersS_ok ms (by simpa [BST.sideOK] using hg)
    exact ⟨_, by simp only [astS, hn]; rfl⟩
theorem astItemsS_ok : (its : List BItem) → SE.sideItems its = true → ∃ ns, astItemsS its = .ok ns
  | [], _ => ⟨[], rfl⟩
  | (w1, v, w2) :: its, hg => by
    obtain ⟨hg1, hg2⟩ : v.sideOK = true ∧ SE.sideItems its = true := by simpa [SE.sideItems] using hg
    obtain ⟨n, hn⟩ := astS_ok v hg1 ([], false)
    obtain ⟨ns, hns⟩ := astItemsS_ok its hg2
    exact ⟨n :: ns, by simp only [astItemsS, hn, hns]; rfl⟩
theorem astMembersS_ok : (ms : List BMember) → SE.sideMembers ms = true → ∃ ns, astMembersS ms = .ok ns
  | [], _ => ⟨[], rfl⟩
  | (w1, k, w2, w3, v, w4) :: ms, hg => by
    obtain ⟨hg1, hg2⟩ : v.sideOK = true ∧ SE.sideMembers ms = true := by simpa [SE.sideMembers] using hg
    obtain ⟨n, hn⟩ := astS_ok v hg1 (Unquote.unquote k, false)
    obtain ⟨ns, hns⟩ := astMembersS_ok ms hg2
    exact ⟨n :: ns, by simp only [astMembersS, hn, hns]; rfl⟩
end

/-! ### positions: the node of the tree and the node of the AST at a path -/

def itemKids : List BItem → List ((Bytes × Bool) × BST)
  | [] => []
  | (_, v, _) :: its => (([], false), v) :: itemKids its

def memberKids : List BMember → List ((Bytes × Bool) × BST)
  | [] => []
  | (_, k, _, _, v, _) :: ms => ((Unquote.unquote k, false), v) :: memberKids ms

/-- the children of a value in written order, each with the key the AST shows for it (items: none; members: the
decoded key) -/
def kids : BST → List ((Bytes × Bool) × BST)
  | .scalar _ => []
  | .short _ _ _ => []
  | .arr _ its => itemKids its
  | .obj _ ms => memberKids ms

/-- the value at a path (child indices from the root), with its key -/
def valueAt : (Bytes × Bool) × BST → List Nat → Option ((Bytes × Bool) × BST)
  | kt, [] => some kt
  | kt, i :: p =>
    match (kids kt.2)[i]? with
    | none => none
    | some c => valueAt c p

def children : AstNode → List AstNode
  | .mk _ _ _ _ _ _ _ cs => cs

/-- the AST node at a path -/
def nodeAt : AstNode → List Nat → Option AstNode
  | n, [] => some n
  | n, i :: p =>
    match (children n)[i]? with
    | none => none
    | some c => nodeAt c p

/-- two lists related element by element -/
inductive All₂ {α β : Type} (R : α → β → Prop) : List α → List β → Prop
  | nil : All₂ R [] []
  | cons {a : α} {b : β} {l : List α} {l' : List β} : R a b → All₂ R l l' → All₂ R (a :: l) (b :: l')

theorem items_rel : (its : List BItem) → (ns : List AstNode) → astItemsS its = .ok ns →
    All₂ (fun kc m => astS kc.2 kc.1 = .ok m) (itemKids its) ns
  | [], ns, h => by
    have : ns = [] := by simpa [astItemsS, pure, Except.pure] using h.symm
    subst this; exact .nil
  | (w1, v, w2) :: its, ns, h => by
    simp only [astItemsS, bind, Except.bind] at h
    cases hv : astS v ([], false) with
    | error e => rw [hv] at h; cases h
    | ok n =>
      rw [hv] at h
      cases hr : astItemsS its with
      | error e => rw [hr] at h; cases h
      | ok ns' =>
        rw [hr] at h
        have : ns = n :: ns' := by simpa [pure, Except.pure] using h.symm
        subst this
        exact .cons hv (items_rel its ns' hr)

theorem members_rel : (ms : List BMember) → (ns : List AstNode) → astMembersS ms = .ok ns →
    All₂ (fun kc m => astS kc.2 kc.1 = .ok m) (memberKids ms) ns
  | [], ns, h => by
    have : ns = [] := by simpa [astMembersS, pure, Except.pure] using h.symm
    subst this; exact .nil
  | (w1, k, w2, w3, v, w4) :: ms, ns, h => by
    simp only [astMembersS, bind, Except.bind] at h
    cases hv : astS v (Unquote.unquote k, false) with
    | error e => rw [hv] at h; cases h
    | ok n =>
      rw [hv] at h
      cases hr : astMembersS ms with
      | error e => rw [hr] at h; cases h
      | ok ns' =>
        rw [hr] at h
        have : ns = n :: ns' := by simpa [pure, Except.pure] using h.symm
        subst this
        exact .cons hv (members_rel ms ns' hr)

/-- one level: the children of the AST node are the ASTs of the children of the value, in written order -/
theorem kids_rel (t : BST) (key : Bytes × Bool) (n : AstNode) (h : astS t key = .ok n) :
    All₂ (fun kc m => astS kc.2 kc.1 = .ok m) (kids t) (children n) := by
  cases t with
  | scalar tok =>
    simp only [astS] at h
    cases hk : RulesF.kindOfTok tok with
    | none => rw [hk] at h; cases h
    | some k =>
      rw [hk] at h
      have : n = _ := (Except.ok.inj h).symm
      subst this; exact .nil
  | short f as sps =>
    have : n = shortLeaf key f as := (Except.ok.inj h).symm
    subst this
    cases as <;> exact .nil
  | arr w0 its =>
    simp only [astS] at h
    cases hr : astItemsS its with
    | error e => rw [hr] at h; cases h
    | ok ns =>
      rw [hr] at h
      have : n = _ := (Except.ok.inj h).symm
      subst this
      exact items_rel its ns hr
  | obj w0 ms =>
    simp only [astS] at h
    cases hr : astMembersS ms with
    | error e => rw [hr] at h; cases h
    | ok ns =>
      rw [hr] at h
      have : n = _ := (Except.ok.inj h).symm
      subst this
      exact members_rel ms ns hr

theorem forall₂_get {α β : Type} {R : α → β → Prop} : ∀ {l : List α} {l' : List β}, All₂ R l l' →
    ∀ (i : Nat) (a : α), l[i]? = some a → ∃ b, l'[i]? = some b ∧ R a b
  | _, _, .nil, i, a, h => by simp at h
  | _, _, .cons hr ht, 0, a, h => by
    simp only [List.getElem?_cons_zero, Option.some.injEq] at h
    subst h
    exact ⟨_, rfl, hr⟩
  | _, _, .cons hr ht, i + 1, a, h => by
    simp only [List.getElem?_cons_succ] at h ⊢
    exact forall₂_get ht i a h

/-- the AST node at the path of a value of the tree is the AST of that value (with the key of that position) -/
theorem nodeAt_valueAt : ∀ (p : List Nat) (kt : (Bytes × Bool) × BST) (n : AstNode), astS kt.2 kt.1 = .ok n →
    ∀ c, valueAt kt p = some c → ∃ m, nodeAt n p = some m ∧ astS c.2 c.1 = .ok m
  | [], kt, n, h, c, hc => by
    simp only [valueAt, Option.some.injEq] at hc
    subst hc
    exact ⟨n, rfl, h⟩
  | i :: p, kt, n, h, c, hc => by
    simp only [valueAt] at hc
    cases hk : (kids kt.2)[i]? with
    | none => rw [hk] at hc; cases hc
    | some d =>
      rw [hk] at hc
      obtain ⟨m, hm, hr⟩ := forall₂_get (kids_rel kt.2 kt.1 n h) i d hk
      obtain ⟨m', hm', hr'⟩ := nodeAt_valueAt p d m hr c hc
      exact ⟨m', by simp only [nodeAt, hm, hm'], hr'⟩

/-- **every shortcut leaf of a text of the class, at any position of the tree**: the AST of the text has, at the path of
the leaf, the reference node of that shortcut on tokens -/
theorem leaf_at (w0 : Bytes) (t : BST) (w1 : Bytes) (h : SE.TextOK w0 t w1) (p : List Nat) (key : Bytes × Bool)
    (f : Bytes) (as : List Alt) (sps : Bytes) (hl : valueAt (([], false), t) p = some (key, .short f as sps)) :
    ∃ root, astOfText (SE.docText w0 t w1) = .ok root ∧ nodeAt root p = some (shortLeaf key f as) := by
  obtain ⟨root, hroot⟩ := astS_ok t h.side ([], false)
  refine ⟨root, by rw [ast_of_stree w0 t w1 h, hroot], ?_⟩
  obtain ⟨m, hm, hr⟩ := nodeAt_valueAt p (([], false), t) root hroot _ hl
  have : m = shortLeaf key f as := (Except.ok.inj hr).symm
  rw [hm, this]

#print axioms ast_of_stree
#print axioms leaf_at

end S2
end AstText
