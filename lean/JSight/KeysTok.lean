import JSight.ATreeTok
import JSight.KeysSeg
/-!
C15 / C13, raw keys: the loader pieces of `ATreeTok` over `Loader.K.LS`; `loads_key` records the key TOKEN.
-/
namespace AT.K
open SchemaScan (Cls classify Ev LexT St Ctx CK VCtx PV wsLoop cmtLoop nlSt nlAl keySt keyAl closersOf)
open SchemaScan.Len (ATok Tok TC arun astep aslot slotStep closePV noML isObjKey nlStep mlSlot pendOfK annLoop cxA endStOf)
open Loader (XNode xfresh Fold NK)
open Loader.K (LS dec)

theorem Loads.mono {i : Nat} {e : List Ev} {a a' : AS} (h : Loads i [] e a a') (bs : Bytes) : Loads i bs e a a' :=
  fun src st _ hl => h src st trivial hl

theorem Loads.seq {i : Nat} {bs : Bytes} {e1 e2 : List Ev} {a a1 a2 : AS} (h1 : Loads i bs e1 a a1)
    (h2 : Loads i bs e2 a1 a2) : Loads i bs (e1 ++ e2) a a2 := by
  intro src st hat hl
  obtain ⟨s1, f1, l1⟩ := h1 src st hat hl
  obtain ⟨s2, f2, l2⟩ := h2 src s1 hat l1
  exact ⟨s2, Fold.trans f1 f2, l2⟩

theorem wait_eta (xa : XNode) (hw : xa.waiting = false) (cs : List Nat) :
    { xa with waiting := false, children := cs } = { xa with children := cs } := by
  cases xa; simp only at hw; subst hw; rfl

/-- the event before a value (item-begin / value-begin): the container waits for a child -/
theorem loads_pre (ctx : VCtx) (i x : Nat) (L0 : List XNode) (xa : XNode) (M : List XNode) (last : Option Nat)
    (pl : Nat) (root : Option Nat) (hk : xa.kind = ctxKind ctx) (hw : xa.waiting = false) :
    Loads i [] [preEv ctx x] ⟨L0 ++ xa :: M, some L0.length, last, pl, root⟩
      ⟨L0 ++ { xa with waiting := true } :: M, some L0.length, last, pl, root⟩ := by
  intro src st _ hl
  have hn := zip_get L0 xa M
  cases ctx with
  | objv =>
    obtain ⟨st', s, l⟩ := Loader.K.X_valB src hl xa hn hk hw x x
    rw [zip_set] at l
    exact ⟨st', Fold.one s, l⟩
  | root =>
    obtain ⟨st', s, l⟩ := Loader.K.X_itemB src hl xa hn hk hw x x
    rw [zip_set] at l
    exact ⟨st', Fold.one s, l⟩
  | item0 =>
    obtain ⟨st', s, l⟩ := Loader.K.X_itemB src hl xa hn hk hw x x
    rw [zip_set] at l
    exact ⟨st', Fold.one s, l⟩
  | item1 =>
    obtain ⟨st', s, l⟩ := Loader.K.X_itemB src hl xa hn hk hw x x
    rw [zip_set] at l
    exact ⟨st', Fold.one s, l⟩

/-- the event behind a value (item-end / value-end) -/
theorem loads_post (ctx : VCtx) (i x y : Nat) (L0 : List XNode) (xa : XNode) (M : List XNode) (last : Option Nat)
    (pl : Nat) (root : Option Nat) (hk : xa.kind = ctxKind ctx) (hw : xa.waiting = false) :
    Loads i [] [postEv ctx x y] ⟨L0 ++ xa :: M, some L0.length, last, pl, root⟩
      ⟨L0 ++ xa :: M, some L0.length, last, pl, root⟩ := by
  intro src st _ hl
  have hn := zip_get L0 xa M
  cases ctx with
  | objv => obtain ⟨st', s, l⟩ := Loader.K.X_valE src hl xa hn hk hw x y; exact ⟨st', Fold.one s, l⟩
  | root => obtain ⟨st', s, l⟩ := Loader.K.X_itemE src hl xa hn hk hw x y; exact ⟨st', Fold.one s, l⟩
  | item0 => obtain ⟨st', s, l⟩ := Loader.K.X_itemE src hl xa hn hk hw x y; exact ⟨st', Fold.one s, l⟩
  | item1 => obtain ⟨st', s, l⟩ := Loader.K.X_itemE src hl xa hn hk hw x y; exact ⟨st', Fold.one s, l⟩

/-- a waiting container creates its child -/
theorem loads_create (i : Nat) (e : Ev) (k : NK) (hp : Loader.plainTy e.ty = true) (he : Loader.kindOfLex e.ty = some k)
    (L0 : List XNode) (xa : XNode) (M : List XNode) (last : Option Nat) (pl : Nat) (root : Option Nat)
    (hk : xa.kind = .arr ∨ xa.kind = .obj) (hw : xa.waiting = false) :
    Loads i [] [e] ⟨L0 ++ { xa with waiting := true } :: M, some L0.length, last, pl, root⟩
      ⟨(L0 ++ { xa with children := xa.children ++ [L0.length + 1 + M.length] } :: M) ++ [xfresh k (some L0.length)],
        some (L0.length + 1 + M.length), some (L0.length + 1 + M.length), pl + 1, root⟩ := by
  intro src st _ hl
  obtain ⟨st', s, l⟩ := Loader.K.X_create src hl { xa with waiting := true } (zip_get L0 _ M) hk rfl e k hp he
  rw [zip_set, zip_len] at l
  have := wait_eta xa hw (xa.children ++ [L0.length + 1 + M.length])
  simp only at this l
  rw [this] at l
  exact ⟨st', Fold.one s, l⟩

/-- the end of a literal: its token is its value -/
theorem loads_litE (i : Nat) (tok : Bytes) (hne : tok ≠ []) (L : List XNode) (x : XNode) (hk : x.kind = .lit)
    (last : Option Nat) (pl : Nat) (root : Option Nat) :
    Loads i tok [⟨.litE, i, i + tok.length - 1⟩] ⟨L ++ [x], some L.length, last, pl, root⟩
      ⟨L ++ [{ x with value := some tok }], x.parent, last, pl, root⟩ := by
  intro src st hat hl
  obtain ⟨st', s, l⟩ := Loader.K.X_litE src hl x (zip_get L x []) hk i (i + tok.length - 1)
  rw [zip_set, Lay.slice_tok src tok i hat hne] at l
  exact ⟨st', Fold.one s, l⟩

/-- the end of a container -/
theorem loads_end (isObj : Bool) (i x y : Nat) (L0 : List XNode) (xa : XNode) (M : List XNode) (last : Option Nat)
    (pl : Nat) (root : Option Nat) (hk : xa.kind = (bif isObj then .obj else .arr)) (hw : xa.waiting = false) :
    Loads i [] [⟨(bif isObj then .objE else .arrE), x, y⟩] ⟨L0 ++ xa :: M, some L0.length, last, pl, root⟩
      ⟨L0 ++ xa :: M, xa.parent, last, pl, root⟩ := by
  intro src st _ hl
  have hn := zip_get L0 xa M
  cases isObj with
  | true => obtain ⟨st', s, l⟩ := Loader.K.X_objE src hl xa hn hk hw x y; exact ⟨st', Fold.one s, l⟩
  | false => obtain ⟨st', s, l⟩ := Loader.K.X_arrE src hl xa hn hk hw x y; exact ⟨st', Fold.one s, l⟩

/-- a key: begin and end; the key TOKEN is recorded -/
theorem loads_key (i : Nat) (k : Bytes) (hne : k ≠ []) (L0 : List XNode) (xa : XNode) (M : List XNode)
    (last : Option Nat) (pl : Nat) (root : Option Nat) (hk : xa.kind = .obj) (hw : xa.waiting = false)
    (hd : (Unquote.unquote k, false) ∉ xa.keys.map dec) :
    Loads i k [⟨.keyB, i, i⟩, ⟨.keyE, i, i + k.length - 1⟩] ⟨L0 ++ xa :: M, some L0.length, last, pl, root⟩
      ⟨L0 ++ { xa with keys := xa.keys ++ [(k, false)] } :: M, some L0.length, last, pl, root⟩ := by
  intro src st hat hl
  have hn := zip_get L0 xa M
  obtain ⟨s1, f1, l1⟩ := Loader.K.X_keyB src hl xa hn hk hw i i
  have hkt := Lay.keyText_tok src k i hat hne
  have hsl := Lay.slice_tok src k i hat hne
  obtain ⟨s2, f2, l2⟩ := Loader.K.X_keyE src l1 xa hn hk hw i (i + k.length - 1) (by rw [hkt]; exact hd)
  rw [zip_set, hsl] at l2
  exact ⟨s2, Loader.Fold.cons f1 (Fold.one f2), l2⟩

/-- one token followed by the closing lexemes of the value it ends -/
theorem Seg.tokClose {c c0 c1 : TC} {t : BTok} {e0 e1 : List Ev} {a a1 : AS} (h : astep c t.cls = some (c0, e0))
    (hpv : PV c0.st = true) (hg : c0.g = false) (hc : closePV c0 = some (c1, e1)) (h1 : PV c1.st = false)
    (hl : Loads c.i t.bytes (e0 ++ e1) a a1) (hi : c0.i = c.i + t.bytes.length) : Seg c [t] c1 a a1 := by
  refine ⟨⟨e0 ++ e1, ?_, by simpa [bytesOf] using hl⟩, ?_⟩
  · have := (ScansA.one h).weak.trans (Scans.close hpv hg hc h1)
    simpa using this
  · have := SchemaScan.Len.closePV_index hc
    simp [bytesOf, this, hi]

end AT.K
