import JSight.SchemaLenAnnLine
/-!
C14, schemas with annotations and user comments: the schema text as a list of TOKENS (blanks, line breaks, `#` line
comments, inline annotations, scalars, keys, brackets, separators) and a token-level description of the scanner:
`tstep` maps a state between two tokens (`TC`) and a token to the next state and the events delivered meanwhile.
`sim` (in `SchemaLenTokSim`): the byte-level scanner model does exactly that, for either value of `lengthComputing`.
-/
namespace SchemaScan
namespace Len

/-- the scanner between two tokens: step function `st` (behind `guard` when `g`), lexeme stack, index, contexts -/
structure TC where
  st : St
  g : Bool
  K : List (LexT × Nat)
  i : Nat
  CS : List Ctx
  cx : Ctx
  al : Bool

def TC.sc (lc : Bool) (c : TC) : Sc := cfgL lc (gst c.g c.st) [] c.K false c.i c.CS c.cx c.al

inductive Tok
  | sp (c : Cls)                -- a space or a tab
  | nl                          -- a line break byte (LF or CR)
  | cmt (text : List Cls)       -- `#` text line-break
  | ann (b : InlBody)           -- `//` body line-break
  | scalar (tok : List Cls)
  | key (k : List Cls)
  | lbrace | rbrace | lbrack | rbrack | comma | colon

def Tok.render : Tok → List Cls
  | .sp c => [c]
  | .nl => [.nl]
  | .cmt text => Cls.hash :: (text ++ [.nl])
  | .ann b => Cls.slash :: Cls.slash :: (b.render ++ [.nl])
  | .scalar tok => tok
  | .key k => k
  | .lbrace => [.lbrace] | .rbrace => [.rbrace] | .lbrack => [.lbrack] | .rbrack => [.rbrack]
  | .comma => [.comma] | .colon => [.colon]

/-- well-formed tokens (state-independent part) -/
def Tok.WF : Tok → Prop
  | .sp c => c.isSpTab = true
  | .cmt text => (∀ c ∈ text, c ≠ Cls.nl) ∧ text.head? ≠ some Cls.hash
  | .ann b => b.Valid
  | .scalar tok => IsScalar tok
  | .key k => IsKey k
  | _ => True

def renderToks : List Tok → List Cls
  | [] => []
  | t :: ts => t.render ++ renderToks ts

/-! ### what is pending behind a value -/

inductive Pend
  | root (lit : Bool) (b : Nat)
  | ck (lit : Bool) (b : Nat) (ck : CK) (b2 : Nat) (R : List (LexT × Nat))

def ckOf : LexT → Option CK
  | .itemB => some .item | .valB => some .val | .keyB => some .key | _ => none

def isLitB : LexT → Bool | .litB => true | _ => false

def pendOfK : List (LexT × Nat) → Option Pend
  | [] => some (.root false 0)
  | (t, b) :: R =>
    if isLitB t then
      match R with
      | [] => some (.root true b)
      | (t2, b2) :: R2 => (ckOf t2).map (fun ck => .ck true b ck b2 R2)
    else (ckOf t).map (fun ck => .ck false 0 ck b R)

theorem ckOf_B {t : LexT} {ck : CK} (h : ckOf t = some ck) : t = ck.B := by
  cases t <;> simp [ckOf] at h <;> subst h <;> rfl

theorem isLitB_eq {t : LexT} (h : isLitB t = true) : t = .litB := by cases t <;> simp [isLitB] at h; rfl

theorem pendOfK_root {K : List (LexT × Nat)} {lit : Bool} {b : Nat} (h : pendOfK K = some (.root lit b)) :
    K = pendOf lit b := by
  cases K with
  | nil => simp [pendOfK] at h; obtain ⟨rfl, rfl⟩ := h; rfl
  | cons p R =>
    obtain ⟨t, b0⟩ := p
    simp only [pendOfK] at h
    split at h
    · rename_i hl
      cases R with
      | nil => simp at h; obtain ⟨rfl, rfl⟩ := h; rw [isLitB_eq hl]; rfl
      | cons q R2 => obtain ⟨t2, b2⟩ := q; cases hc : ckOf t2 <;> simp [hc] at h
    · cases hc : ckOf t <;> simp [hc] at h

theorem pendOfK_ck {K : List (LexT × Nat)} {lit : Bool} {b b2 : Nat} {ck : CK} {R : List (LexT × Nat)}
    (h : pendOfK K = some (.ck lit b ck b2 R)) : K = pendOf lit b ++ (ck.B, b2) :: R := by
  cases K with
  | nil => simp [pendOfK] at h
  | cons p R0 =>
    obtain ⟨t, b0⟩ := p
    simp only [pendOfK] at h
    split at h
    · rename_i hl
      cases R0 with
      | nil => simp at h
      | cons q R2 =>
        obtain ⟨t2, b2'⟩ := q
        cases hc : ckOf t2 with
        | none => simp [hc] at h
        | some ck' =>
          simp [hc] at h
          obtain ⟨rfl, rfl, rfl, rfl, rfl⟩ := h
          rw [isLitB_eq hl, ckOf_B hc]; rfl
    · cases hc : ckOf t with
      | none => simp [hc] at h
      | some ck' =>
        simp [hc] at h
        obtain ⟨rfl, rfl, rfl, rfl, rfl⟩ := h
        rw [ckOf_B hc]; rfl

/-! ### the token-level scanner -/

def vctxOf : St → Option VCtx
  | .foundRoot => some .root | .arrItemOrEmpty => some .item0 | .arrItem => some .item1 | .objValue => some .objv
  | _ => none

theorem vctxOf_st {st : St} {ctx : VCtx} (h : vctxOf st = some ctx) : st = ctx.st := by
  cases st <;> simp [vctxOf] at h <;> subst h <;> rfl

def isObjKey : St → Bool | .objKey => true | _ => false

/-- the state where the token automaton of a scalar stops -/
def endStOf : List Cls → St := fun tok => (Tree.scalar tok).endSt

/-- a line break at a place between tokens -/
def nlStep (c : TC) : Option (TC × List Ev) :=
  if wsLoop c.st then
    some ({ c with st := nlSt c.st, g := c.g && !isObjKey c.st, al := nlAl c.st c.al, i := c.i + 1 },
      [⟨.newLine, c.i, c.i⟩])
  else none

/-- a token read at a place between tokens (nothing pending) -/
def slotStep (c : TC) : Tok → Option (TC × List Ev)
  | .sp _ => if wsLoop c.st then some ({ c with i := c.i + 1 }, []) else none
  | .nl => nlStep c
  | .cmt text =>
    if cmtLoop c.st then
      (nlStep { c with i := c.i + 1 + text.length }).map
        (fun r => (r.1, ⟨.newLine, c.i + text.length, c.i + text.length⟩ :: r.2))
    else none
  | .ann b =>
    if annLoop c.st && c.al && !c.g && noML c.K then
      some ({ c with g := b.hasNote, cx := cxA c.st c.cx, i := c.i + 2 + b.render.length + 1 }, b.evs c.i)
    else none
  | .scalar tok =>
    (vctxOf c.st).map (fun ctx =>
      ({ c with st := endStOf tok, g := false, K := (.litB, c.i) :: (ctx.pre c.i ++ c.K), i := c.i + tok.length,
                cx := ctx.cx' c.cx }, ctx.preEvs c.i ++ [⟨.litB, c.i, c.i⟩]))
  | .key k =>
    if keySt c.st then
      some ({ c with st := .endValue, g := false, K := (.keyB, c.i) :: c.K, i := c.i + k.length, al := keyAl c.st c.al },
        [⟨.keyB, c.i, c.i⟩])
    else none
  | .lbrace =>
    (vctxOf c.st).map (fun ctx =>
      ({ c with st := .objKeyOrEmpty, g := false, K := (.objB, c.i) :: (ctx.pre c.i ++ c.K), i := c.i + 1,
                CS := ctx.cx' c.cx :: c.CS, cx := { ty := .object } }, ctx.preEvs c.i ++ [⟨.objB, c.i, c.i⟩]))
  | .lbrack =>
    (vctxOf c.st).map (fun ctx =>
      ({ c with st := .arrItemOrEmpty, g := false, K := (.arrB, c.i) :: (ctx.pre c.i ++ c.K), i := c.i + 1,
                CS := ctx.cx' c.cx :: c.CS, cx := { ty := .array } }, ctx.preEvs c.i ++ [⟨.arrB, c.i, c.i⟩]))
  | .rbrace =>
    match c.st, c.K, c.CS with
    | .objKeyOrEmpty, (.objB, a) :: K', c0 :: CS' =>
      some ({ c with st := .endValue, g := false, K := K', i := c.i + 1, CS := CS', cx := c0, al := true }, [⟨.objE, a, c.i⟩])
    | .afterValue, (.objB, a) :: K', c0 :: CS' =>
      some ({ c with st := .endValue, g := false, K := K', i := c.i + 1, CS := CS', cx := c0 }, [⟨.objE, a, c.i⟩])
    | _, _, _ => none
  | .rbrack =>
    match c.st, c.K, c.CS with
    | .arrItemOrEmpty, (.arrB, a) :: K', c0 :: CS' =>
      some ({ c with st := .endValue, g := false, K := K', i := c.i + 1, CS := CS', cx := c0, al := !c.cx.arrayHasItem },
        [⟨.arrE, a, c.i⟩])
    | .afterItem, (.arrB, a) :: K', c0 :: CS' =>
      some ({ c with st := .endValue, g := false, K := K', i := c.i + 1, CS := CS', cx := c0, al := !c.cx.arrayHasItem },
        [⟨.arrE, a, c.i⟩])
    | _, _, _ => none
  | .comma =>
    match c.st with
    | .afterItem => some ({ c with st := .arrItem, g := false, i := c.i + 1 }, [])
    | .afterValue => some ({ c with st := .objKey, g := false, i := c.i + 1 }, [])
    | _ => none
  | .colon =>
    match c.st with
    | .afterKey => some ({ c with st := .objValue, g := false, i := c.i + 1 }, [])
    | _ => none

/-- behind a value: the next byte closes what is pending (nothing is consumed) -/
def closePV (c : TC) : Option (TC × List Ev) :=
  match pendOfK c.K with
  | some (.root lit b) => some ({ c with st := .endTop, g := false, K := [] }, rootClosers lit b (c.i - 1))
  | some (.ck lit b ck b2 R) => some ({ c with st := ck.aft, g := false, K := R }, closersOf lit ck b b2 (c.i - 1))
  | none => none

def tstep (c : TC) (t : Tok) : Option (TC × List Ev) :=
  if PV c.st then
    if c.g then none
    else match closePV c with
    | some (c1, e1) => (slotStep c1 t).map (fun r => (r.1, e1 ++ r.2))
    | none => none
  else slotStep c t

def trun : TC → List Tok → Option (TC × List Ev)
  | c, [] => some (c, [])
  | c, t :: ts =>
    match tstep c t with
    | some (c1, e1) => (trun c1 ts).map (fun r => (r.1, e1 ++ r.2))
    | none => none

/-- the start of the scan -/
def TC.init : TC := { st := .foundRoot, g := false, K := [], i := 0, CS := [], cx := { ty := .initial }, al := true }

theorem TC.init_sc (lc : Bool) : TC.init.sc lc = { lengthComputing := lc } := rfl

end Len
end SchemaScan
