import JSight.AnnTree
/-!
C13 / C16, WHOLE annotated trees: the type of annotated trees with layout (`AT.ATree`), its rendering as tokens
(`ATree.toks`, byte level: `BTok`, with the class-level token `BTok.cls : ATok` of `AnnTreeTok`), the SPEC of the loaded
node table (`ATree.table`), the decidable line discipline (`ATree.lineOK`) and the erasure of everything that is
surface (`ATree.strip`).  Core Lean only (the driver imports this file).
-/
namespace AT
open SchemaScan (Cls classify)
open SchemaScan.Len (ATok Tok)
open Loader (XNode xfresh)

abbrev Bytes := List UInt8

/-- an annotation: `// s2 {ob} s3 [- s4 note] nlb` (inline; `nlb` its line break) or `/* s2 {ob} s3 [- s4 note] */` -/
structure Annot where
  multi : Bool
  s2 : Bytes
  ob : Lay.BObj
  s3 : Bytes
  nt : Option (Bytes × Bytes)
  nlb : UInt8

def Annot.bytes (a : Annot) : Bytes :=
  bif a.multi then 47 :: 42 :: (Lay.annBody a.s2 a.ob a.s3 a.nt ++ [42, 47])
  else 47 :: 47 :: (Lay.annBody a.s2 a.ob a.s3 a.nt ++ [a.nlb])

def Annot.cls (a : Annot) : ATok :=
  bif a.multi then .ml (Lay.mlOf a.s2 a.ob a.s3 a.nt) else .base (.ann (Lay.inlOf a.s2 a.ob a.s3 a.nt))

/-- what an annotation MEANS: the (name, value text) pairs in written order and the note -/
def Annot.pairs (a : Annot) : List (Bytes × Bytes) := a.ob.pairs
def Annot.note (a : Annot) : Option Bytes := a.nt.map (fun q => Loader.trimSpaces q.2)

/-- layout tokens: a space or tab, a line break byte (LF or CR), a `#` line comment with its line break -/
inductive LTok
  | sp (b : UInt8)
  | nl (b : UInt8)
  | cmt (text : Bytes) (nlb : UInt8)

def LTok.bytes : LTok → Bytes
  | .sp b => [b]
  | .nl b => [b]
  | .cmt t n => 35 :: (t ++ [n])

def LTok.cls : LTok → Tok
  | .sp b => .sp (classify b)
  | .nl _ => .nl
  | .cmt t _ => .cmt (t.map classify)

def LTok.isNl : LTok → Bool | .sp _ => false | _ => true
def LTok.isCmt : LTok → Bool | .cmt _ _ => true | _ => false

abbrev Gap := List LTok
def Gap.hasNl (g : Gap) : Bool := g.any LTok.isNl
def Gap.hasCmt (g : Gap) : Bool := g.any LTok.isCmt

inductive BTok
  | lay (l : LTok)
  | ann (a : Annot)
  | scalar (tok : Bytes)
  | key (k : Bytes)
  | lbrace | rbrace | lbrack | rbrack | comma | colon

def BTok.bytes : BTok → Bytes
  | .lay l => l.bytes
  | .ann a => a.bytes
  | .scalar tok => tok
  | .key k => k
  | .lbrace => [123] | .rbrace => [125] | .lbrack => [91] | .rbrack => [93] | .comma => [44] | .colon => [58]

def BTok.cls : BTok → ATok
  | .lay l => .base l.cls
  | .ann a => a.cls
  | .scalar tok => .base (.scalar (tok.map classify))
  | .key k => .base (.key (k.map classify))
  | .lbrace => .base .lbrace | .rbrace => .base .rbrace | .lbrack => .base .lbrack | .rbrack => .base .rbrack
  | .comma => .base .comma | .colon => .base .colon

def bytesOf : List BTok → Bytes
  | [] => []
  | t :: ts => t.bytes ++ bytesOf ts

def gapToks (g : Gap) : List BTok := g.map BTok.lay

/-- the annotation of a scalar: before (`behind = false`) or behind the comma that follows the value, `g` the blanks
between the previous token and the annotation -/
structure SAnn where
  behind : Bool
  g : Gap
  a : Annot

mutual
/-- annotated trees with layout. Scalars carry their annotation (position: before / behind the comma); containers
carry theirs behind the opening bracket (`an`: blanks, annotation). -/
inductive ATree
  | scalar (tok : Bytes) (an : Option SAnn)
  | arr (an : Option (Gap × Annot)) (items : AItems)
  | obj (an : Option (Gap × Annot)) (ms : AMembers)
/-- `nil g`: layout before the closing bracket; `cons g1 v g2 comma rest`: layout, item, layout, `,`? -/
inductive AItems
  | nil (g : Gap)
  | cons (g1 : Gap) (v : ATree) (g2 : Gap) (comma : Bool) (rest : AItems)
/-- `cons g1 key g2 g3 v g4 comma rest`: layout, key, layout, `:`, layout, value, layout, `,`? -/
inductive AMembers
  | nil (g : Gap)
  | cons (g1 : Gap) (k : Bytes) (g2 g3 : Gap) (v : ATree) (g4 : Gap) (comma : Bool) (rest : AMembers)
end

def headToks : Option (Gap × Annot) → List BTok
  | none => []
  | some (g, a) => gapToks g ++ [.ann a]

/-- the tokens of a scalar's annotation behind the comma -/
def ATree.toksB : ATree → List BTok
  | .scalar _ (some ⟨true, g, a⟩) => gapToks g ++ [.ann a]
  | _ => []

mutual
/-- the tokens of a value up to (not including) the separator that follows it -/
def ATree.toks : ATree → List BTok
  | .scalar tok (some ⟨false, g, a⟩) => .scalar tok :: (gapToks g ++ [.ann a])
  | .scalar tok _ => [.scalar tok]
  | .arr an items => .lbrack :: (headToks an ++ (items.toks ++ [.rbrack]))
  | .obj an ms => .lbrace :: (headToks an ++ (ms.toks ++ [.rbrace]))
def AItems.toks : AItems → List BTok
  | .nil g => gapToks g
  | .cons g1 v g2 comma rest =>
    gapToks g1 ++ (v.toks ++ (gapToks g2 ++ ((bif comma then .comma :: v.toksB else []) ++ rest.toks)))
def AMembers.toks : AMembers → List BTok
  | .nil g => gapToks g
  | .cons g1 k g2 g3 v g4 comma rest =>
    gapToks g1 ++ (.key k :: (gapToks g2 ++ (.colon :: (gapToks g3 ++ (v.toks ++ (gapToks g4 ++
      ((bif comma then .comma :: v.toksB else []) ++ rest.toks)))))))
end

/-- the schema text: layout, the tree, layout -/
def docToks (w0 : Gap) (t : ATree) (w1 : Gap) : List BTok := gapToks w0 ++ (t.toks ++ gapToks w1)
def docText (w0 : Gap) (t : ATree) (w1 : Gap) : Bytes := bytesOf (docToks w0 t w1)

/-! ### the SPEC: the node table -/

def annX (a : Option Annot) (xn : XNode) : XNode :=
  match a with
  | none => xn
  | some a => Lay.addAnn xn a.ob (a.nt.map (·.2))

mutual
def ATree.count : ATree → Nat
  | .scalar _ _ => 1
  | .arr _ items => 1 + items.count
  | .obj _ ms => 1 + ms.count
def AItems.count : AItems → Nat
  | .nil _ => 0
  | .cons _ v _ _ rest => v.count + rest.count
def AMembers.count : AMembers → Nat
  | .nil _ => 0
  | .cons _ _ _ _ v _ _ rest => v.count + rest.count
end

def AItems.idx : Nat → AItems → List Nat
  | _, .nil _ => []
  | n, .cons _ v _ _ rest => n :: rest.idx (n + v.count)
def AMembers.idx : Nat → AMembers → List Nat
  | _, .nil _ => []
  | n, .cons _ _ _ _ v _ _ rest => n :: rest.idx (n + v.count)
/-- decoded keys, in source order -/
def AMembers.keys : AMembers → List (Bytes × Bool)
  | .nil _ => []
  | .cons _ k _ _ _ _ _ rest => (Unquote.unquote k, false) :: rest.keys

mutual
/-- the nodes of a value in pre-order (= source order), its own node at index `n`, its parent `par`: kind, parent,
children, decoded keys (objects), literal token (scalars), and the annotation of THAT node: rule names, rule value
texts (written order), note -/
def ATree.nodes (par : Option Nat) : Nat → ATree → List XNode
  | _, .scalar tok an => [annX (an.map (·.a)) { xfresh .lit par with value := some tok }]
  | n, .arr an items =>
    { annX (an.map (·.2)) (xfresh .arr par) with children := items.idx (n + 1) } :: items.nodes n (n + 1)
  | n, .obj an ms =>
    { annX (an.map (·.2)) (xfresh .obj par) with children := ms.idx (n + 1), keys := ms.keys } :: ms.nodes n (n + 1)
def AItems.nodes (a : Nat) : Nat → AItems → List XNode
  | _, .nil _ => []
  | n, .cons _ v _ _ rest => v.nodes (some a) n ++ rest.nodes a (n + v.count)
def AMembers.nodes (a : Nat) : Nat → AMembers → List XNode
  | _, .nil _ => []
  | n, .cons _ _ _ _ v _ _ rest => v.nodes (some a) n ++ rest.nodes a (n + v.count)
end

/-- **the table an annotated tree denotes** -/
def ATree.table (t : ATree) : List XNode := t.nodes none 0

/-- the loader's table read against the text -/
def abstractOf (src : Array UInt8) (st : Loader.St) : List XNode := st.nodes.toList.map (Loader.absX src)

/-! ### the line discipline, decidable

`ak`: the scanner's `allowAnnotation` is known to be on; `pl`: the number of nodes created since the last line break.
An annotation is accepted when `ak` and `pl = 1` (then the node created last is the only one on the line, and the
tree puts the annotation right behind ITS node). A line break behind a comma switches `allowAnnotation` on; behind a
container it is treated as unknown (pessimistic). -/

def gapPl (pl : Nat) (g : Gap) : Nat := bif g.hasNl then 0 else pl
def gapAk (sep : Bool) (ak : Bool) (g : Gap) : Bool := ak || (sep && g.hasNl)

def annChk (ak : Bool) (pl : Nat) (a : Annot) : Option (Bool × Nat) :=
  bif ak && pl == 1 then some (ak, bif a.multi then 1 else 0) else none

def headChk (ak : Bool) (pl : Nat) : Option (Gap × Annot) → Option (Bool × Nat)
  | none => some (ak, pl)
  | some (g, a) => annChk ak (gapPl pl g) a

/-- the annotation behind the comma (state behind a separator: `sep = true`) -/
def ATree.chkB (ak : Bool) (pl : Nat) : ATree → Option (Bool × Nat)
  | .scalar _ (some ⟨true, g, a⟩) => annChk (gapAk true ak g) (gapPl pl g) a
  | _ => some (ak, pl)

def ATree.hasB : ATree → Bool
  | .scalar _ (some ⟨true, _, _⟩) => true
  | _ => false

/-- where a list of items / members stands: behind the opening bracket, behind a comma, behind a value -/
inductive Pos | first | sep | aft
  deriving DecidableEq

mutual
/-- `chk ak pl v`: the value `v` starts with `allowAnnotation` known (`ak`) and `pl` nodes on the line; the result is
the same information behind the value -/
def ATree.chk (ak : Bool) (pl : Nat) : ATree → Option (Bool × Nat)
  | .scalar _ (some ⟨false, g, a⟩) => annChk ak (gapPl (pl + 1) g) a
  | .scalar _ _ => some (ak, pl + 1)
  | .arr an items =>
    match headChk ak (pl + 1) an with
    | none => none
    | some (ak1, pl1) => (items.chk .first ak1 pl1).map (fun pl2 => (false, pl2))
  | .obj an ms =>
    match headChk ak (pl + 1) an with
    | none => none
    | some (ak1, pl1) => (ms.chk .first [] ak1 pl1).map (fun pl2 => (false, pl2))
def AItems.chk (p : Pos) (ak : Bool) (pl : Nat) : AItems → Option Nat
  | .nil g => bif p == .sep then none else some (gapPl pl g)
  | .cons g1 v g2 comma rest =>
    bif p == .aft then none else
    match v.chk (gapAk (p == .sep) ak g1) (gapPl pl g1) with
    | none => none
    | some (ak2, pl2) =>
      bif comma then
        match v.chkB ak2 (gapPl pl2 g2) with
        | none => none
        | some (ak3, pl3) => rest.chk .sep ak3 pl3
      else bif v.hasB then none else rest.chk .aft ak2 (gapPl pl2 g2)
def AMembers.chk (p : Pos) (seen : List (Bytes × Bool)) (ak : Bool) (pl : Nat) : AMembers → Option Nat
  | .nil g => bif p == .sep then none else some (gapPl pl g)
  | .cons g1 k g2 g3 v g4 comma rest =>
    bif p == .aft || g2.hasCmt || g3.hasCmt || seen.contains (Unquote.unquote k, false) then none else
    match v.chk (p == .first || gapAk (p == .sep) ak g1) (gapPl (gapPl (gapPl pl g1) g2) g3) with
    | none => none
    | some (ak2, pl2) =>
      bif comma then
        match v.chkB ak2 (gapPl pl2 g4) with
        | none => none
        | some (ak3, pl3) => rest.chk .sep (seen ++ [(Unquote.unquote k, false)]) ak3 pl3
      else bif v.hasB then none else rest.chk .aft (seen ++ [(Unquote.unquote k, false)]) ak2 (gapPl pl2 g4)
end

/-- **the line discipline of a whole text** `w0 t w1`: every annotation follows exactly one node creation on its line
(and the scanner allows it there); commas separate; keys of one object are distinct after decoding -/
def lineOK (w0 : Gap) (t : ATree) : Bool := (t.chk true (gapPl 0 w0)).isSome && !t.hasB

/-! ### the token grammar (Prop: the scanner's token automata) -/

def Annot.WF (a : Annot) : Prop :=
  a.cls.WF ∧ (∀ s4 txt, a.nt = some (s4, txt) → txt ≠ []) ∧ (a.multi = false → classify a.nlb = .nl)

def LTok.WF : LTok → Prop
  | .sp b => (classify b).isSpTab = true
  | .nl b => classify b = .nl
  | .cmt t n => (Tok.cmt (t.map classify)).WF ∧ classify n = .nl

def BTok.WF : BTok → Prop
  | .lay l => l.WF
  | .ann a => a.WF
  | .scalar tok => SchemaScan.IsScalar (tok.map classify)
  | .key k => SchemaScan.IsKey (k.map classify)
  | _ => True

def TokOK (ts : List BTok) : Prop := ∀ t ∈ ts, t.WF

/-! ### what is left when the surface is erased -/

/-- a tree without layout: kinds, keys (decoded), scalar tokens, and per node the annotation's pairs and note -/
inductive STree
  | scalar (tok : Bytes) (an : Option (List (Bytes × Bytes) × Option Bytes))
  | arr (an : Option (List (Bytes × Bytes) × Option Bytes)) (items : List STree)
  | obj (an : Option (List (Bytes × Bytes) × Option Bytes)) (ms : List (Bytes × STree))

def Annot.strip (a : Annot) : List (Bytes × Bytes) × Option Bytes := (a.pairs, a.note)

mutual
/-- erase the annotations' form (inline / multi-line, position, blanks, trailing comma), blanks, line ends, comments -/
def ATree.strip : ATree → STree
  | .scalar tok an => .scalar tok (an.map (·.a.strip))
  | .arr an items => .arr (an.map (·.2.strip)) items.strip
  | .obj an ms => .obj (an.map (·.2.strip)) ms.strip
def AItems.strip : AItems → List STree
  | .nil _ => []
  | .cons _ v _ _ rest => v.strip :: rest.strip
def AMembers.strip : AMembers → List (Bytes × STree)
  | .nil _ => []
  | .cons _ k _ _ v _ _ rest => (Unquote.unquote k, v.strip) :: rest.strip
end

end AT
