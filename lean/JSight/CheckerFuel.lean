import JSight.Checker
import Mathlib.Data.List.Nodup
/-!
# C04 — the fuel of `buildList` and `collectAllowedJsonTypes` always suffices

`buildList` expands every type name at most once (`addedTypeNames` only grows) and `collectAllowedJsonTypes` never
follows a name that is on its current path (`foundTypeNames`): the nesting depth of the recursion is at most the
number of entries of the type table, so the model's fuel `|table| + 2` is never exhausted — the `crash` outcome
of these two functions is unreachable, for every table (cyclic ones included).
-/
namespace CK

/-- the visited set of a traversal: names without repetition, all present in the table -/
def Inv (env : Env) (added : List Name) : Prop := added.Nodup ∧ ∀ n ∈ added, (env.lookup n).isSome = true

theorem lookup_isSome_mem (env : Env) (n : Name) (h : (env.lookup n).isSome = true) : n ∈ env.types.map (·.1) := by
  unfold Env.lookup at h
  cases hf : env.types.find? (·.1 == n) with
  | none => simp [hf] at h
  | some e =>
    have hm := List.mem_of_find?_eq_some hf
    have he := List.find?_some hf
    have : e.1 = n := by simpa using he
    exact List.mem_map.2 ⟨e, hm, this⟩

/-- pigeonhole: a visited set is no longer than the table -/
theorem Inv.length_le (env : Env) (added : List Name) (h : Inv env added) : added.length ≤ env.types.length := by
  have hs : added ⊆ env.types.map (·.1) := fun n hn => lookup_isSome_mem env n (h.2 n hn)
  simpa using List.Nodup.length_le_of_subset h.1 hs

theorem Inv.cons (env : Env) (added : List Name) (n : Name) (t : Hd) (h : Inv env added)
    (hc : added.contains n = false) (hl : env.lookup n = some t) : Inv env (n :: added) := by
  have hn : n ∉ added := by simpa using hc
  refine ⟨List.nodup_cons.2 ⟨hn, h.1⟩, ?_⟩
  intro m hm
  rcases List.mem_cons.1 hm with rfl | hm
  · simp [hl]
  · exact h.2 m hm

/-! ### `buildList` -/

/-- what the loop needs from the recursive call at a given fuel -/
def BuildOK (env : Env) (k : Nat) (rec : Info → List Name × List Chk → Except Panic (List Name × List Chk)) : Prop :=
  ∀ (i : Info) (added : List Name) (l : List Chk), Inv env added → k ≤ added.length →
    (∀ w, rec i (added, l) ≠ .error (.crash w)) ∧
    (∀ added' l', rec i (added, l) = .ok (added', l') → Inv env added' ∧ added.length ≤ added'.length)

theorem buildNames_ok (env : Env) (k : Nat) (rec : Info → List Name × List Chk → Except Panic (List Name × List Chk))
    (hrec : BuildOK env (k + 1) rec) :
    ∀ (ns : List Name) (added : List Name) (l : List Chk), Inv env added → k ≤ added.length →
      (∀ w, buildNames rec env ns (added, l) ≠ .error (.crash w)) ∧
      (∀ added' l', buildNames rec env ns (added, l) = .ok (added', l') → Inv env added' ∧ added.length ≤ added'.length)
  | [], added, l, hi, _ => by
    refine ⟨fun w h => by simp [buildNames] at h, ?_⟩
    intro added' l' h
    simp only [buildNames, Except.ok.injEq, Prod.mk.injEq] at h
    obtain ⟨rfl, _⟩ := h
    exact ⟨hi, Nat.le_refl _⟩
  | n :: ns, added, l, hi, hk => by
    unfold buildNames
    cases hc : added.contains n with
    | true => simpa using buildNames_ok env k rec hrec ns added l hi hk
    | false =>
      simp only [Bool.false_eq_true, if_false]
      cases hl : env.lookup n with
      | none => exact ⟨fun w h => by simp at h, fun _ _ h => by simp at h⟩
      | some t =>
        simp only []
        have hi' := Inv.cons env added n t hi hc hl
        have hk' : k + 1 ≤ (n :: added).length := by simp; omega
        obtain ⟨h1, h2⟩ := hrec t.info (n :: added) l hi' hk'
        cases hr : rec t.info (n :: added, l) with
        | error e =>
          refine ⟨?_, fun _ _ h => by simp at h⟩
          intro w h
          simp only [Except.error.injEq] at h
          exact h1 w (by rw [hr, h])
        | ok st =>
          obtain ⟨added₂, l₂⟩ := st
          simp only []
          obtain ⟨hi₂, hlen⟩ := h2 added₂ l₂ hr
          have hk₂ : k ≤ added₂.length := by simp at hlen; omega
          obtain ⟨h3, h4⟩ := buildNames_ok env k rec hrec ns added₂ l₂ hi₂ hk₂
          refine ⟨h3, ?_⟩
          intro added' l' h
          obtain ⟨hi₃, hlen₃⟩ := h4 added' l' h
          exact ⟨hi₃, by simp at hlen; omega⟩

/-- with `fuel + |added| > |table|` the recursion never runs out of fuel -/
theorem build_ok (env : Env) : ∀ fuel : Nat, BuildOK env (env.types.length + 1 - fuel) (build env fuel)
  | 0 => by
    intro i added l hi hk
    have := Inv.length_le env added hi
    omega
  | f + 1 => by
    intro i added l hi hk
    unfold build
    cases typesList? i.cs with
    | none =>
      simp only []
      cases newChecker i with
      | none => exact ⟨fun w h => by simp at h, fun _ _ h => by simp at h⟩
      | some c =>
        refine ⟨fun w h => by simp at h, ?_⟩
        intro added' l' h
        simp only [Except.ok.injEq, Prod.mk.injEq] at h
        obtain ⟨rfl, _⟩ := h
        exact ⟨hi, Nat.le_refl _⟩
    | some names =>
      simp only []
      have hrec : BuildOK env (env.types.length + 1 - (f + 1) + 1) (build env f) := by
        intro i' added' l' hi' hk'
        exact build_ok env f i' added' l' hi' (by omega)
      exact buildNames_ok env _ (build env f) hrec names added l hi hk

/-- `buildList` on a node never exhausts the model's fuel -/
theorem checkerList_no_crash (env : Env) (i : Info) (w : String) : checkerList env i ≠ .error (.crash w) := by
  unfold checkerList
  have h := (build_ok env env.fuel i [] [] ⟨List.nodup_nil, by simp⟩ (by simp [Env.fuel])).1 w
  cases hb : build env env.fuel i ([], []) with
  | ok st => simp
  | error e =>
    simp only [ne_eq, Except.error.injEq]
    intro he
    exact h (by rw [hb, he])

end CK

namespace CK

/-! ### `collectAllowedJsonTypes` -/

def CollectOK (env : Env) (k : Nat) (rec : List Name → Info → List JT → Except Panic (List JT)) : Prop :=
  ∀ (found : List Name) (i : Info) (acc : List JT), Inv env found → k ≤ found.length →
    ∀ w, rec found i acc ≠ .error (.crash w)

theorem collectNames_ok (env : Env) (k : Nat) (rec : List Name → Info → List JT → Except Panic (List JT))
    (hrec : CollectOK env (k + 1) rec) (found : List Name) (hi : Inv env found) (hk : k ≤ found.length) :
    ∀ (ns : List Name) (acc : List JT) (w : String), collectNames rec env found ns acc ≠ .error (.crash w)
  | [], acc, w => by simp [collectNames]
  | n :: ns, acc, w => by
    unfold collectNames
    cases hc : found.contains n with
    | true => simp
    | false =>
      simp only [Bool.false_eq_true, if_false]
      cases hl : env.lookup n with
      | none => simp
      | some t =>
        simp only []
        have hi' := Inv.cons env found n t hi hc hl
        have h1 := hrec (n :: found) t.info acc hi' (by simp; omega)
        cases hr : rec (n :: found) t.info acc with
        | error e =>
          simp only [ne_eq, Except.error.injEq]
          intro he
          exact h1 w (by rw [hr, he])
        | ok acc' => exact collectNames_ok env k rec hrec found hi hk ns acc' w

theorem collect_ok (env : Env) : ∀ fuel : Nat, CollectOK env (env.types.length + 1 - fuel) (collect env fuel)
  | 0 => by
    intro found i acc hi hk
    have := Inv.length_le env found hi
    omega
  | f + 1 => by
    intro found i acc hi hk w
    unfold collect
    by_cases hm : i.nk = .mixedValue
    · simp only [hm, beq_self_eq_true, if_true]
      cases typesList? i.cs with
      | none => simp
      | some names =>
        simp only []
        split <;> simp
    · have : (i.nk == NK.mixedValue) = false := by simpa using hm
      simp only [this, Bool.false_eq_true, if_false]
      cases typesList? i.cs with
      | none => simp
      | some names =>
        simp only []
        have hrec : CollectOK env (env.types.length + 1 - (f + 1) + 1) (collect env f) := by
          intro found' i' acc' hi' hk'
          exact collect_ok env f found' i' acc' hi' (by omega)
        exact collectNames_ok env _ (collect env f) hrec found hi hk names acc w

/-- `checkLinksOfNode` never exhausts the model's fuel -/
theorem linksErr_no_crash (env : Env) (i : Info) (w : String) : linksErr env i ≠ some (.crash w) := by
  unfold linksErr
  cases typesList? i.cs with
  | none => simp
  | some names =>
    simp only []
    have h := collect_ok env env.fuel [] i [] ⟨List.nodup_nil, by simp⟩ (by simp [Env.fuel]) w
    cases hc : collect env env.fuel [] i [] with
    | error e =>
      simp only [ne_eq, Option.some.injEq]
      intro he
      exact h (by rw [hc, he])
    | ok allowed =>
      simp only []
      split
      · simp
      · split <;> simp

/-! ### `actualRootTypeVisiting` -/

def ActualOK (env : Env) (k : Nat) (rec : List Name → Info → Option JT) : Prop :=
  ∀ (visiting : List Name) (i : Info), Inv env visiting → k ≤ visiting.length → rec visiting i ≠ none

theorem actualLoop_ok (env : Env) (k : Nat) (rec : List Name → Info → Option JT) (hrec : ActualOK env (k + 1) rec)
    (visiting : List Name) (hi : Inv env visiting) (hk : k ≤ visiting.length) :
    ∀ (tns : List Name) (seen : List JT) (last : Option JT), (seen = [] ∨ last ≠ none) →
      actualLoop rec env visiting tns seen last ≠ none
  | [], seen, last, hs => by
    unfold actualLoop
    split
    · rename_i h1
      rcases hs with rfl | hs
      · simp at h1
      · exact hs
    · simp
  | tn :: tns, seen, last, hs => by
    unfold actualLoop
    cases hc : visiting.contains tn with
    | true => simp
    | false =>
      simp only [Bool.false_eq_true, if_false]
      cases hl : env.lookup tn with
      | none => simp
      | some t =>
        simp only []
        have hi' := Inv.cons env visiting tn t hi hc hl
        have h1 := hrec (tn :: visiting) t.info hi' (by simp; omega)
        cases hr : rec (tn :: visiting) t.info with
        | none => exact absurd hr h1
        | some tt => exact actualLoop_ok env k rec hrec visiting hi hk tns (tt :: seen) (some tt) (.inr (by simp))

theorem actualRoot_ok (env : Env) : ∀ fuel : Nat, ActualOK env (env.types.length + 1 - fuel) (actualRoot env fuel)
  | 0 => by
    intro visiting i hi hk
    have := Inv.length_le env visiting hi
    omega
  | f + 1 => by
    intro visiting i hi hk
    unfold actualRoot
    split
    · simp
    · split
      · have hrec : ActualOK env (env.types.length + 1 - (f + 1) + 1) (actualRoot env f) := by
          intro v' i' hi' hk'
          exact actualRoot_ok env f v' i' hi' (by omega)
        exact actualLoop_ok env _ (actualRoot env f) hrec visiting hi hk i.gtypes [] none (.inl rfl)
      · simp

/-- `ensureShortcutKeysAreValid` never exhausts the model's fuel -/
theorem keysErr_no_crash (env : Env) : ∀ (ks : List Key) (w : String), keysErr env ks ≠ some (.crash w)
  | [], w => by simp [keysErr]
  | k :: ks, w => by
    unfold keysErr
    split
    · exact keysErr_no_crash env ks w
    · cases hl : env.lookup k.name with
      | none => simp
      | some t =>
        simp only []
        have h := actualRoot_ok env env.fuel [] t.info ⟨List.nodup_nil, by simp⟩ (by simp [Env.fuel])
        cases ha : actualRoot env env.fuel [] t.info with
        | none => exact absurd ha h
        | some jt =>
          simp only []
          split
          · simp
          · exact keysErr_no_crash env ks w

end CK

namespace CK
open RulesF (Oracles)

/-! ### `checkArrayItems` and the whole node-local check -/

/-- the types list of an array among the type roots names no array (the compiler forbids `{type: "@t"}` and user types in an
`or` on arrays: a types list on an array names only or rule-set members, whose roots are mixed nodes) -/
def ArraysFlat (env : Env) : Prop :=
  ∀ (n : Name) (t : Hd), env.lookup n = some t → t.info.nk = .arr →
    ∀ names, typesList? t.info.cs = some names → ∀ m ∈ names, ∀ u, env.lookup m = some u → u.info.nk ≠ .arr

theorem arrayItemsNames_nonarr (rec : Hd → Option Panic) (env : Env) :
    ∀ (ns : List Name), (∀ m ∈ ns, ∀ u, env.lookup m = some u → u.info.nk ≠ .arr) → ∀ w : String,
      arrayItemsNames rec env ns ≠ some (.crash w)
  | [], _, w => by simp [arrayItemsNames]
  | n :: ns, h, w => by
    unfold arrayItemsNames
    cases hl : env.lookup n with
    | none => simp
    | some t =>
      simp only []
      have hna : (t.info.nk == NK.arr) = false := by simpa using h n (by simp) t hl
      simp only [hna, Bool.false_eq_true, if_false]
      exact arrayItemsNames_nonarr rec env ns (fun m hm => h m (List.mem_cons_of_mem _ hm)) w

/-- on an array of the table `checkArrayItems` does not recurse further -/
theorem arrayItems_table (env : Env) (hT : ArraysFlat env) (f : Nat) (n : Name) (t : Hd) (hl : env.lookup n = some t)
    (hk : t.info.nk = .arr) (w : String) : arrayItems env (f + 1) t ≠ some (.crash w) := by
  unfold arrayItems
  split
  · simp
  · split
    · simp
    · cases ht : typesList? t.info.cs with
      | none => simp
      | some names => exact arrayItemsNames_nonarr _ env names (hT n t hl hk names ht) w

theorem arrayItemsNames_flat (env : Env) (hT : ArraysFlat env) (f : Nat) :
    ∀ (ns : List Name) (w : String), arrayItemsNames (arrayItems env (f + 1)) env ns ≠ some (.crash w)
  | [], w => by simp [arrayItemsNames]
  | n :: ns, w => by
    unfold arrayItemsNames
    cases hl : env.lookup n with
    | none => simp
    | some t =>
      simp only []
      split
      · rename_i hk
        have hk' : t.info.nk = .arr := by simpa using hk
        cases hr : arrayItems env (f + 1) t with
        | some p =>
          simp only [ne_eq, Option.some.injEq]
          intro hp
          exact arrayItems_table env hT f n t hl hk' w (by rw [hr, hp])
        | none => exact arrayItemsNames_flat env hT f ns w
      · exact arrayItemsNames_flat env hT f ns w

/-- `checkArrayItems` does not overflow the stack when the types lists of the table's arrays name no arrays -/
theorem arrayItems_no_crash (env : Env) (hT : ArraysFlat env) (h : Hd) (w : String) :
    arrayItems env env.fuel h ≠ some (.crash w) := by
  unfold Env.fuel arrayItems
  split
  · simp
  · split
    · simp
    · split
      · simp
      · exact arrayItemsNames_flat env hT _ _ w

theorem literalErr_no_crash (o : Oracles) (env : Env) (i : Info) (w : String) : literalErr o env i ≠ some (.crash w) := by
  unfold literalErr
  cases hc : checkerList env i with
  | error e =>
    simp only [ne_eq, Option.some.injEq]
    intro he
    exact checkerList_no_crash env i w (by rw [hc, he])
  | ok l =>
    simp only []
    unfold literalVerdict
    split
    · split
      · rename_i c _
        cases c.check o i.lex <;> simp
      · simp
    · simp

theorem catchLex_crash (lex : Lex) (p : Panic) (w : String) (h : catchLex lex p = .crash w) : p = .crash w := by
  cases p <;> simp_all [catchLex]

/-- NO CRASH: the node-local check never ends in the model's `crash` outcome (out of fuel / stack overflow) -/
theorem nodeErr_no_crash (o : Oracles) (env : Env) (hT : ArraysFlat env) (h : Hd) (w : String) :
    nodeErr o env h ≠ some (.crash w) := by
  unfold nodeErr
  intro hn
  simp only [Option.map_eq_some_iff] at hn
  obtain ⟨q, hq, hc⟩ := hn
  have hq' := catchLex_crash _ _ _ hc
  subst hq'
  cases h1 : compatErr h.info with
  | some p =>
    simp only [h1, orElse, Option.some.injEq] at hq
    unfold compatErr at h1
    split at h1
    · simp at h1
    · split at h1
      · simp only [Option.some.injEq] at h1; rw [← h1] at hq; simp at hq
      · simp at h1
  | none =>
    cases h2 : linksErr env h.info with
    | some p =>
      simp only [h1, h2, orElse, Option.some.injEq] at hq
      exact linksErr_no_crash env h.info w (by rw [h2, hq])
    | none =>
      simp only [h1, h2, orElse] at hq
      cases hk : h.info.nk with
      | lit => rw [hk] at hq; exact literalErr_no_crash o env _ w hq
      | arr =>
        rw [hk] at hq
        simp only [] at hq
        cases h3 : arrayItems env env.fuel h with
        | some p =>
          simp only [h3, Option.some.injEq] at hq
          exact arrayItems_no_crash env hT h w (by rw [h3, hq])
        | none =>
          simp only [h3] at hq
          unfold arrayNodeErr at hq
          repeat' split at hq
          all_goals simp at hq
      | obj =>
        rw [hk] at hq
        simp only [] at hq
        cases h3 : keysErr env h.info.keys with
        | some p =>
          simp only [h3, Option.some.injEq] at hq
          exact keysErr_no_crash env _ w (by rw [h3, hq])
        | none =>
          simp only [h3] at hq
          unfold addPropsErr at hq
          repeat' split at hq
          all_goals simp at hq
      | mixed => rw [hk] at hq; simp at hq
      | mixedValue => rw [hk] at hq; simp at hq

end CK
