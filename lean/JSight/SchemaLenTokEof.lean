import JSight.SchemaLenErr
/-!
C14: `Len` of a schema (token list) that fills the whole input: the text length without trailing blanks.
The raw length `lengthLoop` computes is the end of the last event; behind the complete top-level value only blanks
separate it from the index (`Sync`).
-/
namespace SchemaScan
namespace Len

variable {data : Array Cls}

/-- between the raw length `L` and the index `i` there are only blanks -/
def Sync (data : Array Cls) (L i : Nat) : Prop :=
  L ≤ i ∧ ∀ j, L ≤ j → j < i → (data[j]?.map Cls.isBlank) = some true

theorem Sync.refl (i : Nat) : Sync data i i := ⟨Nat.le_refl _, fun j h1 h2 => by omega⟩

theorem Sync.step {L i : Nat} {c : Cls} (h : Sync data L i) (hc : data[i]? = some c) (hb : c.isBlank = true) :
    Sync data L (i + 1) := by
  refine ⟨by have := h.1; omega, fun j h1 h2 => ?_⟩
  by_cases hj : j < i
  · exact h.2 j h1 hj
  · have : j = i := by omega
    subst this
    rw [hc]; simp [hb]

theorem trimBlank_sync {L : Nat} : ∀ {i : Nat}, Sync data L i → trimBlank data i = trimBlank data L
  | 0, h => by have := h.1; have : L = 0 := by omega
               subst this; rfl
  | i + 1, h => by
    by_cases hl : L = i + 1
    · subst hl; rfl
    · have hb := h.2 i (by have := h.1; omega) (by omega)
      rw [trimBlank, hb]
      simp only [beq_self_eq_true, if_true]
      exact trimBlank_sync ⟨by have := h.1; omega, fun j h1 h2 => h.2 j h1 (by omega)⟩

theorem sptab_blank {c : Cls} (h : c.isSpTab = true) : c.isBlank = true := by
  cases c <;> simp [Cls.isSpTab] at h <;> rfl

theorem lenAfter_snoc (es : List Ev) (e : Ev) (L : Nat) : lenAfter data (es ++ [e]) L = upd data e := by
  rw [lenAfter_append]; rfl

theorem inlEvs_last (b : InlBody) (h : Nat) :
    ∃ es, b.evs h = es ++ [⟨.newLine, h + 2 + b.render.length, h + 2 + b.render.length⟩] := by
  cases b with
  | note s2 txt =>
    refine ⟨[⟨.inlAnnB, h, h + 1⟩, ⟨.inlTxtB, h + 2 + s2.length, h + 2 + s2.length⟩,
      ⟨.inlTxtE, h + 2 + s2.length, h + 2 + s2.length + txt.length - 1⟩,
      ⟨.inlAnnE, h, h + 2 + s2.length + txt.length - 1⟩], ?_⟩
    simp only [InlBody.evs, InlBody.render, List.length_append, List.cons_append, List.nil_append]
    rw [show h + 2 + (s2.length + txt.length) = h + 2 + s2.length + txt.length by omega]
  | obj s2 ob s3 nt =>
    cases nt with
    | none =>
      refine ⟨⟨.inlAnnB, h, h + 1⟩ :: ⟨.objB, h + 2 + s2.length, h + 2 + s2.length⟩ :: (ob.evs (h + 2 + s2.length) ++
        [⟨.inlAnnE, h, h + 2 + s2.length + 1 + ob.body.length + 1 + s3.length - 1⟩]), ?_⟩
      simp only [InlBody.evs, InlBody.render, noteTail, List.length_append, List.length_cons, List.length_nil,
        List.cons_append, List.append_assoc, List.nil_append]
      rw [show h + 2 + (s2.length + (ob.body.length + (s3.length + 0 + 1) + 1))
        = h + 2 + s2.length + 1 + ob.body.length + 1 + s3.length by omega]
    | some p =>
      obtain ⟨s4, txt⟩ := p
      refine ⟨⟨.inlAnnB, h, h + 1⟩ :: ⟨.objB, h + 2 + s2.length, h + 2 + s2.length⟩ :: (ob.evs (h + 2 + s2.length) ++
        [⟨.inlTxtB, h + 2 + s2.length + 1 + ob.body.length + 1 + s3.length + 1 + s4.length,
          h + 2 + s2.length + 1 + ob.body.length + 1 + s3.length + 1 + s4.length⟩,
        ⟨.inlTxtE, h + 2 + s2.length + 1 + ob.body.length + 1 + s3.length + 1 + s4.length,
          h + 2 + s2.length + 1 + ob.body.length + 1 + s3.length + 1 + s4.length + txt.length - 1⟩,
        ⟨.inlAnnE, h, h + 2 + s2.length + 1 + ob.body.length + 1 + s3.length + 1 + s4.length + txt.length - 1⟩]), ?_⟩
      simp only [InlBody.evs, InlBody.render, noteTail, List.length_append, List.length_cons, List.length_nil,
        List.cons_append, List.append_assoc, List.nil_append]
      rw [show h + 2 + (s2.length + (ob.body.length + (s3.length + (s4.length + txt.length + 1) + 1) + 1))
        = h + 2 + s2.length + 1 + ob.body.length + 1 + s3.length + 1 + s4.length + txt.length by omega]

theorem lt_of_at {i : Nat} {c : Cls} (h : data[i]? = some c) : i < data.size :=
  (Array.getElem?_eq_some_iff.mp h).1

theorem wsLoop_notPV {st : St} (h : wsLoop st = true) : PV st = false := by
  cases st <;> simp [wsLoop] at h <;> rfl

theorem nlSt_endTop {st : St} (hw : wsLoop st = true) (h : nlSt st = .endTop ∨ PV (nlSt st) = true) : st = .endTop := by
  cases st <;> simp [wsLoop] at hw <;> simp [nlSt, PV] at h <;> rfl

/-- a token that leaves the scanner behind the complete top-level value keeps (or restores) `Sync` -/
theorem slotStep_sync (c c' : TC) (t : Tok) (e2 : List Ev) (h : slotStep c t = some (c', e2)) (hw : t.WF)
    (hat : At data c.i t.render) (hK' : c'.K = []) (hst' : c'.st = .endTop ∨ PV c'.st = true) :
    ∀ L, (c.st = .endTop → c.K = [] → Sync data L c.i) → Sync data (lenAfter data e2 L) c'.i := by
  intro L hpre
  cases t with
  | sp ch =>
    simp only [slotStep] at h
    split at h
    · rename_i hl
      cases h
      simp only at hK' hst'
      have hst : c.st = .endTop := by
        rcases hst' with h1 | h1
        · exact h1
        · rw [wsLoop_notPV hl] at h1; cases h1
      exact (hpre hst hK').step hat.1 (sptab_blank hw)
    · cases h
  | nl =>
    simp only [slotStep, nlStep] at h
    split at h
    · cases h
      simp only [lenAfter]
      rw [upd_lt _ _ _ (lt_of_at hat.1)]
      exact Sync.refl _
    · cases h
  | cmt text =>
    simp only [slotStep, nlStep] at h
    split at h
    · split at h
      · simp only [Option.map_some, Option.some.injEq, Prod.mk.injEq] at h
        obtain ⟨rfl, rfl⟩ := h
        simp only [Tok.render] at hat
        obtain ⟨_, hat'⟩ := hat
        rw [At_append] at hat'
        simp only [lenAfter]
        rw [upd_lt _ _ _ (lt_of_at hat'.2.1)]
        exact Sync.refl _
      · cases h
    · cases h
  | ann b =>
    simp only [slotStep] at h
    split at h
    · cases h
      obtain ⟨es, he⟩ := inlEvs_last b c.i
      simp only [Tok.render] at hat
      obtain ⟨_, _, hat'⟩ := hat
      rw [At_append] at hat'
      have hnl : data[c.i + 2 + b.render.length]? = some Cls.nl := by
        rw [show c.i + 2 + b.render.length = c.i + 1 + 1 + b.render.length by omega]; exact hat'.2.1
      rw [he, lenAfter_snoc, upd_lt _ _ _ (lt_of_at hnl)]
      exact Sync.refl _
    · cases h
  | scalar tok =>
    simp only [slotStep] at h
    cases hv : vctxOf c.st <;> rw [hv] at h <;> cases h
    cases hK'
  | key k =>
    simp only [slotStep] at h
    split at h <;> cases h
    cases hK'
  | lbrace =>
    simp only [slotStep] at h
    cases hv : vctxOf c.st <;> rw [hv] at h <;> cases h
    cases hK'
  | lbrack =>
    simp only [slotStep] at h
    cases hv : vctxOf c.st <;> rw [hv] at h <;> cases h
    cases hK'
  | rbrace =>
    simp only [slotStep] at h
    split at h <;> cases h <;>
      (simp only [lenAfter]; rw [upd_lt _ _ _ (lt_of_at hat.1)]; exact Sync.refl _)
  | rbrack =>
    simp only [slotStep] at h
    split at h <;> cases h <;>
      (simp only [lenAfter]; rw [upd_lt _ _ _ (lt_of_at hat.1)]; exact Sync.refl _)
  | comma =>
    simp only [slotStep] at h
    split at h <;> cases h <;> (rcases hst' with h1 | h1 <;> cases h1)
  | colon =>
    simp only [slotStep] at h
    split at h <;> cases h <;> (rcases hst' with h1 | h1 <;> cases h1)

theorem render_pos {t : Tok} (hw : t.WF) : 1 ≤ t.render.length := by
  cases t with
  | scalar tok => obtain ⟨c0, tl, _, _, _, rfl, _⟩ := hw; simp [Tok.render]
  | key k => obtain ⟨tl, rfl, _⟩ := hw; simp [Tok.render]
  | _ => simp [Tok.render]

/-- the invariant of a run: behind the complete top-level value the raw length and the index are in `Sync` -/
def Inv (data : Array Cls) (c : TC) (L : Nat) : Prop :=
  (c.K = [] → (c.st = .endTop ∨ PV c.st = true) → Sync data L c.i) ∧ (PV c.st = true → 1 ≤ c.i)

theorem tstep_sync (c c' : TC) (t : Tok) (evs : List Ev) (h : tstep c t = some (c', evs)) (hw : t.WF)
    (hat : At data c.i t.render) (L : Nat) (hinv : Inv data c L) : Inv data c' (lenAfter data evs L) := by
  have hidx := tstep_index h
  have hpos := render_pos hw
  refine ⟨?_, fun _ => by omega⟩
  intro hK' hst'
  have hfirst : c.i < data.size := by
    cases hr : t.render with
    | nil => rw [hr] at hpos; cases hpos
    | cons x xs => rw [hr] at hat; exact lt_of_at hat.1
  unfold tstep at h
  split at h
  · rename_i hpv
    split at h
    · cases h
    · cases hc : closePV c with
      | none => rw [hc] at h; cases h
      | some r =>
        obtain ⟨c1, e1⟩ := r
        rw [hc] at h
        simp only at h
        cases hs : slotStep c1 t with
        | none => rw [hs] at h; cases h
        | some r2 =>
          obtain ⟨c2, e2⟩ := r2
          rw [hs] at h
          simp only [Option.map_some, Option.some.injEq, Prod.mk.injEq] at h
          obtain ⟨rfl, rfl⟩ := h
          have hi1 := closePV_index hc
          rw [lenAfter_append]
          refine slotStep_sync c1 c2 t e2 hs hw (by rw [hi1]; exact hat) hK' hst' _ ?_
          intro hst1 hK1
          rw [hi1]
          unfold closePV at hc
          cases hp : pendOfK c.K with
          | none => rw [hp] at hc; cases hc
          | some pd =>
            rw [hp] at hc
            cases pd with
            | root lit b =>
              simp only [Option.some.injEq, Prod.mk.injEq] at hc
              obtain ⟨_, rfl⟩ := hc
              have hK := pendOfK_root hp
              cases lit with
              | false => exact hinv.1 hK (Or.inr hpv)
              | true =>
                have h1 := hinv.2 hpv
                simp only [rootClosers, if_true, lenAfter]
                rw [upd_pred _ _ _ h1 (by omega)]
                exact Sync.refl _
            | ck lit b ck b2 R =>
              simp only [Option.some.injEq, Prod.mk.injEq] at hc
              obtain ⟨rfl, _⟩ := hc
              cases ck <;> cases hst1
  · exact slotStep_sync c c' t evs h hw hat hK' hst' L (fun hst hK => hinv.1 hK (Or.inl hst))

theorem trun_sync : ∀ (toks : List Tok) (c c' : TC) (evs : List Ev), trun c toks = some (c', evs) →
    (∀ t ∈ toks, t.WF) → At data c.i (renderToks toks) → ∀ L, Inv data c L → Inv data c' (lenAfter data evs L)
  | [], c, c', evs, h, _, _, L, hinv => by
    simp only [trun, Option.some.injEq, Prod.mk.injEq] at h
    obtain ⟨rfl, rfl⟩ := h
    exact hinv
  | t :: ts, c, c', evs, h, hw, hat, L, hinv => by
    simp only [trun] at h
    cases ht : tstep c t with
    | none => rw [ht] at h; cases h
    | some r =>
      obtain ⟨c1, e1⟩ := r
      rw [ht] at h
      simp only at h
      cases hr : trun c1 ts with
      | none => rw [hr] at h; cases h
      | some r2 =>
        obtain ⟨c2, e2⟩ := r2
        rw [hr] at h
        simp only [Option.map_some, Option.some.injEq, Prod.mk.injEq] at h
        obtain ⟨rfl, rfl⟩ := h
        simp only [renderToks] at hat
        rw [At_append] at hat
        have i1 := tstep_sync c c1 t e1 ht (hw t (by simp)) hat.1 L hinv
        rw [lenAfter_append]
        exact trun_sync ts c1 c2 e2 hr (fun x hx => hw x (by simp [hx])) (by rw [tstep_index ht]; exact hat.2) _ i1

end Len

open Len in
/-- **C14 (schema scanner), schema with inline annotations and user comments that fills the input**: the input is the
text of a token list accepted from the initial state that ends behind the complete top-level value (`Complete`):
`Len` is the text length without trailing blanks. -/
theorem C14_schema_len_tokens_whole (toks : List Tok) (hw : ∀ t ∈ toks, t.WF) (c' : TC) (evs : List Ev)
    (h : trun TC.init toks = some (c', evs)) (hend : Complete c')
    (bs : List UInt8) (hbs : bs.map classify = renderToks toks) :
    length bs = .ok (rtrimLen (renderToks toks)) := by
  have hat : At (bs.map classify).toArray 0 (renderToks toks) := At_toArray _ [] _ (by rw [hbs]; simp)
  have hsize : (bs.map classify).toArray.size = (renderToks toks).length := by rw [hbs]; simp
  have P := sim_run (lc := true) toks TC.init c' evs h hw hat
  rw [TC.init_sc] at P
  have hi := trun_index toks TC.init c' evs h
  have hi' : c'.i = (renderToks toks).length := by rw [hi]; simp [TC.init]
  obtain ⟨hnt, hlen⟩ := trun_evs toks TC.init c' evs h hw
  have hinit : Inv (bs.map classify).toArray TC.init 0 :=
    ⟨fun _ hst => (by rcases hst with h1 | h1 <;> cases h1), fun h1 => (by cases h1)⟩
  have hI := trun_sync toks TC.init c' evs h hw hat 0 hinit
  obtain ⟨st, g, K, i, CS, cx, al⟩ := c'
  simp only at hi' hend
  subst hi'
  have key : ∃ L k, LenRun (bs.map classify).toArray { lengthComputing := true } 0 L k ∧
      k ≤ 8 * (bs.map classify).toArray.size + 16 ∧
      trimBlank (bs.map classify).toArray L = trimBlank (bs.map classify).toArray (renderToks toks).length := by
    have done_case : K = [] → (st = .endTop ∨ PV st = true) → ∃ L k,
        LenRun (bs.map classify).toArray { lengthComputing := true } 0 L k ∧
        k ≤ 8 * (bs.map classify).toArray.size + 16 ∧
        trimBlank (bs.map classify).toArray L = trimBlank (bs.map classify).toArray (renderToks toks).length := by
      intro hK hst
      subst hK
      have hn : NextOk (bs.map classify).toArray (TC.sc true ⟨st, g, [], (renderToks toks).length, CS, cx, al⟩) none :=
        nextOk_done rfl (by simp only [TC.sc, cfgL]; omega) rfl
      have r := LenRun.eof (len := lenAfter (bs.map classify).toArray evs 0) hn
      exact ⟨_, _, P.lenRun hnt 0 _ 1 r, by omega, (trimBlank_sync (hI.1 rfl hst)).symm⟩
    rcases hend with ⟨rfl, rfl⟩ | ⟨hpv, rfl, hK⟩
    · exact done_case rfl (Or.inl rfl)
    · rcases hK with rfl | ⟨b, rfl⟩
      · exact done_case rfl (Or.inr hpv)
      · have h1 : 1 ≤ (renderToks toks).length := hI.2 hpv
        have he := Emits.eofLit (data := (bs.map classify).toArray)
          (s := TC.sc true ⟨st, false, [(.litB, b)], (renderToks toks).length, CS, cx, al⟩) (b := b) rfl
          (by simp only [TC.sc, cfgL]; omega) rfl rfl
        cases he with
        | cons hn1 he' =>
          cases he' with
          | nil hn2 =>
            have r := LenRun.ev (len := lenAfter (bs.map classify).toArray evs 0) hn1 (by intro h; cases h) (LenRun.eof hn2)
            have hu : upd (bs.map classify).toArray ⟨.litE, b, (renderToks toks).length - 1⟩ = (renderToks toks).length :=
              upd_pred _ _ _ h1 (by omega)
            have r' : LenRun (bs.map classify).toArray _ _
                (upd (bs.map classify).toArray ⟨.litE, b, (renderToks toks).length - 1⟩) (1 + 1) := r
            rw [hu] at r'
            exact ⟨_, _, P.lenRun hnt 0 _ _ r', by omega, rfl⟩
  obtain ⟨L, k, hrun, hk, htrim⟩ := key
  rw [length_of_lenRun bs L k hrun hk, htrim, hbs]
  rfl

#print axioms C14_schema_len_tokens_whole

end SchemaScan
