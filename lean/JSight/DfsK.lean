import JSight.ValidateK
/-!
The depth-first expansion of type references (`buildList`) collects every alternative reachable through
reference chains — `JSight/Dfs.lean` transcribed for the schema type of `ValidateK` (objects with key shortcuts and
additionalProperties); the expansion code is the same.
-/
namespace VK
variable {L : Type}

def isRef : S L → Bool | .ref _ _ => true | _ => false

/-- `a` is an alternative reachable from the type name `n` along a chain of names none of which is in `V` -/
inductive RNV (env : Env L) (V : List String) : String → S L → Prop
  | leaf (n : String) (t : S L) : n ∉ V → lookupT env n = some t → isRef t = false → RNV env V n t
  | null (n : String) (names : List String) (l : L) :
      n ∉ V → lookupT env n = some (.ref names (some l)) → RNV env V n (.lit l)
  | step (n : String) (names : List String) (nul : Option L) (m : String) (a : S L) :
      n ∉ V → lookupT env n = some (.ref names nul) → m ∈ names → RNV env V m a → RNV env V n a

theorem RNV.start {env : Env L} {V : List String} {n : String} {a : S L} (h : RNV env V n a) : n ∉ V := by
  cases h <;> assumption

/-- the `foldl` of `buildList` over the names of one reference -/
def expand (env : Env L) (fuel : Nat) (names : List String) (st : List String × List (S L)) :
    List String × List (S L) :=
  names.foldl (fun st n =>
    if st.1.contains n then st
    else match lookupT env n with
      | some t => build env fuel t (n :: st.1, st.2)
      | none => (n :: st.1, st.2)) st

theorem build_ref (env : Env L) (fuel : Nat) (names : List String) (nul : Option L) (st : List String × List (S L)) :
    build env (fuel + 1) (.ref names nul) st =
      match nul with
      | some l => ((expand env fuel names st).1, (expand env fuel names st).2 ++ [.lit l])
      | none => expand env fuel names st := by
  cases nul <;> rfl

theorem build_nonref (env : Env L) (fuel : Nat) (s : S L) (h : isRef s = false) (st : List String × List (S L)) :
    build env (fuel + 1) s st = (st.1, st.2 ++ [s]) := by
  cases s <;> first | rfl | simp [isRef] at h

theorem expand_nil (env : Env L) (fuel : Nat) (st : List String × List (S L)) : expand env fuel [] st = st := rfl

theorem expand_cons (env : Env L) (fuel : Nat) (n : String) (ns : List String) (st : List String × List (S L)) :
    expand env fuel (n :: ns) st =
      expand env fuel ns (if st.1.contains n then st
        else match lookupT env n with
          | some t => build env fuel t (n :: st.1, st.2)
          | none => (n :: st.1, st.2)) := rfl

/-- what one stretch of the search guarantees: nothing is forgotten, and every name marked during the stretch has
been explored completely relative to the visited set at its start ("white path") -/
structure Good (env : Env L) (V : List String) (acc : List (S L)) (V' : List String) (acc' : List (S L)) : Prop where
  monoV : ∀ x ∈ V, x ∈ V'
  monoA : ∀ a ∈ acc, a ∈ acc'
  white : ∀ m, m ∈ V' → m ∉ V → ∀ a, RNV env V m a → a ∈ acc'

theorem good_refl (env : Env L) (V : List String) (acc : List (S L)) : Good env V acc V acc :=
  ⟨fun _ h => h, fun _ h => h, fun _ h1 h2 => absurd h1 h2⟩

/-- a path that avoids `V` either also avoids `V1`, or runs into a name of `V1 \\ V`, from which it continues -/
theorem split_path (env : Env L) (V V1 : List String) (m : String) (a : S L) (h : RNV env V m a) :
    RNV env V1 m a ∨ ∃ p, p ∈ V1 ∧ p ∉ V ∧ RNV env V p a := by
  induction h with
  | leaf n t hn hl hr =>
    by_cases h1 : n ∈ V1
    · exact Or.inr ⟨n, h1, hn, .leaf n t hn hl hr⟩
    · exact Or.inl (.leaf n t h1 hl hr)
  | null n names l hn hl =>
    by_cases h1 : n ∈ V1
    · exact Or.inr ⟨n, h1, hn, .null n names l hn hl⟩
    · exact Or.inl (.null n names l h1 hl)
  | step n names nul m a hn hl hm hrest ih =>
    by_cases h1 : n ∈ V1
    · exact Or.inr ⟨n, h1, hn, .step n names nul m a hn hl hm hrest⟩
    · rcases ih with h2 | ⟨p, hp1, hp2, hp3⟩
      · exact Or.inl (.step n names nul m a h1 hl hm h2)
      · exact Or.inr ⟨p, hp1, hp2, hp3⟩

theorem good_trans (env : Env L) {V V1 V' : List String} {acc acc1 acc' : List (S L)}
    (g1 : Good env V acc V1 acc1) (g2 : Good env V1 acc1 V' acc') : Good env V acc V' acc' := by
  refine ⟨fun x h => g2.monoV x (g1.monoV x h), fun a h => g2.monoA a (g1.monoA a h), ?_⟩
  intro m hm hmV a hp
  by_cases hm1 : m ∈ V1
  · exact g2.monoA a (g1.white m hm1 hmV a hp)
  · rcases split_path env V V1 m a hp with h | ⟨p, hp1, hp2, hp3⟩
    · exact g2.white m hm hm1 a h
    · exact g2.monoA a (g1.white p hp1 hp2 a hp3)

/-! ### fuel: every expansion marks a name that is a key of the environment -/

def U (env : Env L) (V : List String) : Nat := env.countP (fun p => !V.contains p.1)

theorem U_mono (env : Env L) (V V' : List String) (h : ∀ x ∈ V, x ∈ V') : U env V' ≤ U env V := by
  unfold U
  apply List.countP_mono_left
  intro p _ hp
  have h1 : p.1 ∉ V' := by simpa using hp
  have h2 : p.1 ∉ V := fun hx => h1 (h _ hx)
  simpa using h2

theorem U_lt (env : Env L) (V : List String) (n : String) (t : S L) (hl : lookupT env n = some t) (hn : n ∉ V) :
    U env (n :: V) < U env V := by
  unfold U lookupT at *
  induction env with
  | nil => simp at hl
  | cons p ps ih =>
    rw [List.countP_cons, List.countP_cons]
    by_cases hp : (p.1 == n) = true
    · have e : p.1 = n := by simpa using hp
      have h1 : (!(n :: V).contains p.1) = false := by simp [e]
      have h2 : (!V.contains p.1) = true := by simpa [e] using hn
      have hm := U_mono ps V (n :: V) (fun x hx => by simp [hx])
      unfold U at hm
      rw [h1, h2]; simp only [Bool.false_eq_true, if_false, if_true]; omega
    · have hl' : (ps.find? (fun p => p.1 == n)).map (·.2) = some t := by
        simpa [List.find?_cons, hp] using hl
      have hlt := ih hl'
      have hne : p.1 ≠ n := by simpa using hp
      have hsame : (!(n :: V).contains p.1) = (!V.contains p.1) := by
        simp [hne]
      rw [hsame]; omega

/-! ### one name -/

/-- what `build` on the root of one type guarantees -/
structure BuildOK (env : Env L) (t : S L) (V0 : List String) (acc0 : List (S L)) (V' : List String)
    (acc' : List (S L)) : Prop where
  good : Good env V0 acc0 V' acc'
  leaf : isRef t = false → t ∈ acc'
  null : ∀ names l, t = .ref names (some l) → S.lit l ∈ acc'
  names : ∀ names nul, t = .ref names nul → ∀ m ∈ names, m ∈ V'

/-- a path avoiding `V` either avoids `n` too or continues from `n`'s own type -/
theorem through_n (env : Env L) (V : List String) (n : String) (t : S L) (hl : lookupT env n = some t)
    (m : String) (a : S L) (h : RNV env V m a) :
    RNV env (n :: V) m a ∨ (isRef t = false ∧ a = t) ∨ (∃ names l, t = .ref names (some l) ∧ a = .lit l) ∨
      (∃ names nul m', t = .ref names nul ∧ m' ∈ names ∧ RNV env (n :: V) m' a) := by
  induction h with
  | leaf x tx hx hlx hr =>
    by_cases e : x = n
    · subst e; rw [hl] at hlx; cases hlx; exact Or.inr (Or.inl ⟨hr, rfl⟩)
    · exact Or.inl (.leaf x tx (by simp [e, hx]) hlx hr)
  | null x names l hx hlx =>
    by_cases e : x = n
    · subst e; rw [hl] at hlx; cases hlx; exact Or.inr (Or.inr (Or.inl ⟨names, l, rfl, rfl⟩))
    · exact Or.inl (.null x names l (by simp [e, hx]) hlx)
  | step x names nul m2 a hx hlx hm hrest ih =>
    rcases ih with h2 | h2
    · by_cases e : x = n
      · subst e; rw [hl] at hlx; cases hlx
        exact Or.inr (Or.inr (Or.inr ⟨names, nul, m2, rfl, hm, h2⟩))
      · exact Or.inl (.step x names nul m2 a (by simp [e, hx]) hlx hm h2)
    · exact Or.inr h2

theorem good_name (env : Env L) (V : List String) (acc : List (S L)) (n : String) (t : S L)
    (hl : lookupT env n = some t) (V' : List String) (acc' : List (S L))
    (ok : BuildOK env t (n :: V) acc V' acc') : Good env V acc V' acc' := by
  refine ⟨fun x h => ok.good.monoV x (by simp [h]), ok.good.monoA, ?_⟩
  intro m hm hmV a hp
  rcases through_n env V n t hl m a hp with h | ⟨hr, rfl⟩ | ⟨names, l, rfl, rfl⟩ | ⟨names, nul, m', rfl, hm', h⟩
  · exact ok.good.white m hm h.start a h
  · exact ok.leaf hr
  · exact ok.null names l rfl
  · exact ok.good.white m' (ok.names names nul rfl m' hm') h.start a h

/-! ### the search -/

theorem good_more (env : Env L) {V V' : List String} {acc acc' : List (S L)} (g : Good env V acc V' acc')
    (extra : List (S L)) : Good env V acc V' (acc' ++ extra) :=
  ⟨g.monoV, fun a h => List.mem_append_left _ (g.monoA a h), fun m h1 h2 a hp => List.mem_append_left _ (g.white m h1 h2 a hp)⟩

theorem build_ok (env : Env L) : ∀ (fuel : Nat) (t : S L) (V0 : List String) (acc0 : List (S L)),
    U env V0 < fuel → BuildOK env t V0 acc0 (build env fuel t (V0, acc0)).1 (build env fuel t (V0, acc0)).2 := by
  intro fuel
  induction fuel with
  | zero => intro _ _ _ h; omega
  | succ fuel ih =>
    intro t V0 acc0 hU
    by_cases hr : isRef t = false
    · rw [build_nonref env fuel t hr]
      refine ⟨⟨fun _ h => h, fun a h => List.mem_append_left _ h, fun m h1 h2 => absurd h1 h2⟩, fun _ => by simp, ?_, ?_⟩
      · intro names l e; subst e; simp [isRef] at hr
      · intro names nul e; subst e; simp [isRef] at hr
    · obtain ⟨names, nul, rfl⟩ : ∃ names nul, t = .ref names nul := by
        cases t <;> simp [isRef] at hr; exact ⟨_, _, rfl⟩
      -- the fold over the names
      have hexp : ∀ (ns : List String) (st : List String × List (S L)), U env st.1 ≤ fuel →
          Good env st.1 st.2 (expand env fuel ns st).1 (expand env fuel ns st).2 ∧
            ∀ m ∈ ns, m ∈ (expand env fuel ns st).1 := by
        intro ns
        induction ns with
        | nil => intro st _; exact ⟨good_refl env _ _, fun m h => by simp at h⟩
        | cons n ns ihn =>
          intro st hst
          rw [expand_cons]
          by_cases hc : st.1.contains n = true
          · simp only [hc, if_true]
            obtain ⟨g, hm⟩ := ihn st hst
            refine ⟨g, fun m h => ?_⟩
            rcases List.mem_cons.1 h with rfl | h
            · exact g.monoV _ (by simpa using hc)
            · exact hm m h
          · have hn : n ∉ st.1 := by simpa using hc
            simp only [hc, Bool.false_eq_true, if_false]
            cases hl : lookupT env n with
            | none =>
              simp only []
              have g1 : Good env st.1 st.2 (n :: st.1) st.2 := by
                refine ⟨fun x h => by simp [h], fun _ h => h, ?_⟩
                intro m h1 h2 a hp
                have : m = n := by simpa [h2] using h1
                subst this
                cases hp <;> simp_all
              obtain ⟨g2, hm⟩ := ihn (n :: st.1, st.2)
                (Nat.le_trans (U_mono env st.1 (n :: st.1) (fun x h => by simp [h])) hst)
              refine ⟨good_trans env g1 g2, fun m h => ?_⟩
              rcases List.mem_cons.1 h with rfl | h
              · exact g2.monoV _ (by simp)
              · exact hm m h
            | some t =>
              simp only []
              have hlt := U_lt env st.1 n t hl hn
              have ok := ih t (n :: st.1) st.2 (by omega)
              have g1 := good_name env st.1 st.2 n t hl _ _ ok
              obtain ⟨g2, hm⟩ := ihn (build env fuel t (n :: st.1, st.2))
                (Nat.le_trans (U_mono env st.1 _ g1.monoV) hst)
              refine ⟨good_trans env g1 g2, fun m h => ?_⟩
              rcases List.mem_cons.1 h with rfl | h
              · exact g2.monoV _ (ok.good.monoV _ (by simp))
              · exact hm m h
      obtain ⟨g, hm⟩ := hexp names (V0, acc0) (by simp only []; omega)
      rw [build_ref]
      cases nul with
      | none =>
        exact ⟨g, fun h => (by simp [isRef] at h), fun _ _ e => (by cases e), fun _ _ e => (by cases e; exact hm)⟩
      | some l =>
        refine ⟨good_more env g _, fun h => (by simp [isRef] at h), ?_, fun _ _ e => (by cases e; exact hm)⟩
        intro ns l' e; cases e; simp

/-- **completeness of `NodeValidatorList`**: every alternative reachable from one of the names of a reference through
any chain of references is among the validators built for the position -/
theorem alts_complete (env : Env L) (names : List String) (nul : Option L) (n : String) (hn : n ∈ names)
    (a : S L) (h : RNV env [] n a) : a ∈ alts env (.ref names nul) := by
  have ok := build_ok env (env.length + 1) (.ref names nul) [] [] (by simp [U])
  exact ok.good.white n (ok.names names nul rfl n hn) (by simp) a h

theorem alts_null (env : Env L) (names : List String) (l : L) : S.lit l ∈ alts env (.ref names (some l)) :=
  (build_ok env (env.length + 1) (.ref names (some l)) [] [] (by simp [U])).null names l rfl

/-- the alternatives of a schema, declaratively -/
def ReachS (env : Env L) (t : S L) (a : S L) : Prop :=
  (isRef t = false ∧ a = t) ∨
  ∃ names nul, t = .ref names nul ∧ ((∃ l, nul = some l ∧ a = .lit l) ∨ ∃ n ∈ names, RNV env [] n a)

theorem reachS_of_name (env : Env L) (n : String) (t : S L) (hl : lookupT env n = some t) (a : S L)
    (h : ReachS env t a) : RNV env [] n a := by
  rcases h with ⟨hr, rfl⟩ | ⟨names, nul, rfl, ⟨l, rfl, rfl⟩ | ⟨m, hm, hp⟩⟩
  · exact .leaf n _ (by simp) hl hr
  · exact .null n names l (by simp) hl
  · exact .step n names nul m a (by simp) hl hm hp

theorem build_sound (env : Env L) : ∀ (fuel : Nat) (t : S L) (st : List String × List (S L)) (a : S L),
    a ∈ (build env fuel t st).2 → a ∈ st.2 ∨ ReachS env t a := by
  intro fuel
  induction fuel with
  | zero => intro t st a h; exact Or.inl h
  | succ fuel ih =>
    intro t st a h
    by_cases hr : isRef t = false
    · rw [build_nonref env fuel t hr] at h
      rcases List.mem_append.1 h with h | h
      · exact Or.inl h
      · exact Or.inr (Or.inl ⟨hr, by simpa using h⟩)
    · obtain ⟨names, nul, rfl⟩ : ∃ names nul, t = .ref names nul := by
        cases t <;> simp [isRef] at hr; exact ⟨_, _, rfl⟩
      have hexp : ∀ (ns : List String) (st : List String × List (S L)), a ∈ (expand env fuel ns st).2 →
          a ∈ st.2 ∨ ∃ n ∈ ns, RNV env [] n a := by
        intro ns
        induction ns with
        | nil => intro st h; exact Or.inl h
        | cons n ns ihn =>
          intro st h
          rw [expand_cons] at h
          rcases ihn _ h with h1 | ⟨m, hm, hp⟩
          · by_cases hc : st.1.contains n = true
            · simp only [hc, if_true] at h1; exact Or.inl h1
            · simp only [hc, Bool.false_eq_true, if_false] at h1
              cases hl : lookupT env n with
              | none => rw [hl] at h1; exact Or.inl h1
              | some t =>
                rw [hl] at h1
                rcases ih t _ a h1 with h2 | h2
                · exact Or.inl h2
                · exact Or.inr ⟨n, by simp, reachS_of_name env n t hl a h2⟩
          · exact Or.inr ⟨m, by simp [hm], hp⟩
      rw [build_ref] at h
      cases nul with
      | none =>
        rcases hexp names st h with h1 | ⟨n, hn, hp⟩
        · exact Or.inl h1
        · exact Or.inr (Or.inr ⟨names, none, rfl, Or.inr ⟨n, hn, hp⟩⟩)
      | some l =>
        rcases List.mem_append.1 h with h | h
        · rcases hexp names st h with h1 | ⟨n, hn, hp⟩
          · exact Or.inl h1
          · exact Or.inr (Or.inr ⟨names, some l, rfl, Or.inr ⟨n, hn, hp⟩⟩)
        · exact Or.inr (Or.inr ⟨names, some l, rfl, Or.inl ⟨l, rfl, by simpa using h⟩⟩)

/-- **C03 / C09**: the validators built for a position are exactly the alternatives reachable through reference
chains (every name, any depth, cycles included), plus `null` for a nullable reference -/
theorem alts_iff_reach (env : Env L) (s : S L) (a : S L) : a ∈ alts env s ↔ ReachS env s a := by
  constructor
  · intro h
    rcases build_sound env _ s ([], []) a h with h | h
    · simp at h
    · exact h
  · rintro (⟨hr, rfl⟩ | ⟨names, nul, rfl, ⟨l, rfl, rfl⟩ | ⟨n, hn, hp⟩⟩)
    · unfold alts; rw [build_nonref env _ _ hr]; simp
    · exact alts_null env names l
    · exact alts_complete env names nul n hn a hp

#print axioms alts_iff_reach

end VK
