import JSight.SchemaFails
/-!
C17 for the SCHEMA scanner model: an "invalid character"-class error (301 / 302 / 304) is determined by the bytes up to the
offending one plus the look-ahead window — nothing behind it can repair the text.

`Fails.transfer`: a failing run with a non-EOF error at offset `i` is replayed, step by step, on every input that has
the same bytes (and the same end) within the first `i + 3` offsets: every transition before the error reads at an
offset `≤ i` (the index never decreases across a transition: frame property `dispatchQ`) and looks at most two bytes
ahead.
-/
namespace SchemaScan

/-- the two inputs coincide (content and end of input) on the offsets below `n` -/
def Agree (n : Nat) (data data' : Array Cls) : Prop := ∀ k, k < n → data[k]? = data'[k]?

theorem Agree.lt_size {n data data'} (h : Agree n data data') {k} (hk : k < n) (hs : k < data.size) :
    k < data'.size := by
  have := h k hk
  rw [Array.getElem?_eq_getElem hs] at this
  exact (Array.getElem?_eq_some_iff.mp this.symm).1

theorem Agree.bang {n data data'} (h : Agree n data data') {k} (hk : k < n) : data[k]! = data'[k]! := by
  have := h k hk
  simp only [getElem!_def, this]

/-! ### queued lexemes are applied independently of the input -/

theorem processFound_indep (data data' : Array Cls) {s : Sc} {t : LexT} {s' : Sc} {ev : Ev}
    (h : processFound data s t = .ok (s', ev)) : ∃ ev', processFound data' s t = .ok (s', ev') := by
  unfold processFound at h ⊢
  by_cases h1 : (t == LexT.newLine || t == LexT.endTop) = true
  · simp only [h1, ↓reduceIte] at h ⊢
    cases h; exact ⟨_, rfl⟩
  · simp only [h1, ↓reduceIte] at h ⊢
    by_cases h2 : t.isOpening = true
    · simp only [h2, ↓reduceIte] at h ⊢
      cases h; exact ⟨_, rfl⟩
    · simp only [h2, ↓reduceIte] at h ⊢
      cases hst : s.stack with
      | nil => rw [hst] at h; cases h
      | cons a l =>
        obtain ⟨p, b⟩ := a
        rw [hst] at h
        by_cases h3 : isNonScalarPair p t = true
        · simp only [h3, ↓reduceIte] at h ⊢
          cases h; exact ⟨_, rfl⟩
        · simp only [h3, ↓reduceIte] at h ⊢
          by_cases h4 : isScalarPair p t = true
          · simp only [h4, ↓reduceIte] at h ⊢
            cases h; exact ⟨_, rfl⟩
          · simp only [h4, ↓reduceIte] at h
            cases h

theorem processFound_err {data : Array Cls} {s : Sc} {t : LexT} {e : Err}
    (h : processFound data s t = .error e) : e.isCrash = true := by
  unfold processFound at h
  simp only [] at h
  split at h
  · cases h
  · split at h
    · cases h
    · split at h
      · cases h; rfl
      · split at h
        · cases h
        · split at h
          · cases h
          · cases h; rfl

theorem shiftFound_none {data : Array Cls} {s : Sc} (h : shiftFound data s = .ok none) : s.finds = [] := by
  unfold shiftFound at h
  cases hf : s.finds with
  | nil => rfl
  | cons t rest =>
    rw [hf] at h
    simp only [bind, Except.bind, pure, Except.pure] at h
    cases hp : processFound data { s with finds := rest } t with
    | error e => rw [hp] at h; cases h
    | ok r => rw [hp] at h; cases h

theorem shiftFound_err {data : Array Cls} {s : Sc} {e : Err} (h : shiftFound data s = .error e) :
    e.isCrash = true := by
  unfold shiftFound at h
  cases hf : s.finds with
  | nil => rw [hf] at h; cases h
  | cons t rest =>
    rw [hf] at h
    simp only [bind, Except.bind, pure, Except.pure] at h
    cases hp : processFound data { s with finds := rest } t with
    | error e' => rw [hp] at h; cases h; exact processFound_err hp
    | ok r => rw [hp] at h; cases h

theorem shiftFound_indep (data data' : Array Cls) {s s' : Sc} {ev : Ev}
    (h : shiftFound data s = .ok (some (s', ev))) : ∃ ev', shiftFound data' s = .ok (some (s', ev')) := by
  unfold shiftFound at h ⊢
  cases hf : s.finds with
  | nil => rw [hf] at h; cases h
  | cons t rest =>
    rw [hf] at h
    simp only [bind, Except.bind, pure, Except.pure] at h ⊢
    cases hp : processFound data { s with finds := rest } t with
    | error e' => rw [hp] at h; cases h
    | ok r =>
      rw [hp] at h
      obtain ⟨s1, ev1⟩ := r
      cases h
      obtain ⟨ev', hp'⟩ := processFound_indep data data' hp
      exact ⟨ev', by rw [hp']⟩

theorem shiftFound_index {data : Array Cls} {s s' : Sc} {ev : Ev}
    (h : shiftFound data s = .ok (some (s', ev))) : s'.index = s.index := by
  unfold shiftFound at h
  cases hf : s.finds with
  | nil => rw [hf] at h; cases h
  | cons t rest =>
    rw [hf] at h
    simp only [bind, Except.bind, pure, Except.pure] at h
    cases hp : processFound data { s with finds := rest } t with
    | error e' => rw [hp] at h; cases h
    | ok r =>
      rw [hp] at h
      obtain ⟨s1, ev1⟩ := r
      cases h
      exact (processFound_finds hp).2

/-! ### the end-of-input rule -/

theorem map_err {α β} (f : α → β) (x : M α) (e : Err) (h : (f <$> x) = .error e) : x = .error e := by
  cases x with
  | error e' => cases h; rfl
  | ok a => cases h

theorem map_ok {α β} (f : α → β) (x : M α) (b : β) (h : (f <$> x) = .ok b) : ∃ a, x = .ok a ∧ f a = b := by
  cases x with
  | error e' => cases h
  | ok a => cases h; exact ⟨a, rfl, rfl⟩

theorem eofStep_err {data : Array Cls} {s : Sc} {e : Err} (h : eofStep data s = .error e) :
    e = .unexpectedEOF (data.size - 1) ∨ e.isCrash = true := by
  unfold eofStep at h
  split at h
  · dsimp only at h
    split at h
    · split at h
      · cases h; exact Or.inl rfl
      · exact Or.inr (processFound_err (map_err _ _ _ h))
    · exact Or.inr (processFound_err (map_err _ _ _ h))
    · exact Or.inr (processFound_err (map_err _ _ _ h))
    · split at h
      · cases h; exact Or.inl rfl
      · exact Or.inr (processFound_err (map_err _ _ _ h))
    · cases h; exact Or.inl rfl
  · cases h

theorem eofStep_index {data : Array Cls} {s s' : Sc} {ev : Ev} (h : eofStep data s = .ok (some (s', ev))) :
    s'.index = s.index + 1 := by
  unfold eofStep at h
  split at h
  · dsimp only at h
    split at h
    · split at h
      · cases h
      · obtain ⟨a, ha, hb⟩ := map_ok _ _ _ h
        cases hb
        exact (processFound_finds ha).2
    · obtain ⟨a, ha, hb⟩ := map_ok _ _ _ h
      cases hb
      exact (processFound_finds ha).2
    · obtain ⟨a, ha, hb⟩ := map_ok _ _ _ h
      cases hb
      exact (processFound_finds ha).2
    · split at h
      · cases h
      · obtain ⟨a, ha, hb⟩ := map_ok _ _ _ h
        cases hb
        exact (processFound_finds ha).2
    · cases h
  · cases h

/-- the error of a transition: a structured one carries the offset just read and is not the end-of-file error -/
theorem readStep_err {data : Array Cls} {s : Sc} {e : Err} (h : readStep data s = .error e) (hc : e.isCrash = false) :
    e.idx = s.index ∧ e.isEOF = false := by
  have := (dispatch_E 8 _ _ _ _ _ _ _ h rfl).idx hc
  exact this

/-- past the end of input only the end-of-file error (or a crash) can come -/
theorem Fails.past_end {data : Array Cls} {s : Sc} {e : Err} (h : Fails data s e) :
    data.size ≤ s.index → e = .unexpectedEOF (data.size - 1) ∨ e.isCrash = true := by
  induction h with
  | shiftErr h1 => intro _; exact Or.inr (shiftFound_err h1)
  | shift h1 _ ih => intro hi; exact ih (by rw [shiftFound_index h1]; exact hi)
  | readErr _ hi _ => intro h; omega
  | read _ hi _ _ _ => intro h; omega
  | eofErr _ _ he => intro _; exact eofStep_err he
  | eof _ _ he _ ih => intro hi; exact ih (by rw [eofStep_index he]; omega)

theorem Err.eof_not_crash {e : Err} (h : e.isEOF = true) (hc : e.isCrash = true) : False := by
  cases e <;> simp_all [Err.isEOF, Err.isCrash]

/-- the end-of-file error always carries the offset of the last byte -/
theorem Fails.eof_idx {data : Array Cls} {s : Sc} {e : Err} (h : Fails data s e) (he : e.isEOF = true) :
    e = .unexpectedEOF (data.size - 1) := by
  induction h with
  | shiftErr h1 => exact (Err.eof_not_crash he (shiftFound_err h1)).elim
  | shift _ _ ih => exact ih he
  | @readErr s e _ _ hr =>
    by_cases hc : e.isCrash = true
    · exact (Err.eof_not_crash he hc).elim
    · have := (readStep_err hr (by simpa using hc)).2
      rw [this] at he; cases he
  | read _ _ _ _ ih => exact ih he
  | eofErr _ _ h2 =>
    rcases eofStep_err h2 with h | h
    · exact h
    · exact (Err.eof_not_crash he h).elim
  | eof _ _ _ _ ih => exact ih he

/-- the same transition on an input that agrees on the byte and its two look-ahead offsets -/
theorem readStep_agree {data data' : Array Cls} {s : Sc} {n : Nat} (h : Agree n data data') (hn : s.index + 2 < n) :
    readStep data' s = readStep data s := by
  unfold readStep
  rw [h.bang (k := s.index) (by omega), h (s.index + 1) (by omega), h (s.index + 1 + 1) (by omega)]

/-- **replay**: a run failing with a structured, non-EOF error at offset `i` fails in the same way on every input
that agrees with the given one on the offsets `≤ i + 2` -/
theorem Fails.transfer {data : Array Cls} {s : Sc} {e : Err} (h : Fails data s e) :
    Inv s → s.index ≤ data.size → e.isCrash = false → e.isEOF = false →
    s.index ≤ e.idx ∧ e.idx < data.size ∧ ∀ data', Agree (e.idx + 3) data data' → Fails data' s e := by
  induction h with
  | shiftErr h1 =>
    intro _ _ hc _
    rw [shiftFound_err h1] at hc; cases hc
  | @shift s s' ev e h1 _ ih =>
    intro hI hi hc he
    have hidx := shiftFound_index h1
    have hI' : Inv s' := by
      cases hf : s.finds with
      | nil => rw [shiftFound_nil data hf] at h1; cases h1
      | cons t rest =>
        obtain ⟨stk, e0, hp, hI2⟩ := shiftFound_cons data hI hf
        rw [hp] at h1
        cases h1
        exact hI2
    obtain ⟨a, b, c⟩ := ih hI' (by rw [hidx]; exact hi) hc he
    refine ⟨by rw [← hidx]; exact a, b, ?_⟩
    intro data' hA
    obtain ⟨ev', h1'⟩ := shiftFound_indep data data' h1
    exact Fails.shift h1' (c data' hA)
  | @readErr s e h1 hi hr =>
    intro _ _ hc _
    obtain ⟨hidx, _⟩ := readStep_err hr hc
    refine ⟨by omega, by omega, ?_⟩
    intro data' hA
    have hf := shiftFound_none h1
    refine Fails.readErr (shiftFound_nil data' hf) (hA.lt_size (by omega) hi) ?_
    rw [readStep_agree hA (by omega)]
    exact hr
  | @read s s1 e h1 hi hr _ ih =>
    intro hI _ hc he
    have hf := shiftFound_none h1
    have hI2 : Inv { s with index := s.index + 1 } := hI
    have hd : OKRes Inv (readStep data s) := dispatch_ok (f := 4) hI2 hf
    rw [hr] at hd
    have hI1 : Inv s1 := hd
    have hq : Q { s with index := s.index + 1 } data[s.index + 1 + 1]? s1 :=
      dispatchQ _ _ _ _ _ hI2 hf (Nat.le_add_left 1 s.index) hr
    have hp2 : (data[s.index + 1 + 1]?).isSome = true → s.index + 2 < data.size := by
      intro h
      rcases Option.isSome_iff_exists.mp h with ⟨a, ha⟩
      exact (Array.getElem?_eq_some_iff.mp ha).1
    have hrange : s.index ≤ s1.index ∧ s1.index ≤ data.size := by
      rcases hq with ⟨h1 | ⟨h1, h2⟩, _⟩ | ⟨h1, _⟩
      · have h1' : s1.index = s.index + 1 := h1
        omega
      · have h1' : s1.index = s.index + 1 + 2 := h1
        have := hp2 h2
        omega
      · have h1' : s1.index + 1 = s.index + 1 := h1
        omega
    obtain ⟨a, b, c⟩ := ih hI1 hrange.2 hc he
    refine ⟨by omega, b, ?_⟩
    intro data' hA
    refine Fails.read (shiftFound_nil data' hf) (hA.lt_size (by omega) hi) ?_ (c data' hA)
    rw [readStep_agree hA (by omega)]
    exact hr
  | eofErr _ _ h2 =>
    intro _ _ hc he
    rcases eofStep_err h2 with h | h
    · rw [h] at he; cases he
    · rw [h] at hc; cases hc
  | @eof s s' ev e _ hi h2 hf' _ =>
    intro _ _ hc he
    rcases hf'.past_end (by rw [eofStep_index h2]; omega) with h | h
    · rw [h] at he; cases he
    · rw [h] at hc; cases hc

/-! ### on byte strings -/

theorem agree_of_lists {bs bs' : List UInt8} {n : Nat} (h : ∀ k, k < n → bs'[k]? = bs[k]?) :
    Agree n (bs.map classify).toArray (bs'.map classify).toArray := by
  intro k hk
  simp only [List.getElem?_toArray, List.getElem?_map, h k hk]

/-- **C17, schema scanner: the error is determined by the offending byte's prefix and the look-ahead window.**
If the scanner model rejects `bs` with a structured error other than "unexpected end of file" at offset `i`, then
`i` is an offset of the text, and every byte string with the same bytes (and the same end of input) at the offsets
`0 … i + 2` is rejected with exactly the same error. -/
theorem scanAll_error_prefix (bs : List UInt8) (e : Err) (h : scanAll bs = .error e) (he : e.isEOF = false) :
    e.idx < bs.length ∧
    ∀ bs' : List UInt8, (∀ k, k < e.idx + 3 → bs'[k]? = bs[k]?) → scanAll bs' = .error e := by
  have hc := scanAll_no_crash bs e h
  obtain ⟨_, b, c⟩ := (scanAll_fails h).transfer (Inv_init false) (Nat.zero_le _) hc he
  refine ⟨by simpa using b, ?_⟩
  intro bs' hA
  exact fails_scanAll (c _ (agree_of_lists hA)) hc

/-- every error position lies inside the text (offset 0 for the empty text cannot occur: it is accepted) -/
theorem scanAll_error_idx_lt (bs : List UInt8) (e : Err) (h : scanAll bs = .error e) :
    e.idx < max 1 bs.length := by
  by_cases he : e.isEOF = true
  · have := (scanAll_fails h).eof_idx he
    rw [this]
    simp only [Err.idx, List.size_toArray, List.length_map]
    omega
  · have := (scanAll_error_prefix bs e h (by simpa using he)).1
    omega

/-- the end-of-file error is reported at the last byte -/
theorem scanAll_eof_idx (bs : List UInt8) (e : Err) (h : scanAll bs = .error e) (he : e.isEOF = true) :
    e = .unexpectedEOF (bs.length - 1) := by
  have := (scanAll_fails h).eof_idx he
  simpa using this

end SchemaScan

namespace SchemaScan

/-- "nothing behind the look-ahead window can repair the text": the text cut behind the window, continued by anything,
is rejected with the same error -/
theorem scanAll_error_window (bs : List UInt8) (e : Err) (h : scanAll bs = .error e) (he : e.isEOF = false)
    (hw : e.idx + 3 ≤ bs.length) (ext : List UInt8) : scanAll (bs.take (e.idx + 3) ++ ext) = .error e := by
  refine (scanAll_error_prefix bs e h he).2 _ ?_
  intro k hk
  rw [List.getElem?_append_left (by rw [List.length_take]; omega), List.getElem?_take_of_lt hk]

/-- a rejected prefix of an accepted text: "unexpected end of file" at the last byte, or an invalid-character error
whose look-ahead window reaches the end of the prefix (one of the last two bytes) -/
theorem scanAll_prefix_of_accepted (t : List UInt8) (evs : List Ev) (ht : scanAll t = .ok evs) (n : Nat) (e : Err)
    (h : scanAll (t.take n) = .error e) :
    (e = .unexpectedEOF ((t.take n).length - 1)) ∨ (e.isEOF = false ∧ (t.take n).length < e.idx + 3 ∧ e.idx < (t.take n).length) := by
  by_cases he : e.isEOF = true
  · exact Or.inl (scanAll_eof_idx _ e h he)
  · have he' : e.isEOF = false := by simpa using he
    obtain ⟨hlt, hall⟩ := scanAll_error_prefix _ e h he'
    refine Or.inr ⟨he', ?_, hlt⟩
    apply Nat.lt_of_not_le
    intro hle
    have : scanAll t = .error e := by
      apply hall
      intro k hk
      have hkn : k < n := by
        have := List.length_take_le n t
        omega
      rw [List.getElem?_take_of_lt hkn]
    rw [ht] at this
    cases this

end SchemaScan
