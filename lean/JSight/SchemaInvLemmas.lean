import JSight.SchemaInv
namespace SchemaScan

theorem OKRes_err {α} (P : α → Prop) {e : Err} (h : e.isCrash = false) : OKRes P (Except.error e) := h
theorem OKRes_ok {α} (P : α → Prop) {a : α} (h : P a) : OKRes P (Except.ok a) := h

theorem applyFinds_append (F : List LexT) (t : LexT) (S : List LexT) :
    applyFinds (F ++ [t]) S = (applyFinds F S).bind (applyFind t) := by
  induction F generalizing S with
  | nil => simp [applyFinds]
  | cons a F ih =>
    simp only [List.cons_append, applyFinds]
    cases applyFind a S with
    | none => rfl
    | some S' => simpa using ih S'

theorem ctxsOf_ne_nil (S : List LexT) : ∃ a L, ctxsOf S = a :: L := by
  induction S with
  | nil => exact ⟨_, _, rfl⟩
  | cons x S ih =>
    obtain ⟨a, L, h⟩ := ih
    cases x <;> first | exact ⟨_, _, rfl⟩ | exact ⟨a, L, h⟩ | skip
    cases S <;> first | exact ⟨_, _, rfl⟩ | exact ⟨a, L, h⟩

/-- queueing a lexeme whose effect on the effective stack is known and leaves the contexts alone -/
theorem Eff_found {s : Sc} {eff eff' : List LexT} {t : LexT} (h : Eff s eff)
    (ha : applyFind t eff = some eff') (hc : ctxsOf eff' = ctxsOf eff) : Eff (found s t) eff' := by
  refine ⟨?_, ?_⟩
  · show applyFinds (s.finds ++ [t]) (s.stack.map (·.1)) = some eff'
    rw [applyFinds_append, h.1]; exact ha
  · show s.ctx.ty :: s.ctxStack.map (·.ty) = ctxsOf eff'
    rw [hc]; exact h.2

theorem Eff_found_setContext {s : Sc} {eff eff' : List LexT} {t : LexT} {ty : CtxT} (h : Eff s eff)
    (ha : applyFind t eff = some eff') (hc : ctxsOf eff' = ty :: ctxsOf eff) :
    Eff (setContext (found s t) { ty := ty }) eff' := by
  refine ⟨?_, ?_⟩
  · show applyFinds (s.finds ++ [t]) (s.stack.map (·.1)) = some eff'
    rw [applyFinds_append, h.1]; exact ha
  · show ty :: s.ctx.ty :: s.ctxStack.map (·.ty) = ctxsOf eff'
    rw [hc, h.2]

theorem restoreContext_ok {s : Sc} {a : CtxT} {V : List LexT}
    (h : s.ctx.ty :: s.ctxStack.map (·.ty) = a :: ctxsOf V) :
    ∃ c rest, restoreContext s = .ok { s with ctx := c, ctxStack := rest } ∧
      c.ty :: rest.map (·.ty) = ctxsOf V := by
  obtain ⟨b, L, hL⟩ := ctxsOf_ne_nil V
  rw [hL] at h
  unfold restoreContext
  cases hcs : s.ctxStack with
  | nil => simp [hcs] at h
  | cons c rest =>
    refine ⟨c, rest, rfl, ?_⟩
    rw [hcs] at h
    simp only [List.map_cons, List.cons.injEq] at h
    rw [hL]; simp [h.2.1, h.2.2]

end SchemaScan

namespace SchemaScan

/-! ### inversion of `Good` per state class -/

def St.numLit : St → Bool
  | .neg | .d1 | .d0 | .dot | .dot0 | .t | .tr | .tru | .f | .fa | .fal | .fals | .n | .nu | .nul => true
  | _ => false
def St.strState : St → Bool | .inString | .esc => true | _ => false
def St.annKeyState : St → Bool | .annKeyFirst | .annKey | .annKeyAfter => true | _ => false
def St.tsOnly : St → Bool | .tsBeginName | .tsName | .tsBeforePipe | .tsAfterPipe => true | _ => false

macro "good_inv" st:ident h:ident hst:ident cls:ident : tactic =>
  `(tactic| (cases $st:ident <;> simp [$cls:ident] at $hst:ident <;>
    (cases $h:ident <;> simp_all [St.objState, St.arrState, St.ksState, St.keyState, St.litState, St.tsState,
      St.uState, St.isComment, St.pendState, St.inlState, St.mlState] <;>
      try (refine ⟨_, _, ⟨rfl, rfl⟩, ?_, ?_⟩ <;> assumption))))

theorem Good.obj_inv {st eff ret} (hst : st.objState = true) (h : Good st eff ret) :
    ∃ V, eff = .objB :: V ∧ CH V ret := by
  good_inv st h hst St.objState

theorem Good.arr_inv {st eff ret} (hst : st.arrState = true) (h : Good st eff ret) :
    ∃ V, eff = .arrB :: V ∧ CH V ret := by
  good_inv st h hst St.arrState

theorem Good.ks_inv {eff ret} (h : Good .keyShortcut eff ret) :
    ∃ V, eff = .ksB :: .objB :: V ∧ CH V ret := by
  cases h <;> simp_all [St.objState, St.arrState, St.ksState, St.keyState, St.litState, St.tsState,
      St.uState, St.isComment, St.pendState, St.inlState, St.mlState] <;>
      try (refine ⟨_, _, ⟨rfl, rfl⟩, ?_, ?_⟩ <;> assumption)

theorem Good.numLit_inv {st eff ret} (hst : st.numLit = true) (h : Good st eff ret) :
    ∃ V, eff = .litB :: V ∧ VH V ret := by
  good_inv st h hst St.numLit

theorem Good.str_inv {st eff ret} (hst : st.strState = true) (h : Good st eff ret) :
    (∃ V, eff = .litB :: V ∧ VH V ret) ∨ (∃ V, eff = .keyB :: .objB :: V ∧ CH V ret) := by
  good_inv st h hst St.strState

theorem Good.annKey_inv {st eff ret} (hst : st.annKeyState = true) (h : Good st eff ret) :
    ∃ V, eff = .keyB :: .objB :: V ∧ CH V ret := by
  good_inv st h hst St.annKeyState

theorem Good.ts_inv {st eff ret} (hst : st.tsOnly = true) (h : Good st eff ret) :
    ∃ V, eff = .tsB :: .mixB :: V ∧ VH V ret := by
  good_inv st h hst St.tsOnly

theorem Good.u_inv {st eff ret} (hst : st.uState = true) (h : Good st eff ret) :
    ∃ ret', ret = .inString :: ret' ∧ Good .inString eff ret' := by
  good_inv st h hst St.uState

theorem Good.comment_inv {st eff ret} (hst : st.isComment = true) (h : Good st eff ret) :
    ∃ r ret', ret = r :: ret' ∧ r.cflag = 0 ∧ Good r eff ret' := by
  good_inv st h hst St.isComment

theorem Good.pend_inv {st eff ret} (hst : st.pendState = true) (h : Good st eff ret) :
    ∃ r ret', ret = r :: ret' ∧ r.annRet = true ∧ Good r eff ret' := by
  good_inv st h hst St.pendState

theorem Good.inl_inv {st eff ret} (hst : st.inlState = true) (h : Good st eff ret) :
    ∃ r σ ret', eff = .inlAnnB :: σ ∧ ret = r :: ret' ∧ r.annRet = true ∧ Good r σ ret' := by
  good_inv st h hst St.inlState

theorem Good.ml_inv {st eff ret} (hst : st.mlState = true) (h : Good st eff ret) :
    ∃ r σ ret', eff = .mlAnnB :: σ ∧ ret = r :: ret' ∧ r.annRet = true ∧ Good r σ ret' := by
  good_inv st h hst St.mlState

theorem Good.inlTxt_inv {eff ret} (h : Good .inlTxt eff ret) :
    ∃ r σ ret', eff = .inlTxtB :: .inlAnnB :: σ ∧ ret = r :: ret' ∧ r.annRet = true ∧ Good r σ ret' := by
  cases h <;> simp_all [St.objState, St.arrState, St.ksState, St.keyState, St.litState, St.tsState,
      St.uState, St.isComment, St.pendState, St.inlState, St.mlState] <;>
      try (refine ⟨_, _, ⟨rfl, rfl⟩, ?_, ?_⟩ <;> assumption)

theorem Good.mlTxt_inv {eff ret} (h : Good .mlTxt eff ret) :
    ∃ r σ ret', eff = .mlTxtB :: .mlAnnB :: σ ∧ ret = r :: ret' ∧ r.annRet = true ∧ Good r σ ret' := by
  cases h <;> simp_all [St.objState, St.arrState, St.ksState, St.keyState, St.litState, St.tsState,
      St.uState, St.isComment, St.pendState, St.inlState, St.mlState] <;>
      try (refine ⟨_, _, ⟨rfl, rfl⟩, ?_, ?_⟩ <;> assumption)

theorem Good.guard_inv {x eff ret} (h : Good (.guard x) eff ret) : x.isGuard = false ∧ Good x eff ret := by
  cases h <;> simp_all [St.objState, St.arrState, St.ksState, St.keyState, St.litState, St.tsState,
      St.uState, St.isComment, St.pendState, St.inlState, St.mlState] <;>
      try (refine ⟨_, _, ⟨rfl, rfl⟩, ?_, ?_⟩ <;> assumption)

theorem Good.foundRoot_inv {eff ret} (h : Good .foundRoot eff ret) : eff = [] ∧ ret = [] := by
  cases h <;> simp_all [St.objState, St.arrState, St.ksState, St.keyState, St.litState, St.tsState,
      St.uState, St.isComment, St.pendState, St.inlState, St.mlState] <;>
      try (refine ⟨_, _, ⟨rfl, rfl⟩, ?_, ?_⟩ <;> assumption)

theorem Good.endTop_inv {eff ret} (h : Good .endTop eff ret) : eff = [] ∧ ret = [] := by
  cases h <;> simp_all [St.objState, St.arrState, St.ksState, St.keyState, St.litState, St.tsState,
      St.uState, St.isComment, St.pendState, St.inlState, St.mlState] <;>
      try (refine ⟨_, _, ⟨rfl, rfl⟩, ?_, ?_⟩ <;> assumption)

end SchemaScan
