import JSight.ShortcutStep
/-!
C06 / C09 / C16: schema texts that are JSON trees whose LEAVES are scalars or TYPE SHORTCUTS (`@name`, `@a | @b …`),
any nesting, any layout of spaces, tabs and line breaks: the exact event list of the scanner model in ORDINARY mode
(and, as a `Path`, for either value of `lengthComputing`).

A shortcut leaf is written `@first (blanks | blanks @name)* sps`: `sps` are the spaces / tabs that follow the last name
— the scanner keeps them inside the `types-shortcut-end` lexeme (and inside the item / value end), and strips ONE
space (not a tab) from the `mixed-value-end` lexeme.  What follows a shortcut leaf is therefore a line break, `,`, `]`,
`}` or the end of input (`Follow`): every text has exactly one such reading (`Len.ws_split`).
-/
namespace SchemaScan
open Len

/-- a JSON value with its layout whose leaves are scalars or type shortcuts -/
inductive STree
  | scalar (tok : List Cls)
  | short (sc : Shortcut) (sps : List Cls)
  | arr (ws0 : List Cls) (items : List (List Cls × STree × List Cls))
  | obj (ws0 : List Cls) (members : List (List Cls × List Cls × List Cls × List Cls × STree × List Cls))

abbrev SItem := List Cls × STree × List Cls
abbrev SMember := List Cls × List Cls × List Cls × List Cls × STree × List Cls

mutual
def STree.render : STree → List Cls
  | .scalar tok => tok
  | .short sc sps => sc.render ++ sps
  | .arr ws0 items => .lbrack :: (ws0 ++ sRenderItems items)
  | .obj ws0 members => .lbrace :: (ws0 ++ sRenderMembers members)
def sRenderItems : List SItem → List Cls
  | [] => [.rbrack]
  | (w1, v, w2) :: its => w1 ++ (v.render ++ (w2 ++ ((if its.isEmpty then [] else [.comma]) ++ sRenderItems its)))
def sRenderMembers : List SMember → List Cls
  | [] => [.rbrace]
  | (w1, k, w2, w3, v, w4) :: ms =>
    w1 ++ (k ++ (w2 ++ (.colon :: (w3 ++ (v.render ++ (w4 ++ ((if ms.isEmpty then [] else [.comma]) ++ sRenderMembers ms)))))))
end

/-- the end of the `mixed-value-end` lexeme of a shortcut whose last byte (blanks included) is at `e`: one SPACE before
the delimiter is not counted -/
def mixEndOf (e : Nat) (r : List Cls) : Nat := if r.getLast? == some Cls.sp then e - 1 else e

mutual
/-- the events of a value that starts at offset `o` -/
def sEvsAt : Nat → STree → List Ev
  | o, .scalar tok => [⟨.litB, o, o⟩, ⟨.litE, o, o + tok.length - 1⟩]
  | o, .short sc sps =>
    [⟨.mixB, o, o⟩, ⟨.tsB, o, o⟩, ⟨.tsE, o, o + (sc.render ++ sps).length - 1⟩,
     ⟨.mixE, o, mixEndOf (o + (sc.render ++ sps).length - 1) (sc.render ++ sps)⟩]
  | o, .arr ws0 items => ⟨.arrB, o, o⟩ :: (nlEvs (o + 1) ws0 ++ sEvsItems o (o + 1 + ws0.length) items)
  | o, .obj ws0 members => ⟨.objB, o, o⟩ :: (nlEvs (o + 1) ws0 ++ sEvsMembers o (o + 1 + ws0.length) members)
def sEvsItems (a : Nat) : Nat → List SItem → List Ev
  | o, [] => [⟨.arrE, a, o⟩]
  | o, (w1, v, w2) :: its =>
    nlEvs o w1 ++ (⟨.itemB, o + w1.length, o + w1.length⟩ ::
      (sEvsAt (o + w1.length) v ++ (⟨.itemE, o + w1.length, o + w1.length + v.render.length - 1⟩ ::
        (nlEvs (o + w1.length + v.render.length) w2 ++
          sEvsItems a (o + w1.length + v.render.length + w2.length + (if its.isEmpty then 0 else 1)) its))))
def sEvsMembers (a : Nat) : Nat → List SMember → List Ev
  | o, [] => [⟨.objE, a, o⟩]
  | o, (w1, k, w2, w3, v, w4) :: ms =>
    nlEvs o w1 ++ (⟨.keyB, o + w1.length, o + w1.length⟩ :: ⟨.keyE, o + w1.length, o + w1.length + k.length - 1⟩ ::
      (nlEvs (o + w1.length + k.length) w2 ++ (nlEvs (o + w1.length + k.length + w2.length + 1) w3 ++
      (⟨.valB, o + w1.length + k.length + w2.length + 1 + w3.length, o + w1.length + k.length + w2.length + 1 + w3.length⟩ ::
      (sEvsAt (o + w1.length + k.length + w2.length + 1 + w3.length) v ++
        (⟨.valE, o + w1.length + k.length + w2.length + 1 + w3.length,
          o + w1.length + k.length + w2.length + 1 + w3.length + v.render.length - 1⟩ ::
        (nlEvs (o + w1.length + k.length + w2.length + 1 + w3.length + v.render.length) w4 ++
        sEvsMembers a (o + w1.length + k.length + w2.length + 1 + w3.length + v.render.length + w4.length
          + (if ms.isEmpty then 0 else 1)) ms)))))))
end

def STree.isShort : STree → Bool | .short _ _ => true | _ => false

/-- layout that may follow a shortcut leaf: empty, or starting with a line break (spaces / tabs directly behind the
shortcut belong to the leaf) -/
def NlFirst (w : List Cls) : Prop := w = [] ∨ ∃ r, w = Cls.nl :: r
def Follow (v : STree) (w : List Cls) : Prop := v.isShort = true → NlFirst w

mutual
def STree.Valid : STree → Prop
  | .scalar tok => IsScalar tok
  | .short sc sps => sc.Valid ∧ IsSpTabs sps
  | .arr ws0 items => IsWs ws0 ∧ SValidItems items
  | .obj ws0 members => IsWs ws0 ∧ SValidMembers members
def SValidItems : List SItem → Prop
  | [] => True
  | (w1, v, w2) :: its => IsWs w1 ∧ v.Valid ∧ IsWs w2 ∧ Follow v w2 ∧ SValidItems its
def SValidMembers : List SMember → Prop
  | [] => True
  | (w1, k, w2, w3, v, w4) :: ms =>
    IsWs w1 ∧ IsKey k ∧ IsWs w2 ∧ IsWs w3 ∧ v.Valid ∧ IsWs w4 ∧ Follow v w4 ∧ SValidMembers ms
end

/-- the events delivered when the first byte of the value is read -/
def sOpen (o : Nat) : STree → List Ev
  | .scalar _ => [⟨.litB, o, o⟩]
  | .short _ _ => [⟨.mixB, o, o⟩, ⟨.tsB, o, o⟩]
  | v => sEvsAt o v
/-- the events of the value itself that are delivered when the byte BEHIND it is read -/
def sOwn (o : Nat) : STree → List Ev
  | .scalar tok => [⟨.litE, o, o + tok.length - 1⟩]
  | .short sc sps => [⟨.tsE, o, o + (sc.render ++ sps).length - 1⟩,
      ⟨.mixE, o, mixEndOf (o + (sc.render ++ sps).length - 1) (sc.render ++ sps)⟩]
  | _ => []
/-- what is on the lexeme stack behind the value -/
def sPend (o : Nat) : STree → List (LexT × Nat)
  | .scalar _ => [(.litB, o)]
  | .short _ _ => K2 o
  | _ => []
/-- the scanner state behind the value -/
def EndOK : STree → St → Prop
  | .short _ sps, st => st = tsSt sps.isEmpty
  | _, st => PV st = true

theorem sEvsAt_split (o : Nat) (v : STree) : sEvsAt o v = sOpen o v ++ sOwn o v := by
  cases v <;> simp [sEvsAt, sOpen, sOwn]

namespace Len

variable {lc : Bool} {data : Array Cls}

theorem at_last : ∀ (r : List Cls) (o : Nat), At data o r → r ≠ [] → data[o + r.length - 1]? = r.getLast? := by
  intro r o hat hne
  obtain ⟨pre, d, rfl⟩ := exists_snoc r hne
  rw [At_append] at hat
  have := hat.2.1
  simp only [List.length_append, List.length_cons, List.length_nil, List.getLast?_append, List.getLast?_singleton,
    Option.some_or]
  rw [show o + (pre.length + (0 + 1)) - 1 = o + pre.length by omega]
  exact this

theorem mixEnd_at (r : List Cls) (o : Nat) (hat : At data o r) (hne : r ≠ []) :
    mixEnd data (o + r.length) = mixEndOf (o + r.length - 1) r := by
  unfold mixEnd mixEndOf
  rw [at_last r o hat hne]
  have : 1 ≤ r.length := by cases r with | nil => exact absurd rfl hne | cons _ _ => simp
  split <;> omega

theorem short_ne (sc : Shortcut) (sps : List Cls) : sc.render ++ sps ≠ [] := by simp [Shortcut.render]

theorem cx'_ty (ctx : VCtx) (cx : Ctx) : (ctx.cx' cx).ty = cx.ty := by cases ctx <;> rfl

/-- the closing events of the value itself and of the item / member value it is -/
def closersV (v : STree) (ck : CK) (o b2 : Nat) : List Ev := sOwn o v ++ [⟨ck.E, b2, o + v.render.length - 1⟩]

theorem scalar_len {tok : List Cls} (h : IsScalar tok) : 1 ≤ tok.length := by
  obtain ⟨c, tl, _, _, _, rfl, _⟩ := h; simp

theorem tsClosers_eq (sc : Shortcut) (sps : List Cls) (ck : CK) (o b2 : Nat)
    (hat : At data o (STree.short sc sps).render) :
    tsClosers data ck o b2 (o + (STree.short sc sps).render.length) = closersV (.short sc sps) ck o b2 := by
  simp only [STree.render] at hat ⊢
  simp only [tsClosers, closersV, sOwn, STree.render, mixEnd_at _ o hat (short_ne sc sps), List.cons_append,
    List.nil_append]

/-! ### the byte behind a value closes it -/

theorem SV_close_sep (v : STree) {st : St} (he : EndOK v st) (ck : CK) (hck : ck ≠ .key) (o b2 : Nat)
    (R : List (LexT × Nat)) (CS : List Ctx) (cx : Ctx) (hcx : cx.ty = ckTy ck) (al : Bool)
    (hatv : At data o v.render) (hl : 1 ≤ v.render.length)
    (hc : data[o + v.render.length]? = some ck.sep) :
    Path data (cfgL lc st [] (sPend o v ++ (ck.B, b2) :: R) false (o + v.render.length) CS cx al)
      (closersV v ck o b2) (cfgL lc ck.nxt [] R false (o + v.render.length + 1) CS cx al) := by
  cases v with
  | short sc sps =>
    simp only [EndOK] at he
    subst he
    rw [← tsClosers_eq sc sps ck o b2 hatv]
    exact S_tsc_sep sps.isEmpty ck hck o b2 R _ CS cx hcx al hc
  | scalar tok =>
    have := S_close_sep (lc := lc) he true ck o b2 R _ CS cx al hc
    exact this.cast (by simp [closersOf, closersV, sOwn, STree.render]) rfl
  | arr ws0 its =>
    have := S_close_sep (lc := lc) he false ck 0 b2 R _ CS cx al hc
    exact this.cast (by simp [closersOf, closersV, sOwn]) rfl
  | obj ws0 ms =>
    have := S_close_sep (lc := lc) he false ck 0 b2 R _ CS cx al hc
    exact this.cast (by simp [closersOf, closersV, sOwn]) rfl

theorem SV_close_rbrack (v : STree) {st : St} (he : EndOK v st) (o b2 a : Nat)
    (K : List (LexT × Nat)) (c0 : Ctx) (CS : List Ctx) (cx : Ctx) (hcx : cx.ty = .array) (al : Bool)
    (hatv : At data o v.render) (hc : data[o + v.render.length]? = some .rbrack) :
    Path data (cfgL lc st [] (sPend o v ++ (.itemB, b2) :: (.arrB, a) :: K) false (o + v.render.length) (c0 :: CS) cx al)
      (closersV v .item o b2 ++ [⟨.arrE, a, o + v.render.length⟩])
      (cfgL lc .endValue [] K false (o + v.render.length + 1) CS c0 (!cx.arrayHasItem)) := by
  cases v with
  | short sc sps =>
    simp only [EndOK] at he
    subst he
    rw [← tsClosers_eq sc sps .item o b2 hatv]
    exact S_tsc_rbrack sps.isEmpty o b2 a K _ c0 CS cx hcx al hc
  | scalar tok =>
    have := S_close_rbrack (lc := lc) he true o b2 a K _ c0 CS cx al hc
    exact this.cast (by simp [closersOf, closersV, sOwn, STree.render]) rfl
  | arr ws0 its =>
    have := S_close_rbrack (lc := lc) he false 0 b2 a K _ c0 CS cx al hc
    exact this.cast (by simp [closersOf, closersV, sOwn]) rfl
  | obj ws0 ms =>
    have := S_close_rbrack (lc := lc) he false 0 b2 a K _ c0 CS cx al hc
    exact this.cast (by simp [closersOf, closersV, sOwn]) rfl

theorem SV_close_rbrace (v : STree) {st : St} (he : EndOK v st) (o b2 a : Nat)
    (K : List (LexT × Nat)) (c0 : Ctx) (CS : List Ctx) (cx : Ctx) (hcx : cx.ty = .object) (al : Bool)
    (hatv : At data o v.render) (hc : data[o + v.render.length]? = some .rbrace) :
    Path data (cfgL lc st [] (sPend o v ++ (.valB, b2) :: (.objB, a) :: K) false (o + v.render.length) (c0 :: CS) cx al)
      (closersV v .val o b2 ++ [⟨.objE, a, o + v.render.length⟩])
      (cfgL lc .endValue [] K false (o + v.render.length + 1) CS c0 al) := by
  cases v with
  | short sc sps =>
    simp only [EndOK] at he
    subst he
    rw [← tsClosers_eq sc sps .val o b2 hatv]
    exact S_tsc_rbrace sps.isEmpty o b2 a K _ c0 CS cx hcx al hc
  | scalar tok =>
    have := S_close_rbrace (lc := lc) he true o b2 a K _ c0 CS cx al hc
    exact this.cast (by simp [closersOf, closersV, sOwn, STree.render]) rfl
  | arr ws0 its =>
    have := S_close_rbrace (lc := lc) he false 0 b2 a K _ c0 CS cx al hc
    exact this.cast (by simp [closersOf, closersV, sOwn]) rfl
  | obj ws0 ms =>
    have := S_close_rbrace (lc := lc) he false 0 b2 a K _ c0 CS cx al hc
    exact this.cast (by simp [closersOf, closersV, sOwn]) rfl

/-- non-empty layout behind a value: its first byte closes the value -/
theorem closeV_ws (v : STree) {st : St} (he : EndOK v st) (ck : CK) (hck : ck ≠ .key) (o b2 : Nat)
    (R : List (LexT × Nat)) (c : Cls) (w : List Cls) (hw : IsWs (c :: w)) (hf : Follow v (c :: w))
    (CS : List Ctx) (cx : Ctx) (hcx : cx.ty = ckTy ck) (al : Bool)
    (hatv : At data o v.render) (hat : At data (o + v.render.length) (c :: w)) :
    ∃ al', Path data (cfgL lc st [] (sPend o v ++ (ck.B, b2) :: R) false (o + v.render.length) CS cx al)
      (closersV v ck o b2 ++ nlEvs (o + v.render.length) (c :: w))
      (cfgL lc ck.aft [] R false (o + v.render.length + (w.length + 1)) CS cx al') := by
  cases v with
  | short sc sps =>
    simp only [EndOK] at he
    subst he
    have hnl : c = .nl := by
      rcases hf rfl with h | ⟨r, h⟩
      · cases h
      · cases h; rfl
    subst hnl
    obtain ⟨hc, hat'⟩ := hat
    have haft : wsLoop ck.aft = true := by cases ck <;> rfl
    obtain ⟨al', h2⟩ := ws_run (lc := lc) w hw.tail ck.aft haft R _ CS cx al hat'
    rw [wsSt_eq (aft_ne_objKey ck)] at h2
    have h1 := S_tsc_nl (lc := lc) sps.isEmpty ck hck o b2 R _ CS cx hcx al hc
    rw [tsClosers_eq sc sps ck o b2 hatv] at h1
    refine ⟨al', (Path.trans h1 h2).cast ?_ (cfg_congr rfl (by omega))⟩
    simp [nlEvs]
  | scalar tok =>
    obtain ⟨al', h⟩ := close_ws (lc := lc) he true ck o b2 R c w hw _ CS cx al hat
    exact ⟨al', h.cast (by simp [closersOf, closersV, sOwn, STree.render]) rfl⟩
  | arr ws0 its =>
    obtain ⟨al', h⟩ := close_ws (lc := lc) he false ck 0 b2 R c w hw _ CS cx al hat
    exact ⟨al', h.cast (by simp [closersOf, closersV, sOwn]) rfl⟩
  | obj ws0 ms =>
    obtain ⟨al', h⟩ := close_ws (lc := lc) he false ck 0 b2 R c w hw _ CS cx al hat
    exact ⟨al', h.cast (by simp [closersOf, closersV, sOwn]) rfl⟩

/-- layout, then the separator -/
theorem closeV_sep (v : STree) {st : St} (he : EndOK v st) (ck : CK) (hck : ck ≠ .key) (o b2 : Nat)
    (R : List (LexT × Nat)) (w : List Cls) (hw : IsWs w) (hf : Follow v w)
    (CS : List Ctx) (cx : Ctx) (hcx : cx.ty = ckTy ck) (al : Bool) (hl : 1 ≤ v.render.length)
    (hatv : At data o v.render) (hat : At data (o + v.render.length) (w ++ [ck.sep])) :
    ∃ al', Path data (cfgL lc st [] (sPend o v ++ (ck.B, b2) :: R) false (o + v.render.length) CS cx al)
      (closersV v ck o b2 ++ nlEvs (o + v.render.length) w)
      (cfgL lc ck.nxt [] R false (o + v.render.length + w.length + 1) CS cx al') := by
  cases w with
  | nil =>
    refine ⟨al, ?_⟩
    simp only [nlEvs, List.append_nil, List.length_nil, Nat.add_zero]
    exact SV_close_sep v he ck hck o b2 R CS cx hcx al hatv hl hat.1
  | cons c w =>
    rw [At_append] at hat
    obtain ⟨al', h1⟩ := closeV_ws (lc := lc) v he ck hck o b2 R c w hw hf CS cx hcx al hatv hat.1
    have h2 := S_aft_sep (lc := lc) ck R _ CS cx al' hat.2.1
    refine ⟨al', ?_⟩
    have := Path.trans h1 h2
    rw [List.append_nil] at this
    exact this

theorem closeV_rbrack (v : STree) {st : St} (he : EndOK v st) (o b2 a : Nat)
    (K : List (LexT × Nat)) (w : List Cls) (hw : IsWs w) (hf : Follow v w)
    (c0 : Ctx) (CS : List Ctx) (cx : Ctx) (hcx : cx.ty = .array) (al : Bool)
    (hatv : At data o v.render) (hat : At data (o + v.render.length) (w ++ [.rbrack])) :
    ∃ al', Path data (cfgL lc st [] (sPend o v ++ (.itemB, b2) :: (.arrB, a) :: K) false (o + v.render.length) (c0 :: CS) cx al)
      (closersV v .item o b2 ++ (nlEvs (o + v.render.length) w ++ [⟨.arrE, a, o + v.render.length + w.length⟩]))
      (cfgL lc .endValue [] K false (o + v.render.length + w.length + 1) CS c0 al') := by
  cases w with
  | nil =>
    refine ⟨!cx.arrayHasItem, ?_⟩
    simp only [nlEvs, List.nil_append, List.length_nil, Nat.add_zero]
    exact SV_close_rbrack v he o b2 a K c0 CS cx hcx al hatv hat.1
  | cons c w =>
    rw [At_append] at hat
    obtain ⟨al', h1⟩ := closeV_ws (lc := lc) v he .item (by simp) o b2 ((.arrB, a) :: K) c w hw hf (c0 :: CS) cx hcx al
      hatv hat.1
    have h2 := S_aft_rbrack (lc := lc) a K _ c0 CS cx al' hat.2.1
    refine ⟨!cx.arrayHasItem, ?_⟩
    have := Path.trans h1 h2
    rw [List.append_assoc] at this
    exact this

theorem closeV_rbrace (v : STree) {st : St} (he : EndOK v st) (o b2 a : Nat)
    (K : List (LexT × Nat)) (w : List Cls) (hw : IsWs w) (hf : Follow v w)
    (c0 : Ctx) (CS : List Ctx) (cx : Ctx) (hcx : cx.ty = .object) (al : Bool)
    (hatv : At data o v.render) (hat : At data (o + v.render.length) (w ++ [.rbrace])) :
    ∃ al', Path data (cfgL lc st [] (sPend o v ++ (.valB, b2) :: (.objB, a) :: K) false (o + v.render.length) (c0 :: CS) cx al)
      (closersV v .val o b2 ++ (nlEvs (o + v.render.length) w ++ [⟨.objE, a, o + v.render.length + w.length⟩]))
      (cfgL lc .endValue [] K false (o + v.render.length + w.length + 1) CS c0 al') := by
  cases w with
  | nil =>
    refine ⟨al, ?_⟩
    simp only [nlEvs, List.nil_append, List.length_nil, Nat.add_zero]
    exact SV_close_rbrace v he o b2 a K c0 CS cx hcx al hatv hat.1
  | cons c w =>
    rw [At_append] at hat
    obtain ⟨al', h1⟩ := closeV_ws (lc := lc) v he .val (by simp) o b2 ((.objB, a) :: K) c w hw hf (c0 :: CS) cx hcx al
      hatv hat.1
    have h2 := S_aft_rbrace (lc := lc) a K _ c0 CS cx al' hat.2.1
    refine ⟨al', ?_⟩
    have := Path.trans h1 h2
    rw [List.append_assoc] at this
    exact this

end Len
end SchemaScan
