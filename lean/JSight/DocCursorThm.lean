import JSight.DocCursor
/-!
Proofs about the `Document` state machine of `JSight/DocCursor.lean`: the state and the outputs after ANY history in
closed form (`run_stateOf`), from which history-freedom of `Check` / `Len`, the cursor law and the survival of the option
bit follow.  Nothing here unfolds the scanner except `next_allow` (the scanner never writes its option bit).
-/
set_option linter.unusedSimpArgs false
namespace DocCursor
open JsonScan

theorem new_eq (t : List UInt8) (o : Bool) : Doc.new t o = stateOf t o false false 0 := rfl

theorem checkText_eq (t : List UInt8) (o : Bool) :
    checkText t o = checkLoop (clsOf t) (fuelOf t) { allow := o } false := rfl

theorem lenText_eq (t : List UInt8) (o : Bool) :
    lenText t o = (match lenLoop (clsOf t) (fuelOf t) { allow := o } 0 with
      | .ok n => .ok (trimBlank t.toArray n)
      | r => r) := rfl

theorem step_next (t : List UInt8) (o c l : Bool) (k : Nat) :
    (stateOf t o c l k).step .next = (.next (lexAt t o k), stateOf t o c l (k + 1)) := rfl

theorem step_check_first (t : List UInt8) (o l : Bool) (k : Nat) :
    (stateOf t o false l k).step .check = (.check (checkText t o), stateOf t o true l 0) := rfl

theorem step_check_later (t : List UInt8) (o l : Bool) (k : Nat) :
    (stateOf t o true l k).step .check = (.check (checkText t o).cached, stateOf t o true l k) := rfl

theorem step_len_first (t : List UInt8) (o c : Bool) (k : Nat) :
    (stateOf t o c false k).step .len = (.len (lenText t o), stateOf t o c true 0) := rfl

theorem step_len_later (t : List UInt8) (o c : Bool) (k : Nat) :
    (stateOf t o c true k).step .len = (.len (lenText t o).cached, stateOf t o c true k) := rfl

theorem hasCheck_next (ops : List Op) : hasCheck (.next :: ops) = hasCheck ops := by
  unfold hasCheck; rw [List.contains_cons]
  have h : (Op.check == Op.next) = false := by decide
  rw [h]; simp
theorem hasCheck_check (ops : List Op) : hasCheck (.check :: ops) = true := by
  unfold hasCheck; rw [List.contains_cons]
  have h : (Op.check == Op.check) = true := by decide
  rw [h]; simp
theorem hasCheck_len (ops : List Op) : hasCheck (.len :: ops) = hasCheck ops := by
  unfold hasCheck; rw [List.contains_cons]
  have h : (Op.check == Op.len) = false := by decide
  rw [h]; simp
theorem hasLen_next (ops : List Op) : hasLen (.next :: ops) = hasLen ops := by
  unfold hasLen; rw [List.contains_cons]
  have h : (Op.len == Op.next) = false := by decide
  rw [h]; simp
theorem hasLen_check (ops : List Op) : hasLen (.check :: ops) = hasLen ops := by
  unfold hasLen; rw [List.contains_cons]
  have h : (Op.len == Op.check) = false := by decide
  rw [h]; simp
theorem hasLen_len (ops : List Op) : hasLen (.len :: ops) = true := by
  unfold hasLen; rw [List.contains_cons]
  have h : (Op.len == Op.len) = true := by decide
  rw [h]; simp

/-- state and outputs after a history, from any reachable state -/
theorem run_stateOf (t : List UInt8) (o : Bool) (ops : List Op) : ∀ (c l : Bool) (k : Nat),
    (stateOf t o c l k).run ops =
      (outsFrom t o c l k ops, stateOf t o (c || hasCheck ops) (l || hasLen ops) (cursorFrom c l k ops)) := by
  induction ops with
  | nil => intro c l k; simp [Doc.run, outsFrom, cursorFrom, hasCheck, hasLen]
  | cons op ops ih =>
    intro c l k
    cases op with
    | next =>
      simp [Doc.run, step_next, ih, outsFrom, cursorFrom, hasCheck_next, hasCheck_check, hasCheck_len, hasLen_next, hasLen_check, hasLen_len]
    | check =>
      cases c with
      | false =>
        simp [Doc.run, step_check_first, ih, outsFrom, cursorFrom, hasCheck_next, hasCheck_check, hasCheck_len, hasLen_next, hasLen_check, hasLen_len]
      | true =>
        simp [Doc.run, step_check_later, ih, outsFrom, cursorFrom, hasCheck_next, hasCheck_check, hasCheck_len, hasLen_next, hasLen_check, hasLen_len]
    | len =>
      cases l with
      | false =>
        simp [Doc.run, step_len_first, ih, outsFrom, cursorFrom, hasCheck_next, hasCheck_check, hasCheck_len, hasLen_next, hasLen_check, hasLen_len]
      | true =>
        simp [Doc.run, step_len_later, ih, outsFrom, cursorFrom, hasCheck_next, hasCheck_check, hasCheck_len, hasLen_next, hasLen_check, hasLen_len]

theorem run_new (t : List UInt8) (o : Bool) (ops : List Op) :
    (Doc.new t o).run ops =
      (outsFrom t o false false 0 ops, stateOf t o (hasCheck ops) (hasLen ops) (cursorOf ops)) := by
  rw [new_eq, run_stateOf]; simp [cursorOf]

/-! ### Check / Len after any history -/

theorem check_after (t : List UInt8) (o : Bool) (ops : List Op) :
    (((Doc.new t o).run ops).2.step .check).1 =
      .check (if hasCheck ops then (checkText t o).cached else checkText t o) := by
  rw [run_new]
  cases h : hasCheck ops
  · simp only [step_check_first]; simp
  · simp only [step_check_later]; simp

theorem len_after (t : List UInt8) (o : Bool) (ops : List Op) :
    (((Doc.new t o).run ops).2.step .len).1 =
      .len (if hasLen ops then (lenText t o).cached else lenText t o) := by
  rw [run_new]
  cases h : hasLen ops
  · simp only [step_len_first]; simp
  · simp only [step_len_later]; simp

theorem cached_of_not_crash {r : CheckRes} (h : ∀ w, r ≠ .crash w) : r.cached = r := by
  cases r with
  | crash w => exact absurd rfl (h w)
  | _ => rfl

theorem lcached_of_not_crash {r : LenRes} (h : ∀ w, r ≠ .crash w) : r.cached = r := by
  cases r with
  | crash w => exact absurd rfl (h w)
  | _ => rfl

/-! ### the cursor law -/

/-- one more operation at the end of a history -/
def cursorStep (c l : Bool) (k : Nat) : Op → Nat
  | .next => k + 1
  | .check => if c then k else 0
  | .len => if l then k else 0

theorem cursorFrom_snoc (ops : List Op) (op : Op) : ∀ (c l : Bool) (k : Nat),
    cursorFrom c l k (ops ++ [op]) =
      cursorStep (c || hasCheck ops) (l || hasLen ops) (cursorFrom c l k ops) op := by
  induction ops with
  | nil => intro c l k; cases op <;> simp [cursorFrom, cursorStep, hasCheck, hasLen]
  | cons a ops ih =>
    intro c l k
    cases a <;> simp [cursorFrom, ih, hasCheck_next, hasCheck_check, hasCheck_len, hasLen_next, hasLen_check, hasLen_len]

theorem cursorOf_snoc (ops : List Op) (op : Op) :
    cursorOf (ops ++ [op]) = cursorStep (hasCheck ops) (hasLen ops) (cursorOf ops) op := by
  unfold cursorOf; rw [cursorFrom_snoc]; simp

/-! ### the option bit -/

theorem processFound_allow (s : Scn) (f : LexT) : (processFound s f).2.allow = s.allow := by
  unfold processFound
  simp only
  repeat' (first | rfl | split)

theorem atEnd_allow (n : Nat) (s : Scn) : (atEnd n s).2.allow = s.allow := by
  unfold atEnd
  split
  · rfl
  · simp only
    split
    · rw [processFound_allow]
    · rfl

theorem scanLoop_allow (cls : List Cls) (fuel : Nat) : ∀ s : Scn, (scanLoop cls fuel s).2.allow = s.allow := by
  induction fuel with
  | zero => intro s; simp only [scanLoop]; exact atEnd_allow _ s
  | succ f ih =>
    intro s
    simp only [scanLoop]
    split
    · exact atEnd_allow _ s
    · split
      · rfl
      · split
        · rw [ih]
        · rw [processFound_allow]

theorem next_allow (cls : List Cls) (s : Scn) : (s.next cls).2.allow = s.allow := by
  unfold Scn.next
  split
  · rw [processFound_allow]
  · exact scanLoop_allow _ _ s

theorem nextL_allow (cls : List Cls) (p : Rd) : (nextL cls p).2.1.allow = p.1.allow := by
  unfold nextL
  split
  · rfl
  · simp only
    split <;> exact next_allow cls p.1

theorem scanAt_allow (t : List UInt8) (o : Bool) (k : Nat) : (scanAt t o k).1.allow = o := by
  induction k with
  | zero => rfl
  | succ k ih => simp only [scanAt]; rw [nextL_allow, ih]

/-! ### the sticky error -/

theorem nextL_sticky (cls : List Cls) (p : Rd) (c q : Nat) (h : p.2 = some (c, q)) :
    nextL cls p = (.err c q, p) := by
  unfold nextL; rw [h]

/-- an error answer is stored: the state behind it holds it -/
theorem nextL_err (cls : List Cls) (p : Rd) (c q : Nat) (h : (nextL cls p).1 = .err c q) :
    (nextL cls p).2.2 = some (c, q) := by
  obtain ⟨sc, le⟩ := p
  cases le with
  | some cq =>
    obtain ⟨c', q'⟩ := cq
    simp only [nextL] at h ⊢
    cases h; rfl
  | none =>
    simp only [nextL] at h ⊢
    cases hr : (sc.next cls).1 with
    | err c' q' => rw [hr] at h; simp only at h ⊢; cases h; rfl
    | lex e => rw [hr] at h; simp only at h; cases h
    | eofLex e => rw [hr] at h; simp only at h; cases h
    | eof => rw [hr] at h; simp only at h; cases h
    | crash w => rw [hr] at h; simp only at h; cases h

theorem lexAt_sticky (t : List UInt8) (o : Bool) (k : Nat) (c q : Nat) (h : lexAt t o k = .err c q) :
    ∀ j, lexAt t o (k + j) = .err c q ∧ (scanAt t o (k + j + 1)).2 = some (c, q) := by
  intro j
  induction j with
  | zero => exact ⟨h, nextL_err _ _ c q h⟩
  | succ j ih =>
    have hs : (scanAt t o (k + j + 1)).2 = some (c, q) := ih.2
    have e : nextL (clsOf t) (scanAt t o (k + j + 1)) = (.err c q, scanAt t o (k + j + 1)) := nextL_sticky _ _ c q hs
    constructor
    · show (nextL (clsOf t) (scanAt t o (k + (j + 1)))).1 = _
      rw [show k + (j + 1) = k + j + 1 from rfl, e]
    · show (nextL (clsOf t) (scanAt t o (k + (j + 1)))).2.2 = _
      rw [show k + (j + 1) = k + j + 1 from rfl, e]; exact hs

theorem option_after (t : List UInt8) (o : Bool) (ops : List Op) :
    ((Doc.new t o).run ops).2.opt = o ∧ ((Doc.new t o).run ops).2.sc.allow = o := by
  rw [run_new]
  exact ⟨rfl, scanAt_allow t o _⟩

/-! ### the sticky error along a history -/

theorem cursorFrom_append (a b : List Op) : ∀ (c l : Bool) (k : Nat),
    cursorFrom c l k (a ++ b) = cursorFrom (c || hasCheck a) (l || hasLen a) (cursorFrom c l k a) b := by
  induction a with
  | nil => intro c l k; simp [cursorFrom, hasCheck, hasLen]
  | cons x a ih =>
    intro c l k
    cases x <;> simp [cursorFrom, ih, hasCheck_next, hasCheck_check, hasCheck_len, hasLen_next, hasLen_check, hasLen_len]

/-- no first `Check` and no first `Len` (the two calls that rewind) in `mid`, the cells being done as `c` / `l` say -/
def noRewind : Bool → Bool → List Op → Bool
  | _, _, [] => true
  | c, l, .next :: r => noRewind c l r
  | c, l, .check :: r => c && noRewind c l r
  | c, l, .len :: r => l && noRewind c l r

theorem cursorFrom_noRewind (mid : List Op) : ∀ (c l : Bool) (k : Nat), noRewind c l mid = true →
    ∃ j, cursorFrom c l k mid = k + j := by
  induction mid with
  | nil => intro c l k _; exact ⟨0, rfl⟩
  | cons x mid ih =>
    intro c l k h
    cases x with
    | next =>
      obtain ⟨j, hj⟩ := ih c l (k + 1) h
      exact ⟨j + 1, by simp only [cursorFrom]; omega⟩
    | check =>
      simp only [noRewind, Bool.and_eq_true] at h
      obtain ⟨hc, hr⟩ := h
      subst hc
      obtain ⟨j, hj⟩ := ih true l k hr
      exact ⟨j, by simpa [cursorFrom] using hj⟩
    | len =>
      simp only [noRewind, Bool.and_eq_true] at h
      obtain ⟨hl, hr⟩ := h
      subst hl
      obtain ⟨j, hj⟩ := ih c true k hr
      exact ⟨j, by simpa [cursorFrom] using hj⟩

theorem next_after (t : List UInt8) (o : Bool) (ops : List Op) :
    (((Doc.new t o).run ops).2.step .next).1 = .next (lexAt t o (cursorOf ops)) := by
  rw [run_new]; rfl

theorem error_sticky (t : List UInt8) (o : Bool) (pre mid : List Op) (c q : Nat)
    (h : (((Doc.new t o).run pre).2.step .next).1 = .next (.err c q))
    (hm : noRewind (hasCheck pre) (hasLen pre) mid = true) :
    (((Doc.new t o).run (pre ++ .next :: mid)).2.step .next).1 = .next (.err c q) := by
  rw [next_after] at h ⊢
  have h0 : lexAt t o (cursorOf pre) = .err c q := by injection h
  obtain ⟨j, hj⟩ := cursorFrom_noRewind mid (hasCheck pre) (hasLen pre) (cursorOf pre + 1) hm
  have hc : cursorOf (pre ++ .next :: mid) = cursorOf pre + (1 + j) := by
    unfold cursorOf
    rw [cursorFrom_append]
    simp only [Bool.false_or, cursorFrom]
    unfold cursorOf at hj
    omega
  rw [hc, (lexAt_sticky t o _ c q h0 (1 + j)).1]

end DocCursor
