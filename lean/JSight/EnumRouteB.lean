import JSight.EnumRoute
import JSight.AnnotEnum
import JSight.AnnotLoad
/-!
C18, route B (inline list): the loader with the enum value interpreted (`EnumRoute.stepB`) on the events of a
top-level scalar annotated with `{enum: [ literal, … ]}` (`SchemaScan.enumAnnEvs`): ONE enum constraint is created
and `Enum.Append` receives, in order, exactly the item tokens.
-/
set_option linter.unusedSimpArgs false
set_option linter.unusedVariables false
namespace EnumRoute
open SchemaScan (Ev LexT Ann Cls nlEvs EObj citemsEvs enumAnnEvs tailEvs renderCItems)
open Loader (annSt modeOf Node Mode RS)
open RulesF (Bytes)

/-! ### the interleaved loop is a fold over the delivered events -/

theorem loadLoopB_of_emits (rules : Rules) (src : Bytes) {data : Array Cls} {sc : SchemaScan.Sc} {evs : List Ev}
    (h : SchemaScan.Emits data sc evs) :
    ∀ (fuel : Nat) (st st' : BSt), evs.length < fuel → evs.foldlM (stepB rules src) st = .ok st' →
      loadLoopB rules src data fuel sc st = .ok st' := by
  induction h with
  | nil hn =>
    intro fuel st st' hf hfold
    cases fuel with
    | zero => cases hf
    | succ f =>
      rw [loadLoopB]
      simp only [hn.next]
      simp only [List.foldlM_nil, pure, Except.pure] at hfold
      cases hfold; rfl
  | cons hn _ ih =>
    intro fuel st st' hf hfold
    cases fuel with
    | zero => cases hf
    | succ f =>
      rw [loadLoopB]
      simp only [hn.next]
      simp only [List.foldlM_cons, bind, Except.bind] at hfold
      split at hfold
      · cases hfold
      · rename_i st1 hs
        simp only [hs]
        exact ih f st1 st' (by simpa using hf) hfold

/-! ### folds -/

def FoldB (rules : Rules) (src : Bytes) (evs : List Ev) (s s' : BSt) : Prop := evs.foldlM (stepB rules src) s = .ok s'

theorem FoldB.nil (rules : Rules) (src : Bytes) (s : BSt) : FoldB rules src [] s s := rfl

theorem FoldB.one {rules : Rules} {src : Bytes} {e : Ev} {s s' : BSt} (h : stepB rules src s e = .ok s') :
    FoldB rules src [e] s s' := by
  simp only [FoldB, List.foldlM_cons, List.foldlM_nil, h, bind, Except.bind, pure, Except.pure]

theorem FoldB.trans {rules : Rules} {src : Bytes} {a b : List Ev} {s1 s2 s3 : BSt} (h1 : FoldB rules src a s1 s2)
    (h2 : FoldB rules src b s2 s3) : FoldB rules src (a ++ b) s1 s3 := by
  unfold FoldB at *
  rw [List.foldlM_append, h1]
  exact h2

theorem FoldB.cons {rules : Rules} {src : Bytes} {e : Ev} {b : List Ev} {s1 s2 s3 : BSt}
    (h1 : stepB rules src s1 e = .ok s2) (h2 : FoldB rules src b s2 s3) : FoldB rules src (e :: b) s1 s3 :=
  FoldB.trans (FoldB.one h1) h2

theorem FoldB.cast {rules : Rules} {src : Bytes} {a a' : List Ev} {s1 s2 s2' : BSt} (h : FoldB rules src a s1 s2)
    (ha : a = a') (hs : s2 = s2') : FoldB rules src a' s1 s2' := by subst ha hs; exact h

/-- outside a rule loader `stepB` is `Loader.step` -/
theorem stepB_notRule (rules : Rules) (src : Bytes) (st : BSt) (e : Ev) (h : toRule st.base e = false)
    (b : Loader.St) (hb : Loader.step src.toArray st.base e = .ok b) :
    stepB rules src st e = .ok { st with base := b } := by
  unfold stepB
  simp only [h, Bool.false_eq_true, if_false, hb]
  rfl

/-- a fold of `Loader.step` outside annotations lifts to `stepB` -/
theorem foldB_default (rules : Rules) (src : Bytes) : ∀ (evs : List Ev) (s : BSt) (b' : Loader.St),
    (∀ e ∈ evs, e.ty = .newLine) → s.base.mode = .default → Loader.Fold src.toArray evs s.base b' →
    FoldB rules src evs s { s with base := b' }
  | [], s, b', _, _, hf => by
    simp only [Loader.Fold, List.foldlM_nil, pure, Except.pure, Except.ok.injEq] at hf
    subst hf
    exact FoldB.nil _ _ _
  | e :: evs, s, b', he, hm, hf => by
    simp only [Loader.Fold, List.foldlM_cons, bind, Except.bind] at hf
    have hstep := Loader.step_newLine_default src.toArray s.base e (he e (by simp)) hm
    rw [hstep] at hf
    have h1 : stepB rules src s e = .ok { s with base := { s.base with perLine := 0 } } :=
      stepB_notRule rules src s e (by simp [toRule, hm]) _ hstep
    have h2 := foldB_default rules src evs { s with base := { s.base with perLine := 0 } } b'
      (fun x hx => he x (by simp [hx])) hm hf
    exact FoldB.cons h1 h2

/-! ### single events inside the annotation, outside the enum value -/

/-- the state while the annotation of the (only) node is read: `Loader.annSt`, no sub-loader, constraints `cs` -/
def bst (m : Mode) (rs : RS) (nd : Node) (rn : Nat × Nat) (cs : List Cons) : BSt :=
  { base := annSt m rs nd rn 1, el := none, cons := cs }

/-- the states of `ruleLoader` in which this development meets a new-line event -/
def nl4 : RS → Bool | .begin | .keyOrObjectEnd | .valueBegin | .commentTextBegin => true | _ => false

theorem sb_open (rules : Rules) (src : Bytes) (a : Ann) (ha : a.isAnn = true) (e x y : Nat) :
    FoldB rules src [(⟨.litB, 0, 0⟩ : Ev), ⟨.litE, 0, e⟩, ⟨a.B, x, y⟩] {}
      (bst (modeOf a) .begin { kind := .lit, parent := none, value := some (0, e) } (0, 0) []) := by
  cases a <;> simp [Ann.isAnn] at ha <;> rfl

theorem sb_nl (rules : Rules) (src : Bytes) (m : Mode) (hm : m ≠ .default) (rs : RS) (hrs : nl4 rs = true) (nd : Node)
    (rn : Nat × Nat) (cs : List Cons) (x y : Nat) :
    stepB rules src (bst m rs nd rn cs) ⟨.newLine, x, y⟩ = .ok (bst m rs nd rn cs) := by
  cases m with
  | default => exact absurd rfl hm
  | inline => cases rs <;> simp [nl4] at hrs <;> rfl
  | multi => cases rs <;> simp [nl4] at hrs <;> rfl

theorem sb_nlEvs (rules : Rules) (src : Bytes) (m : Mode) (hm : m ≠ .default) (rs : RS) (hrs : nl4 rs = true) (nd : Node)
    (rn : Nat × Nat) (cs : List Cons) : ∀ (ws : List Cls) (o : Nat),
    FoldB rules src (nlEvs o ws) (bst m rs nd rn cs) (bst m rs nd rn cs)
  | [], _ => FoldB.nil _ _ _
  | c :: ws, o => by
    simp only [nlEvs]
    split
    · exact FoldB.trans (FoldB.one (sb_nl rules src m hm rs hrs nd rn cs o o)) (sb_nlEvs rules src m hm rs hrs nd rn cs ws (o + 1))
    · exact FoldB.trans (FoldB.nil _ _ _) (sb_nlEvs rules src m hm rs hrs nd rn cs ws (o + 1))

theorem sb_objB (rules : Rules) (src : Bytes) (m : Mode) (hm : m ≠ .default) (nd : Node) (rn : Nat × Nat) (cs : List Cons)
    (x y : Nat) :
    stepB rules src (bst m .begin nd rn cs) ⟨.objB, x, y⟩ = .ok (bst m .keyOrObjectEnd nd rn cs) := by
  cases m with
  | default => exact absurd rfl hm
  | inline => rfl
  | multi => rfl

theorem sb_keyB (rules : Rules) (src : Bytes) (m : Mode) (hm : m ≠ .default) (nd : Node) (rn : Nat × Nat) (cs : List Cons)
    (x y : Nat) :
    stepB rules src (bst m .keyOrObjectEnd nd rn cs) ⟨.keyB, x, y⟩ = .ok (bst m .keyOrObjectEnd nd rn cs) := by
  cases m with
  | default => exact absurd rfl hm
  | inline => rfl
  | multi => rfl

theorem sb_keyE (rules : Rules) (src : Bytes) (m : Mode) (hm : m ≠ .default) (nd : Node) (rn : Nat × Nat) (cs : List Cons)
    (x y : Nat) :
    stepB rules src (bst m .keyOrObjectEnd nd rn cs) ⟨.keyE, x, y⟩ = .ok (bst m .valueBegin nd (x, y) cs) := by
  cases m with
  | default => exact absurd rfl hm
  | inline => rfl
  | multi => rfl

theorem sb_valB (rules : Rules) (src : Bytes) (m : Mode) (hm : m ≠ .default) (nd : Node) (rn : Nat × Nat) (cs : List Cons)
    (x y : Nat) :
    stepB rules src (bst m .valueBegin nd rn cs) ⟨.valB, x, y⟩ = .ok (bst m .value nd rn cs) := by
  cases m with
  | default => exact absurd rfl hm
  | inline => rfl
  | multi => rfl

theorem sb_valE (rules : Rules) (src : Bytes) (m : Mode) (hm : m ≠ .default) (nd : Node) (rn : Nat × Nat) (cs : List Cons)
    (x y : Nat) :
    stepB rules src (bst m .valueEnd nd rn cs) ⟨.valE, x, y⟩ = .ok (bst m .keyOrObjectEnd nd rn cs) := by
  cases m with
  | default => exact absurd rfl hm
  | inline => rfl
  | multi => rfl

theorem sb_objE (rules : Rules) (src : Bytes) (m : Mode) (hm : m ≠ .default) (nd : Node) (rn : Nat × Nat) (cs : List Cons)
    (x y : Nat) :
    stepB rules src (bst m .keyOrObjectEnd nd rn cs) ⟨.objE, x, y⟩ = .ok (bst m .commentTextBegin nd rn cs) := by
  cases m with
  | default => exact absurd rfl hm
  | inline => rfl
  | multi => rfl

theorem sb_annE (rules : Rules) (src : Bytes) (a : Ann) (ha : a.isAnn = true) (rs : RS) (nd : Node) (rn : Nat × Nat)
    (cs : List Cons) (x y : Nat) :
    stepB rules src (bst (modeOf a) rs nd rn cs) ⟨a.E, x, y⟩
      = .ok { bst (modeOf a) rs nd rn cs with base := { annSt (modeOf a) rs nd rn 1 with mode := .default } } := by
  cases a <;> simp [Ann.isAnn] at ha <;> rfl

/-! ### inside the enum value -/

/-- the state while the list is read: the sub-loader in state `el` with last index `last`, the constraint `c` -/
def est (m : Mode) (nd : Node) (rn : Nat × Nat) (last : Option Nat) (el : EL) (c : Cons) (cs : List Cons) : BSt :=
  { base := annSt m .value nd rn 1, el := some (last, el), cons := c :: cs }

/-- `[`: the rule is an `enum` rule — a constraint and a sub-loader are created -/
theorem sb_arrB (rules : Rules) (src : Bytes) (m : Mode) (hm : m ≠ .default) (nd : Node) (rn : Nat × Nat) (cs : List Cons)
    (x y : Nat) (hname : Loader.nameOf src.toArray rn = enumName) :
    stepB rules src (bst m .value nd rn cs) ⟨.arrB, x, y⟩
      = .ok (est m { nd with rules := nd.rules ++ [.inl rn], ruleVals := nd.ruleVals ++ [none] } rn none .itemOrEnd {} cs) := by
  have hn : (Loader.nameOf src.toArray rn == enumName) = true := by rw [hname]; simp
  cases m with
  | default => exact absurd rfl hm
  | inline =>
    simp only [stepB, bst, annSt, toRule, hn]
    rfl
  | multi =>
    simp only [stepB, bst, annSt, toRule, hn]
    rfl

theorem sb_e_nl (rules : Rules) (src : Bytes) (m : Mode) (hm : m ≠ .default) (nd : Node) (rn : Nat × Nat)
    (last : Option Nat) (el : EL) (c : Cons) (cs : List Cons) (x y : Nat) :
    stepB rules src (est m nd rn last el c cs) ⟨.newLine, x, y⟩ = .ok (est m nd rn last el c cs) := by
  cases m with
  | default => exact absurd rfl hm
  | inline => rfl
  | multi => rfl

theorem sb_e_nlEvs (rules : Rules) (src : Bytes) (m : Mode) (hm : m ≠ .default) (nd : Node) (rn : Nat × Nat)
    (last : Option Nat) (el : EL) (c : Cons) (cs : List Cons) : ∀ (ws : List Cls) (o : Nat),
    FoldB rules src (nlEvs o ws) (est m nd rn last el c cs) (est m nd rn last el c cs)
  | [], _ => FoldB.nil _ _ _
  | k :: ws, o => by
    simp only [nlEvs]
    split
    · exact FoldB.trans (FoldB.one (sb_e_nl rules src m hm nd rn last el c cs o o))
        (sb_e_nlEvs rules src m hm nd rn last el c cs ws (o + 1))
    · exact FoldB.trans (FoldB.nil _ _ _) (sb_e_nlEvs rules src m hm nd rn last el c cs ws (o + 1))

theorem sb_e_itemB (rules : Rules) (src : Bytes) (m : Mode) (hm : m ≠ .default) (nd : Node) (rn : Nat × Nat)
    (last : Option Nat) (c : Cons) (cs : List Cons) (x y : Nat) :
    stepB rules src (est m nd rn last .itemOrEnd c cs) ⟨.itemB, x, y⟩ = .ok (est m nd rn last .literal c cs) := by
  cases m with
  | default => exact absurd rfl hm
  | inline => rfl
  | multi => rfl

theorem sb_e_litB (rules : Rules) (src : Bytes) (m : Mode) (hm : m ≠ .default) (nd : Node) (rn : Nat × Nat)
    (last : Option Nat) (c : Cons) (cs : List Cons) (x y : Nat) :
    stepB rules src (est m nd rn last .literal c cs) ⟨.litB, x, y⟩ = .ok (est m nd rn last .literal c cs) := by
  cases m with
  | default => exact absurd rfl hm
  | inline => rfl
  | multi => rfl

/-- the literal's end: `Append(NewEnumItem(token, ""))` -/
theorem sb_e_litE (rules : Rules) (src : Bytes) (m : Mode) (hm : m ≠ .default) (nd : Node) (rn : Nat × Nat)
    (last : Option Nat) (c c' : Cons) (cs : List Cons) (x y : Nat)
    (happ : append x c (Loader.slice src.toArray x y) [] = .ok c') :
    stepB rules src (est m nd rn last .literal c cs) ⟨.litE, x, y⟩
      = .ok (est m nd rn (some c.items.length) .itemEnd c' cs) := by
  cases m with
  | default => exact absurd rfl hm
  | inline =>
    simp only [stepB, est, annSt, toRule, embStep, elStep, happ, bind, Except.bind, pure, Except.pure]
    rfl
  | multi =>
    simp only [stepB, est, annSt, toRule, embStep, elStep, happ, bind, Except.bind, pure, Except.pure]
    rfl

theorem sb_e_itemE (rules : Rules) (src : Bytes) (m : Mode) (hm : m ≠ .default) (nd : Node) (rn : Nat × Nat)
    (last : Option Nat) (c : Cons) (cs : List Cons) (x y : Nat) :
    stepB rules src (est m nd rn last .itemEnd c cs) ⟨.itemE, x, y⟩ = .ok (est m nd rn last .itemOrEnd c cs) := by
  cases m with
  | default => exact absurd rfl hm
  | inline => rfl
  | multi => rfl

/-- `]`: the sub-loader is done, the rule loader waits for the end of the value -/
theorem sb_e_arrE (rules : Rules) (src : Bytes) (m : Mode) (hm : m ≠ .default) (nd : Node) (rn : Nat × Nat)
    (last : Option Nat) (c : Cons) (cs : List Cons) (x y : Nat) :
    stepB rules src (est m nd rn last .itemOrEnd c cs) ⟨.arrE, x, y⟩ = .ok (bst m .valueEnd nd rn (c :: cs)) := by
  cases m with
  | default => exact absurd rfl hm
  | inline => rfl
  | multi => rfl

/-! ### the items -/

/-- `Append` of a list of tokens at given event positions -/
def appendToks : Cons → List Bytes → Option Cons
  | c, [] => some c
  | c, t :: ts =>
    match newEnumItem t [] with
    | none => none
    | some it => if c.items.any (fun x => x.key == it.key) then none else appendToks { c with items := c.items ++ [it] } ts

theorem append_of_toks (pos : Nat) (c : Cons) (t : Bytes) (ts : List Bytes) (c' : Cons)
    (h : appendToks c (t :: ts) = some c') :
    ∃ c1, append pos c t [] = .ok c1 ∧ appendToks c1 ts = some c' := by
  simp only [appendToks] at h
  cases hn : newEnumItem t [] with
  | none => rw [hn] at h; cases h
  | some it =>
    rw [hn] at h
    simp only [] at h
    split at h
    · cases h
    · rename_i hany
      refine ⟨{ c with items := c.items ++ [it] }, ?_, h⟩
      simp only [append, hn, hany, Bool.false_eq_true, if_false]
      rfl

/-- the tokens `toks` are the slices that the literal-end events of the items cut out of `src` -/
def SlicesAt (src : Bytes) : Nat → List SchemaScan.CItem → List Bytes → Prop
  | _, [], _ => True
  | _, _ :: _, [] => True
  | o, (w1, t, w2) :: its, tk :: toks =>
    Loader.slice src.toArray (o + w1.length) (o + w1.length + t.length - 1) = tk ∧
      SlicesAt src (o + w1.length + t.length + w2.length + (if its.isEmpty then 0 else 1)) its toks

/-- the items of the list: every literal is appended -/
theorem items_foldB (rules : Rules) (src : Bytes) (m : Mode) (hm : m ≠ .default) (nd : Node) (rn : Nat × Nat)
    (cs : List Cons) (v : Nat) : ∀ (its : List SchemaScan.CItem) (toks : List Bytes) (o : Nat) (last : Option Nat) (c c' : Cons),
    toks.length = its.length → SlicesAt src o its toks → appendToks c toks = some c' →
    FoldB rules src (citemsEvs v o its) (est m nd rn last .itemOrEnd c cs) (bst m .valueEnd nd rn (c' :: cs))
  | [], [], o, last, c, c', _, _, happ => by
    simp only [appendToks, Option.some.injEq] at happ
    subst happ
    exact FoldB.one (sb_e_arrE rules src m hm nd rn last c cs v o)
  | [], _ :: _, _, _, _, _, hl, _, _ => by simp at hl
  | _ :: _, [], _, _, _, _, hl, _, _ => by simp at hl
  | (w1, t, w2) :: its, tk :: toks, o, last, c, c', hl, hsl, happ => by
    obtain ⟨hs1, hs2⟩ := hsl
    obtain ⟨c1, ha1, ha2⟩ := append_of_toks (o + w1.length) c tk toks c' happ
    have f1 := sb_e_nlEvs rules src m hm nd rn last .itemOrEnd c cs w1 o
    have f2 := FoldB.one (sb_e_itemB rules src m hm nd rn last c cs (o + w1.length) (o + w1.length))
    have f3 := FoldB.one (sb_e_litB rules src m hm nd rn last c cs (o + w1.length) (o + w1.length))
    have f4 := FoldB.one (sb_e_litE rules src m hm nd rn last c c1 cs (o + w1.length) (o + w1.length + t.length - 1)
      (by rw [hs1]; exact ha1))
    have f5 := FoldB.one (sb_e_itemE rules src m hm nd rn (some c.items.length) c1 cs (o + w1.length)
      (o + w1.length + t.length - 1))
    have f6 := sb_e_nlEvs rules src m hm nd rn (some c.items.length) .itemOrEnd c1 cs w2 (o + w1.length + t.length)
    have f7 := items_foldB rules src m hm nd rn cs v its toks
      (o + w1.length + t.length + w2.length + (if its.isEmpty then 0 else 1)) (some c.items.length) c1 c'
      (by simpa using hl) hs2 ha2
    have := FoldB.trans f1 (FoldB.trans f2 (FoldB.trans f3 (FoldB.trans f4 (FoldB.trans f5 (FoldB.trans f6 f7)))))
    refine this.cast ?_ rfl
    simp [citemsEvs]

end EnumRoute
