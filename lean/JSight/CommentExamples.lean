import JSight.CommentErase
import JSight.LayoutExamples
/-!
A concrete instance for the C13 comment theorems: `{"a": [1, true]}` with line comments (one empty, one directly
before the closing brace), block comments (one with a line break inside, one with an empty body: `#####`), and a
last comment that is not ended by a line break.
-/
namespace Lay.Ex
open SchemaScan (classify IsScalar IsKey)

/-- ` first` -/
def cFirst : List UInt8 := [32, 102, 105, 114, 115, 116]
/-- `# x⏎ y ` — the body of `### x⏎ y ###` -/
def cBody : List UInt8 := [35, 32, 120, 10, 32, 121, 32]
/-- `# end` -/
def cFin : List UInt8 := [35, 32, 101, 110, 100]

/-- `{ # first⏎#####"a": [1,#␍⏎true ### x⏎ y ###⏎]#c⏎}` -/
def tC : BTree :=
  .obj [.blank 32, .line cFirst 10, .block []]
    [([], key, [], [.blank 32],
      .arr [] [([], .scalar one, []),
               ([.line [] 13, .blank 10], .scalar tru, [.blank 32, .block cBody, .blank 10])],
      [.line [99] 10])]

theorem tC_valid : tC.Valid := by
  simp [tC, BTree.Valid, ValidMembers, ValidItems, ValidL, PlainL, LI.Valid, LI.isBlank, isBlankB, isNlB, noTriple,
    cFirst, cBody, key_ok, one_ok, tru_ok]

theorem tC_value : tC.value = tLF.value := rfl

theorem cFin_ok : IsFin cFin := Or.inr ⟨[32, 101, 110, 100], rfl, by simp [isNlB], by simp⟩

/-- the text -/
example : docTextF [] tC [.blank 10] cFin =
    [123, 32, 35, 32, 102, 105, 114, 115, 116, 10, 35, 35, 35, 35, 35, 34, 97, 34, 58, 32, 91, 49, 44, 35, 13, 10,
      116, 114, 117, 101, 32, 35, 35, 35, 32, 120, 10, 32, 121, 32, 35, 35, 35, 10, 93, 35, 99, 10, 125, 10,
      35, 32, 101, 110, 100] := by decide

/-- the erased text: `{ ⏎"a": [1,␍⏎true ⏎]⏎}⏎` -/
example : docText (eraseL []) tC.erase (eraseL [.blank 10]) =
    [123, 32, 10, 34, 97, 34, 58, 32, 91, 49, 44, 13, 10, 116, 114, 117, 101, 32, 10, 93, 10, 125, 10] := by decide

end Lay.Ex
