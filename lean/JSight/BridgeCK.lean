import JSight.Compile
import JSight.Checker
/-!
# Bridge (A)∩(C): `Compile.check` (phase 3 of the text-level pipeline, property C01) and `CK.checkSchema`
(the checker model of property C04) on ONE compiled schema

`dumpOf root ts` is the dump the hook `VerifCheckerDump` would print for the compiled tree `Compile.CN` (+ the type
table): per node its class, JSON type, basis lexeme and the constraints the checker reads.

What `Compile.CN` does not keep is filled in canonically:
* positions: (A) states no byte offsets for checker errors (`Err.code c 0`), so every lexeme sits at file 0, offset 0
  (the comparison is on the error CODE; the position clause of C04 stays with `C04_checker_position`);
* `bad` (some constraint of the node is incompatible with its JSON type; (A) forgets which): one marker constraint
  that no JSON type of that node class admits (`allOf` on a literal / array, `minItems` on an object);
* an or-shortcut `@a | @b` owns an unnamed type `#…` in the real type table, whose root is the shortcut node itself;
  `dumpOf` lists one per or-shortcut of the named types (`#<type>/<path>`), which `typeGoesFirst` visits before the named types —
  where `Compile.check` has its `orShortsOK` stage.
-/
namespace BridgeCK
open Compile

abbrev Bytes := List UInt8

def jtOf : Compile.JT → CK.JT
  | .obj => .object | .arr => .array | .str => .string | .int => .integer | .flt => .float
  | .bool => .boolean | .null => .null | .mixed => .mixed

def lexLit (tok : Bytes) : CK.Lex := ⟨.litEnd, 0, 0, tok⟩
def lexBranch : CK.Lex := ⟨.other, 0, 0, []⟩

/-- a literal validator of (A) as the constraint the checker reads -/
def cnOfRule (ex : Bytes) : RulesF.Rule → CK.Cn
  | .min b e => .min b e
  | .max b e => .max b e
  | .precision p => .precision p
  | .minLength n => .minLength n
  | .maxLength n => .maxLength n
  | .regex p => .regex p
  | .enum items => .enum items
  | .const => .const true ex
  | .fmt .email => .email
  | .fmt .uri => .uri
  | .fmt .uuid => .uuid
  | .fmt .date => .date
  | .fmt .datetime => .datetime

def nulCs (nul : Bool) : List CK.Cn := if nul then [.nullable true] else []

/-- the constraints of a literal node -/
def litCs (spec : RulesF.LitSpecF) : List CK.Cn := nulCs spec.nul ++ spec.rules.map (cnOfRule spec.ex)

def name (s : String) : CK.Name := strBytes s

def addCs : Add → List CK.Cn
  | .absent => []
  | .notAllowed => [.additionalProperties 0 []]
  | .any => [.additionalProperties 1 []]
  | .type n => [.additionalProperties 2 (name n)]
  | .obj | .arr | .soft _ => [.additionalProperties 3 []]

/-- class of a node with a types list that is not a type shortcut, by its JSON type -/
def nkOfJT : Compile.JT → CK.NK
  | .obj => .obj | .arr => .arr | .mixed => .mixedValue | _ => .lit

mutual
def dumpNode : CN → CK.Node
  | .lit spec bad =>
    .mk { nk := .lit, jt := jtOf (JT.ofKind spec.kind), lex := lexLit spec.ex,
          cs := litCs spec ++ (if bad then [.allOf] else []) } []
  | .any jt lit =>
    .mk { nk := nkOfJT jt, jt := jtOf jt, lex := (match lit with | some l => lexLit l.ex | none => lexBranch),
          cs := (match lit with | some l => nulCs l.nul | none => []) ++ [.any] } []
  | .arr items nul bad =>
    .mk { nk := .arr, jt := .array, lex := lexBranch, cs := nulCs nul ++ (if bad then [.allOf] else []) } (dumpItems items)
  | .obj props add nul bad =>
    .mk { nk := .obj, jt := .object, lex := lexBranch,
          cs := nulCs nul ++ addCs add ++ (if bad then [.minItems 0] else []),
          keys := dumpKeys props } (dumpProps props)
  | .ref names nul jt ex _ =>
    .mk { nk := nkOfJT jt, jt := jtOf jt, lex := (match ex with | some tok => lexLit tok | none => lexBranch),
          cs := [.typesList (names.map name)] ++ nulCs nul,
          gtypes := if jt == .mixed then names.map name else [] } []
def dumpItems : List CN → List CK.Node
  | [] => []
  | x :: xs => dumpNode x :: dumpItems xs
def dumpProps : List (String × Bool × Bool × Bool × CN) → List CK.Node
  | [] => []
  | (_, _, _, _, x) :: xs => dumpNode x :: dumpProps xs
def dumpKeys : List (String × Bool × Bool × Bool × CN) → List CK.Key
  | [] => []
  | (k, short, _, _, _) :: xs =>
    { name := name (if short then "@" ++ k else k), shortcut := short, lex := lexBranch } :: dumpKeys xs
end

mutual
/-- the or-shortcut nodes below a node, with a path that names them -/
def orShorts (path : String) : CN → List (String × CN)
  | .ref names nul jt ex true => [(path, .ref names nul jt ex true)]
  | .arr items _ _ => orShortsItems path 0 items
  | .obj props _ _ _ => orShortsProps path 0 props
  | _ => []
def orShortsItems (path : String) : Nat → List CN → List (String × CN)
  | _, [] => []
  | i, x :: xs => orShorts (path ++ "/" ++ toString i) x ++ orShortsItems path (i + 1) xs
def orShortsProps (path : String) : Nat → List (String × Bool × Bool × Bool × CN) → List (String × CN)
  | _, [] => []
  | i, (_, _, _, _, x) :: xs => orShorts (path ++ "/" ++ toString i) x ++ orShortsProps path (i + 1) xs
end

def typeEntry (t : String × CN) : CK.TypeEntry :=
  { name := name t.1, file := 0, begin := 0, root := dumpNode t.2 }

/-- the unnamed types of the or-shortcuts inside the named types (all in one "file", at one offset: their mutual
order is immaterial for the code of the first error, every one of them fails with 1302 or not at all) -/
def unnamed (ts : Types) : List CK.TypeEntry :=
  (ts.flatMap fun t => orShorts ("#" ++ t.1) t.2).map typeEntry

/-- the dump of the compiled schema -/
def dumpOf (root : Option CN) (ts : Types) : CK.Schema :=
  { root := root.map dumpNode, types := ts.map typeEntry ++ unnamed ts }

/-- (C)'s outcome in (A)'s outcome type; a crash of (C) (fuel) has no counterpart -/
def resOf : CK.Res → Option (Except Err Unit)
  | .ok => some (.ok ())
  | .err c _ _ _ => some (.error (.code c 0))
  | .crash _ => none

/-- `Compile.check` without `CheckRecursion` (which (C) does not model): `CheckRootSchema` alone -/
def checkA (root : Option CN) (ts : Types) : Except Err Unit :=
  match root with
  | none => checkNoRoot ts
  | some r =>
    match checkNode ts (checkFuel (some r) ts) r with
    | .error e => .error e
    | .ok () =>
      if !(ts.all fun t => orShortsOK ts t.2) then .error (.code 1302 0)
      else checkTypes ts (checkFuel (some r) ts) (sortNames (ts.map (·.1)))

def checkC (root : Option CN) (ts : Types) : CK.Res := CK.checkSchema noOracles (dumpOf root ts)

def codeOfA : Except Err Unit → Option Nat
  | .ok _ => none
  | .error (.code c _) => some c
  | .error (.unsupported _) => none

def isUnsupported : Except Err Unit → Bool
  | .error (.unsupported _) => true
  | _ => false

/-- run-time comparison: `none` = outside (fuel of either side) -/
def agree (root : Option CN) (ts : Types) : Option Bool :=
  match resOf (checkC root ts) with
  | none => none
  | some c => if isUnsupported (checkA root ts) then none else some (codeOfA (checkA root ts) == codeOfA c)

end BridgeCK
