import JSight.E2EShape
/-!
The shape specification on tokens (`VN.shape kindOKTok`) and on kinds (`V.shape`, the spec of
`C01_validate_iff_shape`) agree on documents whose scalar tokens all have a kind.
-/
namespace E2E
open Rules (Kind)
open Lay (JV)

variable (opt : Bool)

theorem vKind_inj (a b : Kind) : (vKind a == vKind b) = (a == b) := by cases a <;> cases b <;> rfl

theorem kindOK_tok (k : Kind) (tok : List UInt8) (h : (RulesF.kindOfTok tok).isSome = true) :
    V.kindOK (vKind (kindOf tok)) (vKind k) false = kindOKTok k tok := by
  obtain ⟨d, hd⟩ := Option.isSome_iff_exists.mp h
  simp only [kindOf, kindOKTok, hd, Option.getD_some, V.kindOK]
  cases d <;> cases k <;> rfl

theorem schemaVItems_eq_map : (items : List JV) → schemaVItems opt items = items.map (schemaV opt)
  | [] => rfl
  | v :: vs => by simp [schemaVItems, schemaVItems_eq_map vs]

theorem childAt_v (items : List JV) (i : Nat) :
    V.childAt (schemaVItems opt items) i = (jvChildAt items i).map (schemaV opt) := by
  rw [schemaVItems_eq_map]
  cases items with
  | nil => rfl
  | cons v vs =>
    simp only [V.childAt, jvChildAt, List.map_cons, List.length_cons, List.length_map]
    rw [← List.map_cons, List.getElem?_map]

theorem lookup_v : (props : List (List UInt8 × JV)) → (k : String) →
    V.lookup (schemaVMembers opt props) k = (jvLookup props k).map (schemaV opt)
  | [], _ => rfl
  | (k', v) :: ps, k => by
    have ih := lookup_v ps k
    simp only [V.lookup, jvLookup, schemaVMembers, List.find?_cons] at ih ⊢
    cases h : keyOf k' == k <;> simp [ih]

theorem requiredKeys_v : (props : List (List UInt8 × JV)) →
    V.requiredKeys (schemaVMembers opt props) = VN.requiredKeys (schemaMembers opt props)
  | [] => rfl
  | (k, v) :: ps => by
    have ih := requiredKeys_v ps
    simp only [V.requiredKeys, VN.requiredKeys, schemaVMembers, schemaMembers, List.filter_cons] at ih ⊢
    cases opt <;> simp [ih]

theorem any_toVJ : (ms : List (String × VN.J (List UInt8))) → (k : String) →
    (toVJMembers ms).any (fun m => m.1 == k) = ms.any (fun m => m.1 == k)
  | [], _ => rfl
  | (k', v) :: ms, k => by simp [toVJMembers, any_toVJ ms k]

mutual
theorem kinds_value : (dd : VN.J (List UInt8)) → docGuessable dd = true → (v : JV) →
    V.shape (schemaV opt v) (toVJ dd) = VN.shape kindOKTok (schemaOf opt v) dd
  | .lit d, hg, .lit tok => by
    simp only [docGuessable] at hg
    simp [schemaV, schemaOf, toVJ, V.shape, VN.shape, kindOK_tok _ d hg]
  | .lit d, _, .arr items => by simp [schemaV, schemaOf, toVJ, V.shape, VN.shape]
  | .lit d, _, .obj ms => by simp [schemaV, schemaOf, toVJ, V.shape, VN.shape]
  | .arr xs, _, .lit tok => by simp [schemaV, schemaOf, toVJ, V.shape, VN.shape]
  | .arr xs, hg, .arr items => by
    have hg' : docGuessableItems xs = true := by simpa [docGuessable] using hg
    simp [schemaV, schemaOf, toVJ, V.shape, VN.shape, kinds_items xs hg' items 0]
  | .arr xs, _, .obj ms => by simp [schemaV, schemaOf, toVJ, V.shape, VN.shape]
  | .obj ms, _, .lit tok => by simp [schemaV, schemaOf, toVJ, V.shape, VN.shape]
  | .obj ms, _, .arr items => by simp [schemaV, schemaOf, toVJ, V.shape, VN.shape]
  | .obj ms, hg, .obj props => by
    have hg' : docGuessableMembers ms = true := by simpa [docGuessable] using hg
    simp only [schemaV, schemaOf, toVJ, V.shape, VN.shape, kinds_members ms hg' props, requiredKeys_v, any_toVJ]
theorem kinds_items : (xs : List (VN.J (List UInt8))) → docGuessableItems xs = true → (items : List JV) → (i : Nat) →
    V.shapeItems (schemaVItems opt items) i (toVJItems xs) = VN.shapeItems kindOKTok (schemaItems opt items) i xs
  | [], _, _, _ => by simp [toVJItems, V.shapeItems, VN.shapeItems]
  | x :: xs, hg, items, i => by
    obtain ⟨hg1, hg2⟩ : docGuessable x = true ∧ docGuessableItems xs = true := by simpa [docGuessableItems] using hg
    simp only [toVJItems, V.shapeItems, VN.shapeItems, childAt_v, childAt_vn, kinds_items xs hg2 items (i + 1)]
    cases jvChildAt items i with
    | none => rfl
    | some s => simp [kinds_value x hg1 s]
theorem kinds_members : (ms : List (String × VN.J (List UInt8))) → docGuessableMembers ms = true →
    (props : List (List UInt8 × JV)) →
    V.shapeMembers (schemaVMembers opt props) (toVJMembers ms) = VN.shapeMembers kindOKTok (schemaMembers opt props) ms
  | [], _, _ => by simp [toVJMembers, V.shapeMembers, VN.shapeMembers]
  | (k, x) :: ms, hg, props => by
    obtain ⟨hg1, hg2⟩ : docGuessable x = true ∧ docGuessableMembers ms = true := by simpa [docGuessableMembers] using hg
    simp only [toVJMembers, V.shapeMembers, VN.shapeMembers, lookup_v, lookup_vn, kinds_members ms hg2 props]
    cases jvLookup props k with
    | none => rfl
    | some s => simp [kinds_value x hg1 s]
end

end E2E
