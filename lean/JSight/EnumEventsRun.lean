import JSight.EnumEventsStep
/-!
The calculus `Pre s evs s'` ("from `s` the stream delivers `evs` and arrives at `s'`") and its instances on the
literal-list grammar: token runs, layout loops, brackets, the closing phase of an item.
-/
set_option linter.unusedSimpArgs false
set_option linter.unusedVariables false
namespace EnumScan
open SchemaScan (Cls classify)

variable {content : Array UInt8} {data : Array Cls}

def Pre (content : Array UInt8) (data : Array Cls) (s : Sc) (evs : List Ev) (s' : Sc) : Prop :=
  ∀ n r, Out content data s' n r → Out content data s (n + evs.length) (r.map (evs ++ ·))

theorem Pre.refl (s : Sc) : Pre content data s [] s := by
  intro n r h
  exact h.cast rfl (map_nil_app r).symm

theorem Pre.trans {s s1 s2 : Sc} {e1 e2 : List Ev} (h1 : Pre content data s e1 s1) (h2 : Pre content data s1 e2 s2) :
    Pre content data s (e1 ++ e2) s2 := by
  intro n r h
  refine (h1 _ _ (h2 _ _ h)).cast ?_ (map_map_app r e1 e2)
  simp only [List.length_append]; omega

theorem Pre.cast {s s' : Sc} {e e' : List Ev} (h : Pre content data s e s') (he : e = e') : Pre content data s e' s' := by
  subst he; exact h

theorem Pre.byte {st : St} {ret : List St} {stack : List (LexT × Nat)} {i : Nat} {ann unf lc ht : Bool}
    {uq : List (List UInt8 × Bool)} {c : Cls} {s2 : Sc}
    (hc : data[i]? = some c)
    (hd : ∀ p1, dispatch content 8 ⟨st, ret, stack, [], i + 1, ann, unf, lc, ht, uq⟩ c p1 = .ok s2)
    (hi : s2.index = i + 1) :
    Pre content data ⟨st, ret, stack, [], i, ann, unf, lc, ht, uq⟩ [] s2 := by
  intro n r h
  exact (Out.byte' hc hd hi h).cast rfl (map_nil_app r).symm

theorem Pre.shift {st : St} {ret : List St} {stack : List (LexT × Nat)} {t : LexT} {rest : List LexT} {i : Nat}
    {ann unf lc ht : Bool} {uq : List (List UInt8 × Bool)} {s1 : Sc} {ev : Ev}
    (hp : processFound ⟨st, ret, stack, rest, i, ann, unf, lc, ht, uq⟩ t = .ok (s1, ev)) :
    Pre content data ⟨st, ret, stack, t :: rest, i, ann, unf, lc, ht, uq⟩ [ev] s1 := by
  intro n r h
  exact (Out.shift' hp h).cast rfl (map_cons_eq r ev)

/-! ### token bytes -/

def silentRun : St → List St → Bool → List Cls → Option (St × List St × Bool)
  | st, ret, unf, [] => some (st, ret, unf)
  | st, ret, unf, c :: cs => match silent st ret unf c with
    | some (st', ret', unf') => silentRun st' ret' unf' cs
    | none => none

theorem pre_silentRun (tok : List Cls) (stack : List (LexT × Nat)) (ann lc ht : Bool) (uq : List (List UInt8 × Bool)) :
    ∀ (st : St) (ret : List St) (unf : Bool) (i : Nat) (st' : St) (ret' : List St) (unf' : Bool),
      SegA data i tok → silentRun st ret unf tok = some (st', ret', unf') →
      Pre content data ⟨st, ret, stack, [], i, ann, unf, lc, ht, uq⟩ []
        ⟨st', ret', stack, [], i + tok.length, ann, unf', lc, ht, uq⟩ := by
  induction tok with
  | nil =>
    intro st ret unf i st' ret' unf' _ h
    simp only [silentRun, Option.some.injEq, Prod.mk.injEq] at h
    obtain ⟨rfl, rfl, rfl⟩ := h
    exact Pre.refl _
  | cons c cs ih =>
    intro st ret unf i st' ret' unf' hseg h
    obtain ⟨hc, hcs⟩ := hseg
    simp only [silentRun] at h
    cases hs : silent st ret unf c with
    | none => rw [hs] at h; cases h
    | some p =>
      obtain ⟨s1, r1, u1⟩ := p
      rw [hs] at h
      simp only [] at h
      have h1 := Pre.byte (content := content) hc
        (fun p1 => silent_dispatch st ret unf c s1 r1 u1 hs stack (i + 1) ann lc ht uq p1) rfl
      have h2 := ih s1 r1 u1 (i + 1) st' ret' unf' hcs h
      simp only [List.length_cons]
      rw [show i + (cs.length + 1) = i + 1 + cs.length by omega]
      exact h1.trans h2

/-! ### layout -/

def IsWs (ws : List Cls) : Prop := ∀ c ∈ ws, c.isBlank = true

/-- the new-line events of a layout segment starting at offset `o` -/
def nlEvs : Nat → List Cls → List Ev
  | _, [] => []
  | o, c :: cs => (if c.isNewLine then [⟨.newLine, o, o⟩] else []) ++ nlEvs (o + 1) cs

theorem nlEvs_length_le (o : Nat) (ws : List Cls) : (nlEvs o ws).length ≤ ws.length := by
  induction ws generalizing o with
  | nil => simp [nlEvs]
  | cons c cs ih =>
    have := ih (o + 1)
    simp only [nlEvs, List.length_append, List.length_cons]
    split <;> simp <;> omega

def LoopSt (st : St) : Prop := st = .arrItemOrEmpty ∨ st = .arrItem ∨ st = .afterItem

theorem pre_blank_loop {st : St} (hst : LoopSt st) {c : Cls} (hb : c.isBlank = true) (a i : Nat) (lc ht : Bool)
    (uq : List (List UInt8 × Bool)) (hc : data[i]? = some c) :
    Pre content data ⟨st, [], [(.arrB, a)], [], i, false, false, lc, ht, uq⟩
      (if c.isNewLine then [⟨.newLine, i, i⟩] else [])
      ⟨st, [], [(.arrB, a)], [], i + 1, false, false, lc, ht, uq⟩ := by
  rcases hst with rfl | rfl | rfl <;> cases c <;> simp [Cls.isBlank, Cls.isSpace, Cls.isNewLine] at hb ⊢ <;>
    first
    | exact Pre.byte hc (fun p1 => by unfold dispatch; rfl) rfl
    | exact (Pre.byte hc (fun p1 => by unfold dispatch; rfl) rfl).trans (Pre.shift rfl)

theorem pre_ws_loop {st : St} (hst : LoopSt st) (a : Nat) (lc ht : Bool) (uq : List (List UInt8 × Bool))
    (ws : List Cls) (hw : IsWs ws) :
    ∀ i, SegA data i ws →
    Pre content data ⟨st, [], [(.arrB, a)], [], i, false, false, lc, ht, uq⟩ (nlEvs i ws)
      ⟨st, [], [(.arrB, a)], [], i + ws.length, false, false, lc, ht, uq⟩ := by
  induction ws with
  | nil => intro i _; exact Pre.refl _
  | cons c cs ih =>
    intro i hseg
    obtain ⟨hc, hcs⟩ := hseg
    have h1 := pre_blank_loop (content := content) hst (hw c (by simp)) a i lc ht uq hc
    have h2 := ih (fun x hx => hw x (by simp [hx])) (i + 1) hcs
    simp only [List.length_cons, nlEvs]
    rw [show i + (cs.length + 1) = i + 1 + cs.length by omega]
    exact h1.trans h2

theorem pre_ws_begin (lc ht : Bool) (uq : List (List UInt8 × Bool)) (ws : List Cls) (hw : IsWs ws) :
    ∀ i, SegA data i ws →
    Pre content data ⟨.begin, [], [], [], i, false, false, lc, ht, uq⟩ []
      ⟨.begin, [], [], [], i + ws.length, false, false, lc, ht, uq⟩ := by
  induction ws with
  | nil => intro i _; exact Pre.refl _
  | cons c cs ih =>
    intro i hseg
    obtain ⟨hc, hcs⟩ := hseg
    have hb := hw c (by simp)
    have h1 : Pre content data ⟨.begin, [], [], [], i, false, false, lc, ht, uq⟩ []
        ⟨.begin, [], [], [], i + 1, false, false, lc, ht, uq⟩ := by
      cases c <;> simp [Cls.isBlank, Cls.isSpace, Cls.isNewLine] at hb <;>
        exact Pre.byte hc (fun p1 => by unfold dispatch; rfl) rfl
    have h2 := ih (fun x hx => hw x (by simp [hx])) (i + 1) hcs
    simp only [List.length_cons]
    rw [show i + (cs.length + 1) = i + 1 + cs.length by omega]
    exact h1.trans h2

/-- layout after the closing bracket, up to the end of input -/
theorem out_ws_end (lc : Bool) (uq : List (List UInt8 × Bool)) (ws : List Cls) (hw : IsWs ws) :
    ∀ (st : St) (i : Nat), st = .endValue ∨ st = .endTop → SegA data i ws → data.size = i + ws.length →
    Out content data ⟨st, [], [], [], i, false, false, lc, false, uq⟩ (nlEvs i ws).length (.ok (nlEvs i ws)) := by
  induction ws with
  | nil =>
    intro st i _ _ hsz
    exact Out.eof rfl (by simp at hsz; simp [hsz]) rfl
  | cons c cs ih =>
    intro st i hst hseg hsz
    obtain ⟨hc, hcs⟩ := hseg
    have hb := hw c (by simp)
    have h2 := ih (fun x hx => hw x (by simp [hx])) .endTop (i + 1) (Or.inr rfl) hcs
      (by simp only [List.length_cons] at hsz; omega)
    have h1 : Pre content data ⟨st, [], [], [], i, false, false, lc, false, uq⟩
        (if c.isNewLine then [⟨.newLine, i, i⟩] else [])
        ⟨.endTop, [], [], [], i + 1, false, false, lc, false, uq⟩ := by
      rcases hst with rfl | rfl <;> cases c <;> simp [Cls.isBlank, Cls.isSpace, Cls.isNewLine] at hb ⊢ <;>
        first
        | exact Pre.byte hc (fun p1 => by unfold dispatch; first | rfl | (unfold endValue; unfold dispatch; rfl)) rfl
        | exact (Pre.byte hc (fun p1 => by
            unfold dispatch; first | rfl | (unfold endValue; unfold dispatch; rfl)) rfl).trans (Pre.shift rfl)
    refine (h1 _ _ h2).cast ?_ ?_
    · simp only [nlEvs, List.length_append]; omega
    · simp [nlEvs, Except.map]

/-! ### brackets and the first byte of a token -/

theorem pre_lbrack (i : Nat) (lc ht : Bool) (uq : List (List UInt8 × Bool)) (hc : data[i]? = some .lbrack) :
    Pre content data ⟨.begin, [], [], [], i, false, false, lc, ht, uq⟩ [⟨.arrB, i, i⟩]
      ⟨.arrItemOrEmpty, [], [(.arrB, i)], [], i + 1, false, false, lc, ht, uq⟩ :=
  (Pre.byte hc (fun p1 => by unfold dispatch; rfl) rfl).trans (Pre.shift rfl)

theorem pre_rbrack_empty (a i : Nat) (lc ht : Bool) (uq : List (List UInt8 × Bool)) (hc : data[i]? = some .rbrack) :
    Pre content data ⟨.arrItemOrEmpty, [], [(.arrB, a)], [], i, false, false, lc, ht, uq⟩ [⟨.arrE, a, i⟩]
      ⟨.endValue, [], [], [], i + 1, false, false, lc, ht, uq⟩ :=
  (Pre.byte hc (fun p1 => by unfold dispatch; rfl) rfl).trans (Pre.shift rfl)

/-- first byte of a scalar token -/
def litStart : Cls → Option (St × Bool)
  | .quote => some (.inString, true)
  | .minus => some (.neg, true)
  | .zero => some (.d0, false)
  | .d19 => some (.d1, false)
  | .lt => some (.t, true)
  | .lf => some (.f, true)
  | .ln => some (.n, true)
  | _ => none

theorem pre_litStart {st : St} (hst : st = .arrItemOrEmpty ∨ st = .arrItem) {c : Cls} {st0 : St} {unf0 : Bool}
    (hl : litStart c = some (st0, unf0)) (a i : Nat) (lc ht : Bool) (uq : List (List UInt8 × Bool))
    (hc : data[i]? = some c) :
    Pre content data ⟨st, [], [(.arrB, a)], [], i, false, false, lc, ht, uq⟩ [⟨.itemB, i, i⟩, ⟨.litB, i, i⟩]
      ⟨st0, [], [(.litB, i), (.itemB, i), (.arrB, a)], [], i + 1, false, unf0, lc, ht, uq⟩ := by
  rcases hst with rfl | rfl <;> cases c <;> simp [litStart] at hl <;> obtain ⟨rfl, rfl⟩ := hl <;>
    exact ((Pre.byte hc (fun p1 => by unfold dispatch; rfl) rfl).trans (Pre.shift rfl)).trans (Pre.shift rfl)

/-! ### the closing phase of an item -/

/-- the model's duplicate key of a token: blanks trimmed, (decoded text, is-string) -/
def keyOfTrim (tok : List UInt8) : List UInt8 × Bool :=
  let tok := ((tok.dropWhile Render.isBlank).reverse.dropWhile Render.isBlank).reverse
  (if Unquote.inQuotes tok then Unquote.unquote tok else tok, Unquote.inQuotes tok)

def keyAt (content : Array UInt8) (b len : Nat) : List UInt8 × Bool :=
  keyOfTrim ((content.toList.drop b).take len)

theorem validateValue_eq (s : Sc) (t : LexT) (b : Nat) (rest : List (LexT × Nat)) (h : s.stack = (t, b) :: rest) :
    validateValue content s =
      if s.unique.contains (keyAt content b (s.index - 1 - b)) then .error (.duplicate b)
      else .ok { s with unique := keyAt content b (s.index - 1 - b) :: s.unique } := by
  unfold validateValue
  rw [h]
  rfl

/-- states in which a literal has been read completely (its end is still pending) -/
def PV : St → Bool
  | .endValue | .d0 | .d1 | .dot0 => true
  | _ => false

def isDelim : Cls → Bool | .sp | .tab | .nl | .comma | .rbrack => true | _ => false

def delimSt : Cls → St
  | .comma => .arrItem
  | .rbrack => .endValue
  | _ => .afterItem
def delimFinds : Cls → List LexT
  | .nl => [.newLine]
  | .rbrack => [.arrE]
  | _ => []
def delimStack (a : Nat) : Cls → List (LexT × Nat)
  | .rbrack => []
  | _ => [(.arrB, a)]
def delimEvs (a d : Nat) : Cls → List Ev
  | .nl => [⟨.newLine, d, d⟩]
  | .rbrack => [⟨.arrE, a, d⟩]
  | _ => []

theorem pv_dispatch (st : St) (hp : PV st = true) (c : Cls) (hc : isDelim c = true) (s : Sc) (hs : s.step = st)
    (p1 : Option Cls) : dispatch content 8 s c p1 = endValue content 7 s c p1 := by
  obtain ⟨step, ret, stack, finds, index, ann, unf, lc, htr, uq⟩ := s
  simp only at hs; subst hs
  cases step <;> simp [PV] at hp <;> cases c <;> simp [isDelim] at hc <;>
    (unfold dispatch; first | rfl | (unfold state0; rfl))

theorem close_dispatch (st : St) (hp : PV st = true) (c : Cls) (hc : isDelim c = true) (b b' a d : Nat) (lc : Bool)
    (uq : List (List UInt8 × Bool)) (p1 : Option Cls) :
    dispatch content 8 ⟨st, [], [(.litB, b), (.itemB, b'), (.arrB, a)], [], d + 1, false, false, lc, false, uq⟩ c p1 =
      if uq.contains (keyAt content b (d - b)) then .error (.duplicate b)
      else .ok ⟨delimSt c, [], [(.litB, b), (.itemB, b'), (.arrB, a)], [.litE, .itemE] ++ delimFinds c, d + 1,
                false, false, lc, false, keyAt content b (d - b) :: uq⟩ := by
  rw [pv_dispatch st hp c hc _ rfl]
  unfold endValue
  simp only [stackTy, found, List.length_cons, List.length_nil, List.getElem?_cons_zero, Option.map_some,
    List.nil_append, bind, Except.bind, pure, Except.pure]
  rw [validateValue_eq _ .litB b [(.itemB, b'), (.arrB, a)] rfl]
  simp only [Nat.add_sub_cancel]
  cases hcon : uq.contains (keyAt content b (d - b)) with
  | true => rfl
  | false =>
    simp only [Bool.false_eq_true, if_false]
    cases c <;> simp [isDelim] at hc <;>
      (show dispatch content 7 _ _ _ = _; unfold dispatch; rfl)

theorem pre_close {st : St} (hp : PV st = true) {c : Cls} (hc : isDelim c = true) (b b' a d : Nat) (lc : Bool)
    (uq : List (List UInt8 × Bool)) (hd : data[d]? = some c)
    (hfresh : uq.contains (keyAt content b (d - b)) = false) :
    Pre content data ⟨st, [], [(.litB, b), (.itemB, b'), (.arrB, a)], [], d, false, false, lc, false, uq⟩
      ([⟨.litE, b, d - 1⟩, ⟨.itemE, b', d - 1⟩] ++ delimEvs a d c)
      ⟨delimSt c, [], delimStack a c, [], d + 1, false, false, lc, false, keyAt content b (d - b) :: uq⟩ := by
  have h1 := Pre.byte (content := content) (data := data) hd
    (fun p1 => by rw [close_dispatch st hp c hc b b' a d lc uq p1, hfresh]; rfl) rfl
  cases c <;> simp [isDelim] at hc
  · exact (h1.trans (Pre.shift rfl)).trans (Pre.shift rfl)
  · exact (h1.trans (Pre.shift rfl)).trans (Pre.shift rfl)
  · exact ((h1.trans (Pre.shift rfl)).trans (Pre.shift rfl)).trans (Pre.shift rfl)
  · exact ((h1.trans (Pre.shift rfl)).trans (Pre.shift rfl)).trans (Pre.shift rfl)
  · exact (h1.trans (Pre.shift rfl)).trans (Pre.shift rfl)

/-- **duplicate**: the key of the literal just read is already in `unique` -/
theorem out_dup {st : St} (hp : PV st = true) {c : Cls} (hc : isDelim c = true) (b b' a d : Nat) (lc : Bool)
    (uq : List (List UInt8 × Bool)) (hd : data[d]? = some c)
    (hdup : uq.contains (keyAt content b (d - b)) = true) :
    Out content data ⟨st, [], [(.litB, b), (.itemB, b'), (.arrB, a)], [], d, false, false, lc, false, uq⟩ 0
      (.error (.duplicate b)) :=
  Out.fail' hd (fun p1 => by rw [close_dispatch st hp c hc b b' a d lc uq p1, hdup]; rfl) (by intro h; cases h)

theorem pre_delim {c : Cls} (hc : isDelim c = true) (a d : Nat) (lc ht : Bool)
    (uq : List (List UInt8 × Bool)) (hd : data[d]? = some c) :
    Pre content data ⟨.afterItem, [], [(.arrB, a)], [], d, false, false, lc, ht, uq⟩ (delimEvs a d c)
      ⟨delimSt c, [], delimStack a c, [], d + 1, false, false, lc, ht, uq⟩ := by
  cases c <;> simp [isDelim] at hc
  · exact Pre.byte hd (fun p1 => by unfold dispatch; rfl) rfl
  · exact Pre.byte hd (fun p1 => by unfold dispatch; rfl) rfl
  · exact (Pre.byte hd (fun p1 => by unfold dispatch; rfl) rfl).trans (Pre.shift rfl)
  · exact (Pre.byte hd (fun p1 => by unfold dispatch; rfl) rfl).trans (Pre.shift rfl)
  · exact Pre.byte hd (fun p1 => by unfold dispatch; rfl) rfl

theorem blank_delim {c : Cls} (hb : c.isBlank = true) :
    isDelim c = true ∧ delimSt c = .afterItem ∧ (∀ a, delimStack a c = [(.arrB, a)]) ∧
      (∀ a d, delimEvs a d c = nlEvs d [c]) := by
  cases c <;> simp [Cls.isBlank, Cls.isSpace, Cls.isNewLine] at hb <;>
    simp [isDelim, delimSt, delimStack, delimEvs, nlEvs, Cls.isNewLine]

/-- the closing phase: layout after the literal, then `,` or `]` -/
theorem pre_close_run {st : St} (hp : PV st = true) {term : Cls} (ht : term = .comma ∨ term = .rbrack)
    (b b' a d : Nat) (lc : Bool) (uq : List (List UInt8 × Bool)) (w2 : List Cls) (hw : IsWs w2)
    (hseg : SegA data d (w2 ++ [term])) (hfresh : uq.contains (keyAt content b (d - b)) = false) :
    Pre content data ⟨st, [], [(.litB, b), (.itemB, b'), (.arrB, a)], [], d, false, false, lc, false, uq⟩
      ([⟨.litE, b, d - 1⟩, ⟨.itemE, b', d - 1⟩] ++ (nlEvs d w2 ++ delimEvs a (d + w2.length) term))
      ⟨delimSt term, [], delimStack a term, [], d + w2.length + 1, false, false, lc, false,
        keyAt content b (d - b) :: uq⟩ := by
  have htd : isDelim term = true := by rcases ht with rfl | rfl <;> rfl
  cases w2 with
  | nil =>
    obtain ⟨hd, _⟩ := hseg
    exact pre_close hp htd b b' a d lc uq hd hfresh
  | cons c cs =>
    obtain ⟨hd, hrest⟩ := hseg
    obtain ⟨hcs, hterm⟩ := SegA_append hrest
    obtain ⟨hterm, _⟩ := hterm
    have hb := hw c (by simp)
    obtain ⟨e1, e2, e3, e4⟩ := blank_delim hb
    have h1 := pre_close (content := content) hp e1 b b' a d lc uq hd hfresh
    rw [e2, e3, e4] at h1
    have h2 := pre_ws_loop (content := content) (st := .afterItem) (Or.inr (Or.inr rfl)) a lc false
      (keyAt content b (d - b) :: uq) cs (fun x hx => hw x (by simp [hx])) (d + 1) hcs
    have h3 := pre_delim (content := content) htd a (d + 1 + cs.length) lc false (keyAt content b (d - b) :: uq) hterm
    have h := (h1.trans h2).trans h3
    simp only [List.length_cons]
    rw [show d + (cs.length + 1) + 1 = d + 1 + cs.length + 1 by omega,
        show d + (cs.length + 1) = d + 1 + cs.length by omega]
    refine h.cast ?_
    simp [nlEvs, List.append_assoc]

end EnumScan
