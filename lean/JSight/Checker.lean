import JSight.RulesFull
/-!
# C04 — the checker itself (model; core Lean only)

`checker.CheckRootSchema` (`notations/jschema/internal/checker/check_schema.go`, `c*.go`, `list.go`) over the
compiled schema: the node tree of the root and of every entry of the type table, every node with its JSON
type, its basis lexeme (`BasisLexEventOfSchemaForNode`: type, file, begin offset, token) and its constraint map
in insertion order. Transliterated:

* `checkNode`: per node `checkCompatibilityOfConstraints` (1117), `checkLinksOfNode` /
  `collectAllowedJsonTypes` with the path set `foundTypeNames` (1301, 1302, 1303), then by node class
  `checkLiteralNode` (the checker list of `list.go` — one checker per type root reached through the types
  list, every name expanded once —, every checker fed the node's OWN lexeme, `ValidateLiteralValue` of the
  validator for literal / or-member roots; all failed: the single checker's error, or 204 when there are
  several), `checkArrayItems`, `checkArrayNode` (608, 609 against the EXAMPLE's item count),
  `ensureShortcutKeysAreValid` / `actualRootTypeVisiting` (1302, 1304 at the KEY's lexeme),
  `checkAdditionalPropertiesConstraint` (1302); then the children of arrays and objects, in order.
  `defer lexeme.CatchLexEventError(lex)`: an `errors.Err` gets the node's lexeme — file and `Begin()`:
  for a literal the first byte of the token (`LiteralEnd.Begin()`), for an object / array the offset of the
  `{` / `[` (the basis lexeme stays `ObjectBegin` / `ArrayBegin`) —; any other panic value becomes code 0 there.
* `ValidateLiteralValue` (`internal/validator/validate_literal_value.go`): `checkNotAnEnum` (210), the
  `nullable` short cut, then the `LiteralValidator`s in `constraint.Type` order — each one through
  `RulesF.ruleOK` (the C02 model), plus WHICH error it panics with (602 603 606 607 610 … 616; a non-number
  under `min` / `max` / `precision` and an unguessable token under `enum` panic with a plain Go error: code 0).
* `CheckRootSchema`: the root first, then every type of the table in the order of `typeGoesFirst` (fix F-34: named
  types by name, unnamed `#%p` types first and among themselves by root file name, position of the root node, name);
  `checkType` adds `typ.Begin()` to the index and names the type (`SetIncorrectUserType`).
* The recursions through the type table (`collectAllowedJsonTypes`, `buildList`, `checkArrayItems`,
  `actualRootTypeVisiting`) carry fuel `|table| + 2`; running out of it is reported as `crash`
  (for `checkArrayItems` the code itself has no visited set: a cycle there IS a stack overflow).

Panics are explicit: `raw code` (`errors.Err`), `doc code file pos` (`errors.DocumentError`), `other`
(any other panic value), `crash`.
-/
namespace CK
open RulesF (Oracles Bytes)

/-- `json.Type` (`internal/json/json_type.go`), in declaration order -/
inductive JT | undefined | object | array | string | integer | float | boolean | null | mixed
  deriving DecidableEq, Repr, Inhabited

/-- `json.AllTypes` -/
def allTypes : List JT := [.object, .array, .string, .integer, .float, .boolean, .null, .mixed]

/-- the lexeme types the checkers test for -/
inductive LexT | litEnd | objEnd | arrEnd | other
  deriving DecidableEq, Repr, Inhabited

/-- a lexeme: type, file (0 = the root's file, i+1 = the file of the i-th added type), `Begin()`, `Value()` -/
structure Lex where
  ty : LexT
  file : Nat
  begin : Nat
  value : Bytes
  deriving DecidableEq, Repr, Inhabited

abbrev Name := List UInt8

/-- a constraint of a compiled node with the parameters the checker reads -/
inductive Cn
  | minLength (n : Nat)
  | maxLength (n : Nat)
  | min (raw : Bytes) (excl : Bool)
  | max (raw : Bytes) (excl : Bool)
  | exclusiveMinimum (b : Bool)
  | exclusiveMaximum (b : Bool)
  | precision (n : Nat)
  | type (v : Bytes)
  | typesList (names : List Name)
  | optional (b : Bool)
  | or
  | requiredKeys
  | email
  | minItems (n : Nat)
  | maxItems (n : Nat)
  | enum (items : List Bytes)
  | additionalProperties (mode : Nat) (typeName : Name)
  | allOf
  | any
  | nullable (b : Bool)
  | regex (expr : Bytes)
  | uri
  | date
  | datetime
  | uuid
  | const (apply : Bool) (nodeValue : Bytes)
  deriving DecidableEq, Repr, Inhabited

/-- `constraint.Type` (`schema/constraint/type.go`) as a number -/
def Cn.ty : Cn → Nat
  | .minLength _ => 0 | .maxLength _ => 1 | .min _ _ => 2 | .max _ _ => 3
  | .exclusiveMinimum _ => 4 | .exclusiveMaximum _ => 5 | .precision _ => 6 | .type _ => 7
  | .typesList _ => 8 | .optional _ => 9 | .or => 10 | .requiredKeys => 11 | .email => 12
  | .minItems _ => 13 | .maxItems _ => 14 | .enum _ => 15 | .additionalProperties _ _ => 16
  | .allOf => 17 | .any => 18 | .nullable _ => 19 | .regex _ => 20 | .uri => 21 | .date => 22
  | .datetime => 23 | .uuid => 24 | .const _ _ => 25

/-- node classes: `LiteralNode`, `MixedNode` (root of an or rule-set member), `MixedValueNode` (`@a`, `@a | @b`),
`ArrayNode`, `ObjectNode` -/
inductive NK | lit | mixed | mixedValue | arr | obj
  deriving DecidableEq, Repr, Inhabited

/-- an entry of `ObjectNode.Keys().Data` -/
structure Key where
  name : Name
  shortcut : Bool
  lex : Lex
  deriving DecidableEq, Repr, Inhabited

/-- what a node carries itself -/
structure Info where
  nk : NK
  jt : JT                       -- `node.Type()`
  lex : Lex                     -- `node.BasisLexEventOfSchemaForNode()`
  cs : List Cn                  -- `node.ConstraintMap()` in insertion order
  keys : List Key := []         -- objects
  gtypes : List Name := []      -- `MixedValueNode.GetTypes()`
  deriving DecidableEq, Repr, Inhabited

/-- a node as the node-local checks see it: `Info` and `Len()` -/
structure Hd where
  info : Info
  len : Nat
  deriving DecidableEq, Repr, Inhabited

inductive Node
  | mk (info : Info) (kids : List Node)
  deriving Repr, Inhabited

def Node.hd : Node → Hd
  | .mk i kids => ⟨i, kids.length⟩

def Node.info : Node → Info
  | .mk i _ => i

def Node.kids : Node → List Node
  | .mk _ kids => kids

/-- an entry of the type table: `schema.Type{schema, rootFile, begin}` under its name -/
structure TypeEntry where
  name : Name
  file : Nat
  begin : Nat
  fileName : Name := []         -- `RootFile().Name()`
  root : Node
  fileText : Name := []         -- `RootFile().Content()` (fix F-38; the checker dump leaves it empty: see `typeGoesFirst`)
  deriving Repr, Inhabited

/-- the root schema: its node tree (absent for an empty schema) and the type table (a Go map: any order) -/
structure Schema where
  root : Option Node
  types : List TypeEntry
  deriving Repr, Inhabited

/-! ### the order in which `CheckRootSchema` visits the type table (`typeGoesFirst`, fix F-34) -/

/-- Go's `a < b` on strings: bytewise lexicographic -/
def bytesLt : List UInt8 → List UInt8 → Bool
  | [], [] => false
  | [], _ :: _ => true
  | _ :: _, [] => false
  | a :: as, b :: bs => decide (a < b) || (a == b && bytesLt as bs)

/-- `strings.HasPrefix(name, "#")`: an unnamed type (`#%p`: an or-shortcut node, an or rule-set member) -/
def isUnnamed (n : Name) : Bool := n.head? == some 35

/-- `typeGoesFirst`: named types by name (`#` sorts before `@`: unnamed types first); two unnamed types by the place
in the text they were made from — name of the root file, `Begin()` of the root node's basis lexeme — and by name (an
address) only as a last resort; fix F-38 puts the TEXT of the files in front of that last resort (objects created
with equal file names). The tie `c04-model` creates every object with its own file name, where that branch cannot be
taken (equal names = the same file = equal texts); equal names with different texts are explored on the real code by
`c11-history` (multi-error stream, file-name modes) -/
def typeGoesFirst (a b : TypeEntry) : Bool :=
  if !isUnnamed a.name || !isUnnamed b.name then bytesLt a.name b.name
  else if a.fileName != b.fileName then bytesLt a.fileName b.fileName
  else if a.root.info.lex.begin != b.root.info.lex.begin then decide (a.root.info.lex.begin < b.root.info.lex.begin)
  else if a.fileText != b.fileText then bytesLt a.fileText b.fileText
  else bytesLt a.name b.name

def insertType (t : TypeEntry) : List TypeEntry → List TypeEntry
  | [] => [t]
  | u :: us => if typeGoesFirst t u then t :: u :: us else u :: insertType t us

/-- `sort.Slice(names, typeGoesFirst)` (the names of a map are distinct: the order is total, the result unique) -/
def sortTypes : List TypeEntry → List TypeEntry
  | [] => []
  | t :: ts => insertType t (sortTypes ts)

/-- the type table in the order `CheckRootSchema` visits it -/
def Schema.visit (s : Schema) : List TypeEntry := sortTypes s.types

/-- the type table as the node-local checks use it: name ↦ root node (class, JSON type, constraints, length) -/
structure Env where
  types : List (Name × Hd)

def Env.lookup (env : Env) (n : Name) : Option Hd := (env.types.find? (·.1 == n)).map (·.2)

def Schema.env (s : Schema) : Env := ⟨s.types.map fun t => (t.name, t.root.hd)⟩

def Env.fuel (env : Env) : Nat := env.types.length + 2

/-! ### panics -/

inductive Panic
  | raw (code : Nat)
  | doc (code file pos : Nat)
  | other
  | crash (why : String)
  deriving DecidableEq, Repr, Inhabited

/-- `lexeme.CatchLexEventError(lex)` -/
def catchLex (lex : Lex) : Panic → Panic
  | .raw c => .doc c lex.file lex.begin
  | .other => .doc 0 lex.file lex.begin
  | p => p

/-! ### constraint-map look-ups -/

def typesList? : List Cn → Option (List Name)
  | [] => none
  | .typesList ns :: _ => some ns
  | _ :: cs => typesList? cs

def hasTy (cs : List Cn) (t : Nat) : Bool := cs.any (·.ty == t)

def minItems? : List Cn → Option Nat
  | [] => none
  | .minItems n :: _ => some n
  | _ :: cs => minItems? cs

def maxItems? : List Cn → Option Nat
  | [] => none
  | .maxItems n :: _ => some n
  | _ :: cs => maxItems? cs

def addProps? : List Cn → Option (Nat × Name)
  | [] => none
  | .additionalProperties m n :: _ => some (m, n)
  | _ :: cs => addProps? cs

/-- the value of the `nullable` constraint (`BoolKeeper.Bool()`), `false` when absent -/
def nullableValue : List Cn → Bool
  | [] => false
  | .nullable b :: _ => b
  | _ :: cs => nullableValue cs

/-! ### `checkCompatibilityOfConstraints` -/

/-- `Constraint.IsJsonTypeCompatible` by constraint type -/
def compat (cty : Nat) (t : JT) : Bool :=
  match cty with
  | 0 | 1 | 12 | 20 | 21 | 22 | 23 | 24 => t == .string
  | 2 | 3 | 4 | 5 => t == .integer || t == .float
  | 6 => t == .float
  | 11 | 16 | 17 => t == .object
  | 13 | 14 => t == .array
  | 15 => t == .string || t == .boolean || t == .integer || t == .float || t == .null || t == .mixed
  | 25 => t != .object && t != .array
  | _ => true

def compatErr (i : Info) : Option Panic :=
  if i.nk == .mixed || i.nk == .mixedValue then none
  else if i.cs.any (fun c => !compat c.ty i.jt) then some (.raw 1117) else none

/-! ### `checkLinksOfNode` -/

/-- the loop over the names of a types list inside `collectAllowedJsonTypes`; `rec` = the recursive call -/
def collectNames (rec : List Name → Info → List JT → Except Panic (List JT)) (env : Env) (found : List Name) :
    List Name → List JT → Except Panic (List JT)
  | [], acc => .ok acc
  | n :: ns, acc =>
    if found.contains n then .error (.raw 1303)
    else match env.lookup n with
      | none => .error (.raw 1302)
      | some t =>
        match rec (n :: found) t.info acc with
        | .error e => .error e
        | .ok acc' => collectNames rec env found ns acc'

/-- `collectAllowedJsonTypes` -/
def collect (env : Env) : Nat → List Name → Info → List JT → Except Panic (List JT)
  | 0, _, _, _ => .error (.crash "collectAllowedJsonTypes")
  | f + 1, found, i, acc =>
    if i.nk == .mixedValue then
      match typesList? i.cs with
      | some names => if names.any (fun n => (env.lookup n).isNone) then .error (.raw 1302) else .ok (acc ++ allTypes)
      | none => .ok (acc ++ allTypes)
    else match typesList? i.cs with
      | none => .ok (acc ++ [i.jt])
      | some names => collectNames (collect env f) env found names acc

def linksErr (env : Env) (i : Info) : Option Panic :=
  match typesList? i.cs with
  | none => none
  | some _ =>
    match collect env env.fuel [] i [] with
    | .error p => some p
    | .ok allowed =>
      if i.nk == .mixed then none
      else if allowed.contains i.jt then none else some (.raw 1301)

/-! ### `ValidateLiteralValue` -/

/-- `Bytes.IsUserTypeName` -/
def isUserTypeName (b : Bytes) : Bool :=
  match b with
  | 64 :: c :: rest => (c :: rest).all fun c =>
      c == 45 || c == 95 || (97 ≤ c && c ≤ 122) || (65 ≤ c && c ≤ 90) || (48 ≤ c && c ≤ 57)
  | _ => false

def jtOfKind : Rules.Kind → JT
  | .i => .integer | .f => .float | .s => .string | .b => .boolean | .n => .null

/-- `json.Guess(value).LiteralJsonType()`; `none` = it panics -/
def literalJsonType (tok : Bytes) : Option JT :=
  match RulesF.kindOfTok tok with
  | some k => some (jtOfKind k)
  | none => if isUserTypeName tok then some .mixed else none

/-- `checkNotAnEnum` -/
def checkNotAnEnum (jt : JT) (cs : List Cn) (tok : Bytes) : Option Panic :=
  if hasTy cs 15 then none
  else match literalJsonType tok with
    | none => some .other
    | some d =>
      if d == jt || (d == .integer && jt == .float) || (d == .null && hasTy cs 19) then none
      else some (.raw 210)

/-- the `LiteralValidator` constraints as rules of the C02 model, with the token `const` compares with -/
def toRule : Cn → Option (RulesF.Rule × Bytes)
  | .minLength n => some (.minLength n, [])
  | .maxLength n => some (.maxLength n, [])
  | .min raw excl => some (.min raw excl, [])
  | .max raw excl => some (.max raw excl, [])
  | .precision n => some (.precision n, [])
  | .email => some (.fmt .email, [])
  | .enum items => some (.enum items, [])
  | .regex e => some (.regex e, [])
  | .uri => some (.fmt .uri, [])
  | .date => some (.fmt .date, [])
  | .datetime => some (.fmt .datetime, [])
  | .uuid => some (.fmt .uuid, [])
  | .const true v => some (.const, v)
  | _ => none

/-- what the constraint's `Validate` panics with when it does -/
def cnPanic (tok : Bytes) : Cn → Panic
  | .minLength _ | .maxLength _ => .raw 603
  | .min _ _ | .max _ _ | .precision _ => if (RulesF.number tok).isNone then .other else .raw 602
  | .email => if (Unquote.unquote tok).isEmpty then .raw 606 else .raw 607
  | .enum _ => if (RulesF.enumItem tok).isNone then .other else .raw 610
  | .regex _ => .raw 611
  | .uri => .raw 612
  | .datetime => .raw 613
  | .uuid => .raw 614
  | .const _ _ => .raw 615
  | .date => .raw 616
  | _ => .other

/-- one constraint's `Validate(value)`: `none` = it returns -/
def cnValidate (o : Oracles) (tok : Bytes) (c : Cn) : Option Panic :=
  match toRule c with
  | none => none
  | some (r, ex) => if RulesF.ruleOK o ex tok r then none else some (cnPanic tok c)

/-- the constraints in `constraint.Type` order (`sort.Ints(keys)`) -/
def sortedCs (cs : List Cn) : List Cn := (List.range 26).flatMap fun t => cs.filter (·.ty == t)

/-- `ValidateLiteralValue(node, value)`; `none` = it returns -/
def validateLiteralValue (o : Oracles) (jt : JT) (cs : List Cn) (tok : Bytes) : Option Panic :=
  match checkNotAnEnum jt cs tok with
  | some p => some p
  | none =>
    if nullableValue cs && tok == RulesF.sNull then none
    else (sortedCs cs).findSome? (cnValidate o tok)

/-! ### `checkLiteralNode` -/

/-- `nodeChecker`s -/
inductive Chk
  | lit (jt : JT) (cs : List Cn)
  | mixed (jt : JT) (cs : List Cn)
  | obj
  | arr
  deriving DecidableEq, Repr, Inhabited

/-- `newNodeChecker` -/
def newChecker (i : Info) : Option Chk :=
  match i.nk with
  | .lit => some (.lit i.jt i.cs)
  | .obj => some .obj
  | .arr => some .arr
  | .mixed => some (.mixed i.jt i.cs)
  | .mixedValue => none

/-- `appendTypeValidators`: every name not yet expanded; `rec` = `buildList` on the type's root -/
def buildNames (rec : Info → List Name × List Chk → Except Panic (List Name × List Chk)) (env : Env) :
    List Name → List Name × List Chk → Except Panic (List Name × List Chk)
  | [], st => .ok st
  | n :: ns, (added, l) =>
    if added.contains n then buildNames rec env ns (added, l)
    else match env.lookup n with
      | none => .error (.raw 1302)
      | some t =>
        match rec t.info (n :: added, l) with
        | .error e => .error e
        | .ok st' => buildNames rec env ns st'

/-- `nodeCheckerListConstructor.buildList` -/
def build (env : Env) : Nat → Info → List Name × List Chk → Except Panic (List Name × List Chk)
  | 0, _, _ => .error (.crash "buildList")
  | f + 1, i, (added, l) =>
    match typesList? i.cs with
    | some names => buildNames (build env f) env names (added, l)
    | none =>
      match newChecker i with
      | some c => .ok (added, l ++ [c])
      | none => .error (.raw 1)

def checkerList (env : Env) (i : Info) : Except Panic (List Chk) :=
  match build env env.fuel i ([], []) with
  | .error e => .error e
  | .ok st => .ok st.2

/-- `literalChecker.Check` / `mixedChecker.Check` / `objectChecker.Check` / `arrayChecker.Check` on the lexeme of
the node being checked: `none` = nil, `some (code)` = a DocumentError with that code AT THAT LEXEME -/
def Chk.check (o : Oracles) (lex : Lex) : Chk → Option Nat
  | .lit jt cs =>
    if lex.ty != .litEnd then some 1201
    else match validateLiteralValue o jt cs lex.value with
      | none => none
      | some (.raw c) => some c
      | some (.doc c _ _) => some c
      | some _ => some 0
  | .mixed jt cs =>
    if lex.ty == .litEnd then
      match validateLiteralValue o jt cs lex.value with
      | none => none
      | some (.raw c) => some c
      | some (.doc c _ _) => some c
      | some _ => some 0
    else none
  | .obj => if lex.ty != .objEnd then some 1201 else none
  | .arr => if lex.ty != .arrEnd then some 1201 else none

/-- the verdict of `checkLiteralNode` given the checker list -/
def literalVerdict (o : Oracles) (lex : Lex) (l : List Chk) : Option Panic :=
  if l.all (fun c => (c.check o lex).isSome) then
    match l with
    | [c] => (c.check o lex).map fun code => .doc code lex.file lex.begin
    | _ => some (.doc 204 lex.file lex.begin)
  else none

def literalErr (o : Oracles) (env : Env) (i : Info) : Option Panic :=
  match checkerList env i with
  | .error e => some e
  | .ok l => literalVerdict o i.lex l

/-! ### arrays -/

/-- the loop of `checkArrayItems` over the names of the types list -/
def arrayItemsNames (rec : Hd → Option Panic) (env : Env) : List Name → Option Panic
  | [] => none
  | n :: ns =>
    match env.lookup n with
    | none => some (.raw 1302)
    | some t =>
      if t.info.nk == .arr then
        match rec t with
        | some p => some p
        | none => arrayItemsNames rec env ns
      else arrayItemsNames rec env ns

/-- `checkArrayItems` -/
def arrayItems (env : Env) : Nat → Hd → Option Panic
  | 0, _ => some (.crash "checkArrayItems")
  | f + 1, h =>
    if h.len != 0 then none
    else if hasTy h.info.cs 18 then none
    else match typesList? h.info.cs with
      | none => none
      | some names => arrayItemsNames (arrayItems env f) env names

/-- `checkArrayNode`: `minItems` / `maxItems` against the number of items of the EXAMPLE -/
def arrayNodeErr (h : Hd) : Option Panic :=
  match minItems? h.info.cs with
  | some n => if h.len < n then some (.raw 608) else
    (match maxItems? h.info.cs with
     | some m => if h.len > m then some (.raw 609) else none
     | none => none)
  | none =>
    match maxItems? h.info.cs with
    | some m => if h.len > m then some (.raw 609) else none
    | none => none

/-! ### objects -/

/-- the loop of `actualRootTypeVisiting` over `GetTypes()`; `seen` = the set `types`, `last` = `tt` -/
def actualLoop (rec : List Name → Info → Option JT) (env : Env) (visiting : List Name) :
    List Name → List JT → Option JT → Option JT
  | [], seen, last => if seen.eraseDups.length == 1 then last else some .mixed
  | tn :: tns, seen, _ =>
    if visiting.contains tn then some .mixed
    else match env.lookup tn with
      | none => some .mixed
      | some t =>
        match rec (tn :: visiting) t.info with
        | none => none
        | some tt => actualLoop rec env visiting tns (tt :: seen) (some tt)

/-- `actualRootTypeVisiting`; `none` = out of fuel -/
def actualRoot (env : Env) : Nat → List Name → Info → Option JT
  | 0, _, _ => none
  | f + 1, visiting, i =>
    if i.jt != .mixed then some i.jt
    else if i.nk == .mixedValue then actualLoop (actualRoot env f) env visiting i.gtypes [] none
    else some .mixed

/-- `ensureShortcutKeysAreValid`: the error is built from the KEY's lexeme -/
def keysErr (env : Env) : List Key → Option Panic
  | [] => none
  | k :: ks =>
    if !k.shortcut then keysErr env ks
    else match env.lookup k.name with
      | none => some (.doc 1302 k.lex.file k.lex.begin)
      | some t =>
        match actualRoot env env.fuel [] t.info with
        | none => some (.crash "actualRootType")
        | some jt => if jt != .string then some (.doc 1304 k.lex.file k.lex.begin) else keysErr env ks

/-- `checkAdditionalPropertiesConstraint` -/
def addPropsErr (env : Env) (i : Info) : Option Panic :=
  match addProps? i.cs with
  | some (2, n) => if (env.lookup n).isNone then some (.raw 1302) else none
  | _ => none

/-! ### `checkNode` -/

def orElse (a : Option Panic) (b : Unit → Option Panic) : Option Panic :=
  match a with
  | some p => some p
  | none => b ()

/-- the node-local part of `checkNode` (everything before the loop over the children), as the panic that leaves
`checkNode` (after `CatchLexEventError`) -/
def nodeErr (o : Oracles) (env : Env) (h : Hd) : Option Panic :=
  let i := h.info
  (orElse (compatErr i) fun _ => orElse (linksErr env i) fun _ =>
    match i.nk with
    | .lit => literalErr o env i
    | .arr => orElse (arrayItems env env.fuel h) fun _ => arrayNodeErr h
    | .obj => orElse (keysErr env i.keys) fun _ => addPropsErr env i
    | .mixed | .mixedValue => none).map (catchLex i.lex)

def isBranch : NK → Bool
  | .arr | .obj => true
  | _ => false

mutual
/-- `checkNode`: the node, then its children in order; the first panic wins -/
def checkNode (o : Oracles) (env : Env) : Node → Option Panic
  | .mk i kids =>
    match nodeErr o env ⟨i, kids.length⟩ with
    | some p => some p
    | none => if isBranch i.nk then checkNodes o env kids else none
def checkNodes (o : Oracles) (env : Env) : List Node → Option Panic
  | [] => none
  | n :: ns =>
    match checkNode o env n with
    | some p => some p
    | none => checkNodes o env ns
end

/-! ### `CheckRootSchema` -/

/-- what `Check` returns because of the checker -/
inductive Res
  | ok
  | err (code file pos : Nat) (userType : Option Name)
  | crash (why : String)
  deriving DecidableEq, Repr, Inhabited

def panicRes (ut : Option Name) (shift : Nat) : Panic → Res
  | .doc c f p => .err c f (p + shift) ut
  | .raw c => .crash s!"errors.Err {c} without a lexeme"
  | .other => .crash "panic"
  | .crash w => .crash w

/-- `checkType` -/
def checkType (o : Oracles) (env : Env) (t : TypeEntry) : Option Res :=
  (checkNode o env t.root).map (panicRes (some t.name) t.begin)

def checkTypes (o : Oracles) (env : Env) : List TypeEntry → Res
  | [] => .ok
  | t :: ts =>
    match checkType o env t with
    | some r => r
    | none => checkTypes o env ts

/-- `CheckRootSchema` -/
def checkSchema (o : Oracles) (s : Schema) : Res :=
  match s.root with
  | some r =>
    (match checkNode o s.env r with
     | some p => panicRes none 0 p
     | none => checkTypes o s.env s.visit)
  | none => checkTypes o s.env s.visit

end CK
