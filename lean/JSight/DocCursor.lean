import JSight.JsonRun
/-!
# The `Document` object of formats/json/json.go as a state machine (C11, "document rewinds around Check / Len")

Transliteration of `formats/json/json.go` as of commit 8464556 (`Document`, `NextLexeme`, `Len` / `computeLen`, `Check` /
`check`, `nextLexeme` with the sticky `lexErr`, `rewind`) over an INCREMENTAL version of the JSON scanner (`scanner.Next`
of `formats/json/scanner.go`): the control step is the existing `JsonScan.step`; around it this file spells out what `Next`
keeps between calls (`finds`, `index`, the lexeme stack, `step`, `unfinishedLiteral`, the option bit of the scanner).

* `Scn.next`  one `scanner.Next()` seen through `nextLexeme`: a lexeme, the `EndTop` lexeme together with `io.EOF`, plain
  `io.EOF`, a `DocumentError` (code, index) recovered from the panic, or a non-error panic (`crash`).  What a panicking
  state function leaves behind in the scanner is NOT modelled any more: since the fix a scanner that panicked with an error
  is never stepped again (`nextL`: `lexErr` is answered first; `check` / `Length()` stop at the first error and a rewind
  follows).
* `nextL`     `Document.nextLexeme()`: the sticky error first; an error recovered from the scanner is stored.
* `Doc`       text, option bit, scanner, `lexErr`, `checkOnce` cell, `lenOnce` cell.  `rewind` clears `lexErr`, makes a new
  scanner and copies the option bit into it.  `Doc.new` = `FromFile` (options applied, then `rewind`).
* `Doc.step`  `NextLexeme` / `Check` / `Len`.  First `Check`: rewind, read until the first non-nil error counting
  lexemes, `ErrEmptyJson` when EOF came with none, the deferred rewind, result cached in the once cell; later calls
  answer from the cell and do not touch the scanner.  `Len`: same shape around `scanner.Length()`.
  A non-error panic inside the first call leaves the cell DONE with the zero value (`sync.Once` marks done in a
  deferred call; `e.err` / `e.value` were never assigned): `CheckRes.cached` / `LenRes.cached`.
Core Lean only.
-/
namespace DocCursor
open JsonScan

/-- the scanner between two `Next` calls -/
structure Scn where
  st : St := .foundRoot
  stack : List (LexT × Nat) := []
  unf : Bool := false
  finds : List LexT := []
  index : Nat := 0
  allow : Bool := false
  deriving DecidableEq, Repr

/-- outcome of one `Document.nextLexeme()` -/
inductive NextRes
  | lex (e : Ev)                -- (lex, nil)
  | eofLex (e : Ev)             -- (EndTop lexeme, io.EOF)
  | eof                         -- (LexEvent{}, io.EOF)
  | err (code pos : Nat)        -- a DocumentError recovered from the panic
  | crash (why : String)        -- a non-error panic: re-raised to the caller
  deriving DecidableEq, Repr

/-- `processingFoundLexeme(lexType)`; `s.finds` is already shifted -/
def processFound (s : Scn) (f : LexT) : NextRes × Scn :=
  let i := s.index - 1
  if f == .endTop then (.eofLex ⟨.endTop, i, i⟩, s)
  else if f.isOpening then (.lex ⟨f, i, i⟩, { s with stack := (f, i) :: s.stack })
  else match s.stack with
    | [] => (.crash "Reading from empty stack", s)
    | (p, b) :: rest =>
      let s' := { s with stack := rest }
      if (p == .objB && f == .objE) || (p == .arrB && f == .arrE) then (.lex ⟨f, b, i⟩, s')
      else if pairs p f then (.lex ⟨f, b, i - 1⟩, s')
      else (.crash "Incorrect ending of the lexical event", s')

/-- the part of `Next` behind the byte loop -/
def atEnd (n : Nat) (s : Scn) : NextRes × Scn :=
  match s.stack with
  | [] => (.eof, s)
  | (p, _) :: _ =>
    let s1 := { s with index := s.index + 1 }
    if p == .litB && !s.unf then processFound s1 .litE
    else (.err 303 (n - 1), s1)

/-- the byte loop of `Next`; `fuel` = bytes left -/
def scanLoop (cls : List Cls) : Nat → Scn → NextRes × Scn
  | 0, s => atEnd cls.length s
  | fuel + 1, s =>
    match cls[s.index]? with
    | none => atEnd cls.length s
    | some c =>
      let s1 := { s with index := s.index + 1 }
      match step s.allow s.st (s.stack.map (·.1)) s.unf c with
      | .error _ => (.err 301 s.index, s1)    -- the scanner is never stepped again before a rewind (`lexErr`)
      | .ok (st', unf', fs) =>
        let s2 := { s1 with st := st', unf := unf' }
        match fs with
        | [] => scanLoop cls fuel s2
        | f :: rest => processFound { s2 with finds := rest } f

/-- `scanner.Next()` seen through `Document.nextLexeme()` -/
def Scn.next (cls : List Cls) (s : Scn) : NextRes × Scn :=
  match s.finds with
  | f :: rest => processFound { s with finds := rest } f
  | [] => scanLoop cls (cls.length - s.index) s

/-- scanner and `lexErr` -/
abbrev Rd := Scn × Option (Nat × Nat)

/-- `Document.nextLexeme()` -/
def nextL (cls : List Cls) (p : Rd) : NextRes × Rd :=
  match p.2 with
  | some (c, q) => (.err c q, p)
  | none =>
    let r := p.1.next cls
    match r.1 with
    | .err c q => (.err c q, (r.2, some (c, q)))
    | x => (x, (r.2, none))

/-- the pre-fix `nextLexeme` (regression witness): the error is not kept, and the scanner is stepped again from where the
panic left it - here the part of that state the old code had already written is given explicitly for the one text of the
witness (`found(ObjectKeyBegin)` of `stateBeginKeyOrEmpty`) -/
def nextNotSticky (cls : List Cls) (p : Rd) : NextRes × Rd :=
  let r := p.1.next cls
  match r.1 with
  | .err c q => (.err c q, ({ r.2 with finds := if p.1.st == .objKeyOrEmpty then [.keyB] else [] }, none))
  | x => (x, (r.2, none))

inductive CheckRes
  | ok
  | err (code pos : Nat)
  | crash (why : String)
  deriving DecidableEq, Repr

inductive LenRes
  | ok (n : Nat)
  | err (code pos : Nat)
  | crash (why : String)
  deriving DecidableEq, Repr

/-- what the once cell holds after the first call -/
def CheckRes.cached : CheckRes → CheckRes
  | .crash _ => .ok
  | r => r
def LenRes.cached : LenRes → LenRes
  | .crash _ => .ok 0
  | r => r

/-- the `for` of `Document.check`; `seen` = `jsonLexCounter > 0` -/
def checkLoop (cls : List Cls) : Nat → Scn → Bool → CheckRes
  | 0, _, _ => .crash "fuel"
  | fuel + 1, s, seen =>
    match s.next cls with
    | (.lex _, s') => checkLoop cls fuel s' true
    | (.eofLex _, _) | (.eof, _) => if seen then .ok else .err 203 0
    | (.err c p, _) => .err c p
    | (.crash w, _) => .crash w

/-- the first `for` of `scanner.Length()` -/
def lenLoop (cls : List Cls) : Nat → Scn → Nat → LenRes
  | 0, _, _ => .crash "fuel"
  | fuel + 1, s, len =>
    match s.next cls with
    | (.lex e, s') => lenLoop cls fuel s' (e.e + 1)
    | (.eofLex e, _) => .ok e.e
    | (.eof, _) => .ok len
    | (.err c p, _) => .err c p
    | (.crash w, _) => .crash w

def clsOf (t : List UInt8) : List Cls := t.map classify

/-- fuel of the two loops; `DocCursorFuel.lean`: `7 * (bytes left) + 2 * |finds| + |stack|` decreases with every lexeme -/
def fuelOf (t : List UInt8) : Nat := 7 * t.length + 8

inductive Op | next | check | len
  deriving DecidableEq, Repr

inductive Out
  | next (r : NextRes)
  | check (r : CheckRes)
  | len (r : LenRes)
  deriving DecidableEq, Repr

structure Doc where
  text : List UInt8
  opt : Bool
  sc : Scn
  lexErr : Option (Nat × Nat) := none
  checkCell : Option CheckRes := none
  lenCell : Option LenRes := none
  deriving DecidableEq, Repr

/-- json.go:142-145 -/
def Doc.rewind (d : Doc) : Doc := { d with sc := { allow := d.opt }, lexErr := none }

/-- `FromFile`: the options are applied to the document, then `rewind` -/
def Doc.new (t : List UInt8) (o : Bool) : Doc := Doc.rewind { text := t, opt := o, sc := {} }

def Doc.runCheck (d : Doc) : CheckRes := checkLoop (clsOf d.text) (fuelOf d.text) d.sc false

def Doc.runLen (d : Doc) : LenRes :=
  match lenLoop (clsOf d.text) (fuelOf d.text) d.sc 0 with
  | .ok n => .ok (trimBlank d.text.toArray n)
  | r => r

def Doc.step (d : Doc) : Op → Out × Doc
  | .next =>
    let r := nextL (clsOf d.text) (d.sc, d.lexErr)
    (.next r.1, { d with sc := r.2.1, lexErr := r.2.2 })
  | .check =>
    match d.checkCell with
    | some r => (.check r, d)
    | none =>
      let d1 := d.rewind
      let r := d1.runCheck
      (.check r, { d1.rewind with checkCell := some r.cached })
  | .len =>
    match d.lenCell with
    | some r => (.len r, d)
    | none =>
      let d1 := d.rewind
      let r := d1.runLen
      (.len r, { d1.rewind with lenCell := some r.cached })

def Doc.run : Doc → List Op → List Out × Doc
  | d, [] => ([], d)
  | d, op :: ops =>
    let r := d.step op
    let rs := Doc.run r.2 ops
    (r.1 :: rs.1, rs.2)

/-! ## the specification side: functions of text and option alone -/

/-- `Check` of a document to which nothing was done -/
def checkText (t : List UInt8) (o : Bool) : CheckRes := ((Doc.new t o).step .check).1 |> fun
  | .check r => r
  | _ => .ok

/-- `Len` of a document to which nothing was done -/
def lenText (t : List UInt8) (o : Bool) : LenRes := ((Doc.new t o).step .len).1 |> fun
  | .len r => r
  | _ => .ok 0

/-- scanner and `lexErr` of a fresh document after `k` `NextLexeme` calls -/
def scanAt (t : List UInt8) (o : Bool) : Nat → Rd
  | 0 => ({ allow := o }, none)
  | k + 1 => (nextL (clsOf t) (scanAt t o k)).2

/-- what the `k`-th (from 0) `NextLexeme` of a fresh document delivers -/
def lexAt (t : List UInt8) (o : Bool) (k : Nat) : NextRes := (nextL (clsOf t) (scanAt t o k)).1

/-- the first `n` deliveries of a fresh document -/
def scanAll (t : List UInt8) (o : Bool) (n : Nat) : List NextRes := (List.range n).map (lexAt t o)

/-- the cursor (counted in `NextLexeme` calls since the scanner was last new): `c` / `l` = the once cells are done -/
def cursorFrom : Bool → Bool → Nat → List Op → Nat
  | _, _, k, [] => k
  | c, l, k, .next :: r => cursorFrom c l (k + 1) r
  | c, l, k, .check :: r => cursorFrom true l (if c then k else 0) r
  | c, l, k, .len :: r => cursorFrom c true (if l then k else 0) r

def cursorOf (ops : List Op) : Nat := cursorFrom false false 0 ops

def hasCheck (ops : List Op) : Bool := ops.contains .check
def hasLen (ops : List Op) : Bool := ops.contains .len

/-- the outputs of a history in closed form -/
def outsFrom (t : List UInt8) (o : Bool) : Bool → Bool → Nat → List Op → List Out
  | _, _, _, [] => []
  | c, l, k, .next :: r => .next (lexAt t o k) :: outsFrom t o c l (k + 1) r
  | c, l, k, .check :: r =>
    .check (if c then (checkText t o).cached else checkText t o) :: outsFrom t o true l (if c then k else 0) r
  | c, l, k, .len :: r =>
    .len (if l then (lenText t o).cached else lenText t o) :: outsFrom t o c true (if l then k else 0) r

/-- the document in closed form -/
def stateOf (t : List UInt8) (o : Bool) (c l : Bool) (k : Nat) : Doc :=
  { text := t, opt := o, sc := (scanAt t o k).1, lexErr := (scanAt t o k).2,
    checkCell := if c then some (checkText t o).cached else none,
    lenCell := if l then some (lenText t o).cached else none }

/-! ## the mutant: a `rewind` that forgets the option (regression witness) -/

def Doc.rewindDropping (d : Doc) : Doc := { d with sc := {}, lexErr := none }

/-- `Check` with the option-dropping rewind -/
def Doc.checkDropping (d : Doc) : CheckRes × Doc :=
  match d.checkCell with
  | some r => (r, d)
  | none =>
    let d1 := d.rewindDropping
    let r := d1.runCheck
    (r, { d1.rewindDropping with checkCell := some r.cached })

end DocCursor
