import JSight.Utf8Unquote
import Mathlib.Tactic.Ring
/-!
C02 proofs: the model `RulesF.litOKFull` (every scalar rule, as the Go code does them) accepts exactly what the
spec `RulesF.Accepts` says, for every rule set over scalar tokens and every scalar token of a JSON document.
-/
namespace RulesF
open Rules (Kind)

/-! ### numerals -/

theorem toCh_valid (bs : Bytes) : ∀ c ∈ toCh bs, Num.ValidCh c := by
  intro c hc
  simp only [toCh, List.mem_map] at hc
  obtain ⟨b, _, rfl⟩ := hc
  repeat' split
  all_goals first | trivial | skip
  rename_i h
  simp only [Bool.and_eq_true, decide_eq_true_eq] at h
  show b.toNat - 48 < 10
  have : b.toNat ≤ 57 := by simpa using (UInt8.le_iff_toNat_le.1 h.2)
  omega

def numByte (c : UInt8) : Bool :=
  c == 45 || c == 43 || c == 46 || c == 101 || c == 69 || (48 ≤ c && c ≤ 57)

theorem toCh_one_other (c : UInt8) (h : numByte c = false) : toCh [c] = [.other] := by
  unfold numByte at h
  simp only [Bool.or_eq_false_iff] at h
  obtain ⟨⟨⟨⟨⟨h1, h2⟩, h3⟩, h4⟩, h5⟩, h6⟩ := h
  have g1 : c ≠ 45 := by simpa using h1
  have g2 : c ≠ 43 := by simpa using h2
  have g3 : c ≠ 46 := by simpa using h3
  have g4 : c ≠ 101 := by simpa using h4
  have g5 : c ≠ 69 := by simpa using h5
  have g6 : ¬ (48 ≤ c ∧ c ≤ 57) := by simpa using h6
  simp [toCh, g1, g2, g3, g4, g5, g6]

theorem render_no_other (t : Num.Numeral) : Num.Ch.other ∉ t.render := by
  intro h
  unfold Num.Numeral.render at h
  simp only [List.mem_append, List.mem_cons, List.mem_map] at h
  rcases h with ((h | h) | h) | h
  · split at h <;> simp at h
  · rcases h with h | ⟨_, _, h⟩ <;> cases h
  · cases hf : t.frac with
    | none => rw [hf] at h; simp [Num.fracChars] at h
    | some p => rw [hf] at h; obtain ⟨f, fs⟩ := p; simp [Num.fracChars] at h
  · cases he : t.exp with
    | none => rw [he] at h; simp [Num.expChars] at h
    | some p =>
      rw [he] at h
      obtain ⟨s, d, ds⟩ := p
      cases s with
      | none => simp [Num.expChars] at h
      | some b => cases b <;> simp [Num.expChars] at h

theorem numeral_bytes (bs : Bytes) (h : IsNumeral bs) : ∀ c ∈ bs, numByte c = true := by
  obtain ⟨t, _, _, e⟩ := h
  have hno : Num.Ch.other ∉ toCh bs := by
    rw [e]; exact render_no_other t
  intro c hc
  by_contra hn
  have hn' : numByte c = false := by simpa using hn
  apply hno
  have := toCh_one_other c hn'
  simp only [toCh, List.map_cons, List.map_nil, List.cons.injEq, and_true] at this
  simp only [toCh, List.mem_map]
  exact ⟨c, hc, this⟩

theorem numeral_ne_nil (bs : Bytes) (h : IsNumeral bs) : bs ≠ [] := by
  obtain ⟨t, _, _, e⟩ := h
  intro hb
  rw [hb] at e
  have : t.render ≠ [] := by
    unfold Num.Numeral.render
    cases t.neg <;> simp
  exact this e.symm

theorem numeral_scan (bs : Bytes) (h : IsNumeral bs) : ∃ n, number bs = some n := by
  obtain ⟨t, hw, hz, e⟩ := h
  have := Num.scan_total t hw hz
  unfold number
  rw [e]
  exact Option.isSome_iff_exists.1 this


theorem numByte_facts (c : UInt8) (h : numByte c = true) :
    c ≠ 34 ∧ c ≠ 110 ∧ c ≠ 116 ∧ c ≠ 102 ∧ isBlank c = false := by
  refine ⟨?_, ?_, ?_, ?_, ?_⟩ <;> (try (intro e; subst e; revert h; decide))
  unfold numByte at h
  unfold isBlank
  simp only [Bool.or_eq_true, Bool.and_eq_true, beq_iff_eq, decide_eq_true_eq] at h
  rcases h with ((((h | h) | h) | h) | h) | h <;> (try (subst h; decide))
  have h1 := UInt8.le_iff_toNat_le.1 h.1
  have h2 := UInt8.le_iff_toNat_le.1 h.2
  simp only [UInt8.reduceToNat] at h1 h2
  have : ∀ k : UInt8, k.toNat < 48 → (c == k) = false := by
    intro k hk
    simp only [beq_eq_false_iff_ne, ne_eq]
    intro e; subst e; omega
  simp [this]

/-- the first byte of a numeral -/
theorem numeral_head (bs : Bytes) (h : IsNumeral bs) : ∃ c rest, bs = c :: rest ∧ numByte c = true := by
  cases bs with
  | nil => exact absurd rfl (numeral_ne_nil _ h)
  | cons c rest => exact ⟨c, rest, rfl, numeral_bytes _ h c (by simp)⟩

theorem numeral_not_quoted (bs : Bytes) (h : IsNumeral bs) : Unquote.inQuotes bs = false := by
  obtain ⟨c, rest, rfl, hc⟩ := numeral_head bs h
  have := (numByte_facts c hc).1
  simp [Unquote.inQuotes, this]

theorem numeral_not_word (bs : Bytes) (h : IsNumeral bs) : bs ≠ sTrue ∧ bs ≠ sFalse ∧ bs ≠ sNull := by
  obtain ⟨c, rest, rfl, hc⟩ := numeral_head bs h
  obtain ⟨_, h1, h2, h3, _⟩ := numByte_facts c hc
  refine ⟨?_, ?_, ?_⟩ <;> intro e <;> simp [sTrue, sFalse, sNull] at e <;> simp_all

theorem scan_other (cs : List Num.Ch) : Num.scan (.other :: cs) = none := by
  simp [Num.scan, Num.Sc.step]

theorem number_str (cs : List SCh) : number (STok.str cs).bytes = none := by
  rw [str_bytes]; unfold number
  have : toCh (34 :: (bytesOf cs ++ [34])) = .other :: toCh (bytesOf cs ++ [34]) := by simp [toCh]
  rw [this, scan_other]

theorem number_words : number sNull = none ∧ number sTrue = none ∧ number sFalse = none := by
  refine ⟨?_, ?_, ?_⟩ <;> (unfold number; simp [toCh, sNull, sTrue, sFalse, scan_other])


/-- `Cmp` of the two normal forms is the exact comparison of the two denoted values -/
theorem cmp_value (a b : Bytes) (x y : Num.N) (ha : number a = some x) (hb : number b = some y) :
    x.cmp y = Num.cmpDen (value a) (value b) :=
  Num.C10_cmp_exact _ _ (toCh_valid a) (toCh_valid b) x y ha hb

/-- `LengthOfFractionalPart ≤ p` iff the denoted value times `10^p` is an integer -/
theorem fracLen_value (bs : Bytes) (n : Num.N) (h : number bs = some n) (p : Nat) :
    n.exp ≤ p ↔ FracDigitsLE p (value bs) := by
  obtain ⟨_, hv, _⟩ := Num.scan_spec _ (toCh_valid bs) n h
  rw [Num.C10_fracLen _ (toCh_valid bs) n h p]
  unfold FracDigitsLE value
  generalize (Num.den (toCh bs)).t.toNat = T at *
  generalize (-(Num.den (toCh bs)).t).toNat = U at *
  generalize (Num.den (toCh bs)).mant = M at *
  have pe : (0 : Int) < 10 ^ n.exp := Num.tenpow_pos _
  have pT : (0 : Int) < 10 ^ T := Num.tenpow_pos _
  constructor
  · rintro ⟨z, hz⟩
    refine ⟨z, ?_⟩
    apply Int.eq_of_mul_eq_mul_right (Int.ne_of_gt pe)
    calc M * 10 ^ U * 10 ^ p * 10 ^ n.exp = (M * 10 ^ U * 10 ^ n.exp) * 10 ^ p := by ring
      _ = (n.mant * 10 ^ T) * 10 ^ p := by rw [hv]
      _ = (n.mant * 10 ^ p) * 10 ^ T := by ring
      _ = (z * 10 ^ n.exp) * 10 ^ T := by rw [hz]
      _ = z * 10 ^ T * 10 ^ n.exp := by ring
  · rintro ⟨z, hz⟩
    refine ⟨z, ?_⟩
    apply Int.eq_of_mul_eq_mul_right (Int.ne_of_gt pT)
    calc n.mant * 10 ^ p * 10 ^ T = (n.mant * 10 ^ T) * 10 ^ p := by ring
      _ = (M * 10 ^ U * 10 ^ n.exp) * 10 ^ p := by rw [hv]
      _ = (M * 10 ^ U * 10 ^ p) * 10 ^ n.exp := by ring
      _ = (z * 10 ^ T) * 10 ^ n.exp := by rw [hz]
      _ = z * 10 ^ n.exp * 10 ^ T := by ring


/-! ### the kind of a token -/

theorem tokKind_fun (tok : STok) (k k' : Kind) (h : tokKind tok k) (h' : tokKind tok k') : k' = k := by
  cases tok <;> simp only [tokKind] at h h' <;> try (rw [h, h'])
  rename_i bs
  split at h
  · rename_i hc; rw [if_pos hc] at h'; rw [h, h']
  · rename_i hc; rw [if_neg hc] at h'
    rcases h with ⟨a, rfl⟩ | ⟨a, rfl⟩ <;> rcases h' with ⟨b, rfl⟩ | ⟨b, rfl⟩ <;> first | rfl | exact absurd a b | exact absurd b a

theorem kind_wf (tok : STok) (h : tok.WF) : ∃ k, kindOfTok tok.bytes = some k ∧ tokKind tok k := by
  cases tok with
  | null => exact ⟨.n, by decide, rfl⟩
  | tru => exact ⟨.b, by decide, rfl⟩
  | fls => exact ⟨.b, by decide, rfl⟩
  | str cs => exact ⟨.s, by unfold kindOfTok; rw [str_inQuotes]; rfl, rfl⟩
  | num bs =>
    have hq := numeral_not_quoted bs h
    obtain ⟨w1, w2, w3⟩ := numeral_not_word bs h
    obtain ⟨n, hn⟩ := numeral_scan bs h
    have hk : kindOfTok bs = if hasDot bs && !hasExp bs then some .f else if n.exp == 0 then some .i else some .f := by
      unfold kindOfTok
      simp [hq, w1, w2, w3, hn]
    simp only [STok.bytes, tokKind, hk]
    have hf := fracLen_value bs n hn 0
    by_cases hd : (hasDot bs && !hasExp bs) = true
    · exact ⟨.f, by rw [if_pos hd], by rw [if_pos hd]⟩
    · by_cases he : n.exp = 0
      · refine ⟨.i, by rw [if_neg hd]; simp [he], ?_⟩
        rw [if_neg hd]; exact Or.inl ⟨hf.1 (by omega), rfl⟩
      · refine ⟨.f, by rw [if_neg hd]; simp [he], ?_⟩
        rw [if_neg hd]; exact Or.inr ⟨fun hc => he (by have := hf.2 hc; omega), rfl⟩

/-- the kind of a number token is integer or float -/
theorem tokKind_num (bs : Bytes) (k : Kind) (h : tokKind (.num bs) k) : k = .i ∨ k = .f := by
  simp only [tokKind] at h
  split at h
  · exact Or.inr h
  · rcases h with ⟨_, rfl⟩ | ⟨_, rfl⟩ <;> simp


/-! ### first bytes, trimming -/

/-- which of the five token forms -/
def STok.form : STok → Nat
  | .null => 0 | .tru => 1 | .fls => 2 | .str _ => 3 | .num _ => 4

theorem bytes_head (tok : STok) (h : tok.WF) : ∃ c r, tok.bytes = c :: r ∧
    (match tok with
     | .null => c = 110 | .tru => c = 116 | .fls => c = 102 | .str _ => c = 34 | .num _ => numByte c = true) := by
  cases tok with
  | null => exact ⟨110, _, rfl, rfl⟩
  | tru => exact ⟨116, _, rfl, rfl⟩
  | fls => exact ⟨102, _, rfl, rfl⟩
  | str cs => exact ⟨34, _, rfl, rfl⟩
  | num bs => obtain ⟨c, r, e, hc⟩ := numeral_head bs h; exact ⟨c, r, e, hc⟩

theorem bytes_ne (a b : STok) (ha : a.WF) (hb : b.WF) (hne : a.form ≠ b.form) : a.bytes ≠ b.bytes := by
  obtain ⟨c, r, e, hc⟩ := bytes_head a ha
  obtain ⟨c', r', e', hc'⟩ := bytes_head b hb
  intro heq
  rw [e, e'] at heq
  have hcc : c = c' := (List.cons.inj heq).1
  subst hcc
  cases a <;> cases b <;> simp only [STok.form, ne_eq, not_true_eq_false] at hne <;> simp only at hc hc' <;>
    first
    | (rw [hc] at hc'; revert hc'; decide)
    | (have := numByte_facts c hc; simp_all)
    | (have := numByte_facts c hc'; simp_all)

theorem trim_id (b : Bytes) (h1 : ∀ c, b.head? = some c → isBlank c = false)
    (h2 : ∀ c, b.getLast? = some c → isBlank c = false) : trimSpaces b = b := by
  unfold trimSpaces
  cases b with
  | nil => rfl
  | cons c r =>
    have hc := h1 c rfl
    have d1 : List.dropWhile isBlank (c :: r) = c :: r := by simp [List.dropWhile, hc]
    rw [d1]
    cases hr : (c :: r).reverse with
    | nil => simp at hr
    | cons l m =>
      have hl : (c :: r).getLast? = some l := by
        rw [← List.head?_reverse, hr]; rfl
      have := h2 l hl
      have d2 : List.dropWhile isBlank (l :: m) = l :: m := by simp [List.dropWhile, this]
      rw [d2, ← hr, List.reverse_reverse]

theorem trim_wf (tok : STok) (h : tok.WF) : trimSpaces tok.bytes = tok.bytes := by
  cases tok with
  | null => decide
  | tru => decide
  | fls => decide
  | str cs =>
    apply trim_id
    · intro c hc; rw [str_bytes] at hc; simp at hc; subst hc; decide
    · intro c hc
      rw [str_bytes, ← List.cons_append, List.getLast?_append] at hc
      simp at hc; subst hc; decide
  | num bs =>
    have hb := numeral_bytes bs h
    apply trim_id
    · intro c hc
      exact (numByte_facts c (hb c (List.mem_of_mem_head? hc))).2.2.2.2
    · intro c hc
      exact (numByte_facts c (hb c (List.mem_of_mem_getLast? hc))).2.2.2.2

/-- what `NewEnumItem` keeps of a token: the decoded text of a string, the source text of anything else -/
def payload : STok → Bytes
  | .str cs => text cs
  | t => t.bytes

theorem enumItem_wf (tok : STok) (h : tok.WF) :
    ∃ k, tokKind tok k ∧ kindOfTok tok.bytes = some k ∧ enumItem tok.bytes = some (payload tok, k) := by
  obtain ⟨k, hk, ht⟩ := kind_wf tok h
  refine ⟨k, ht, hk, ?_⟩
  unfold enumItem
  simp only [trim_wf tok h, hk]
  cases tok with
  | str cs =>
    have : k = .s := ht
    subst this
    simp [payload, unquote_str cs h]
  | null => have : k = .n := ht; subst this; rfl
  | tru => have : k = .b := ht; subst this; rfl
  | fls => have : k = .b := ht; subst this; rfl
  | num bs =>
    rcases tokKind_num bs k ht with rfl | rfl <;> rfl


/-! ### rule by rule -/

theorem number_nonnum (tok : STok) (hn : ∀ bs, tok ≠ .num bs) : number tok.bytes = none := by
  cases tok with
  | null => exact number_words.1
  | tru => exact number_words.2.1
  | fls => exact number_words.2.2
  | str cs => exact number_str cs
  | num bs => exact absurd rfl (hn bs)

theorem ord_ne (o : Ordering) (x : Ordering) : (o != x) = true ↔ o ≠ x := by
  cases o <;> cases x <;> decide

theorem min_iff (o : Oracles) (ex : STok) (b : Bytes) (excl : Bool) (hb : IsNumeral b) (tok : STok) (ht : tok.WF) :
    ruleOK o ex.bytes tok.bytes (.min b excl) = true ↔ Sat o ex (.min b excl) tok := by
  obtain ⟨m, hm⟩ := numeral_scan b hb
  cases tok with
  | num v =>
    obtain ⟨n, hn⟩ := numeral_scan v ht
    simp only [ruleOK, STok.bytes, hn, hm, Sat, SatWith, ← cmp_value b v m n hm hn]
    cases excl <;> simp
  | null => simp [ruleOK, STok.bytes, number_words.1, Sat, SatWith]
  | tru => simp [ruleOK, STok.bytes, number_words.2.1, Sat, SatWith]
  | fls => simp [ruleOK, STok.bytes, number_words.2.2, Sat, SatWith]
  | str cs => simp [ruleOK, number_str cs, Sat, SatWith]

theorem max_iff (o : Oracles) (ex : STok) (b : Bytes) (excl : Bool) (hb : IsNumeral b) (tok : STok) (ht : tok.WF) :
    ruleOK o ex.bytes tok.bytes (.max b excl) = true ↔ Sat o ex (.max b excl) tok := by
  obtain ⟨m, hm⟩ := numeral_scan b hb
  cases tok with
  | num v =>
    obtain ⟨n, hn⟩ := numeral_scan v ht
    simp only [ruleOK, STok.bytes, hn, hm, Sat, SatWith, ← cmp_value b v m n hm hn]
    cases excl <;> simp
  | null => simp [ruleOK, STok.bytes, number_words.1, Sat, SatWith]
  | tru => simp [ruleOK, STok.bytes, number_words.2.1, Sat, SatWith]
  | fls => simp [ruleOK, STok.bytes, number_words.2.2, Sat, SatWith]
  | str cs => simp [ruleOK, number_str cs, Sat, SatWith]

theorem precision_iff (o : Oracles) (ex : STok) (p : Nat) (tok : STok) (ht : tok.WF) :
    ruleOK o ex.bytes tok.bytes (.precision p) = true ↔ Sat o ex (.precision p) tok := by
  cases tok with
  | num v =>
    obtain ⟨n, hn⟩ := numeral_scan v ht
    simp only [ruleOK, STok.bytes, hn, Sat, SatWith, decide_eq_true_eq]
    exact fracLen_value v n hn p
  | null => simp [ruleOK, STok.bytes, number_words.1, Sat, SatWith]
  | tru => simp [ruleOK, STok.bytes, number_words.2.1, Sat, SatWith]
  | fls => simp [ruleOK, STok.bytes, number_words.2.2, Sat, SatWith]
  | str cs => simp [ruleOK, number_str cs, Sat, SatWith]

theorem email_iff (o : Oracles) (s : Bytes) : emailOK o s = true ↔ EmailSat o s := by
  unfold emailOK EmailSat
  cases s with
  | nil => simp
  | cons c r =>
    cases hl : (c :: r).getLast? with
    | none => simp at hl
    | some l =>
      simp only [List.head?_cons, ne_eq, reduceCtorEq, not_false_eq_true, true_and, Option.some.injEq,
        Bool.and_eq_true, Bool.not_eq_true', Bool.or_eq_false_iff, beq_eq_false_iff_ne]
      constructor
      · rintro ⟨⟨⟨h1, h2⟩, h3, h4⟩, h5⟩; exact ⟨h1, h2, h3, h4, h5⟩
      · rintro ⟨h1, h2, h3, h4, h5⟩; exact ⟨⟨⟨h1, h2⟩, h3, h4⟩, h5⟩

theorem fmt_iff (o : Oracles) (f : Fmt) (s : Bytes) : fmtOK o f s = true ↔ FmtSat o f s := by
  cases f <;> simp only [fmtOK, FmtSat]
  exact email_iff o s

/-- the length / regex / format rules on a string token -/
theorem string_rules_iff (o : Oracles) (ex : STok) (cs : List SCh) (ht : (STok.str cs).WF) :
    (∀ n, ruleOK o ex.bytes (STok.str cs).bytes (.minLength n) = true ↔ Sat o ex (.minLength n) (.str cs)) ∧
    (∀ n, ruleOK o ex.bytes (STok.str cs).bytes (.maxLength n) = true ↔ Sat o ex (.maxLength n) (.str cs)) ∧
    (∀ p, ruleOK o ex.bytes (STok.str cs).bytes (.regex p) = true ↔ Sat o ex (.regex p) (.str cs)) ∧
    (∀ f, ruleOK o ex.bytes (STok.str cs).bytes (.fmt f) = true ↔ Sat o ex (.fmt f) (.str cs)) := by
  have hu := unquote_str cs ht
  refine ⟨?_, ?_, ?_, ?_⟩ <;> intro x <;> simp only [ruleOK, hu, Sat, SatWith, decide_eq_true_eq]
  exact fmt_iff o x _


theorem words_ne : sTrue ≠ sFalse ∧ sNull ≠ sTrue ∧ sNull ≠ sFalse := by decide

/-- two items are the same `(value, jsonType)` pair exactly when they are equal as enum values -/
theorem enumItem_eq_iff (a b : STok) (ha : a.WF) (hb : b.WF) :
    enumItem a.bytes = enumItem b.bytes ↔ EnumEq a b := by
  obtain ⟨ka, ta, _, ea⟩ := enumItem_wf a ha
  obtain ⟨kb, tb, _, eb⟩ := enumItem_wf b hb
  rw [ea, eb]
  simp only [Option.some.injEq, Prod.mk.injEq]
  have hnum : ∀ bs k, tokKind (.num bs) k → k ≠ .n ∧ k ≠ .b ∧ k ≠ .s := by
    intro bs k h; rcases tokKind_num bs k h with rfl | rfl <;> simp
  cases a with
  | null =>
    have : ka = .n := ta
    subst this
    cases b with
    | null => have : kb = .n := tb; subst this; simp [EnumEq]
    | tru => have : kb = .b := tb; subst this; simp [EnumEq]
    | fls => have : kb = .b := tb; subst this; simp [EnumEq]
    | str y => have : kb = .s := tb; subst this; simp [EnumEq]
    | num y => have := hnum y kb tb; simp only [EnumEq, iff_false, not_and]; intro _ h; exact this.1 h.symm
  | tru =>
    have : ka = .b := ta
    subst this
    cases b with
    | null => have : kb = .n := tb; subst this; simp [EnumEq]
    | tru => have : kb = .b := tb; subst this; simp [EnumEq]
    | fls => have : kb = .b := tb; subst this; simp [EnumEq, payload, STok.bytes, words_ne.1]
    | str y => have : kb = .s := tb; subst this; simp [EnumEq]
    | num y => have := hnum y kb tb; simp only [EnumEq, iff_false, not_and]; intro _ h; exact this.2.1 h.symm
  | fls =>
    have : ka = .b := ta
    subst this
    cases b with
    | null => have : kb = .n := tb; subst this; simp [EnumEq]
    | tru => have : kb = .b := tb; subst this; simp [EnumEq, payload, STok.bytes, words_ne.1.symm]
    | fls => have : kb = .b := tb; subst this; simp [EnumEq]
    | str y => have : kb = .s := tb; subst this; simp [EnumEq]
    | num y => have := hnum y kb tb; simp only [EnumEq, iff_false, not_and]; intro _ h; exact this.2.1 h.symm
  | str x =>
    have : ka = .s := ta
    subst this
    cases b with
    | null => have : kb = .n := tb; subst this; simp [EnumEq]
    | tru => have : kb = .b := tb; subst this; simp [EnumEq]
    | fls => have : kb = .b := tb; subst this; simp [EnumEq]
    | str y => have : kb = .s := tb; subst this; simp [EnumEq, payload]
    | num y => have := hnum y kb tb; simp only [EnumEq, iff_false, not_and]; intro _ h; exact this.2.2 h.symm
  | num x =>
    have hx := hnum x ka ta
    cases b with
    | null => have : kb = .n := tb; subst this; simp only [EnumEq, iff_false, not_and]; intro _ h; exact hx.1 h
    | tru => have : kb = .b := tb; subst this; simp only [EnumEq, iff_false, not_and]; intro _ h; exact hx.2.1 h
    | fls => have : kb = .b := tb; subst this; simp only [EnumEq, iff_false, not_and]; intro _ h; exact hx.2.1 h
    | str y => have : kb = .s := tb; subst this; simp only [EnumEq, iff_false, not_and]; intro _ h; exact hx.2.2 h
    | num y =>
      simp only [EnumEq, payload, STok.bytes]
      constructor
      · exact fun h => h.1
      · intro h; subst h; exact ⟨rfl, tokKind_fun _ _ _ tb ta⟩


theorem enum_iff (o : Oracles) (ex : STok) (items : List STok) (hi : ∀ it ∈ items, it.WF) (tok : STok) (ht : tok.WF) :
    ruleOK o ex.bytes tok.bytes (SRule.enum items).toModel = true ↔ Sat o ex (.enum items) tok := by
  obtain ⟨k, _, _, e⟩ := enumItem_wf tok ht
  simp only [SRule.toModel, ruleOK, e, Sat, SatWith, List.any_map, List.any_eq_true, Function.comp, beq_iff_eq]
  constructor
  · rintro ⟨it, hm, h⟩
    exact ⟨it, hm, (enumItem_eq_iff it tok (hi it hm) ht).1 (by rw [h, e])⟩
  · rintro ⟨it, hm, h⟩
    exact ⟨it, hm, by rw [(enumItem_eq_iff it tok (hi it hm) ht).2 h, e]⟩

theorem inQuotes_wf (tok : STok) (h : tok.WF) : Unquote.inQuotes tok.bytes = (tok.form == 3) := by
  cases tok with
  | null => decide
  | tru => decide
  | fls => decide
  | str cs => rw [str_inQuotes]; rfl
  | num bs => rw [show (STok.num bs).bytes = bs from rfl, numeral_not_quoted bs h]; rfl

/-- `sameJSONValue` is equality of the two tokens' values -/
theorem const_iff (a b : STok) (ha : a.WF) (hb : b.WF) : sameJSONValue a.bytes b.bytes = true ↔ SameValue a b := by
  unfold sameJSONValue
  rw [inQuotes_wf a ha, inQuotes_wf b hb]
  by_cases hf : a.form = b.form
  · cases a <;> cases b <;> simp only [STok.form] at hf <;> try omega
    · simp [STok.form, STok.bytes, number_words.1, SameValue]
    · simp [STok.form, STok.bytes, number_words.2.1, SameValue]
    · simp [STok.form, STok.bytes, number_words.2.2, SameValue]
    · rename_i x y
      simp [STok.form, unquote_str x ha, unquote_str y hb, SameValue]
    · rename_i x y
      obtain ⟨n, hn⟩ := numeral_scan x ha
      obtain ⟨m, hm⟩ := numeral_scan y hb
      simp only [STok.form, STok.bytes, hn, hm, ← cmp_value x y n m hn hm, SameValue]
      simp
  · have hne := bytes_ne a b ha hb hf
    have hbq : (a.form == 3 && b.form == 3) = false := by
      cases a <;> cases b <;> simp [STok.form] at hf ⊢
    rw [hbq]
    have hnum : number a.bytes = none ∨ number b.bytes = none := by
      cases a with
      | num x =>
        right; apply number_nonnum; intro bs e; subst e; exact hf rfl
      | null => left; exact number_nonnum _ (by intro bs e; cases e)
      | tru => left; exact number_nonnum _ (by intro bs e; cases e)
      | fls => left; exact number_nonnum _ (by intro bs e; cases e)
      | str x => left; exact number_nonnum _ (by intro bs e; cases e)
    have hs : SameValue a b ↔ False := by
      cases a <;> cases b <;> simp [STok.form] at hf <;> simp [SameValue]
    rw [hs]
    simp only [Bool.false_eq_true, if_false, iff_false]
    rcases hnum with h | h <;> rw [h] <;> simp [hne]


/-! ### the whole validator -/

theorem hasEnum_toModel (S : SSpec) : hasEnum S.toModel = S.hasEnum := by
  unfold hasEnum SSpec.hasEnum SSpec.toModel
  simp only [List.any_map]
  congr 1
  funext r
  cases r <;> rfl

theorem tokKind_s (tok : STok) (h : tokKind tok .s) : ∃ cs, tok = .str cs := by
  cases tok with
  | str cs => exact ⟨cs, rfl⟩
  | null => cases h
  | tru => cases h
  | fls => cases h
  | num bs => rcases tokKind_num bs _ h with h | h <;> cases h

theorem tokKind_n (tok : STok) (h : tokKind tok .n) : tok = .null := by
  cases tok with
  | null => rfl
  | str cs => cases h
  | tru => cases h
  | fls => cases h
  | num bs => rcases tokKind_num bs _ h with h | h <;> cases h

theorem bytes_null_iff (tok : STok) (h : tok.WF) : tok.bytes = sNull ↔ tok = .null := by
  constructor
  · intro e
    by_contra hn
    have : tok.form ≠ STok.null.form := by cases tok <;> simp [STok.form] at hn ⊢
    exact bytes_ne tok .null h trivial this e
  · rintro rfl; rfl

/-- one rule of an applicable rule set, on a token of admissible kind -/
theorem rule_iff (o : Oracles) (S : SSpec) (hS : S.WF) (hA : S.applicable = true) (tok : STok) (ht : tok.WF)
    (hadm : Admissible S tok) (r : SRule) (hr : r ∈ S.rules) :
    ruleOK o S.ex.bytes tok.bytes r.toModel = true ↔ Sat o S.ex r tok := by
  have hw := hS.2 r hr
  unfold SSpec.applicable at hA
  simp only [Bool.and_eq_true, List.all_eq_true, Bool.or_eq_true, Bool.not_eq_true'] at hA
  have hfit := hA.1 r hr
  -- a string-family rule: the token is a string
  have hstr : S.kind = .s → (r.isEnum = false) → (∀ x, r ≠ .enum x) → r ≠ .const → ∃ cs, tok = .str cs := by
    intro hk _ hne hnc
    have hnoenum : S.hasEnum = false := by
      rcases hA.2 with h | h
      · exact h
      · have := h r hr
        cases r <;> simp at this <;> first | exact absurd rfl (hne _) | exact absurd rfl hnc
    rcases hadm with h | h | ⟨_, h⟩
    · rw [hnoenum] at h; cases h
    · rw [hk] at h; exact tokKind_s tok h
    · rw [hk] at h; cases h
  cases r with
  | min b x => exact min_iff o S.ex b x hw tok ht
  | max b x => exact max_iff o S.ex b x hw tok ht
  | precision p => exact precision_iff o S.ex p tok ht
  | enum items => exact enum_iff o S.ex items hw tok ht
  | const => exact const_iff tok S.ex ht hS.1
  | minLength n =>
    obtain ⟨cs, rfl⟩ := hstr (by simpa [SRule.fits] using hfit) rfl (by intro x h; cases h) (by intro h; cases h)
    exact (string_rules_iff o S.ex cs ht).1 n
  | maxLength n =>
    obtain ⟨cs, rfl⟩ := hstr (by simpa [SRule.fits] using hfit) rfl (by intro x h; cases h) (by intro h; cases h)
    exact (string_rules_iff o S.ex cs ht).2.1 n
  | regex p =>
    obtain ⟨cs, rfl⟩ := hstr (by simpa [SRule.fits] using hfit) rfl (by intro x h; cases h) (by intro h; cases h)
    exact (string_rules_iff o S.ex cs ht).2.2.1 p
  | fmt f =>
    obtain ⟨cs, rfl⟩ := hstr (by simpa [SRule.fits] using hfit) rfl (by intro x h; cases h) (by intro h; cases h)
    exact (string_rules_iff o S.ex cs ht).2.2.2 f

/-- **C02**: the validator accepts a scalar token iff it is a null admitted by `nullable: true`, or it has an
admissible kind and satisfies every rule -/
theorem accept_iff (o : Oracles) (S : SSpec) (hS : S.WF) (hA : S.applicable = true) (tok : STok) (ht : tok.WF) :
    litOKFull o S.toModel tok.bytes = true ↔ Accepts EnumEq o S tok := by
  obtain ⟨k, hk, tk⟩ := kind_wf tok ht
  have hrules : Admissible S tok →
      ((S.toModel.rules.all (ruleOK o S.toModel.ex tok.bytes)) = true ↔ ∀ r ∈ S.rules, Sat o S.ex r tok) := by
    intro hadm
    simp only [SSpec.toModel, List.all_map, List.all_eq_true, Function.comp]
    constructor
    · intro h r hr; exact (rule_iff o S hS hA tok ht hadm r hr).1 (h r hr)
    · intro h r hr; exact (rule_iff o S hS hA tok ht hadm r hr).2 (h r hr)
  unfold litOKFull kindGate Accepts
  rw [hasEnum_toModel, hk]
  simp only [Bool.and_eq_true, Bool.or_eq_true, beq_iff_eq]
  rw [bytes_null_iff tok ht]
  have hnul : S.toModel.nul = S.nul := rfl
  have hkind : S.toModel.kind = S.kind := rfl
  rw [hnul, hkind]
  constructor
  · rintro ⟨hg, hr⟩
    rcases hr with ⟨hn, rfl⟩ | hr
    · exact Or.inl ⟨rfl, hn⟩
    · rcases hg with he | (hg | ⟨h1, h2⟩) | ⟨h1, h2⟩
      · have hadm : Admissible S tok := Or.inl he
        exact Or.inr ⟨hadm, (hrules hadm).1 hr⟩
      · have hadm : Admissible S tok := Or.inr (Or.inl (hg ▸ tk))
        exact Or.inr ⟨hadm, (hrules hadm).1 hr⟩
      · have hadm : Admissible S tok := Or.inr (Or.inr ⟨h1 ▸ tk, h2⟩)
        exact Or.inr ⟨hadm, (hrules hadm).1 hr⟩
      · exact Or.inl ⟨tokKind_n tok (h1 ▸ tk), h2⟩
  · rintro (⟨rfl, hn⟩ | ⟨hadm, hr⟩)
    · have : k = .n := tk
      exact ⟨Or.inr (Or.inr ⟨this, hn⟩), Or.inl ⟨hn, rfl⟩⟩
    · refine ⟨?_, Or.inr ((hrules hadm).2 hr)⟩
      rcases hadm with h | h | ⟨h1, h2⟩
      · exact Or.inl h
      · exact Or.inr (Or.inl (Or.inl (tokKind_fun tok _ _ h tk)))
      · exact Or.inr (Or.inl (Or.inr ⟨tokKind_fun tok _ _ h1 tk, h2⟩))


/-! ### corollaries named by the property -/

/-- having at most `p` fractional digits is a property of the VALUE -/
theorem fracDigits_value (p : Nat) (a b : Num.Den) (h : Num.cmpDen a b = .eq) :
    FracDigitsLE p a → FracDigitsLE p b := by
  unfold Num.cmpDen at h
  have e := Int.compare_eq_eq.1 h
  rintro ⟨z, hz⟩
  refine ⟨z, ?_⟩
  have pT : (0 : Int) < 10 ^ a.t.toNat := Num.tenpow_pos _
  apply Int.eq_of_mul_eq_mul_right (Int.ne_of_gt pT)
  calc b.mant * 10 ^ (-b.t).toNat * 10 ^ p * 10 ^ a.t.toNat
      = (b.mant * 10 ^ (a.t.toNat + (-b.t).toNat)) * 10 ^ p := by rw [pow_add]; ring
    _ = (a.mant * 10 ^ (b.t.toNat + (-a.t).toNat)) * 10 ^ p := by rw [e]
    _ = (a.mant * 10 ^ (-a.t).toNat * 10 ^ p) * 10 ^ b.t.toNat := by rw [pow_add]; ring
    _ = (z * 10 ^ a.t.toNat) * 10 ^ b.t.toNat := by rw [hz]
    _ = z * 10 ^ b.t.toNat * 10 ^ a.t.toNat := by ring

theorem cmpDen_symm_eq (a b : Num.Den) (h : Num.cmpDen a b = .eq) : Num.cmpDen b a = .eq := by
  unfold Num.cmpDen at h ⊢
  exact Int.compare_eq_eq.2 (Int.compare_eq_eq.1 h).symm

/-- **precision** looks at the value only: two spellings of one number get one verdict -/
theorem precision_exact (o : Oracles) (ex : Bytes) (p : Nat) (a b : Bytes) (ha : IsNumeral a) (hb : IsNumeral b)
    (h : Num.cmpDen (value a) (value b) = .eq) :
    ruleOK o ex a (.precision p) = ruleOK o ex b (.precision p) := by
  have ia := precision_iff o (.num ex) p (.num a) ha
  have ib := precision_iff o (.num ex) p (.num b) hb
  simp only [STok.bytes, Sat, SatWith] at ia ib
  have : FracDigitsLE p (value a) ↔ FracDigitsLE p (value b) :=
    ⟨fracDigits_value p _ _ h, fracDigits_value p _ _ (cmpDen_symm_eq _ _ h)⟩
  rw [Bool.eq_iff_iff, ia, ib, this]

/-- **minLength / maxLength** count the UTF-8 bytes of the decoded string -/
theorem length_decoded (o : Oracles) (ex : Bytes) (cs : List SCh) (h : (STok.str cs).WF) (n : Nat) :
    ruleOK o ex (STok.str cs).bytes (.minLength n) = decide (n ≤ (text cs).length) ∧
    ruleOK o ex (STok.str cs).bytes (.maxLength n) = decide ((text cs).length ≤ n) := by
  simp only [ruleOK, unquote_str cs h, and_self]

/-- **const: true** is equality with the example BY VALUE -/
theorem const_by_value (o : Oracles) (ex tok : STok) (he : ex.WF) (ht : tok.WF) :
    ruleOK o ex.bytes tok.bytes .const = true ↔ SameValue tok ex := const_iff tok ex ht he

/-- **enum** is type-sensitive: a token of another form equals no item -/
theorem enum_type_sensitive (a b : STok) (h : a.form ≠ b.form) : ¬ EnumEq a b := by
  cases a <;> cases b <;> simp [STok.form] at h <;> simp [EnumEq]

/-- **null first**: a null admitted by `nullable: true` is accepted whatever the other rules are — for every
compiled node, applicable or not -/
theorem null_first (o : Oracles) (l : LitSpecF) (h : l.nul = true) : litOKFull o l sNull = true := by
  have hk : kindOfTok sNull = some .n := by decide
  unfold litOKFull kindGate
  rw [hk, h]
  simp

/-- the converse: without it a non-null node never takes `null` -/
theorem null_needs_nullable (o : Oracles) (l : LitSpecF) (h : l.nul = false) (hk : l.kind ≠ .n) (he : hasEnum l = false) :
    litOKFull o l sNull = false := by
  have hk' : kindOfTok sNull = some .n := by decide
  unfold litOKFull kindGate
  rw [hk', h, he]
  cases hl : l.kind <;> simp_all

/-! ### false-valued rules -/

theorem contains_insert (x y : RawRule) (a b : List RawRule) (h : x ≠ y) :
    (a ++ y :: b).contains x = (a ++ b).contains x := by
  simp only [List.contains_eq_mem, List.mem_append, List.mem_cons]
  have : x ≠ y := h
  simp [this]

/-- a rule whose value is `false` — nullable, const, exclusiveMinimum, exclusiveMaximum — may be written anywhere
in the annotation or left out: the compiled node is the same -/
theorem false_rules_inert (kind : Kind) (ex : Bytes) (a b : List RawRule) (x : RawRule)
    (hx : x = .nullable false ∨ x = .const false ∨ x = .exclusiveMinimum false ∨ x = .exclusiveMaximum false) :
    compile kind ex (a ++ x :: b) = compile kind ex (a ++ b) := by
  have c1 : ∀ y, y = RawRule.nullable true ∨ y = .exclusiveMinimum true ∨ y = .exclusiveMaximum true →
      (a ++ x :: b).contains y = (a ++ b).contains y := by
    intro y hy
    apply contains_insert
    rcases hx with rfl | rfl | rfl | rfl <;> rcases hy with rfl | rfl | rfl <;> simp
  have cr : ∀ r, compileRule (a ++ x :: b) r = compileRule (a ++ b) r := by
    intro r
    cases r <;> simp only [compileRule, c1 _ (Or.inr (Or.inl rfl)), c1 _ (Or.inr (Or.inr rfl))]
  have cx : compileRule (a ++ x :: b) x = none := by
    rcases hx with rfl | rfl | rfl | rfl <;> rfl
  unfold compile
  rw [c1 _ (Or.inl rfl)]
  congr 1
  have cf : compileRule (a ++ x :: b) = compileRule (a ++ b) := funext cr
  rw [List.filterMap_append, List.filterMap_cons, cx, List.filterMap_append, cf]



/-! ### the two known classes, as statements that are FALSE of the code -/

/-- a numeral of the whole RFC 8259 grammar, `0e1` included -/
def IsNumeralAll (bs : Bytes) : Prop := ∃ t : Num.Numeral, t.wf ∧ toCh bs = t.render

def STok.WFAll : STok → Prop
  | .str cs => ∀ c ∈ cs, c.ok
  | .num bs => IsNumeralAll bs
  | _ => True

/-- C02 for every numeral the JSON scanner delivers -/
def accept_iff_every_numeral : Prop :=
  ∀ (o : Oracles) (S : SSpec), S.WF → S.applicable = true → ∀ tok : STok, tok.WFAll →
    (litOKFull o S.toModel tok.bytes = true ↔ Accepts EnumEq o S tok)

def noOracle : Oracles := ⟨fun _ _ => false, fun _ => false, fun _ => false, fun _ => false⟩

theorem one_numeral : IsNumeral [49] :=
  ⟨⟨false, 1, [], none, none⟩, by simp [Num.Numeral.wf], by simp [Num.Numeral.zeroExp], by decide⟩

/-- K-C10-zeroexp: the schema `1` has no rules, `0e1` is the integer 0 — and is rejected -/
theorem accept_iff_every_numeral_false : ¬ accept_iff_every_numeral := by
  intro h
  have hS : (SSpec.mk .i (.num [49]) false []).WF := ⟨one_numeral, by simp⟩
  have := h noOracle ⟨.i, .num [49], false, []⟩ hS (by decide) (.num [48, 101, 49])
    ⟨⟨false, 0, [], none, some (none, 1, [])⟩, by simp [Num.Numeral.wf], by decide⟩
  have hm : litOKFull noOracle (SSpec.mk .i (.num [49]) false []).toModel (STok.num [48, 101, 49]).bytes = false := by
    decide +kernel
  rw [hm] at this
  apply Bool.false_ne_true
  apply this.2
  refine Or.inr ⟨Or.inr (Or.inl ?_), by simp⟩
  show tokKind (.num [48, 101, 49]) .i
  simp only [tokKind]
  rw [if_neg (by decide)]
  refine Or.inl ⟨⟨0, ?_⟩, trivial⟩
  decide +kernel


/-- C02 with enum membership of numbers BY VALUE (what C10 asks of numeric rules) -/
def accept_iff_enum_by_value : Prop :=
  ∀ (o : Oracles) (S : SSpec), S.WF → S.applicable = true → ∀ tok : STok, tok.WF →
    (litOKFull o S.toModel tok.bytes = true ↔ Accepts EnumEqV o S tok)

/-- the class K-C10-enumtext: an enum item and the token are numbers of one value, spelled differently -/
def numEqByValueOnly (it tok : STok) : Bool :=
  match it, tok with
  | .num a, .num b => (Num.cmpDen (value a) (value b) == .eq) && a != b
  | _, _ => false

def enumTextClass (S : SSpec) (tok : STok) : Bool :=
  S.rules.any fun r => match r with
    | .enum items => items.any (numEqByValueOnly · tok)
    | _ => false

theorem n250 : IsNumeral [50, 46, 53, 48] :=
  ⟨⟨false, 2, [], some (5, [0]), none⟩, by simp [Num.Numeral.wf], by simp [Num.Numeral.zeroExp], by decide⟩
theorem n25 : IsNumeral [50, 46, 53] :=
  ⟨⟨false, 2, [], some (5, []), none⟩, by simp [Num.Numeral.wf], by simp [Num.Numeral.zeroExp], by decide⟩

/-- K-C10-enumtext: `2.50 // {enum: [2.50]}` rejects `2.5` -/
theorem accept_iff_enum_by_value_false : ¬ accept_iff_enum_by_value := by
  intro h
  let S : SSpec := ⟨.f, .num [50, 46, 53, 48], false, [.enum [.num [50, 46, 53, 48]]]⟩
  have hS : S.WF := ⟨n250, by
    intro r hr
    simp only [S, List.mem_singleton] at hr
    subst hr
    intro it hi
    simp only [List.mem_singleton] at hi
    subst hi
    exact n250⟩
  have := h ⟨fun _ _ => false, fun _ => false, fun _ => false, fun _ => false⟩ S hS (by decide) (.num [50, 46, 53]) n25
  have hm : litOKFull ⟨fun _ _ => false, fun _ => false, fun _ => false, fun _ => false⟩ S.toModel
      (STok.num [50, 46, 53]).bytes = false := by decide +kernel
  rw [hm] at this
  apply Bool.false_ne_true
  apply this.2
  refine Or.inr ⟨Or.inl (by decide), ?_⟩
  intro r hr
  simp only [S, List.mem_singleton] at hr
  subst hr
  refine ⟨.num [50, 46, 53, 48], by simp, ?_, ?_⟩
  · decide +kernel
  · intro k
    simp only [tokKind]
    rw [if_pos (by decide), if_pos (by decide)]

theorem cmpDen_refl (a : Num.Den) : Num.cmpDen a a = .eq := by
  unfold Num.cmpDen; exact Int.compare_eq_eq.2 rfl

theorem enumEqV_iff (it tok : STok) (h : numEqByValueOnly it tok = false) : EnumEqV it tok ↔ EnumEq it tok := by
  cases it <;> cases tok <;> simp only [EnumEqV, EnumEq]
  rename_i a b
  simp only [numEqByValueOnly, Bool.and_eq_false_iff, beq_eq_false_iff_ne, bne_eq_false_iff_eq] at h
  constructor
  · rintro ⟨hc, _⟩
    rcases h with h | h
    · exact absurd hc h
    · exact h
  · rintro rfl
    exact ⟨cmpDen_refl _, fun k => Iff.rfl⟩

theorem accepts_byvalue_iff (o : Oracles) (S : SSpec) (tok : STok) (h : enumTextClass S tok = false) :
    Accepts EnumEqV o S tok ↔ Accepts EnumEq o S tok := by
  unfold Accepts
  have : ∀ r ∈ S.rules, SatWith EnumEqV o S.ex r tok ↔ SatWith EnumEq o S.ex r tok := by
    intro r hr
    unfold enumTextClass at h
    simp only [List.any_eq_false] at h
    have hr' := h r hr
    cases r with
    | enum items =>
      simp only [List.any_eq_true, not_exists, not_and, Bool.not_eq_true] at hr'
      simp only [SatWith]
      constructor
      · rintro ⟨it, hm, he⟩; exact ⟨it, hm, (enumEqV_iff it tok (hr' it hm)).1 he⟩
      · rintro ⟨it, hm, he⟩; exact ⟨it, hm, (enumEqV_iff it tok (hr' it hm)).2 he⟩
    | _ => cases tok <;> simp only [SatWith]
  constructor
  · rintro (h1 | ⟨h1, h2⟩)
    · exact Or.inl h1
    · exact Or.inr ⟨h1, fun r hr => (this r hr).1 (h2 r hr)⟩
  · rintro (h1 | ⟨h1, h2⟩)
    · exact Or.inl h1
    · exact Or.inr ⟨h1, fun r hr => (this r hr).2 (h2 r hr)⟩

/-- outside that class the by-value statement holds -/
theorem accept_iff_enum_by_value_partial (o : Oracles) (S : SSpec) (hS : S.WF) (hA : S.applicable = true)
    (tok : STok) (ht : tok.WF) (hc : enumTextClass S tok = false) :
    litOKFull o S.toModel tok.bytes = true ↔ Accepts EnumEqV o S tok := by
  rw [accepts_byvalue_iff o S tok hc]; exact accept_iff o S hS hA tok ht

end RulesF
