import JSight.LinksMain
/-!
C09 (c), termination of the link check: the four descents through the type table (`processType`,
`collectAllowedJsonTypes`, `buildList`, `actualRootTypeVisiting`) are modelled with a fuel argument; each keeps a
set of names (in-progress set / path set / added set) that strictly grows with every descent and only ever holds
names of the table. Hence `fuelOf g = |types| + 1` is enough for EVERY graph (accepted or not, cyclic or not):
the model never answers `fuel`, and more fuel never changes the answer.
-/
namespace LK

/-- table entries whose name is not in `V`: what a descent can still enter -/
def U (g : G) (V : List String) : Nat := g.types.countP (fun p => !V.contains p.1)

theorem U_le (g : G) (V : List String) : U g V ≤ g.types.length := List.countP_le_length

theorem U_mono (g : G) (V V' : List String) (h : ∀ x ∈ V, x ∈ V') : U g V' ≤ U g V := by
  unfold U
  apply List.countP_mono_left
  intro p _ hp
  have h1 : p.1 ∉ V' := by simpa using hp
  have h2 : p.1 ∉ V := fun hx => h1 (h _ hx)
  simpa using h2

theorem U_lt_aux (l : List (String × N)) (V : List String) (n : String) (t : N)
    (hl : (l.find? (·.1 == n)).map (·.2) = some t) (hn : n ∉ V) :
    l.countP (fun p => !(n :: V).contains p.1) < l.countP (fun p => !V.contains p.1) := by
  induction l with
  | nil => simp at hl
  | cons p ps ih =>
    rw [List.countP_cons, List.countP_cons]
    have hm : ps.countP (fun p => !(n :: V).contains p.1) ≤ ps.countP (fun p => !V.contains p.1) := by
      apply List.countP_mono_left
      intro q _ hq
      have h1 : q.1 ∉ n :: V := by simpa using hq
      have h2 : q.1 ∉ V := fun hx => h1 (List.mem_cons_of_mem _ hx)
      simpa using h2
    by_cases hp : (p.1 == n) = true
    · have e : p.1 = n := by simpa using hp
      have h1 : (!(n :: V).contains p.1) = false := by simp [e]
      have h2 : (!V.contains p.1) = true := by simpa [e] using hn
      rw [h1, h2]; simp only [Bool.false_eq_true, if_false, if_true]; omega
    · have hl' : (ps.find? (fun p => p.1 == n)).map (·.2) = some t := by
        simpa [List.find?_cons, hp] using hl
      have hlt := ih hl'
      have hne : p.1 ≠ n := by simpa using hp
      have hsame : (!(n :: V).contains p.1) = (!V.contains p.1) := by
        simp [hne]
      rw [hsame]; omega

theorem U_lt (g : G) (V : List String) (n : String) (t : N) (hl : lookup g n = some t) (hn : n ∉ V) :
    U g (n :: V) < U g V := U_lt_aux g.types V n t hl hn

theorem not_mem_of_contains_false {V : List String} {n : String} (h : ¬ V.contains n = true) : n ∉ V := by
  simpa using h

/-! ### `collectAllowedJsonTypes` -/

theorem collectNames_noFuel (g : G) (rec : List String → N → List JT → Except Err (List JT)) (found : List String)
    (hrec : ∀ n body al, n ∉ found → lookup g n = some body → rec (n :: found) body al ≠ .error .fuel) :
    ∀ (ms : List Mem) (al : List JT), collectNames g rec found ms al ≠ .error .fuel
  | [], al => by simp [collectNames]
  | .builtin jt :: ms, al => by
    simp only [collectNames]; exact collectNames_noFuel g rec found hrec ms _
  | .user n :: ms, al => by
    unfold collectNames
    by_cases hf : found.contains n = true
    · rw [if_pos hf]; intro h; cases h
    · rw [if_neg hf]
      cases hl : lookup g n with
      | none => intro h; cases h
      | some body =>
        simp only
        cases h1 : rec (n :: found) body al with
        | error e =>
          simp only
          intro h
          simp only [Except.error.injEq] at h
          subst h
          exact hrec n body al (not_mem_of_contains_false hf) hl h1
        | ok al1 => exact collectNames_noFuel g rec found hrec ms al1

theorem collectRoot_noFuel (g : G) : ∀ (f : Nat) (found : List String) (body : N) (al : List JT),
    U g found < f → collectRoot g f found body al ≠ .error .fuel
  | f, found, .ref names, al, _ => by
    simp only [collectRoot]
    cases h1 : mustAll g names with
    | error e =>
      obtain ⟨m, rfl⟩ := mustAll_only_missing g names e h1
      intro h; cases h
    | ok u => intro h; cases h
  | f, found, .arr _, al, _ => by simp [collectRoot]
  | f, found, .obj _ _ _, al, _ => by simp [collectRoot]
  | 0, found, .lit jt tl e, al, h => by omega
  | f + 1, found, .lit jt tl e, al, h => by
    unfold collectRoot
    cases hm : tl.members with
    | nil => simp
    | cons x xs =>
      simp only
      apply collectNames_noFuel
      intro n body al' hn hl
      apply collectRoot_noFuel g f (n :: found) body al'
      have := U_lt g found n body hl hn
      omega

/-- more fuel for the callee does not change a result that is not `fuel` -/
def ExtC (rec1 rec2 : List String → N → List JT → Except Err (List JT)) : Prop :=
  ∀ found body al r, rec1 found body al = r → r ≠ .error .fuel → rec2 found body al = r

theorem collectNames_ext (g : G) (rec1 rec2 : List String → N → List JT → Except Err (List JT)) (hx : ExtC rec1 rec2) :
    ∀ (ms : List Mem) (found : List String) (al : List JT) (r : Except Err (List JT)),
      collectNames g rec1 found ms al = r → r ≠ .error .fuel → collectNames g rec2 found ms al = r
  | [], found, al, r, h, _ => by simpa [collectNames] using h
  | .builtin jt :: ms, found, al, r, h, hr => by
    simp only [collectNames] at h ⊢
    exact collectNames_ext g rec1 rec2 hx ms found _ r h hr
  | .user n :: ms, found, al, r, h, hr => by
    unfold collectNames at h ⊢
    by_cases hf : found.contains n = true
    · rw [if_pos hf] at h ⊢; exact h
    · rw [if_neg hf] at h ⊢
      cases hl : lookup g n with
      | none => simpa [hl] using h
      | some body =>
        simp only [hl] at h ⊢
        cases h1 : rec1 (n :: found) body al with
        | error e =>
          simp only [h1] at h
          have he : e ≠ .fuel := by
            intro e1; subst e1; exact hr h.symm
          rw [hx _ _ _ _ h1 (by intro h2; cases h2; exact he rfl)]
          exact h
        | ok al1 =>
          simp only [h1] at h
          rw [hx _ _ _ _ h1 (by intro h2; cases h2)]
          exact collectNames_ext g rec1 rec2 hx ms found al1 r h hr

theorem collectRoot_succ (g : G) : ∀ f, ExtC (collectRoot g f) (collectRoot g (f + 1))
  | f, found, .ref names, al, r, h, _ => by simpa [collectRoot] using h
  | f, found, .arr _, al, r, h, _ => by simpa [collectRoot] using h
  | f, found, .obj _ _ _, al, r, h, _ => by simpa [collectRoot] using h
  | 0, found, .lit jt tl e, al, r, h, hr => by
    unfold collectRoot at h ⊢
    cases hm : tl.members with
    | nil => simpa [hm] using h
    | cons x xs =>
      simp only [hm] at h
      exact absurd h.symm hr
  | f + 1, found, .lit jt tl e, al, r, h, hr => by
    unfold collectRoot at h ⊢
    cases hm : tl.members with
    | nil => simpa [hm] using h
    | cons x xs =>
      simp only [hm] at h ⊢
      exact collectNames_ext g _ _ (collectRoot_succ g f) (x :: xs) found al r h hr

theorem collectRoot_le (g : G) (f f' : Nat) (hle : f ≤ f') : ExtC (collectRoot g f) (collectRoot g f') := by
  induction hle with
  | refl => intro _ _ _ _ h _; exact h
  | step _ ih =>
    intro found body al r h hr
    exact collectRoot_succ g _ found body al r (ih found body al r h hr) hr

/-! ### `buildList` -/

theorem buildNames_sub (g : G) (rec : N → List String → Except Err (List String))
    (hrec : ∀ body a a1, rec body a = .ok a1 → ∀ x ∈ a, x ∈ a1) :
    ∀ (ms : List Mem) (added r : List String), buildNames g rec ms added = .ok r → ∀ x ∈ added, x ∈ r
  | [], added, r, h => by
    simp only [buildNames, Except.ok.injEq] at h; subst h; exact fun _ hx => hx
  | .builtin _ :: ms, added, r, h => by
    simp only [buildNames] at h; exact buildNames_sub g rec hrec ms added r h
  | .user n :: ms, added, r, h => by
    unfold buildNames at h
    by_cases hf : added.contains n = true
    · rw [if_pos hf] at h; exact buildNames_sub g rec hrec ms added r h
    · rw [if_neg hf] at h
      cases hl : lookup g n with
      | none => simp [hl] at h
      | some body =>
        simp only [hl] at h
        cases h1 : rec body (n :: added) with
        | error e => simp [h1] at h
        | ok a1 =>
          simp only [h1] at h
          intro x hx
          exact buildNames_sub g rec hrec ms a1 r h x (hrec body _ a1 h1 x (List.mem_cons_of_mem _ hx))

theorem buildRoot_sub (g : G) : ∀ (f : Nat) (body : N) (a a1 : List String), buildRoot g f body a = .ok a1 →
    ∀ x ∈ a, x ∈ a1
  | f, .arr _, a, a1, h => by
    cases f <;> (simp only [buildRoot, Except.ok.injEq] at h; subst h; exact fun _ hx => hx)
  | f, .obj _ _ _, a, a1, h => by
    cases f <;> (simp only [buildRoot, Except.ok.injEq] at h; subst h; exact fun _ hx => hx)
  | 0, .lit jt tl e, a, a1, h => by
    unfold buildRoot at h
    cases hm : tl.members with
    | nil => simp only [hm, Except.ok.injEq] at h; subst h; exact fun _ hx => hx
    | cons x xs => simp [hm] at h
  | f + 1, .lit jt tl e, a, a1, h => by
    unfold buildRoot at h
    cases hm : tl.members with
    | nil => simp only [hm, Except.ok.injEq] at h; subst h; exact fun _ hx => hx
    | cons x xs =>
      simp only [hm] at h
      exact buildNames_sub g _ (buildRoot_sub g f) (x :: xs) a a1 h
  | 0, .ref names, a, a1, h => by
    unfold buildRoot at h
    cases names with
    | nil => simp only [Except.ok.injEq] at h; subst h; exact fun _ hx => hx
    | cons x xs => simp at h
  | f + 1, .ref names, a, a1, h => by
    unfold buildRoot at h
    cases names with
    | nil => simp only [Except.ok.injEq] at h; subst h; exact fun _ hx => hx
    | cons x xs =>
      simp only at h
      exact buildNames_sub g _ (buildRoot_sub g f) _ a a1 h

theorem buildNames_noFuel (g : G) (rec : N → List String → Except Err (List String)) (bound : Nat)
    (hsub : ∀ body a a1, rec body a = .ok a1 → ∀ x ∈ a, x ∈ a1)
    (hrec : ∀ n body a, U g a ≤ bound → n ∉ a → lookup g n = some body → rec body (n :: a) ≠ .error .fuel) :
    ∀ (ms : List Mem) (added : List String), U g added ≤ bound → buildNames g rec ms added ≠ .error .fuel
  | [], added, _ => by simp [buildNames]
  | .builtin _ :: ms, added, hb => by
    simp only [buildNames]; exact buildNames_noFuel g rec bound hsub hrec ms added hb
  | .user n :: ms, added, hb => by
    unfold buildNames
    by_cases hf : added.contains n = true
    · rw [if_pos hf]; exact buildNames_noFuel g rec bound hsub hrec ms added hb
    · rw [if_neg hf]
      cases hl : lookup g n with
      | none => intro h; cases h
      | some body =>
        simp only
        cases h1 : rec body (n :: added) with
        | error e =>
          simp only
          intro h
          simp only [Except.error.injEq] at h
          subst h
          exact hrec n body added hb (not_mem_of_contains_false hf) hl h1
        | ok a1 =>
          simp only
          apply buildNames_noFuel g rec bound hsub hrec ms a1
          have := U_mono g added a1 (fun x hx => hsub body _ a1 h1 x (List.mem_cons_of_mem _ hx))
          omega

theorem buildRoot_noFuel (g : G) : ∀ (f : Nat) (body : N) (added : List String),
    U g added < f → buildRoot g f body added ≠ .error .fuel
  | f, .arr _, added, _ => by cases f <;> simp [buildRoot]
  | f, .obj _ _ _, added, _ => by cases f <;> simp [buildRoot]
  | 0, .lit jt tl e, added, h => by omega
  | 0, .ref names, added, h => by omega
  | f + 1, .lit jt tl e, added, h => by
    unfold buildRoot
    cases hm : tl.members with
    | nil => simp
    | cons x xs =>
      simp only
      apply buildNames_noFuel g _ (U g added) (buildRoot_sub g f) _ _ added (Nat.le_refl _)
      intro n body a hb hn hl
      apply buildRoot_noFuel g f body (n :: a)
      have := U_lt g a n body hl hn
      omega
  | f + 1, .ref names, added, h => by
    unfold buildRoot
    cases names with
    | nil => simp
    | cons x xs =>
      simp only
      apply buildNames_noFuel g _ (U g added) (buildRoot_sub g f) _ _ added (Nat.le_refl _)
      intro n body a hb hn hl
      apply buildRoot_noFuel g f body (n :: a)
      have := U_lt g a n body hl hn
      omega

def ExtB (rec1 rec2 : N → List String → Except Err (List String)) : Prop :=
  ∀ body a r, rec1 body a = r → r ≠ .error .fuel → rec2 body a = r

theorem buildNames_ext (g : G) (rec1 rec2 : N → List String → Except Err (List String)) (hx : ExtB rec1 rec2) :
    ∀ (ms : List Mem) (added : List String) (r : Except Err (List String)),
      buildNames g rec1 ms added = r → r ≠ .error .fuel → buildNames g rec2 ms added = r
  | [], added, r, h, _ => by simpa [buildNames] using h
  | .builtin _ :: ms, added, r, h, hr => by
    simp only [buildNames] at h ⊢
    exact buildNames_ext g rec1 rec2 hx ms added r h hr
  | .user n :: ms, added, r, h, hr => by
    unfold buildNames at h ⊢
    by_cases hf : added.contains n = true
    · rw [if_pos hf] at h ⊢; exact buildNames_ext g rec1 rec2 hx ms added r h hr
    · rw [if_neg hf] at h ⊢
      cases hl : lookup g n with
      | none => simpa [hl] using h
      | some body =>
        simp only [hl] at h ⊢
        cases h1 : rec1 body (n :: added) with
        | error e =>
          simp only [h1] at h
          have he : e ≠ .fuel := by
            intro e1; subst e1; exact hr h.symm
          rw [hx _ _ _ h1 (by intro h2; cases h2; exact he rfl)]
          exact h
        | ok a1 =>
          simp only [h1] at h
          rw [hx _ _ _ h1 (by intro h2; cases h2)]
          exact buildNames_ext g rec1 rec2 hx ms a1 r h hr

theorem buildRoot_succ (g : G) : ∀ f, ExtB (buildRoot g f) (buildRoot g (f + 1))
  | f, .arr _, a, r, h, _ => by cases f <;> simpa [buildRoot] using h
  | f, .obj _ _ _, a, r, h, _ => by cases f <;> simpa [buildRoot] using h
  | 0, .lit jt tl e, a, r, h, hr => by
    unfold buildRoot at h ⊢
    cases hm : tl.members with
    | nil => simpa [hm] using h
    | cons x xs =>
      simp only [hm] at h
      exact absurd h.symm hr
  | f + 1, .lit jt tl e, a, r, h, hr => by
    unfold buildRoot at h ⊢
    cases hm : tl.members with
    | nil => simpa [hm] using h
    | cons x xs =>
      simp only [hm] at h ⊢
      exact buildNames_ext g _ _ (buildRoot_succ g f) (x :: xs) a r h hr
  | 0, .ref names, a, r, h, hr => by
    unfold buildRoot at h ⊢
    cases names with
    | nil => simpa using h
    | cons x xs =>
      simp only at h
      exact absurd h.symm hr
  | f + 1, .ref names, a, r, h, hr => by
    unfold buildRoot at h ⊢
    cases names with
    | nil => simpa using h
    | cons x xs =>
      simp only at h ⊢
      exact buildNames_ext g _ _ (buildRoot_succ g f) _ a r h hr

theorem buildRoot_le (g : G) (f f' : Nat) (hle : f ≤ f') : ExtB (buildRoot g f) (buildRoot g f') := by
  induction hle with
  | refl => intro _ _ _ h _; exact h
  | step _ ih =>
    intro body a r h hr
    exact buildRoot_succ g _ body a r (ih body a r h hr) hr

/-! ### `actualRootTypeVisiting` -/

theorem actualNames_noFuel (g : G) (rec : List String → N → Except Err JT) (vis : List String)
    (hrec : ∀ n body, n ∉ vis → lookup g n = some body → rec (n :: vis) body ≠ .error .fuel) :
    ∀ (tns : List String) (acc : List JT), actualNames g rec vis tns acc ≠ .error .fuel
  | [], acc => by simp [actualNames]
  | tn :: tns, acc => by
    unfold actualNames
    by_cases hv : vis.contains tn = true
    · rw [if_pos hv]; intro h; cases h
    · rw [if_neg hv]
      cases hl : lookup g tn with
      | none => intro h; cases h
      | some body =>
        simp only
        cases h1 : rec (tn :: vis) body with
        | error e =>
          simp only
          intro h
          simp only [Except.error.injEq] at h
          subst h
          exact hrec tn body (not_mem_of_contains_false hv) hl h1
        | ok tt => exact actualNames_noFuel g rec vis hrec tns (tt :: acc)

theorem actualType_noFuel (g : G) : ∀ (f : Nat) (vis : List String) (body : N),
    U g vis < f → actualType g f vis body ≠ .error .fuel
  | f, vis, .lit jt tl e, _ => by cases f <;> simp [actualType]
  | f, vis, .arr items, _ => by cases f <;> simp [actualType]
  | f, vis, .obj ao ap ps, _ => by cases f <;> simp [actualType]
  | 0, vis, .ref names, h => by omega
  | f + 1, vis, .ref names, h => by
    unfold actualType
    have := actualNames_noFuel g (actualType g f) vis (fun n body hn hl =>
      actualType_noFuel g f (n :: vis) body (by have := U_lt g vis n body hl hn; omega)) names []
    cases h1 : actualNames g (actualType g f) vis names [] with
    | error e =>
      simp only
      intro h
      simp only [Except.error.injEq] at h
      subst h
      exact this h1
    | ok r =>
      cases r with
      | none => intro h; cases h
      | some acc =>
        cases acc with
        | nil => intro h; cases h
        | cons t ts =>
          simp only
          by_cases hb : ts.all (· == t) = true
          · rw [if_pos hb]; intro h; cases h
          · rw [if_neg hb]; intro h; cases h

def ExtA (rec1 rec2 : List String → N → Except Err JT) : Prop :=
  ∀ vis body r, rec1 vis body = r → r ≠ .error .fuel → rec2 vis body = r

theorem actualNames_ext (g : G) (rec1 rec2 : List String → N → Except Err JT) (hx : ExtA rec1 rec2) :
    ∀ (tns vis : List String) (acc : List JT) (r : Except Err (Option (List JT))),
      actualNames g rec1 vis tns acc = r → r ≠ .error .fuel → actualNames g rec2 vis tns acc = r
  | [], vis, acc, r, h, _ => by simpa [actualNames] using h
  | tn :: tns, vis, acc, r, h, hr => by
    unfold actualNames at h ⊢
    by_cases hv : vis.contains tn = true
    · rw [if_pos hv] at h ⊢; exact h
    · rw [if_neg hv] at h ⊢
      cases hl : lookup g tn with
      | none => simpa [hl] using h
      | some body =>
        simp only [hl] at h ⊢
        cases h1 : rec1 (tn :: vis) body with
        | error e =>
          simp only [h1] at h
          have he : e ≠ .fuel := by
            intro e1; subst e1; exact hr h.symm
          rw [hx _ _ _ h1 (by intro h2; cases h2; exact he rfl)]
          exact h
        | ok tt =>
          simp only [h1] at h
          rw [hx _ _ _ h1 (by intro h2; cases h2)]
          exact actualNames_ext g rec1 rec2 hx tns vis (tt :: acc) r h hr

theorem actualType_succ (g : G) : ∀ f, ExtA (actualType g f) (actualType g (f + 1))
  | f, vis, .lit jt tl e, r, h, _ => by cases f <;> simpa [actualType] using h
  | f, vis, .arr items, r, h, _ => by cases f <;> simpa [actualType] using h
  | f, vis, .obj ao ap ps, r, h, _ => by cases f <;> simpa [actualType] using h
  | 0, vis, .ref names, r, h, hr => by
    simp only [actualType] at h
    exact absurd h.symm hr
  | f + 1, vis, .ref names, r, h, hr => by
    unfold actualType at h ⊢
    cases h1 : actualNames g (actualType g f) vis names [] with
    | error e =>
      simp only [h1] at h
      have he : e ≠ .fuel := by
        intro e1; subst e1; exact hr h.symm
      rw [actualNames_ext g _ _ (actualType_succ g f) names vis [] _ h1 (by intro h2; cases h2; exact he rfl)]
      exact h
    | ok x =>
      rw [actualNames_ext g _ _ (actualType_succ g f) names vis [] _ h1 (by intro h2; cases h2)]
      simpa [h1] using h

theorem actualType_le (g : G) (f f' : Nat) (hle : f ≤ f') : ExtA (actualType g f) (actualType g f') := by
  induction hle with
  | refl => intro _ _ _ h _; exact h
  | step _ ih =>
    intro vis body r h hr
    exact actualType_succ g _ vis body r (ih vis body r h hr) hr

end LK
