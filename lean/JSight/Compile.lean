import JSight.Loader
import JSight.RulesFull
import JSight.ValidateK
import JSight.TypeGraph
import JSight.JsonRun
/-!
COMPILE: the loader's node table (with the rule VALUES kept in `Loader.Node.ruleVals`) → the validator schema
`VK.S Lit` — the step that the semantic-layer ties left to trusted Go printing.

The model follows the library's own phases and their ORDER (only the first error is observable):

1. `creation` — what happens while the annotation is read (`ruleLoader.ruleValueLiteral` →
   `constraint.NewConstraintFromRule`, `node.AddConstraint`): unknown rule (601), invalid value (604, 605, 103,
   generic 0), duplicate rule (501), in text order.
2. `basic` — `loader.CompileBasic` / `compileNode` (`compiler_basic.go`), node by node in pre-order, the steps in
   the order of the code: false-valued `nullable` / `const` dropped, `or`, `enum`, `precision`, `type`, banned pairs,
   `any`, `exclusiveMinimum` / `exclusiveMaximum` folded into `min` / `max`, pair checks, `optional` →
   required keys. Result: a tree `CN` (a node after compilation).
3. `check` — `checker.CheckRootSchema` (`check_schema.go`): constraint × JSON-type compatibility (1117), links of
   nodes with a types list (1302, 1303, 1301), the EXAMPLE of a literal node against its validators
   (`ValidateLiteralValue`; the first failing validator's code, 204 for several alternatives), key shortcuts
   (1302, 1304), `additionalProperties: "@T"` (1302); root first, then the types sorted by name. Then
   `checker.CheckRecursion` through `TG.check` (104).
4. `toVK` — the schema the validator machine `VK` runs on. A nullable container (fix F-14: validators
   `[container, literal that lets null through]`) becomes a reference to a synthetic type `#…` with a nullable literal.

Everything the target IR cannot express answers `Err.unsupported why` — never a wrong schema: `allOf`, `regex`,
the formats that need the standard library (`email`, `uri`, `datetime`), `minItems` / `maxItems`, rule sets inside
`or`, named enum rules, manual rules on a type shortcut other than `optional` / `nullable`, ….
The values of `or` / `enum` are read from the text slice between the brackets with the JSON scanner model
(an array of scalar literals; anything else is `unsupported`).
-/
namespace Compile
open Rules (Kind)
open Loader (NK)

abbrev Bytes := List UInt8

def sb (s : String) : Bytes := s.toUTF8.toList

/-- bytes ↦ `String`, injectively (one character per byte): keys and type names of the validator schema -/
def keyStr (bs : Bytes) : String := String.ofList (bs.map fun b => Char.ofNat b.toNat)
def strBytes (s : String) : Bytes := s.toList.map fun c => UInt8.ofNat c.toNat

inductive Err
  | code (c : Nat) (pos : Nat)
  | unsupported (why : String)
  deriving Repr

/-- `json.Type` of a schema node -/
inductive JT | obj | arr | str | int | flt | bool | null | mixed
  deriving DecidableEq, Repr

def JT.ofKind : Kind → JT
  | .i => .int | .f => .flt | .s => .str | .b => .bool | .n => .null

def JT.name : JT → Bytes
  | .obj => sb "object" | .arr => sb "array" | .str => sb "string" | .int => sb "integer"
  | .flt => sb "float" | .bool => sb "boolean" | .null => sb "null" | .mixed => sb "mixed"

/-- literal validators of the validator schema -/
inductive Lit
  | node (l : RulesF.LitSpecF)       -- `newLiteralValidator(node)`: `ValidateLiteralValue`
  | soft (ks : List Kind)            -- `additionalProperties: "<scalar type>"`: `IsEqualSoft` on the guessed type
  deriving Repr

def noOracles : RulesF.Oracles := ⟨fun _ _ => false, fun _ => false, fun _ => false, fun _ => false⟩

def litOK : Lit → Bytes → Bool
  | .node l, tok => RulesF.litOKFull noOracles l tok
  | .soft ks, tok => match RulesF.kindOfTok tok with
    | some k => ks.contains k
    | none => false

/-! ### the node table with the spans resolved -/

structure Rule where
  name : Bytes              -- `TrimSpaces().Unquote()` of the name token; `type` / `or` for a type shortcut
  gen : Bool                -- synthesised from a type shortcut
  val : Option Bytes        -- the value's text
  pos : Nat                 -- offset of the value (of the name when there is no value)
  npos : Nat                -- offset of the name
  deriving Repr

structure RNode where
  kind : NK
  children : List Nat
  /-- decoded key text (for a shortcut: the text `@name`), is-shortcut -/
  keys : List (Bytes × Bool)
  value : Option Bytes
  rules : List Rule
  deriving Repr

def resolveRule (src : Array UInt8) : Sum (Nat × Nat) String × Option (Nat × Nat) → Rule
  | (.inl sp, v) =>
    { name := Loader.nameOf src sp, gen := false, val := v.map fun p => Loader.slice src p.1 p.2,
      pos := (v.map (·.1)).getD sp.1, npos := sp.1 }
  | (.inr s, v) =>
    { name := sb s, gen := true, val := v.map fun p => Loader.trimSpaces (Loader.slice src p.1 p.2),
      pos := (v.map (·.1)).getD 0, npos := (v.map (·.1)).getD 0 }

def resolve (src : Array UInt8) (n : Loader.Node) : RNode :=
  { kind := n.kind, children := n.children, keys := n.keys.map (Loader.keyText src),
    value := n.value.map fun p => Loader.slice src p.1 p.2,
    rules := (n.rules.zip n.ruleVals).map (resolveRule src) }

/-! ### small parsers of rule values -/

def parseBool (b : Bytes) : Option Bool :=
  if b == RulesF.sTrue then some true else if b == RulesF.sFalse then some false else none

def isDigit (c : UInt8) : Bool := 48 ≤ c && c ≤ 57

/-- `Bytes.ParseUint` (values that would overflow a 64-bit word are outside the model: more than 18 digits) -/
def parseUint (b : Bytes) : Option Nat :=
  if b.isEmpty || !b.all isDigit then none
  else some (b.foldl (fun acc c => acc * 10 + (c.toNat - 48)) 0)

def isNameByte (c : UInt8) : Bool :=
  (48 ≤ c && c ≤ 57) || (65 ≤ c && c ≤ 90) || (97 ≤ c && c ≤ 122) || c == 45 || c == 95

/-- `Bytes.IsUserTypeName` -/
def isUserTypeName (b : Bytes) : Bool :=
  match b with
  | 64 :: c :: rest => (c :: rest).all isNameByte
  | _ => false

def unq (b : Bytes) : Bytes := Unquote.unquote b

/-- the constraint names `NewConstraintFromRule` knows, plus the three embedded ones -/
def knownRules : List Bytes :=
  ["minLength", "maxLength", "min", "max", "exclusiveMinimum", "exclusiveMaximum", "type", "precision", "optional",
   "minItems", "maxItems", "additionalProperties", "nullable", "regex", "const", "or", "enum", "allOf"].map sb

def validTypes : List Bytes :=
  ["string", "integer", "float", "decimal", "boolean", "object", "array", "null", "email", "uri", "uuid", "date",
   "datetime", "enum", "mixed", "any", "comment"].map sb

/-- `additionalProperties` -/
inductive Add
  | absent | notAllowed | any | obj | arr
  | soft (ks : List Kind)
  | type (name : String)
  deriving Repr

def parseAdd (v : Bytes) : Except Err Add :=
  let t := unq v
  if t == sb "any" || t == sb "true" then .ok .any
  else if t == sb "false" then .ok .notAllowed
  else if isUserTypeName t then .ok (.type (keyStr t))
  else if t == sb "object" then .ok .obj
  else if t == sb "array" then .ok .arr
  else if t == sb "string" || t == sb "email" || t == sb "uri" || t == sb "uuid" || t == sb "date"
      || t == sb "datetime" then .ok (.soft [.s])
  else if t == sb "integer" then .ok (.soft [.i])
  else if t == sb "float" || t == sb "decimal" then .ok (.soft [.f])
  else if t == sb "boolean" then .ok (.soft [.b])
  else if t == sb "null" then .ok (.soft [.n])
  else if t == sb "enum" || t == sb "mixed" then .ok (.soft [.s, .i, .f, .b, .n])
  else if t == sb "comment" then .ok (.soft [])
  else .error (.code 103 0)

/-- the scalar tokens of a JSON array text `[a, b, …]` (JSON scanner model); `none` = not such a text -/
def scalarItems (txt : Bytes) : Option (List Bytes) :=
  match JsonScan.events false txt with
  | .error _ => none
  | .ok evs =>
    let rec go : List JsonScan.Ev → List Bytes → Option (List Bytes)
      | [⟨.arrE, _, _⟩], acc => some acc.reverse
      | ⟨.itemB, _, _⟩ :: ⟨.litB, _, _⟩ :: ⟨.litE, b, e⟩ :: ⟨.itemE, _, _⟩ :: rest, acc =>
        go rest (((txt.drop b).take (e + 1 - b)) :: acc)
      | _, _ => none
    match evs with
    | ⟨.arrB, _, _⟩ :: rest => go rest []
    | _ => none

/-! ### phase 1: what happens while an annotation is read -/

/-- `NewConstraintFromRule` + `AddConstraint` for the rule `r` of a node of kind `k` that already carries the rules
`seen` (names; `or` also stands for the types list) -/
def createRule (k : NK) (seen : List Bytes) (r : Rule) : Except Err Unit :=
  if r.gen then
    -- `addTypeShortcut` / `addORShortcut` on the fresh mixed-value node: nothing can clash
    .ok ()
  else if k == .mixed && (r.name == sb "type" || r.name == sb "or") then
    .error (.unsupported "type / or rule on a type shortcut")
  else if !knownRules.contains r.name then .error (.code 601 r.npos)
  else
    let dup : Except Err Unit := if seen.contains r.name then .error (.code 501 r.pos) else .ok ()
    match r.val with
    | none => .error (.unsupported "rule value missing")
    | some v =>
      if (r.name == sb "or" || r.name == sb "enum" || r.name == sb "allOf") && seen.contains r.name then
        .error (.code 501 r.pos)
      else if r.name == sb "or" then
        (match scalarItems v with
         | none => .error (.unsupported "or: not an array of literals")
         | some items =>
           -- the members are loaded IN ORDER: a quoted scalar type name is compiled on the spot (its own errors:
           -- 102, 1112, 1113 …) before a later unquoted item is met (904): found by the run-time bridge against
           -- `CR.loadOrItem`, settled by the real library
           if !(items.all fun it => !Unquote.inQuotes it || isUserTypeName (unq it)) then
             .error (.unsupported "or: scalar type name")
           else if !items.all Unquote.inQuotes then .error (.code 904 r.pos)
           else if items.length == 0 then .error (.code 902 r.pos)
           else if items.length == 1 then .error (.code 903 r.pos)
           else if seen.contains (sb "type") && k == .mixed then .error (.unsupported "or on a type shortcut")
           else dup)
      else if r.name == sb "enum" then
        (match scalarItems v with
         | none => .error (.unsupported "enum: not an array of literals")
         | some items =>
           if items.any fun it => (RulesF.enumItem it).isNone then .error (.unsupported "enum: item kind")
           else if !((items.map RulesF.enumItem).eraseDups.length == items.length) then .error (.code 810 r.pos)
           else dup)
      else if r.name == sb "allOf" then .error (.unsupported "allOf")
      else if r.name == sb "regex" then .error (.unsupported "regex")
      else if r.name == sb "minItems" || r.name == sb "maxItems" then .error (.unsupported "minItems / maxItems")
      else if r.name == sb "minLength" || r.name == sb "maxLength" then
        (match parseUint v with
         | none => .error (.code 604 r.pos)
         | some _ => if v.length > 18 then .error (.unsupported "huge length") else dup)
      else if r.name == sb "precision" then
        (match parseUint v with
         | none => .error (.code 604 r.pos)
         | some n => if v.length > 18 then .error (.unsupported "huge precision")
                     else if n == 0 then .error (.code 605 r.pos) else dup)
      else if r.name == sb "min" || r.name == sb "max" then
        (match RulesF.number v with
         | none => .error (.code 0 r.pos)
         | some _ => dup)
      else if r.name == sb "exclusiveMinimum" || r.name == sb "exclusiveMaximum" || r.name == sb "optional"
          || r.name == sb "nullable" || r.name == sb "const" then
        (match parseBool v with
         | none => .error (.code 604 r.pos)
         | some _ => dup)
      else if r.name == sb "additionalProperties" then
        (match parseAdd v with
         | .error (.code c _) => .error (.code c r.pos)
         | .error e => .error e
         | .ok _ => dup)
      else dup   -- `type`: any literal

def createRules (k : NK) : List Bytes → List Rule → Except Err Unit
  | _, [] => .ok ()
  | seen, r :: rs =>
    match createRule k seen r with
    | .error e => .error e
    | .ok () => createRules k (r.name :: seen) rs

/-- all nodes of a table in creation order = text order of their annotations -/
def creation (tbl : List RNode) : Except Err Unit :=
  tbl.foldl (fun acc n => match acc with
    | .error e => .error e
    | .ok () => createRules n.kind [] n.rules) (.ok ())

/-! ### phase 2: `CompileBasic` -/

/-- a node after compilation -/
inductive CN
  /-- a literal node with its own validator; `bad`: a constraint incompatible with its JSON type (1117 at check) -/
  | lit (spec : RulesF.LitSpecF) (bad : Bool)
  /-- a node with the `any` constraint (and no `const`): its JSON type; for a literal node what its own literal
  validator demands (the checker runs it on EXAMPLES that reach the node through a reference) -/
  | any (jt : JT) (lit : Option RulesF.LitSpecF)
  | arr (items : List CN) (nul : Bool) (bad : Bool)
  /-- properties: key (a shortcut: the name without `@`), is-shortcut, required, `optional: true`, value -/
  | obj (props : List (String × Bool × Bool × Bool × CN)) (add : Add) (nul : Bool) (bad : Bool)
  /-- a node with a types list: names, nullable, JSON type of the node (`mixed` = a type shortcut), the literal
  EXAMPLE token if it is a literal node, `or`-shortcut -/
  | ref (names : List String) (nul : Bool) (jt : JT) (ex : Option Bytes) (orShort : Bool)

def findRule (rs : List Rule) (name : String) : Option Rule := rs.find? (·.name == sb name)
def hasRule (rs : List Rule) (name : String) : Bool := rs.any (·.name == sb name)

def boolRule (rs : List Rule) (name : String) : Option Bool :=
  match findRule rs name with
  | some r => r.val.bind parseBool
  | none => none

/-- rule names that survive to the constraint map besides the ones listed -/
def others (rs : List Rule) (allowed : List String) : Nat :=
  (rs.filter fun r => !(allowed.map sb).contains r.name).length

def fmtOfType (t : Bytes) : Option RulesF.Fmt :=
  if t == sb "email" then some .email else if t == sb "uri" then some .uri else if t == sb "uuid" then some .uuid
  else if t == sb "date" then some .date else if t == sb "datetime" then some .datetime else none

/-- the or-list of a manual `or` rule -/
def orNames (r : Rule) : List String :=
  match r.val.bind scalarItems with
  | some items => items.map fun it => keyStr (unq it)
  | none => []

/-- names of a type shortcut `@a | @b` -/
def splitPipe (b : Bytes) : List Bytes :=
  let rec go : List UInt8 → Bytes → List Bytes
    | [], cur => [Loader.trimSpaces cur.reverse]
    | c :: cs, cur => if c == 124 then Loader.trimSpaces cur.reverse :: go cs [] else go cs (c :: cur)
  go b []

def cmpNum (a b : Bytes) : Option Ordering :=
  match RulesF.number a, RulesF.number b with
  | some x, some y => some (x.cmp y)
  | _, _ => none

/-- the constraint-level outcome of `compileNode` for one node, children aside -/
structure Basic where
  /-- `optional` rule as written -/
  optional : Option Bool
  nul : Bool
  any : Bool
  /-- types list after compilation -/
  names : Option (List String)
  orShort : Bool
  add : Add
  rules : List RulesF.Rule
  bad : Bool

/-- JSON type of the node -/
def jtOf (n : RNode) : Except Err JT :=
  match n.kind with
  | .obj => .ok .obj
  | .arr => .ok .arr
  | .mixed => .ok .mixed
  | .lit =>
    match n.value with
    | none => .error (.unsupported "literal without value")
    | some tok =>
      match RulesF.kindOfTok tok with
      | some k => .ok (JT.ofKind k)
      | none => .error (.code 0 0)       -- "Node type can't be guessed by value"

/-- constraint × JSON type (`IsJsonTypeCompatible`), for the constraints that survive compilation -/
def incompatible (jt : JT) (name : Bytes) : Bool :=
  if name == sb "minLength" || name == sb "maxLength" || name == sb "regex" || name == sb "fmt" then jt != .str
  else if name == sb "min" || name == sb "max" then !(jt == .int || jt == .flt)
  else if name == sb "precision" then jt != .flt
  else if name == sb "additionalProperties" || name == sb "allOf" then jt != .obj
  else if name == sb "minItems" || name == sb "maxItems" then jt != .arr
  else if name == sb "const" then jt == .obj || jt == .arr
  else if name == sb "enum" then jt == .obj || jt == .arr || jt == .mixed
  else false

/-! `compileNode` without the recursion into the children, one definition per step of `compiler_basic.go`, each ending
in a call of the next one (a single `do` block elaborates into fifteen nested join points, which no proof can step
through; this form is the same function — ties `e2e-text`, `c02-text`). -/

def bFinish (frs : List Rule) (jt : JT) (optional : Option Bool) (any : Bool) (fmt : Option RulesF.Fmt)
    (names : Option (List String)) (orShort : Bool) (lits : List RulesF.Rule) (add : Add) : Except Err Basic :=
  let bad := (frs.any fun r => incompatible jt r.name) || (fmt.isSome && jt != .str)
  match fmt with
  | some .email | some .uri | some .datetime => throw (.unsupported "format that needs the standard library")
  | _ => pure { optional := optional, nul := hasRule frs "nullable", any := any, names := names, orShort := orShort,
                add := add, rules := lits, bad := bad }

def bLits (frs : List Rule) (exMin exMax : Bool) (fmt : Option RulesF.Fmt) : List RulesF.Rule :=
  (frs.filterMap fun r =>
    let v := r.val.getD []
    if r.name == sb "min" then some (.min v exMin)
    else if r.name == sb "max" then some (.max v exMax)
    else if r.name == sb "minLength" then (parseUint v).map .minLength
    else if r.name == sb "maxLength" then (parseUint v).map .maxLength
    else if r.name == sb "precision" then (parseUint v).map .precision
    else if r.name == sb "const" then some .const
    else if r.name == sb "enum" then (scalarItems v).map .enum
    else none) ++ (match fmt with | some f => [.fmt f] | none => [])

/-- `optionalConstraints`, the literal validators, `additionalProperties` -/
def bOptional (frs : List Rule) (jt : JT) (parentIsObj : Bool) (any : Bool) (fmt : Option RulesF.Fmt)
    (names : Option (List String)) (orShort : Bool) (exMin exMax : Bool) : Except Err Basic :=
  let optional := boolRule frs "optional"
  if optional.isSome && !parentIsObj then throw (.code 1101 0)
  else
    match findRule frs "additionalProperties" with
    | some r =>
      match parseAdd (r.val.getD []) with
      | .error e => .error e
      | .ok add => bFinish frs jt optional any fmt names orShort (bLits frs exMin exMax fmt) add
    | none => bFinish frs jt optional any fmt names orShort (bLits frs exMin exMax fmt) Add.absent

/-- `checkMinLengthAndMaxLength` -/
def bLens (frs : List Rule) (next : Except Err Basic) : Except Err Basic :=
  match findRule frs "minLength", findRule frs "maxLength" with
  | some a, some b =>
    match parseUint (a.val.getD []), parseUint (b.val.getD []) with
    | some x, some y => if x > y then throw (.code 617 0) else next
    | _, _ => next
  | _, _ => next

/-- `checkMinAndMax` -/
def bMinMax (frs : List Rule) (exMin exMax : Bool) (next : Except Err Basic) : Except Err Basic :=
  match findRule frs "min", findRule frs "max" with
  | some a, some b =>
    match cmpNum (a.val.getD []) (b.val.getD []) with
    | some c =>
      if exMin || exMax then
        if c != .lt then throw (.code 618 0) else next
      else
        if c == .gt then throw (.code 617 0) else next
    | none => next
  | _, _ => next

/-- `checkPairConstraints` -/
def bPairs (frs : List Rule) (jt : JT) (parentIsObj : Bool) (any : Bool) (fmt : Option RulesF.Fmt)
    (names : Option (List String)) (orShort : Bool) : Except Err Basic :=
  let exMin := boolRule frs "exclusiveMinimum" == some true
  let exMax := boolRule frs "exclusiveMaximum" == some true
  bMinMax frs exMin exMax (bLens frs (bOptional frs jt parentIsObj any fmt names orShort exMin exMax))

/-- `allowedConstraintCheck`, `anyConstraint`, `exclusiveMinimumConstraint`, `exclusiveMaximumConstraint` -/
def bAllowed (frs : List Rule) (jt : JT) (parentIsObj : Bool) (nChildren : Nat) (any : Bool) (fmt : Option RulesF.Fmt)
    (names : Option (List String)) (orShort : Bool) : Except Err Basic :=
  if fmt.isSome && (hasRule frs "minLength" || hasRule frs "maxLength") then throw (.code 1117 0)
  else if any && hasRule frs "const" then throw (.code 1117 0)
  else if any && others frs ["type", "optional", "nullable", "const"] != 0 then throw (.code 1105 0)
  else if any && nChildren != 0 then throw (.code 1106 0)
  else if hasRule frs "exclusiveMinimum" && !hasRule frs "min" then throw (.code 1109 0)
  else if hasRule frs "exclusiveMaximum" && !hasRule frs "max" then throw (.code 1110 0)
  else bPairs frs jt parentIsObj any fmt names orShort

/-- `typeConstraint` -/
def bType (kind : NK) (frs : List Rule) (jt : JT) (parentIsObj : Bool) (nChildren : Nat)
    (names : Option (List String)) (orShort : Bool) : Except Err Basic :=
  match findRule frs "type" with
  | none => bAllowed frs jt parentIsObj nChildren false none names orShort
  | some t =>
    let v := unq (t.val.getD [])
    if isUserTypeName v then
      if others frs ["type", "optional", "nullable"] != 0 then throw (.code 1102 0)
      else if kind == .obj || kind == .arr then throw (.code 1107 0)
      else if kind == .mixed && !t.gen then throw (.code 1107 0)
      else bAllowed frs jt parentIsObj nChildren false none (some [keyStr v]) orShort
    else if v == sb "mixed" then
      match names with
      | some ns => if ns.length < 2 then throw (.code 1114 0)
                   else bAllowed frs jt parentIsObj nChildren false none names orShort
      | none => throw (.code 1114 0)
    else if v == sb "enum" then
      if !hasRule frs "enum" then throw (.code 1113 0)
      else if jt == .obj || jt == .arr || jt == .mixed then throw (.code 1115 0)
      else bAllowed frs jt parentIsObj nChildren false none names orShort
    else if v == sb "any" then bAllowed frs jt parentIsObj nChildren true none names orShort
    else if v == sb "decimal" then
      if !hasRule frs "precision" then throw (.code 1112 0)
      else if jt != .flt then throw (.code 1115 0)
      else bAllowed frs jt parentIsObj nChildren false none names orShort
    else if (fmtOfType v).isSome then
      if jt != .str then throw (.code 1115 0)
      else bAllowed frs jt parentIsObj nChildren false (fmtOfType v) names orShort
    else if v == sb "object" || v == sb "array" || v == sb "string" || v == sb "integer" || v == sb "float"
        || v == sb "boolean" || v == sb "null" then
      if v != jt.name then throw (.code 1115 0)
      else bAllowed frs jt parentIsObj nChildren false none names orShort
    else throw (.code 102 0)

/-- the types list of an `or` rule -/
def bNames (kind : NK) (frs : List Rule) (jt : JT) (parentIsObj : Bool) (nChildren : Nat) : Except Err Basic :=
  if hasRule frs "or" then
    match findRule frs "or" with
    | some r =>
      if r.gen then bType kind frs jt parentIsObj nChildren (some ((splitPipe (r.val.getD [])).map keyStr)) true
      else bType kind frs jt parentIsObj nChildren (some (orNames r)) false
    | none => bType kind frs jt parentIsObj nChildren none false
  else bType kind frs jt parentIsObj nChildren none false

/-- `enumConstraint`, `precisionConstraint` -/
def bEnumPrec (kind : NK) (frs : List Rule) (jt : JT) (parentIsObj : Bool) (nChildren : Nat) : Except Err Basic :=
  let prec : Except Err Basic :=
    if hasRule frs "precision" then
      match findRule frs "type" with
      | some t => if (t.val.map unq) != some (sb "decimal") then throw (.code 1117 0)
                  else bNames kind frs jt parentIsObj nChildren
      | none => bNames kind frs jt parentIsObj nChildren
    else bNames kind frs jt parentIsObj nChildren
  if hasRule frs "enum" then
    match findRule frs "type" with
    | some t =>
      if t.val != some (sb "\"enum\"") then throw (.code 1111 0)
      else if others frs ["enum", "optional", "const", "nullable", "type"] != 0 then throw (.code 1104 0)
      else prec
    | none =>
      if others frs ["enum", "optional", "const", "nullable", "type"] != 0 then throw (.code 1104 0)
      else prec
  else prec

/-- `falseConstraints`, `orConstraint`, then the rest -/
def basic (n : RNode) (jt : JT) (parentIsObj : Bool) (nChildren : Nat) : Except Err Basic :=
  let frs := n.rules.filter fun r =>
    !((r.name == sb "nullable" || r.name == sb "const") && r.val.bind parseBool == some false)
  let next := bEnumPrec n.kind frs jt parentIsObj nChildren
  if hasRule frs "or" then
    if n.kind == .mixed then
      if others frs ["or", "optional", "nullable"] != 0 then throw (.code 1103 0) else next
    else
      match findRule frs "type" with
      | some t =>
        if t.val != some (sb "\"mixed\"") then throw (.code 1111 0)
        else if others frs ["or", "optional", "nullable", "type"] != 0 then throw (.code 1103 0)
        else if n.kind == .obj || n.kind == .arr then throw (.code 1108 0)
        else next
      | none =>
        if others frs ["or", "optional", "nullable", "type"] != 0 then throw (.code 1103 0)
        else if n.kind == .obj || n.kind == .arr then throw (.code 1108 0)
        else next
  else next

mutual
/-- `compileNode` on node `i`: the compiled node and its `optional` rule as written -/
def compileNode (tbl : Array RNode) (optDefault : Bool) : Nat → Nat → Bool → Except Err (CN × Option Bool)
  | 0, _, _ => .error (.unsupported "fuel")
  | fuel + 1, i, parentIsObj =>
    match tbl[i]? with
    | none => .error (.unsupported "node index")
    | some n =>
      match jtOf n with
      | .error e => .error e
      | .ok jt =>
        match basic n jt parentIsObj n.children.length with
        | .error e => .error e
        | .ok b =>
          match b.names with
          | some names =>
            .ok (.ref names b.nul jt (if n.kind == .lit then n.value else none) b.orShort, b.optional)
          | none =>
            if b.any then
              .ok (.any jt (match n.kind, n.value, RulesF.kindOfTok (n.value.getD []) with
                | .lit, some tok, some k => some { kind := k, ex := tok, nul := b.nul, rules := [] }
                | _, _, _ => none), b.optional)
            else
              match n.kind with
              | .mixed => .error (.unsupported "type shortcut without types")
              | .lit =>
                match n.value, RulesF.kindOfTok (n.value.getD []) with
                | some tok, some k =>
                  .ok (.lit { kind := k, ex := tok, nul := b.nul, rules := b.rules } b.bad, b.optional)
                | _, _ => .error (.unsupported "literal without value")
              | .arr =>
                match compileItems tbl optDefault fuel n.children with
                | .error e => .error e
                | .ok items => .ok (.arr items b.nul b.bad, b.optional)
              | .obj =>
                if n.keys.length != n.children.length then .error (.unsupported "keys and children differ")
                else
                  match compileProps tbl optDefault fuel n.keys n.children with
                  | .error e => .error e
                  | .ok props => .ok (.obj props b.add b.nul b.bad, b.optional)
def compileItems (tbl : Array RNode) (optDefault : Bool) : Nat → List Nat → Except Err (List CN)
  | _, [] => .ok []
  | fuel, c :: cs =>
    match compileNode tbl optDefault fuel c false with
    | .error e => .error e
    | .ok (x, _) =>
      match compileItems tbl optDefault fuel cs with
      | .error e => .error e
      | .ok xs => .ok (x :: xs)
def compileProps (tbl : Array RNode) (optDefault : Bool) :
    Nat → List (Bytes × Bool) → List Nat → Except Err (List (String × Bool × Bool × Bool × CN))
  | _, [], _ => .ok []
  | _, _ :: _, [] => .ok []
  | fuel, k :: ks, c :: cs =>
    match compileNode tbl optDefault fuel c true with
    | .error e => .error e
    | .ok (x, opt) =>
      match compileProps tbl optDefault fuel ks cs with
      | .error e => .error e
      | .ok xs =>
        .ok ((keyStr (if k.2 then k.1.drop 1 else k.1), k.2,
              (match opt with | some o => !o | none => !optDefault), opt == some true, x) :: xs)
end

/-! ### phase 3: `CheckRootSchema`, `CheckRecursion` -/

abbrev Types := List (String × CN)

def lookupT (ts : Types) (n : String) : Option CN := (ts.find? (·.1 == n)).map (·.2)

def CN.jt : CN → Option JT
  | .lit spec _ => some (JT.ofKind spec.kind)
  | .any jt _ => some jt
  | .arr _ _ _ => some .arr
  | .obj _ _ _ _ => some .obj
  | .ref _ _ jt _ _ => some jt

/-- `collectAllowedJsonTypes` below a node WITH a types list that is not a type shortcut: the JSON types of the
non-reference nodes the names lead to; `none` = every type (a type shortcut is reached) -/
def allowed (ts : Types) : Nat → List String → List String → Except Err (Option (List JT))
  | 0, _, _ => .error (.unsupported "fuel")
  | _ + 1, _, [] => .ok (some [])
  | fuel + 1, found, name :: rest =>
    if found.contains name then .error (.code 1303 0)
    else
      match lookupT ts name with
      | none => .error (.code 1302 0)
      | some t =>
        let here : Except Err (Option (List JT)) :=
          match t with
          | .ref names _ jt _ _ =>
            if jt == .mixed then
              -- a type shortcut: all types; its names must exist
              if names.all fun n => (lookupT ts n).isSome then .ok none else .error (.code 1302 0)
            else allowed ts fuel (name :: found) names
          | t => .ok (some (t.jt.toList))
        match here with
        | .error e => .error e
        | .ok a =>
          match allowed ts fuel found rest with
          | .error e => .error e
          | .ok b =>
            .ok (match a, b with
              | some x, some y => some (x ++ y)
              | _, _ => none)

/-- error code of `ValidateLiteralValue` on a literal node (`none` = accepted): kind gate, then the validators in
the order of `constraint.Type` -/
def litErr (l : RulesF.LitSpecF) (tok : Bytes) : Option Nat :=
  if RulesF.litOKFull noOracles l tok then none
  else if !RulesF.kindGate l tok then some 210
  else
    -- `json.NewNumber(value)` fails on a token that is not a numeral: a plain Go error (generic code 0)
    let num : Nat := if (RulesF.number tok).isSome then 602 else 0
    let code (r : RulesF.Rule) : Nat × Nat := match r with
      | .minLength _ => (0, 603) | .maxLength _ => (1, 603) | .min _ _ => (2, num) | .max _ _ => (3, num)
      | .precision _ => (6, num) | .enum _ => (15, 610) | .regex _ => (20, 611)
      | .fmt .email => (12, 607) | .fmt .uri => (21, 612) | .fmt .date => (22, 616) | .fmt .datetime => (23, 613)
      | .fmt .uuid => (24, 614) | .const => (25, 615)
    let failing := (l.rules.filter fun r => !RulesF.ruleOK noOracles l.ex tok r).map code
    match failing with
    | [] => some 0
    | f :: fs => some (fs.foldl (fun best c => if c.1 < best.1 then c else best) f).2

/-- `nodeCheckerListConstructor.buildList` on the EXAMPLE token: per alternative whether it fails, and the code -/
def exampleAlts (ts : Types) (tok : Bytes) : Nat → List String → List String → Except Err (List String × List (Option Nat))
  | 0, _, _ => .error (.unsupported "fuel")
  | _ + 1, added, [] => .ok (added, [])
  | fuel + 1, added, name :: rest =>
    if added.contains name then exampleAlts ts tok fuel added rest
    else
      match lookupT ts name with
      | none => .error (.code 1302 0)
      | some t =>
        let here : Except Err (List String × List (Option Nat)) :=
          match t with
          | .ref names _ _ _ _ => exampleAlts ts tok fuel (name :: added) names
          | .lit spec _ => .ok (name :: added, [litErr spec tok])
          | .any _ (some spec) => .ok (name :: added, [litErr spec tok])
          | _ => .ok (name :: added, [some 1201])
        match here with
        | .error e => .error e
        | .ok (added', xs) =>
          match exampleAlts ts tok fuel added' rest with
          | .error e => .error e
          | .ok (added'', ys) => .ok (added'', xs ++ ys)

/-- `actualRootType` of the type `name`: `none` = mixed -/
def actualRoot (ts : Types) : Nat → List String → String → Option JT
  | 0, _, _ => none
  | fuel + 1, visiting, name =>
    match lookupT ts name with
    | none => none
    | some t =>
      match t with
      | .ref names _ jt _ _ =>
        if jt != .mixed then some jt
        else
          let rs := names.map fun n => if visiting.contains n then none else actualRoot ts fuel (n :: visiting) n
          match rs with
          | [] => none
          | r :: rest => if rs.any (·.isNone) then none else if rest.all (· == r) then r else none
      | t => t.jt

mutual
/-- `checkNode` -/
def checkNode (ts : Types) (fuel : Nat) : CN → Except Err Unit
  | .lit spec bad =>
    if bad then .error (.code 1117 0)
    else match litErr spec spec.ex with
      | some c => .error (.code c 0)
      | none => .ok ()
  | .any _ _ => .ok ()
  | .ref names _ jt ex _ =>
    -- checkLinksOfNode
    if jt == .mixed then
      if names.all fun n => (lookupT ts n).isSome then .ok () else .error (.code 1302 0)
    else
      match allowed ts fuel [] names with
      | .error e => .error e
      | .ok al =>
        if !(match al with | none => true | some l => l.contains jt) then .error (.code 1301 0)
        else
          -- checkLiteralNode
          match ex with
          | none => .ok ()
          | some tok =>
            match exampleAlts ts tok fuel [] names with
            | .error e => .error e
            | .ok (_, alts) =>
              if alts.all (·.isSome) then
                (match alts with
                 | [some c] => .error (.code c 0)
                 | _ => .error (.code 204 0))
              else .ok ()
  | .arr items _ bad =>
    if bad then .error (.code 1117 0) else checkItems ts fuel items
  | .obj props add _ bad =>
    if bad then .error (.code 1117 0)
    else
      -- ensureShortcutKeysAreValid: KEY BY KEY — the first shortcut key that is undefined (1302) or whose type is
      -- not a string (1304); found by the run-time bridge against `CK.keysErr`, settled by the real library
      match props.find? (fun p => p.2.1 && ((lookupT ts ("@" ++ p.1)).isNone
                                            || actualRoot ts fuel [] ("@" ++ p.1) != some .str)) with
      | some p => .error (.code (if (lookupT ts ("@" ++ p.1)).isNone then 1302 else 1304) 0)
      | none =>
        -- checkAdditionalPropertiesConstraint
        match add with
        | .type n => if (lookupT ts n).isNone then .error (.code 1302 0) else checkProps ts fuel props
        | _ => checkProps ts fuel props
def checkItems (ts : Types) (fuel : Nat) : List CN → Except Err Unit
  | [] => .ok ()
  | x :: xs => match checkNode ts fuel x with
    | .error e => .error e
    | .ok () => checkItems ts fuel xs
def checkProps (ts : Types) (fuel : Nat) : List (String × Bool × Bool × Bool × CN) → Except Err Unit
  | [] => .ok ()
  | (_, _, _, _, x) :: xs => match checkNode ts fuel x with
    | .error e => .error e
    | .ok () => checkProps ts fuel xs
end

mutual
/-- or-shortcuts own an unnamed type each (`#…`), checked before the named types: their names must exist -/
def orShortsOK (ts : Types) : CN → Bool
  | .ref names _ _ _ orShort => !orShort || names.all fun n => (lookupT ts n).isSome
  | .arr items _ _ => orShortsItems ts items
  | .obj props _ _ _ => orShortsProps ts props
  | _ => true
def orShortsItems (ts : Types) : List CN → Bool
  | [] => true
  | x :: xs => orShortsOK ts x && orShortsItems ts xs
def orShortsProps (ts : Types) : List (String × Bool × Bool × Bool × CN) → Bool
  | [] => true
  | (_, _, _, _, x) :: xs => orShortsOK ts x && orShortsProps ts xs
end

mutual
/-- the recursion checker's view of a node -/
def toTG : CN → Bool × TG.N
  | .lit _ _ => (false, .scalar)
  | .any jt _ => (false, if jt == .obj then .obj [] else if jt == .arr then .arr else .scalar)
  | .arr _ _ _ => (false, .arr)
  | .ref names _ jt _ _ => (false, if jt == .mixed then .ref names else .scalar)
  | .obj props _ _ _ => (false, .obj (toTGProps props))
def toTGProps : List (String × Bool × Bool × Bool × CN) → List (Bool × TG.N)
  | [] => []
  | (_, _, _, optTrue, x) :: xs => (optTrue, (toTG x).2) :: toTGProps xs
end

def strLt (a b : String) : Bool := a < b

/-- insertion sort of the type names (`sort.Strings`) -/
def sortNames : List String → List String
  | [] => []
  | x :: xs =>
    let rec ins (x : String) : List String → List String
      | [] => [x]
      | y :: ys => if strLt y x then y :: ins x ys else x :: y :: ys
    ins x (sortNames xs)

mutual
/-- how many type names a tree mentions (fuel of the reference-following checks) -/
def namesCount : CN → Nat
  | .ref names _ _ _ _ => names.length + 1
  | .arr items _ _ => namesCountItems items
  | .obj props _ _ _ => namesCountProps props
  | _ => 0
def namesCountItems : List CN → Nat
  | [] => 0
  | x :: xs => namesCount x + namesCountItems xs
def namesCountProps : List (String × Bool × Bool × Bool × CN) → Nat
  | [] => 0
  | (_, _, _, _, x) :: xs => namesCount x + namesCountProps xs
end

/-- enough for every chain of references: each step consumes a name of a list or enters a type not yet on the path.
A chain that starts at the root of a named type may come back to that type once (the starting node is not on the path
set), and a name may occur several times in one list: the names of the starting list count twice — hence `2 *`
(`BridgeCK.checkA_no_fuel`: this amount is never exhausted; `ts.length + 2 + names` was not enough for
`@T = 1 // {or: ["@x" × 7, "@a"]}`, `@a = 2 // {type: "@T"}`, where the library answers 1303) -/
def checkFuel (root : Option CN) (ts : Types) : Nat :=
  ts.length + 2 + 2 * ((match root with | some r => namesCount r | none => 0) + (ts.map fun t => namesCount t.2).sum)

def checkTypes (ts : Types) (fuel : Nat) : List String → Except Err Unit
  | [] => .ok ()
  | name :: rest =>
    match lookupT ts name with
    | none => checkTypes ts fuel rest
    | some t =>
      match checkNode ts fuel t with
      | .error e => .error e
      | .ok () => checkTypes ts fuel rest

def tgOf (root : CN) (ts : Types) : TG.G :=
  { types := ts.map fun t => (t.1, (toTG t.2).2), root := (toTG root).2, rootName := "root" }

/-- `CheckRootSchema` + `CheckRecursion` -/
def check (root : CN) (ts : Types) : Except Err Unit :=
  match checkNode ts (checkFuel (some root) ts) root with
  | .error e => .error e
  | .ok () =>
    if !(ts.all fun t => orShortsOK ts t.2) then .error (.code 1302 0)
    else
      match checkTypes ts (checkFuel (some root) ts) (sortNames (ts.map (·.1))) with
      | .error e => .error e
      | .ok () => if TG.check (tgOf root ts) then .ok () else .error (.code 104 0)

/-- the same for a schema without EXAMPLE (no root node): only the types are checked -/
def checkNoRoot (ts : Types) : Except Err Unit :=
  if !(ts.all fun t => orShortsOK ts t.2) then .error (.code 1302 0)
  else checkTypes ts (checkFuel none ts) (sortNames (ts.map (·.1)))

/-! ### phase 4: the validator schema -/

def nullLit : Lit := .node { kind := .n, ex := [], nul := true, rules := [] }

def toAdd : Add → VK.AddMode Lit
  | .absent | .notAllowed => .none
  | .any => .any
  | .obj => .obj
  | .arr => .arr
  | .soft ks => .lit (.soft ks)
  | .type n => .type n

mutual
/-- `path` names the node (for the synthetic type of a nullable container) -/
def toVK (path : String) : CN → VK.S Lit
  | .lit spec _ => .lit (.node spec)
  | .any _ _ => .any
  | .ref names nul _ _ _ =>
    -- `newNullValidator`: `nullable` next to a types list adds a validator for the literal null only
    .ref names (if nul then some nullLit else none)
  | .arr items nul _ => if nul then .ref ["#" ++ path] (some nullLit) else .arr (toVKItems path 0 items)
  | .obj props add nul _ =>
    if nul then .ref ["#" ++ path] (some nullLit)
    else .obj (toVKProps path 0 false props) (toVKProps path 0 true props) (toAdd add)
def toVKItems (path : String) : Nat → List CN → List (VK.S Lit)
  | _, [] => []
  | i, x :: xs => toVK (path ++ "/" ++ toString i) x :: toVKItems path (i + 1) xs
/-- the plain properties (`short = false`) or the key shortcuts (`short = true`), in declaration order -/
def toVKProps (path : String) : Nat → Bool → List (String × Bool × Bool × Bool × CN) → List (String × Bool × VK.S Lit)
  | _, _, [] => []
  | i, short, (k, isShort, req, _, x) :: xs =>
    if isShort == short then (k, req, toVK (path ++ "/" ++ toString i) x) :: toVKProps path (i + 1) short xs
    else toVKProps path (i + 1) short xs
end

mutual
/-- the synthetic types of the nullable containers below a node -/
def synth (path : String) : CN → VK.Env Lit
  | .arr items nul _ =>
    (if nul then [("#" ++ path, VK.S.arr (toVKItems path 0 items))] else []) ++ synthItems path 0 items
  | .obj props add nul _ =>
    (if nul then [("#" ++ path, VK.S.obj (toVKProps path 0 false props) (toVKProps path 0 true props) (toAdd add))]
     else []) ++ synthProps path 0 props
  | _ => []
def synthItems (path : String) : Nat → List CN → VK.Env Lit
  | _, [] => []
  | i, x :: xs => synth (path ++ "/" ++ toString i) x ++ synthItems path (i + 1) xs
def synthProps (path : String) : Nat → List (String × Bool × Bool × Bool × CN) → VK.Env Lit
  | _, [] => []
  | i, (_, _, _, _, x) :: xs => synth (path ++ "/" ++ toString i) x ++ synthProps path (i + 1) xs
end

/-- the environment of the validator: the named types, then the synthetic ones -/
def envOf (root : CN) (ts : Types) : VK.Env Lit :=
  ts.map (fun t => (t.1, toVK t.1 t.2)) ++ synth "root" root ++ ts.flatMap (fun t => synth t.1 t.2)

/-! ### key shortcuts: `objectValidator.validateTypeRules` -/

/-- does the key type `@name` accept the (decoded) document key `k`? `none` = the validator panics (the root of
the key type is not a string literal node): outside the model -/
def keyType (ts : Types) (name : String) : Option RulesF.LitSpecF :=
  match lookupT ts ("@" ++ name) with
  | some (.lit spec _) => if spec.kind == .s then some spec else none
  | _ => none

def keyOK (ts : Types) (name : String) (k : String) : Bool :=
  match keyType ts name with
  | none => false
  | some spec =>
    let raw : Bytes := 34 :: (strBytes k ++ [34])
    if spec.rules.isEmpty && !spec.nul then spec.ex == raw
    else !spec.nul && spec.rules.all fun r => match r with
      | .minLength n => decide (n ≤ (strBytes k).length)
      | .maxLength n => decide ((strBytes k).length ≤ n)
      | .enum items => items.any fun it => RulesF.enumItem it == some (strBytes k, .s)
      | _ => false

mutual
/-- every key shortcut's type has a string literal root; `plainOnly`: some key type has no rule at all (then
document keys are compared as raw tokens) -/
def shortcutsOK (ts : Types) : CN → Bool
  | .arr items _ _ => shortcutsItems ts items
  | .obj props _ _ _ => shortcutsProps ts props
  | _ => true
def shortcutsItems (ts : Types) : List CN → Bool
  | [] => true
  | x :: xs => shortcutsOK ts x && shortcutsItems ts xs
def shortcutsProps (ts : Types) : List (String × Bool × Bool × Bool × CN) → Bool
  | [] => true
  | (k, isShort, _, _, x) :: xs => (!isShort || (keyType ts k).isSome) && shortcutsOK ts x && shortcutsProps ts xs
end

mutual
def rawKeyTypes (ts : Types) : CN → Bool
  | .arr items _ _ => rawKeyItems ts items
  | .obj props _ _ _ => rawKeyProps ts props
  | _ => false
def rawKeyItems (ts : Types) : List CN → Bool
  | [] => false
  | x :: xs => rawKeyTypes ts x || rawKeyItems ts xs
def rawKeyProps (ts : Types) : List (String × Bool × Bool × Bool × CN) → Bool
  | [] => false
  | (k, isShort, _, _, x) :: xs =>
    (isShort && (match keyType ts k with | some spec => spec.rules.isEmpty && !spec.nul | none => false))
      || rawKeyTypes ts x || rawKeyProps ts xs
end

end Compile
