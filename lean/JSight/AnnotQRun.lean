import JSight.AnnotQStep
/-!
Annotations with QUOTED rule names, scanner level: runs. A rule is `blanks NAME spaces ":" blanks value blanks` with
NAME bare (`IsName`) or quoted (`IsKey`: `"`, string characters with escapes and `\uXXXX`, `"`); the key-end event of a
bare name carries the span up to the byte before the colon (the spaces included), the key-end event of a quoted name
carries the span from quote to quote. `rules_runQ` / `obj_runQ` thread the `boundaryQuote` flag through the object.
-/
namespace SchemaScan

variable {data : Array Cls}

theorem cfgQ_byte {a : Ann} {q : Bool} {st : St} {r : List St} {K : List (LexT × Nat)} {u : Bool} {i : Nat}
    {CS : List Ctx} {cx : Ctx} {al : Bool} {c : Cls} {s1 s2 : Sc} {evs : List Ev} (hc : data[i]? = some c)
    (hd : ∀ p1 p2, dispatch 8 st (cfgQ a q st r K u (i + 1) CS cx al) c p1 p2 = .ok s1)
    (hi : s1.index = i + 1) (hdr : drainL data s1.finds s1 = .ok (s2, evs)) :
    Steps data (cfgQ a q st r K u i CS cx al) evs s2 :=
  Steps.byte (s := cfgQ a q st r K u i CS cx al) rfl hc hd hi hdr

theorem cfgQ_congr {a : Ann} {q : Bool} {st : St} {r : List St} {K K' : List (LexT × Nat)} {u : Bool} {i i' : Nat}
    {CS : List Ctx} {cx : Ctx} {al : Bool} (hK : K = K') (hi : i = i') :
    cfgQ a q st r K u i CS cx al = cfgQ a q st r K' u i' CS cx al := by
  subst hK hi; rfl

theorem ablank_runQ (a : Ann) (ha : a.isAnn = true) (q : Bool) : ∀ (ws : List Cls), ABlank a ws → ∀ (st : St),
    aLoop a st = true →
    ∀ (r : List St) (K : List (LexT × Nat)) (i : Nat) (CS : List Ctx) (cx : Ctx) (al : Bool), At data i ws →
    Steps data (cfgQ a q st r K false i CS cx al) (nlEvs i ws) (cfgQ a q (wsSt st ws) r K false (i + ws.length) CS cx al)
  | [], _, st, _, r, K, i, CS, cx, al, _ => Steps.refl _ _
  | c :: ws, hw, st, hl, r, K, i, CS, cx, al, hat => by
    obtain ⟨hc, hat'⟩ := hat
    rcases okBlank_cases hw.head with hs | ⟨rfl, rfl⟩
    · have ih := ablank_runQ a ha q ws hw.tail st hl r K (i + 1) CS cx al hat'
      have h1 : Steps data (cfgQ a q st r K false i CS cx al) [] (cfgQ a q st r K false (i + 1) CS cx al) :=
        cfgQ_byte hc (fun p1 p2 => aloop_spQ 7 q a ha st hl c hs r K (i + 1) CS cx al p1 p2) rfl rfl
      have := Steps.trans h1 ih
      simp only [nlEvs, wsSt, if_neg (sptab_ne_nl hs), List.nil_append, List.length_cons]
      rw [show i + (ws.length + 1) = i + 1 + ws.length by omega]
      exact this
    · have ih := ablank_runQ .multi ha q ws hw.tail (nlSt st) (aLoop_nlSt hl) r K (i + 1) CS cx al hat'
      have h1 : Steps data (cfgQ .multi q st r K false i CS cx al) [⟨.newLine, i, i⟩]
          (cfgQ .multi q (nlSt st) r K false (i + 1) CS cx al) :=
        cfgQ_byte hc (fun p1 p2 => aloop_nlQ 7 q st hl r K (i + 1) CS cx al p1 p2) rfl rfl
      have := Steps.trans h1 ih
      simp only [nlEvs, wsSt, if_true, List.length_cons]
      rw [show i + (ws.length + 1) = i + 1 + ws.length by omega]
      exact this

theorem tok_runQ (a : Ann) (q : Bool) : ∀ (tok : List Cls) (st : St) (r : List St) (u : Bool) (st' : St) (r' : List St)
    (u' : Bool), silentRun st r u tok = some (st', r', u') →
    ∀ (K : List (LexT × Nat)) (i : Nat) (CS : List Ctx) (cx : Ctx) (al : Bool), At data i tok →
    Steps data (cfgQ a q st r K u i CS cx al) [] (cfgQ a q st' r' K u' (i + tok.length) CS cx al)
  | [], st, r, u, st', r', u', h, K, i, CS, cx, al, _ => by
    simp only [silentRun, Option.some.injEq, Prod.mk.injEq] at h
    obtain ⟨rfl, rfl, rfl⟩ := h
    exact Steps.refl _ _
  | c :: cs, st, r, u, st', r', u', h, K, i, CS, cx, al, hat => by
    obtain ⟨hc, hat'⟩ := hat
    simp only [silentRun] at h
    cases hs : silent st r u c with
    | none => rw [hs] at h; cases h
    | some p =>
      obtain ⟨s1, r1, u1⟩ := p
      rw [hs] at h
      have h1 : Steps data (cfgQ a q st r K u i CS cx al) [] (cfgQ a q s1 r1 K u1 (i + 1) CS cx al) :=
        cfgQ_byte hc (fun p1 p2 => silent_dispatchQ 7 q a st r u c s1 r1 u1 hs K (i + 1) CS cx al p1 p2) rfl rfl
      have h2 := tok_runQ a q cs s1 r1 u1 st' r' u' h K (i + 1) CS cx al hat'
      have := Steps.trans h1 h2
      simp only [List.length_cons]
      rw [show i + (cs.length + 1) = i + 1 + cs.length by omega]
      exact this

/-- spaces between the closing quote of a rule name and the colon -/
theorem akspaces_run (a : Ann) (q : Bool) : ∀ (n : Nat) (r : List St)
    (K : List (LexT × Nat)) (i : Nat) (CS : List Ctx) (cx : Ctx) (al : Bool), At data i (List.replicate n Cls.sp) →
    Steps data (cfgQ a q .afterKey r K false i CS cx al) [] (cfgQ a q .afterKey r K false (i + n) CS cx al)
  | 0, r, K, i, CS, cx, al, _ => Steps.refl _ _
  | n + 1, r, K, i, CS, cx, al, hat => by
    simp only [List.replicate_succ] at hat
    obtain ⟨hc, hat'⟩ := hat
    have h1 : Steps data (cfgQ a q .afterKey r K false i CS cx al) []
        (cfgQ a q .afterKey r K false (i + 1) CS cx al) :=
      cfgQ_byte hc (fun p1 p2 => afterKey_spQ 7 q a r K (i + 1) CS cx al p1 p2) rfl rfl
    have h2 := akspaces_run a q n r K (i + 1) CS cx al hat'
    have := Steps.trans h1 h2
    rw [show i + (n + 1) = i + 1 + n by omega]
    exact this

/-! ### the name of a rule, up to and including the colon -/

/-- a BARE name: the key-end span includes the spaces before the colon; the flag is `false` afterwards -/
theorem key_run_bare (a : Ann) (ha : a.isAnn = true) (q : Bool) (b1 name : List Cls) (n2 : Nat) (hb1 : ABlank a b1)
    (hname : IsName name) {st : St} (hst : keySt st = true)
    (x : St) (K : List (LexT × Nat)) (p : Nat) (CS : List Ctx) (cx : Ctx) (al : Bool)
    (hat : At data p (b1 ++ (name ++ (List.replicate n2 Cls.sp ++ [Cls.colon])))) :
    Steps data (cfgQ a q st [x] K false p CS cx al)
      (nlEvs p b1 ++ [⟨.keyB, p + b1.length, p + b1.length⟩, ⟨.keyE, p + b1.length, p + b1.length + name.length + n2 - 1⟩])
      (cfgQ a false .objValue [x] K false (p + b1.length + name.length + n2 + 1) CS cx al) := by
  obtain ⟨hne, hname⟩ := hname
  rw [At_append, At_append, At_append] at hat
  obtain ⟨hat1, hatn, hatsp, hcolon, _⟩ := hat
  simp only [List.length_replicate] at hcolon
  have s1 := ablank_runQ a ha q b1 hb1 st (keySt_aLoop hst) [x] K p CS cx al hat1
  cases hn : name with
  | nil => exact absurd hn hne
  | cons n0 ns =>
    rw [hn] at hatn hname
    obtain ⟨hn0, hatns⟩ := hatn
    have s2 : Steps data (cfgQ a q (wsSt st b1) [x] K false (p + b1.length) CS cx al)
        [⟨.keyB, p + b1.length, p + b1.length⟩]
        (cfgA a .annKey [x] ((.keyB, p + b1.length) :: K) false (p + b1.length + 1) CS cx al) :=
      cfgQ_byte hn0 (fun p1 p2 => akey_firstQ 7 q a ha _ (keySt_wsSt hst b1) n0 (hname n0 (by simp)) [x] K
        (p + b1.length + 1) CS cx al p1 p2) rfl rfl
    have s3 := name_run a ns (fun c hc => hname c (by simp [hc])) [x] ((.keyB, p + b1.length) :: K)
      (p + b1.length + 1) CS cx al hatns
    have s4 : Steps data (cfgA a .annKey [x] ((.keyB, p + b1.length) :: K) false (p + b1.length + 1 + ns.length) CS cx al)
        [⟨.keyE, p + b1.length, p + b1.length + (ns.length + 1) + n2 - 1⟩]
        (cfgA a .objValue [x] K false (p + b1.length + (ns.length + 1) + n2 + 1) CS cx al) := by
      simp only [hn, List.length_cons] at hatsp hcolon
      cases h2 : n2 with
      | zero =>
        rw [h2] at hcolon
        have hc' : data[p + b1.length + 1 + ns.length]? = some .colon := by
          rw [show p + b1.length + 1 + ns.length = p + b1.length + (ns.length + 1) + 0 by omega]; exact hcolon
        refine (cfgA_byte hc' (fun p1 p2 => annKey_colon 5 a .annKey rfl [x] (p + b1.length) K _ CS cx al p1 p2)
          rfl rfl).cast ?_ (cfgA_congr rfl ?_)
        · show [(⟨LexT.keyE, p + b1.length, p + b1.length + 1 + ns.length + 1 - 1 - 1⟩ : Ev)] = _
          rw [show p + b1.length + 1 + ns.length + 1 - 1 - 1 = p + b1.length + (ns.length + 1) + 0 - 1 by omega]
        · show p + b1.length + 1 + ns.length + 1 = _
          omega
      | succ m =>
        rw [h2] at hatsp hcolon
        obtain ⟨hsp0, hsps⟩ := replicate_sp_at hatsp
        have hsp0' : data[p + b1.length + 1 + ns.length]? = some .sp := by
          rw [show p + b1.length + 1 + ns.length = p + b1.length + (ns.length + 1) by omega]; exact hsp0
        have t1 : Steps data (cfgA a .annKey [x] ((.keyB, p + b1.length) :: K) false
            (p + b1.length + 1 + ns.length) CS cx al) []
            (cfgA a .annKeyAfter [x] ((.keyB, p + b1.length) :: K) false (p + b1.length + 1 + ns.length + 1) CS cx al) :=
          cfgA_byte hsp0' (fun p1 p2 => annKey_sp 7 a [x] _ _ CS cx al p1 p2) rfl rfl
        have t2 := spaces_run a m [x] ((.keyB, p + b1.length) :: K) (p + b1.length + 1 + ns.length + 1) CS cx al
          (by rw [show p + b1.length + 1 + ns.length + 1 = p + b1.length + (ns.length + 1) + 1 by omega]; exact hsps)
        have hc' : data[p + b1.length + 1 + ns.length + 1 + m]? = some .colon := by
          rw [show p + b1.length + 1 + ns.length + 1 + m = p + b1.length + (ns.length + 1) + (m + 1) by omega]
          exact hcolon
        have t3 := cfgA_byte (a := a) (st := .annKeyAfter) (r := [x]) (K := (.keyB, p + b1.length) :: K) (u := false)
          (CS := CS) (cx := cx) (al := al) hc'
          (fun p1 p2 => annKey_colon 5 a .annKeyAfter rfl [x] (p + b1.length) K _ CS cx al p1 p2) rfl rfl
        refine (Steps.trans (Steps.trans t1 t2) t3).cast ?_ (cfgA_congr rfl ?_)
        · show [(⟨LexT.keyE, p + b1.length, p + b1.length + 1 + ns.length + 1 + m + 1 - 1 - 1⟩ : Ev)] = _
          rw [show p + b1.length + 1 + ns.length + 1 + m + 1 - 1 - 1 = p + b1.length + (ns.length + 1) + (m + 1) - 1 by omega]
        · show p + b1.length + 1 + ns.length + 1 + m + 1 = _
          omega
    refine (Steps.trans (Steps.trans (Steps.trans s1 s2) s3) s4).cast ?_ ?_
    · simp
    · simp only [List.length_cons]; rfl

/-- a QUOTED name: the key-end span runs from quote to quote; the flag is `true` afterwards -/
theorem key_run_quoted (a : Ann) (ha : a.isAnn = true) (q : Bool) (b1 name : List Cls) (n2 : Nat) (hb1 : ABlank a b1)
    (hname : IsKey name) {st : St} (hst : keySt st = true)
    (x : St) (K : List (LexT × Nat)) (p : Nat) (CS : List Ctx) (cx : Ctx) (al : Bool)
    (hat : At data p (b1 ++ (name ++ (List.replicate n2 Cls.sp ++ [Cls.colon])))) :
    Steps data (cfgQ a q st [x] K false p CS cx al)
      (nlEvs p b1 ++ [⟨.keyB, p + b1.length, p + b1.length⟩, ⟨.keyE, p + b1.length, p + b1.length + name.length - 1⟩])
      (cfgQ a true .objValue [x] K false (p + b1.length + name.length + n2 + 1) CS cx al) := by
  obtain ⟨tl, rfl, hr⟩ := hname
  rw [At_append, At_append, At_append] at hat
  obtain ⟨hat1, ⟨hq, hattl⟩, hatsp, hcolon, _⟩ := hat
  simp only [List.length_replicate, List.length_cons] at hcolon hatsp
  have s1 := ablank_runQ a ha q b1 hb1 st (keySt_aLoop hst) [x] K p CS cx al hat1
  have s2 : Steps data (cfgQ a q (wsSt st b1) [x] K false (p + b1.length) CS cx al)
      [⟨.keyB, p + b1.length, p + b1.length⟩]
      (cfgQ a true .inString [x] ((.keyB, p + b1.length) :: K) false (p + b1.length + 1) CS cx al) :=
    cfgQ_byte hq (fun p1 p2 => akey_quoteQ 7 q a ha _ (keySt_wsSt hst b1) [x] K
      (p + b1.length + 1) CS cx al p1 p2) rfl rfl
  have hr' := silentRun_ret tl .inString [] false .endValue [] false x hr
  have s3 := tok_runQ a true tl .inString [x] false .endValue [x] false hr' ((.keyB, p + b1.length) :: K)
    (p + b1.length + 1) CS cx al hattl
  have s4 : Steps data (cfgQ a true .endValue [x] ((.keyB, p + b1.length) :: K) false (p + b1.length + 1 + tl.length) CS cx al)
      [⟨.keyE, p + b1.length, p + b1.length + (tl.length + 1) - 1⟩]
      (cfgQ a true .objValue [x] K false (p + b1.length + (tl.length + 1) + n2 + 1) CS cx al) := by
    cases h2 : n2 with
    | zero =>
      rw [h2] at hcolon
      have hc' : data[p + b1.length + 1 + tl.length]? = some .colon := by
        rw [show p + b1.length + 1 + tl.length = p + b1.length + (tl.length + 1) + 0 by omega]; exact hcolon
      refine (cfgQ_byte hc' (fun p1 p2 => qkey_colon 5 true a [x] (p + b1.length) K _ CS cx al p1 p2)
        rfl rfl).cast ?_ (cfgQ_congr rfl ?_)
      · show [(⟨LexT.keyE, p + b1.length, p + b1.length + 1 + tl.length + 1 - 1 - 1⟩ : Ev)] = _
        rw [show p + b1.length + 1 + tl.length + 1 - 1 - 1 = p + b1.length + (tl.length + 1) - 1 by omega]
      · show p + b1.length + 1 + tl.length + 1 = _
        omega
    | succ m =>
      rw [h2] at hatsp hcolon
      obtain ⟨hsp0, hsps⟩ := replicate_sp_at hatsp
      have hsp0' : data[p + b1.length + 1 + tl.length]? = some .sp := by
        rw [show p + b1.length + 1 + tl.length = p + b1.length + (tl.length + 1) by omega]; exact hsp0
      have t1 : Steps data (cfgQ a true .endValue [x] ((.keyB, p + b1.length) :: K) false
          (p + b1.length + 1 + tl.length) CS cx al)
          [⟨.keyE, p + b1.length, p + b1.length + (tl.length + 1) - 1⟩]
          (cfgQ a true .afterKey [x] K false (p + b1.length + 1 + tl.length + 1) CS cx al) := by
        refine (cfgQ_byte hsp0' (fun p1 p2 => qkey_sp 5 true a [x] (p + b1.length) K _ CS cx al p1 p2) rfl rfl).cast ?_ rfl
        show [(⟨LexT.keyE, p + b1.length, p + b1.length + 1 + tl.length + 1 - 1 - 1⟩ : Ev)] = _
        rw [show p + b1.length + 1 + tl.length + 1 - 1 - 1 = p + b1.length + (tl.length + 1) - 1 by omega]
      have t2 := akspaces_run a true m [x] K (p + b1.length + 1 + tl.length + 1) CS cx al
        (by rw [show p + b1.length + 1 + tl.length + 1 = p + b1.length + (tl.length + 1) + 1 by omega]; exact hsps)
      have hc' : data[p + b1.length + 1 + tl.length + 1 + m]? = some .colon := by
        rw [show p + b1.length + 1 + tl.length + 1 + m = p + b1.length + (tl.length + 1) + (m + 1) by omega]
        exact hcolon
      have t3 : Steps data (cfgQ a true .afterKey [x] K false (p + b1.length + 1 + tl.length + 1 + m) CS cx al) []
          (cfgQ a true .objValue [x] K false (p + b1.length + 1 + tl.length + 1 + m + 1) CS cx al) :=
        cfgQ_byte hc' (fun p1 p2 => afterKey_colonQ 7 true a [x] K _ CS cx al p1 p2) rfl rfl
      refine (Steps.trans (Steps.trans t1 t2) t3).cast (by simp) (cfgQ_congr rfl ?_)
      omega
  refine (Steps.trans (Steps.trans (Steps.trans s1 s2) s3) s4).cast ?_ ?_
  · simp
  · simp only [List.length_cons]

/-! ### the value of a rule, up to its last byte -/

theorem val_runQ (a : Ann) (ha : a.isAnn = true) (q : Bool) (b3 val : List Cls) (hb3 : ABlank a b3)
    (hval : IsScalar val) (x : St) (K : List (LexT × Nat)) (p : Nat) (CS : List Ctx) (cx : Ctx) (al : Bool)
    (hat : At data p (b3 ++ val)) :
    ∃ stE, PV stE = true ∧
      Steps data (cfgQ a q .objValue [x] K false p CS cx al)
        (nlEvs p b3 ++ [⟨.valB, p + b3.length, p + b3.length⟩, ⟨.litB, p + b3.length, p + b3.length⟩])
        (cfgQ a q stE [x] ((.litB, p + b3.length) :: (.valB, p + b3.length) :: K) false (p + b3.length + val.length)
          CS cx al) := by
  obtain ⟨c, tl, st0, unf0, stE, hve, hs, hr, hp⟩ := hval
  rw [At_append] at hat
  obtain ⟨hat3, hatv⟩ := hat
  have s5 := ablank_runQ a ha q b3 hb3 .objValue rfl [x] K p CS cx al hat3
  rw [wsSt_eq (by simp)] at s5
  rw [hve] at hatv
  obtain ⟨hc0, hattl⟩ := hatv
  have s6 : Steps data (cfgQ a q .objValue [x] K false (p + b3.length) CS cx al)
      [⟨.valB, p + b3.length, p + b3.length⟩, ⟨.litB, p + b3.length, p + b3.length⟩]
      (cfgQ a q st0 [x] ((.litB, p + b3.length) :: (.valB, p + b3.length) :: K) unf0 (p + b3.length + 1) CS cx al) :=
    cfgQ_byte hc0 (fun p1 p2 => aval_startQ 7 q a c st0 unf0 hs [x] K _ CS cx al p1 p2) rfl rfl
  have hr' := silentRun_ret tl st0 [] unf0 stE [] false x hr
  have s7 := tok_runQ a q tl st0 [x] unf0 stE [x] false hr' ((.litB, p + b3.length) :: (.valB, p + b3.length) :: K)
    (p + b3.length + 1) CS cx al hattl
  refine ⟨stE, hp, (Steps.trans (Steps.trans s5 s6) s7).cast (by simp) (cfgQ_congr rfl ?_)⟩
  simp only [hve, List.length_cons]; omega

/-! ### behind the value -/

theorem aclose_blankQ (a : Ann) (ha : a.isAnn = true) (q : Bool) {st : St} (hst : PV st = true) (c : Cls)
    (hc : a.okBlank c = true)
    (x : St) (b b2 : Nat) (K : List (LexT × Nat)) (i : Nat) (CS : List Ctx) (cx : Ctx) (al : Bool)
    (hcat : data[i]? = some c) :
    Steps data (cfgQ a q st [x] ((.litB, b) :: (.valB, b2) :: K) false i CS cx al)
      ([⟨.litE, b, i - 1⟩, ⟨.valE, b2, i - 1⟩] ++ nlEvs i [c])
      (cfgQ a q .afterValue [x] K false (i + 1) CS cx al) := by
  rcases okBlank_cases hc with hs | ⟨rfl, rfl⟩
  · refine (cfgQ_byte hcat (fun p1 p2 =>
      (pv_dispatch 7 st hst c (by cases c <;> simp [Cls.isSpTab] at hs <;> rfl) _ p1 p2).trans
        ((ev_closeQ 7 q a st [x] b b2 K (i + 1) CS cx al c p1 p2).trans
          (aaft_spQ 6 q a c hs [x] _ (i + 1) CS cx al _ p1 p2))) rfl rfl).cast ?_ rfl
    show [(⟨LexT.litE, b, i + 1 - 1 - 1⟩ : Ev), ⟨LexT.valE, b2, i + 1 - 1 - 1⟩] = _
    simp [nlEvs, sptab_ne_nl hs]
  · refine (cfgQ_byte hcat (fun p1 p2 =>
      (pv_dispatch 7 st hst .nl rfl _ p1 p2).trans
        ((ev_closeQ 7 q .multi st [x] b b2 K (i + 1) CS cx al .nl p1 p2).trans
          (aaft_nlQ 6 q [x] _ (i + 1) CS cx al _ p1 p2))) rfl rfl).cast ?_ rfl
    show [(⟨LexT.litE, b, i + 1 - 1 - 1⟩ : Ev), ⟨LexT.valE, b2, i + 1 - 1 - 1⟩, ⟨LexT.newLine, i + 1 - 1, i + 1 - 1⟩] = _
    simp [nlEvs]

theorem rule_close_commaQ (a : Ann) (ha : a.isAnn = true) (q : Bool) {st : St} (hst : PV st = true) (b4 : List Cls)
    (hb4 : ABlank a b4) (x : St) (b b2 : Nat) (K : List (LexT × Nat)) (i : Nat) (CS : List Ctx) (cx : Ctx) (al : Bool)
    (hat : At data i (b4 ++ [Cls.comma])) :
    Steps data (cfgQ a q st [x] ((.litB, b) :: (.valB, b2) :: K) false i CS cx al)
      (⟨.litE, b, i - 1⟩ :: ⟨.valE, b2, i - 1⟩ :: nlEvs i b4)
      (cfgQ a q .objKey [x] K false (i + b4.length + 1) CS cx al) := by
  cases b4 with
  | nil =>
    exact cfgQ_byte hat.1 (fun p1 p2 =>
      (pv_dispatch 7 st hst .comma rfl _ p1 p2).trans
        ((ev_closeQ 7 q a st [x] b b2 K (i + 1) CS cx al .comma p1 p2).trans
          (aaft_commaQ 6 q a [x] _ (i + 1) CS cx al _ p1 p2))) rfl rfl
  | cons c w =>
    rw [At_append] at hat
    obtain ⟨⟨hc, hatw⟩, hcomma, _⟩ := hat
    have s1 := aclose_blankQ a ha q hst c hb4.head x b b2 K i CS cx al hc
    have s2 := ablank_runQ a ha q w hb4.tail .afterValue rfl [x] K (i + 1) CS cx al hatw
    rw [wsSt_eq (by simp)] at s2
    have s3 : Steps data (cfgQ a q .afterValue [x] K false (i + 1 + w.length) CS cx al) []
        (cfgQ a q .objKey [x] K false (i + 1 + w.length + 1) CS cx al) :=
      cfgQ_byte (by rw [show i + 1 + w.length = i + (w.length + 1) by omega]; exact hcomma)
        (fun p1 p2 => aaft_commaQ 7 q a [x] K _ CS cx al [] p1 p2) rfl rfl
    refine (Steps.trans (Steps.trans s1 s2) s3).cast ?_ (cfgQ_congr rfl ?_)
    · simp [nlEvs]
    · simp only [List.length_cons]; omega

theorem rule_close_rbraceQ (a : Ann) (ha : a.isAnn = true) (q : Bool) {st : St} (hst : PV st = true) (b4 : List Cls)
    (hb4 : ABlank a b4) (x : St) (b b2 o y : Nat) (R : List (LexT × Nat)) (i : Nat) (c0 : Ctx) (CS : List Ctx)
    (cx : Ctx) (al : Bool) (hat : At data i (b4 ++ [Cls.rbrace])) :
    Steps data (cfgQ a q st [x] ((.litB, b) :: (.valB, b2) :: (.objB, o) :: (a.B, y) :: R) false i (c0 :: CS) cx al)
      (⟨.litE, b, i - 1⟩ :: ⟨.valE, b2, i - 1⟩ :: (nlEvs i b4 ++ [⟨.objE, o, i + b4.length⟩]))
      (cfgQ a q a.prefixSt [x] ((a.B, y) :: R) false (i + b4.length + 1) CS c0 al) := by
  cases b4 with
  | nil =>
    exact cfgQ_byte hat.1 (fun p1 p2 =>
      (pv_dispatch 7 st hst .rbrace rfl _ p1 p2).trans
        ((ev_closeQ 7 q a st [x] b b2 _ (i + 1) (c0 :: CS) cx al .rbrace p1 p2).trans
          (aaft_rbrace_litQ 6 q a ha [x] b b2 o y R (i + 1) c0 CS cx al p1 p2))) rfl rfl
  | cons c w =>
    rw [At_append] at hat
    obtain ⟨⟨hc, hatw⟩, hrb, _⟩ := hat
    have s1 := aclose_blankQ a ha q hst c hb4.head x b b2 ((.objB, o) :: (a.B, y) :: R) i (c0 :: CS) cx al hc
    have s2 := ablank_runQ a ha q w hb4.tail .afterValue rfl [x] ((.objB, o) :: (a.B, y) :: R) (i + 1) (c0 :: CS) cx al hatw
    rw [wsSt_eq (by simp)] at s2
    have s3 : Steps data (cfgQ a q .afterValue [x] ((.objB, o) :: (a.B, y) :: R) false (i + 1 + w.length) (c0 :: CS) cx al)
        [⟨.objE, o, i + 1 + w.length⟩] (cfgQ a q a.prefixSt [x] ((a.B, y) :: R) false (i + 1 + w.length + 1) CS c0 al) :=
      cfgQ_byte (by rw [show i + 1 + w.length = i + (w.length + 1) by omega]; exact hrb)
        (fun p1 p2 => aobj_rbraceQ 7 q a ha .afterValue (Or.inr rfl) [x] o y R _ c0 CS cx al p1 p2) rfl rfl
    refine (Steps.trans (Steps.trans s1 s2) s3).cast ?_ (cfgQ_congr rfl ?_)
    · simp only [nlEvs, List.length_cons, List.cons_append, List.nil_append, List.append_assoc, List.append_nil]
      rw [show i + (w.length + 1) = i + 1 + w.length by omega]
    · simp only [List.length_cons]; omega

end SchemaScan
