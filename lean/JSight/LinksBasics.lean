import JSight.LinksSpec
/-!
C09 (a), helper lemmas: the pre-order list of a schema mentions exactly the names the schema references.
-/
namespace LK

def shortcuts (keys : List (String × Bool)) : List String := (keys.filter (·.2)).map (·.1)

def Item.allOfNames : Item → List String
  | .obj _ _ ao => ao
  | _ => []

def Item.checkNames : Item → List String
  | .lit _ ms => userNames ms
  | .ref ns => ns
  | .arr => []
  | .obj keys addp _ => shortcuts keys ++ addp.toList
  | .inh _ => []

def CItem.names : CItem → List String
  | .lit _ ms => userNames ms
  | .ref ns => ns
  | .arr => []
  | .obj keys addp => shortcuts keys ++ addp.toList

/-- the names an item mentions -/
def Item.Mentions (it : Item) (n : String) : Prop := n ∈ it.allOfNames ∨ n ∈ it.checkNames

theorem mem_userNames' (ms : List Mem) (n : String) : n ∈ userNames ms ↔ Mem.user n ∈ ms := by
  induction ms with
  | nil => simp [userNames]
  | cons m ms ih =>
    cases m with
    | user x => simp [userNames, ih]
    | builtin j => simp [userNames, ih]

theorem mem_shortcuts (keys : List (String × Bool)) (n : String) : n ∈ shortcuts keys ↔ (n, true) ∈ keys := by
  unfold shortcuts
  simp only [List.mem_map, List.mem_filter]
  constructor
  · rintro ⟨⟨k, b⟩, ⟨hm, hb⟩, rfl⟩
    simp only at hb
    subst hb
    exact hm
  · intro h
    exact ⟨(n, true), ⟨h, rfl⟩, rfl⟩

theorem mem_keysOf (ps : List (String × Bool × N)) (k : String) (b : Bool) :
    (k, b) ∈ keysOf ps ↔ ∃ v, (k, b, v) ∈ ps := by
  unfold keysOf
  simp only [List.mem_map]
  constructor
  · rintro ⟨⟨k', b', v⟩, hm, he⟩
    simp only [Prod.mk.injEq] at he
    obtain ⟨rfl, rfl⟩ := he
    exact ⟨v, hm⟩
  · rintro ⟨v, hv⟩
    exact ⟨(k, b, v), hv, rfl⟩

mutual
theorem refs_iff_flat : (t : N) → (n : String) → RefsN t n ↔ ∃ it ∈ flat t, it.Mentions n
  | .lit jt tl e, n => by
    simp only [flat, List.mem_singleton, exists_eq_left, Item.Mentions, Item.allOfNames, Item.checkNames,
      List.not_mem_nil, false_or, mem_userNames']
    cases tl with
    | none =>
      simp only [TL.members, List.not_mem_nil, iff_false]
      intro h; cases h
    | typ x =>
      simp only [TL.members, List.mem_singleton, Mem.user.injEq]
      constructor
      · intro h; cases h; rfl
      · intro h; subst h; exact .litType jt n e
    | orr ms =>
      simp only [TL.members]
      constructor
      · intro h; cases h; assumption
      · intro h; exact .litOr jt ms n e h
  | .ref names, n => by
    simp only [flat, List.mem_singleton, exists_eq_left, Item.Mentions, Item.allOfNames, Item.checkNames,
      List.not_mem_nil, false_or]
    constructor
    · intro h; cases h; assumption
    · intro h; exact .ref names n h
  | .arr items, n => by
    have ih := refsItems_iff_flat items n
    constructor
    · intro h
      cases h with
      | item _ x _ hx hr =>
        obtain ⟨it, hit, hm⟩ := ih.1 ⟨x, hx, hr⟩
        exact ⟨it, by simp [flat, hit], hm⟩
    · rintro ⟨it, hit, hm⟩
      simp only [flat, List.mem_cons] at hit
      rcases hit with rfl | hit
      · rcases hm with hm | hm <;> simp [Item.allOfNames, Item.checkNames] at hm
      · obtain ⟨x, hx, hr⟩ := ih.2 ⟨it, hit, hm⟩
        exact .item items x n hx hr
  | .obj ao ap ps, n => by
    have ih := refsProps_iff_flat ps n
    have hroot : Item.obj (keysOf ps) ap ao ∈ flat (.obj ao ap ps) := by simp [flat]
    constructor
    · intro h
      cases h with
      | allOf _ _ _ _ h => exact ⟨_, hroot, Or.inl h⟩
      | addp _ _ _ => exact ⟨_, hroot, Or.inr (by simp [Item.checkNames])⟩
      | key _ _ _ _ v hv =>
        refine ⟨_, hroot, Or.inr ?_⟩
        simp only [Item.checkNames, List.mem_append]
        exact Or.inl ((mem_shortcuts _ _).2 ((mem_keysOf ps n true).2 ⟨v, hv⟩))
      | prop _ _ _ k sc v _ hm hr =>
        obtain ⟨it, hit, hmm⟩ := ih.1 ⟨k, sc, v, hm, hr⟩
        exact ⟨it, by simp [flat, hit], hmm⟩
    · rintro ⟨it, hit, hm⟩
      simp only [flat, List.mem_cons, List.mem_append, List.not_mem_nil, or_false] at hit
      rcases hit with rfl | hit | rfl
      · rcases hm with hm | hm
        · exact .allOf ao ap ps n hm
        · simp only [Item.checkNames, List.mem_append] at hm
          rcases hm with hm | hm
          · obtain ⟨v, hv⟩ := (mem_keysOf ps n true).1 ((mem_shortcuts _ _).1 hm)
            exact .key ao ap ps n v hv
          · cases ap with
            | none => simp at hm
            | some a =>
              have : n = a := by simpa using hm
              subst this; exact .addp ao ps n
      · obtain ⟨k, sc, v, hv, hr⟩ := ih.2 ⟨it, hit, hm⟩
        exact .prop ao ap ps k sc v n hv hr
      · rcases hm with hm | hm <;> simp [Item.allOfNames, Item.checkNames] at hm
theorem refsItems_iff_flat : (xs : List N) → (n : String) →
    (∃ x ∈ xs, RefsN x n) ↔ ∃ it ∈ flatItems xs, it.Mentions n
  | [], n => by simp [flatItems]
  | x :: xs, n => by
    have ih1 := refs_iff_flat x n
    have ih2 := refsItems_iff_flat xs n
    constructor
    · rintro ⟨y, hy, hr⟩
      rcases List.mem_cons.1 hy with rfl | hy
      · obtain ⟨it, hit, hm⟩ := ih1.1 hr
        exact ⟨it, by simp [flatItems, hit], hm⟩
      · obtain ⟨it, hit, hm⟩ := ih2.1 ⟨y, hy, hr⟩
        exact ⟨it, by simp [flatItems, hit], hm⟩
    · rintro ⟨it, hit, hm⟩
      simp only [flatItems, List.mem_append] at hit
      rcases hit with hit | hit
      · exact ⟨x, List.mem_cons_self, ih1.2 ⟨it, hit, hm⟩⟩
      · obtain ⟨y, hy, hr⟩ := ih2.2 ⟨it, hit, hm⟩
        exact ⟨y, List.mem_cons_of_mem _ hy, hr⟩
theorem refsProps_iff_flat : (ps : List (String × Bool × N)) → (n : String) →
    (∃ k sc v, (k, sc, v) ∈ ps ∧ RefsN v n) ↔ ∃ it ∈ flatProps ps, it.Mentions n
  | [], n => by simp [flatProps]
  | (k, sc, v) :: ps, n => by
    have ih1 := refs_iff_flat v n
    have ih2 := refsProps_iff_flat ps n
    constructor
    · rintro ⟨k', sc', w, hw, hr⟩
      rcases List.mem_cons.1 hw with hw | hw
      · have e3 : w = v := by
          have := (Prod.mk.inj hw).2
          exact (Prod.mk.inj this).2
        subst e3
        obtain ⟨it, hit, hm⟩ := ih1.1 hr
        exact ⟨it, by simp [flatProps, hit], hm⟩
      · obtain ⟨it, hit, hm⟩ := ih2.1 ⟨k', sc', w, hw, hr⟩
        exact ⟨it, by simp [flatProps, hit], hm⟩
    · rintro ⟨it, hit, hm⟩
      simp only [flatProps, List.mem_append] at hit
      rcases hit with hit | hit
      · exact ⟨k, sc, v, List.mem_cons_self, ih1.2 ⟨it, hit, hm⟩⟩
      · obtain ⟨k', sc', w, hw, hr⟩ := ih2.2 ⟨it, hit, hm⟩
        exact ⟨k', sc', w, List.mem_cons_of_mem _ hw, hr⟩
end

/-! ### the table -/

theorem lookup_mem (g : G) (t : String) (body : N) (h : lookup g t = some body) : t ∈ g.types.map (·.1) := by
  unfold lookup at h
  cases hf : g.types.find? (·.1 == t) with
  | none => simp [hf] at h
  | some p =>
    have hm := List.mem_of_find?_eq_some hf
    have hp := List.find?_some hf
    have e : p.1 = t := by simpa using hp
    exact List.mem_map.2 ⟨p, hm, e⟩

theorem lookup_of_mem (g : G) (t : String) (h : t ∈ g.types.map (·.1)) : ∃ body, lookup g t = some body := by
  unfold lookup
  obtain ⟨p, hm, e⟩ := List.mem_map.1 h
  cases hf : g.types.find? (·.1 == t) with
  | none =>
    have := List.find?_eq_none.1 hf p hm
    simp [e] at this
  | some q => exact ⟨q.2, rfl⟩

theorem notInTable_of_none (g : G) (n : String) (h : lookup g n = none) : ¬ InTable g n := by
  rintro ⟨b, hb⟩; rw [h] at hb; cases hb

theorem mem_insertSorted (x : String) (l : List String) (y : String) : y ∈ insertSorted x l ↔ y = x ∨ y ∈ l := by
  induction l with
  | nil => simp [insertSorted]
  | cons z zs ih =>
    unfold insertSorted
    by_cases h : x < z
    · simp [h]
    · simp only [h, if_false, List.mem_cons, ih]
      constructor
      · rintro (h1 | h1 | h1)
        · exact Or.inr (Or.inl h1)
        · exact Or.inl h1
        · exact Or.inr (Or.inr h1)
      · rintro (h1 | h1 | h1)
        · exact Or.inr (Or.inl h1)
        · exact Or.inl h1
        · exact Or.inr (Or.inr h1)

theorem mem_sortStrings (l : List String) (y : String) : y ∈ sortStrings l ↔ y ∈ l := by
  induction l with
  | nil => simp [sortStrings]
  | cons x xs ih => simp [sortStrings, mem_insertSorted, ih]

theorem mem_sortedNames (g : G) (t : String) : t ∈ sortedNames g ↔ InTable g t := by
  unfold sortedNames InTable
  rw [mem_sortStrings]
  exact ⟨lookup_of_mem g t, fun ⟨b, hb⟩ => lookup_mem g t b hb⟩

/-- every mention inside the root or inside a type of the table is a reference of the graph -/
theorem refs_of_flat_root (g : G) (it : Item) (h : it ∈ flat g.root) (n : String) (hn : it.Mentions n) : Refs g n :=
  Or.inl ((refs_iff_flat g.root n).2 ⟨it, h, hn⟩)

theorem refs_of_flat_type (g : G) (t : String) (body : N) (hl : lookup g t = some body) (it : Item)
    (h : it ∈ flat body) (n : String) (hn : it.Mentions n) : Refs g n :=
  Or.inr ⟨t, body, hl, (refs_iff_flat body n).2 ⟨it, h, hn⟩⟩

end LK
