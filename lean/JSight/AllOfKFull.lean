import JSight.AllOfKSem
import JSight.AllOfKTrans
/-!
C03, allOf: the statement of the property, literally. An expanded type whose keys are all plain accepts an object
document iff the document meets the requirement of every own property of the type AND of every own property of every
type it inherits from through any number of allOf steps, and additionalProperties (the first constraint present: the
type's own, else the first one met along the bases) accepts every member whose key none of them names.
(`allOf_semantics_transitive`: `AllOfKSem.allOf_semantics_conj` unfolded along `AllOfKTrans.allOf_transitive`.)
-/
namespace AOK
open VN (J)
variable {L D : Type}

/-- the requirement one property puts on the members of a document: every member with its key has a value the
property accepts (`VK.shape`: the union over the alternatives of the position), and a required key is present -/
def EntryMet (env : VK.Env L) (litOK : L → D → Bool) (keyOK : String → String → Bool)
    (e : String × Bool × Bool × CS L) (ms : List (String × J D)) : Prop :=
  (∀ m ∈ ms, m.1 = e.1 → VK.shape env litOK keyOK (toVK e.2.2.2) m.2 = true) ∧
  (e.2.2.1 = true → ∃ m ∈ ms, m.1 = e.1)

theorem lookup_plainOf_some_iff (ents : List (String × Bool × Bool × CS L)) (hnd : (ents.map keyOf).Nodup)
    (k : String) (s : VK.S L) :
    VK.lookup (plainOf ents) k = some s ↔ ∃ e ∈ ents, e.1 = k ∧ e.2.1 = false ∧ toVK e.2.2.2 = s := by
  induction ents with
  | nil => simp [plainOf, VK.lookup]
  | cons e es ih =>
    obtain ⟨k', sh, r, v⟩ := e
    simp only [List.map_cons, List.nodup_cons] at hnd
    cases sh with
    | true =>
      simp only [plainOf, if_true, ih hnd.2, List.mem_cons, exists_eq_or_imp, Bool.true_eq_false, false_and,
        and_false, false_or]
    | false =>
      simp only [plainOf, Bool.false_eq_true, if_false, VK.lookup, List.find?_cons]
      by_cases hk : k' = k
      · subst hk
        simp only [beq_self_eq_true, Option.map_some, Option.some.injEq, List.mem_cons, exists_eq_or_imp, true_and]
        constructor
        · intro h; exact Or.inl h
        · rintro (h | ⟨e, he, hek, hes, _⟩)
          · exact h
          · exfalso
            apply hnd.1
            exact List.mem_map.2 ⟨e, he, by simp [keyOf, hek, hes]⟩
      · have : (k' == k) = false := by simpa using hk
        simp only [this]
        have ih' := ih hnd.2
        simp only [VK.lookup] at ih'
        rw [ih']
        simp only [List.mem_cons, exists_eq_or_imp, hk, false_and, false_or]

theorem lookup_plainOf_none_iff (ents : List (String × Bool × Bool × CS L)) (k : String) :
    VK.lookup (plainOf ents) k = none ↔ ∀ e ∈ ents, e.2.1 = false → e.1 ≠ k := by
  induction ents with
  | nil => simp [plainOf, VK.lookup]
  | cons e es ih =>
    obtain ⟨k', sh, r, v⟩ := e
    cases sh with
    | true => simp only [plainOf, if_true, ih, List.forall_mem_cons, Bool.true_eq_false, false_imp_iff, true_and]
    | false =>
      simp only [plainOf, Bool.false_eq_true, if_false, VK.lookup, List.find?_cons, List.forall_mem_cons, true_imp_iff]
      by_cases hk : k' = k
      · subst hk; simp
      · have : (k' == k) = false := by simpa using hk
        simp only [this]
        simp only [VK.lookup] at ih
        rw [ih]
        simp [hk]

theorem mem_requiredKeys_plainOf (ents : List (String × Bool × Bool × CS L)) (k : String) :
    k ∈ VK.requiredKeys (plainOf ents) ↔ ∃ e ∈ ents, e.1 = k ∧ e.2.1 = false ∧ e.2.2.1 = true := by
  induction ents with
  | nil => simp [plainOf, VK.requiredKeys]
  | cons e es ih =>
    obtain ⟨k', sh, r, v⟩ := e
    cases sh with
    | true =>
      simp only [plainOf, if_true, ih, List.mem_cons, exists_eq_or_imp, Bool.true_eq_false, false_and, and_false,
        false_or]
    | false =>
      have : VK.requiredKeys ((k', r, toVK v) :: plainOf es) = (if r then [k'] else []) ++ VK.requiredKeys (plainOf es) := by
        cases r <;> simp [VK.requiredKeys, List.filter_cons]
      simp only [plainOf, Bool.false_eq_true, if_false, this, List.mem_append, ih, List.mem_cons, exists_eq_or_imp,
        true_and]
      cases r with
      | false => simp
      | true =>
        simp only [if_true, List.mem_singleton, and_true]
        constructor
        · rintro (h | h)
          · exact Or.inl h.symm
          · exact Or.inr h
        · rintro (h | h)
          · exact Or.inl h.symm
          · exact Or.inr h

/-- an object whose keys are all plain and distinct: accepted iff every property's requirement is met and
additionalProperties accepts every member no property names -/
theorem plain_object_accepts_iff (envV : VK.Env L) (litOK : L → D → Bool) (keyOK : String → String → Bool)
    (ents : List (String × Bool × Bool × CS L)) (req : List String) (add : Option (AP L))
    (hplain : ∀ e ∈ ents, e.2.1 = false) (hnd : (ents.map keyOf).Nodup) (ms : List (String × J D)) :
    VK.validateT envV litOK keyOK (toVK (.obj ents req add)) (.obj ms) = true ↔
      (∀ e ∈ ents, EntryMet envV litOK keyOK e ms) ∧
      (∀ m ∈ ms, (∀ e ∈ ents, e.1 ≠ m.1) → AddAccepts envV litOK keyOK (modeOf add) m.2 = true) := by
  rw [VK.C03_key_shortcuts]
  simp only [toVK, VK.shape, alts_obj, List.any_cons, List.any_nil, Bool.or_false, VK.shapeA,
    shortsOf_nil_of_plain ents hplain, VK.requiredKeys, List.filter_nil, List.map_nil, List.append_nil]
  rw [shapeMembers_plain]
  constructor
  · rintro ⟨h1, h2⟩
    refine ⟨?_, ?_⟩
    · intro e he
      refine ⟨?_, ?_⟩
      · intro m hm hme
        have := h1 m hm
        rw [(lookup_plainOf_some_iff ents hnd m.1 (toVK e.2.2.2)).2 ⟨e, he, hme.symm, hplain e he, rfl⟩] at this
        exact this
      · intro hr
        have : e.1 ∈ VK.requiredKeys (plainOf ents) :=
          (mem_requiredKeys_plainOf ents e.1).2 ⟨e, he, rfl, hplain e he, hr⟩
        exact h2 e.1 (by simpa [VK.requiredKeys] using this)
    · intro m hm hno
      have := h1 m hm
      rw [(lookup_plainOf_none_iff ents m.1).2 (fun e he _ => hno e he)] at this
      exact this
  · rintro ⟨h1, h2⟩
    refine ⟨?_, ?_⟩
    · intro m hm
      cases hl : VK.lookup (plainOf ents) m.1 with
      | some s =>
        obtain ⟨e, he, hek, _, hs⟩ := (lookup_plainOf_some_iff ents hnd m.1 s).1 hl
        subst hs
        exact (h1 e he).1 m hm hek.symm
      | none =>
        exact h2 m hm (fun e he => (lookup_plainOf_none_iff ents m.1).1 hl e he (hplain e he))
    · intro k hk
      have : k ∈ VK.requiredKeys (plainOf ents) := by simpa [VK.requiredKeys] using hk
      obtain ⟨e, he, hek, _, hr⟩ := (mem_requiredKeys_plainOf ents k).1 this
      obtain ⟨m, hm, hmk⟩ := (h1 e he).2 hr
      exact ⟨m, hm, by rw [hmk, hek]⟩

section
variable [DecidableEq L]

/-- **C03, allOf, as the property reads**: a type `n` of the table that expands to `c` (an object whose keys are
plain and pairwise distinct — the expansion guarantees distinctness between own and inherited keys and among the
inherited ones, the loader within the own ones) accepts an object document iff its members meet the requirement of
every OWN property of `n` and of every own property of every type `m` that `n` inherits from through any number of
allOf steps, and additionalProperties accepts every member whose key none of these properties names -/
theorem allOf_semantics_transitive (env : PEnv L) (envV : VK.Env L) (litOK : L → D → Bool) (keyOK : String → String → Bool)
    (f : Nat) (P : List String) (n : String) (c : CS L) (h : processType env f P n = .ok c)
    (hplain : ∀ e ∈ entsOf c, e.2.1 = false) (hnd : ((entsOf c).map keyOf).Nodup) (hobj : isObj c = true)
    (ms : List (String × J D)) :
    VK.validateT envV litOK keyOK (toVK c) (.obj ms) = true ↔
      (∀ e ∈ ownPart env n c, EntryMet envV litOK keyOK e ms) ∧
      (∀ m cm, Anc env n m → Expands env m cm → ∀ e ∈ ownPart env m cm, EntryMet envV litOK keyOK e ms) ∧
      (∀ m ∈ ms, (∀ e ∈ entsOf c, e.1 ≠ m.1) → AddAccepts envV litOK keyOK (modeOf (addOf c)) m.2 = true) := by
  have htr := allOf_transitive env f P n c h
  obtain ⟨ents, req, add, rfl⟩ := (isObj_iff c).1 hobj
  simp only [entsOf, addOf] at hplain hnd htr ⊢
  rw [plain_object_accepts_iff envV litOK keyOK ents req add hplain hnd ms]
  constructor
  · rintro ⟨h1, h2⟩
    refine ⟨fun e he => h1 e ((htr e).2 (Or.inl he)), ?_, h2⟩
    intro m cm ha hx e he
    exact h1 e ((htr e).2 (Or.inr ⟨m, cm, ha, hx, he⟩))
  · rintro ⟨h1, h2, h3⟩
    refine ⟨?_, h3⟩
    intro e he
    rcases (htr e).1 he with ho | ⟨m, cm, ha, hx, hm⟩
    · exact h1 e ho
    · exact h2 m cm ha hx e hm

end

end AOK
