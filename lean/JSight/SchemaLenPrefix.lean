import JSight.SchemaLenTokEv
/-!
C14: "the prefix of length `Len` is accepted with the same meaning" — for a schema `S` (token list ending with its
top-level value) followed by layout `w`, a foreign byte and anything: `Len = |S|`, and the events of `S` scanned alone
are the events `Length()` reads inside the longer text, up to the `newLine` events of `w`.
-/
namespace SchemaScan
namespace Len

theorem trun_snoc_inv : ∀ (ts : List Tok) (t : Tok) (c c' : TC) (evs : List Ev),
    trun c (ts ++ [t]) = some (c', evs) →
    ∃ c1 e1 e2, trun c ts = some (c1, e1) ∧ tstep c1 t = some (c', e2) ∧ evs = e1 ++ e2
  | [], t, c, c', evs, h => by
    simp only [List.nil_append, trun] at h
    cases ht : tstep c t with
    | none => rw [ht] at h; cases h
    | some r =>
      obtain ⟨c1, e1⟩ := r
      rw [ht] at h
      simp only [Option.map_some, Option.some.injEq, Prod.mk.injEq, List.append_nil] at h
      obtain ⟨rfl, rfl⟩ := h
      exact ⟨c, [], e1, rfl, ht, rfl⟩
  | t0 :: ts, t, c, c', evs, h => by
    simp only [List.cons_append, trun] at h
    cases ht : tstep c t0 with
    | none => rw [ht] at h; cases h
    | some r =>
      obtain ⟨c0, e0⟩ := r
      rw [ht] at h
      simp only at h
      cases hr : trun c0 (ts ++ [t]) with
      | none => rw [hr] at h; cases h
      | some r2 =>
        obtain ⟨c2, e2⟩ := r2
        rw [hr] at h
        simp only [Option.map_some, Option.some.injEq, Prod.mk.injEq] at h
        obtain ⟨rfl, rfl⟩ := h
        obtain ⟨c1, e1, e3, h1, h2, rfl⟩ := trun_snoc_inv ts t c0 c2 e2 hr
        refine ⟨c1, e0 ++ e1, e3, ?_, h2, by simp⟩
        simp only [trun, ht, h1, Option.map_some]

theorem nlStep_notPV {c c' : TC} {evs : List Ev} (h : nlStep c = some (c', evs)) : PV c'.st = false := by
  unfold nlStep at h
  split at h
  · rename_i hw
    cases h
    show PV (nlSt c.st) = false
    cases hs : c.st <;> simp [hs, wsLoop] at hw <;> rfl
  · cases h

/-- only a scalar, a key or a closing bracket leaves the scanner right behind a value -/
theorem slotStep_PV_last {c c' : TC} {t : Tok} {evs : List Ev} (h : slotStep c t = some (c', evs)) (hw : t.WF)
    (hpv : PV c'.st = true) : ∃ pre d, t.render = pre ++ [d] ∧ d.isBlank = false := by
  cases t with
  | sp ch =>
    simp only [slotStep] at h
    split at h
    · rename_i hl; cases h
      exfalso
      have : PV c.st = false := by cases hs : c.st <;> simp [hs, wsLoop] at hl <;> rfl
      rw [this] at hpv; cases hpv
    · cases h
  | nl => rw [nlStep_notPV h] at hpv; cases hpv
  | cmt text =>
    simp only [slotStep] at h
    split at h
    · cases hn : nlStep { c with i := c.i + 1 + text.length } with
      | none => rw [hn] at h; cases h
      | some r =>
        rw [hn] at h
        simp only [Option.map_some, Option.some.injEq, Prod.mk.injEq] at h
        obtain ⟨rfl, _⟩ := h
        rw [nlStep_notPV hn] at hpv; cases hpv
    · cases h
  | ann b =>
    simp only [slotStep] at h
    split at h
    · rename_i hl
      simp only [Bool.and_eq_true] at hl
      cases h
      exfalso
      have : PV c.st = false := by cases hs : c.st <;> simp [hs, annLoop] at hl <;> rfl
      rw [this] at hpv; cases hpv
    · cases h
  | scalar tok => exact scalar_last hw
  | key k =>
    obtain ⟨tl, rfl, hr⟩ := hw
    cases tl with
    | nil => simp [silentRun] at hr
    | cons c2 cs =>
      obtain ⟨pre, d, he, hd⟩ := silentRun_last (c2 :: cs) .inString [] false .endValue [] false (by simp) hr rfl
      exact ⟨Cls.quote :: pre, d, by simp [Tok.render, he], hd⟩
  | lbrace =>
    simp only [slotStep] at h
    cases hv : vctxOf c.st <;> rw [hv] at h <;> cases h
    cases hpv
  | lbrack =>
    simp only [slotStep] at h
    cases hv : vctxOf c.st <;> rw [hv] at h <;> cases h
    cases hpv
  | rbrace => exact ⟨[], .rbrace, rfl, rfl⟩
  | rbrack => exact ⟨[], .rbrack, rfl, rfl⟩
  | comma => simp only [slotStep] at h; split at h <;> cases h <;> cases hpv
  | colon => simp only [slotStep] at h; split at h <;> cases h <;> cases hpv

theorem tstep_PV_last {c c' : TC} {t : Tok} {evs : List Ev} (h : tstep c t = some (c', evs)) (hw : t.WF)
    (hpv : PV c'.st = true) : ∃ pre d, t.render = pre ++ [d] ∧ d.isBlank = false := by
  unfold tstep at h
  split at h
  · split at h
    · cases h
    · cases hc : closePV c with
      | none => rw [hc] at h; cases h
      | some r =>
        obtain ⟨c1, e1⟩ := r
        rw [hc] at h
        simp only at h
        cases hs : slotStep c1 t with
        | none => rw [hs] at h; cases h
        | some r2 =>
          rw [hs] at h
          simp only [Option.map_some, Option.some.injEq, Prod.mk.injEq] at h
          obtain ⟨rfl, _⟩ := h
          exact slotStep_PV_last hs hw hpv
  · exact slotStep_PV_last h hw hpv

/-- the text of a token list that ends right behind a value has no trailing blank -/
theorem trun_PV_last (toks : List Tok) (hw : ∀ t ∈ toks, t.WF) (c' : TC) (evs : List Ev)
    (h : trun TC.init toks = some (c', evs)) (hpv : PV c'.st = true) :
    ∃ pre d, renderToks toks = pre ++ [d] ∧ d.isBlank = false := by
  rcases List.eq_nil_or_concat toks with rfl | ⟨ts, t, rfl⟩
  · simp only [trun, Option.some.injEq, Prod.mk.injEq] at h
    obtain ⟨rfl, _⟩ := h
    cases hpv
  · rw [List.concat_eq_append] at h hw ⊢
    obtain ⟨c1, e1, e2, _, h2, _⟩ := trun_snoc_inv ts t TC.init c' evs h
    obtain ⟨pre, d, he, hd⟩ := tstep_PV_last h2 (hw t (by simp)) hpv
    refine ⟨renderToks ts ++ pre, d, ?_, hd⟩
    rw [renderToks_append]
    simp only [renderToks, List.append_nil, he, List.append_assoc]

/-- layout behind the complete top-level value -/
theorem trun_root_blanks (st : St) (hpv : PV st = true) (lit : Bool) (b i : Nat) (CS : List Ctx) (cx : Ctx) (al : Bool)
    (c : Cls) (w : List Cls) (hw : IsWs (c :: w)) :
    trun ⟨st, false, pendOf lit b, i, CS, cx, al⟩ (blankToks (c :: w))
      = some (⟨.endTop, false, [], i + (w.length + 1), CS, cx, al⟩, rootClosers lit b (i - 1) ++ nlEvs i (c :: w)) := by
  have h2 := trun_blanks .endTop rfl false [] CS cx al w (i + 1) hw.tail
  simp only [blankToks, List.map_cons, trun] at h2 ⊢
  by_cases hc : c = Cls.nl
  · subst hc
    have : tstep ⟨st, false, pendOf lit b, i, CS, cx, al⟩ (blankTok Cls.nl)
        = some (⟨.endTop, false, [], i + 1, CS, cx, al⟩, rootClosers lit b (i - 1) ++ [⟨.newLine, i, i⟩]) := by
      cases lit <;>
        simp [tstep, hpv, closePV, pendOf, pendOfK, isLitB, rootClosers, blankTok, slotStep, nlStep, wsLoop, nlSt, nlAl,
          isObjKey]
    rw [this]
    simp only [h2, Option.map_some, nlEvs, if_true, List.append_assoc]
    rw [show i + 1 + w.length = i + (w.length + 1) by omega]
  · have hs : c.isSpTab = true := by
      rcases blank_cases hw.head with h | h
      · exact h
      · exact absurd h hc
    have : tstep ⟨st, false, pendOf lit b, i, CS, cx, al⟩ (blankTok c)
        = some (⟨.endTop, false, [], i + 1, CS, cx, al⟩, rootClosers lit b (i - 1) ++ []) := by
      cases lit <;> simp [tstep, hpv, closePV, pendOf, pendOfK, isLitB, rootClosers, blankTok, hc, slotStep, wsLoop]
    rw [this]
    simp only [h2, Option.map_some, nlEvs, if_neg hc, List.nil_append, List.append_nil]
    rw [show i + 1 + w.length = i + (w.length + 1) by omega]

end Len

open Len in
/-- **C14, the prefix of length `Len` means what `S` means.** `S` = the text of a token list accepted from the initial
state that ends right behind its top-level value (`lit`: a scalar, whose literal is still open at `b`); the input is
`S`, layout `w`, a foreign byte `x` (which, glued to `S`, must not continue a number: `adjOk`) and anything. Then
`Len` = `|S|`; `S` alone scans (ordinary mode) into the events of the token list and the end of the scalar; and these
are exactly the events `Length()` reads inside the longer text before `end-top`, followed only by the `newLine` events
of the line breaks of `w`. -/
theorem C14_schema_prefix_same_events (toks : List Tok) (hw : ∀ t ∈ toks, t.WF) (st : St) (lit : Bool) (b : Nat)
    (CS : List Ctx) (cx : Ctx) (al : Bool) (evs : List Ev) (hpv : PV st = true)
    (h : trun TC.init toks = some (⟨st, false, pendOf lit b, (renderToks toks).length, CS, cx, al⟩, evs))
    (w : List Cls) (hws : IsWs w) (x : Cls) (rest : List Cls) (hx : x.isForeign = true)
    (hadj : w = [] → adjOk st x = true)
    (bs : List UInt8) (hbs : bs.map classify = renderToks toks ++ (w ++ x :: rest)) :
    length bs = .ok (renderToks toks).length ∧
    scanAll (bs.take (renderToks toks).length)
      = .ok (evs ++ rootClosers lit b ((renderToks toks).length - 1)) ∧
    lengthEvents bs
      = .ok (evs ++ rootClosers lit b ((renderToks toks).length - 1) ++ nlEvs (renderToks toks).length w) := by
  have hK : pendOf lit b = [] ∨ ∃ b', pendOf lit b = [(.litB, b')] := by
    cases lit
    · exact Or.inl rfl
    · exact Or.inr ⟨b, rfl⟩
  have hcl : endClosers ⟨st, false, pendOf lit b, (renderToks toks).length, CS, cx, al⟩
      = rootClosers lit b ((renderToks toks).length - 1) := by cases lit <;> rfl
  obtain ⟨pre, d, hlast, hd⟩ := trun_PV_last toks hw _ evs h hpv
  have hrt : rtrimLen (renderToks toks) = (renderToks toks).length := by
    have := rtrimLen_snoc pre d [] hd (by intro c hc; cases hc)
    rw [List.append_nil] at this
    rw [hlast, this]; simp
  -- the prefix alone
  have hpre : (bs.take (renderToks toks).length).map classify = renderToks toks := by
    rw [List.map_take, hbs]
    simp
  have e2 := schema_events_tokens_whole toks hw _ evs h (Or.inr ⟨hpv, rfl, hK⟩) _ hpre
  rw [hcl] at e2
  cases w with
  | nil =>
    have hbs' : bs.map classify = renderToks toks ++ x :: rest := by rw [hbs]; rfl
    have hend : EndsAt ⟨st, false, pendOf lit b, (renderToks toks).length, CS, cx, al⟩ x :=
      Or.inr ⟨hpv, rfl, hK, hadj rfl⟩
    refine ⟨?_, e2, ?_⟩
    · rw [C14_schema_len_tokens toks hw _ evs h x rest hx hend bs hbs', hrt]
    · rw [schema_length_events_tokens toks hw _ evs h x rest hx hend bs hbs', hcl]
      simp [nlEvs]
  | cons c w' =>
    have t2 := trun_root_blanks st hpv lit b (renderToks toks).length CS cx al c w' hws
    have tall := trun_append _ _ _ _ _ _ _ h t2
    have hwf : ∀ t ∈ toks ++ blankToks (c :: w'), t.WF := by
      intro t ht
      rcases List.mem_append.mp ht with ht | ht
      · exact hw t ht
      · exact wf_blankToks _ hws t ht
    have hbs' : bs.map classify = renderToks (toks ++ blankToks (c :: w')) ++ x :: rest := by
      rw [hbs, renderToks_append, render_blankToks]; simp
    have hend : EndsAt ⟨.endTop, false, [], (renderToks toks).length + (w'.length + 1), CS, cx, al⟩ x :=
      Or.inl ⟨rfl, rfl⟩
    refine ⟨?_, e2, ?_⟩
    · rw [C14_schema_len_tokens _ hwf _ _ tall x rest hx hend bs hbs', renderToks_append, render_blankToks,
        rtrimLen_append_ws _ _ hws, hrt]
    · rw [schema_length_events_tokens _ hwf _ _ tall x rest hx hend bs hbs']
      simp [endClosers, List.append_assoc]

#print axioms C14_schema_prefix_same_events

end SchemaScan
