import JSight.BridgeCR2Map
/-!
Bridge (A)∩(B), second part: the END of `compileNode` — `allowedConstraintCheck`, `anyConstraint`, the exclusive
flags, `checkPairConstraints`, `optionalConstraints`, `emptyArray`, `CompileAllOf`, `checkCompatibilityOfConstraints`
of (B) against `bAllowed` … `bFinish` + the compatibility flag of (A), stage by stage (`tail_plain`: a node without
types list and without `any`; `tail_names`, `tail_any`: the two restricted cases).
-/
namespace BridgeCR
open Compile
open Loader (NK)

/-- how the two models may end on one node: both accept, or both reject with one code ((A) never `unsupported`) -/
def Agree (a : Except Err Unit) (b : Except CR.Code Unit) : Prop :=
  match a, b with
  | .ok _, .ok _ => True
  | .error (.code ca _), .error cb => ca = cb
  | _, _ => False

/-- the end of `aNode`: the compatibility flag of the compiled node -/
def outA (x : Except Err Basic) : Except Err Unit :=
  match x with
  | .error e => .error e
  | .ok b => if b.names.isNone && !b.any && b.bad then .error (.code 1117 0) else .ok ()

theorem outA_ite (c : Prop) [Decidable c] (x y : Except Err Basic) :
    outA (if c then x else y) = if c then outA x else outA y := by split <;> rfl

/-- facts about an accepted, filtered rule list -/
structure Good (frs : List Rule) : Prop where
  nodup : (frs.map (·.name)).Nodup
  valid : ∀ r ∈ frs, okVal r
  common : ∀ r ∈ frs, r.gen = false → ruleCommon r = true
  vals : ∀ r ∈ frs, ∃ v, r.val = some v
  /-- a synthesised rule (type shortcut) is a `type` or an `or` -/
  gens : ∀ r ∈ frs, r.gen = true → r.name = sb "type" ∨ r.name = sb "or"

def cjt : JT → CR.JT
  | .obj => .object | .arr => .array | .str => .string | .int => .integer | .flt => .float | .bool => .boolean
  | .null => .null | .mixed => .mixed

/-- (B)'s node description goes with (A)'s parameters -/
structure CtxOK (kind : NK) (jt : JT) (nch : Nat) (isProp : Bool) (c : CR.Ctx) : Prop where
  notMixed : c.cls ≠ .mixed
  notMV : c.cls ≠ .mixedValue
  branch : c.isBranch = (kind == .obj || kind == .arr)
  jtc : c.jt = cjt jt
  jtb : (jt == .obj || jt == .arr) = (kind == .obj || kind == .arr)
  jtm : jt ≠ .mixed
  kindm : kind ≠ .mixed
  ch : c.children = nch
  leaf : (kind == .obj || kind == .arr) = false → nch = 0
  prop : c.isProp = isProp

/-! ### names of constraint types -/

theorem ct_minLength : ctName .minLength = some (sb "minLength") := by rw [sb_minLength]; rfl
theorem ct_maxLength : ctName .maxLength = some (sb "maxLength") := by rw [sb_maxLength]; rfl
theorem ct_min : ctName .min = some (sb "min") := by rw [sb_min]; rfl
theorem ct_max : ctName .max = some (sb "max") := by rw [sb_max]; rfl
theorem ct_exMin : ctName .exclusiveMinimum = some (sb "exclusiveMinimum") := by rw [sb_exclusiveMinimum]; rfl
theorem ct_exMax : ctName .exclusiveMaximum = some (sb "exclusiveMaximum") := by rw [sb_exclusiveMaximum]; rfl
theorem ct_type : ctName .type = some (sb "type") := by rw [sb_type]; rfl
theorem ct_precision : ctName .precision = some (sb "precision") := by rw [sb_precision]; rfl
theorem ct_optional : ctName .optional = some (sb "optional") := by rw [sb_optional]; rfl
theorem ct_minItems : ctName .minItems = some (sb "minItems") := by rw [sb_minItems]; rfl
theorem ct_maxItems : ctName .maxItems = some (sb "maxItems") := by rw [sb_maxItems]; rfl
theorem ct_addProps : ctName .additionalProperties = some (sb "additionalProperties") := by
  rw [sb_additionalProperties]; rfl
theorem ct_nullable : ctName .nullable = some (sb "nullable") := by rw [sb_nullable]; rfl
theorem ct_regex : ctName .regex = some (sb "regex") := by rw [sb_regex]; rfl
theorem ct_const : ctName .const = some (sb "const") := by rw [sb_const]; rfl
theorem ct_or : ctName .or = some (sb "or") := by rw [sb_or]; rfl
theorem ct_enum : ctName .enum = some (sb "enum") := by rw [sb_enum]; rfl
theorem ct_allOf : ctName .allOf = some (sb "allOf") := by rw [sb_allOf]; rfl
theorem ct_typesList : ctName .typesList = some (sb "or") := by rw [sb_or]; rfl

theorem absent_of_good (frs : List Rule) (hK : ∀ r ∈ frs, goodName r.name) (rn : CR.RName)
    (h : rn = .allOf ∨ rn = .regex ∨ rn = .minItems ∨ rn = .maxItems) : hn frs (rbytes rn) = false := by
  unfold hn
  rw [List.any_eq_false]
  intro r hr hcon
  have e : r.name = rbytes rn := by simpa using hcon
  obtain ⟨rn', e', g1, g2, g3, g4⟩ := hK r hr
  rw [e] at e'
  have := rbytes_inj rn rn' e'
  subst this
  rcases h with h | h | h | h
  · exact g1 h
  · exact g2 h
  · exact g3 h
  · exact g4 h

theorem Good.known {frs : List Rule} (G : Good frs) : ∀ r ∈ frs, goodName r.name := fun r hr => (G.valid r hr).2.2.1

theorem Good.noRegex {frs : List Rule} (G : Good frs) : hasRule frs "regex" = false := by
  rw [hasRule_hn, sb_regex]; exact absent_of_good frs G.known .regex (by simp)
theorem Good.noMinItems {frs : List Rule} (G : Good frs) : hasRule frs "minItems" = false := by
  rw [hasRule_hn, sb_minItems]; exact absent_of_good frs G.known .minItems (by simp)
theorem Good.noMaxItems {frs : List Rule} (G : Good frs) : hasRule frs "maxItems" = false := by
  rw [hasRule_hn, sb_maxItems]; exact absent_of_good frs G.known .maxItems (by simp)
theorem Good.noAllOf {frs : List Rule} (G : Good frs) : hasRule frs "allOf" = false := by
  rw [hasRule_hn, sb_allOf]; exact absent_of_good frs G.known .allOf (by simp)

/-! ### the map after `typeConstraint` on a node without types list and without `any` -/

/-- the map after `typeConstraint`: the `type` rule is gone, a format type has left its constraint -/
structure Rel5 (frs : List Rule) (fmt : Option RulesF.Fmt) (m : CR.CMap) : Prop where
  plain : ∀ k, k ≠ .type → k ≠ .uuid → k ≠ .date → m k = mapOf frs k
  type : m .type = none
  uuid : (m .uuid).isSome = (fmt == some .uuid)
  date : (m .date).isSome = (fmt == some .date)

def has5f (frs : List Rule) (fmt : Option RulesF.Fmt) : CR.CT → Bool
  | .minLength => hasRule frs "minLength" | .maxLength => hasRule frs "maxLength"
  | .min => hasRule frs "min" | .max => hasRule frs "max"
  | .exclusiveMinimum => hasRule frs "exclusiveMinimum" | .exclusiveMaximum => hasRule frs "exclusiveMaximum"
  | .precision => hasRule frs "precision" | .optional => hasRule frs "optional"
  | .additionalProperties => hasRule frs "additionalProperties" | .nullable => hasRule frs "nullable"
  | .const => hasRule frs "const" | .enum => hasRule frs "enum"
  | .uuid => fmt == some .uuid | .date => fmt == some .date
  | _ => false

theorem has5 {frs : List Rule} {fmt : Option RulesF.Fmt} {m : CR.CMap} (R : Rel5 frs fmt m) (G : Good frs)
    (hor : hasRule frs "or" = false) (k : CR.CT) : m.has k = has5f frs fmt k := by
  have hp : ∀ k, k ≠ .type → k ≠ .uuid → k ≠ .date → m.has k = (mapOf frs).has k := fun k a b c => by
    unfold CR.CMap.has; rw [R.plain k a b c]
  cases k
  case type => simp [CR.CMap.has, R.type, has5f]
  case uuid => simp [CR.CMap.has, R.uuid, has5f]
  case date => simp [CR.CMap.has, R.date, has5f]
  case minLength => rw [hp _ (by decide) (by decide) (by decide), has_mapOf_named _ _ _ ct_minLength]; rfl
  case maxLength => rw [hp _ (by decide) (by decide) (by decide), has_mapOf_named _ _ _ ct_maxLength]; rfl
  case min => rw [hp _ (by decide) (by decide) (by decide), has_mapOf_named _ _ _ ct_min]; rfl
  case max => rw [hp _ (by decide) (by decide) (by decide), has_mapOf_named _ _ _ ct_max]; rfl
  case exclusiveMinimum => rw [hp _ (by decide) (by decide) (by decide), has_mapOf_named _ _ _ ct_exMin]; rfl
  case exclusiveMaximum => rw [hp _ (by decide) (by decide) (by decide), has_mapOf_named _ _ _ ct_exMax]; rfl
  case precision => rw [hp _ (by decide) (by decide) (by decide), has_mapOf_named _ _ _ ct_precision]; rfl
  case optional => rw [hp _ (by decide) (by decide) (by decide), has_mapOf_named _ _ _ ct_optional]; rfl
  case additionalProperties => rw [hp _ (by decide) (by decide) (by decide), has_mapOf_named _ _ _ ct_addProps]; rfl
  case nullable => rw [hp _ (by decide) (by decide) (by decide), has_mapOf_named _ _ _ ct_nullable]; rfl
  case const => rw [hp _ (by decide) (by decide) (by decide), has_mapOf_named _ _ _ ct_const]; rfl
  case enum => rw [hp _ (by decide) (by decide) (by decide), has_mapOf_named _ _ _ ct_enum]; rfl
  case minItems => rw [hp _ (by decide) (by decide) (by decide), has_mapOf_named _ _ _ ct_minItems, G.noMinItems]; rfl
  case maxItems => rw [hp _ (by decide) (by decide) (by decide), has_mapOf_named _ _ _ ct_maxItems, G.noMaxItems]; rfl
  case regex => rw [hp _ (by decide) (by decide) (by decide), has_mapOf_named _ _ _ ct_regex, G.noRegex]; rfl
  case allOf => rw [hp _ (by decide) (by decide) (by decide), has_mapOf_named _ _ _ ct_allOf, G.noAllOf]; rfl
  case or => rw [hp _ (by decide) (by decide) (by decide), has_mapOf_named _ _ _ ct_or, hor]; rfl
  case typesList => rw [hp _ (by decide) (by decide) (by decide), has_mapOf_named _ _ _ ct_typesList, hor]; rfl
  case any => rw [hp _ (by decide) (by decide) (by decide), has_mapOf_unnamed _ _ rfl]; rfl
  case email => rw [hp _ (by decide) (by decide) (by decide), has_mapOf_unnamed _ _ rfl]; rfl
  case uri => rw [hp _ (by decide) (by decide) (by decide), has_mapOf_unnamed _ _ rfl]; rfl
  case datetime => rw [hp _ (by decide) (by decide) (by decide), has_mapOf_unnamed _ _ rfl]; rfl

/-- the map after the two exclusive steps -/
def m7of (m : CR.CMap) : CR.CMap := CR.exMaxNext (CR.exMinNext m)

theorem m7of_apply (m : CR.CMap) (k : CR.CT) : m7of m k =
    if k = .exclusiveMaximum ∨ k = .exclusiveMinimum then none
    else if k = .max ∧ m .exclusiveMaximum = some (.flag true) then CR.setEx (m .max)
    else if k = .min ∧ m .exclusiveMinimum = some (.flag true) then CR.setEx (m .min)
    else m k := by
  unfold m7of
  rw [CR.exMaxNext_apply]
  by_cases h1 : k = .exclusiveMaximum
  · simp [h1]
  · simp only [h1, if_false, false_or]
    rw [CR.exMinNext_apply m .exclusiveMaximum, CR.exMinNext_apply m .max, CR.exMinNext_apply m k]
    by_cases h2 : k = .exclusiveMinimum
    · subst h2; simp
    · by_cases h3 : k = .max
      · subst h3; simp
      · simp [h2, h3]

theorem m7of_has (m : CR.CMap) (k : CR.CT) : (m7of m).has k =
    if k = .exclusiveMaximum ∨ k = .exclusiveMinimum then false else m.has k := by
  unfold CR.CMap.has
  rw [m7of_apply]
  by_cases h1 : k = .exclusiveMaximum ∨ k = .exclusiveMinimum
  · simp [h1]
  · simp only [h1, if_false]
    split
    · rename_i h; rw [CR.setEx_isSome, h.1]
    · split
      · rename_i h; rw [CR.setEx_isSome, h.1]
      · rfl

theorem exMin_exc (m : CR.CMap) : CR.exclusiveMinimumConstraint m =
    if m.has .exclusiveMinimum && !m.has .min then .error 1109 else .ok (CR.exMinNext m) := by
  unfold CR.exclusiveMinimumConstraint CR.exMinNext
  cases h : m .exclusiveMinimum with
  | none => simp [CR.CMap.has, h]
  | some v => cases h2 : m.has .min <;> simp [CR.CMap.has, h]

theorem exMax_exc (m : CR.CMap) : CR.exclusiveMaximumConstraint m =
    if m.has .exclusiveMaximum && !m.has .max then .error 1110 else .ok (CR.exMaxNext m) := by
  unfold CR.exclusiveMaximumConstraint CR.exMaxNext
  cases h : m .exclusiveMaximum with
  | none => simp [CR.CMap.has, h]
  | some v => cases h2 : m.has .max <;> simp [CR.CMap.has, h]

/-! ### the values the pair checks read -/

theorem flag_true (frs : List Rule) (k : CR.CT) (s : String) (hk : ctName k = some (sb s))
    (hcv : ∀ r, cvAt k r = cvLit .optional (r.val.getD [])) :
    (mapOf frs k = some (.flag true)) ↔ (boolRule frs s == some true) = true := by
  rw [mapOf_named frs k s hk]
  unfold boolRule
  cases hf : findRule frs s with
  | none => simp
  | some r =>
    simp only [Option.map_some, Option.some.injEq, hcv, cvLit]
    rw [parseBool_val]
    cases CR.parseBool (r.val.getD []) with
    | none => simp
    | some b => cases b <;> simp

theorem cmpNum_eq (a b : Bytes) : cmpNum a b =
    (match RulesF.number a, RulesF.number b with | some x, some y => some (x.cmp y) | _, _ => none) := rfl

theorem bind_ok_u {β : Type} (a : Unit) (f : Unit → Except CR.Code β) : ((.ok a : Except CR.Code Unit) >>= f) = f a := rfl

/-- `checkMinAndMax` -/
theorem pairNum_agree (frs : List Rule) (exMin exMax : Bool) (x y : Option CR.CV)
    (hx : x = if exMin then CR.setEx (mapOf frs .min) else mapOf frs .min)
    (hy : y = if exMax then CR.setEx (mapOf frs .max) else mapOf frs .max)
    (nextA : Except Err Basic) (restB : Except CR.Code Unit) (hnext : Agree (outA nextA) restB) :
    Agree (outA (bMinMax frs exMin exMax nextA)) (CR.pairNum x y >>= fun _ => restB) := by
  subst hx
  subst hy
  rw [mapOf_named frs .min "min" ct_min, mapOf_named frs .max "max" ct_max]
  unfold bMinMax
  cases h1 : findRule frs "min" with
  | none => cases exMin <;> simpa [CR.pairNum, CR.setEx, bind_ok_u] using hnext
  | some a =>
    cases h2 : findRule frs "max" with
    | none =>
      cases exMin <;> cases exMax <;> simp only [Option.map_some, Option.map_none, CR.setEx, if_true, if_false, Bool.false_eq_true] <;>
        (simp only [CR.pairNum]; split <;> first | exact hnext | simp_all)
    | some b =>
      simp only [Option.map_some, cmpNum_eq, cvAt, cvLit]
      cases hna : RulesF.number (a.val.getD []) with
      | none => cases exMin <;> cases exMax <;> simpa [CR.pairNum, CR.setEx, bind_ok_u] using hnext
      | some na =>
        cases hnb : RulesF.number (b.val.getD []) with
        | none => cases exMin <;> cases exMax <;> simpa [CR.pairNum, CR.setEx, bind_ok_u] using hnext
        | some nb =>
          cases hc : na.cmp nb <;> cases exMin <;> cases exMax <;>
            simp [CR.pairNum, CR.setEx, hc, bind_ok_u, bind_err, throw, throwThe, MonadExceptOf.throw] <;>
            first | exact hnext | simp [outA, Agree]

/-- `checkMinLengthAndMaxLength` -/
theorem pairNat_agree (frs : List Rule) (G : Good frs) (nextA : Except Err Basic) (restB : Except CR.Code Unit)
    (hnext : Agree (outA nextA) restB) :
    Agree (outA (bLens frs nextA)) (CR.pairNat (mapOf frs .minLength) (mapOf frs .maxLength) >>= fun _ => restB) := by
  rw [mapOf_named frs .minLength "minLength" ct_minLength, mapOf_named frs .maxLength "maxLength" ct_maxLength]
  unfold bLens
  cases h1 : findRule frs "minLength" with
  | none => simpa [CR.pairNat, bind_ok_u] using hnext
  | some a =>
    cases h2 : findRule frs "maxLength" with
    | none => simp only [Option.map_some, Option.map_none, CR.pairNat]; split <;> first | exact hnext | simp_all
    | some b =>
      obtain ⟨an, am⟩ := findRule_name h1
      obtain ⟨bn, bm⟩ := findRule_name h2
      have ga : a.gen = false := by
        cases hga : a.gen with
        | false => rfl
        | true =>
          rcases G.gens a am hga with e | e <;> (rw [an] at e; exact absurd e (by decide +kernel))
      have gb : b.gen = false := by
        cases hgb : b.gen with
        | false => rfl
        | true =>
          rcases G.gens b bm hgb with e | e <;> (rw [bn] at e; exact absurd e (by decide +kernel))
      have la : (a.val.getD []).length ≤ 18 := by
        have := G.common a am ga
        revert this
        simp only [ruleCommon, an, sb_or, sb_enum, sb_allOf, sb_regex, sb_minItems, sb_maxItems, sb_minLength, sb_maxLength, sb_precision]
        names_simp
        cases a.val <;> simp
      have lb : (b.val.getD []).length ≤ 18 := by
        have := G.common b bm gb
        revert this
        simp only [ruleCommon, bn, sb_or, sb_enum, sb_allOf, sb_regex, sb_minItems, sb_maxItems, sb_minLength, sb_maxLength, sb_precision]
        names_simp
        cases b.val <;> simp
      simp only [Option.map_some, cvAt, cvLit, parseUint_eq _ la, parseUint_eq _ lb]
      cases hna : Compile.parseUint (a.val.getD []) with
      | none => simpa [CR.pairNat, bind_ok_u] using hnext
      | some na =>
        cases hnb : Compile.parseUint (b.val.getD []) with
        | none => simpa [CR.pairNat, bind_ok_u] using hnext
        | some nb =>
          by_cases hgt : na > nb
          · simp [CR.pairNat, hgt, bind_err, outA, Agree, throw, throwThe, MonadExceptOf.throw]
          · simpa [CR.pairNat, hgt, bind_ok_u] using hnext

end BridgeCR
