import JSight.CommentTree
/-!
C13, user comments, the whole text: scanner model (`scanAll`) and scanner + loader (`Loader.loadText`) on a schema
text that is plain JSON with user comments in its layout.

* `C13_events_with_comments` — the event stream, exactly;
* `load_comments` — the loader's table, read against the text, is the table of the VALUE (`tableOf t.value`):
  no trace of comments or layout;
* `comments_invisible` — two spellings of one value, with or without comments: the same table.
-/
namespace Lay
open SchemaScan

/-- the whole schema text: leading layout, the value, trailing layout, an unterminated last comment -/
def docTextF (w0 : List LI) (t : BTree) (w1 : List LI) (fin : List UInt8) : List UInt8 :=
  renderL w0 ++ (t.render ++ (renderL w1 ++ fin))

theorem docTextF_nil (w0 : List LI) (t : BTree) (w1 : List LI) : docTextF w0 t w1 [] = docText w0 t w1 := by
  simp [docTextF, docText]

theorem docTextF_cls (w0 : List LI) (t : BTree) (w1 : List LI) (fin : List UInt8) :
    (docTextF w0 t w1 fin).map classify = clsL w0 ++ (t.toTree.render ++ (clsL w1 ++ fin.map classify)) := by
  simp only [docTextF, List.map_append, render_cls, clsL]

/-- the events of the whole text -/
def docEvs (w0 : List LI) (t : BTree) (w1 : List LI) : List Ev :=
  layEvs 0 w0 ++ (cEvsAt (L w0) t ++ layEvs (L w0 + t.render.length) w1)

/-- the event stream of a tree with comments (fuel-free form) -/
theorem emits_of_ctree (t : BTree) (hv : t.Valid) (w0 w1 : List LI) (h0 : ValidL w0) (h1 : ValidL w1)
    (fin : List UInt8) (hf : IsFin fin) :
    Emits ((docTextF w0 t w1 fin).map classify).toArray {} (docEvs w0 t w1) := by
  rw [docTextF_cls]
  have hat : At (clsL w0 ++ (t.toTree.render ++ (clsL w1 ++ fin.map classify))).toArray 0
      (clsL w0 ++ (t.toTree.render ++ (clsL w1 ++ fin.map classify))) := At_toArray _ [] _ rfl
  rw [At_append, At_append, clsL_length, render_length] at hat
  obtain ⟨hat0, hatv, hat1⟩ := hat
  have hinit : ({} : Sc) = cfg .foundRoot [] [] false 0 [] { ty := .initial } true := rfl
  rw [hinit]
  obtain ⟨al1, s1⟩ := lay_run w0 h0 .foundRoot rfl [] 0 [] { ty := .initial } true hat0
  rw [laySt_eq (by simp)] at s1
  obtain ⟨st, cx2, al2, hp, s2⟩ := cvalue_run t hv .root [] (0 + L w0) hatv [] { ty := .initial } al1
  have s2' : Steps (clsL w0 ++ (t.toTree.render ++ (clsL w1 ++ fin.map classify))).toArray
      (cfg .foundRoot [] [] false (0 + L w0) [] { ty := .initial } al1)
      (cEvsOpen (0 + L w0) t)
      (cfg st [] (pendOf t.isLit (0 + L w0)) false (0 + L w0 + t.render.length) [] cx2 al2) := by
    have := s2
    simp only [VCtx.preEvs, VCtx.pre, List.nil_append, List.append_nil] at this
    exact this
  have s3 := close_root_lay hp t.isLit (0 + L w0) w1 h1 fin hf (0 + L w0 + t.render.length) [] cx2 al2 hat1
    (by simp only [List.size_toArray, List.length_append, clsL_length, render_length, List.length_map, L]; omega)
  have := (Steps.trans s1 s2').emits s3
  have e : layEvs 0 w0 ++ cEvsOpen (0 + L w0) t ++
      (rootClosers t.isLit (0 + L w0) (0 + L w0 + t.render.length - 1) ++ layEvs (0 + L w0 + t.render.length) w1)
      = docEvs w0 t w1 := by
    cases t <;> simp [docEvs, cEvsOpen, cEvsAt, rootClosers, BTree.isLit, BTree.render]
  rw [e] at this
  exact this

/-! ### the fuel of `scanAll` / `loadText` suffices -/

theorem LI.evs_length (o : Nat) (it : LI) : (it.evs o).length ≤ it.render.length := by
  cases it with
  | blank b => simp only [LI.evs, LI.render]; split <;> simp
  | line text nl => simp [LI.evs, LI.render]
  | block body => simp [LI.evs]

theorem layEvs_length : ∀ (o : Nat) (w : List LI), (layEvs o w).length ≤ L w
  | _, [] => Nat.le_refl _
  | o, it :: w => by
    have h1 := LI.evs_length o it
    have h2 := layEvs_length (o + it.render.length) w
    simp only [layEvs, List.length_append, L, renderL_cons_length] at h2 ⊢
    omega

mutual
theorem cevs_length : (v : BTree) → v.Valid → (o : Nat) → (cEvsAt o v).length ≤ 3 * v.render.length
  | .scalar tok, hv, o => by
    have hs : IsScalar (tok.map classify) := by simpa [BTree.Valid] using hv
    have := scalar_ne hs
    cases tok with
    | nil => exact absurd rfl this
    | cons c cs => simp only [cEvsAt, BTree.render, List.length_cons, List.length_nil]; omega
  | .arr w0 items, hv, o => by
    obtain ⟨_, hi⟩ : ValidL w0 ∧ ValidItems items := by simpa [BTree.Valid] using hv
    have h1 := layEvs_length (o + 1) w0
    have h2 := citems_length items hi o (o + 1 + L w0)
    simp only [cEvsAt, BTree.render, List.length_cons, List.length_append, L] at h1 h2 ⊢
    omega
  | .obj w0 members, hv, o => by
    obtain ⟨_, hi⟩ : ValidL w0 ∧ ValidMembers members := by simpa [BTree.Valid] using hv
    have h1 := layEvs_length (o + 1) w0
    have h2 := cmembers_length members hi o (o + 1 + L w0)
    simp only [cEvsAt, BTree.render, List.length_cons, List.length_append, L] at h1 h2 ⊢
    omega
theorem citems_length : (its : List BItem) → ValidItems its → (a o : Nat) →
    (cEvsItems a o its).length ≤ 3 * (renderItems its).length
  | [], _, a, o => by simp [cEvsItems, renderItems]
  | (w1, v, w2) :: its, hv, a, o => by
    obtain ⟨_, hvv, _, hits⟩ : ValidL w1 ∧ v.Valid ∧ ValidL w2 ∧ ValidItems its := by simpa [ValidItems] using hv
    have h1 := layEvs_length o w1
    have h2 := layEvs_length (o + L w1 + v.render.length) w2
    have h3 := cevs_length v hvv (o + L w1)
    cases its with
    | nil =>
      simp only [cEvsItems, renderItems, List.length_cons, List.length_append, List.length_nil, List.isEmpty_nil, if_true,
        L] at h1 h2 h3 ⊢
      omega
    | cons it its' =>
      have h4 := citems_length (it :: its') hits a (o + L w1 + v.render.length + L w2 + 1)
      simp only [cEvsItems, renderItems, List.length_cons, List.length_append, List.length_nil, List.isEmpty_cons,
        Bool.false_eq_true, if_false, L] at h1 h2 h3 h4 ⊢
      omega
theorem cmembers_length : (ms : List BMember) → ValidMembers ms →
    (a o : Nat) → (cEvsMembers a o ms).length ≤ 3 * (renderMembers ms).length
  | [], _, a, o => by simp [cEvsMembers, renderMembers]
  | (w1, k, w2, w3, v, w4) :: ms, hv, a, o => by
    obtain ⟨_, _, _, _, hvv, _, hms⟩ :
        ValidL w1 ∧ IsKey (k.map classify) ∧ (ValidL w2 ∧ PlainL w2) ∧ (ValidL w3 ∧ PlainL w3) ∧ v.Valid ∧
          ValidL w4 ∧ ValidMembers ms := by
      simpa [ValidMembers] using hv
    have h1 := layEvs_length o w1
    have h2 := layEvs_length (o + L w1 + k.length) w2
    have h3 := layEvs_length (o + L w1 + k.length + L w2 + 1) w3
    have h4 := layEvs_length (o + L w1 + k.length + L w2 + 1 + L w3 + v.render.length) w4
    have h5 := cevs_length v hvv (o + L w1 + k.length + L w2 + 1 + L w3)
    cases ms with
    | nil =>
      simp only [cEvsMembers, renderMembers, List.length_cons, List.length_append, List.length_nil, List.isEmpty_nil,
        if_true, L] at h1 h2 h3 h4 h5 ⊢
      omega
    | cons m ms' =>
      have h6 := cmembers_length (m :: ms') hms a
        (o + L w1 + k.length + L w2 + 1 + L w3 + v.render.length + L w4 + 1)
      simp only [cEvsMembers, renderMembers, List.length_cons, List.length_append, List.length_nil, List.isEmpty_cons,
        Bool.false_eq_true, if_false, L] at h1 h2 h3 h4 h5 h6 ⊢
      omega
end

theorem docEvs_length (t : BTree) (hv : t.Valid) (w0 w1 : List LI) (fin : List UInt8) :
    (docEvs w0 t w1).length ≤ 3 * (docTextF w0 t w1 fin).length := by
  have a := layEvs_length 0 w0
  have b := layEvs_length (L w0 + t.render.length) w1
  have c := cevs_length t hv (L w0)
  simp only [docEvs, docTextF, List.length_append, L] at a b c ⊢
  omega

/-- **C13 (schema scanner, user comments)**: a plain-JSON schema text with user comments in its layout is scanned
into exactly the events of the tree; a block comment delivers nothing, a line comment two `newLine` events (its own
and the replayed line break's), an unterminated last line comment nothing. -/
theorem C13_events_with_comments (t : BTree) (hv : t.Valid) (w0 w1 : List LI) (h0 : ValidL w0) (h1 : ValidL w1)
    (fin : List UInt8) (hf : IsFin fin) :
    scanAll (docTextF w0 t w1 fin) = .ok (docEvs w0 t w1) := by
  unfold scanAll
  have h := events_of_emits (emits_of_ctree t hv w0 w1 h0 h1 fin hf)
    (8 * ((docTextF w0 t w1 fin).map classify).toArray.size + 16) [] (by
      have := docEvs_length t hv w0 w1 fin
      simp only [List.size_toArray, List.length_map]
      omega)
  simpa using h

/-! ### the loader on these events -/

open Loader in
theorem R_lay (src : Array UInt8) (N : List Node) (l r : Option Nat) : (w : List LI) → (o : Nat) →
    Run src (layEvs o w) N l r N l r
  | [], _ => Run.nil src N l r
  | it :: w, o => by
    have ih := R_lay src N l r w (o + it.render.length)
    have h1 : Run src (it.evs o) N l r N l r := by
      cases it with
      | blank b =>
        simp only [LI.evs]
        split
        · exact step_newLine src o o N l r
        · exact Run.nil src N l r
      | line text nl => exact Run.cons (step_newLine src _ _ N l r) (step_newLine src _ _ N l r)
      | block body => exact Run.nil src N l r
    exact Run.trans h1 ih

section loader
open Loader

def cBodyEvs (o : Nat) : BTree → List Ev
  | .scalar tok => [⟨.litE, o, o + tok.length - 1⟩]
  | .arr w0 its => layEvs (o + 1) w0 ++ cEvsItems o (o + 1 + L w0) its
  | .obj w0 ms => layEvs (o + 1) w0 ++ cEvsMembers o (o + 1 + L w0) ms

theorem cEvsAt_eq (o : Nat) (v : BTree) : cEvsAt o v = openEv o v.toTree :: cBodyEvs o v := by
  cases v <;> simp [cEvsAt, openEv, cBodyEvs, BTree.toTree]

theorem citem_open_run (src : Array UInt8) (v : Tree) (w1 : List LI) (a : Nat) (na : Node) (N : List Node) (o : Nat)
    (r : Option Nat) (hn : N[a]? = some na) (hk : na.kind = .arr) (hw : na.waiting = false) :
    Run src (layEvs o w1 ++ [⟨.itemB, o + L w1, o + L w1⟩, openEv (o + L w1) v]) N (some a) r
      (N.set a (addChild na N.length) ++ [fresh (kindOf v) (some a)])
      (some (N.set a (addChild na N.length)).length) r := by
  obtain ⟨hlt, _⟩ := List.getElem?_eq_some_iff.mp hn
  have s1 := R_lay src N (some a) r w1 o
  have s2 := R_itemB src (o + L w1) (o + L w1) a na N r hn hk hw
  have s3 := R_create src (openEv (o + L w1) v) (kindOf v) a { na with waiting := true }
    (N.set a { na with waiting := true }) r (openEv_plain _ _) (openEv_kind _ _) (by simp [hlt]) (Or.inl hk) rfl
  exact (Run.trans s1 (Run.cons s2 s3)).cast rfl
    (by rw [List.set_set, List.length_set, node_wait_eta na hw]) (by simp)

theorem citem_close_run (src : Array UInt8) (w2 : List LI) (a x y p : Nat) (na : Node) (N : List Node)
    (r : Option Nat) (hn : N[a]? = some na) (hk : na.kind = .arr) (hw : na.waiting = false) :
    Run src (⟨.itemE, x, y⟩ :: layEvs p w2) N (some a) r N (some a) r :=
  Run.cons (R_itemE src x y a na N r hn hk hw) (R_lay src N (some a) r w2 p)

/-- the key entry the loader records for the member key `k` after the layout `w1` at offset `o` -/
abbrev ckspan (o : Nat) (w1 : List LI) (k : List UInt8) : Nat × Nat × Bool := (o + L w1, o + L w1 + k.length - 1, false)
def cvalOff (o : Nat) (w1 : List LI) (k : List UInt8) (w2 w3 : List LI) : Nat := o + L w1 + k.length + L w2 + 1 + L w3

theorem cmember_open_run (src : Array UInt8) (v : Tree) (w1 : List LI) (k : List UInt8) (w2 w3 : List LI) (a : Nat)
    (na : Node) (N : List Node)
    (o : Nat) (r : Option Nat) (hn : N[a]? = some na) (hk : na.kind = .obj) (hw : na.waiting = false)
    (hany : na.keys.any (fun k' => keyText src k' == keyText src (ckspan o w1 k)) = false) :
    Run src (layEvs o w1 ++ (⟨.keyB, o + L w1, o + L w1⟩ :: ⟨.keyE, o + L w1, o + L w1 + k.length - 1⟩ ::
        (layEvs (o + L w1 + k.length) w2 ++ (layEvs (o + L w1 + k.length + L w2 + 1) w3 ++
          [⟨.valB, cvalOff o w1 k w2 w3, cvalOff o w1 k w2 w3⟩, openEv (cvalOff o w1 k w2 w3) v]))))
      N (some a) r
      (N.set a (addMember na N.length (ckspan o w1 k)) ++ [fresh (kindOf v) (some a)])
      (some (N.set a (addMember na N.length (ckspan o w1 k))).length) r := by
  obtain ⟨hlt, _⟩ := List.getElem?_eq_some_iff.mp hn
  have s1 := R_lay src N (some a) r w1 o
  have s2 := R_keyB src (o + L w1) (o + L w1) a na N r hn hk hw
  have s3 := R_keyE src (o + L w1) (o + L w1 + k.length - 1) a na N r hn hk hw hany
  have hn1 : (N.set a { na with keys := na.keys ++ [ckspan o w1 k] })[a]?
      = some { na with keys := na.keys ++ [ckspan o w1 k] } := by
    simp [hlt]
  have s4 := R_lay src (N.set a { na with keys := na.keys ++ [ckspan o w1 k] })
    (some a) r w2 (o + L w1 + k.length)
  have s5 := R_lay src (N.set a { na with keys := na.keys ++ [ckspan o w1 k] })
    (some a) r w3 (o + L w1 + k.length + L w2 + 1)
  have s6 := R_valB src (cvalOff o w1 k w2 w3) (cvalOff o w1 k w2 w3) a _ _ r hn1 hk hw
  have s7 := R_create src (openEv (cvalOff o w1 k w2 w3) v) (kindOf v) a
    { ({ na with keys := na.keys ++ [ckspan o w1 k] } : Node) with waiting := true }
    ((N.set a { na with keys := na.keys ++ [ckspan o w1 k] }).set a
      { ({ na with keys := na.keys ++ [ckspan o w1 k] } : Node) with waiting := true })
    r (openEv_plain _ _) (openEv_kind _ _)
    (List.getElem?_set_self (by simpa using hlt)) (Or.inr hk) rfl
  refine (Run.trans s1 (Run.cons s2 (Run.cons s3 (Run.trans s4 (Run.trans s5 (Run.cons s6 s7)))))).cast ?_ ?_ ?_
  · simp
  · rw [List.set_set, List.set_set, List.length_set, List.length_set]
    exact congrArg (fun z => N.set a z ++ [fresh (kindOf v) (some a)]) (node_wait_eta2 na hw _ _)
  · simp

theorem cmember_close_run (src : Array UInt8) (w4 : List LI) (a x y p : Nat) (na : Node) (N : List Node)
    (r : Option Nat) (hn : N[a]? = some na) (hk : na.kind = .obj) (hw : na.waiting = false) :
    Run src (⟨.valE, x, y⟩ :: layEvs p w4) N (some a) r N (some a) r :=
  Run.cons (R_valE src x y a na N r hn hk hw) (R_lay src N (some a) r w4 p)

theorem kindOf_toTree (v : BTree) : kindOf v.toTree = (match v with | .scalar _ => NK.lit | .arr _ _ => .arr | .obj _ _ => .obj) := by
  cases v <;> rfl

mutual
theorem cbody_run (src : Array UInt8) : (v : BTree) → (par : Option Nat) → (L0 : List Node) → (o : Nat) →
    (r : Option Nat) → KeysDistinct src o v.toTree →
    Run src (cBodyEvs o v) (L0 ++ [fresh (kindOf v.toTree) par]) (some L0.length) r
      (L0 ++ nodesOf par L0.length o v.toTree) par r
  | .scalar tok, par, L0, o, r, _ => by
    have h := R_litE src o (o + tok.length - 1) L0.length (fresh .lit par) (L0 ++ [fresh .lit par]) r
      (getElem?_last _ _) rfl
    exact h.cast rfl (by rw [set_last]; simp [BTree.toTree, nodesOf, fresh]) rfl
  | .arr w0 its, par, L0, o, r, hd => by
    have hd' : DistinctItems src (o + 1 + L w0) (toItems its) := by
      simpa [BTree.toTree, KeysDistinct, clsL_length] using hd
    have h1 := R_lay src (L0 ++ [fresh .arr par]) (some L0.length) r w0 (o + 1)
    have h2 := cloader_items src its o L0.length (fresh .arr par) (L0 ++ [fresh .arr par]) (o + 1 + L w0) r
      (getElem?_last _ _) rfl rfl hd'
    exact (Run.trans h1 h2).cast rfl (by rw [set_last]; simp [BTree.toTree, nodesOf, fresh, clsL_length]) rfl
  | .obj w0 ms, par, L0, o, r, hd => by
    obtain ⟨hk, hd'⟩ : ((keysMembers (o + 1 + L w0) (toMembers ms)).map (keyText src)).Nodup ∧
        DistinctMembers src (o + 1 + L w0) (toMembers ms) := by
      simpa [BTree.toTree, KeysDistinct, clsL_length] using hd
    have h1 := R_lay src (L0 ++ [fresh .obj par]) (some L0.length) r w0 (o + 1)
    have h2 := cloader_members src ms o L0.length (fresh .obj par) (L0 ++ [fresh .obj par]) (o + 1 + L w0) r
      (getElem?_last _ _) rfl rfl (by simpa [fresh] using hk) hd'
    exact (Run.trans h1 h2).cast rfl (by rw [set_last]; simp [BTree.toTree, nodesOf, fresh, clsL_length]) rfl
theorem cloader_items (src : Array UInt8) : (its : List BItem) → (x a : Nat) → (na : Node) → (N : List Node) →
    (o : Nat) → (r : Option Nat) → N[a]? = some na → na.kind = .arr → na.waiting = false →
    DistinctItems src o (toItems its) →
    Run src (cEvsItems x o its) N (some a) r
      (N.set a { na with children := na.children ++ idxItems N.length (toItems its) } ++
        nodesItems a N.length o (toItems its))
      na.parent r
  | [], x, a, na, N, o, r, hn, hk, hw, _ => by
    have h := R_arrE src x o a na N r hn hk hw
    exact h.cast rfl (by simp [toItems, idxItems, nodesItems, set_same N a na hn]) rfl
  | (w1, v, w2) :: its, x, a, na, N, o, r, hn, hk, hw, hd => by
    obtain ⟨hdv, hdi⟩ : KeysDistinct src (o + L w1) v.toTree ∧
        DistinctItems src (o + L w1 + v.render.length + L w2 + (if its.isEmpty then 0 else 1)) (toItems its) := by
      simpa [toItems, DistinctItems, nextItem_eq, clsL_length] using hd
    obtain ⟨hlt, _⟩ := List.getElem?_eq_some_iff.mp hn
    have h1 := citem_open_run src v.toTree w1 a na N o r hn hk hw
    have h2 := cbody_run src v (some a) (N.set a (addChild na N.length)) (o + L w1) r hdv
    have hn2 := getElem?_set_append N
      (nodesOf (some a) (N.set a (addChild na N.length)).length (o + L w1) v.toTree) a (addChild na N.length) hlt
    have h3 := citem_close_run src w2 a (o + L w1) (o + L w1 + v.render.length - 1)
      (o + L w1 + v.render.length) _ _ r hn2 hk hw
    have h4 := cloader_items src its x a _ _ (o + L w1 + v.render.length + L w2 + (if its.isEmpty then 0 else 1)) r
      hn2 hk hw hdi
    refine (Run.trans h1 (Run.trans h2 (Run.trans h3 h4))).cast ?_ ?_ rfl
    · simp [cEvsItems, cEvsAt_eq]
    · rw [List.set_append_left _ _ (by simp [hlt]), List.set_set]
      simp only [addChild, List.length_append, List.length_set, nodesOf_length, toItems, idxItems, nodesItems,
        List.append_assoc, List.cons_append, List.nil_append, nextItem_eq, clsL_length, L]
theorem cloader_members (src : Array UInt8) : (ms : List BMember) → (x a : Nat) → (na : Node) → (N : List Node) →
    (o : Nat) → (r : Option Nat) → N[a]? = some na → na.kind = .obj → na.waiting = false →
    ((na.keys ++ keysMembers o (toMembers ms)).map (keyText src)).Nodup → DistinctMembers src o (toMembers ms) →
    Run src (cEvsMembers x o ms) N (some a) r
      (N.set a { na with children := na.children ++ idxMembers N.length (toMembers ms),
                         keys := na.keys ++ keysMembers o (toMembers ms) }
        ++ nodesMembers a N.length o (toMembers ms))
      na.parent r
  | [], x, a, na, N, o, r, hn, hk, hw, _, _ => by
    have h := R_objE src x o a na N r hn hk hw
    exact h.cast rfl (by simp [toMembers, idxMembers, nodesMembers, keysMembers, set_same N a na hn]) rfl
  | (w1, k, w2, w3, v, w4) :: ms, x, a, na, N, o, r, hn, hk, hw, hnd, hd => by
    obtain ⟨hdv, hdi⟩ : KeysDistinct src (cvalOff o w1 k w2 w3) v.toTree ∧
        DistinctMembers src (cvalOff o w1 k w2 w3 + v.render.length + L w4 + (if ms.isEmpty then 0 else 1))
          (toMembers ms) := by
      simpa [toMembers, DistinctMembers, nextMember_eq, valOff_eq, cvalOff, L] using hd
    obtain ⟨hlt, _⟩ := List.getElem?_eq_some_iff.mp hn
    have hnd' : ((na.keys ++ ckspan o w1 k ::
        keysMembers (cvalOff o w1 k w2 w3 + v.render.length + L w4 + (if ms.isEmpty then 0 else 1)) (toMembers ms)).map
          (keyText src)).Nodup := by
      simpa [toMembers, keysMembers, nextMember_eq, clsL_length, cvalOff, L] using hnd
    have hany := nodup_any_false src na.keys _ (ckspan o w1 k) hnd'
    have h1 := cmember_open_run src v.toTree w1 k w2 w3 a na N o r hn hk hw hany
    have h2 := cbody_run src v (some a) (N.set a (addMember na N.length (ckspan o w1 k))) (cvalOff o w1 k w2 w3) r hdv
    have hn2 := getElem?_set_append N
      (nodesOf (some a) (N.set a (addMember na N.length (ckspan o w1 k))).length (cvalOff o w1 k w2 w3) v.toTree) a
      (addMember na N.length (ckspan o w1 k)) hlt
    have h3 := cmember_close_run src w4 a (cvalOff o w1 k w2 w3) (cvalOff o w1 k w2 w3 + v.render.length - 1)
      (cvalOff o w1 k w2 w3 + v.render.length) _ _ r hn2 hk hw
    have h4 := cloader_members src ms x a _ _
      (cvalOff o w1 k w2 w3 + v.render.length + L w4 + (if ms.isEmpty then 0 else 1)) r hn2 hk hw
      (by simpa using hnd') hdi
    refine (Run.trans h1 (Run.trans h2 (Run.trans h3 h4))).cast ?_ ?_ rfl
    · simp [cEvsMembers, cEvsAt_eq, cvalOff]
    · rw [List.set_append_left _ _ (by simp [hlt]), List.set_set]
      simp only [addMember, List.length_append, List.length_set, nodesOf_length, toMembers, idxMembers, nodesMembers,
        keysMembers, List.append_assoc, List.cons_append, List.nil_append, nextMember_eq, valOff_eq, clsL_length,
        List.length_map, cvalOff, L]
end

theorem cdoc_run (src : Array UInt8) (t : BTree) (w0 w1 : List LI) (hd : KeysDistinct src (L w0) t.toTree) :
    Run src (docEvs w0 t w1) [] none none (nodesOf none 0 (L w0) t.toTree) none (some 0) := by
  have h1 := R_root src (openEv (L w0) t.toTree) (kindOf t.toTree) (openEv_plain _ _) (openEv_kind _ _) [] none
  have h2 := cbody_run src t none [] (L w0) (some 0) hd
  have hv : Run src (cEvsAt (L w0) t) [] none none (nodesOf none 0 (L w0) t.toTree) none (some 0) :=
    (Run.cons h1 h2).cast (cEvsAt_eq _ t).symm (by simp) rfl
  exact Run.trans (R_lay src [] none none w0 0) (Run.trans hv (R_lay src _ none (some 0) w1 _))

end loader

/-- **a plain-JSON schema text with user comments loads into the table of its value**: scanner model and loader
model interleaved as in `doLoad`; the result, read against the text, keeps nothing of comments and layout. -/
theorem load_comments (t : BTree) (hv : t.Valid) (hk : t.value.KeysNodup) (w0 w1 : List LI)
    (h0 : ValidL w0) (h1 : ValidL w1) (fin : List UInt8) (hf : IsFin fin) :
    ∃ st, Loader.loadText (docTextF w0 t w1 fin) = .ok st ∧ st.root = some 0 ∧
      absTable (docTextF w0 t w1 fin).toArray st = tableOf none 0 t.value := by
  have hat : AtB (docTextF w0 t w1 fin).toArray (renderL w0).length t.render := by
    have := AtB_toArray (docTextF w0 t w1 fin) (renderL w0) (t.render ++ (renderL w1 ++ fin)) rfl
    rw [AtB_append] at this
    exact this.1
  have hd := distinct_of_value (docTextF w0 t w1 fin).toArray t hv hk (renderL w0).length hat
  obtain ⟨st, hfold, hn, hl, hr, _⟩ := cdoc_run (docTextF w0 t w1 fin).toArray t w0 w1 hd {} Loader.core_init
  refine ⟨st, ?_, hr, ?_⟩
  · unfold Loader.loadText
    refine Loader.loadLoop_of_emits _ (emits_of_ctree t hv w0 w1 h0 h1 fin hf) _ {} st ?_ hfold
    have := docEvs_length t hv w0 w1 fin
    simp only [List.size_toArray, List.length_map]
    omega
  · unfold absTable
    rw [hn]
    exact abs_nodesOf _ t hv none 0 _ hat

/-- **user comments are invisible**: two spellings of one value — any layouts, with or without `#` / `###`
comments, with or without an unterminated last comment — load into the same table -/
theorem comments_invisible (t t' : BTree) (hv : t.Valid) (hv' : t'.Valid) (hs : t.value = t'.value)
    (hk : t.value.KeysNodup) (w0 w1 w0' w1' : List LI) (h0 : ValidL w0) (h1 : ValidL w1)
    (h0' : ValidL w0') (h1' : ValidL w1') (fin fin' : List UInt8) (hf : IsFin fin) (hf' : IsFin fin') :
    ∃ st st', Loader.loadText (docTextF w0 t w1 fin) = .ok st ∧ Loader.loadText (docTextF w0' t' w1' fin') = .ok st' ∧
      st.root = st'.root ∧
      absTable (docTextF w0 t w1 fin).toArray st = absTable (docTextF w0' t' w1' fin').toArray st' := by
  obtain ⟨st, a, b, c⟩ := load_comments t hv hk w0 w1 h0 h1 fin hf
  obtain ⟨st', a', b', c'⟩ := load_comments t' hv' (hs ▸ hk) w0' w1' h0' h1' fin' hf'
  exact ⟨st, st', a, a', by rw [b, b'], by rw [c, c', hs]⟩

end Lay
