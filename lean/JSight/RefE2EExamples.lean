import JSight.RefE2EThm
import JSight.ShortE2EExamples
/-!
Non-vacuity of `C03_text_level_refs`: root `{"a": @A | @B ,⏎ "b": [@C⏎], "c": 1}` (`SE.Ex.root`), added types
`@A` = `1⏎`, `@B` = `"s"`, `@C` = `{"k": true}`; three accepted and three rejected documents — by evaluation of the
closed pipeline, and through the theorem (the specification evaluated on its own).
-/
namespace RE
namespace Ex
open SE (BST TypeText typeTexts typesOf cnOf docText TextOK TypesOK)
open SE.Ex (root root_ok ws_ok one_scalar)
open JsonScan (classify IsKey IsScalar IsWs JA.Valid ValidItems ValidMembers)

def kA : List UInt8 := [34, 97, 34]
def kB : List UInt8 := [34, 98, 34]
def kC : List UInt8 := [34, 99, 34]
def kK : List UInt8 := [34, 107, 34]
def tTrue : List UInt8 := [116, 114, 117, 101]
def tFalse : List UInt8 := [102, 97, 108, 115, 101]

/-- `{"k": true}` -/
def tC : BST := .obj [] [([], kK, [], [32], .scalar tTrue, [])]

/-- `@A` = `1⏎`, `@B` = `"s"`, `@C` = `{"k": true}` -/
def tys : List TypeText := [("@A", [], .scalar [49], [10]), ("@B", [], .scalar [34, 115, 34], []), ("@C", [], tC, [])]

theorem str_scalar : SchemaScan.IsScalar (SE.clsB [34, 115, 34]) :=
  SchemaScan.string_isScalar [.ls] (.plain _ _ rfl .nil)

theorem tC_valid : tC.cls.Valid := by
  simp only [tC, BST.cls, SE.clsMembers, SchemaScan.STree.Valid, SchemaScan.SValidMembers]
  exact ⟨ws_ok _ rfl, ws_ok _ rfl, ⟨_, rfl, rfl⟩, ws_ok _ rfl, ws_ok _ rfl, SchemaScan.true_isScalar, ws_ok _ rfl,
    (by intro h; cases h), trivial⟩

theorem tys_ok : TypesOK tys := by
  intro x hx
  simp only [tys, List.mem_cons, List.not_mem_nil, or_false] at hx
  rcases hx with rfl | rfl | rfl
  · exact ⟨ws_ok _ rfl, ws_ok _ rfl, one_scalar, (by intro h; cases h), by decide +kernel, trivial⟩
  · exact ⟨ws_ok _ rfl, ws_ok _ rfl, str_scalar, (by intro h; cases h), by decide +kernel, trivial⟩
  · exact ⟨ws_ok _ rfl, ws_ok _ rfl, tC_valid, (by intro h; cases h), by decide +kernel,
      by simp only [tC, BST.KeysNodup, SE.NodupMembers, SE.keysB]; exact ⟨by decide +kernel, trivial, trivial⟩⟩

theorem names_ok : CL.typeNamesOK (typeTexts tys) = true := by decide +kernel

/-- the check stage passes: every referenced name was added, no forbidden recursion -/
theorem check_ok : Compile.check (cnOf false root) (typesOf tys) = .ok () := by
  have h : (match Compile.check (cnOf false root) (typesOf tys) with
      | .ok () => true
      | .error _ => false) = true := by decide +kernel
  revert h
  cases Compile.check (cnOf false root) (typesOf tys) with
  | ok u => intro _; rfl
  | error e => intro h; cases h

/-! ### documents -/

abbrev DT := VPos.T UInt8
def m (k : List UInt8) (v : DT) : List UInt8 × List UInt8 × List UInt8 × List UInt8 × DT × List UInt8 := ([], k, [], [], v, [])
def it (v : DT) : List UInt8 × DT × List UInt8 := ([], v, [])

/-- `{"a":1,"b":[{"k":true}],"c":2}` -/
def dAcc1 : DT := .obj [] [m kA (.scalar [49]), m kB (.arr [] [it (.obj [] [m kK (.scalar tTrue)])]), m kC (.scalar [50])]
/-- `{"a":"x","b":[],"c":2}` -/
def dAcc2 : DT := .obj [] [m kA (.scalar [34, 120, 34]), m kB (.arr [] []), m kC (.scalar [50])]
/-- `{"c":2,"b":[{"k":false},{"k":true}],"a":1}` -/
def dAcc3 : DT := .obj [] [m kC (.scalar [50]),
  m kB (.arr [] [it (.obj [] [m kK (.scalar tFalse)]), it (.obj [] [m kK (.scalar tTrue)])]), m kA (.scalar [49])]
/-- `{"a":true,"b":[],"c":2}`: `true` is in neither `@A` nor `@B` -/
def dRej1 : DT := .obj [] [m kA (.scalar tTrue), m kB (.arr [] []), m kC (.scalar [50])]
/-- `{"a":1,"b":[1],"c":2}`: `1` is not in `@C` -/
def dRej2 : DT := .obj [] [m kA (.scalar [49]), m kB (.arr [] [it (.scalar [49])]), m kC (.scalar [50])]
/-- `{"a":1,"b":[{"k":true,"z":2}],"c":2}`: `@C` has no key `z` -/
def dRej3 : DT := .obj [] [m kA (.scalar [49]),
  m kB (.arr [] [it (.obj [] [m kK (.scalar tTrue), m [34, 122, 34] (.scalar [50])])]), m kC (.scalar [50])]

example : String.fromUTF8! (dAcc3.render VPos.byteSym).toByteArray = "{\"c\":2,\"b\":[{\"k\":false},{\"k\":true}],\"a\":1}" := by
  decide +kernel

theorem ws_nil : IsWs (([] : List UInt8).map classify) := by intro c hc; cases hc
theorem kA_ok : IsKey (kA.map classify) := ⟨_, rfl, rfl⟩
theorem kB_ok : IsKey (kB.map classify) := ⟨_, rfl, rfl⟩
theorem kC_ok : IsKey (kC.map classify) := ⟨_, rfl, rfl⟩
theorem kK_ok : IsKey (kK.map classify) := ⟨_, rfl, rfl⟩
theorem kZ_ok : IsKey (([34, 122, 34] : List UInt8).map classify) := ⟨_, rfl, rfl⟩
theorem n1_ok : IsScalar (([49] : List UInt8).map classify) := ⟨.d19, [], .d1, false, .d1, rfl, rfl, rfl, rfl⟩
theorem n2_ok : IsScalar (([50] : List UInt8).map classify) := ⟨.d19, [], .d1, false, .d1, rfl, rfl, rfl, rfl⟩
theorem sx_ok : IsScalar (([34, 120, 34] : List UInt8).map classify) := JsonScan.string_isScalar [.other] (.plain _ _ rfl .nil)
theorem true_ok : IsScalar (tTrue.map classify) := JsonScan.true_isScalar
theorem false_ok : IsScalar (tFalse.map classify) := JsonScan.false_isScalar

macro "doc_valid" : tactic => `(tactic| (
  simp only [dAcc1, dAcc2, dAcc3, dRej1, dRej2, dRej3, m, it, VPos.toJA, VPos.toJAItems, VPos.toJAMembers, JA.Valid,
    ValidMembers, ValidItems]
  and_intros
  all_goals first
    | exact ws_nil | exact kA_ok | exact kB_ok | exact kC_ok | exact kK_ok | exact kZ_ok | exact n1_ok | exact n2_ok
    | exact sx_ok | exact true_ok | exact false_ok | trivial))

theorem dAcc1_valid : (VPos.toJA classify dAcc1).Valid := by doc_valid
theorem dAcc2_valid : (VPos.toJA classify dAcc2).Valid := by doc_valid
theorem dAcc3_valid : (VPos.toJA classify dAcc3).Valid := by doc_valid
theorem dRej1_valid : (VPos.toJA classify dRej1).Valid := by doc_valid
theorem dRej2_valid : (VPos.toJA classify dRej2).Valid := by doc_valid
theorem dRej3_valid : (VPos.toJA classify dRej3).Valid := by doc_valid

theorem sp_ws : IsWs (([32] : List UInt8).map classify) := by simp [IsWs, classify, JsonScan.Cls.isWs]
theorem lf_ws : IsWs (([10] : List UInt8).map classify) := by simp [IsWs, classify, JsonScan.Cls.isWs]

/-! ### the closed pipeline, evaluated -/

abbrev run (d : DT) : E2E.Outcome :=
  E2E.validateText (docText [] root []) (typeTexts tys) ([32] ++ (d.render VPos.byteSym ++ [10])) false

-- the loader stage of the model is defined by well-founded recursion: the kernel's `decide` does not reduce it; the
-- closed pipeline is evaluated by the interpreter at build time (the kernel-checked verdicts are the theorems below)
#guard run dAcc1 == .acc
#guard run dAcc2 == .acc
#guard run dAcc3 == .acc
#guard run dRej1 == .rej
#guard run dRej2 == .rej
#guard run dRej3 == .rej

/-- the stages behind the loader, evaluated by the kernel: the JSON scanner model on the document TEXT, its events fed
to the validator machine `VK.runQ` on the validator schema / table of the compiled trees -/
abbrev machine (d : DT) : Bool :=
  let doc := [32] ++ (d.render VPos.byteSym ++ [10])
  (E2E.eventsP doc).2.isNone &&
    E2E.validateEvs (Compile.envOf (cnOf false root) (typesOf tys)) (Compile.keyOK (typesOf tys))
      (Compile.toVK "root" (cnOf false root)) (E2E.docEvs doc (E2E.eventsP doc).1)

example : machine dAcc1 = true := by decide +kernel
example : machine dAcc2 = true := by decide +kernel
example : machine dAcc3 = true := by decide +kernel
example : machine dRej1 = false := by decide +kernel
example : machine dRej2 = false := by decide +kernel
example : machine dRej3 = false := by decide +kernel

/-! ### the specification, evaluated on its own -/

theorem acc1 : Admits tys false root (E2E.docOf dAcc1) := ⟨5, by decide +kernel⟩
theorem acc2 : Admits tys false root (E2E.docOf dAcc2) := ⟨5, by decide +kernel⟩
theorem acc3 : Admits tys false root (E2E.docOf dAcc3) := ⟨5, by decide +kernel⟩
theorem rej1 : ¬ Admits tys false root (E2E.docOf dRej1) := not_admits_of_top tys 5 _ _ _ (by decide +kernel)
theorem rej2 : ¬ Admits tys false root (E2E.docOf dRej2) := not_admits_of_top tys 5 _ _ _ (by decide +kernel)
theorem rej3 : ¬ Admits tys false root (E2E.docOf dRej3) := not_admits_of_top tys 5 _ _ _ (by decide +kernel)

end Ex
end RE
