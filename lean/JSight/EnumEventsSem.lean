import JSight.EnumNoCrash
/-!
Fuel-free big-step semantics `Out` of the enum-rule scanner's event stream (`next` iterated until `errEOS`),
and its soundness for the two consumers of the stream in the model: `events` (→ `scanAll`) and `lengthLoop`
(→ `length`).
-/
set_option linter.unusedSimpArgs false
set_option linter.unusedVariables false
namespace EnumScan
open SchemaScan (Cls classify)

/-- `Out s n r`: from state `s` the stream delivers the events `r` (or fails with `r`), after `n` delivered events.
Rules: deliver one queued lexeme; read one byte; fail on a byte; end of input with an empty stack. -/
inductive Out (content : Array UInt8) (data : Array Cls) : Sc → Nat → M (List Ev) → Prop
  | shift {s : Sc} {t : LexT} {rest : List LexT} {s1 : Sc} {ev : Ev} {n : Nat} {r : M (List Ev)} :
      s.finds = t :: rest → processFound { s with finds := rest } t = .ok (s1, ev) →
      Out content data s1 n r → Out content data s (n + 1) (r.map (ev :: ·))
  | byte {s : Sc} {c : Cls} {s2 : Sc} {n : Nat} {r : M (List Ev)} :
      s.finds = [] → data[s.index]? = some c →
      dispatch content 8 { s with index := s.index + 1 } c data[s.index + 1]? = .ok s2 → s2.index = s.index + 1 →
      Out content data s2 n r → Out content data s n r
  | fail {s : Sc} {c : Cls} {e : Err} :
      s.finds = [] → data[s.index]? = some c →
      dispatch content 8 { s with index := s.index + 1 } c data[s.index + 1]? = .error e → e ≠ .eos →
      Out content data s 0 (.error e)
  | eof {s : Sc} : s.finds = [] → data.size ≤ s.index → s.stack = [] → Out content data s 0 (.ok [])

/-- the common shape of `events` and `lengthLoop`: a left fold over the delivered events -/
def foldEv {β : Type} (content : Array UInt8) (data : Array Cls) (msg : String) (f : β → Ev → β) : Nat → Sc → β → M β
  | 0, _, _ => throw (.other msg)
  | fuel + 1, s, b =>
    match next content data (2 * data.size + 16) s with
    | .error .eos => pure b
    | .error e => throw e
    | .ok (s, e) => foldEv content data msg f fuel s (f b e)

def foldK {β : Type} (content : Array UInt8) (data : Array Cls) (msg : String) (f : β → Ev → β) (fuel : Nat) (b : β) :
    M (Sc × Ev) → M β
  | .error .eos => pure b
  | .error e => throw e
  | .ok (s, e) => foldEv content data msg f fuel s (f b e)

theorem foldEv_succ {β : Type} (content : Array UInt8) (data : Array Cls) (msg : String) (f : β → Ev → β) (fuel : Nat)
    (s : Sc) (b : β) :
    foldEv content data msg f (fuel + 1) s b = foldK content data msg f fuel b (next content data (2 * data.size + 16) s) := by
  rfl

theorem events_eq_fold (content : Array UInt8) (data : Array Cls) (fuel : Nat) (s : Sc) (acc : List Ev) :
    events content data fuel s acc
      = (foldEv content data "events: fuel exhausted" (fun a e => e :: a) fuel s acc).map List.reverse := by
  induction fuel generalizing s acc with
  | zero => rfl
  | succ fuel ih =>
    unfold events foldEv
    split <;> simp_all [Except.map, pure, Except.pure, throw, throwThe, MonadExceptOf.throw]

theorem lengthLoop_eq_fold (content : Array UInt8) (data : Array Cls) (fuel : Nat) (s : Sc) (len : Nat) :
    lengthLoop content data fuel s len
      = foldEv content data "length: fuel exhausted"
          (fun _ e => if e.e ≥ data.size then data.size else e.e + 1) fuel s len := by
  induction fuel generalizing s len with
  | zero => rfl
  | succ fuel ih =>
    unfold lengthLoop foldEv
    split <;> simp_all [Except.map, pure, Except.pure, throw, throwThe, MonadExceptOf.throw]

theorem shiftFound_cons (s : Sc) (t : LexT) (rest : List LexT) (h : s.finds = t :: rest) :
    shiftFound s = (processFound { s with finds := rest } t).map some := by
  unfold shiftFound
  rw [h]
  rfl

theorem next_shift (content : Array UInt8) (data : Array Cls) (nf : Nat) (s : Sc) (t : LexT) (rest : List LexT)
    (h : s.finds = t :: rest) :
    next content data (nf + 1) s = processFound { s with finds := rest } t := by
  rw [next_succ, shiftFound_cons s t rest h]
  cases processFound { s with finds := rest } t <;> rfl

theorem next_byte (content : Array UInt8) (data : Array Cls) (nf : Nat) (s : Sc) (c : Cls)
    (h : s.finds = []) (hc : data[s.index]? = some c) :
    next content data (nf + 1) s =
      (match dispatch content 8 { s with index := s.index + 1 } c data[s.index + 1]? with
       | .error e => .error e
       | .ok s2 => match s2.finds with
         | [] => next content data nf s2
         | t :: rest => processFound { s2 with finds := rest } t) := by
  have hlt : s.index < data.size := by
    rcases Nat.lt_or_ge s.index data.size with h1 | h1
    · exact h1
    · rw [Array.getElem?_eq_none h1] at hc; cases hc
  have hcc : data[s.index]! = c := by
    rw [getElem!_def, hc]
  rw [next_succ]
  simp only [shift_nil h, bind, Except.bind, hlt, if_true, hcc]
  cases hd : dispatch content 8 { s with index := s.index + 1 } c data[s.index + 1]? with
  | error e => rfl
  | ok s2 =>
    simp only []
    cases hf : s2.finds with
    | nil => simp only [shift_nil hf]
    | cons t rest =>
      rw [shiftFound_cons s2 t rest hf]
      simp only []
      cases processFound { s2 with finds := rest } t <;> rfl

theorem next_eof (content : Array UInt8) (data : Array Cls) (nf : Nat) (s : Sc)
    (h : s.finds = []) (hi : data.size ≤ s.index) (hs : s.stack = []) :
    next content data (nf + 1) s = .error .eos := by
  have hn : ¬ s.index < data.size := by omega
  rw [next_succ]
  simp only [shift_nil h, bind, Except.bind, hn, if_false]
  unfold tailE
  rw [hs]
  rfl

theorem Out_sound {β : Type} (content : Array UInt8) (data : Array Cls) (msg : String) (f : β → Ev → β)
    {s : Sc} {n : Nat} {r : M (List Ev)} (h : Out content data s n r) :
    ∀ (nf fuel : Nat) (b : β), data.size - s.index < nf → n ≤ fuel →
      foldK content data msg f fuel b (next content data nf s) = r.map (fun evs => evs.foldl f b) := by
  induction h with
  | @shift s t rest s1 ev n r hf hp _ ih =>
    intro nf fuel b hnf hfu
    obtain ⟨nf, rfl⟩ : ∃ k, nf = k + 1 := ⟨nf - 1, by omega⟩
    obtain ⟨fuel, rfl⟩ : ∃ k, fuel = k + 1 := ⟨fuel - 1, by omega⟩
    rw [next_shift content data nf s t rest hf, hp]
    show foldEv content data msg f (fuel + 1) s1 (f b ev) = _
    rw [foldEv_succ, ih (2 * data.size + 16) fuel (f b ev) (by omega) (by omega)]
    cases r <;> rfl
  | @byte s c s2 n r hf hc hd hi _ ih =>
    intro nf fuel b hnf hfu
    have hlt : s.index < data.size := by
      rcases Nat.lt_or_ge s.index data.size with h1 | h1
      · exact h1
      · rw [Array.getElem?_eq_none h1] at hc; cases hc
    obtain ⟨nf, rfl⟩ : ∃ k, nf = k + 1 := ⟨nf - 1, by omega⟩
    rw [next_byte content data nf s c hf hc, hd]
    simp only []
    cases hf2 : s2.finds with
    | nil =>
      simp only []
      exact ih nf fuel b (by omega) hfu
    | cons t rest =>
      simp only []
      rw [← next_shift content data (data.size) s2 t rest hf2]
      exact ih (data.size + 1) fuel b (by omega) hfu
  | @fail s c e hf hc hd hne =>
    intro nf fuel b hnf hfu
    obtain ⟨nf, rfl⟩ : ∃ k, nf = k + 1 := ⟨nf - 1, by omega⟩
    rw [next_byte content data nf s c hf hc, hd]
    cases e <;> first | rfl | exact absurd rfl hne
  | @eof s hf hi hs =>
    intro nf fuel b hnf hfu
    obtain ⟨nf, rfl⟩ : ∃ k, nf = k + 1 := ⟨nf - 1, by omega⟩
    rw [next_eof content data nf s hf hi hs]
    rfl

/-- the events of `scanAll`'s loop from a state with semantics `Out` -/
theorem Out_events (content : Array UInt8) (data : Array Cls) {s : Sc} {n : Nat} {r : M (List Ev)}
    (h : Out content data s n r) (fuel : Nat) (hfu : n < fuel) :
    events content data fuel s [] = r := by
  obtain ⟨fuel, rfl⟩ : ∃ k, fuel = k + 1 := ⟨fuel - 1, by omega⟩
  rw [events_eq_fold, foldEv_succ,
    Out_sound content data _ _ h (2 * data.size + 16) fuel [] (by omega) (by omega)]
  cases r with
  | error e => rfl
  | ok evs =>
    simp only [Except.map]
    congr 1
    have : ∀ (l acc : List Ev), (l.foldl (fun a e => e :: a) acc).reverse = acc.reverse ++ l := by
      intro l
      induction l with
      | nil => intro acc; simp
      | cons x xs ih => intro acc; simp [List.foldl, ih]
    simp [this evs []]

theorem Out_lengthLoop (content : Array UInt8) (data : Array Cls) {s : Sc} {n : Nat} {r : M (List Ev)}
    (h : Out content data s n r) (fuel : Nat) (hfu : n < fuel) (len : Nat) :
    lengthLoop content data fuel s len
      = r.map (fun evs => evs.foldl (fun _ e => if e.e ≥ data.size then data.size else e.e + 1) len) := by
  obtain ⟨fuel, rfl⟩ : ∃ k, fuel = k + 1 := ⟨fuel - 1, by omega⟩
  rw [lengthLoop_eq_fold, foldEv_succ]
  exact Out_sound content data _ _ h (2 * data.size + 16) fuel len (by omega) (by omega)

end EnumScan
