import JSight.Rules
import JSight.Unquote
import JSight.Formats
/-!
C02 model, every scalar rule: `ValidateLiteralValue` (`internal/validator/validate_literal_value.go`) on
one compiled scalar node, over the raw bytes of a document token.

* `checkNotAnEnum`: kind admissibility through `json.Guess(value).LiteralJsonType()` — skipped when the
  node carries an `enum`;
* `nullable: true` and the token `null`: accepted at once (fix F-6);
* then every `LiteralValidator` of the constraint map (`schema/constraint/c_*.go`), a conjunction:
  `min` / `max` (`json.NewNumber`, `Number.Cmp`, the exclusive flag folded in by the compiler),
  `precision` (`LengthOfFractionalPart` of the normal form), `minLength` / `maxLength`
  (`len(value.Unquote())`: BYTES of the decoded string), `regex` (`re.Match(value.Unquote())`),
  `enum` (`NewEnumItem`: (decoded text for strings / trimmed SOURCE TEXT otherwise, guessed kind) — numbers
  are compared by their spelling, known finding K-C10-enumtext), `const` (`sameJSONValue`, fix F-16: strings
  by decoded text, numbers by `Cmp`, anything else by bytes), the formats `email` (three guards around
  `mail.ParseAddress`), `uri`, `uuid` (in-repo parser), `date` (`time.Parse("2006-01-02")`), `datetime`.
* Go's `regexp`, `net/mail`, `net/url`, `time.Parse(RFC3339)` are ORACLE PARAMETERS (`Oracles`).
* `compile`: the compiler's folding (`loader/compiler_basic.go`): false-valued `nullable` / `const` are
  dropped (`falseConstraints`), `exclusiveMinimum` / `exclusiveMaximum` are folded into `min` / `max` and
  deleted, `type: "email" | …` adds the format constraint, any other `type` value adds nothing.
-/
namespace RulesF
open Rules (Kind)

abbrev Bytes := List UInt8

/-- the four standard-library predicates the code calls, on the DECODED string -/
structure Oracles where
  re : Bytes → Bytes → Bool      -- `regexp.MustCompile(pattern).Match(s)`
  mail : Bytes → Bool            -- `mail.ParseAddress(s)` succeeds
  uri : Bytes → Bool             -- `url.ParseRequestURI(s)` succeeds, `IsAbs()`, `Hostname() != ""`
  rfc3339 : Bytes → Bool         -- `time.Parse(time.RFC3339, s)` succeeds

inductive Fmt | email | uri | uuid | date | datetime deriving DecidableEq, Repr

/-- a compiled constraint that is a `LiteralValidator` -/
inductive Rule
  | min (bound : Bytes) (excl : Bool)
  | max (bound : Bytes) (excl : Bool)
  | precision (p : Nat)
  | minLength (n : Nat)
  | maxLength (n : Nat)
  | regex (pattern : Bytes)
  | enum (items : List Bytes)          -- the items' source tokens, in source order
  | const                              -- `const: true`: equality with the node's EXAMPLE
  | fmt (f : Fmt)
  deriving DecidableEq, Repr

def Rule.isEnum : Rule → Bool | .enum _ => true | _ => false

/-- what a scalar node is after compilation -/
structure LitSpecF where
  kind : Kind                -- `node.Type()`: guessed from the EXAMPLE token
  ex : Bytes                 -- the EXAMPLE token (`nodeValue` of `NewConst`)
  nul : Bool                 -- a `nullable` constraint survives compilation (= `nullable: true`)
  rules : List Rule
  deriving DecidableEq, Repr

/-! ### tokens -/

def sTrue : Bytes := [116, 114, 117, 101]
def sFalse : Bytes := [102, 97, 108, 115, 101]
def sNull : Bytes := [110, 117, 108, 108]

/-- bytes → the character classes of `internal/json/scanner.go` -/
def toCh (bs : Bytes) : List Num.Ch := bs.map fun c =>
  if c == 45 then .minus else if c == 43 then .plus else if c == 46 then .dot
  else if c == 101 || c == 69 then .e
  else if 48 ≤ c && c ≤ 57 then .d (c.toNat - 48) else .other

/-- `json.NewNumber` -/
def number (b : Bytes) : Option Num.N := Num.scan (toCh b)

def hasDot (b : Bytes) : Bool := b.any (· == 46)
def hasExp (b : Bytes) : Bool := b.any (fun c => c == 101 || c == 69)

/-- `GuessData.LiteralJsonType` in its order: string, boolean, null, integer, float; `none` = the panic
"Node type can't be guessed by value" (a `@name` token would be `mixed`, which no scalar node admits and no
JSON scanner delivers: folded into `none`) -/
def kindOfTok (b : Bytes) : Option Kind :=
  if Unquote.inQuotes b then some .s
  else if b == sTrue || b == sFalse then some .b
  else if b == sNull then some .n
  else if hasDot b && !hasExp b then some .f          -- `IsInteger` false, `IsFloat` true without a look at the digits
  else match number b with
    | none => none
    | some n => if n.exp == 0 then some .i else some .f

/-! ### the literal validators -/

def isBlank (c : UInt8) : Bool := c == 32 || c == 9 || c == 10 || c == 13

/-- `Bytes.TrimSpaces` -/
def trimSpaces (b : Bytes) : Bytes := ((b.dropWhile isBlank).reverse.dropWhile isBlank).reverse

/-- `NewEnumItem`: (value, jsonType); `none` = the type guess panics -/
def enumItem (src : Bytes) : Option (Bytes × Kind) :=
  let b := trimSpaces src
  match kindOfTok b with
  | none => none
  | some k => some (if k == .s then Unquote.unquote b else b, k)

/-- `sameJSONValue` (F-16) -/
def sameJSONValue (a b : Bytes) : Bool :=
  if Unquote.inQuotes a && Unquote.inQuotes b then Unquote.unquote a == Unquote.unquote b
  else match number a, number b with
    | some x, some y => x.cmp y == .eq
    | _, _ => a == b

/-- `Email.Validate` around the oracle -/
def emailOK (o : Oracles) (s : Bytes) : Bool :=
  match s.head?, s.getLast? with
  | some f, some l => !(f == 32 || f == 60) && !(l == 32 || l == 62) && o.mail s
  | _, _ => false

def fmtOK (o : Oracles) (f : Fmt) (s : Bytes) : Bool :=
  match f with
  | .email => emailOK o s
  | .uri => o.uri s
  | .uuid => Formats.uuidOK s
  | .date => Formats.dateOK s
  | .datetime => o.rfc3339 s

/-- one constraint's `Validate(value)`: `true` = it returns, `false` = it panics -/
def ruleOK (o : Oracles) (ex : Bytes) (tok : Bytes) : Rule → Bool
  | .min b excl =>
    (match number tok, number b with
     | some v, some m => if excl then m.cmp v == .lt else m.cmp v != .gt   -- !GreaterThanOrEqual / !GreaterThan
     | _, _ => false)
  | .max b excl =>
    (match number tok, number b with
     | some v, some m => if excl then m.cmp v == .gt else m.cmp v != .lt   -- !LessThanOrEqual / !LessThan
     | _, _ => false)
  | .precision p =>
    (match number tok with
     | some v => decide (v.exp ≤ p)
     | none => false)
  | .minLength n => decide (n ≤ (Unquote.unquote tok).length)
  | .maxLength n => decide ((Unquote.unquote tok).length ≤ n)
  | .regex pat => o.re pat (Unquote.unquote tok)
  | .enum items =>
    (match enumItem tok with
     | none => false
     | some a => items.any (fun it => enumItem it == some a))
  | .const => sameJSONValue tok ex
  | .fmt f => fmtOK o f (Unquote.unquote tok)

def hasEnum (l : LitSpecF) : Bool := l.rules.any Rule.isEnum

/-- `checkNotAnEnum` -/
def kindGate (l : LitSpecF) (tok : Bytes) : Bool :=
  hasEnum l ||
  (match kindOfTok tok with
   | none => false
   | some d => d == l.kind || (d == .i && l.kind == .f) || (d == .n && l.nul))

/-- `ValidateLiteralValue` returns without a panic -/
def litOKFull (o : Oracles) (l : LitSpecF) (tok : Bytes) : Bool :=
  kindGate l tok && ((l.nul && tok == sNull) || l.rules.all (ruleOK o l.ex tok))

/-! ### the compiler's folding -/

/-- a rule as written in the annotation of a scalar EXAMPLE -/
inductive RawRule
  | nullable (v : Bool)
  | const (v : Bool)
  | min (bound : Bytes)
  | max (bound : Bytes)
  | exclusiveMinimum (v : Bool)
  | exclusiveMaximum (v : Bool)
  | precision (p : Nat)
  | minLength (n : Nat)
  | maxLength (n : Nat)
  | regex (pattern : Bytes)
  | enum (items : List Bytes)
  | typeFmt (f : Fmt)           -- `type: "email"` …
  | typeOther                   -- `type: "integer" | "float" | "decimal" | "string" | "boolean" | "null" | "enum"`
  deriving DecidableEq, Repr

def compileRule (raws : List RawRule) : RawRule → Option Rule
  | .nullable _ => none                                  -- not a LiteralValidator
  | .const v => if v then some .const else none          -- falseConstraints
  | .min b => some (.min b (raws.contains (.exclusiveMinimum true)))
  | .max b => some (.max b (raws.contains (.exclusiveMaximum true)))
  | .exclusiveMinimum _ => none
  | .exclusiveMaximum _ => none
  | .precision p => some (.precision p)
  | .minLength n => some (.minLength n)
  | .maxLength n => some (.maxLength n)
  | .regex p => some (.regex p)
  | .enum items => some (.enum items)
  | .typeFmt f => some (.fmt f)
  | .typeOther => none

/-- `compileNode` on a scalar node with example token `ex` of kind `kind` -/
def compile (kind : Kind) (ex : Bytes) (raws : List RawRule) : LitSpecF :=
  { kind := kind, ex := ex, nul := raws.contains (.nullable true), rules := raws.filterMap (compileRule raws) }

end RulesF
