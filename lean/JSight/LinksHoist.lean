import JSight.LinksOwnPinned
/-!
C09 (a) with OWNERSHIP on the current tree (hoist first, then `CompileAllOf`, then `CheckRootSchema`):
`LK.linkCheckO og ord = LK.linkCheck (LK.flatten og) ord`, and the hoisted table holds exactly the type objects
that reach the root through a chain of `AddType`s of any length (`inTable_flatten_iff`). Hence soundness and
completeness of the link check carry over to every ownership structure.
-/
namespace LK

/-- the type object named `n` reaches the root through a chain of `AddType`s -/
inductive Reach (ts : List OT) : String → Prop
  | root (t : OT) : t ∈ ts → t.owner = .root → Reach ts t.name
  | step (t : OT) (o : String) : t ∈ ts → t.owner = .type o → Reach ts o → Reach ts t.name

theorem linkCheckO_eq_flat (og : OG) (ord : List (List String)) : linkCheckO og ord = linkCheck (flatten og) ord := rfl

/-! ### the hoisting loop -/

theorem addsNow_iff (tab : List String) (t : OT) :
    addsNow tab t = true ↔ ∃ o, t.owner = .type o ∧ o ∈ tab ∧ t.name ∉ tab := by
  unfold addsNow
  cases ho : t.owner with
  | root => simp
  | nobody => simp
  | type o =>
    simp only [Bool.and_eq_true, Bool.not_eq_true', Owner.type.injEq, exists_eq_left']
    constructor
    · rintro ⟨h1, h2⟩
      exact ⟨by simpa using h1, by simpa using h2⟩
    · rintro ⟨h1, h2⟩
      exact ⟨by simpa using h1, by simpa using h2⟩

theorem sub_hoistRound (ts : List OT) (tab : List String) : ∀ x ∈ tab, x ∈ hoistRound ts tab :=
  fun x hx => List.mem_append_left _ hx

theorem sub_hoistNames (ts : List OT) : ∀ (f : Nat) (tab : List String), ∀ x ∈ tab, x ∈ hoistNames ts f tab
  | 0, _, _, hx => hx
  | f + 1, tab, x, hx => sub_hoistNames ts f _ x (sub_hoistRound ts tab x hx)

theorem mem_hoistRound (ts : List OT) (tab : List String) (x : String) :
    x ∈ hoistRound ts tab ↔ x ∈ tab ∨ ∃ t ∈ ts, t.name = x ∧ ∃ o, t.owner = .type o ∧ o ∈ tab ∧ t.name ∉ tab := by
  unfold hoistRound
  simp only [List.mem_append, List.mem_map, List.mem_filter, addsNow_iff]
  constructor
  · rintro (h | ⟨t, ⟨ht, hc⟩, rfl⟩)
    · exact Or.inl h
    · exact Or.inr ⟨t, ht, rfl, hc⟩
  · rintro (h | ⟨t, ht, rfl, hc⟩)
    · exact Or.inl h
    · exact Or.inr ⟨t, ⟨ht, hc⟩, rfl⟩

/-- everything the loop ever puts into the table is reachable -/
theorem hoistNames_reach (ts : List OT) : ∀ (f : Nat) (tab : List String), (∀ x ∈ tab, Reach ts x) →
    ∀ x ∈ hoistNames ts f tab, Reach ts x
  | 0, _, h, x, hx => h x hx
  | f + 1, tab, h, x, hx => by
    refine hoistNames_reach ts f (hoistRound ts tab) ?_ x hx
    intro y hy
    rcases (mem_hoistRound ts tab y).1 hy with hy | ⟨t, ht, rfl, o, ho, hot, _⟩
    · exact h y hy
    · exact .step t o ht ho (h o hot)

theorem table0_reach (ts : List OT) : ∀ x ∈ table0 ts, Reach ts x := by
  intro x hx
  unfold table0 at hx
  obtain ⟨t, ht, rfl⟩ := List.mem_map.1 hx
  obtain ⟨hm, hc⟩ := List.mem_filter.1 ht
  cases ho : t.owner with
  | root => exact .root t hm ho
  | type o => simp [ho] at hc
  | nobody => simp [ho] at hc

theorem mem_table0 (ts : List OT) (t : OT) (ht : t ∈ ts) (ho : t.owner = .root) : t.name ∈ table0 ts := by
  unfold table0
  exact List.mem_map.2 ⟨t, List.mem_filter.2 ⟨ht, by simp [ho]⟩, rfl⟩

/-- type objects not yet in the table -/
def UH (ts : List OT) (tab : List String) : Nat := ts.countP (fun t => !tab.contains t.name)

/-- a round that adds nothing -/
def Closed (ts : List OT) (tab : List String) : Prop := ∀ t ∈ ts, addsNow tab t = false

theorem hoistRound_closed_eq (ts : List OT) (tab : List String) (h : Closed ts tab) : hoistRound ts tab = tab := by
  unfold hoistRound
  have : ts.filter (addsNow tab) = [] := by
    apply List.filter_eq_nil_iff.2
    intro t ht hc
    rw [h t ht] at hc
    cases hc
  rw [this]; simp

theorem hoistNames_closed (ts : List OT) : ∀ (f : Nat) (tab : List String), Closed ts tab → hoistNames ts f tab = tab
  | 0, _, _ => rfl
  | f + 1, tab, h => by
    simp only [hoistNames]
    rw [hoistRound_closed_eq ts tab h]
    exact hoistNames_closed ts f tab h

theorem countP_lt {α : Type} (p q : α → Bool) : ∀ (l : List α), (∀ x ∈ l, p x = true → q x = true) →
    (∃ x ∈ l, q x = true ∧ p x = false) → l.countP p < l.countP q
  | [], _, h => by obtain ⟨x, hx, _⟩ := h; simp at hx
  | a :: l, hpq, ⟨x, hx, hq, hp⟩ => by
    rw [List.countP_cons, List.countP_cons]
    have hle : l.countP p ≤ l.countP q :=
      List.countP_mono_left (fun y hy hpy => hpq y (List.mem_cons_of_mem _ hy) hpy)
    rcases List.mem_cons.1 hx with rfl | hx
    · simp only [hq, hp, if_true, Bool.false_eq_true, if_false]; omega
    · have := countP_lt p q l (fun y hy => hpq y (List.mem_cons_of_mem _ hy)) ⟨x, hx, hq, hp⟩
      have h1 : (if p a = true then 1 else 0) ≤ (if q a = true then 1 else 0) := by
        by_cases hpa : p a = true
        · simp [hpa, hpq a List.mem_cons_self hpa]
        · have hf : p a = false := by simpa using hpa
          rw [hf]; simp
      omega

/-- a round that adds something leaves strictly fewer objects outside -/
theorem UH_lt (ts : List OT) (tab : List String) (t : OT) (ht : t ∈ ts) (ha : addsNow tab t = true) :
    UH ts (hoistRound ts tab) < UH ts tab := by
  unfold UH
  apply countP_lt
  · intro x _ hx
    have h1 : x.name ∉ hoistRound ts tab := by simpa using hx
    have h2 : x.name ∉ tab := fun hm => h1 (sub_hoistRound ts tab _ hm)
    simpa using h2
  · obtain ⟨o, ho, hot, hnt⟩ := (addsNow_iff tab t).1 ha
    refine ⟨t, ht, by simpa using hnt, ?_⟩
    have : t.name ∈ hoistRound ts tab := (mem_hoistRound ts tab t.name).2 (Or.inr ⟨t, ht, rfl, o, ho, hot, hnt⟩)
    simpa using this

/-- after `UH` rounds (or more) nothing more can be added -/
theorem hoistNames_fix (ts : List OT) : ∀ (f : Nat) (tab : List String), UH ts tab ≤ f → Closed ts (hoistNames ts f tab)
  | 0, tab, h => by
    intro t ht
    show addsNow tab t = false
    cases ha : addsNow tab t with
    | false => rfl
    | true =>
      have := UH_lt ts tab t ht ha
      omega
  | f + 1, tab, h => by
    by_cases hc : Closed ts tab
    · rw [hoistNames_closed ts (f + 1) tab hc]; exact hc
    · have ⟨t, ht, ha⟩ : ∃ t ∈ ts, addsNow tab t = true := by
        apply Classical.byContradiction
        intro hno
        apply hc
        intro t ht
        cases ha : addsNow tab t with
        | false => rfl
        | true => exact absurd ⟨t, ht, ha⟩ hno
      have := UH_lt ts tab t ht ha
      exact hoistNames_fix ts f (hoistRound ts tab) (by omega)

theorem UH_le (ts : List OT) (tab : List String) : UH ts tab ≤ ts.length := List.countP_le_length

/-- **hoisting is complete and exact**: the root table after `AddUnnamedTypes` holds the type objects that reach the
root through `AddType` chains of ANY length, and nothing else; `|types|` rounds suffice -/
theorem mem_hoisted_iff (og : OG) (n : String) : n ∈ hoisted og ↔ Reach og.types n := by
  unfold hoisted
  constructor
  · exact hoistNames_reach og.types _ _ (table0_reach og.types) n
  · intro h
    have hfix := hoistNames_fix og.types og.types.length (table0 og.types) (UH_le _ _)
    induction h with
    | root t ht ho => exact sub_hoistNames _ _ _ _ (mem_table0 og.types t ht ho)
    | step t o ht ho _ ih =>
      apply Classical.byContradiction
      intro hn
      have := hfix t ht
      rw [(addsNow_iff _ t).2 ⟨o, ho, ih, hn⟩] at this
      cases this

theorem reach_has_entry (ts : List OT) (n : String) (h : Reach ts n) : ∃ t ∈ ts, t.name = n := by
  cases h with
  | root t ht _ => exact ⟨t, ht, rfl⟩
  | step t o ht _ _ => exact ⟨t, ht, rfl⟩

theorem inTable_flatten_iff (og : OG) (n : String) : InTable (flatten og) n ↔ Reach og.types n := by
  rw [← mem_sortedNames, ← mem_hoisted_iff]
  unfold sortedNames flatten
  rw [mem_sortStrings]
  simp only [List.map_map, List.mem_map, List.mem_filter, Function.comp]
  constructor
  · rintro ⟨t, ⟨_, hc⟩, rfl⟩
    simpa using hc
  · intro h
    obtain ⟨t, ht, e⟩ := reach_has_entry og.types n ((mem_hoisted_iff og n).1 h)
    exact ⟨t, ⟨ht, by simpa [e] using h⟩, e⟩

/-! ### the link check with ownership -/

theorem linkCheckO_sound (og : OG) (ord : List (List String)) (hord : OrdOK (flatten og) ord) (n : String)
    (h : linkCheckO og ord = .error (.missing n)) : Refs (flatten og) n ∧ ¬ Reach og.types n := by
  obtain ⟨hr, hnt⟩ := links_names_missing (flatten og) ord hord n h
  exact ⟨hr, fun hre => hnt ((inTable_flatten_iff og n).2 hre)⟩

theorem linkCheckO_complete (og : OG) (ord : List (List String)) (h : linkCheckO og ord = .ok ()) :
    ∀ n, Refs (flatten og) n → Reach og.types n :=
  fun n hr => (inTable_flatten_iff og n).1 (links_ok_resolved (flatten og) ord h n hr)

theorem linkCheckO_iff (og : OG) (ord : List (List String)) (hord : OrdOK (flatten og) ord)
    (hno : OnlyMissing (flatten og) ord) :
    linkCheckO og ord = .ok () ↔ ∀ n, Refs (flatten og) n → Reach og.types n := by
  rw [linkCheckO_eq_flat, links_iff (flatten og) ord hord hno]
  unfold Resolved
  constructor
  · intro h n hr; exact (inTable_flatten_iff og n).1 (h n hr)
  · intro h n hr; exact (inTable_flatten_iff og n).2 (h n hr)

/-! ### the two witnesses of the pre-fix order, on the current tree -/

/-- `witnessNestedAllOf` with its ownership: `@a` added to the root, `@b` to `@a` -/
def ownedNestedAllOf : OG :=
  { root := .obj [] none [("a", false, .ref ["@a"])],
    types := [⟨"@a", .root, .obj [] none [("b", false, .ref ["@b"])]⟩,
              ⟨"@b", .type "@a", .obj ["@m"] none [("x", false, .lit .int .none none)]⟩] }

def ownedNestedParent : OG :=
  { root := .obj ["@b"] none [("a", false, .ref ["@a"])],
    types := [⟨"@a", .root, .obj [] none [("k", false, .lit .int .none none)]⟩,
              ⟨"@b", .type "@a", .obj [] none [("x", false, .lit .int .none none)]⟩] }

theorem ownedNestedAllOf_now : linkCheckO ownedNestedAllOf [] = .error (.missing "@m") := by decide
theorem ownedNestedParent_now : linkCheckO ownedNestedParent [] = .ok () := by decide

end LK
