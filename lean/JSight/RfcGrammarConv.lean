import JSight.RfcGrammar
/-!
C05, "⇒" against the grammar itself: the converse of `RfcG.grammar_accepted`. Every class string accepted by the
recogniser `Rfc.acceptsC` is `ws value ws` for a value tree of the RFC 8259 grammar (`GValid`). No bound on size
or depth.

Method: for every configuration `⟨st, ctx⟩` the predicate `Suf ⟨st, ctx⟩ cs` describes, in grammar terms, the
*suffixes* `cs` that can lead from that configuration to acceptance (the rest of the token in progress, then for every
open container of `ctx` the rest of its items / members and its closer: `Tail ctx`). `Suf` holds for the empty suffix
in accepting configurations and is propagated backwards by every `Rfc.step` (`suf_step`), so it holds for the initial
configuration and the whole text, where it says `cs = ws ++ value ++ ws`.
-/
namespace RfcG
open JsonScan (Cls JA IsWs StrBody NumTok IsDigits renderItems renderMembers)
open Rfc

abbrev Item := List Cls × JA × List Cls
abbrev Member := List Cls × List Cls × List Cls × List Cls × JA × List Cls

/-! ### small facts -/

theorem isWs_nil : IsWs [] := by intro x hx; cases hx

theorem isWs_cons {c : Cls} {w : List Cls} (hc : c.isWs = true) (hw : IsWs w) : IsWs (c :: w) := by
  intro x hx
  rcases List.mem_cons.1 hx with rfl | h
  · exact hc
  · exact hw x h

theorem isDigits_nil : IsDigits [] := by intro x hx; cases hx

theorem isDigits_cons {c : Cls} {w : List Cls} (hc : c.isDigit = true) (hw : IsDigits w) : IsDigits (c :: w) := by
  intro x hx
  rcases List.mem_cons.1 hx with rfl | h
  · exact hc
  · exact hw x h

theorem GValid_scalar (tok : List Cls) : GValid (.scalar tok) ↔ GTok tok := by simp [GValid]
theorem GValid_arr (w : List Cls) (its : List Item) : GValid (.arr w its) ↔ IsWs w ∧ GItems its := by simp [GValid]
theorem GValid_obj (w : List Cls) (ms : List Member) : GValid (.obj w ms) ↔ IsWs w ∧ GMembers ms := by simp [GValid]
theorem GItems_cons (w1 : List Cls) (v : JA) (w2 : List Cls) (its : List Item) :
    GItems ((w1, v, w2) :: its) ↔ IsWs w1 ∧ GValid v ∧ IsWs w2 ∧ GItems its := by simp [GItems]
theorem GMembers_cons (w1 k w2 w3 : List Cls) (v : JA) (w4 : List Cls) (ms : List Member) :
    GMembers ((w1, k, w2, w3, v, w4) :: ms) ↔
      IsWs w1 ∧ GKey k ∧ IsWs w2 ∧ IsWs w3 ∧ GValid v ∧ IsWs w4 ∧ GMembers ms := by simp [GMembers]
theorem GItems_nil : GItems [] := by simp [GItems]
theorem GMembers_nil : GMembers [] := by simp [GMembers]

/-- the separator before the remaining items / members (as in `renderItems`, `renderMembers`) -/
def sep {α : Type} (l : List α) : List Cls := if l.isEmpty then [] else [.comma]

theorem renderItems_cons (w1 : List Cls) (v : JA) (w2 : List Cls) (its : List Item) :
    renderItems ((w1, v, w2) :: its) = w1 ++ (v.render ++ (w2 ++ (sep its ++ renderItems its))) := by
  simp only [renderItems, sep]

theorem renderMembers_cons (w1 k w2 w3 : List Cls) (v : JA) (w4 : List Cls) (ms : List Member) :
    renderMembers ((w1, k, w2, w3, v, w4) :: ms) =
      w1 ++ (k ++ (w2 ++ (.colon :: (w3 ++ (v.render ++ (w4 ++ (sep ms ++ renderMembers ms))))))) := by
  simp only [renderMembers, sep]

theorem renderItems_nil : renderItems [] = [.rbrack] := by simp only [renderItems]
theorem renderMembers_nil : renderMembers [] = [.rbrace] := by simp only [renderMembers]

/-! ### what may follow a complete value, for a stack of open containers -/

/-- the texts that may follow a complete value when the containers `ctx` are open: layout, then for the innermost
container the remaining items / members and its closer, and so on outwards; at top level only layout -/
def Tail : List Ctx → List Cls → Prop
  | [], cs => IsWs cs
  | .arr :: k, cs => ∃ (w : List Cls) (its : List Item) (rest : List Cls),
      IsWs w ∧ GItems its ∧ cs = w ++ (sep its ++ (renderItems its ++ rest)) ∧ Tail k rest
  | .obj :: k, cs => ∃ (w : List Cls) (ms : List Member) (rest : List Cls),
      IsWs w ∧ GMembers ms ∧ cs = w ++ (sep ms ++ (renderMembers ms ++ rest)) ∧ Tail k rest

theorem Tail_nil (cs : List Cls) : Tail [] cs ↔ IsWs cs := by simp only [Tail]
theorem Tail_arr (k : List Ctx) (cs : List Cls) : Tail (.arr :: k) cs ↔ ∃ (w : List Cls) (its : List Item) (rest : List Cls),
      IsWs w ∧ GItems its ∧ cs = w ++ (sep its ++ (renderItems its ++ rest)) ∧ Tail k rest := by simp only [Tail]
theorem Tail_obj (k : List Ctx) (cs : List Cls) : Tail (.obj :: k) cs ↔ ∃ (w : List Cls) (ms : List Member) (rest : List Cls),
      IsWs w ∧ GMembers ms ∧ cs = w ++ (sep ms ++ (renderMembers ms ++ rest)) ∧ Tail k rest := by simp only [Tail]

theorem tail_ws_cons (ctx : List Ctx) (c : Cls) (cs : List Cls) (hc : c.isWs = true) (h : Tail ctx cs) :
    Tail ctx (c :: cs) := by
  rcases ctx with _ | ⟨x, k⟩
  · rw [Tail_nil] at h ⊢; exact isWs_cons hc h
  · cases x
    · rw [Tail_obj] at h ⊢
      obtain ⟨w, ms, rest, hw, hm, rfl, ht⟩ := h
      exact ⟨c :: w, ms, rest, isWs_cons hc hw, hm, rfl, ht⟩
    · rw [Tail_arr] at h ⊢
      obtain ⟨w, its, rest, hw, hi, rfl, ht⟩ := h
      exact ⟨c :: w, its, rest, isWs_cons hc hw, hi, rfl, ht⟩

/-! ### number tokens: completions of a number from each `Num` state -/

def SignOK (s : Option Cls) : Prop := ∀ y, s = some y → y = .plus ∨ y = .minus
def FracOK (f : Option (Cls × List Cls)) : Prop := ∀ d ds, f = some (d, ds) → d.isDigit = true ∧ IsDigits ds
def ExpOK (x : Option (Cls × Option Cls × Cls × List Cls)) : Prop :=
  ∀ e s d ds, x = some (e, s, d, ds) → (e = .le ∨ e = .uE) ∧ (∀ y, s = some y → y = .plus ∨ y = .minus) ∧
    d.isDigit = true ∧ IsDigits ds

def fracR : Option (Cls × List Cls) → List Cls
  | none => []
  | some (d, ds) => .dot :: d :: ds
def expTail : Option Cls → Cls → List Cls → List Cls
  | none, d, ds => d :: ds
  | some s, d, ds => s :: d :: ds
def expR : Option (Cls × Option Cls × Cls × List Cls) → List Cls
  | none => []
  | some (e, s, d, ds) => e :: expTail s d ds

theorem render_eq (t : NumTok) :
    t.render = (if t.neg then [.minus] else []) ++ (t.int ++ (fracR t.frac ++ expR t.exp)) := by
  obtain ⟨neg, int, frac, exp⟩ := t
  rcases frac with _ | ⟨d, ds⟩ <;> rcases exp with _ | ⟨e, _ | s, d', ds'⟩ <;>
    simp [NumTok.render, fracR, expR, expTail]

theorem fracOK_none : FracOK none := by intro d ds h; cases h
theorem expOK_none : ExpOK none := by intro e s d ds h; cases h
theorem fracOK_some {d : Cls} {ds : List Cls} (hd : d.isDigit = true) (hds : IsDigits ds) : FracOK (some (d, ds)) := by
  intro d' ds' h; cases h; exact ⟨hd, hds⟩
theorem expOK_some {e : Cls} {s : Option Cls} {d : Cls} {ds : List Cls} (he : e = .le ∨ e = .uE) (hs : SignOK s)
    (hd : d.isDigit = true) (hds : IsDigits ds) : ExpOK (some (e, s, d, ds)) := by
  intro e' s' d' ds' h; cases h; exact ⟨he, hs, hd, hds⟩

/-- `NumRest n t`: `t` completes a number when the automaton is in number state `n` -/
def NumRest : Num → List Cls → Prop
  | .exp, t => IsDigits t
  | .esign, t => ∃ d ds, d.isDigit = true ∧ IsDigits ds ∧ t = d :: ds
  | .e, t => ∃ s d ds, SignOK s ∧ d.isDigit = true ∧ IsDigits ds ∧ t = expTail s d ds
  | .frac, t => ∃ ds x, IsDigits ds ∧ ExpOK x ∧ t = ds ++ expR x
  | .dot, t => ∃ d ds x, d.isDigit = true ∧ IsDigits ds ∧ ExpOK x ∧ t = d :: (ds ++ expR x)
  | .zero, t => ∃ f x, FracOK f ∧ ExpOK x ∧ t = fracR f ++ expR x
  | .int, t => ∃ ds f x, IsDigits ds ∧ FracOK f ∧ ExpOK x ∧ t = ds ++ (fracR f ++ expR x)
  | .minus, t => (∃ f x, FracOK f ∧ ExpOK x ∧ t = .zero :: (fracR f ++ expR x)) ∨
      (∃ ds f x, IsDigits ds ∧ FracOK f ∧ ExpOK x ∧ t = .d19 :: (ds ++ (fracR f ++ expR x)))

theorem numRest_final (n : Num) (h : n.final = true) : NumRest n [] := by
  cases n <;> simp [Num.final] at h
  · exact ⟨none, none, fracOK_none, expOK_none, rfl⟩
  · exact ⟨[], none, none, isDigits_nil, fracOK_none, expOK_none, rfl⟩
  · exact ⟨[], none, isDigits_nil, expOK_none, rfl⟩
  · exact isDigits_nil

theorem tok_zero (neg : Bool) (f : Option (Cls × List Cls)) (x : Option (Cls × Option Cls × Cls × List Cls))
    (hf : FracOK f) (hx : ExpOK x) :
    GTok ((if neg then [.minus] else []) ++ (.zero :: (fracR f ++ expR x))) := by
  have := GTok.num ⟨neg, [.zero], f, x⟩ ⟨Or.inl rfl, hf, hx⟩
  rw [render_eq] at this
  exact this

theorem tok_int (neg : Bool) (ds : List Cls) (f : Option (Cls × List Cls)) (x : Option (Cls × Option Cls × Cls × List Cls))
    (hds : IsDigits ds) (hf : FracOK f) (hx : ExpOK x) :
    GTok ((if neg then [.minus] else []) ++ (.d19 :: (ds ++ (fracR f ++ expR x)))) := by
  have := GTok.num ⟨neg, .d19 :: ds, f, x⟩ ⟨Or.inr ⟨ds, rfl, hds⟩, hf, hx⟩
  rw [render_eq] at this
  exact this

theorem numRest_zero_tok (t : List Cls) (h : NumRest .zero t) : GTok (.zero :: t) := by
  obtain ⟨f, x, hf, hx, rfl⟩ := h
  exact tok_zero false f x hf hx

theorem numRest_int_tok (t : List Cls) (h : NumRest .int t) : GTok (.d19 :: t) := by
  obtain ⟨ds, f, x, hds, hf, hx, rfl⟩ := h
  exact tok_int false ds f x hds hf hx

theorem numRest_minus_tok (t : List Cls) (h : NumRest .minus t) : GTok (.minus :: t) := by
  rcases h with ⟨f, x, hf, hx, rfl⟩ | ⟨ds, f, x, hds, hf, hx, rfl⟩
  · exact tok_zero true f x hf hx
  · exact tok_int true ds f x hds hf hx

/-! ### the suffix languages of the configurations -/

def SufValue (ctx : List Ctx) (cs : List Cls) : Prop :=
  ∃ (w : List Cls) (v : JA) (rest : List Cls), IsWs w ∧ GValid v ∧ cs = w ++ (v.render ++ rest) ∧ Tail ctx rest

def SufArrFirst (k : List Ctx) (cs : List Cls) : Prop :=
  ∃ (w : List Cls) (its : List Item) (rest : List Cls),
    IsWs w ∧ GItems its ∧ cs = w ++ (renderItems its ++ rest) ∧ Tail k rest

def SufObjFirst (k : List Ctx) (cs : List Cls) : Prop :=
  ∃ (w : List Cls) (ms : List Member) (rest : List Cls),
    IsWs w ∧ GMembers ms ∧ cs = w ++ (renderMembers ms ++ rest) ∧ Tail k rest

def SufKey (k : List Ctx) (cs : List Cls) : Prop :=
  ∃ (ms : List Member) (rest : List Cls), ms ≠ [] ∧ GMembers ms ∧ cs = renderMembers ms ++ rest ∧ Tail k rest

def SufColon (ctx : List Ctx) (cs : List Cls) : Prop :=
  ∃ (w2 w3 : List Cls) (v : JA) (rest : List Cls), IsWs w2 ∧ IsWs w3 ∧ GValid v ∧
    cs = w2 ++ (.colon :: (w3 ++ (v.render ++ rest))) ∧ Tail ctx rest

def SufStrEnd : Bool → List Ctx → List Cls → Prop
  | true, ctx, cs => SufColon ctx cs
  | false, ctx, cs => Tail ctx cs

def SufStr (k : Bool) (ctx : List Ctx) (cs : List Cls) : Prop :=
  ∃ (b rest : List Cls), StrBody b ∧ cs = b ++ (.quote :: rest) ∧ SufStrEnd k ctx rest

def SufEsc (k : Bool) (ctx : List Ctx) (cs : List Cls) : Prop :=
  ∃ (b rest : List Cls), StrBody (.bslash :: b) ∧ cs = b ++ (.quote :: rest) ∧ SufStrEnd k ctx rest

def SufHex (k : Bool) (n : Nat) (ctx : List Ctx) (cs : List Cls) : Prop :=
  ∃ (hs b rest : List Cls), hs.length = n - 1 + 1 ∧ (∀ h ∈ hs, h.isHex = true) ∧ StrBody b ∧
    cs = hs ++ (b ++ (.quote :: rest)) ∧ SufStrEnd k ctx rest

def SufNum (n : Num) (ctx : List Ctx) (cs : List Cls) : Prop :=
  ∃ (t rest : List Cls), NumRest n t ∧ cs = t ++ rest ∧ Tail ctx rest

def SufWord (r : List Cls) (ctx : List Ctx) (cs : List Cls) : Prop :=
  ∃ (rest : List Cls), cs = r ++ rest ∧ Tail ctx rest

/-- the suffixes that may lead from a configuration to acceptance, in grammar terms (`True` for the configurations
that the automaton never reaches: a first-item state without its array on the stack, etc.) -/
def Suf : RCfg → List Cls → Prop
  | ⟨.value, ctx⟩, cs => SufValue ctx cs
  | ⟨.arrFirst, .arr :: k⟩, cs => SufArrFirst k cs
  | ⟨.arrFirst, _⟩, _ => True
  | ⟨.objFirst, .obj :: k⟩, cs => SufObjFirst k cs
  | ⟨.objFirst, _⟩, _ => True
  | ⟨.key, .obj :: k⟩, cs => SufKey k cs
  | ⟨.key, _⟩, _ => True
  | ⟨.str b, ctx⟩, cs => SufStr b ctx cs
  | ⟨.esc b, ctx⟩, cs => SufEsc b ctx cs
  | ⟨.hex b n, ctx⟩, cs => SufHex b n ctx cs
  | ⟨.colon, ctx⟩, cs => SufColon ctx cs
  | ⟨.after, ctx⟩, cs => Tail ctx cs
  | ⟨.num n, ctx⟩, cs => SufNum n ctx cs
  | ⟨.word r, ctx⟩, cs => SufWord r ctx cs

theorem suf_strEnd (k : Bool) (ctx : List Ctx) (cs : List Cls) : Suf (strEnd k ctx) cs = SufStrEnd k ctx cs := by
  cases k <;> rfl

/-! ### the automaton's transitions, state by state -/

theorem step_value (ctx : List Ctx) (c : Cls) :
    step ⟨.value, ctx⟩ c = if c.isWs = true then some ⟨.value, ctx⟩ else beginValue ctx c := by
  cases c <;> rfl

theorem step_arrFirst (k : List Ctx) (c : Cls) :
    step ⟨.arrFirst, .arr :: k⟩ c = if c.isWs = true then some ⟨.arrFirst, .arr :: k⟩
      else if c = .rbrack then some ⟨.after, k⟩ else beginValue (.arr :: k) c := by
  cases c <;> rfl

theorem step_objFirst (k : List Ctx) (c : Cls) :
    step ⟨.objFirst, .obj :: k⟩ c = if c.isWs = true then some ⟨.objFirst, .obj :: k⟩
      else if c = .rbrace then some ⟨.after, k⟩ else if c = .quote then some ⟨.str true, .obj :: k⟩ else none := by
  cases c <;> rfl

theorem step_key (ctx : List Ctx) (c : Cls) :
    step ⟨.key, ctx⟩ c = if c.isWs = true then some ⟨.key, ctx⟩
      else if c = .quote then some ⟨.str true, ctx⟩ else none := by
  cases c <;> rfl

theorem step_str (k : Bool) (ctx : List Ctx) (c : Cls) :
    step ⟨.str k, ctx⟩ c = if c = .quote then some (strEnd k ctx) else if c = .bslash then some ⟨.esc k, ctx⟩
      else if c.isPlainStr = true then some ⟨.str k, ctx⟩ else none := by
  cases c <;> rfl

theorem step_esc (k : Bool) (ctx : List Ctx) (c : Cls) :
    step ⟨.esc k, ctx⟩ c = if c.isSimpleEsc = true then some ⟨.str k, ctx⟩
      else if c = .lu then some ⟨.hex k 4, ctx⟩ else none := by
  cases c <;> rfl

theorem step_hex (k : Bool) (n : Nat) (ctx : List Ctx) (c : Cls) :
    step ⟨.hex k n, ctx⟩ c =
      if c.isHex = true then (if n ≤ 1 then some ⟨.str k, ctx⟩ else some ⟨.hex k (n - 1), ctx⟩) else none := rfl

theorem step_colon (ctx : List Ctx) (c : Cls) :
    step ⟨.colon, ctx⟩ c = if c.isWs = true then some ⟨.colon, ctx⟩
      else if c = .colon then some ⟨.value, ctx⟩ else none := by
  cases c <;> rfl

theorem step_after (ctx : List Ctx) (c : Cls) : step ⟨.after, ctx⟩ c = afterValue ctx c := rfl

theorem step_word_nil (ctx : List Ctx) (c : Cls) : step ⟨.word [], ctx⟩ c = afterValue ctx c := rfl
theorem step_word_one (x : Cls) (ctx : List Ctx) (c : Cls) :
    step ⟨.word [x], ctx⟩ c = if c = x then some ⟨.after, ctx⟩ else none := rfl
theorem step_word_more (x y : Cls) (ys : List Cls) (ctx : List Ctx) (c : Cls) :
    step ⟨.word (x :: y :: ys), ctx⟩ c = if c = x then some ⟨.word (y :: ys), ctx⟩ else none := rfl

theorem step_minus (ctx : List Ctx) (c : Cls) :
    step ⟨.num .minus, ctx⟩ c = if c = .zero then some ⟨.num .zero, ctx⟩
      else if c = .d19 then some ⟨.num .int, ctx⟩ else none := by
  cases c <;> rfl

theorem step_zero (ctx : List Ctx) (c : Cls) :
    step ⟨.num .zero, ctx⟩ c = if c = .dot then some ⟨.num .dot, ctx⟩
      else if c = .le ∨ c = .uE then some ⟨.num .e, ctx⟩ else afterValue ctx c := by
  cases c <;> rfl

theorem step_int (ctx : List Ctx) (c : Cls) :
    step ⟨.num .int, ctx⟩ c = if c.isDigit = true then some ⟨.num .int, ctx⟩
      else if c = .dot then some ⟨.num .dot, ctx⟩
      else if c = .le ∨ c = .uE then some ⟨.num .e, ctx⟩ else afterValue ctx c := by
  cases c <;> rfl

theorem step_dot (ctx : List Ctx) (c : Cls) :
    step ⟨.num .dot, ctx⟩ c = if c.isDigit = true then some ⟨.num .frac, ctx⟩ else none := by
  cases c <;> rfl

theorem step_frac (ctx : List Ctx) (c : Cls) :
    step ⟨.num .frac, ctx⟩ c = if c.isDigit = true then some ⟨.num .frac, ctx⟩
      else if c = .le ∨ c = .uE then some ⟨.num .e, ctx⟩ else afterValue ctx c := by
  cases c <;> rfl

theorem step_e (ctx : List Ctx) (c : Cls) :
    step ⟨.num .e, ctx⟩ c = if c = .plus ∨ c = .minus then some ⟨.num .esign, ctx⟩
      else if c.isDigit = true then some ⟨.num .exp, ctx⟩ else none := by
  cases c <;> rfl

theorem step_esign (ctx : List Ctx) (c : Cls) :
    step ⟨.num .esign, ctx⟩ c = if c.isDigit = true then some ⟨.num .exp, ctx⟩ else none := by
  cases c <;> rfl

theorem step_exp (ctx : List Ctx) (c : Cls) :
    step ⟨.num .exp, ctx⟩ c = if c.isDigit = true then some ⟨.num .exp, ctx⟩ else afterValue ctx c := by
  cases c <;> rfl

/-! ### `Suf` is propagated backwards by every transition -/

/-- what may follow a complete value -/
theorem after_suf (ctx : List Ctx) (c : Cls) (r' : RCfg) (cs' : List Cls)
    (h : afterValue ctx c = some r') (hs : Suf r' cs') : Tail ctx (c :: cs') := by
  cases c <;> try (simp [afterValue] at h; done)
  case sp =>
    obtain rfl : (⟨.after, ctx⟩ : RCfg) = r' := Option.some.inj h
    exact tail_ws_cons ctx _ cs' rfl hs
  case wsctl =>
    obtain rfl : (⟨.after, ctx⟩ : RCfg) = r' := Option.some.inj h
    exact tail_ws_cons ctx _ cs' rfl hs
  case comma =>
    rcases ctx with _ | ⟨x, k⟩
    · simp [afterValue] at h
    · cases x
      · obtain rfl : (⟨.key, .obj :: k⟩ : RCfg) = r' := Option.some.inj h
        have hs : SufKey k cs' := hs
        obtain ⟨ms, rest, hne, hm, rfl, ht⟩ := hs
        rw [Tail_obj]
        refine ⟨[], ms, rest, isWs_nil, hm, ?_, ht⟩
        cases ms with
        | nil => exact absurd rfl hne
        | cons m ms => simp [sep]
      · obtain rfl : (⟨.value, .arr :: k⟩ : RCfg) = r' := Option.some.inj h
        have hs : SufValue (.arr :: k) cs' := hs
        obtain ⟨w, v, rest, hw, hv, rfl, ht⟩ := hs
        rw [Tail_arr] at ht ⊢
        obtain ⟨w2, its, rest', hw2, hi, rfl, ht'⟩ := ht
        refine ⟨[], (w, v, w2) :: its, rest', isWs_nil, (GItems_cons _ _ _ _).2 ⟨hw, hv, hw2, hi⟩, ?_, ht'⟩
        rw [renderItems_cons]
        simp [sep, List.append_assoc]
  case rbrack =>
    rcases ctx with _ | ⟨x, k⟩
    · simp [afterValue] at h
    · cases x
      · simp [afterValue] at h
      · obtain rfl : (⟨.after, k⟩ : RCfg) = r' := Option.some.inj h
        have hs : Tail k cs' := hs
        rw [Tail_arr]
        exact ⟨[], [], cs', isWs_nil, GItems_nil, by simp [sep, renderItems_nil], hs⟩
  case rbrace =>
    rcases ctx with _ | ⟨x, k⟩
    · simp [afterValue] at h
    · cases x
      · obtain rfl : (⟨.after, k⟩ : RCfg) = r' := Option.some.inj h
        have hs : Tail k cs' := hs
        rw [Tail_obj]
        exact ⟨[], [], cs', isWs_nil, GMembers_nil, by simp [sep, renderMembers_nil], hs⟩
      · simp [afterValue] at h

/-- the first byte of a value: what follows is the rest of that value, then what may follow a value -/
theorem begin_suf (ctx : List Ctx) (c : Cls) (r' : RCfg) (cs' : List Cls)
    (h : beginValue ctx c = some r') (hs : Suf r' cs') :
    ∃ (v : JA) (rest : List Cls), GValid v ∧ c :: cs' = v.render ++ rest ∧ Tail ctx rest := by
  cases c <;> try (simp [beginValue] at h; done)
  case lbrace =>
    obtain rfl : (⟨.objFirst, .obj :: ctx⟩ : RCfg) = r' := Option.some.inj h
    have hs : SufObjFirst ctx cs' := hs
    obtain ⟨w, ms, rest, hw, hm, rfl, ht⟩ := hs
    exact ⟨.obj w ms, rest, (GValid_obj _ _).2 ⟨hw, hm⟩, by simp [JA.render], ht⟩
  case lbrack =>
    obtain rfl : (⟨.arrFirst, .arr :: ctx⟩ : RCfg) = r' := Option.some.inj h
    have hs : SufArrFirst ctx cs' := hs
    obtain ⟨w, its, rest, hw, hi, rfl, ht⟩ := hs
    exact ⟨.arr w its, rest, (GValid_arr _ _).2 ⟨hw, hi⟩, by simp [JA.render], ht⟩
  case quote =>
    obtain rfl : (⟨.str false, ctx⟩ : RCfg) = r' := Option.some.inj h
    have hs : SufStr false ctx cs' := hs
    obtain ⟨b, rest, hb, rfl, ht⟩ := hs
    exact ⟨.scalar (.quote :: (b ++ [.quote])), rest, (GValid_scalar _).2 (.str b hb), by simp [JA.render], ht⟩
  case minus =>
    obtain rfl : (⟨.num .minus, ctx⟩ : RCfg) = r' := Option.some.inj h
    have hs : SufNum .minus ctx cs' := hs
    obtain ⟨t, rest, hn, rfl, ht⟩ := hs
    exact ⟨.scalar (.minus :: t), rest, (GValid_scalar _).2 (numRest_minus_tok t hn), by simp [JA.render], ht⟩
  case zero =>
    obtain rfl : (⟨.num .zero, ctx⟩ : RCfg) = r' := Option.some.inj h
    have hs : SufNum .zero ctx cs' := hs
    obtain ⟨t, rest, hn, rfl, ht⟩ := hs
    exact ⟨.scalar (.zero :: t), rest, (GValid_scalar _).2 (numRest_zero_tok t hn), by simp [JA.render], ht⟩
  case d19 =>
    obtain rfl : (⟨.num .int, ctx⟩ : RCfg) = r' := Option.some.inj h
    have hs : SufNum .int ctx cs' := hs
    obtain ⟨t, rest, hn, rfl, ht⟩ := hs
    exact ⟨.scalar (.d19 :: t), rest, (GValid_scalar _).2 (numRest_int_tok t hn), by simp [JA.render], ht⟩
  case lt =>
    obtain rfl : (⟨.word Word.wtrue.rest, ctx⟩ : RCfg) = r' := Option.some.inj h
    have hs : SufWord Word.wtrue.rest ctx cs' := hs
    obtain ⟨rest, rfl, ht⟩ := hs
    exact ⟨.scalar [.lt, .lr, .lu, .le], rest, (GValid_scalar _).2 .wtrue, by simp [JA.render, Word.rest], ht⟩
  case lf =>
    obtain rfl : (⟨.word Word.wfalse.rest, ctx⟩ : RCfg) = r' := Option.some.inj h
    have hs : SufWord Word.wfalse.rest ctx cs' := hs
    obtain ⟨rest, rfl, ht⟩ := hs
    exact ⟨.scalar [.lf, .la, .ll, .ls, .le], rest, (GValid_scalar _).2 .wfalse, by simp [JA.render, Word.rest], ht⟩
  case ln =>
    obtain rfl : (⟨.word Word.wnull.rest, ctx⟩ : RCfg) = r' := Option.some.inj h
    have hs : SufWord Word.wnull.rest ctx cs' := hs
    obtain ⟨rest, rfl, ht⟩ := hs
    exact ⟨.scalar [.ln, .lu, .ll, .ll], rest, (GValid_scalar _).2 .wnull, by simp [JA.render, Word.rest], ht⟩

theorem value_suf (ctx : List Ctx) (c : Cls) (r' : RCfg) (cs' : List Cls)
    (h : step ⟨.value, ctx⟩ c = some r') (hs : Suf r' cs') : SufValue ctx (c :: cs') := by
  rw [step_value] at h
  by_cases hw : c.isWs = true
  · rw [if_pos hw] at h
    obtain rfl : (⟨.value, ctx⟩ : RCfg) = r' := Option.some.inj h
    have hs : SufValue ctx cs' := hs
    obtain ⟨w, v, rest, hww, hv, rfl, ht⟩ := hs
    exact ⟨c :: w, v, rest, isWs_cons hw hww, hv, rfl, ht⟩
  · rw [if_neg hw] at h
    obtain ⟨v, rest, hv, e, ht⟩ := begin_suf ctx c r' cs' h hs
    exact ⟨[], v, rest, isWs_nil, hv, e, ht⟩

theorem arrFirst_suf (k : List Ctx) (c : Cls) (r' : RCfg) (cs' : List Cls)
    (h : step ⟨.arrFirst, .arr :: k⟩ c = some r') (hs : Suf r' cs') : SufArrFirst k (c :: cs') := by
  rw [step_arrFirst] at h
  by_cases hw : c.isWs = true
  · rw [if_pos hw] at h
    obtain rfl : (⟨.arrFirst, .arr :: k⟩ : RCfg) = r' := Option.some.inj h
    have hs : SufArrFirst k cs' := hs
    obtain ⟨w, its, rest, hww, hi, rfl, ht⟩ := hs
    exact ⟨c :: w, its, rest, isWs_cons hw hww, hi, rfl, ht⟩
  · rw [if_neg hw] at h
    by_cases hc : c = .rbrack
    · subst hc
      rw [if_pos rfl] at h
      obtain rfl : (⟨.after, k⟩ : RCfg) = r' := Option.some.inj h
      have hs : Tail k cs' := hs
      exact ⟨[], [], cs', isWs_nil, GItems_nil, by simp [renderItems_nil], hs⟩
    · rw [if_neg hc] at h
      obtain ⟨v, rest, hv, e, ht⟩ := begin_suf (.arr :: k) c r' cs' h hs
      rw [Tail_arr] at ht
      obtain ⟨w2, its, rest', hw2, hi, rfl, ht'⟩ := ht
      refine ⟨[], ([], v, w2) :: its, rest', isWs_nil, (GItems_cons _ _ _ _).2 ⟨isWs_nil, hv, hw2, hi⟩, ?_, ht'⟩
      rw [e, renderItems_cons]
      simp [List.append_assoc]

/-- after the opening quote of a key: the rest of the members of the object -/
theorem keyStr_suf (k : List Ctx) (cs' : List Cls) (hs : SufStr true (.obj :: k) cs') :
    ∃ (ms : List Member) (rest : List Cls), ms ≠ [] ∧ GMembers ms ∧ .quote :: cs' = renderMembers ms ++ rest ∧ Tail k rest := by
  obtain ⟨b, rest0, hb, rfl, hc⟩ := hs
  have hc : SufColon (.obj :: k) rest0 := hc
  obtain ⟨w2, w3, v, rest1, hw2, hw3, hv, rfl, ht⟩ := hc
  rw [Tail_obj] at ht
  obtain ⟨w4, ms, rest, hw4, hm, rfl, ht'⟩ := ht
  refine ⟨([], .quote :: (b ++ [.quote]), w2, w3, v, w4) :: ms, rest, by simp,
    (GMembers_cons _ _ _ _ _ _ _).2 ⟨isWs_nil, ⟨b, hb, rfl⟩, hw2, hw3, hv, hw4, hm⟩, ?_, ht'⟩
  rw [renderMembers_cons]
  simp [List.append_assoc]

theorem objFirst_suf (k : List Ctx) (c : Cls) (r' : RCfg) (cs' : List Cls)
    (h : step ⟨.objFirst, .obj :: k⟩ c = some r') (hs : Suf r' cs') : SufObjFirst k (c :: cs') := by
  rw [step_objFirst] at h
  by_cases hw : c.isWs = true
  · rw [if_pos hw] at h
    obtain rfl : (⟨.objFirst, .obj :: k⟩ : RCfg) = r' := Option.some.inj h
    have hs : SufObjFirst k cs' := hs
    obtain ⟨w, ms, rest, hww, hm, rfl, ht⟩ := hs
    exact ⟨c :: w, ms, rest, isWs_cons hw hww, hm, rfl, ht⟩
  · rw [if_neg hw] at h
    by_cases hc : c = .rbrace
    · subst hc
      rw [if_pos rfl] at h
      obtain rfl : (⟨.after, k⟩ : RCfg) = r' := Option.some.inj h
      have hs : Tail k cs' := hs
      exact ⟨[], [], cs', isWs_nil, GMembers_nil, by simp [renderMembers_nil], hs⟩
    · rw [if_neg hc] at h
      by_cases hq : c = .quote
      · subst hq
        rw [if_pos rfl] at h
        obtain rfl : (⟨.str true, .obj :: k⟩ : RCfg) = r' := Option.some.inj h
        obtain ⟨ms, rest, _, hm, e, ht⟩ := keyStr_suf k cs' hs
        exact ⟨[], ms, rest, isWs_nil, hm, e, ht⟩
      · rw [if_neg hq] at h
        cases h

theorem key_suf (k : List Ctx) (c : Cls) (r' : RCfg) (cs' : List Cls)
    (h : step ⟨.key, .obj :: k⟩ c = some r') (hs : Suf r' cs') : SufKey k (c :: cs') := by
  rw [step_key] at h
  by_cases hw : c.isWs = true
  · rw [if_pos hw] at h
    obtain rfl : (⟨.key, .obj :: k⟩ : RCfg) = r' := Option.some.inj h
    have hs : SufKey k cs' := hs
    obtain ⟨ms, rest, hne, hm, rfl, ht⟩ := hs
    rcases ms with _ | ⟨⟨w1, key, w2, w3, v, w4⟩, ms⟩
    · exact absurd rfl hne
    · rw [GMembers_cons] at hm
      obtain ⟨h1, hk, h2, h3, hv, h4, hms⟩ := hm
      refine ⟨(c :: w1, key, w2, w3, v, w4) :: ms, rest, by simp,
        (GMembers_cons _ _ _ _ _ _ _).2 ⟨isWs_cons hw h1, hk, h2, h3, hv, h4, hms⟩, ?_, ht⟩
      rw [renderMembers_cons, renderMembers_cons]
      rfl
  · rw [if_neg hw] at h
    by_cases hq : c = .quote
    · subst hq
      rw [if_pos rfl] at h
      obtain rfl : (⟨.str true, .obj :: k⟩ : RCfg) = r' := Option.some.inj h
      exact keyStr_suf k cs' hs
    · rw [if_neg hq] at h
      cases h

theorem str_suf (k : Bool) (ctx : List Ctx) (c : Cls) (r' : RCfg) (cs' : List Cls)
    (h : step ⟨.str k, ctx⟩ c = some r') (hs : Suf r' cs') : SufStr k ctx (c :: cs') := by
  rw [step_str] at h
  by_cases hq : c = .quote
  · subst hq
    rw [if_pos rfl] at h
    obtain rfl : strEnd k ctx = r' := Option.some.inj h
    rw [suf_strEnd] at hs
    exact ⟨[], cs', .nil, rfl, hs⟩
  · rw [if_neg hq] at h
    by_cases hb : c = .bslash
    · subst hb
      rw [if_pos rfl] at h
      obtain rfl : (⟨.esc k, ctx⟩ : RCfg) = r' := Option.some.inj h
      have hs : SufEsc k ctx cs' := hs
      obtain ⟨b, rest, hb, rfl, he⟩ := hs
      exact ⟨.bslash :: b, rest, hb, rfl, he⟩
    · rw [if_neg hb] at h
      by_cases hp : c.isPlainStr = true
      · rw [if_pos hp] at h
        obtain rfl : (⟨.str k, ctx⟩ : RCfg) = r' := Option.some.inj h
        have hs : SufStr k ctx cs' := hs
        obtain ⟨b, rest, hb, rfl, he⟩ := hs
        exact ⟨c :: b, rest, .plain c b hp hb, rfl, he⟩
      · rw [if_neg hp] at h
        cases h

theorem esc_suf (k : Bool) (ctx : List Ctx) (c : Cls) (r' : RCfg) (cs' : List Cls)
    (h : step ⟨.esc k, ctx⟩ c = some r') (hs : Suf r' cs') : SufEsc k ctx (c :: cs') := by
  rw [step_esc] at h
  by_cases he : c.isSimpleEsc = true
  · rw [if_pos he] at h
    obtain rfl : (⟨.str k, ctx⟩ : RCfg) = r' := Option.some.inj h
    have hs : SufStr k ctx cs' := hs
    obtain ⟨b, rest, hb, rfl, hend⟩ := hs
    exact ⟨c :: b, rest, .esc c b he hb, rfl, hend⟩
  · rw [if_neg he] at h
    by_cases hu : c = .lu
    · subst hu
      rw [if_pos rfl] at h
      obtain rfl : (⟨.hex k 4, ctx⟩ : RCfg) = r' := Option.some.inj h
      have hs : SufHex k 4 ctx cs' := hs
      obtain ⟨hs4, b, rest, hl, hh, hb, rfl, hend⟩ := hs
      rcases hs4 with _ | ⟨h1, _ | ⟨h2, _ | ⟨h3, _ | ⟨h4, _ | ⟨h5, hs5⟩⟩⟩⟩⟩ <;> simp at hl
      refine ⟨.lu :: h1 :: h2 :: h3 :: h4 :: b, rest,
        .uni h1 h2 h3 h4 b (hh h1 (by simp)) (hh h2 (by simp)) (hh h3 (by simp)) (hh h4 (by simp)) hb, rfl, hend⟩
    · rw [if_neg hu] at h
      cases h

theorem hex_suf (k : Bool) (n : Nat) (ctx : List Ctx) (c : Cls) (r' : RCfg) (cs' : List Cls)
    (h : step ⟨.hex k n, ctx⟩ c = some r') (hs : Suf r' cs') : SufHex k n ctx (c :: cs') := by
  rw [step_hex] at h
  by_cases hx : c.isHex = true
  · rw [if_pos hx] at h
    by_cases hn : n ≤ 1
    · rw [if_pos hn] at h
      obtain rfl : (⟨.str k, ctx⟩ : RCfg) = r' := Option.some.inj h
      have hs : SufStr k ctx cs' := hs
      obtain ⟨b, rest, hb, rfl, hend⟩ := hs
      refine ⟨[c], b, rest, by simp; omega, ?_, hb, rfl, hend⟩
      intro x hxm
      rcases List.mem_cons.1 hxm with rfl | hxm
      · exact hx
      · cases hxm
    · rw [if_neg hn] at h
      obtain rfl : (⟨.hex k (n - 1), ctx⟩ : RCfg) = r' := Option.some.inj h
      have hs : SufHex k (n - 1) ctx cs' := hs
      obtain ⟨hs', b, rest, hl, hh, hb, rfl, hend⟩ := hs
      refine ⟨c :: hs', b, rest, by simp [hl]; omega, ?_, hb, rfl, hend⟩
      intro x hxm
      rcases List.mem_cons.1 hxm with rfl | hxm
      · exact hx
      · exact hh x hxm
  · rw [if_neg hx] at h
    cases h

theorem colon_suf (ctx : List Ctx) (c : Cls) (r' : RCfg) (cs' : List Cls)
    (h : step ⟨.colon, ctx⟩ c = some r') (hs : Suf r' cs') : SufColon ctx (c :: cs') := by
  rw [step_colon] at h
  by_cases hw : c.isWs = true
  · rw [if_pos hw] at h
    obtain rfl : (⟨.colon, ctx⟩ : RCfg) = r' := Option.some.inj h
    have hs : SufColon ctx cs' := hs
    obtain ⟨w2, w3, v, rest, hw2, hw3, hv, rfl, ht⟩ := hs
    exact ⟨c :: w2, w3, v, rest, isWs_cons hw hw2, hw3, hv, rfl, ht⟩
  · rw [if_neg hw] at h
    by_cases hc : c = .colon
    · subst hc
      rw [if_pos rfl] at h
      obtain rfl : (⟨.value, ctx⟩ : RCfg) = r' := Option.some.inj h
      have hs : SufValue ctx cs' := hs
      obtain ⟨w, v, rest, hww, hv, rfl, ht⟩ := hs
      exact ⟨[], w, v, rest, isWs_nil, hww, hv, rfl, ht⟩
    · rw [if_neg hc] at h
      cases h

theorem word_suf (r : List Cls) (ctx : List Ctx) (c : Cls) (r' : RCfg) (cs' : List Cls)
    (h : step ⟨.word r, ctx⟩ c = some r') (hs : Suf r' cs') : SufWord r ctx (c :: cs') := by
  rcases r with _ | ⟨x, _ | ⟨y, ys⟩⟩
  · rw [step_word_nil] at h
    exact ⟨c :: cs', rfl, after_suf ctx c r' cs' h hs⟩
  · rw [step_word_one] at h
    by_cases hc : c = x
    · subst hc
      rw [if_pos rfl] at h
      obtain rfl : (⟨.after, ctx⟩ : RCfg) = r' := Option.some.inj h
      exact ⟨cs', rfl, hs⟩
    · rw [if_neg hc] at h
      cases h
  · rw [step_word_more] at h
    by_cases hc : c = x
    · subst hc
      rw [if_pos rfl] at h
      obtain rfl : (⟨.word (y :: ys), ctx⟩ : RCfg) = r' := Option.some.inj h
      have hs : SufWord (y :: ys) ctx cs' := hs
      obtain ⟨rest, rfl, ht⟩ := hs
      exact ⟨rest, rfl, ht⟩
    · rw [if_neg hc] at h
      cases h

/-! ### numbers -/

/-- a number in a final state, followed by a byte that ends it -/
theorem num_fall (n : Num) (hn : n.final = true) (ctx : List Ctx) (c : Cls) (r' : RCfg) (cs' : List Cls)
    (h : afterValue ctx c = some r') (hs : Suf r' cs') : SufNum n ctx (c :: cs') :=
  ⟨[], c :: cs', numRest_final n hn, rfl, after_suf ctx c r' cs' h hs⟩

theorem sufNum_of_e (ctx : List Ctx) (cs' : List Cls) (hs : SufNum .e ctx cs') (c : Cls) (hc : c = .le ∨ c = .uE) :
    ∃ (x : Option (Cls × Option Cls × Cls × List Cls)) (rest : List Cls),
      ExpOK x ∧ c :: cs' = expR x ++ rest ∧ Tail ctx rest := by
  obtain ⟨t, rest, ⟨s, d, ds, hsg, hd, hds, rfl⟩, rfl, ht⟩ := hs
  exact ⟨some (c, s, d, ds), rest, expOK_some hc hsg hd hds, rfl, ht⟩

theorem sufNum_of_dot (ctx : List Ctx) (cs' : List Cls) (hs : SufNum .dot ctx cs') :
    ∃ (f : Option (Cls × List Cls)) (x : Option (Cls × Option Cls × Cls × List Cls)) (rest : List Cls),
      FracOK f ∧ ExpOK x ∧ .dot :: cs' = (fracR f ++ expR x) ++ rest ∧ Tail ctx rest := by
  obtain ⟨t, rest, ⟨d, ds, x, hd, hds, hx, rfl⟩, rfl, ht⟩ := hs
  exact ⟨some (d, ds), x, rest, fracOK_some hd hds, hx, by simp [fracR], ht⟩

theorem minus_suf (ctx : List Ctx) (c : Cls) (r' : RCfg) (cs' : List Cls)
    (h : step ⟨.num .minus, ctx⟩ c = some r') (hs : Suf r' cs') : SufNum .minus ctx (c :: cs') := by
  rw [step_minus] at h
  by_cases hz : c = .zero
  · subst hz
    rw [if_pos rfl] at h
    obtain rfl : (⟨.num .zero, ctx⟩ : RCfg) = r' := Option.some.inj h
    have hs : SufNum .zero ctx cs' := hs
    obtain ⟨t, rest, ⟨f, x, hf, hx, rfl⟩, rfl, ht⟩ := hs
    exact ⟨.zero :: (fracR f ++ expR x), rest, Or.inl ⟨f, x, hf, hx, rfl⟩, rfl, ht⟩
  · rw [if_neg hz] at h
    by_cases hd : c = .d19
    · subst hd
      rw [if_pos rfl] at h
      obtain rfl : (⟨.num .int, ctx⟩ : RCfg) = r' := Option.some.inj h
      have hs : SufNum .int ctx cs' := hs
      obtain ⟨t, rest, ⟨ds, f, x, hds, hf, hx, rfl⟩, rfl, ht⟩ := hs
      exact ⟨.d19 :: (ds ++ (fracR f ++ expR x)), rest, Or.inr ⟨ds, f, x, hds, hf, hx, rfl⟩, rfl, ht⟩
    · rw [if_neg hd] at h
      cases h

theorem zero_suf (ctx : List Ctx) (c : Cls) (r' : RCfg) (cs' : List Cls)
    (h : step ⟨.num .zero, ctx⟩ c = some r') (hs : Suf r' cs') : SufNum .zero ctx (c :: cs') := by
  rw [step_zero] at h
  by_cases hd : c = .dot
  · subst hd
    rw [if_pos rfl] at h
    obtain rfl : (⟨.num .dot, ctx⟩ : RCfg) = r' := Option.some.inj h
    obtain ⟨f, x, rest, hf, hx, e, ht⟩ := sufNum_of_dot ctx cs' hs
    exact ⟨fracR f ++ expR x, rest, ⟨f, x, hf, hx, rfl⟩, e, ht⟩
  · rw [if_neg hd] at h
    by_cases he : c = .le ∨ c = .uE
    · rw [if_pos he] at h
      obtain rfl : (⟨.num .e, ctx⟩ : RCfg) = r' := Option.some.inj h
      obtain ⟨x, rest, hx, e, ht⟩ := sufNum_of_e ctx cs' hs c he
      exact ⟨expR x, rest, ⟨none, x, fracOK_none, hx, rfl⟩, e, ht⟩
    · rw [if_neg he] at h
      exact num_fall .zero rfl ctx c r' cs' h hs

theorem int_suf (ctx : List Ctx) (c : Cls) (r' : RCfg) (cs' : List Cls)
    (h : step ⟨.num .int, ctx⟩ c = some r') (hs : Suf r' cs') : SufNum .int ctx (c :: cs') := by
  rw [step_int] at h
  by_cases hg : c.isDigit = true
  · rw [if_pos hg] at h
    obtain rfl : (⟨.num .int, ctx⟩ : RCfg) = r' := Option.some.inj h
    have hs : SufNum .int ctx cs' := hs
    obtain ⟨t, rest, ⟨ds, f, x, hds, hf, hx, rfl⟩, rfl, ht⟩ := hs
    exact ⟨c :: (ds ++ (fracR f ++ expR x)), rest, ⟨c :: ds, f, x, isDigits_cons hg hds, hf, hx, rfl⟩, rfl, ht⟩
  · rw [if_neg hg] at h
    by_cases hd : c = .dot
    · subst hd
      rw [if_pos rfl] at h
      obtain rfl : (⟨.num .dot, ctx⟩ : RCfg) = r' := Option.some.inj h
      obtain ⟨f, x, rest, hf, hx, e, ht⟩ := sufNum_of_dot ctx cs' hs
      exact ⟨fracR f ++ expR x, rest, ⟨[], f, x, isDigits_nil, hf, hx, rfl⟩, e, ht⟩
    · rw [if_neg hd] at h
      by_cases he : c = .le ∨ c = .uE
      · rw [if_pos he] at h
        obtain rfl : (⟨.num .e, ctx⟩ : RCfg) = r' := Option.some.inj h
        obtain ⟨x, rest, hx, e, ht⟩ := sufNum_of_e ctx cs' hs c he
        exact ⟨expR x, rest, ⟨[], none, x, isDigits_nil, fracOK_none, hx, rfl⟩, e, ht⟩
      · rw [if_neg he] at h
        exact num_fall .int rfl ctx c r' cs' h hs

theorem dot_suf (ctx : List Ctx) (c : Cls) (r' : RCfg) (cs' : List Cls)
    (h : step ⟨.num .dot, ctx⟩ c = some r') (hs : Suf r' cs') : SufNum .dot ctx (c :: cs') := by
  rw [step_dot] at h
  by_cases hg : c.isDigit = true
  · rw [if_pos hg] at h
    obtain rfl : (⟨.num .frac, ctx⟩ : RCfg) = r' := Option.some.inj h
    have hs : SufNum .frac ctx cs' := hs
    obtain ⟨t, rest, ⟨ds, x, hds, hx, rfl⟩, rfl, ht⟩ := hs
    exact ⟨c :: (ds ++ expR x), rest, ⟨c, ds, x, hg, hds, hx, rfl⟩, rfl, ht⟩
  · rw [if_neg hg] at h
    cases h

theorem frac_suf (ctx : List Ctx) (c : Cls) (r' : RCfg) (cs' : List Cls)
    (h : step ⟨.num .frac, ctx⟩ c = some r') (hs : Suf r' cs') : SufNum .frac ctx (c :: cs') := by
  rw [step_frac] at h
  by_cases hg : c.isDigit = true
  · rw [if_pos hg] at h
    obtain rfl : (⟨.num .frac, ctx⟩ : RCfg) = r' := Option.some.inj h
    have hs : SufNum .frac ctx cs' := hs
    obtain ⟨t, rest, ⟨ds, x, hds, hx, rfl⟩, rfl, ht⟩ := hs
    exact ⟨c :: (ds ++ expR x), rest, ⟨c :: ds, x, isDigits_cons hg hds, hx, rfl⟩, rfl, ht⟩
  · rw [if_neg hg] at h
    by_cases he : c = .le ∨ c = .uE
    · rw [if_pos he] at h
      obtain rfl : (⟨.num .e, ctx⟩ : RCfg) = r' := Option.some.inj h
      obtain ⟨x, rest, hx, e, ht⟩ := sufNum_of_e ctx cs' hs c he
      exact ⟨expR x, rest, ⟨[], x, isDigits_nil, hx, rfl⟩, e, ht⟩
    · rw [if_neg he] at h
      exact num_fall .frac rfl ctx c r' cs' h hs

theorem e_suf (ctx : List Ctx) (c : Cls) (r' : RCfg) (cs' : List Cls)
    (h : step ⟨.num .e, ctx⟩ c = some r') (hs : Suf r' cs') : SufNum .e ctx (c :: cs') := by
  rw [step_e] at h
  by_cases hsg : c = .plus ∨ c = .minus
  · rw [if_pos hsg] at h
    obtain rfl : (⟨.num .esign, ctx⟩ : RCfg) = r' := Option.some.inj h
    have hs : SufNum .esign ctx cs' := hs
    obtain ⟨t, rest, ⟨d, ds, hd, hds, rfl⟩, rfl, ht⟩ := hs
    refine ⟨c :: d :: ds, rest, ⟨some c, d, ds, ?_, hd, hds, rfl⟩, rfl, ht⟩
    intro y hy; cases hy; exact hsg
  · rw [if_neg hsg] at h
    by_cases hg : c.isDigit = true
    · rw [if_pos hg] at h
      obtain rfl : (⟨.num .exp, ctx⟩ : RCfg) = r' := Option.some.inj h
      have hs : SufNum .exp ctx cs' := hs
      obtain ⟨t, rest, hds, rfl, ht⟩ := hs
      have hds : IsDigits t := hds
      refine ⟨c :: t, rest, ⟨none, c, t, ?_, hg, hds, rfl⟩, rfl, ht⟩
      intro y hy; cases hy
    · rw [if_neg hg] at h
      cases h

theorem esign_suf (ctx : List Ctx) (c : Cls) (r' : RCfg) (cs' : List Cls)
    (h : step ⟨.num .esign, ctx⟩ c = some r') (hs : Suf r' cs') : SufNum .esign ctx (c :: cs') := by
  rw [step_esign] at h
  by_cases hg : c.isDigit = true
  · rw [if_pos hg] at h
    obtain rfl : (⟨.num .exp, ctx⟩ : RCfg) = r' := Option.some.inj h
    have hs : SufNum .exp ctx cs' := hs
    obtain ⟨t, rest, hds, rfl, ht⟩ := hs
    have hds : IsDigits t := hds
    exact ⟨c :: t, rest, ⟨c, t, hg, hds, rfl⟩, rfl, ht⟩
  · rw [if_neg hg] at h
    cases h

theorem exp_suf (ctx : List Ctx) (c : Cls) (r' : RCfg) (cs' : List Cls)
    (h : step ⟨.num .exp, ctx⟩ c = some r') (hs : Suf r' cs') : SufNum .exp ctx (c :: cs') := by
  rw [step_exp] at h
  by_cases hg : c.isDigit = true
  · rw [if_pos hg] at h
    obtain rfl : (⟨.num .exp, ctx⟩ : RCfg) = r' := Option.some.inj h
    have hs : SufNum .exp ctx cs' := hs
    obtain ⟨t, rest, hds, rfl, ht⟩ := hs
    have hds : IsDigits t := hds
    exact ⟨c :: t, rest, (isDigits_cons hg hds : IsDigits (c :: t)), rfl, ht⟩
  · rw [if_neg hg] at h
    exact num_fall .exp rfl ctx c r' cs' h hs

theorem num_suf (n : Num) (ctx : List Ctx) (c : Cls) (r' : RCfg) (cs' : List Cls)
    (h : step ⟨.num n, ctx⟩ c = some r') (hs : Suf r' cs') : SufNum n ctx (c :: cs') := by
  cases n
  · exact minus_suf ctx c r' cs' h hs
  · exact zero_suf ctx c r' cs' h hs
  · exact int_suf ctx c r' cs' h hs
  · exact dot_suf ctx c r' cs' h hs
  · exact frac_suf ctx c r' cs' h hs
  · exact e_suf ctx c r' cs' h hs
  · exact esign_suf ctx c r' cs' h hs
  · exact exp_suf ctx c r' cs' h hs

/-! ### the invariant -/

/-- one transition, backwards: if `cs'` can lead from `r'` to acceptance, `c :: cs'` can from `r` -/
theorem suf_step (r : RCfg) (c : Cls) (r' : RCfg) (cs' : List Cls)
    (h : step r c = some r') (hs : Suf r' cs') : Suf r (c :: cs') := by
  obtain ⟨st, ctx⟩ := r
  cases st with
  | value => exact value_suf ctx c r' cs' h hs
  | arrFirst =>
    rcases ctx with _ | ⟨x, k⟩
    · trivial
    · cases x
      · trivial
      · exact arrFirst_suf k c r' cs' h hs
  | objFirst =>
    rcases ctx with _ | ⟨x, k⟩
    · trivial
    · cases x
      · exact objFirst_suf k c r' cs' h hs
      · trivial
  | key =>
    rcases ctx with _ | ⟨x, k⟩
    · trivial
    · cases x
      · exact key_suf k c r' cs' h hs
      · trivial
  | str k => exact str_suf k ctx c r' cs' h hs
  | esc k => exact esc_suf k ctx c r' cs' h hs
  | hex k n => exact hex_suf k n ctx c r' cs' h hs
  | colon => exact colon_suf ctx c r' cs' h hs
  | after => exact after_suf ctx c r' cs' h hs
  | num n => exact num_suf n ctx c r' cs' h hs
  | word w => exact word_suf w ctx c r' cs' h hs

/-- in an accepting configuration the empty suffix is in the suffix language -/
theorem suf_accepting (r : RCfg) (h : accepting r = true) : Suf r [] := by
  obtain ⟨st, ctx⟩ := r
  cases st <;> try (simp [accepting] at h; done)
  case after =>
    have hc : ctx = [] := by simpa [accepting] using h
    subst hc
    exact isWs_nil
  case num n =>
    have hc : n.final = true ∧ ctx = [] := by simpa [accepting] using h
    obtain ⟨hn, rfl⟩ := hc
    exact ⟨[], [], numRest_final n hn, rfl, isWs_nil⟩

/-- every run that ends in an accepting configuration reads a text of the start configuration's suffix language -/
theorem run_suf (cs : List Cls) : ∀ (r r' : RCfg), run r cs = some r' → accepting r' = true → Suf r cs := by
  induction cs with
  | nil =>
    intro r r' h ha
    obtain rfl : r = r' := Option.some.inj h
    exact suf_accepting r ha
  | cons c cs ih =>
    intro r r' h ha
    simp only [run] at h
    cases hs : step r c with
    | none => rw [hs] at h; cases h
    | some r1 =>
      rw [hs] at h
      exact suf_step r c r1 cs hs (ih r1 r' h ha)

/-- **every accepted text is generated by the RFC 8259 grammar** (classes level): the converse of
`grammar_accepted` -/
theorem accepted_grammar (cs : List Cls) (h : Rfc.acceptsC cs = true) :
    ∃ (v : JA) (ws0 ws1 : List Cls), GValid v ∧ IsWs ws0 ∧ IsWs ws1 ∧ cs = ws0 ++ (v.render ++ ws1) := by
  unfold acceptsC at h
  cases hr : run RCfg.init cs with
  | none => rw [hr] at h; cases h
  | some r =>
    rw [hr] at h
    have hs : SufValue [] cs := run_suf cs RCfg.init r hr h
    obtain ⟨w, v, rest, hw, hv, e, ht⟩ := hs
    exact ⟨v, w, rest, hv, hw, (Tail_nil rest).1 ht, e⟩

/-- the recogniser accepts exactly the texts `ws value ws` of the RFC 8259 grammar -/
theorem accepts_iff_grammar (cs : List Cls) :
    Rfc.acceptsC cs = true ↔
      ∃ (v : JA) (ws0 ws1 : List Cls), GValid v ∧ IsWs ws0 ∧ IsWs ws1 ∧ cs = ws0 ++ (v.render ++ ws1) := by
  constructor
  · exact accepted_grammar cs
  · rintro ⟨v, ws0, ws1, hv, h0, h1, rfl⟩
    exact grammar_accepted v hv ws0 ws1 h0 h1

/-- the same on bytes: `Rfc.accepts` looks at a text only through its byte classes -/
theorem accepts_bytes_iff_grammar (bs : List UInt8) :
    Rfc.accepts bs = true ↔
      ∃ (v : JA) (ws0 ws1 : List Cls), GValid v ∧ IsWs ws0 ∧ IsWs ws1 ∧
        bs.map JsonScan.classify = ws0 ++ (v.render ++ ws1) :=
  accepts_iff_grammar (bs.map JsonScan.classify)

#print axioms accepted_grammar
#print axioms accepts_iff_grammar

end RfcG
