import JSight.SchemaLcFrame
import JSight.SchemaViable
import JSight.ByteLemmas
/-!
C17, schema scanner: the EXACT look-ahead window of an error.  An "invalid character"-class error at offset `i` is
determined by the bytes (and the end of input) at the offsets `≤ i`, plus — only for the error "after first #" — the fact
that the byte behind it is not `#`.  (`Fails.transferX`; on byte strings `scanAll_error_exact`.)
-/
namespace SchemaScan

/-! ### the three users of the look-ahead, through the guard closures -/

theorem guard_peel (f : Nat) (x : St) (s : Sc) (c : Cls) (hc : c ≠ .slash) (p1 p2 : Option Cls) :
    dispatch (f + 1) (.guard x) s c p1 p2 = dispatch f x s c p1 p2 := by
  have : (c == Cls.slash) = false := by simpa using hc
  conv => lhs; unfold dispatch
  dsimp only
  simp only [this, Bool.false_eq_true, if_false]

theorem crash_zero {st s c p1 p2 e} (h : dispatch 0 st s c p1 p2 = .error e) : e.isCrash = true := by
  rw [dispatch_zero] at h; cases h; rfl

theorem popRet_err {s : Sc} {e : Err} (h : popRet s = .error e) : e.isCrash = true := by
  unfold popRet at h
  split at h <;> cases h
  rfl

/-- in a user comment `#` and `*` never move the index back -/
theorem comment_no_back (c : Cls) (hc : c = .hash ∨ c = .star) (p1 p2 : Option Cls) :
    ∀ (st : St) (f : Nat) (s s1 : Sc), st.cflag = 1 → dispatch f st s c p1 p2 = .ok s1 → s.index ≤ s1.index := by
  have hsl : c ≠ .slash := by rcases hc with rfl | rfl <;> simp
  have hnl : c.isNewLine = false := by rcases hc with rfl | rfl <;> rfl
  intro st
  induction st with
  | guard x ih =>
    intro f s s1 hcf h
    cases f with
    | zero => rw [dispatch_zero] at h; cases h
    | succ f => rw [guard_peel f x s c hsl] at h; exact ih f s s1 hcf h
  | anyCommentStart =>
    intro f s s1 _ h
    cases f with
    | zero => rw [dispatch_zero] at h; cases h
    | succ f =>
      unfold dispatch at h; dsimp only at h
      simp only [hnl, bind, Except.bind, pure, Except.pure, Bool.false_eq_true, if_false] at h
      repeat' split at h
      all_goals first | (cases h; done) | (cases h; exact Nat.le_refl _)
  | inlineComment =>
    intro f s s1 _ h
    cases f with
    | zero => rw [dispatch_zero] at h; cases h
    | succ f =>
      unfold dispatch at h; dsimp only at h
      simp only [hnl, bind, Except.bind, pure, Except.pure, Bool.false_eq_true, if_false] at h
      cases h; exact Nat.le_refl _
  | multiLineComment =>
    intro f s s1 _ h
    cases f with
    | zero => rw [dispatch_zero] at h; cases h
    | succ f =>
      unfold dispatch at h; dsimp only at h
      simp only [bind, Except.bind, pure, Except.pure] at h
      repeat' split at h
      all_goals first | (cases h; done) | (cases h; exact Nat.le_refl _) | skip
      · have := popRet_frame ‹popRet _ = Except.ok _›
        cases h
        simp only [this.2]
        omega
  | _ => intro f s s1 hcf h; simp [St.cflag] at hcf

theorem mlTxt_star_ok {f s p1 p2 e} (h : dispatch f .mlTxt s .star p1 p2 = .error e) : e.isCrash = true := by
  cases f with
  | zero => exact crash_zero h
  | succ f =>
    unfold dispatch at h; dsimp only at h
    split at h <;> cases h

/-- `*` where the look-ahead is consulted (multi-line annotation text): never an error -/
theorem star_used_no_error (p1 p2 : Option Cls) :
    ∀ (st : St) (f : Nat) (s : Sc) (e : Err), st.starFree = false → dispatch f st s .star p1 p2 = .error e →
      e.isCrash = true := by
  intro st
  induction st with
  | guard x ih =>
    intro f s e hfree h
    cases f with
    | zero => exact crash_zero h
    | succ f => rw [guard_peel f x s .star (by simp)] at h; exact ih f s e hfree h
  | mlTxt => intro f s e _ h; exact mlTxt_star_ok h
  | mlAnn =>
    intro f s e _ h
    cases f with
    | zero => exact crash_zero h
    | succ f =>
      unfold dispatch at h; dsimp only at h
      simp [isNewLineM, Cls.isNewLine, Cls.isBlank, Cls.isSpace, bind, Except.bind, pure, Except.pure] at h
      exact mlTxt_star_ok h
  | mlTxtPrefix2 =>
    intro f s e _ h
    cases f with
    | zero => exact crash_zero h
    | succ f =>
      unfold dispatch at h; dsimp only at h
      simp [Cls.isSpace] at h
      exact mlTxt_star_ok h
  | _ => intro f s e hfree h; simp [St.starFree, St.core] at hfree

/-- `#` in `anyCommentStart`: the only error is "after first #" — it says that the next byte is not `#`, and it is the
same for every look-ahead that does not start with `#` -/
theorem acs_hash_error (p1 p2 : Option Cls) :
    ∀ (st : St) (f : Nat) (s : Sc) (e : Err), st.core = .anyCommentStart → dispatch f st s .hash p1 p2 = .error e →
      e.isCrash = false →
      e.window = 1 ∧ ∀ p1' p2', p1' ≠ some Cls.hash → dispatch f st s .hash p1' p2' = .error e := by
  intro st
  induction st with
  | guard x ih =>
    intro f s e hcore h hc
    cases f with
    | zero => rw [crash_zero h] at hc; cases hc
    | succ f =>
      rw [guard_peel f x s .hash (by simp)] at h
      obtain ⟨h1, h2⟩ := ih f s e hcore h hc
      refine ⟨h1, fun p1' p2' hp => ?_⟩
      rw [guard_peel f x s .hash (by simp)]
      exact h2 p1' p2' hp
  | anyCommentStart =>
    intro f s e _ h hc
    cases f with
    | zero => rw [crash_zero h] at hc; cases hc
    | succ f =>
      unfold dispatch at h; dsimp only at h
      simp only [bne_self_eq_false, Bool.false_eq_true, if_false] at h
      split at h
      · cases h
      · cases h
        refine ⟨rfl, fun p1' p2' hp => ?_⟩
        unfold dispatch; dsimp only
        have : (p1' == some Cls.hash) = false := by simpa using hp
        simp only [bne_self_eq_false, Bool.false_eq_true, if_false, this]
        rfl
  | _ => intro f s e hcore h; simp [St.core] at hcore

theorem core_mlc_cflag : ∀ (st : St), st.core = .multiLineComment → st.cflag = 1 := by
  intro st
  induction st with
  | guard x ih => intro h; exact ih h
  | multiLineComment => intro _; rfl
  | _ => intro h; simp [St.core] at h

/-- `#` in `multiLineComment`: never an error; closes the comment (index + 2) iff both look-ahead bytes are `#`,
otherwise nothing changes -/
theorem mlc_hash (p1 p2 : Option Cls) :
    ∀ (st : St) (f : Nat) (s : Sc), st.core = .multiLineComment →
      (∀ e, dispatch f st s .hash p1 p2 = .error e → e.isCrash = true) ∧
      (p1 = some Cls.hash ∧ p2 = some Cls.hash → ∀ s1, dispatch f st s .hash p1 p2 = .ok s1 → s1.index = s.index + 2) ∧
      (¬ (p1 = some Cls.hash ∧ p2 = some Cls.hash) → ∀ p1' p2', ¬ (p1' = some Cls.hash ∧ p2' = some Cls.hash) →
        dispatch f st s .hash p1' p2' = dispatch f st s .hash p1 p2) ∧
      (¬ (p1 = some Cls.hash ∧ p2 = some Cls.hash) → ∀ s1, dispatch f st s .hash p1 p2 = .ok s1 → s1 = s) := by
  intro st
  induction st with
  | guard x ih =>
    intro f s hcore
    cases f with
    | zero =>
      refine ⟨fun e h => crash_zero h, ?_, ?_, ?_⟩
      · intro _ s1 h; rw [dispatch_zero] at h; cases h
      · intro _ p1' p2' _; rw [dispatch_zero, dispatch_zero]
      · intro _ s1 h; rw [dispatch_zero] at h; cases h
    | succ f =>
      obtain ⟨h1, h2, h3, h4⟩ := ih f s hcore
      refine ⟨?_, ?_, ?_, ?_⟩
      · intro e h; rw [guard_peel f x s .hash (by simp)] at h; exact h1 e h
      · intro hp s1 h; rw [guard_peel f x s .hash (by simp)] at h; exact h2 hp s1 h
      · intro hp p1' p2' hp'
        rw [guard_peel f x s .hash (by simp), guard_peel f x s .hash (by simp)]
        exact h3 hp p1' p2' hp'
      · intro hp s1 h; rw [guard_peel f x s .hash (by simp)] at h; exact h4 hp s1 h
  | multiLineComment =>
    intro f s _
    cases f with
    | zero =>
      refine ⟨fun e h => crash_zero h, ?_, ?_, ?_⟩
      · intro _ s1 h; rw [dispatch_zero] at h; cases h
      · intro _ p1' p2' _; rw [dispatch_zero, dispatch_zero]
      · intro _ s1 h; rw [dispatch_zero] at h; cases h
    | succ f =>
      have key : ∀ q1 q2 : Option Cls, dispatch (f + 1) .multiLineComment s .hash q1 q2 =
          if q1 = some Cls.hash ∧ q2 = some Cls.hash then
            (match popRet s with
              | .error e => .error e
              | .ok (r, s') => .ok { s' with step := r, index := s'.index + 2 })
          else .ok s := by
        intro q1 q2
        unfold dispatch; dsimp only
        simp only [bind, Except.bind, pure, Except.pure, beq_self_eq_true, Bool.true_and, Bool.and_eq_true, beq_iff_eq]
        split
        · cases hq : popRet s with
          | error e => rfl
          | ok r => rfl
        · rfl
      refine ⟨?_, ?_, ?_, ?_⟩
      · intro e h
        rw [key] at h
        split at h
        · cases hq : popRet s with
          | error e' => rw [hq] at h; cases h; exact popRet_err hq
          | ok r => rw [hq] at h; cases h
        · cases h
      · intro hp s1 h
        rw [key, if_pos hp] at h
        cases hq : popRet s with
        | error e' => rw [hq] at h; cases h
        | ok r =>
          rw [hq] at h
          cases h
          have := (popRet_frame hq).2
          simp only [this]
      · intro hp p1' p2' hp'
        rw [key, key, if_neg hp, if_neg hp']
      · intro hp s1 h
        rw [key, if_neg hp] at h
        cases h; rfl
  | _ => intro f s hcore; simp [St.core] at hcore

theorem hashFree1_false {st : St} (h : st.hashFree1 = false) :
    st.core = .anyCommentStart ∨ st.core = .multiLineComment := by
  unfold St.hashFree1 at h
  split at h
  · exact Or.inl ‹_›
  · exact Or.inr ‹_›
  · cases h

theorem hashFree2_false {st : St} (h : st.hashFree2 = false) : st.core = .multiLineComment := by
  unfold St.hashFree2 at h
  split at h
  · assumption
  · cases h

/-! ### the run -/

theorem processFound_lc {data : Array Cls} {s : Sc} {t : LexT} {s' : Sc} {ev : Ev}
    (h : processFound data s t = .ok (s', ev)) : s'.lengthComputing = s.lengthComputing := by
  unfold processFound at h
  simp only [] at h
  repeat' split at h
  all_goals first | (cases h; done) | (cases h; rfl)

theorem shiftFound_lc {data : Array Cls} {s s' : Sc} {ev : Ev} (h : shiftFound data s = .ok (some (s', ev))) :
    s'.lengthComputing = s.lengthComputing := by
  unfold shiftFound at h
  cases hf : s.finds with
  | nil => rw [hf] at h; cases h
  | cons t rest =>
    rw [hf] at h
    simp only [bind, Except.bind, pure, Except.pure] at h
    cases hp : processFound data { s with finds := rest } t with
    | error e' => rw [hp] at h; cases h
    | ok r =>
      rw [hp] at h
      obtain ⟨s1, ev1⟩ := r
      cases h
      exact processFound_lc (s := { s with finds := rest }) hp

/-- what a successful read step gives -/
theorem read_facts {data : Array Cls} {s s1 : Sc} (hI : Inv s) (h1 : shiftFound data s = .ok none)
    (hi : s.index < data.size) (hr : readStep data s = .ok s1) :
    s.finds = [] ∧ Inv s1 ∧ Q { s with index := s.index + 1 } data[s.index + 1 + 1]? s1 ∧
      s1.lengthComputing = s.lengthComputing ∧ s.index ≤ s1.index ∧ s1.index ≤ data.size := by
  have hf := shiftFound_none h1
  have hI2 : Inv { s with index := s.index + 1 } := hI
  have hd : OKRes Inv (readStep data s) := dispatch_ok (f := 4) hI2 hf
  rw [hr] at hd
  have hI1 : Inv s1 := hd
  have hq : Q { s with index := s.index + 1 } data[s.index + 1 + 1]? s1 :=
    dispatchQ _ _ _ _ _ hI2 hf (Nat.le_add_left 1 s.index) hr
  have hp2 : (data[s.index + 1 + 1]?).isSome = true → s.index + 2 < data.size := by
    intro h
    rcases Option.isSome_iff_exists.mp h with ⟨a, ha⟩
    exact (Array.getElem?_eq_some_iff.mp ha).1
  have hrange : s.index ≤ s1.index ∧ s1.index ≤ data.size := by
    rcases hq with ⟨h1 | ⟨h1, h2⟩, _⟩ | ⟨h1, _⟩
    · have h1' : s1.index = s.index + 1 := h1
      omega
    · have h1' : s1.index = s.index + 1 + 2 := h1
      have := hp2 h2
      omega
    · have h1' : s1.index + 1 = s.index + 1 := h1
      omega
  have hlc : s1.lengthComputing = s.lengthComputing :=
    dispatch_lc _ _ _ 8 s.step { s with index := s.index + 1 } s1 hr
  exact ⟨hf, hI1, hq, hlc, hrange.1, hrange.2⟩

/-- a read step on `#` or `*` moves forward -/
theorem read_forward {data : Array Cls} {s s1 : Sc} (hI : Inv s) (h1 : shiftFound data s = .ok none)
    (hi : s.index < data.size) (hr : readStep data s = .ok s1)
    (hc : data[s.index]! = Cls.hash ∨ data[s.index]! = Cls.star) : s.index + 1 ≤ s1.index := by
  obtain ⟨_, _, hq, _, _, _⟩ := read_facts hI h1 hi hr
  rcases hq with ⟨h1 | ⟨h1, _⟩, _⟩ | ⟨h1, _, hcf, _⟩
  · have h1' : s1.index = s.index + 1 := h1
    omega
  · have h1' : s1.index = s.index + 1 + 2 := h1
    omega
  · have h1' : s1.index + 1 = s.index + 1 := h1
    have hcf' : s.step.cflag = 1 := hcf
    have := comment_no_back _ hc _ _ s.step 8 { s with index := s.index + 1 } s1 hcf' hr
    have h2 : s.index + 1 ≤ s1.index := this
    omega

theorem bang_of_get {data : Array Cls} {i : Nat} {c : Cls} (h : data[i]? = some c) : data[i]! = c := by
  obtain ⟨hlt, hget⟩ := Array.getElem?_eq_some_iff.mp h
  rw [getElem!_pos data i hlt]; exact hget

/-- a failing run that stands in a `###` comment in front of a `#` fails behind that `#` -/
theorem Fails.mlc_at_hash {data : Array Cls} {s : Sc} {e : Err} (h : Fails data s e) (hI : Inv s) (hf : s.finds = [])
    (hcore : s.step.core = .multiLineComment) (hc : data[s.index]? = some Cls.hash)
    (hcr : e.isCrash = false) (heof : e.isEOF = false) : s.index < e.idx := by
  have hlt : s.index < data.size := (Array.getElem?_eq_some_iff.mp hc).1
  cases h with
  | shiftErr h1 => rw [shiftFound_nil data hf] at h1; cases h1
  | shift h1 _ => rw [shiftFound_nil data hf] at h1; cases h1
  | readErr h1 hi hr =>
    unfold readStep at hr
    rw [bang_of_get hc] at hr
    have := (mlc_hash _ _ s.step 8 _ hcore).1 e hr
    rw [this] at hcr; cases hcr
  | read h1 hi hr hf' =>
    have hfw := read_forward hI h1 hi hr (Or.inl (bang_of_get hc))
    obtain ⟨_, hI1, _, _, _, hsz1⟩ := read_facts hI h1 hi hr
    have := (hf'.transfer hI1 hsz1 hcr heof).1
    omega
  | eofErr _ hi _ => exact absurd hlt hi
  | eof _ hi _ _ => exact absurd hlt hi

/-- the error of a transition does not depend on the look-ahead, except that "after first #" says that the next byte
is not `#` -/
theorem err_step_indep {st : St} {s : Sc} {c : Cls} {p1 p2 p1' p2' : Option Cls} {e : Err}
    (hl : s.lengthComputing = false) (hr : dispatch 8 st s c p1 p2 = .error e) (hc : e.isCrash = false)
    (hW : e.window = 1 → p1' ≠ some Cls.hash) : dispatch 8 st s c p1' p2' = .error e := by
  by_cases hch : c = .hash
  · subst hch
    by_cases hf1 : st.hashFree1 = true
    · rw [← dispatch_la_hash1 p1 p2 p1' p2' 8 st s hf1 hl]; exact hr
    · rcases hashFree1_false (by simpa using hf1) with hcore | hcore
      · obtain ⟨hw, hall⟩ := acs_hash_error p1 p2 st 8 s e hcore hr hc
        exact hall p1' p2' (hW hw)
      · have := (mlc_hash p1 p2 st 8 s hcore).1 e hr
        rw [this] at hc; cases hc
  · by_cases hcs : c = .star
    · subst hcs
      by_cases hf1 : st.starFree = true
      · rw [← dispatch_la_star1 p1 p2 p1' p2' 8 st s hf1 hl]; exact hr
      · have := star_used_no_error p1 p2 st 8 s e (by simpa using hf1) hr
        rw [this] at hc; cases hc
    · rw [← dispatch_la_plain c hch hcs p1 p2 p1' p2' 8 st s]; exact hr

/-- **replay with the exact window**: a run failing with a structured, non-EOF error at offset `i` fails in the same
way on every input that agrees with the given one on the offsets `≤ i` — provided, for the error "after first #", that
the byte behind `i` is not `#` there either -/
theorem Fails.transferX {data : Array Cls} {s : Sc} {e : Err} (h : Fails data s e) :
    Inv s → s.lengthComputing = false → s.index ≤ data.size → e.isCrash = false → e.isEOF = false →
    ∀ data', Agree (e.idx + 1) data data' → (e.window = 1 → data'[e.idx + 1]? ≠ some Cls.hash) → Fails data' s e := by
  induction h with
  | shiftErr h1 =>
    intro _ _ _ hc _
    rw [shiftFound_err h1] at hc; cases hc
  | @shift s s' ev e h1 _ ih =>
    intro hI hl hi hc he data' hA hW
    have hidx := shiftFound_index h1
    have hI' : Inv s' := by
      cases hf : s.finds with
      | nil => rw [shiftFound_nil data hf] at h1; cases h1
      | cons t rest =>
        obtain ⟨stk, e0, hp, hI2⟩ := shiftFound_cons data hI hf
        rw [hp] at h1
        cases h1
        exact hI2
    obtain ⟨ev', h1'⟩ := shiftFound_indep data data' h1
    exact Fails.shift h1' (ih hI' (by rw [shiftFound_lc h1]; exact hl) (by rw [hidx]; exact hi) hc he data' hA hW)
  | @readErr s e h1 hi hr =>
    intro _ hl _ hc _ data' hA hW
    obtain ⟨hidx, _⟩ := readStep_err hr hc
    have hf := shiftFound_none h1
    have hi' : s.index < data'.size := hA.lt_size (by omega) hi
    refine Fails.readErr (shiftFound_nil data' hf) hi' ?_
    have hb : data'[s.index]! = data[s.index]! := (hA.bang (by omega)).symm
    unfold readStep at hr ⊢
    rw [hb]
    exact err_step_indep (s := { s with index := s.index + 1 }) hl hr hc (by rw [← hidx]; exact hW)
  | @read s s1 e h1 hi hr hf1 ih =>
    intro hI hl _ hc he data' hA hW
    obtain ⟨hf, hI1, _, hlc, hle, hsz1⟩ := read_facts hI h1 hi hr
    obtain ⟨hidx1, _, _⟩ := hf1.transfer hI1 hsz1 hc he
    have hF' := ih hI1 (by rw [hlc]; exact hl) hsz1 hc he data' hA hW
    have hi' : s.index < data'.size := hA.lt_size (by omega) hi
    refine Fails.read (shiftFound_nil data' hf) hi' ?_ hF'
    have hb : data'[s.index]! = data[s.index]! := (hA.bang (by omega)).symm
    have hr' := hr
    unfold readStep at hr'
    rw [← hr]
    unfold readStep
    rw [hb]
    by_cases hch : data[s.index]! = Cls.hash
    · have hfw := read_forward hI h1 hi hr (Or.inl hch)
      have hp1 : data'[s.index + 1]? = data[s.index + 1]? := (hA (s.index + 1) (by omega)).symm
      rw [hp1]
      by_cases h2 : s.index + 2 ≤ e.idx
      · rw [show data'[s.index + 1 + 1]? = data[s.index + 1 + 1]? from (hA (s.index + 1 + 1) (by omega)).symm]
      · rw [hch] at hr' ⊢
        by_cases hf2 : s.step.hashFree2 = true
        · exact dispatch_la_hash2 _ _ _ 8 s.step _ hf2 hl
        · have hcore := hashFree2_false (by simpa using hf2)
          obtain ⟨_, hclose, hsame, hstay⟩ :=
            mlc_hash data[s.index + 1]? data[s.index + 1 + 1]? s.step 8 { s with index := s.index + 1 } hcore
          have hnb : ¬ (data[s.index + 1]? = some Cls.hash ∧ data[s.index + 1 + 1]? = some Cls.hash) := by
            intro hb2
            have h3 : s1.index = s.index + 1 + 2 := hclose hb2 s1 hr'
            omega
          by_cases hp : data[s.index + 1]? = some Cls.hash
          · have hs1 : s1 = { s with index := s.index + 1 } := hstay hnb s1 hr'
            have := hf1.mlc_at_hash hI1 (by rw [hs1]; exact hf) (by rw [hs1]; exact hcore)
              (by rw [hs1]; exact hp) hc he
            rw [hs1] at this
            have h4 : s.index + 1 < e.idx := this
            omega
          · exact hsame hnb _ _ (fun h => hp h.1)
    · by_cases hcs : data[s.index]! = Cls.star
      · have hfw := read_forward hI h1 hi hr (Or.inr hcs)
        have hp1 : data'[s.index + 1]? = data[s.index + 1]? := (hA (s.index + 1) (by omega)).symm
        rw [hp1, hcs]
        exact dispatch_la_star2 _ _ _ 8 _ _
      · exact dispatch_la_plain _ hch hcs _ _ _ _ 8 _ _
  | eofErr _ _ h2 =>
    intro _ _ _ hc he
    rcases eofStep_err h2 with h | h
    · rw [h] at he; cases he
    · rw [h] at hc; cases hc
  | @eof s s' ev e _ hi h2 hf' _ =>
    intro _ _ _ hc he
    rcases hf'.past_end (by rw [eofStep_index h2]; omega) with h | h
    · rw [h] at he; cases he
    · rw [h] at hc; cases hc

end SchemaScan

namespace SchemaScan

theorem classify_hash_iff : ∀ b : UInt8, ((classify b == Cls.hash) == (b == 35)) = true :=
  Bytes.forall_uint8 _ (by decide +kernel)

theorem classify_hash {b : UInt8} (h : classify b = Cls.hash) : b = 35 := by
  have := classify_hash_iff b
  simp only [h, beq_self_eq_true, beq_iff_eq] at this
  simpa using this.symm

theorem agree_of_lists_le {bs bs' : List UInt8} {n : Nat} (h : ∀ k, k ≤ n → bs'[k]? = bs[k]?) :
    Agree (n + 1) (bs.map classify).toArray (bs'.map classify).toArray :=
  agree_of_lists (fun k hk => h k (by omega))

/-- **C17, schema scanner: the exact look-ahead window.** A structured error other than "unexpected end of file" at
offset `i` is determined by the bytes (and the end of input) at the offsets `0 … i`; only the error "after first #" also
needs to know that the byte behind `i` is not `#`. -/
theorem scanAll_error_exact (bs : List UInt8) (e : Err) (h : scanAll bs = .error e) (he : e.isEOF = false)
    (bs' : List UInt8) (hA : ∀ k, k ≤ e.idx → bs'[k]? = bs[k]?) (hW : e.window = 1 → bs'[e.idx + 1]? ≠ some 35) :
    scanAll bs' = .error e := by
  have hc := scanAll_no_crash bs e h
  refine fails_scanAll ((scanAll_fails h).transferX (Inv_init false) rfl (Nat.zero_le _) hc he _
    (agree_of_lists_le hA) ?_) hc
  intro hw hx
  apply hW hw
  simp only [List.getElem?_toArray, List.getElem?_map] at hx
  cases hb : bs'[e.idx + 1]? with
  | none => rw [hb] at hx; cases hx
  | some b =>
    rw [hb] at hx
    simp only [Option.map_some, Option.some.injEq] at hx
    rw [classify_hash hx]

#print axioms Fails.transferX
#print axioms scanAll_error_exact

end SchemaScan
