import JSight.BridgeCK3Loops
import JSight.CheckerFuel
/-!
Bridge (A)∩(C), third part: **a node that carries an EXAMPLE together with a types list** (`1 // {type: "@t"}`,
`1 // {or: ["@a", "@b"]}`): `checkLinksOfNode` (1301 / 1302 / 1303) and `checkLiteralNode` (the first failing alternative's
code when there is one alternative, 204 when there are several) agree in the two models, through chains of references
of any length (`refex_agree`); then the tree (`node_x`) on the class `xr`.
-/
namespace BridgeCK
open Compile

/-- an EXAMPLE token the checkers can read: its kind is the node's JSON type -/
def tokOK (jt : JT) (tok : Bytes) : Bool :=
  (match RulesF.kindOfTok tok with
   | some k => jt == JT.ofKind k
   | none => false) && (RulesF.enumItem tok).isSome

/-- the root of a type a key shortcut may name: not a type shortcut / or-shortcut (`actualRootType` would follow it) —
a typed literal `"ab" // {type: "@s"}` has its own JSON type -/
def keyHead : CN → Bool
  | .ref _ _ jt _ _ => jt != .mixed
  | _ => true

/-- the type a key shortcut names is not an alias -/
def keyDirect (ts : Types) (k : String) : Bool :=
  match lookupT ts ("@" ++ k) with
  | some cn => keyHead cn
  | none => true

mutual
/-- the class: `nr` plus nodes with an EXAMPLE and a types list (any list of names: `type`, `or`) -/
def xr (ts : Types) : CN → Bool
  | .lit spec bad => (bad || (guessK spec && (spec.rules.isEmpty || litRulesOK spec))) && noEmail spec
  | .any jt lit =>
    (match lit with
     | some l => jt == JT.ofKind l.kind && guessK l && l.rules.isEmpty
     | none => jt == .obj || jt == .arr)
  | .arr items _ _ => xrItems ts items
  | .obj props add _ _ => xrProps ts props && (match add with | .type n => decide (nameOK n) | _ => true)
  | .ref names _ jt ex orShort =>
    (names.all fun n => decide (nameOK n)) &&
      (if jt == .mixed then ex.isNone else !orShort && match ex with | some tok => tokOK jt tok | none => false)
def xrItems (ts : Types) : List CN → Bool
  | [] => true
  | x :: xs => xr ts x && xrItems ts xs
def xrProps (ts : Types) : List (String × Bool × Bool × Bool × CN) → Bool
  | [] => true
  | (k, short, _, _, x) :: xs =>
    (!short || (decide (byteChars ("@" ++ k)) && keyDirect ts k)) && xr ts x && xrProps ts xs
end

theorem xr_head (ts : Types) : (cn : CN) → xr ts cn = true → headOK cn = true
  | .lit spec bad, h => by
    simp only [xr, Bool.and_eq_true] at h
    exact h.2
  | .any jt (some l), h => by
    simp only [xr, Bool.and_eq_true] at h
    simp only [headOK, Bool.and_eq_true]
    exact ⟨h.1.1, h.2⟩
  | .any jt none, h => by simpa [xr, headOK] using h
  | .arr _ _ _, _ => rfl
  | .obj _ _ _ _, _ => rfl
  | .ref names _ _ _ _, h => by
    simp only [xr, Bool.and_eq_true] at h
    exact h.1

def Pos (a : Except Err Unit) : Prop := ∀ e, a = .error e → ∃ c, e = .code c 0

section
variable (ts : Types) (env : CK.Env) (fuel : Nat)

/-! ### the node with an EXAMPLE and a types list -/

def verdictA (alts : List (Option Nat)) : Except Err Unit :=
  if alts.all (·.isSome) then
    (match alts with
     | [some c] => .error (.code c 0)
     | _ => .error (.code 204 0))
  else .ok ()

def alOK (jt : JT) : Option (List JT) → Bool
  | none => true
  | some l => l.contains jt

theorem checkNode_refex (names : List String) (nul : Bool) (jt : JT) (tok : Bytes) (os : Bool)
    (hj : (jt == JT.mixed) = false) :
    Compile.checkNode ts fuel (.ref names nul jt (some tok) os) =
      match allowed ts fuel [] names with
      | .error e => .error e
      | .ok al =>
        if !(alOK jt al) then .error (.code 1301 0)
        else
          match exampleAlts ts tok fuel [] names with
          | .error e => .error e
          | .ok (_, alts) => verdictA alts := by
  simp only [Compile.checkNode, hj]
  cases allowed ts fuel [] names with
  | error e => rfl
  | ok al => cases al <;> rfl

def refInfo (names : List String) (nul : Bool) (jt : JT) (tok : Bytes) : CK.Info :=
  { nk := nkOfJT jt, jt := jtOf jt, lex := lexLit tok, cs := [.typesList (names.map name)] ++ nulCs nul,
    gtypes := if jt == .mixed then names.map name else [] }

theorem dump_refex (names : List String) (nul : Bool) (jt : JT) (tok : Bytes) (os : Bool) :
    dumpNode (.ref names nul jt (some tok) os) = .mk (refInfo names nul jt tok) [] := by
  simp only [dumpNode, refInfo]

theorem linksErr_refex (names : List String) (nul : Bool) (jt : JT) (tok : Bytes) (hnk : nkOfJT jt = .lit) :
    CK.linksErr env (refInfo names nul jt tok) =
      match CK.collectNames (CK.collect env (env.types.length + 1)) env [] (names.map name) [] with
      | .error p => some p
      | .ok al => if al.contains (jtOf jt) then none else some (.raw 1301) := by
  have htl : CK.typesList? (refInfo names nul jt tok).cs = some (names.map name) := rfl
  unfold CK.linksErr
  rw [htl, fuel_succ]
  simp only []
  unfold CK.collect
  simp only [refInfo, hnk, htl]
  rfl

theorem literalErr_refex (names : List String) (nul : Bool) (jt : JT) (tok : Bytes) :
    CK.literalErr noOracles env (refInfo names nul jt tok) =
      match CK.buildNames (CK.build env (env.types.length + 1)) env (names.map name) ([], []) with
      | .error e => some e
      | .ok st => CK.literalVerdict noOracles (lexLit tok) st.2 := by
  have htl : CK.typesList? (refInfo names nul jt tok).cs = some (names.map name) := rfl
  unfold CK.literalErr CK.checkerList
  rw [fuel_succ]
  unfold CK.build
  simp only [htl]
  cases CK.buildNames (CK.build env (env.types.length + 1)) env (names.map name) ([], []) <;> rfl

theorem verdict_eq (tok : Bytes) : (chks : List CK.Chk) →
    (CK.literalVerdict noOracles (lexLit tok) chks).map (CK.catchLex (lexLit tok)) =
      panicOf (verdictA (chks.map (CK.Chk.check noOracles (lexLit tok)))) ∧
    Pos (verdictA (chks.map (CK.Chk.check noOracles (lexLit tok))))
  | [] => ⟨rfl, fun e he => by cases he; exact ⟨204, rfl⟩⟩
  | [c] => by
    rw [single_verdict]
    cases hc : CK.Chk.check noOracles (lexLit tok) c with
    | none =>
      refine ⟨by simp [verdictA, hc, panicOf], fun e he => ?_⟩
      simp [verdictA, hc] at he
    | some v =>
      have hv : verdictA ([c].map (CK.Chk.check noOracles (lexLit tok))) = .error (.code v 0) := by
        simp [verdictA, hc]
      rw [hv]
      exact ⟨rfl, fun e he => by cases he; exact ⟨v, rfl⟩⟩
  | c1 :: c2 :: r => by
    have hall' : (c1 :: c2 :: r).all (fun c => (CK.Chk.check noOracles (lexLit tok) c).isSome) =
        ((c1 :: c2 :: r).map (CK.Chk.check noOracles (lexLit tok))).all (·.isSome) := by
      rw [List.all_map]; rfl
    have hC : CK.literalVerdict noOracles (lexLit tok) (c1 :: c2 :: r) =
        if ((c1 :: c2 :: r).map (CK.Chk.check noOracles (lexLit tok))).all (·.isSome) then some (.doc 204 0 0) else none := by
      unfold CK.literalVerdict
      rw [hall']
      rfl
    have hAv : verdictA ((c1 :: c2 :: r).map (CK.Chk.check noOracles (lexLit tok))) =
        if ((c1 :: c2 :: r).map (CK.Chk.check noOracles (lexLit tok))).all (·.isSome) then .error (.code 204 0) else .ok () := by
      unfold verdictA
      simp only [List.map_cons]
      cases CK.Chk.check noOracles (lexLit tok) c1 <;> rfl
    rw [hC, hAv]
    cases ((c1 :: c2 :: r).map (CK.Chk.check noOracles (lexLit tok))).all (·.isSome)
    · exact ⟨rfl, fun e he => by simp at he⟩
    · exact ⟨rfl, fun e he => by simp at he; exact ⟨204, he.symm⟩⟩

theorem contains_jt (x : List JT) (j : JT) : (x.map jtOf).contains (jtOf j) = x.contains j := by
  induction x with
  | nil => rfl
  | cons a x ih =>
    simp only [List.map_cons, List.contains_cons, ih]
    congr 1
    cases j <;> cases a <;> rfl

theorem jt_all (j : JT) : jtOf j ∈ CK.allTypes := by cases j <;> simp [jtOf, CK.allTypes]

/-- **an EXAMPLE under a types list** — (C)'s `checkNode` on the dump is (A)'s `checkNode`, unless (A) ran out of fuel -/
theorem refex_agree (hE : EnvRelN ts env) (hT : ∀ n cn, lookupT ts n = some cn → headOK cn = true) (hf : ∃ f, fuel = f + 1)
    (names : List String) (nul : Bool) (jt : JT) (tok : Bytes) (os : Bool) (hj : (jt == JT.mixed) = false)
    (htok : tokOK jt tok = true) (hb : ∀ n ∈ names, nameOK n)
    (hA : ∀ w, Compile.checkNode ts fuel (.ref names nul jt (some tok) os) ≠ .error (.unsupported w)) :
    CK.checkNode noOracles env (dumpNode (.ref names nul jt (some tok) os)) =
        panicOf (Compile.checkNode ts fuel (.ref names nul jt (some tok) os)) ∧
      Pos (Compile.checkNode ts fuel (.ref names nul jt (some tok) os)) := by
  obtain ⟨f, rfl⟩ := hf
  simp only [tokOK, Bool.and_eq_true] at htok
  obtain ⟨hk, hen⟩ := htok
  cases hd : RulesF.kindOfTok tok with
  | none => rw [hd] at hk; cases hk
  | some d =>
  rw [hd] at hk
  have hjd : jt = JT.ofKind d := by simpa using hk
  have hnk : nkOfJT jt = .lit := by rw [hjd]; cases d <;> rfl
  rw [checkNode_refex ts (f + 1) names nul jt tok os hj] at hA ⊢
  rw [dump_refex]
  have hcompat : CK.compatErr (refInfo names nul jt tok) = none := by
    refine compat_none _ ?_
    cases nul <;> simp [refInfo, nulCs, CK.compat, CK.Cn.ty]
  have hnode : CK.checkNode noOracles env (.mk (refInfo names nul jt tok) []) =
      (CK.orElse (CK.linksErr env (refInfo names nul jt tok)) fun _ =>
        CK.literalErr noOracles env (refInfo names nul jt tok)).map (CK.catchLex (lexLit tok)) := by
    have e1 : (refInfo names nul jt tok).nk = .lit := hnk
    have e2 : (refInfo names nul jt tok).lex = lexLit tok := rfl
    simp only [CK.checkNode, List.length_nil]
    unfold CK.nodeErr
    simp only []
    rw [hcompat]
    simp only [CK.orElse, e1, e2, CK.isBranch]
    generalize Option.map (CK.catchLex (lexLit tok)) _ = X
    cases X <;> simp
  rw [hnode]
  have hl1 := CK.linksErr_no_crash env (refInfo names nul jt tok)
  have hl2 := CK.literalErr_no_crash noOracles env (refInfo names nul jt tok)
  rw [linksErr_refex env names nul jt tok hnk] at hl1 ⊢
  rw [literalErr_refex env names nul jt tok] at hl2 ⊢
  have r1 := collect_rel ts env hE hT (f + 1) (env.types.length + 1) [] names [] hb (by simp)
  simp only [List.map_nil] at r1
  generalize allowed ts (f + 1) [] names = a1 at r1 hA ⊢
  generalize CK.collectNames (CK.collect env (env.types.length + 1)) env [] (names.map name) [] = c1 at r1 hl1 ⊢
  cases r1 with
  | fuelA w b => exact absurd rfl (hA w)
  | fuelC a w => exact absurd rfl (hl1 w)
  | err c => exact ⟨by simp [CK.orElse, CK.catchLex, lexLit, panicOf], fun e he => by cases he; exact ⟨c, rfl⟩⟩
  | ok al l hR =>
    have hcont : l.contains (jtOf jt) = alOK jt al := by
      cases al with
      | some x =>
        simp only [RAllowed, List.nil_append] at hR
        rw [hR, contains_jt]
        rfl
      | none =>
        obtain ⟨l', e, hl'⟩ := hR
        simp only [List.nil_append] at e
        rw [e]
        simp only [List.contains_iff_mem, alOK]
        exact hl' _ (jt_all jt)
    simp only [hcont]
    cases hc : alOK jt al
    · simp only [hc] at hA ⊢
      exact ⟨by simp [CK.orElse, CK.catchLex, lexLit, panicOf], fun e he => by
        simp at he; exact ⟨1301, he.symm⟩⟩
    · simp only [hc, Bool.not_true, Bool.false_eq_true, if_false, if_true, CK.orElse] at hA ⊢
      have r2 := build_rel ts env hE hT tok d hd hen (f + 1) (env.types.length + 1) [] names [] hb (by simp)
      simp only [List.map_nil] at r2
      generalize exampleAlts ts tok (f + 1) [] names = a2 at r2 hA ⊢
      generalize CK.buildNames (CK.build env (env.types.length + 1)) env (names.map name) ([], []) = c2 at r2 hl2 ⊢
      cases r2 with
      | fuelA w b => exact absurd rfl (hA w)
      | fuelC a w => exact absurd rfl (hl2 w)
      | err c => exact ⟨by simp [CK.catchLex, lexLit, panicOf], fun e he => by cases he; exact ⟨c, rfl⟩⟩
      | ok a c hR2 =>
        obtain ⟨added, alts⟩ := a
        obtain ⟨c1', chks'⟩ := c
        obtain ⟨_, _, chks, h3, h4⟩ := hR2
        simp only [List.nil_append] at h3 h4
        subst h3
        subst h4
        exact verdict_eq tok chks'

/-! ### key shortcuts whose type is not a node with a types list -/

theorem actualC_x (f : Nat) (cn : CN) (hh : headOK cn = true) (hk : keyHead cn = true) :
    ∃ j, cn.jt = some j ∧ CK.actualRoot env (f + 1) [] (dumpNode cn).hd.info = some (jtOf j) := by
  by_cases hnr : notRef cn = true
  · obtain ⟨j, hj, hjt, hnk, _⟩ := head_plain cn hh hnr
    refine ⟨j, hj, ?_⟩
    unfold CK.actualRoot
    rw [hjt, hnk]
    by_cases hm : jtOf j = CK.JT.mixed
    · simp [hm]
    · simp [hm]
  · cases cn with
    | ref names nul jt ex os =>
      refine ⟨jt, rfl, ?_⟩
      have hm : (jtOf jt != CK.JT.mixed) = true := by
        simp only [keyHead] at hk
        cases jt <;> first | rfl | simp at hk
      unfold CK.actualRoot
      simp only [dumpNode, CK.Node.hd, hm, if_true]
    | lit _ _ => simp [notRef] at hnr
    | any _ _ => simp [notRef] at hnr
    | arr _ _ _ => simp [notRef] at hnr
    | obj _ _ _ _ => simp [notRef] at hnr

theorem actualA_x (f : Nat) (n : String) (cn : CN) (hl : lookupT ts n = some cn) (hk : keyHead cn = true) :
    Compile.actualRoot ts (f + 1) [] n = cn.jt := by
  unfold Compile.actualRoot
  rw [hl]
  cases cn with
  | ref names nul jt ex os =>
    simp only [keyHead] at hk
    simp only [hk, if_true, CN.jt]
  | lit _ _ => rfl
  | any _ _ => rfl
  | arr _ _ _ => rfl
  | obj _ _ _ _ => rfl

theorem keys_agree_x (hE : EnvRelN ts env) (f : Nat) :
    (props : List (String × Bool × Bool × Bool × CN)) →
    (∀ p ∈ props, p.2.1 = true → nameOK ("@" ++ p.1) ∧
      ∀ cn, lookupT ts ("@" ++ p.1) = some cn → headOK cn = true ∧ keyHead cn = true) →
    CK.keysErr env (dumpKeys props) =
      (props.find? (fun p => p.2.1 && ((lookupT ts ("@" ++ p.1)).isNone
          || Compile.actualRoot ts (f + 1) [] ("@" ++ p.1) != some .str))).map
        (fun p => CK.Panic.doc (if (lookupT ts ("@" ++ p.1)).isNone then 1302 else 1304) 0 0)
  | [], _ => rfl
  | (k, short, r, o, x) :: xs, h => by
    have ih := keys_agree_x hE f xs (fun p hp => h p (List.mem_cons_of_mem _ hp))
    cases short with
    | false => simp [dumpKeys, CK.keysErr, ih]
    | true =>
      obtain ⟨hb, hcn⟩ := h (k, true, r, o, x) List.mem_cons_self rfl
      simp only at hb hcn
      simp only [dumpKeys, CK.keysErr, if_true, Bool.not_true, Bool.false_eq_true, if_false, hE _ hb, List.find?_cons,
        Bool.true_and]
      cases hl : lookupT ts ("@" ++ k) with
      | none => simp [lexBranch, hl]
      | some cn =>
        obtain ⟨hh, hnref⟩ := hcn cn hl
        obtain ⟨j, hj, hc⟩ := actualC_x env (env.types.length + 1) cn hh hnref
        rw [fuel_succ, Option.map_some]
        simp only [hc, actualA_x ts f _ cn hl hnref, hj, jt_str, Option.isNone_some, Bool.false_or]
        cases (some j != some JT.str)
        · simpa using ih
        · simp [lexBranch, hl]

theorem obj_agree_x (hE : EnvRelN ts env) (hf : ∃ f, fuel = f + 1)
    (props : List (String × Bool × Bool × Bool × CN)) (add : Add) (nul bad : Bool)
    (hK : ∀ p ∈ props, p.2.1 = true → nameOK ("@" ++ p.1) ∧
      ∀ cn, lookupT ts ("@" ++ p.1) = some cn → headOK cn = true ∧ keyHead cn = true)
    (hadd : (match add with | .type n => decide (nameOK n) | _ => true) = true)
    (ih : bad = false → (∀ p ∈ props, ¬ (p.2.1 && ((lookupT ts ("@" ++ p.1)).isNone
          || Compile.actualRoot ts fuel [] ("@" ++ p.1) != some .str)) = true) →
        (∀ n, add = .type n → (lookupT ts n).isNone = false) →
        CK.checkNodes noOracles env (dumpProps props) = panicOf (checkProps ts fuel props)) :
    CK.checkNode noOracles env (dumpNode (.obj props add nul bad)) =
      panicOf (Compile.checkNode ts fuel (.obj props add nul bad)) := by
  obtain ⟨f, rfl⟩ := hf
  cases bad with
  | true =>
    simp only [dumpNode, CK.checkNode, Compile.checkNode, if_true, panicOf]
    unfold CK.nodeErr
    simp only []
    rw [compat_bad _ rfl (by cases nul <;> cases add <;> simp [nulCs, addCs, CK.compat, CK.Cn.ty])]
    simp [CK.orElse, CK.catchLex, lexBranch]
  | false =>
    simp only [dumpNode, CK.checkNode, Compile.checkNode, Bool.false_eq_true, if_false]
    unfold CK.nodeErr
    simp only []
    rw [compat_none _ (by cases nul <;> cases add <;> simp [nulCs, addCs, CK.compat, CK.Cn.ty]),
      links_none env _ (by rw [List.append_assoc, typesList_nul, typesList_add]; rfl), keys_agree_x ts env hE f props hK]
    cases hfind : props.find? (fun p => p.2.1 && ((lookupT ts ("@" ++ p.1)).isNone
        || Compile.actualRoot ts (f + 1) [] ("@" ++ p.1) != some .str)) with
    | some p => simp [CK.orElse, CK.catchLex, panicOf]
    | none =>
      have hnone : ∀ p ∈ props, ¬ (p.2.1 && ((lookupT ts ("@" ++ p.1)).isNone
          || Compile.actualRoot ts (f + 1) [] ("@" ++ p.1) != some .str)) = true := by
        intro p hp
        exact List.find?_eq_none.1 hfind p hp
      simp only [Option.map_none]
      unfold CK.addPropsErr
      simp only [addProps_cs]
      cases add with
      | type n =>
        have hb : nameOK n := by simpa using hadd
        have := envRelN_none hE n hb
        cases hl : (lookupT ts n).isNone
        · rw [hl] at this
          have hn : ¬ lookupT ts n = none := by
            intro e; rw [e] at hl; simp at hl
          have ih' := ih rfl hnone (fun m hm => by cases hm; exact hl)
          simp [CK.orElse, this, CK.isBranch, ih', hn]
        · rw [hl] at this
          have hn : lookupT ts n = none := by simpa using hl
          simp [CK.orElse, this, CK.catchLex, lexBranch, panicOf, hn]
      | absent => have ih' := ih rfl hnone (fun m hm => by cases hm); simp [CK.orElse, CK.isBranch, ih']
      | notAllowed => have ih' := ih rfl hnone (fun m hm => by cases hm); simp [CK.orElse, CK.isBranch, ih']
      | any => have ih' := ih rfl hnone (fun m hm => by cases hm); simp [CK.orElse, CK.isBranch, ih']
      | obj => have ih' := ih rfl hnone (fun m hm => by cases hm); simp [CK.orElse, CK.isBranch, ih']
      | arr => have ih' := ih rfl hnone (fun m hm => by cases hm); simp [CK.orElse, CK.isBranch, ih']
      | soft ks => have ih' := ih rfl hnone (fun m hm => by cases hm); simp [CK.orElse, CK.isBranch, ih']

end

end BridgeCK
