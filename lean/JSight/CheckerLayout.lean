import JSight.CheckerTraverse
/-!
# C04 — in a text the offsets of the nodes increase in pre-order

A schema text lays a container out as its opening byte, then — per child — some bytes (blanks, line breaks, the comma,
the key and the colon, annotations and comments of earlier lines) followed by the child's own text, then the rest up to
the closing byte. Whatever those gaps are, the `Begin()` offsets of the nodes (`[` / `{` of a container, first byte of a
literal) strictly increase along `preorder`: "first in the checker's traversal" is "first in the text".
-/
namespace CK

mutual
/-- a value with its layout: a literal token of `1 + extra` bytes; a container: the opening byte, per child a gap and the
child, `tail` bytes up to and including the closing byte -/
inductive LT
  | leaf (info : Info) (extra : Nat)
  | branch (info : Info) (kids : LKids) (tail : Nat)
inductive LKids
  | nil
  | cons (gap : Nat) (t : LT) (rest : LKids)
end

mutual
/-- number of bytes of the value's text -/
def LT.size : LT → Nat
  | .leaf _ extra => 1 + extra
  | .branch _ kids tail => 1 + kids.size + tail
def LKids.size : LKids → Nat
  | .nil => 0
  | .cons g t rest => g + t.size + rest.size
end

def Info.at (i : Info) (o : Nat) : Info := { i with lex := { i.lex with begin := o } }

mutual
/-- the node tree with the offsets the layout gives when the value starts at offset `o` -/
def LT.place (o : Nat) : LT → Node
  | .leaf info _ => .mk (info.at o) []
  | .branch info kids _ => .mk (info.at o) (kids.place (o + 1))
def LKids.place (o : Nat) : LKids → List Node
  | .nil => []
  | .cons g t rest => t.place (o + g) :: rest.place (o + g + t.size)
end

def offs (l : List Hd) : List Nat := l.map fun h => h.info.lex.begin

theorem offs_append (a b : List Hd) : offs (a ++ b) = offs a ++ offs b := by simp [offs]

/-- strictly increasing and inside `[lo, hi)` -/
def IncIn (lo hi : Nat) (l : List Nat) : Prop := l.Pairwise (· < ·) ∧ ∀ x ∈ l, lo ≤ x ∧ x < hi

theorem IncIn.nil (lo hi : Nat) : IncIn lo hi [] := ⟨List.Pairwise.nil, by simp⟩

theorem IncIn.mono {lo hi lo' hi' : Nat} {l : List Nat} (h : IncIn lo hi l) (h1 : lo' ≤ lo) (h2 : hi ≤ hi') :
    IncIn lo' hi' l :=
  ⟨h.1, fun x hx => ⟨Nat.le_trans h1 (h.2 x hx).1, Nat.lt_of_lt_of_le (h.2 x hx).2 h2⟩⟩

theorem IncIn.append {lo mid hi : Nat} {a b : List Nat} (ha : IncIn lo mid a) (hb : IncIn mid hi b) (hm : lo ≤ mid)
    (hh : mid ≤ hi) : IncIn lo hi (a ++ b) := by
  refine ⟨List.pairwise_append.2 ⟨ha.1, hb.1, ?_⟩, ?_⟩
  · intro x hx y hy
    exact Nat.lt_of_lt_of_le (ha.2 x hx).2 (hb.2 y hy).1
  · intro x hx
    rcases List.mem_append.1 hx with h | h
    · exact ⟨(ha.2 x h).1, Nat.lt_of_lt_of_le (ha.2 x h).2 hh⟩
    · exact ⟨Nat.le_trans hm (hb.2 x h).1, (hb.2 x h).2⟩

theorem IncIn.cons {lo hi : Nat} {l : List Nat} (hl : IncIn (lo + 1) hi l) (h : lo < hi) : IncIn lo hi (lo :: l) := by
  refine ⟨List.pairwise_cons.2 ⟨fun y hy => (hl.2 y hy).1, hl.1⟩, ?_⟩
  intro x hx
  rcases List.mem_cons.1 hx with rfl | hx
  · exact ⟨Nat.le_refl _, h⟩
  · exact ⟨Nat.le_of_succ_le (hl.2 x hx).1, (hl.2 x hx).2⟩

mutual
theorem place_incIn : ∀ (t : LT) (o : Nat), IncIn o (o + t.size) (offs (preorder (t.place o)))
  | .leaf info extra, o => by
    simp only [LT.place, preorder, LT.size]
    have : offs [(⟨info.at o, ([] : List Node).length⟩ : Hd)] = [o] := rfl
    cases hb : isBranch (info.at o).nk <;> simp only [hb, if_true, if_false, Bool.false_eq_true, preorderL, this]
    all_goals exact IncIn.cons (IncIn.nil _ _) (by omega)
  | .branch info kids tail, o => by
    simp only [LT.place, preorder, LT.size]
    have hk := placeKids_incIn kids (o + 1)
    cases hb : isBranch (info.at o).nk with
    | false =>
      simp only [Bool.false_eq_true, if_false]
      exact IncIn.cons (l := []) (IncIn.nil _ _) (by omega)
    | true =>
      simp only [if_true]
      have : offs ((⟨info.at o, (kids.place (o + 1)).length⟩ : Hd) :: preorderL (kids.place (o + 1)))
          = o :: offs (preorderL (kids.place (o + 1))) := rfl
      rw [this]
      exact IncIn.cons (hk.mono (Nat.le_refl _) (by omega)) (by omega)
theorem placeKids_incIn : ∀ (ks : LKids) (o : Nat), IncIn o (o + ks.size) (offs (preorderL (ks.place o)))
  | .nil, o => by simpa [LKids.place, preorderL, offs] using IncIn.nil o (o + LKids.nil.size)
  | .cons g t rest, o => by
    simp only [LKids.place, preorderL, offs_append, LKids.size]
    have h1 := place_incIn t (o + g)
    have h2 := placeKids_incIn rest (o + g + t.size)
    exact IncIn.append (h1.mono (by omega) (Nat.le_refl _)) (h2.mono (Nat.le_refl _) (by omega)) (by omega) (by omega)
end

/-- whatever the layout, the offsets of the nodes strictly increase in pre-order -/
theorem place_sorted (t : LT) (o : Nat) :
    ((preorder (t.place o)).map fun h => h.info.lex.begin).Pairwise (· < ·) := (place_incIn t o).1

end CK
