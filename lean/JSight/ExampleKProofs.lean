import JSight.DfsK
import JSight.ValidateKProofs
import JSight.ExampleK
import JSight.ExampleKClass
import JSight.ExampleRefs
/-!
C15, self-validation beyond the reference-only, no-cut-off case — on the schema type of `ValidateK`
(literals with arbitrary rule semantics `litOK` — this covers `or` / `enum` / `const` / `{type: …}` rules on a scalar
example: `Example()` emits the example's own token and `Check` has validated it —, `any`, arrays, objects with
required / optional properties, key shortcuts `@K: v` and additionalProperties, references `@a | @b` incl. nullable
ones, arbitrary — also recursive — type tables).

`exDoc` replays the builder and yields the document it emits, or `none` as soon as the run leaves the class for which
self-validation is claimed:

* a recursion cut-off omits the child of a REQUIRED property (known findings K-C15-reqcut / K-C15-or);
* a cut-off omits an array element that is followed by an emitted element (K-C15-arraycut) — an omitted SUFFIX of
  the elements is harmless and stays inside;
* a cut-off omits the value of a key-shortcut property;
* a key shortcut whose type is not directly a literal (alias, or-shortcut: K-C15-keyalias), or whose example key is
  also a literal key of the object (the emitted object would have the key twice: K-C15-keyclash);
* unknown type, empty name list (builder error).

Inside the class — in particular when every cut-off happens at an OPTIONAL property — the emitted document validates:
`self_valid_ext`.
-/
namespace VK
open VN (J)
variable {L D : Type}

def keysNodup : List (String × Bool × S L) → Bool
  | [] => true
  | (k, _, _) :: ps => !(ps.any (fun p => p.1 == k)) && keysNodup ps

mutual
/-- what `Check` establishes on one schema text: every literal passes its own rules, keys and key shortcuts of an
object are unique -/
def checkedS (litOK : L → D → Bool) (ex : L → D) : S L → Bool
  | .lit l => litOK l (ex l)
  | .any => true
  | .arr items => checkedItems litOK ex items
  | .obj props shorts _ =>
    checkedProps litOK ex props && checkedProps litOK ex shorts && keysNodup props && keysNodup shorts
  | .ref _ _ => true
def checkedItems (litOK : L → D → Bool) (ex : L → D) : List (S L) → Bool
  | [] => true
  | s :: ss => checkedS litOK ex s && checkedItems litOK ex ss
def checkedProps (litOK : L → D → Bool) (ex : L → D) : List (String × Bool × S L) → Bool
  | [] => true
  | (_, _, s) :: ps => checkedS litOK ex s && checkedProps litOK ex ps
end

def CheckedEnv (env : Env L) (litOK : L → D → Bool) (ex : L → D) : Prop :=
  ∀ n t, lookupT env n = some t → checkedS litOK ex t = true

/-- a key type that is a string literal type accepts a key exactly when its literal rules accept the string -/
def KeyLink (env : Env L) (litOK : L → D → Bool) (keyOK : String → String → Bool) (ex : L → D) (keyStr : D → String) : Prop :=
  ∀ K l, lookupT env K = some (.lit l) → keyOK K (keyStr (ex l)) = litOK l (ex l)

/-! ### list facts -/

theorem childAt_append (pre : List (S L)) (s : S L) (ss : List (S L)) :
    childAt (pre ++ s :: ss) pre.length = some s := by
  unfold childAt
  cases h : pre ++ s :: ss with
  | nil => simp at h
  | cons a l =>
    rw [← h]
    have : min pre.length ((pre ++ s :: ss).length - 1) = pre.length := by simp
    rw [this]; simp

theorem lookup_of_nodup (props : List (String × Bool × S L)) (h : keysNodup props = true)
    (k : String) (r : Bool) (s : S L) (hm : (k, r, s) ∈ props) : lookup props k = some s := by
  induction props with
  | nil => simp at hm
  | cons p ps ih =>
    obtain ⟨k', r', s'⟩ := p
    have h' : (ps.any (fun p => p.1 == k')) = false ∧ keysNodup ps = true := by
      simpa [keysNodup] using h
    replace h := h'
    simp only [List.mem_cons, Prod.mk.injEq] at hm
    rcases hm with ⟨hk, _, hs⟩ | hm
    · subst hk; subst hs
      simp [lookup, List.find?]
    · have hne : (k' == k) = false := by
        cases hkk : (k' == k) with
        | false => rfl
        | true =>
          have : k' = k := by simpa using hkk
          subst this
          have : ps.any (fun p => p.1 == k') = true := List.any_eq_true.2 ⟨(k', r, s), hm, by simp⟩
          rw [this] at h
          exact absurd h.1 (by simp)
      have := ih h.2 hm
      simp only [lookup, List.find?, hne] at this ⊢
      exact this

theorem lookup_none (props : List (String × Bool × S L)) (k : String) (h : (props.map (·.1)).contains k = false) :
    lookup props k = none := by
  induction props with
  | nil => rfl
  | cons p ps ih =>
    simp only [List.map_cons, List.contains_cons, Bool.or_eq_false_iff] at h
    have hne : (p.1 == k) = false := by
      have := h.1
      rw [Bool.eq_false_iff] at this ⊢
      intro e; apply this
      have e' : p.1 = k := eq_of_beq e
      rw [e']; exact beq_self_eq_true k
    have := ih h.2
    simp only [lookup, List.find?, hne] at this ⊢
    exact this

theorem alts_nonref (env : Env L) (s : S L) (h : isRef s = false) : alts env s = [s] := by
  unfold alts; rw [build_nonref env _ s h]; rfl

theorem alts_of_first (env : Env L) (n : String) (ns : List String) (nul : Option L) (t : S L)
    (hl : lookupT env n = some t) (a : S L) (ha : a ∈ alts env t) : a ∈ alts env (.ref (n :: ns) nul) :=
  alts_complete env (n :: ns) nul n (by simp) a (reachS_of_name env n t hl a ((alts_iff_reach env t a).1 ha))

theorem litOf_some {o : Option (S L)} {l : L} (h : litOf o = some l) : o = some (.lit l) := by
  unfold litOf at h
  split at h
  · simp only [Option.some.injEq] at h; rw [h]
  · exact absurd h (by simp)

/-! ### requirements bookkeeping of `shapeMembers` -/

/-- the keys still required after the members with keys `ks` have been read (no shortcut involved) -/
def dropKeys : List String → List String → List String
  | [], req => req
  | k :: ks, req => dropKeys ks (req.filter (· != k))

theorem mem_dropKeys {ks req : List String} {r : String} (h : r ∈ dropKeys ks req) : r ∈ req ∧ r ∉ ks := by
  induction ks generalizing req with
  | nil => exact ⟨h, by simp⟩
  | cons k ks ih =>
    have := ih h
    obtain ⟨h1, h2⟩ := this
    have hm := List.mem_filter.1 h1
    refine ⟨hm.1, ?_⟩
    intro hmem
    rcases List.mem_cons.1 hmem with e | e
    · subst e; simp at hm
    · exact h2 e

section selfvalid
variable (env : Env L) (litOK : L → D → Bool) (keyOK : String → String → Bool) (ex : L → D) (keyStr : D → String)
  (strict : Bool)

/-- every required key of the properties is among the emitted members -/
theorem exProps_required (fuel : Nat) (proc : String → Nat) :
    (ps : List (String × Bool × S L)) → ∀ ms, exProps env ex keyStr strict fuel proc ps = some ms →
      ∀ k ∈ requiredKeys ps, k ∈ ms.map (·.1)
  | [], ms, h => by simp [requiredKeys]
  | (k, r, s) :: ps, ms, h => by
    intro k' hk'
    simp only [exProps] at h
    cases h1 : exDoc env ex keyStr strict fuel proc s with
    | none => rw [h1] at h; simp at h
    | some o =>
      cases h2 : exProps env ex keyStr strict fuel proc ps with
      | none => rw [h1, h2] at h; cases o <;> simp at h
      | some xs =>
        have ih := exProps_required fuel proc ps xs h2
        rw [h1, h2] at h
        have hk'' : (r = true ∧ k' = k) ∨ k' ∈ requiredKeys ps := by
          simp only [requiredKeys, List.filter_cons] at hk'
          by_cases hr : r = true
          · simp only [hr, if_true, List.map_cons, List.mem_cons] at hk'
            rcases hk' with e | e
            · exact Or.inl ⟨hr, e⟩
            · exact Or.inr (by simpa [requiredKeys] using e)
          · simp only [hr, Bool.false_eq_true, if_false] at hk'
            exact Or.inr (by simpa [requiredKeys] using hk')
        cases o with
        | none =>
          by_cases hr : r = true
          · simp [hr] at h
          · simp [hr] at h; subst h
            rcases hk'' with ⟨hr', _⟩ | e
            · exact absurd hr' hr
            · exact ih k' e
        | some x =>
          simp at h; subst h
          rcases hk'' with ⟨_, e⟩ | e
          · simp [e]
          · simp only [List.map_cons, List.mem_cons]; exact Or.inr (ih k' e)

/-- reading plain members: each finds its property; only the requirement list changes -/
theorem shape_plain (props shorts : List (String × Bool × S L)) (add : AddMode L) :
    ∀ (pm : List (String × J D)) (rest : List (String × J D)) (req used : List String),
      (∀ m ∈ pm, ∃ s, lookup props m.1 = some s ∧ (alts env s).any (fun a => shapeA env litOK keyOK a m.2) = true) →
      shapeMembers env litOK keyOK props shorts add req used (pm ++ rest)
        = shapeMembers env litOK keyOK props shorts add (dropKeys (pm.map (·.1)) req) used rest
  | [], rest, req, used, _ => rfl
  | (k, v) :: pm, rest, req, used, h => by
    obtain ⟨s, hl, hs⟩ := h (k, v) (by simp)
    simp only [List.cons_append, shapeMembers, hl, hs, Bool.true_and, List.map_cons, dropKeys]
    exact shape_plain props shorts add pm rest _ used (fun m hm => h m (by simp [hm]))

theorem names_not_mem (pre : List (String × Bool × S L)) (K : String) (rq : Bool) (s : S L)
    (ss : List (String × Bool × S L)) (hn : keysNodup (pre ++ (K, rq, s) :: ss) = true) : K ∉ pre.map (·.1) := by
  induction pre with
  | nil => simp
  | cons p ps ih =>
    obtain ⟨k', r', s'⟩ := p
    have h' : ((ps ++ (K, rq, s) :: ss).any (fun p => p.1 == k')) = false ∧ keysNodup (ps ++ (K, rq, s) :: ss) = true := by
      simpa [keysNodup] using hn
    intro hmem
    simp only [List.map_cons, List.mem_cons] at hmem
    rcases hmem with e | e
    · subst e
      have : (ps ++ (K, rq, s) :: ss).any (fun p => p.1 == K) = true :=
        List.any_eq_true.2 ⟨(K, rq, s), by simp, by simp⟩
      rw [this] at h'
      exact absurd h'.1 (by simp)
    · exact ih h'.2 e

theorem find_short (pre : List (String × Bool × S L)) (K : String) (rq : Bool) (s : S L) (ss : List (String × Bool × S L))
    (kk : String) (hn : keysNodup (pre ++ (K, rq, s) :: ss) = true) (hk : keyOK K kk = true) :
    pickShort keyOK (pre ++ (K, rq, s) :: ss) (pre.map (·.1)).reverse kk = some (K, rq, s) := by
  unfold pickShort
  rw [List.find?_append]
  have hpre : pre.find? (fun sc => !(pre.map (·.1)).reverse.contains sc.1 && keyOK sc.1 kk) = none := by
    rw [List.find?_eq_none]
    intro sc hsc
    have : (pre.map (·.1)).reverse.contains sc.1 = true :=
      List.contains_iff_mem.2 (List.mem_reverse.2 (List.mem_map.2 ⟨sc, hsc, rfl⟩))
    rw [this]
    exact fun h => absurd h (by simp)
  have hK : (pre.map (·.1)).reverse.contains K = false := by
    rw [Bool.eq_false_iff]
    intro hc
    exact names_not_mem pre K rq s ss hn (List.mem_reverse.1 (List.contains_iff_mem.1 hc))
  rw [hpre, List.find?_cons]
  simp only [hK, hk, Bool.not_false, Bool.and_self, Option.none_or]

section main
variable (henv : CheckedEnv env litOK ex) (hkey : KeyLink env litOK keyOK ex keyStr)
include henv hkey
set_option linter.unusedSectionVars false

mutual
theorem ex_shape : (fuel : Nat) → (proc : String → Nat) → (s : S L) → checkedS litOK ex s = true →
    ∀ d, exDoc env ex keyStr strict fuel proc s = some (some d) → (alts env s).any (fun a => shapeA env litOK keyOK a d) = true
  | fuel, proc, .lit l, hc => by
    intro d h; simp [exDoc] at h; subst h
    rw [alts_nonref env _ rfl]
    simpa [shapeA, checkedS] using hc
  | fuel, proc, .any, _ => by
    intro d h
    rw [alts_nonref env _ rfl]; simp [shapeA]
  | fuel, proc, .arr items, hc => by
    intro d h
    simp only [exDoc] at h
    cases hk : exItems env ex keyStr strict fuel proc items with
    | none => rw [hk] at h; simp at h
    | some xs =>
      rw [hk] at h; simp at h; subst h
      have := ex_items fuel proc [] items (by simpa [checkedS] using hc) xs hk
      rw [alts_nonref env _ rfl]
      simpa [shapeA] using this
  | fuel, proc, .obj props shorts add, hc => by
    intro d h
    simp only [exDoc] at h
    cases hp : exProps env ex keyStr strict fuel proc props with
    | none => rw [hp] at h; simp at h
    | some pm =>
      cases hs : exShorts env ex keyStr strict fuel proc (props.map (·.1)) shorts with
      | none => rw [hp, hs] at h; simp at h
      | some sm =>
        rw [hp, hs] at h; simp at h; subst h
        simp only [checkedS, Bool.and_eq_true] at hc
        obtain ⟨⟨⟨hcp, hcs⟩, hnp⟩, hns⟩ := hc
        have h1 := ex_props fuel proc props [] props rfl hnp hcp pm hp
        rw [alts_nonref env _ rfl]
        simp only [List.any_cons, List.any_nil, Bool.or_false, shapeA]
        rw [shape_plain env litOK keyOK props shorts add pm sm _ [] h1]
        refine ex_shorts fuel proc props shorts add [] shorts rfl hns hcs sm hs _ ?_
        intro r hr
        obtain ⟨hr0, hrk⟩ := mem_dropKeys hr
        rcases List.mem_append.1 hr0 with e | e
        · exact absurd (exProps_required env ex keyStr strict fuel proc props pm hp r e) hrk
        · obtain ⟨k, hk, rfl⟩ := List.mem_map.1 e
          simp only [requiredKeys, List.mem_map, List.mem_filter] at hk
          obtain ⟨sc, ⟨hsc, _⟩, rfl⟩ := hk
          exact ⟨sc, hsc, rfl⟩
  | 0, proc, .ref _ _, _ => by intro d h; simp [exDoc] at h
  | fuel + 1, proc, .ref [] _, _ => by intro d h; simp [exDoc] at h
  | fuel + 1, proc, .ref (n :: ns) nul, _ => by
    intro d h
    simp only [exDoc] at h
    split at h
    · simp at h
    · cases hl : lookupT env n with
      | none => rw [hl] at h; simp at h
      | some t =>
        rw [hl] at h
        have ih := ex_shape fuel (bump proc n) t (henv n t hl) d h
        obtain ⟨a, ha, hs⟩ := List.any_eq_true.1 ih
        exact List.any_eq_true.2 ⟨a, alts_of_first env n ns nul t hl a ha, hs⟩
termination_by fuel _ s _ => (fuel, sizeOf s)
theorem ex_items : (fuel : Nat) → (proc : String → Nat) → (pre ss : List (S L)) → checkedItems litOK ex ss = true →
    ∀ xs, exItems env ex keyStr strict fuel proc ss = some xs → shapeItems env litOK keyOK (pre ++ ss) pre.length xs = true
  | fuel, proc, pre, [], _ => by intro xs h; simp [exItems] at h; subst h; simp [shapeItems]
  | fuel, proc, pre, s :: ss, hc => by
    intro xs h
    simp only [checkedItems, Bool.and_eq_true] at hc
    simp only [exItems] at h
    cases h1 : exDoc env ex keyStr strict fuel proc s with
    | none => rw [h1] at h; simp at h
    | some o =>
      cases h2 : exItems env ex keyStr strict fuel proc ss with
      | none => rw [h1, h2] at h; cases o <;> simp at h
      | some rest =>
        rw [h1, h2] at h
        cases o with
        | none =>
          by_cases he : (!strict && rest.isEmpty) = true
          · simp [he] at h; subst h; simp [shapeItems]
          · simp [he] at h
        | some x =>
          simp at h; subst h
          have e1 := ex_shape fuel proc s hc.1 x h1
          have e2 := ex_items fuel proc (pre ++ [s]) ss hc.2 rest h2
          simp only [shapeItems, childAt_append, e1, Bool.true_and]
          simpa [List.append_assoc] using e2
termination_by fuel _ _ ss _ => (fuel, sizeOf ss)
theorem ex_props : (fuel : Nat) → (proc : String → Nat) → (props pre ps : List (String × Bool × S L)) →
    props = pre ++ ps → keysNodup props = true → checkedProps litOK ex ps = true →
    ∀ pm, exProps env ex keyStr strict fuel proc ps = some pm →
      ∀ m ∈ pm, ∃ s, lookup props m.1 = some s ∧ (alts env s).any (fun a => shapeA env litOK keyOK a m.2) = true
  | fuel, proc, props, pre, [], _, _, _ => by intro pm h; simp [exProps] at h; subst h; simp
  | fuel, proc, props, pre, (k, r, s) :: ps, hp, hn, hc => by
    intro pm h
    simp only [checkedProps, Bool.and_eq_true] at hc
    simp only [exProps] at h
    cases h1 : exDoc env ex keyStr strict fuel proc s with
    | none => rw [h1] at h; simp at h
    | some o =>
      cases h2 : exProps env ex keyStr strict fuel proc ps with
      | none => rw [h1, h2] at h; cases o <;> simp at h
      | some rest =>
        have e2 := ex_props fuel proc props (pre ++ [(k, r, s)]) ps (by rw [hp]; simp) hn hc.2 rest h2
        rw [h1, h2] at h
        cases o with
        | none =>
          by_cases hr : r = true
          · simp [hr] at h
          · simp [hr] at h; subst h; exact e2
        | some x =>
          simp at h; subst h
          have hmem : (k, r, s) ∈ props := by rw [hp]; simp
          have hl := lookup_of_nodup props hn k r s hmem
          have e1 := ex_shape fuel proc s hc.1 x h1
          intro m hm
          rcases List.mem_cons.1 hm with rfl | hm
          · exact ⟨s, hl, e1⟩
          · exact e2 m hm
termination_by fuel _ _ _ ps _ _ _ => (fuel, sizeOf ps)
theorem ex_shorts : (fuel : Nat) → (proc : String → Nat) → (props shorts : List (String × Bool × S L)) → (add : AddMode L) →
    (pre ss : List (String × Bool × S L)) → shorts = pre ++ ss → keysNodup shorts = true →
    checkedProps litOK ex ss = true →
    ∀ sm, exShorts env ex keyStr strict fuel proc (props.map (·.1)) ss = some sm →
      ∀ req, (∀ r ∈ req, ∃ sc ∈ ss, r = "@" ++ sc.1) →
      shapeMembers env litOK keyOK props shorts add req (pre.map (·.1)).reverse sm = true
  | fuel, proc, props, shorts, add, pre, [], _, _, _ => by
    intro sm h req hreq
    simp [exShorts] at h; subst h
    have : req = [] := by
      cases req with
      | nil => rfl
      | cons r rs => obtain ⟨sc, hsc, _⟩ := hreq r (by simp); simp at hsc
    subst this
    simp [shapeMembers]
  | fuel, proc, props, shorts, add, pre, (K, rq, s) :: ss, hp, hn, hc => by
    intro sm h req hreq
    simp only [checkedProps, Bool.and_eq_true] at hc
    simp only [exShorts] at h
    cases hl0 : litOf (lookupT env K) with
    | none => rw [hl0] at h; simp at h
    | some l =>
      rw [hl0] at h
      have hl := litOf_some hl0
      simp only at h
      by_cases hpk0 : fuel = 0 ∨ (props.map (·.1)).contains (keyStr (ex l)) = true
      · rw [if_pos hpk0] at h; exact absurd h (by simp)
      · rw [if_neg hpk0] at h
        have hpk : ¬ (props.map (·.1)).contains (keyStr (ex l)) = true := fun e => hpk0 (Or.inr e)
        cases h1 : exDoc env ex keyStr strict fuel proc s with
        | none => rw [h1] at h; simp at h
        | some o =>
          cases h2 : exShorts env ex keyStr strict fuel proc (props.map (·.1)) ss with
          | none => rw [h1, h2] at h; cases o <;> simp at h
          | some rest =>
            rw [h1, h2] at h
            cases o with
            | none => simp at h
            | some x =>
              simp at h; subst h
              have hnone := lookup_none props (keyStr (ex l)) (by simpa using hpk)
              have hlit : litOK l (ex l) = true := by simpa [checkedS] using henv K (.lit l) hl
              have hk : keyOK K (keyStr (ex l)) = true := by rw [hkey K l hl]; exact hlit
              have hpick := find_short keyOK pre K rq s ss (keyStr (ex l)) (by rw [← hp]; exact hn) hk
              rw [← hp] at hpick
              have e1 := ex_shape fuel proc s hc.1 x h1
              have e2 := ex_shorts fuel proc props shorts add (pre ++ [(K, rq, s)]) ss (by rw [hp]; simp) hn hc.2 rest h2
                ((req.filter (· != keyStr (ex l))).filter (· != "@" ++ K)) (by
                  intro r hr
                  have hr1 := List.mem_filter.1 hr
                  have hr2 := List.mem_filter.1 hr1.1
                  obtain ⟨sc, hsc, rfl⟩ := hreq r hr2.1
                  rcases List.mem_cons.1 hsc with e | e
                  · subst e; simp at hr1
                  · exact ⟨sc, e, rfl⟩)
              simp only [shapeMembers, hnone, hpick, e1, Bool.true_and]
              simpa using e2
termination_by fuel _ _ _ _ _ ss _ _ _ => (fuel, sizeOf ss)
end

/-- **C15, extended**: whenever the builder's run stays inside the class (`exDoc … = some (some d)`), `Validate`
accepts what `Example()` emitted -/
theorem self_valid_ext (fuel : Nat) (proc : String → Nat) (s : S L) (hc : checkedS litOK ex s = true)
    (d : J D) (h : exDoc env ex keyStr strict fuel proc s = some (some d)) : validateT env litOK keyOK s d = true := by
  rw [C03_key_shortcuts]
  exact ex_shape env litOK keyOK ex keyStr strict henv hkey fuel proc s hc d h

end main

end selfvalid

/-! ### the builder model `EXK.build` emits exactly that document -/
section bridge
open JsonScan (Cls JA)
variable {L D : Type} (tok : D → List Cls) (keyTok : String → List Cls)

mutual
def ofK (ex : L → D) : S L → EXK.N
  | .lit l => .lit (tok (ex l))
  | .any => .arr false []
  | .arr items => .arr false (ofKItems ex items)
  | .obj props shorts _ => .obj false (ofKProps ex props ++ ofKShorts ex shorts)
  | .ref [] _ => .ref ""
  | .ref (n :: _) _ => .ref n
def ofKItems (ex : L → D) : List (S L) → List EXK.N
  | [] => []
  | s :: ss => ofK ex s :: ofKItems ex ss
def ofKProps (ex : L → D) : List (String × Bool × S L) → List (EXK.Key × EXK.N)
  | [] => []
  | (k, _, s) :: ps => (.plain (keyTok k), ofK ex s) :: ofKProps ex ps
def ofKShorts (ex : L → D) : List (String × Bool × S L) → List (EXK.Key × EXK.N)
  | [] => []
  | (K, _, s) :: ps => (.short K, ofK ex s) :: ofKShorts ex ps
end

def tsOfK (ex : L → D) (env : Env L) : EXK.Types := env.map fun p => (p.1, ofK tok keyTok ex p.2)

theorem lookup_tsOfK (ex : L → D) (env : Env L) (n : String) :
    EXK.lookupT (tsOfK tok keyTok ex env) n = (lookupT env n).map (ofK tok keyTok ex) := by
  induction env with
  | nil => rfl
  | cons p ps ih =>
    simp only [tsOfK, List.map_cons, EXK.lookupT, lookupT, List.find?] at ih ⊢
    cases h : (p.1 == n) with
    | true => simp
    | false => simpa using ih

/-- the source token of a key that is the example of a string type is that example's token -/
def KeyTokLink (env : Env L) (ex : L → D) (keyStr : D → String) : Prop :=
  ∀ K l, lookupT env K = some (.lit l) → keyTok (keyStr (ex l)) = tok (ex l)

def memText (m : List Cls × JA) : List Cls := m.1 ++ .colon :: m.2.render

theorem render_arr (vs : List JA) :
    (JA.arr [] (vs.map fun v => (([] : List Cls), v, ([] : List Cls)))).render
      = .lbrack :: (EX.joinC (vs.map JA.render) ++ [.rbrack]) := by
  simp [JA.render, EX.renderItems_compact]

theorem render_obj (ms : List (List Cls × JA)) :
    (JA.obj [] (ms.map fun m => (([] : List Cls), m.1, ([] : List Cls), ([] : List Cls), m.2, ([] : List Cls)))).render
      = .lbrace :: (EX.joinC (ms.map memText) ++ [.rbrace]) := by
  simp only [JA.render, EX.renderMembers_compact, List.nil_append]
  rfl

theorem jaMembersN_append (a b : List (String × J D)) :
    VR.jaMembersN tok keyTok (a ++ b) = VR.jaMembersN tok keyTok a ++ VR.jaMembersN tok keyTok b := by
  induction a with
  | nil => rfl
  | cons m a ih => obtain ⟨k, v⟩ := m; simp [VR.jaMembersN, ih]

variable (env : Env L) (ex : L → D) (keyStr : D → String) (strict : Bool) (hkt : KeyTokLink tok keyTok env ex keyStr)
include hkt
set_option linter.unusedSectionVars false

mutual
theorem build_ofK : (fuel : Nat) → (proc : String → Nat) → (s : S L) → ∀ od, exDoc env ex keyStr strict fuel proc s = some od →
    EXK.build (tsOfK tok keyTok ex env) fuel proc (ofK tok keyTok ex s)
      = some (od.map fun d => (VR.jaOfN tok keyTok d).render)
  | fuel, proc, .lit l => by
    intro od h; simp [exDoc] at h; subst h; simp [ofK, EXK.build, VR.jaOfN, JA.render]
  | fuel, proc, .any => by
    intro od h; simp [exDoc] at h; subst h
    simp [ofK, EXK.build, EXK.buildKids, VR.jaOfN, VR.jaItemsN, JA.render, JsonScan.renderItems, EX.joinC]
  | fuel, proc, .arr items => by
    intro od h
    simp only [exDoc] at h
    cases hk : exItems env ex keyStr strict fuel proc items with
    | none => rw [hk] at h; simp at h
    | some xs =>
      rw [hk] at h; simp at h; subst h
      simp only [ofK, EXK.build, Bool.false_eq_true, if_false, buildKids_ofK fuel proc items xs hk, Option.map_some,
        VR.jaOfN, render_arr]
  | fuel, proc, .obj props shorts add => by
    intro od h
    simp only [exDoc] at h
    cases hp : exProps env ex keyStr strict fuel proc props with
    | none => rw [hp] at h; simp at h
    | some pm =>
      cases hs : exShorts env ex keyStr strict fuel proc (props.map (·.1)) shorts with
      | none => rw [hp, hs] at h; simp at h
      | some sm =>
        rw [hp, hs] at h; simp at h; subst h
        have e2 := buildShorts_ofK fuel proc (props.map (·.1)) shorts sm hs
        have e1 := buildProps_ofK fuel proc props pm hp (ofKShorts tok keyTok ex shorts) _ e2
        simp only [ofK, EXK.build, Bool.false_eq_true, if_false, e1, Option.map_some, VR.jaOfN, render_obj]
        simp only [jaMembersN_append, List.map_append]
  | 0, proc, .ref _ _ => by intro od h; simp [exDoc] at h
  | fuel + 1, proc, .ref [] _ => by intro od h; simp [exDoc] at h
  | fuel + 1, proc, .ref (n :: ns) nul => by
    intro od h
    simp only [exDoc] at h
    by_cases hp : proc n > 1
    · simp only [hp, if_true] at h
      simp only [Option.some.injEq] at h; subst h
      simp [ofK, EXK.build, hp]
    · simp only [hp, if_false] at h
      cases hl : lookupT env n with
      | none => rw [hl] at h; simp at h
      | some t =>
        rw [hl] at h
        have ih := build_ofK fuel (bump proc n) t od h
        simp only [ofK, EXK.build, hp, if_false]
        rw [lookup_tsOfK, hl]
        exact ih
termination_by fuel _ s => (fuel, sizeOf s)
theorem buildKids_ofK : (fuel : Nat) → (proc : String → Nat) → (ss : List (S L)) → ∀ xs,
    exItems env ex keyStr strict fuel proc ss = some xs →
    EXK.buildKids (tsOfK tok keyTok ex env) fuel proc (ofKItems tok keyTok ex ss)
      = some ((VR.jaItemsN tok keyTok xs).map JA.render)
  | fuel, proc, [] => by intro xs h; simp [exItems] at h; subst h; simp [ofKItems, EXK.buildKids, VR.jaItemsN]
  | fuel, proc, s :: ss => by
    intro xs h
    simp only [exItems] at h
    cases h1 : exDoc env ex keyStr strict fuel proc s with
    | none => rw [h1] at h; simp at h
    | some o =>
      cases h2 : exItems env ex keyStr strict fuel proc ss with
      | none => rw [h1, h2] at h; cases o <;> simp at h
      | some rest =>
        rw [h1, h2] at h
        have e1 := build_ofK fuel proc s o h1
        have e2 := buildKids_ofK fuel proc ss rest h2
        cases o with
        | none =>
          by_cases he : (!strict && rest.isEmpty) = true
          · simp [he] at h; subst h
            have : rest = [] := by
              have := (Bool.and_eq_true _ _ ▸ he : _ ∧ _).2
              simpa using this
            subst this
            simp only [ofKItems, EXK.buildKids, e1, e2, Option.map_none, VR.jaItemsN, List.map_nil]
          · simp [he] at h
        | some x =>
          simp at h; subst h
          simp only [ofKItems, EXK.buildKids, e1, e2, Option.map_some, VR.jaItemsN, List.map_cons]
termination_by fuel _ ss => (fuel, sizeOf ss)
theorem buildProps_ofK : (fuel : Nat) → (proc : String → Nat) → (ps : List (String × Bool × S L)) → ∀ pm,
    exProps env ex keyStr strict fuel proc ps = some pm →
    ∀ (tail : List (EXK.Key × EXK.N)) (tp : List (List Cls)),
      EXK.buildProps (tsOfK tok keyTok ex env) fuel proc tail = some tp →
      EXK.buildProps (tsOfK tok keyTok ex env) fuel proc (ofKProps tok keyTok ex ps ++ tail)
        = some ((VR.jaMembersN tok keyTok pm).map memText ++ tp)
  | fuel, proc, [] => by
    intro pm h tail tp ht; simp [exProps] at h; subst h; simpa [ofKProps, VR.jaMembersN] using ht
  | fuel, proc, (k, r, s) :: ps => by
    intro pm h tail tp ht
    simp only [exProps] at h
    cases h1 : exDoc env ex keyStr strict fuel proc s with
    | none => rw [h1] at h; simp at h
    | some o =>
      cases h2 : exProps env ex keyStr strict fuel proc ps with
      | none => rw [h1, h2] at h; cases o <;> simp at h
      | some rest =>
        rw [h1, h2] at h
        have e1 := build_ofK fuel proc s o h1
        have e2 := buildProps_ofK fuel proc ps rest h2 tail tp ht
        cases o with
        | none =>
          by_cases hr : r = true
          · simp [hr] at h
          · simp [hr] at h; subst h
            simp only [ofKProps, List.cons_append, EXK.buildProps, e1, e2, Option.map_none]
        | some x =>
          simp at h; subst h
          simp only [ofKProps, List.cons_append, EXK.buildProps, e1, e2, Option.map_some, EXK.buildKey,
            VR.jaMembersN, List.map_cons, memText, List.cons_append]
termination_by fuel _ ps => (fuel, sizeOf ps)
theorem buildShorts_ofK : (fuel : Nat) → (proc : String → Nat) → (pk : List String) → (ss : List (String × Bool × S L)) →
    ∀ sm, exShorts env ex keyStr strict fuel proc pk ss = some sm →
    EXK.buildProps (tsOfK tok keyTok ex env) fuel proc (ofKShorts tok keyTok ex ss)
      = some ((VR.jaMembersN tok keyTok sm).map memText)
  | fuel, proc, pk, [] => by
    intro sm h; simp [exShorts] at h; subst h; simp [ofKShorts, EXK.buildProps, VR.jaMembersN]
  | fuel, proc, pk, (K, rq, s) :: ss => by
    intro sm h
    simp only [exShorts] at h
    cases hl0 : litOf (lookupT env K) with
    | none => rw [hl0] at h; simp at h
    | some l =>
      rw [hl0] at h
      have hl := litOf_some hl0
      simp only at h
      by_cases hpk0 : fuel = 0 ∨ pk.contains (keyStr (ex l)) = true
      · rw [if_pos hpk0] at h; exact absurd h (by simp)
      · rw [if_neg hpk0] at h
        obtain ⟨f, hf⟩ : ∃ f, fuel = f + 1 := ⟨fuel - 1, by have : fuel ≠ 0 := fun e => hpk0 (Or.inl e); omega⟩
        cases h1 : exDoc env ex keyStr strict fuel proc s with
        | none => rw [h1] at h; simp at h
        | some o =>
          cases h2 : exShorts env ex keyStr strict fuel proc pk ss with
          | none => rw [h1, h2] at h; cases o <;> simp at h
          | some rest =>
            rw [h1, h2] at h
            cases o with
            | none => simp at h
            | some x =>
              simp at h; subst h
              have e1 := build_ofK fuel proc s (some x) h1
              have e2 := buildShorts_ofK fuel proc pk ss rest h2
              have ek : EXK.buildKey (tsOfK tok keyTok ex env) fuel proc (.short K) = some (tok (ex l)) := by
                subst hf
                simp [EXK.buildKey, lookup_tsOfK, hl, ofK, EXK.build]
              simp only [ofKShorts, EXK.buildProps, e1, e2, ek, Option.map_some, VR.jaMembersN, List.map_cons, memText,
                hkt K l hl]
termination_by fuel _ _ ss => (fuel, sizeOf ss)
end

end bridge

end VK
