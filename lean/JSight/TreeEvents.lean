import JSight.JsonRun
/-!
C06 prototype: the events of a *rendered JSON tree* are the events the tree denotes
(types, order, spans), for arbitrary layout, nesting and width.
-/
namespace JsonScan

/-- non-accumulating form of `eventsLoop` -/
def evsFrom (allow : Bool) (n : Nat) : List Cls → Nat → CfgS → Except ErrS (List Ev)
  | [], _, cfg =>
    match cfg.stack with
    | [] => .ok []
    | [(.litB, b)] => if cfg.unf then .error (.unexpectedEOF (n - 1)) else .ok [⟨.litE, b, n - 1⟩]
    | _ => .error (.unexpectedEOF (n - 1))
  | c :: cs, i, cfg =>
    match step allow cfg.st (cfg.stack.map (·.1)) cfg.unf c with
    | .error _ => .error (.invalidChar i)
    | .ok (st', unf', finds) =>
      match applyFindsS i cfg.stack finds [] with
      | .error e => .error e
      | .ok (stack', evs, stop) =>
        if stop then .ok evs
        else (evsFrom allow n cs (i + 1) { st := st', stack := stack', unf := unf' }).map (evs ++ ·)

theorem map_append_nil {ε} (x : Except ε (List Ev)) : x.map (([] : List Ev) ++ ·) = x := by
  cases x <;> simp [Except.map]

theorem map_map_append {ε} (x : Except ε (List Ev)) (a b : List Ev) :
    (x.map (b ++ ·)).map (a ++ ·) = x.map ((a ++ b) ++ ·) := by
  cases x <;> simp [Except.map]

theorem map_comp {ε α β γ} (x : Except ε α) (g : α → β) (f : β → γ) :
    (x.map g).map f = x.map (fun y => f (g y)) := by
  cases x <;> rfl

/-- one byte whose step succeeds without stopping -/
theorem evsFrom_step (allow : Bool) (n : Nat) (c : Cls) (cs : List Cls) (i : Nat) (st : St) (stack : List (LexT × Nat))
    (unf : Bool) (st' : St) (unf' : Bool) (finds : List LexT) (stack' : List (LexT × Nat)) (evs : List Ev)
    (h1 : step allow st (stack.map (·.1)) unf c = .ok (st', unf', finds))
    (h2 : applyFindsS i stack finds [] = .ok (stack', evs, false)) :
    evsFrom allow n (c :: cs) i ⟨st, stack, unf⟩ =
      (evsFrom allow n cs (i + 1) ⟨st', stack', unf'⟩).map (evs ++ ·) := by
  simp only [evsFrom, h1, h2]
  simp

/-- a byte inside a token: no events, the stack is not looked at -/
def silent : St → Bool → Cls → Option (St × Bool)
  | .inString, unf, c => match c with
      | .quote => some (.endValue, false)
      | .bslash => some (.esc, unf)
      | .ctrl | .wsctl => none
      | _ => some (.inString, unf)
  | .esc, unf, c => match c with
      | .lb | .lf | .ln | .lr | .lt | .bslash | .slash | .quote => some (.inString, unf)
      | .lu => some (.u0, unf)
      | _ => none
  | .u0, unf, c => if c.isHex then some (.u1, unf) else none
  | .u1, unf, c => if c.isHex then some (.u2, unf) else none
  | .u2, unf, c => if c.isHex then some (.u3, unf) else none
  | .u3, unf, c => if c.isHex then some (.inString, unf) else none
  | .neg, _, c => match c with | .zero => some (.d0, false) | .d19 => some (.d1, false) | _ => none
  | .d1, unf, c => match c with
      | .zero | .d19 => some (.d1, unf) | .dot => some (.dot, true) | .le | .uE => some (.e, true) | _ => none
  | .d0, _, c => match c with | .dot => some (.dot, true) | .le | .uE => some (.e, true) | _ => none
  | .dot, _, c => match c with | .zero | .d19 => some (.dot0, false) | _ => none
  | .dot0, unf, c => match c with | .zero | .d19 => some (.dot0, unf) | .le | .uE => some (.e, true) | _ => none
  | .e, unf, c => match c with | .plus | .minus => some (.eSign, unf) | .zero | .d19 => some (.e0, false) | _ => none
  | .eSign, _, c => match c with | .zero | .d19 => some (.e0, false) | _ => none
  | .e0, unf, c => match c with | .zero | .d19 => some (.e0, unf) | _ => none
  | .t, unf, c => match c with | .lr => some (.tr, unf) | _ => none
  | .tr, unf, c => match c with | .lu => some (.tru, unf) | _ => none
  | .tru, _, c => match c with | .le => some (.endValue, false) | _ => none
  | .f, unf, c => match c with | .la => some (.fa, unf) | _ => none
  | .fa, unf, c => match c with | .ll => some (.fal, unf) | _ => none
  | .fal, unf, c => match c with | .ls => some (.fals, unf) | _ => none
  | .fals, _, c => match c with | .le => some (.endValue, false) | _ => none
  | .n, unf, c => match c with | .lu => some (.nu, unf) | _ => none
  | .nu, unf, c => match c with | .ll => some (.nul, unf) | _ => none
  | .nul, _, c => match c with | .ll => some (.endValue, false) | _ => none
  | _, _, _ => none

theorem silent_step (allow : Bool) (st : St) (unf : Bool) (c : Cls) (st' : St) (unf' : Bool)
    (h : silent st unf c = some (st', unf')) (stk : List LexT) :
    step allow st stk unf c = .ok (st', unf', []) := by
  cases st <;> cases c <;> simp [silent, Cls.isHex] at h <;>
    (obtain ⟨rfl, rfl⟩ := h; rfl)

def silentRun : St → Bool → List Cls → Option (St × Bool)
  | st, unf, [] => some (st, unf)
  | st, unf, c :: cs => match silent st unf c with
    | some (st', unf') => silentRun st' unf' cs
    | none => none

theorem evsFrom_silent (allow : Bool) (n : Nat) (tok rest : List Cls) (i : Nat) (st : St) (stack : List (LexT × Nat))
    (unf : Bool) (st' : St) (unf' : Bool) (h : silentRun st unf tok = some (st', unf')) :
    evsFrom allow n (tok ++ rest) i ⟨st, stack, unf⟩ = evsFrom allow n rest (i + tok.length) ⟨st', stack, unf'⟩ := by
  induction tok generalizing st unf i with
  | nil => simp [silentRun] at h; obtain ⟨rfl, rfl⟩ := h; rfl
  | cons c cs ih =>
    simp only [silentRun] at h
    cases hs : silent st unf c with
    | none => rw [hs] at h; simp at h
    | some p =>
      obtain ⟨s1, u1⟩ := p
      rw [hs] at h
      simp only [] at h
      rw [List.cons_append, evsFrom_step allow n c (cs ++ rest) i st stack unf s1 u1 [] stack []
        (silent_step allow st unf c s1 u1 hs _) rfl, map_append_nil, ih (i + 1) s1 u1 h]
      simp only [List.length_cons]
      congr 1; omega

/-! ### whitespace loops -/

def Cls.isWs : Cls → Bool | .sp | .wsctl => true | _ => false
def IsWs (ws : List Cls) : Prop := ∀ c ∈ ws, c.isWs = true

def wsLoop : St → Bool
  | .foundRoot | .objKeyOrEmpty | .objKey | .objValue | .arrItemOrEmpty | .arrItem
  | .afterKey | .afterValue | .afterItem | .endTop => true
  | _ => false

theorem ws_step (allow : Bool) (st : St) (h : wsLoop st = true) (c : Cls) (hc : c.isWs = true)
    (stk : List LexT) (unf : Bool) : step allow st stk unf c = .ok (st, unf, []) := by
  cases st <;> simp [wsLoop] at h <;> cases c <;> simp [Cls.isWs] at hc <;> rfl

theorem evsFrom_ws (allow : Bool) (n : Nat) (ws rest : List Cls) (hws : IsWs ws) (i : Nat) (st : St)
    (h : wsLoop st = true) (stack : List (LexT × Nat)) (unf : Bool) :
    evsFrom allow n (ws ++ rest) i ⟨st, stack, unf⟩ = evsFrom allow n rest (i + ws.length) ⟨st, stack, unf⟩ := by
  induction ws generalizing i with
  | nil => rfl
  | cons c cs ih =>
    rw [List.cons_append, evsFrom_step allow n c (cs ++ rest) i st stack unf st unf [] stack []
      (ws_step allow st h c (hws c (by simp)) _ unf) rfl, map_append_nil,
      ih (fun x hx => hws x (by simp [hx])) (i + 1)]
    simp only [List.length_cons]
    congr 1; omega

/-! ### states in which a value has just been read (its literal end may still be pending) -/

def PV : St → Bool
  | .endValue | .d0 | .d1 | .dot0 | .e0 => true
  | _ => false

def Cls.isDelim : Cls → Bool | .sp | .wsctl | .comma | .rbrack | .rbrace | .colon => true | _ => false

theorem pv_step (allow : Bool) (st : St) (h : PV st = true) (c : Cls) (hc : c.isDelim = true)
    (stk : List LexT) (unf : Bool) : step allow st stk unf c = endValueStep allow stk unf c := by
  cases st <;> simp [PV] at h <;> cases c <;> simp [Cls.isDelim] at hc <;> rfl

/-! ### closing phase of an array item -/

def pendOf (lit : Bool) (o : Nat) : List (LexT × Nat) := if lit then [(.litB, o)] else []
def closersOf (lit : Bool) (o e : Nat) : List Ev := if lit then [⟨.litE, o, e⟩] else []

/-- one byte from a post-value state on a delimiter: evaluate both the control step and the finds -/
macro "pv_one" h:ident : tactic => `(tactic|
  (refine (evsFrom_step _ _ _ _ _ _ _ _ ?_ ?_ ?_ ?_ ?_ ?_ ?_).trans ?_
   rotate_left 5
   · rw [pv_step _ _ $h _ rfl]; rfl
   · rfl))

/-- one byte from a concrete state: evaluate both the control step and the finds -/
macro "ev_one" : tactic => `(tactic|
  (refine (evsFrom_step _ _ _ _ _ _ _ _ ?_ ?_ ?_ ?_ ?_ ?_ ?_).trans ?_
   rotate_left 5
   · rfl
   · rfl))

theorem afterItem_comma (allow : Bool) (n : Nat) (rest : List Cls) (j a : Nat) (K : List (LexT × Nat)) :
    evsFrom allow n (.comma :: rest) j ⟨.afterItem, (.arrB, a) :: K, false⟩
      = evsFrom allow n rest (j + 1) ⟨.arrItem, (.arrB, a) :: K, false⟩ := by
  ev_one; exact map_append_nil _

theorem afterItem_rbrack (allow : Bool) (n : Nat) (rest : List Cls) (j a : Nat) (K : List (LexT × Nat)) :
    evsFrom allow n (.rbrack :: rest) j ⟨.afterItem, (.arrB, a) :: K, false⟩
      = (evsFrom allow n rest (j + 1) ⟨.endValue, K, false⟩).map ([⟨.arrE, a, j⟩] ++ ·) := by
  ev_one; rfl

theorem close_item_comma (allow : Bool) (n : Nat) (st : St) (hst : PV st = true) (lit : Bool) (ov a : Nat)
    (K : List (LexT × Nat)) (w2 : List Cls) (hw : IsWs w2) (rest : List Cls) (i : Nat) :
    evsFrom allow n (w2 ++ .comma :: rest) i ⟨st, pendOf lit ov ++ (.itemB, ov) :: (.arrB, a) :: K, false⟩
      = (evsFrom allow n rest (i + w2.length + 1) ⟨.arrItem, (.arrB, a) :: K, false⟩).map
          ((closersOf lit ov (i - 1) ++ [⟨.itemE, ov, i - 1⟩]) ++ ·) := by
  cases w2 with
  | nil =>
    cases lit
    · pv_one hst; rfl
    · pv_one hst; rfl
  | cons c w2 =>
    have hc : c.isWs = true := hw c (by simp)
    have hw2 : IsWs w2 := fun x hx => hw x (by simp [hx])
    cases c <;> simp [Cls.isWs] at hc <;> cases lit <;>
    · rw [List.cons_append]
      pv_one hst
      rw [evsFrom_ws allow n w2 _ hw2 _ .afterItem rfl, afterItem_comma]
      simp only [List.length_cons]
      rw [show i + 1 + w2.length + 1 = i + (w2.length + 1) + 1 by omega]
      rfl

theorem close_item_rbrack (allow : Bool) (n : Nat) (st : St) (hst : PV st = true) (lit : Bool) (ov a : Nat)
    (K : List (LexT × Nat)) (w2 : List Cls) (hw : IsWs w2) (rest : List Cls) (i : Nat) :
    evsFrom allow n (w2 ++ .rbrack :: rest) i ⟨st, pendOf lit ov ++ (.itemB, ov) :: (.arrB, a) :: K, false⟩
      = (evsFrom allow n rest (i + w2.length + 1) ⟨.endValue, K, false⟩).map
          ((closersOf lit ov (i - 1) ++ [⟨.itemE, ov, i - 1⟩, ⟨.arrE, a, i + w2.length⟩]) ++ ·) := by
  cases w2 with
  | nil =>
    cases lit
    · pv_one hst; rfl
    · pv_one hst; rfl
  | cons c w2 =>
    have hc : c.isWs = true := hw c (by simp)
    have hw2 : IsWs w2 := fun x hx => hw x (by simp [hx])
    cases c <;> simp [Cls.isWs] at hc <;> cases lit <;>
    · rw [List.cons_append]
      pv_one hst
      rw [evsFrom_ws allow n w2 _ hw2 _ .afterItem rfl, afterItem_rbrack, map_map_append]
      simp only [List.length_cons]
      rw [show i + 1 + w2.length + 1 = i + (w2.length + 1) + 1 by omega,
          show i + 1 + w2.length = i + (w2.length + 1) by omega]
      rfl

/-! ### value positions -/

inductive VCtx | root | item0 | item1 | objv

def VCtx.st : VCtx → St
  | .root => .foundRoot | .item0 => .arrItemOrEmpty | .item1 => .arrItem | .objv => .objValue
def VCtx.pre (o : Nat) : VCtx → List (LexT × Nat)
  | .root => [] | .objv => [(.valB, o)] | _ => [(.itemB, o)]
def VCtx.preEvs (o : Nat) : VCtx → List Ev
  | .root => [] | .objv => [⟨.valB, o, o⟩] | _ => [⟨.itemB, o, o⟩]

/-- first byte of a scalar token -/
def litStart : Cls → Option (St × Bool)
  | .quote => some (.inString, true)
  | .minus => some (.neg, true)
  | .zero => some (.d0, false)
  | .d19 => some (.d1, false)
  | .lt => some (.t, true)
  | .lf => some (.f, true)
  | .ln => some (.n, true)
  | _ => none

theorem start_scalar (allow : Bool) (n : Nat) (c : Cls) (st0 : St) (unf0 : Bool) (h : litStart c = some (st0, unf0))
    (ctx : VCtx) (K : List (LexT × Nat)) (o : Nat) (rest : List Cls) :
    evsFrom allow n (c :: rest) o ⟨ctx.st, K, false⟩
      = (evsFrom allow n rest (o + 1) ⟨st0, (.litB, o) :: (ctx.pre o ++ K), unf0⟩).map
          ((ctx.preEvs o ++ [⟨.litB, o, o⟩]) ++ ·) := by
  cases c <;> simp [litStart] at h <;> obtain ⟨rfl, rfl⟩ := h <;> cases ctx <;> (ev_one; rfl)

theorem start_array (allow : Bool) (n : Nat) (ctx : VCtx) (K : List (LexT × Nat)) (o : Nat) (rest : List Cls) :
    evsFrom allow n (.lbrack :: rest) o ⟨ctx.st, K, false⟩
      = (evsFrom allow n rest (o + 1) ⟨.arrItemOrEmpty, (.arrB, o) :: (ctx.pre o ++ K), false⟩).map
          ((ctx.preEvs o ++ [⟨.arrB, o, o⟩]) ++ ·) := by
  cases ctx <;> (ev_one; rfl)

theorem empty_array_end (allow : Bool) (n : Nat) (rest : List Cls) (j a : Nat) (K : List (LexT × Nat)) :
    evsFrom allow n (.rbrack :: rest) j ⟨.arrItemOrEmpty, (.arrB, a) :: K, false⟩
      = (evsFrom allow n rest (j + 1) ⟨.endValue, K, false⟩).map ([⟨.arrE, a, j⟩] ++ ·) := by
  ev_one; rfl

theorem start_object (allow : Bool) (n : Nat) (ctx : VCtx) (K : List (LexT × Nat)) (o : Nat) (rest : List Cls) :
    evsFrom allow n (.lbrace :: rest) o ⟨ctx.st, K, false⟩
      = (evsFrom allow n rest (o + 1) ⟨.objKeyOrEmpty, (.objB, o) :: (ctx.pre o ++ K), false⟩).map
          ((ctx.preEvs o ++ [⟨.objB, o, o⟩]) ++ ·) := by
  cases ctx <;> (ev_one; rfl)

theorem empty_object_end (allow : Bool) (n : Nat) (rest : List Cls) (j a : Nat) (K : List (LexT × Nat)) :
    evsFrom allow n (.rbrace :: rest) j ⟨.objKeyOrEmpty, (.objB, a) :: K, false⟩
      = (evsFrom allow n rest (j + 1) ⟨.endValue, K, false⟩).map ([⟨.objE, a, j⟩] ++ ·) := by
  ev_one; rfl

/-! ### closing phase of an object member -/

theorem afterValue_comma (allow : Bool) (n : Nat) (rest : List Cls) (j a : Nat) (K : List (LexT × Nat)) :
    evsFrom allow n (.comma :: rest) j ⟨.afterValue, (.objB, a) :: K, false⟩
      = evsFrom allow n rest (j + 1) ⟨.objKey, (.objB, a) :: K, false⟩ := by
  ev_one; exact map_append_nil _

theorem afterValue_rbrace (allow : Bool) (n : Nat) (rest : List Cls) (j a : Nat) (K : List (LexT × Nat)) :
    evsFrom allow n (.rbrace :: rest) j ⟨.afterValue, (.objB, a) :: K, false⟩
      = (evsFrom allow n rest (j + 1) ⟨.endValue, K, false⟩).map ([⟨.objE, a, j⟩] ++ ·) := by
  ev_one; rfl

theorem close_member_comma (allow : Bool) (n : Nat) (st : St) (hst : PV st = true) (lit : Bool) (ov a : Nat)
    (K : List (LexT × Nat)) (w2 : List Cls) (hw : IsWs w2) (rest : List Cls) (i : Nat) :
    evsFrom allow n (w2 ++ .comma :: rest) i ⟨st, pendOf lit ov ++ (.valB, ov) :: (.objB, a) :: K, false⟩
      = (evsFrom allow n rest (i + w2.length + 1) ⟨.objKey, (.objB, a) :: K, false⟩).map
          ((closersOf lit ov (i - 1) ++ [⟨.valE, ov, i - 1⟩]) ++ ·) := by
  cases w2 with
  | nil =>
    cases lit
    · pv_one hst; rfl
    · pv_one hst; rfl
  | cons c w2 =>
    have hc : c.isWs = true := hw c (by simp)
    have hw2 : IsWs w2 := fun x hx => hw x (by simp [hx])
    cases c <;> simp [Cls.isWs] at hc <;> cases lit <;>
    · rw [List.cons_append]
      pv_one hst
      rw [evsFrom_ws allow n w2 _ hw2 _ .afterValue rfl, afterValue_comma]
      simp only [List.length_cons]
      rw [show i + 1 + w2.length + 1 = i + (w2.length + 1) + 1 by omega]
      rfl

theorem close_member_rbrace (allow : Bool) (n : Nat) (st : St) (hst : PV st = true) (lit : Bool) (ov a : Nat)
    (K : List (LexT × Nat)) (w2 : List Cls) (hw : IsWs w2) (rest : List Cls) (i : Nat) :
    evsFrom allow n (w2 ++ .rbrace :: rest) i ⟨st, pendOf lit ov ++ (.valB, ov) :: (.objB, a) :: K, false⟩
      = (evsFrom allow n rest (i + w2.length + 1) ⟨.endValue, K, false⟩).map
          ((closersOf lit ov (i - 1) ++ [⟨.valE, ov, i - 1⟩, ⟨.objE, a, i + w2.length⟩]) ++ ·) := by
  cases w2 with
  | nil =>
    cases lit
    · pv_one hst; rfl
    · pv_one hst; rfl
  | cons c w2 =>
    have hc : c.isWs = true := hw c (by simp)
    have hw2 : IsWs w2 := fun x hx => hw x (by simp [hx])
    cases c <;> simp [Cls.isWs] at hc <;> cases lit <;>
    · rw [List.cons_append]
      pv_one hst
      rw [evsFrom_ws allow n w2 _ hw2 _ .afterValue rfl, afterValue_rbrace, map_map_append]
      simp only [List.length_cons]
      rw [show i + 1 + w2.length + 1 = i + (w2.length + 1) + 1 by omega,
          show i + 1 + w2.length = i + (w2.length + 1) by omega]
      rfl

/-! ### object keys -/

/-- a key token: a string, as the scanner's token automaton reads it -/
def IsKey (k : List Cls) : Prop :=
  ∃ tl, k = .quote :: tl ∧ silentRun .inString false tl = some (.endValue, false)

def keyCtxSt (first : Bool) : St := if first then .objKeyOrEmpty else .objKey

theorem afterKey_colon (allow : Bool) (n : Nat) (rest : List Cls) (j a : Nat) (K : List (LexT × Nat)) :
    evsFrom allow n (.colon :: rest) j ⟨.afterKey, (.objB, a) :: K, false⟩
      = evsFrom allow n rest (j + 1) ⟨.objValue, (.objB, a) :: K, false⟩ := by
  ev_one; exact map_append_nil _

theorem key_run (allow : Bool) (n : Nat) (k : List Cls) (hk : IsKey k) (first : Bool) (a : Nat)
    (K : List (LexT × Nat)) (w2 : List Cls) (hw : IsWs w2) (rest : List Cls) (o : Nat) :
    evsFrom allow n (k ++ (w2 ++ .colon :: rest)) o ⟨keyCtxSt first, (.objB, a) :: K, false⟩
      = (evsFrom allow n rest (o + k.length + w2.length + 1) ⟨.objValue, (.objB, a) :: K, false⟩).map
          ([⟨.keyB, o, o⟩, ⟨.keyE, o, o + k.length - 1⟩] ++ ·) := by
  obtain ⟨tl, rfl, hr⟩ := hk
  have h1 : evsFrom allow n (.quote :: (tl ++ (w2 ++ .colon :: rest))) o ⟨keyCtxSt first, (.objB, a) :: K, false⟩
      = (evsFrom allow n (tl ++ (w2 ++ .colon :: rest)) (o + 1) ⟨.inString, (.keyB, o) :: (.objB, a) :: K, false⟩).map
          ([⟨.keyB, o, o⟩] ++ ·) := by
    cases first <;> (ev_one; rfl)
  rw [List.cons_append, h1, evsFrom_silent allow n tl _ _ _ _ _ _ _ hr]
  cases w2 with
  | nil =>
    rw [List.nil_append]
    have h2 : evsFrom allow n (.colon :: rest) (o + 1 + tl.length) ⟨.endValue, (.keyB, o) :: (.objB, a) :: K, false⟩
        = (evsFrom allow n rest (o + 1 + tl.length + 1) ⟨.objValue, (.objB, a) :: K, false⟩).map
            ([⟨.keyE, o, o + 1 + tl.length - 1⟩] ++ ·) := by
      ev_one; rfl
    rw [h2, map_comp]
    simp only [List.length_cons, List.length_nil]
    rw [show o + 1 + tl.length + 1 = o + (tl.length + 1) + 0 + 1 by omega,
        show o + 1 + tl.length - 1 = o + (tl.length + 1) - 1 by omega]
    rfl
  | cons c w2 =>
    have hc : c.isWs = true := hw c (by simp)
    have hw2 : IsWs w2 := fun x hx => hw x (by simp [hx])
    have h2 : evsFrom allow n (c :: (w2 ++ .colon :: rest)) (o + 1 + tl.length)
          ⟨.endValue, (.keyB, o) :: (.objB, a) :: K, false⟩
        = (evsFrom allow n (w2 ++ .colon :: rest) (o + 1 + tl.length + 1) ⟨.afterKey, (.objB, a) :: K, false⟩).map
            ([⟨.keyE, o, o + 1 + tl.length - 1⟩] ++ ·) := by
      cases c <;> simp [Cls.isWs] at hc <;> (ev_one; rfl)
    rw [List.cons_append, h2, evsFrom_ws allow n w2 _ hw2 _ .afterKey rfl, afterKey_colon, map_comp]
    simp only [List.length_cons]
    rw [show o + 1 + tl.length + 1 + w2.length + 1 = o + (tl.length + 1) + (w2.length + 1) + 1 by omega,
        show o + 1 + tl.length - 1 = o + (tl.length + 1) - 1 by omega]
    rfl

/-- a scalar token, as the scanner's token automaton reads it (the RFC token grammar is related to this separately) -/
def IsScalar (tok : List Cls) : Prop :=
  ∃ c tl st0 unf0 stE, tok = c :: tl ∧ litStart c = some (st0, unf0) ∧
    silentRun st0 unf0 tl = some (stE, false) ∧ PV stE = true

/-! ### JSON trees with layout -/

inductive JA
  | scalar (tok : List Cls)
  | arr (ws0 : List Cls) (items : List (List Cls × JA × List Cls))                       -- ws value ws
  | obj (ws0 : List Cls) (members : List (List Cls × List Cls × List Cls × List Cls × JA × List Cls))
                                                                                         -- ws key ws ":" ws value ws

mutual
def JA.render : JA → List Cls
  | .scalar tok => tok
  | .arr ws0 items => .lbrack :: (ws0 ++ renderItems items)
  | .obj ws0 members => .lbrace :: (ws0 ++ renderMembers members)
/-- the items and the closing bracket -/
def renderItems : List (List Cls × JA × List Cls) → List Cls
  | [] => [.rbrack]
  | (w1, v, w2) :: its => w1 ++ (v.render ++ (w2 ++ ((if its.isEmpty then [] else [.comma]) ++ renderItems its)))
/-- the members and the closing brace -/
def renderMembers : List (List Cls × List Cls × List Cls × List Cls × JA × List Cls) → List Cls
  | [] => [.rbrace]
  | (w1, k, w2, w3, v, w4) :: ms =>
    w1 ++ (k ++ (w2 ++ (.colon :: (w3 ++ (v.render ++ (w4 ++ ((if ms.isEmpty then [] else [.comma]) ++ renderMembers ms)))))))
end

mutual
def evsAt : Nat → JA → List Ev
  | o, .scalar tok => [⟨.litB, o, o⟩, ⟨.litE, o, o + tok.length - 1⟩]
  | o, .arr ws0 items => ⟨.arrB, o, o⟩ :: evsItems o (o + 1 + ws0.length) items
  | o, .obj ws0 members => ⟨.objB, o, o⟩ :: evsMembers o (o + 1 + ws0.length) members
/-- events of the items starting at offset `o`, then the array end of the array opened at `a` -/
def evsItems (a : Nat) : Nat → List (List Cls × JA × List Cls) → List Ev
  | o, [] => [⟨.arrE, a, o⟩]
  | o, (w1, v, w2) :: its =>
    ⟨.itemB, o + w1.length, o + w1.length⟩ ::
      (evsAt (o + w1.length) v ++ ⟨.itemE, o + w1.length, o + w1.length + v.render.length - 1⟩ ::
        evsItems a (o + w1.length + v.render.length + w2.length + (if its.isEmpty then 0 else 1)) its)
/-- events of the members starting at offset `o`, then the object end of the object opened at `a` -/
def evsMembers (a : Nat) : Nat → List (List Cls × List Cls × List Cls × List Cls × JA × List Cls) → List Ev
  | o, [] => [⟨.objE, a, o⟩]
  | o, (w1, k, w2, w3, v, w4) :: ms =>
    ⟨.keyB, o + w1.length, o + w1.length⟩ :: ⟨.keyE, o + w1.length, o + w1.length + k.length - 1⟩ ::
    ⟨.valB, o + w1.length + k.length + w2.length + 1 + w3.length, o + w1.length + k.length + w2.length + 1 + w3.length⟩ ::
      (evsAt (o + w1.length + k.length + w2.length + 1 + w3.length) v ++
        ⟨.valE, o + w1.length + k.length + w2.length + 1 + w3.length,
          o + w1.length + k.length + w2.length + 1 + w3.length + v.render.length - 1⟩ ::
        evsMembers a (o + w1.length + k.length + w2.length + 1 + w3.length + v.render.length + w4.length
          + (if ms.isEmpty then 0 else 1)) ms)
end

mutual
def JA.Valid : JA → Prop
  | .scalar tok => IsScalar tok
  | .arr ws0 items => IsWs ws0 ∧ ValidItems items
  | .obj ws0 members => IsWs ws0 ∧ ValidMembers members
def ValidItems : List (List Cls × JA × List Cls) → Prop
  | [] => True
  | (w1, v, w2) :: its => IsWs w1 ∧ v.Valid ∧ IsWs w2 ∧ ValidItems its
def ValidMembers : List (List Cls × List Cls × List Cls × List Cls × JA × List Cls) → Prop
  | [] => True
  | (w1, k, w2, w3, v, w4) :: ms => IsWs w1 ∧ IsKey k ∧ IsWs w2 ∧ IsWs w3 ∧ v.Valid ∧ IsWs w4 ∧ ValidMembers ms
end

def JA.isLit : JA → Bool | .scalar _ => true | _ => false
def evsOpen (o : Nat) : JA → List Ev
  | .scalar _ => [⟨.litB, o, o⟩]
  | v => evsAt o v

def itemCtx (first : Bool) : VCtx := if first then .item0 else .item1

mutual
theorem value_run (allow : Bool) (n : Nat) : (v : JA) → v.Valid → (ctx : VCtx) → (K : List (LexT × Nat)) →
    (o : Nat) → (rest : List Cls) →
    ∃ st, PV st = true ∧ evsFrom allow n (v.render ++ rest) o ⟨ctx.st, K, false⟩
      = (evsFrom allow n rest (o + v.render.length) ⟨st, pendOf v.isLit o ++ (ctx.pre o ++ K), false⟩).map
          ((ctx.preEvs o ++ evsOpen o v) ++ ·)
  | .scalar tok, hv, ctx, K, o, rest => by
    obtain ⟨c, tl, st0, unf0, stE, rfl, hs, hr, hp⟩ : IsScalar tok := by simpa [JA.Valid] using hv
    refine ⟨stE, hp, ?_⟩
    simp only [JA.render, List.cons_append]
    rw [start_scalar allow n c st0 unf0 hs, evsFrom_silent allow n tl rest _ _ _ _ _ _ hr]
    simp only [List.length_cons, JA.isLit, pendOf, evsOpen, if_true, List.cons_append, List.nil_append]
    rw [show o + 1 + tl.length = o + (tl.length + 1) by omega]
  | .arr ws0 items, hv, ctx, K, o, rest => by
    obtain ⟨hw0, hi⟩ : IsWs ws0 ∧ ValidItems items := by simpa [JA.Valid] using hv
    refine ⟨.endValue, rfl, ?_⟩
    simp only [JA.render, List.cons_append, List.append_assoc]
    have hI := items_run allow n items hi true (fun _ => rfl) o (ctx.pre o ++ K) (o + 1 + ws0.length) rest
    rw [show (itemCtx true).st = St.arrItemOrEmpty from rfl] at hI
    rw [start_array, evsFrom_ws _ _ ws0 _ hw0 _ .arrItemOrEmpty rfl, hI, map_comp]
    congr 1
    · funext x; simp [evsOpen, evsAt]
    · simp only [List.length_cons, List.length_append, JA.isLit, pendOf, Bool.false_eq_true, if_false, List.nil_append]
      congr 1; omega
  | .obj ws0 members, hv, ctx, K, o, rest => by
    obtain ⟨hw0, hi⟩ : IsWs ws0 ∧ ValidMembers members := by simpa [JA.Valid] using hv
    refine ⟨.endValue, rfl, ?_⟩
    simp only [JA.render, List.cons_append, List.append_assoc]
    have hI := members_run allow n members hi true (fun _ => rfl) o (ctx.pre o ++ K) (o + 1 + ws0.length) rest
    rw [show keyCtxSt true = St.objKeyOrEmpty from rfl] at hI
    rw [start_object, evsFrom_ws _ _ ws0 _ hw0 _ .objKeyOrEmpty rfl, hI, map_comp]
    congr 1
    · funext x; simp [evsOpen, evsAt]
    · simp only [List.length_cons, List.length_append, JA.isLit, pendOf, Bool.false_eq_true, if_false, List.nil_append]
      congr 1; omega
theorem items_run (allow : Bool) (n : Nat) : (its : List (List Cls × JA × List Cls)) → ValidItems its →
    (first : Bool) → (its = [] → first = true) → (a : Nat) → (K : List (LexT × Nat)) → (o : Nat) → (rest : List Cls) →
    evsFrom allow n (renderItems its ++ rest) o ⟨(itemCtx first).st, (.arrB, a) :: K, false⟩
      = (evsFrom allow n rest (o + (renderItems its).length) ⟨.endValue, K, false⟩).map (evsItems a o its ++ ·)
  | [], _, first, hf, a, K, o, rest => by
    rw [hf rfl]
    simp only [renderItems, List.cons_append, List.nil_append, List.length_cons, List.length_nil, evsItems]
    exact empty_array_end allow n rest o a K
  | (w1, v, w2) :: its, hv, first, _, a, K, o, rest => by
    obtain ⟨h1, hvv, h2, hits⟩ : IsWs w1 ∧ v.Valid ∧ IsWs w2 ∧ ValidItems its := by simpa [ValidItems] using hv
    have hloop : wsLoop (itemCtx first).st = true := by cases first <;> rfl
    simp only [renderItems, List.append_assoc]
    rw [evsFrom_ws _ _ w1 _ h1 _ _ hloop]
    obtain ⟨st, hp, e⟩ := value_run allow n v hvv (itemCtx first) ((.arrB, a) :: K) (o + w1.length)
      (w2 ++ ((if its.isEmpty then [] else [.comma]) ++ renderItems its ++ rest))
    have hpre : (itemCtx first).pre (o + w1.length) ++ (.arrB, a) :: K
        = (.itemB, o + w1.length) :: (.arrB, a) :: K := by cases first <;> rfl
    have hpe : (itemCtx first).preEvs (o + w1.length) = [⟨.itemB, o + w1.length, o + w1.length⟩] := by
      cases first <;> rfl
    simp only [List.append_assoc] at e
    rw [e, hpre, hpe]
    cases its with
    | nil =>
      simp only [List.isEmpty_nil, if_true, List.nil_append, renderItems, List.cons_append]
      rw [close_item_rbrack allow n st hp v.isLit _ a K w2 h2 rest, map_comp]
      congr 1
      · funext x
        cases v <;> simp [evsItems, evsOpen, evsAt, closersOf, JA.isLit, JA.render]
      · simp only [List.length_append, List.length_cons, List.length_nil]
        congr 1; omega
    | cons it its' =>
      simp only [List.isEmpty_cons, Bool.false_eq_true, if_false, List.cons_append, List.nil_append]
      rw [close_item_comma allow n st hp v.isLit _ a K w2 h2 _]
      have hI := items_run allow n (it :: its') hits false (by simp) a K
        (o + w1.length + v.render.length + w2.length + 1) rest
      rw [show (itemCtx false).st = St.arrItem from rfl] at hI
      rw [hI, map_comp, map_comp]
      congr 1
      · funext x
        cases v <;> simp [evsItems, evsOpen, evsAt, closersOf, JA.isLit, JA.render]
      · simp only [List.length_append, List.length_cons]
        congr 1; omega
theorem members_run (allow : Bool) (n : Nat) :
    (ms : List (List Cls × List Cls × List Cls × List Cls × JA × List Cls)) → ValidMembers ms →
    (first : Bool) → (ms = [] → first = true) → (a : Nat) → (K : List (LexT × Nat)) → (o : Nat) → (rest : List Cls) →
    evsFrom allow n (renderMembers ms ++ rest) o ⟨keyCtxSt first, (.objB, a) :: K, false⟩
      = (evsFrom allow n rest (o + (renderMembers ms).length) ⟨.endValue, K, false⟩).map (evsMembers a o ms ++ ·)
  | [], _, first, hf, a, K, o, rest => by
    rw [hf rfl]
    simp only [renderMembers, List.cons_append, List.nil_append, List.length_cons, List.length_nil, evsMembers]
    exact empty_object_end allow n rest o a K
  | (w1, k, w2, w3, v, w4) :: ms, hv, first, _, a, K, o, rest => by
    obtain ⟨h1, hk, h2, h3, hvv, h4, hms⟩ :
        IsWs w1 ∧ IsKey k ∧ IsWs w2 ∧ IsWs w3 ∧ v.Valid ∧ IsWs w4 ∧ ValidMembers ms := by
      simpa [ValidMembers] using hv
    have hloop : wsLoop (keyCtxSt first) = true := by cases first <;> rfl
    simp only [renderMembers, List.append_assoc, List.cons_append]
    rw [evsFrom_ws _ _ w1 _ h1 _ _ hloop, key_run allow n k hk first a K w2 h2,
      evsFrom_ws _ _ w3 _ h3 _ .objValue rfl]
    obtain ⟨st, hp, e⟩ := value_run allow n v hvv .objv ((.objB, a) :: K)
      (o + w1.length + k.length + w2.length + 1 + w3.length)
      (w4 ++ ((if ms.isEmpty then [] else [.comma]) ++ renderMembers ms ++ rest))
    simp only [List.append_assoc] at e
    rw [show VCtx.objv.st = St.objValue from rfl] at e
    rw [e]
    cases ms with
    | nil =>
      simp only [List.isEmpty_nil, if_true, List.nil_append, renderMembers, List.cons_append]
      rw [show VCtx.pre (o + w1.length + k.length + w2.length + 1 + w3.length) VCtx.objv ++ (LexT.objB, a) :: K
            = (.valB, o + w1.length + k.length + w2.length + 1 + w3.length) :: (.objB, a) :: K from rfl,
        close_member_rbrace allow n st hp v.isLit _ a K w4 h4 rest, map_comp, map_comp]
      congr 1
      · funext x
        cases v <;> simp [evsMembers, evsOpen, evsAt, closersOf, JA.isLit, JA.render, VCtx.preEvs]
      · simp only [List.length_append, List.length_cons, List.length_nil]
        congr 1; omega
    | cons m ms' =>
      simp only [List.isEmpty_cons, Bool.false_eq_true, if_false, List.cons_append, List.nil_append]
      rw [show VCtx.pre (o + w1.length + k.length + w2.length + 1 + w3.length) VCtx.objv ++ (LexT.objB, a) :: K
            = (.valB, o + w1.length + k.length + w2.length + 1 + w3.length) :: (.objB, a) :: K from rfl,
        close_member_comma allow n st hp v.isLit _ a K w4 h4 _]
      have hI := members_run allow n (m :: ms') hms false (by simp) a K
        (o + w1.length + k.length + w2.length + 1 + w3.length + v.render.length + w4.length + 1) rest
      rw [show keyCtxSt false = St.objKey from rfl] at hI
      rw [hI, map_comp, map_comp, map_comp]
      congr 1
      · funext x
        cases v <;> simp [evsMembers, evsOpen, evsAt, closersOf, JA.isLit, JA.render, VCtx.preEvs]
      · simp only [List.length_append, List.length_cons]
        congr 1; omega
end

/-! ### the whole document -/

theorem close_root (allow : Bool) (n : Nat) (st : St) (hst : PV st = true) (lit : Bool) (ov : Nat)
    (w : List Cls) (hw : IsWs w) (i : Nat) (hn : n = i + w.length) :
    evsFrom allow n w i ⟨st, pendOf lit ov, false⟩ = .ok (closersOf lit ov (i - 1)) := by
  cases w with
  | nil =>
    cases lit
    · rfl
    · simp only [List.length_nil, Nat.add_zero] at hn; subst hn; rfl
  | cons c w =>
    have hc : c.isWs = true := hw c (by simp)
    have hw2 : IsWs w := fun x hx => hw x (by simp [hx])
    have hnil : evsFrom allow n ([] : List Cls) (i + 1 + w.length) ⟨.endTop, [], false⟩ = .ok [] := rfl
    have hws := evsFrom_ws allow n w [] hw2 (i + 1) .endTop rfl [] false
    rw [List.append_nil] at hws
    cases c <;> simp [Cls.isWs] at hc <;> cases lit <;> simp only [pendOf, Bool.false_eq_true, ↓reduceIte] <;>
    · pv_one hst
      rw [hws, hnil]; rfl

/-- `eventsLoop` is `evsFrom` with an accumulator -/
theorem eventsLoop_eq (allow : Bool) (n : Nat) (cs : List Cls) (i : Nat) (cfg : CfgS) (acc : List Ev) :
    eventsLoop allow n cs i cfg acc = (evsFrom allow n cs i cfg).map (acc ++ ·) := by
  induction cs generalizing i cfg acc with
  | nil =>
    obtain ⟨st, stack, unf⟩ := cfg
    rcases stack with _ | ⟨⟨t, b⟩, _ | ⟨p, r⟩⟩
    · simp [eventsLoop, evsFrom, Except.map]
    · cases t <;> cases unf <;> simp [eventsLoop, evsFrom, Except.map]
    · cases t <;> simp [eventsLoop, evsFrom, Except.map]
  | cons c cs ih =>
    simp only [eventsLoop, evsFrom]
    cases step allow cfg.st (cfg.stack.map (·.1)) cfg.unf c with
    | error e => simp [Except.map]
    | ok r =>
      obtain ⟨st', unf', finds⟩ := r
      simp only []
      cases applyFindsS i cfg.stack finds [] with
      | error e => simp [Except.map]
      | ok r2 =>
        obtain ⟨stack', evs, stop⟩ := r2
        simp only []
        cases stop
        · simp only [Bool.false_eq_true, if_false]
          rw [ih, map_comp]
          congr 1; funext x; simp
        · simp [Except.map]

/-- **C06**: the events of a rendered tree, with arbitrary layout, are the events the tree
denotes: types, order and spans -/
theorem C06_events_of_tree (allow : Bool) (v : JA) (hv : v.Valid) (ws0 ws1 : List Cls) (h0 : IsWs ws0) (h1 : IsWs ws1) :
    eventsLoop allow (ws0 ++ (v.render ++ ws1)).length (ws0 ++ (v.render ++ ws1)) 0 {} []
      = .ok (evsAt ws0.length v) := by
  rw [eventsLoop_eq]
  have hcfg : ({} : CfgS) = ⟨.foundRoot, [], false⟩ := rfl
  rw [hcfg, evsFrom_ws _ _ ws0 _ h0 _ .foundRoot rfl]
  obtain ⟨st, hp, e⟩ := value_run allow (ws0 ++ (v.render ++ ws1)).length v hv .root [] (0 + ws0.length) ws1
  rw [show VCtx.root.st = St.foundRoot from rfl] at e
  rw [e, show VCtx.pre (0 + ws0.length) VCtx.root ++ ([] : List (LexT × Nat)) = [] from rfl, List.append_nil,
    close_root allow _ st hp v.isLit _ ws1 h1 _ (by simp only [List.length_append]; omega)]
  cases v <;> simp [Except.map, VCtx.preEvs, evsOpen, evsAt, closersOf, JA.isLit, JA.render]

#print axioms C06_events_of_tree

/-! ### RFC 8259 scalar tokens are tokens of the scanner's automaton -/

theorem silentRun_append (st : St) (unf : Bool) (xs ys : List Cls) (st' : St) (unf' : Bool)
    (h : silentRun st unf xs = some (st', unf')) : silentRun st unf (xs ++ ys) = silentRun st' unf' ys := by
  induction xs generalizing st unf with
  | nil => simp [silentRun] at h; obtain ⟨rfl, rfl⟩ := h; rfl
  | cons c cs ih =>
    simp only [silentRun, List.cons_append] at h ⊢
    cases hs : silent st unf c with
    | none => rw [hs] at h; simp at h
    | some p => obtain ⟨a, b⟩ := p; rw [hs] at h; simp only [] at h ⊢; exact ih a b h

def Cls.isPlainStr : Cls → Bool
  | .quote | .bslash | .ctrl | .wsctl => false
  | _ => true
def Cls.isSimpleEsc : Cls → Bool
  | .lb | .lf | .ln | .lr | .lt | .bslash | .slash | .quote => true
  | _ => false

/-- the `*char` of the RFC string grammar, on byte classes -/
inductive StrBody : List Cls → Prop
  | nil : StrBody []
  | plain (c : Cls) (b : List Cls) : c.isPlainStr = true → StrBody b → StrBody (c :: b)
  | esc (c : Cls) (b : List Cls) : c.isSimpleEsc = true → StrBody b → StrBody (.bslash :: c :: b)
  | uni (h1 h2 h3 h4 : Cls) (b : List Cls) : h1.isHex = true → h2.isHex = true → h3.isHex = true → h4.isHex = true →
      StrBody b → StrBody (.bslash :: .lu :: h1 :: h2 :: h3 :: h4 :: b)

theorem strBody_run (b : List Cls) (hb : StrBody b) (u : Bool) :
    silentRun .inString u (b ++ [.quote]) = some (.endValue, false) := by
  induction hb with
  | nil => rfl
  | plain c b hc _ ih =>
    have : silent .inString u c = some (.inString, u) := by cases c <;> simp [Cls.isPlainStr] at hc <;> rfl
    simp only [List.cons_append, silentRun, this]; exact ih
  | esc c b hc _ ih =>
    have : silent .esc u c = some (.inString, u) := by cases c <;> simp [Cls.isSimpleEsc] at hc <;> rfl
    have e1 : silent .inString u .bslash = some (.esc, u) := rfl
    simp only [List.cons_append, silentRun, e1, this]; exact ih
  | uni h1 h2 h3 h4 b e1 e2 e3 e4 _ ih =>
    have s0 : silent .inString u .bslash = some (.esc, u) := rfl
    have s1 : silent .esc u .lu = some (.u0, u) := rfl
    have s2 : silent .u0 u h1 = some (.u1, u) := by simp [silent, e1]
    have s3 : silent .u1 u h2 = some (.u2, u) := by simp [silent, e2]
    have s4 : silent .u2 u h3 = some (.u3, u) := by simp [silent, e3]
    have s5 : silent .u3 u h4 = some (.inString, u) := by simp [silent, e4]
    simp only [List.cons_append, silentRun, s0, s1, s2, s3, s4, s5]; exact ih

theorem string_isScalar (b : List Cls) (hb : StrBody b) : IsScalar (.quote :: (b ++ [.quote])) :=
  ⟨.quote, b ++ [.quote], .inString, true, .endValue, rfl, rfl, strBody_run b hb true, rfl⟩

theorem string_isKey (b : List Cls) (hb : StrBody b) : IsKey (.quote :: (b ++ [.quote])) :=
  ⟨b ++ [.quote], rfl, strBody_run b hb false⟩

theorem true_isScalar : IsScalar [.lt, .lr, .lu, .le] := ⟨.lt, _, .t, true, .endValue, rfl, rfl, rfl, rfl⟩
theorem false_isScalar : IsScalar [.lf, .la, .ll, .ls, .le] := ⟨.lf, _, .f, true, .endValue, rfl, rfl, rfl, rfl⟩
theorem null_isScalar : IsScalar [.ln, .lu, .ll, .ll] := ⟨.ln, _, .n, true, .endValue, rfl, rfl, rfl, rfl⟩

def IsDigits (ds : List Cls) : Prop := ∀ c ∈ ds, c.isDigit = true

theorem digits_run (st : St) (hst : st = .d1 ∨ st = .dot0 ∨ st = .e0) (ds : List Cls) (hd : IsDigits ds) :
    silentRun st false ds = some (st, false) := by
  induction ds with
  | nil => rfl
  | cons c cs ih =>
    have hc := hd c (by simp)
    have : silent st false c = some (st, false) := by
      rcases hst with rfl | rfl | rfl <;> cases c <;> simp [Cls.isDigit] at hc <;> rfl
    simp only [silentRun, this]; exact ih (fun x hx => hd x (by simp [hx]))

/-- RFC number: `[-] int [frac] [exp]`, on byte classes -/
structure NumTok where
  neg : Bool
  int : List Cls                      -- `0` or a non-zero digit followed by digits
  frac : Option (Cls × List Cls)      -- first digit and the rest
  exp : Option (Cls × Option Cls × Cls × List Cls)   -- e/E, optional sign, first digit, rest

def NumTok.render (t : NumTok) : List Cls :=
  (if t.neg then [.minus] else []) ++ t.int ++
  (match t.frac with | none => [] | some (d, ds) => .dot :: d :: ds) ++
  (match t.exp with | none => [] | some (e, none, d, ds) => e :: d :: ds | some (e, some s, d, ds) => e :: s :: d :: ds)

structure NumTok.WF (t : NumTok) : Prop where
  int : t.int = [.zero] ∨ ∃ ds, t.int = .d19 :: ds ∧ IsDigits ds
  frac : ∀ d ds, t.frac = some (d, ds) → d.isDigit = true ∧ IsDigits ds
  exp : ∀ e s d ds, t.exp = some (e, s, d, ds) → (e = .le ∨ e = .uE) ∧ (∀ x, s = some x → x = .plus ∨ x = .minus) ∧
      d.isDigit = true ∧ IsDigits ds

theorem frac_run (s : St) (hs : s = .d0 ∨ s = .d1) (d : Cls) (ds : List Cls) (hd : d.isDigit = true)
    (hds : IsDigits ds) : silentRun s false (.dot :: d :: ds) = some (.dot0, false) := by
  have a : silent s false .dot = some (.dot, true) := by rcases hs with rfl | rfl <;> rfl
  have b : silent .dot true d = some (.dot0, false) := by cases d <;> simp [Cls.isDigit] at hd <;> rfl
  simp only [silentRun, a, b]
  exact digits_run .dot0 (Or.inr (Or.inl rfl)) ds hds

theorem exp_run (s : St) (hs : s = .d0 ∨ s = .d1 ∨ s = .dot0) (e : Cls) (he : e = .le ∨ e = .uE)
    (sg : Option Cls) (hsg : ∀ x, sg = some x → x = .plus ∨ x = .minus) (d : Cls) (ds : List Cls)
    (hd : d.isDigit = true) (hds : IsDigits ds) :
    silentRun s false (match sg with | none => e :: d :: ds | some x => e :: x :: d :: ds) = some (.e0, false) := by
  have a : silent s false e = some (.e, true) := by
    rcases hs with rfl | rfl | rfl <;> rcases he with rfl | rfl <;> rfl
  have c : silent .eSign true d = some (.e0, false) := by cases d <;> simp [Cls.isDigit] at hd <;> rfl
  have c' : silent .e true d = some (.e0, false) := by cases d <;> simp [Cls.isDigit] at hd <;> rfl
  cases sg with
  | none =>
    simp only [silentRun, a, c']
    exact digits_run .e0 (Or.inr (Or.inr rfl)) ds hds
  | some x =>
    have b : silent .e true x = some (.eSign, true) := by rcases hsg x rfl with rfl | rfl <;> rfl
    simp only [silentRun, a, b, c]
    exact digits_run .e0 (Or.inr (Or.inr rfl)) ds hds

/-- the part of a number after its integer part -/
def NumTok.tail (t : NumTok) : List Cls :=
  (match t.frac with | none => [] | some (d, ds) => .dot :: d :: ds) ++
  (match t.exp with | none => [] | some (e, none, d, ds) => e :: d :: ds | some (e, some s, d, ds) => e :: s :: d :: ds)

theorem tail_run (t : NumTok) (wf : t.WF) (s : St) (hs : s = .d0 ∨ s = .d1) :
    ∃ sE, PV sE = true ∧ silentRun s false t.tail = some (sE, false) := by
  obtain ⟨neg, int, frac, exp⟩ := t
  have hf := wf.frac
  have he := wf.exp
  simp only [NumTok.tail] at *
  cases frac with
  | none =>
    cases exp with
    | none => exact ⟨s, by rcases hs with rfl | rfl <;> rfl, rfl⟩
    | some q =>
      obtain ⟨e, sg, d, ds⟩ := q
      obtain ⟨h1, h2, h3, h4⟩ := he e sg d ds rfl
      refine ⟨.e0, rfl, ?_⟩
      have := exp_run s (by rcases hs with rfl | rfl <;> simp) e h1 sg h2 d ds h3 h4
      cases sg <;> simpa using this
  | some p =>
    obtain ⟨fd, fds⟩ := p
    obtain ⟨g1, g2⟩ := hf fd fds rfl
    have hfr := frac_run s hs fd fds g1 g2
    cases exp with
    | none => exact ⟨.dot0, rfl, by simpa using hfr⟩
    | some q =>
      obtain ⟨e, sg, d, ds⟩ := q
      obtain ⟨h1, h2, h3, h4⟩ := he e sg d ds rfl
      refine ⟨.e0, rfl, ?_⟩
      have := exp_run .dot0 (Or.inr (Or.inr rfl)) e h1 sg h2 d ds h3 h4
      rw [silentRun_append _ _ _ _ _ _ hfr]
      cases sg <;> simpa using this

theorem number_isScalar (t : NumTok) (wf : t.WF) : IsScalar t.render := by
  have hr : t.render = (if t.neg then [.minus] else []) ++ t.int ++ t.tail := by
    simp [NumTok.render, NumTok.tail, List.append_assoc]
  rw [hr]
  rcases wf.int with hz | ⟨ds, hi, hds⟩
  · -- integer part `0`
    obtain ⟨sE, hp, hrun⟩ := tail_run t wf .d0 (Or.inl rfl)
    rw [hz]
    cases t.neg
    · exact ⟨.zero, t.tail, .d0, false, sE, by simp, rfl, hrun, hp⟩
    · refine ⟨.minus, .zero :: t.tail, .neg, true, sE, by simp, rfl, ?_, hp⟩
      have a : silent .neg true .zero = some (.d0, false) := rfl
      simp only [silentRun, a]; exact hrun
  · -- integer part without leading zero
    obtain ⟨sE, hp, hrun⟩ := tail_run t wf .d1 (Or.inr rfl)
    have hdig := digits_run .d1 (Or.inl rfl) ds hds
    rw [hi]
    cases t.neg
    · refine ⟨.d19, ds ++ t.tail, .d1, false, sE, by simp, rfl, ?_, hp⟩
      rw [silentRun_append _ _ _ _ _ _ hdig]; exact hrun
    · refine ⟨.minus, .d19 :: (ds ++ t.tail), .neg, true, sE, by simp, rfl, ?_, hp⟩
      have a : silent .neg true .d19 = some (.d1, false) := rfl
      simp only [silentRun, a]
      rw [silentRun_append _ _ _ _ _ _ hdig]; exact hrun

#print axioms number_isScalar

/-! non-vacuity: `{"a": [1, true], "b": -0.5e+1}` with some layout -/
def sampleTree : JA :=
  .obj [.sp] [([], [.quote, .la, .quote], [.sp], [.sp],
                .arr [] [([], .scalar [.d19], []), ([.sp], .scalar [.lt, .lr, .lu, .le], [.wsctl])], []),
              ([.wsctl], [.quote, .lb, .quote], [], [], .scalar [.minus, .zero, .dot, .d19, .le, .plus, .d19], [.sp])]

example : eventsLoop false sampleTree.render.length sampleTree.render 0 {} [] = .ok (evsAt 0 sampleTree) := by rfl

example : sampleTree.Valid := by
  have k1 : IsKey [.quote, .la, .quote] := string_isKey [.la] (.plain _ _ rfl .nil)
  have k2 : IsKey [.quote, .lb, .quote] := string_isKey [.lb] (.plain _ _ rfl .nil)
  have n1 : IsScalar [.d19] := ⟨.d19, [], .d1, false, .d1, rfl, rfl, rfl, rfl⟩
  have n2 : IsScalar [.minus, .zero, .dot, .d19, .le, .plus, .d19] :=
    ⟨.minus, _, .neg, true, .e0, rfl, rfl, rfl, rfl⟩
  simp [sampleTree, JA.Valid, ValidMembers, ValidItems, IsWs, Cls.isWs, k1, k2, n1, n2, true_isScalar]

#eval (evsAt 0 sampleTree).map fun e => (LexT.name e.ty, e.b, e.e)

end JsonScan
