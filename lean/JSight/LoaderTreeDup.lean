import JSight.LoaderTree
/-!
C16 (loader part), the duplicate-key case: the first member key (in source order, anywhere in the tree) whose
decoded text (`keyText`) repeats an earlier key of the same object makes the loader stop with error 402
(`LErr.duplicateKey`) at that key token's offset — and every tree is in exactly one of the two cases
(`keys_dichotomy`): all objects have distinct keys (`KeysDistinct`, then `C16_load_mirrors_tree`) or there is a
first duplicate (`DupAt`, then `C16_load_duplicate_key`).
-/
namespace Loader
open SchemaScan (Ev LexT Cls Tree nlEvs schemaEvsAt evsItems evsMembers)

/-- from every loader state with the given core, folding `step` over `evs` ends in the error `err` -/
def Fail (src : Array UInt8) (evs : List Ev) (L : List Node) (leaf root : Option Nat) (err : LErr) : Prop :=
  ∀ st, Core st L leaf root → evs.foldlM (step src) st = .error err

theorem Fail.append {src : Array UInt8} {a : List Ev} {L : List Node} {l r : Option Nat} {err : LErr}
    (h : Fail src a L l r err) (b : List Ev) : Fail src (a ++ b) L l r err := by
  intro st hc
  rw [List.foldlM_append, h st hc]
  rfl

theorem Run.thenFail {src : Array UInt8} {a b : List Ev} {L L' : List Node} {l l' r r' : Option Nat} {err : LErr}
    (h1 : Run src a L l r L' l' r') (h2 : Fail src b L' l' r' err) : Fail src (a ++ b) L l r err := by
  intro st hc
  obtain ⟨st1, e1, c1⟩ := h1 st hc
  rw [List.foldlM_append, e1]
  exact h2 st1 c1

theorem Fail.cast {src : Array UInt8} {a a' : List Ev} {L : List Node} {l r : Option Nat} {err : LErr}
    (h : Fail src a L l r err) (ha : a = a') : Fail src a' L l r err := ha ▸ h

theorem F_keyE (src : Array UInt8) (x y i : Nat) (n : Node) (L : List Node) (r : Option Nat)
    (hn : L[i]? = some n) (hk : n.kind = .obj) (hw : n.waiting = false)
    (hd : n.keys.any (fun k' => keyText src k' == keyText src (x, y, false)) = true) :
    Fail src [⟨.keyE, x, y⟩] L (some i) r (.duplicateKey x) := by
  intro st hc
  simp only [List.foldlM_cons, step_keyE_dup src x y i n L r st hc hn hk hw hd, bind, Except.bind]

mutual
/-- `p` is the offset of the first key token (in source order) that repeats, after decoding, an earlier key of
its object -/
def DupAt (src : Array UInt8) (p : Nat) : Nat → Tree → Prop
  | _, .scalar _ => False
  | o, .arr ws0 its => DupItems src p (o + 1 + ws0.length) its
  | o, .obj ws0 ms => DupMembers src p [] (o + 1 + ws0.length) ms
def DupItems (src : Array UInt8) (p : Nat) : Nat → List Item → Prop
  | _, [] => False
  | o, (w1, v, w2) :: its =>
    DupAt src p (o + w1.length) v ∨
      (KeysDistinct src (o + w1.length) v ∧ DupItems src p (nextItem o w1 v w2 its) its)
/-- `ks`: the key entries of the earlier members of the same object -/
def DupMembers (src : Array UInt8) (p : Nat) : List (Nat × Nat × Bool) → Nat → List Member → Prop
  | _, _, [] => False
  | ks, o, (w1, k, w2, w3, v, w4) :: ms =>
    (ks.any (fun k' => keyText src k' == keyText src (kspan o w1 k)) = true ∧ p = o + w1.length) ∨
    (ks.any (fun k' => keyText src k' == keyText src (kspan o w1 k)) = false ∧
      (DupAt src p (valOff o w1 k w2 w3) v ∨
        (KeysDistinct src (valOff o w1 k w2 w3) v ∧
          DupMembers src p (ks ++ [kspan o w1 k]) (nextMember o w1 k w2 w3 v w4 ms) ms)))
end

mutual
theorem body_fail (src : Array UInt8) (p : Nat) : (v : Tree) → (par : Option Nat) → (L0 : List Node) → (o : Nat) →
    (r : Option Nat) → DupAt src p o v →
    Fail src (bodyEvs o v) (L0 ++ [fresh (kindOf v) par]) (some L0.length) r (.duplicateKey p)
  | .scalar _, _, _, _, _, hd => by simp [DupAt] at hd
  | .arr ws0 its, par, L0, o, r, hd => by
    have hd' : DupItems src p (o + 1 + ws0.length) its := by simpa [DupAt] using hd
    have h1 := R_nl src (L0 ++ [fresh .arr par]) (some L0.length) r ws0 (o + 1)
    have h2 := items_fail src p its o L0.length (fresh .arr par) (L0 ++ [fresh .arr par]) (o + 1 + ws0.length) r
      (getElem?_last _ _) rfl rfl hd'
    exact h1.thenFail h2
  | .obj ws0 ms, par, L0, o, r, hd => by
    have hd' : DupMembers src p [] (o + 1 + ws0.length) ms := by simpa [DupAt] using hd
    have h1 := R_nl src (L0 ++ [fresh .obj par]) (some L0.length) r ws0 (o + 1)
    have h2 := members_fail src p ms o L0.length (fresh .obj par) (L0 ++ [fresh .obj par]) (o + 1 + ws0.length) r
      (getElem?_last _ _) rfl rfl hd'
    exact h1.thenFail h2
theorem items_fail (src : Array UInt8) (p : Nat) : (its : List Item) → (x a : Nat) → (na : Node) → (L : List Node) →
    (o : Nat) → (r : Option Nat) → L[a]? = some na → na.kind = .arr → na.waiting = false → DupItems src p o its →
    Fail src (evsItems x o its) L (some a) r (.duplicateKey p)
  | [], _, _, _, _, _, _, _, _, _, hd => by simp [DupItems] at hd
  | (w1, v, w2) :: its, x, a, na, L, o, r, hn, hk, hw, hd => by
    obtain ⟨hlt, _⟩ := List.getElem?_eq_some_iff.mp hn
    have h1 := item_open_run src v w1 a na L o r hn hk hw
    have hd' : DupAt src p (o + w1.length) v ∨
        (KeysDistinct src (o + w1.length) v ∧ DupItems src p (nextItem o w1 v w2 its) its) := by
      simpa [DupItems] using hd
    rcases hd' with hdv | ⟨hdv, hdi⟩
    · have h2 := body_fail src p v (some a) (L.set a (addChild na L.length)) (o + w1.length) r hdv
      refine ((h1.thenFail h2).append (⟨.itemE, o + w1.length, o + w1.length + v.render.length - 1⟩ ::
        (nlEvs (o + w1.length + v.render.length) w2 ++ evsItems x (nextItem o w1 v w2 its) its))).cast ?_
      simp [evsItems, schemaEvsAt_eq, nextItem]
    · have h2 := body_run src v (some a) (L.set a (addChild na L.length)) (o + w1.length) r hdv
      have hn2 := getElem?_set_append L
        (nodesOf (some a) (L.set a (addChild na L.length)).length (o + w1.length) v) a (addChild na L.length) hlt
      have h3 := item_close_run src w2 a (o + w1.length) (o + w1.length + v.render.length - 1)
        (o + w1.length + v.render.length) _ _ r hn2 hk hw
      have h4 := items_fail src p its x a _ _ (nextItem o w1 v w2 its) r hn2 hk hw hdi
      refine (h1.thenFail (h2.thenFail (h3.thenFail h4))).cast ?_
      simp [evsItems, schemaEvsAt_eq, nextItem]
theorem members_fail (src : Array UInt8) (p : Nat) : (ms : List Member) → (x a : Nat) → (na : Node) →
    (L : List Node) → (o : Nat) → (r : Option Nat) → L[a]? = some na → na.kind = .obj → na.waiting = false →
    DupMembers src p na.keys o ms →
    Fail src (evsMembers x o ms) L (some a) r (.duplicateKey p)
  | [], _, _, _, _, _, _, _, _, _, hd => by simp [DupMembers] at hd
  | (w1, k, w2, w3, v, w4) :: ms, x, a, na, L, o, r, hn, hk, hw, hd => by
    obtain ⟨hlt, _⟩ := List.getElem?_eq_some_iff.mp hn
    have hd' : (na.keys.any (fun k' => keyText src k' == keyText src (kspan o w1 k)) = true ∧ p = o + w1.length) ∨
        (na.keys.any (fun k' => keyText src k' == keyText src (kspan o w1 k)) = false ∧
          (DupAt src p (valOff o w1 k w2 w3) v ∨
            (KeysDistinct src (valOff o w1 k w2 w3) v ∧
              DupMembers src p (na.keys ++ [kspan o w1 k]) (nextMember o w1 k w2 w3 v w4 ms) ms))) := by
      simpa only [DupMembers] using hd
    rcases hd' with ⟨hany, rfl⟩ | ⟨hany, hdv | ⟨hdv, hdm⟩⟩
    · -- the key itself is the duplicate
      have s1 := R_nl src L (some a) r w1 o
      have s2 := R_keyB src (o + w1.length) (o + w1.length) a na L r hn hk hw
      have s3 := F_keyE src (o + w1.length) (o + w1.length + k.length - 1) a na L r hn hk hw hany
      refine ((s1.thenFail (s2.thenFail s3)).append (nlEvs (o + w1.length + k.length) w2 ++
        (nlEvs (o + w1.length + k.length + w2.length + 1) w3 ++
          (⟨.valB, valOff o w1 k w2 w3, valOff o w1 k w2 w3⟩ :: (schemaEvsAt (valOff o w1 k w2 w3) v ++
            (⟨.valE, valOff o w1 k w2 w3, valOff o w1 k w2 w3 + v.render.length - 1⟩ ::
              (nlEvs (valOff o w1 k w2 w3 + v.render.length) w4 ++
                evsMembers x (nextMember o w1 k w2 w3 v w4 ms) ms))))))).cast ?_
      simp [evsMembers, nextMember, valOff]
    · have h1 := member_open_run src v w1 k w2 w3 a na L o r hn hk hw hany
      have h2 := body_fail src p v (some a) (L.set a (addMember na L.length (kspan o w1 k))) (valOff o w1 k w2 w3) r hdv
      refine ((h1.thenFail h2).append (⟨.valE, valOff o w1 k w2 w3, valOff o w1 k w2 w3 + v.render.length - 1⟩ ::
        (nlEvs (valOff o w1 k w2 w3 + v.render.length) w4 ++ evsMembers x (nextMember o w1 k w2 w3 v w4 ms) ms))).cast ?_
      simp [evsMembers, schemaEvsAt_eq, nextMember, valOff]
    · have h1 := member_open_run src v w1 k w2 w3 a na L o r hn hk hw hany
      have h2 := body_run src v (some a) (L.set a (addMember na L.length (kspan o w1 k))) (valOff o w1 k w2 w3) r hdv
      have hn2 := getElem?_set_append L
        (nodesOf (some a) (L.set a (addMember na L.length (kspan o w1 k))).length (valOff o w1 k w2 w3) v) a
        (addMember na L.length (kspan o w1 k)) hlt
      have h3 := member_close_run src w4 a (valOff o w1 k w2 w3) (valOff o w1 k w2 w3 + v.render.length - 1)
        (valOff o w1 k w2 w3 + v.render.length) _ _ r hn2 hk hw
      have h4 := members_fail src p ms x a _ _ (nextMember o w1 k w2 w3 v w4 ms) r hn2 hk hw hdm
      refine (h1.thenFail (h2.thenFail (h3.thenFail h4))).cast ?_
      simp [evsMembers, schemaEvsAt_eq, nextMember, valOff]
end

/-- **C16 (loader), duplicate keys, event-list form.** If `p` is the offset of the first key token that repeats an
earlier key of its object (after decoding), `load` fails with error 402 at `p`. -/
theorem C16_load_duplicate_key (src : Array UInt8) (v : Tree) (ws0 ws1 : List Cls) (p : Nat)
    (hd : DupAt src p ws0.length v) :
    load src (nlEvs 0 ws0 ++ (schemaEvsAt ws0.length v ++ nlEvs (ws0.length + v.render.length) ws1))
      = .error (.duplicateKey p) := by
  have h1 := R_root src (openEv ws0.length v) (kindOf v) (openEv_plain _ v) (openEv_kind _ v) [] none
  have h2 := body_fail src p v none [] ws0.length (some 0) hd
  have h := ((R_nl src [] none none ws0 0).thenFail ((h1.thenFail h2).append
    (nlEvs (ws0.length + v.render.length) ws1))) {} core_init
  simpa [load, schemaEvsAt_eq] using h

theorem loadLoop_of_emits_err (src : Array UInt8) {data : Array Cls} {sc : SchemaScan.Sc} {evs : List Ev}
    (h : SchemaScan.Emits data sc evs) :
    ∀ (fuel : Nat) (st : St) (err : LErr), evs.length < fuel → evs.foldlM (step src) st = .error err →
      loadLoop src data fuel sc st = .error (showLErr err) := by
  induction h with
  | nil hn =>
    intro fuel st err _ hfold
    simp [pure, Except.pure] at hfold
  | cons hn _ ih =>
    intro fuel st err hf hfold
    cases fuel with
    | zero => cases hf
    | succ f =>
      rw [loadLoop]
      simp only [hn.next]
      simp only [List.foldlM_cons, bind, Except.bind] at hfold
      split at hfold
      · rename_i e1 hs
        cases hfold
        simp only [hs]
      · rename_i st1 hs
        simp only [hs]
        exact ih f st1 err (by simpa using hf) hfold

/-- **C16, duplicate keys, end to end (interleaved form).** `loadText` on the rendering of a valid plain-JSON tree
with a first duplicate key at `p` reports `ERR 402 p`. -/
theorem C16_loadText_duplicate_key (v : Tree) (hv : v.Valid) (ws0 ws1 : List Cls)
    (h0 : SchemaScan.IsWs ws0) (h1 : SchemaScan.IsWs ws1)
    (bs : List UInt8) (hbs : bs.map SchemaScan.classify = ws0 ++ (v.render ++ ws1)) (p : Nat)
    (hd : DupAt bs.toArray p ws0.length v) :
    loadText bs = .error (showLErr (.duplicateKey p)) := by
  have h := C16_load_duplicate_key bs.toArray v ws0 ws1 p hd
  unfold loadText
  simp only [hbs]
  refine loadLoop_of_emits_err bs.toArray (SchemaScan.emits_of_tree v hv ws0 ws1 h0 h1) _ {} _ ?_ h
  have a := SchemaScan.nlEvs_length 0 ws0
  have b := SchemaScan.nlEvs_length (ws0.length + v.render.length) ws1
  have c := SchemaScan.evs_length v hv ws0.length
  simp only [List.length_append, List.size_toArray]
  omega

#print axioms C16_load_duplicate_key
#print axioms C16_loadText_duplicate_key

/-! ### every tree is in exactly one of the two cases -/

theorem nodup_snoc (src : Array UInt8) (ks : List (Nat × Nat × Bool)) (kk : Nat × Nat × Bool)
    (h : (ks.map (keyText src)).Nodup) (hany : ks.any (fun k' => keyText src k' == keyText src kk) = false) :
    ((ks ++ [kk]).map (keyText src)).Nodup := by
  rw [List.any_eq_false] at hany
  rw [List.map_append, List.nodup_append]
  refine ⟨h, by simp, ?_⟩
  intro x hx y hy
  obtain ⟨k', hk', rfl⟩ := List.mem_map.mp hx
  simp only [List.map_cons, List.map_nil, List.mem_singleton] at hy
  subst hy
  intro heq
  exact hany k' hk' (by simpa using heq)

mutual
theorem keys_dichotomy (src : Array UInt8) : (v : Tree) → (o : Nat) → KeysDistinct src o v ∨ ∃ p, DupAt src p o v
  | .scalar _, _ => Or.inl (by simp [KeysDistinct])
  | .arr ws0 its, o => by
    rcases items_dichotomy src its (o + 1 + ws0.length) with h | ⟨p, h⟩
    · exact Or.inl (by simpa [KeysDistinct] using h)
    · exact Or.inr ⟨p, by simpa [DupAt] using h⟩
  | .obj ws0 ms, o => by
    rcases members_dichotomy src ms [] (o + 1 + ws0.length) (by simp) with h | ⟨p, h⟩
    · exact Or.inl (by simpa [KeysDistinct] using h)
    · exact Or.inr ⟨p, by simpa [DupAt] using h⟩
theorem items_dichotomy (src : Array UInt8) : (its : List Item) → (o : Nat) →
    DistinctItems src o its ∨ ∃ p, DupItems src p o its
  | [], _ => Or.inl (by simp [DistinctItems])
  | (w1, v, w2) :: its, o => by
    rcases keys_dichotomy src v (o + w1.length) with hv | ⟨p, hv⟩
    · rcases items_dichotomy src its (nextItem o w1 v w2 its) with hi | ⟨p, hi⟩
      · exact Or.inl (by simpa [DistinctItems] using ⟨hv, hi⟩)
      · exact Or.inr ⟨p, by simpa [DupItems] using Or.inr ⟨hv, hi⟩⟩
    · exact Or.inr ⟨p, by simpa [DupItems] using Or.inl hv⟩
theorem members_dichotomy (src : Array UInt8) : (ms : List Member) → (ks : List (Nat × Nat × Bool)) → (o : Nat) →
    (ks.map (keyText src)).Nodup →
    (((ks ++ keysMembers o ms).map (keyText src)).Nodup ∧ DistinctMembers src o ms) ∨ ∃ p, DupMembers src p ks o ms
  | [], ks, _, hks => Or.inl (by simpa [keysMembers, DistinctMembers] using hks)
  | (w1, k, w2, w3, v, w4) :: ms, ks, o, hks => by
    cases hany : ks.any (fun k' => keyText src k' == keyText src (kspan o w1 k)) with
    | true => exact Or.inr ⟨o + w1.length, by simp only [DupMembers]; exact Or.inl ⟨hany, trivial⟩⟩
    | false =>
      rcases keys_dichotomy src v (valOff o w1 k w2 w3) with hv | ⟨p, hv⟩
      · rcases members_dichotomy src ms (ks ++ [kspan o w1 k]) (nextMember o w1 k w2 w3 v w4 ms)
          (nodup_snoc src ks _ hks hany) with ⟨hn, hm⟩ | ⟨p, hm⟩
        · refine Or.inl ⟨?_, by simpa [DistinctMembers] using ⟨hv, hm⟩⟩
          simpa [keysMembers] using hn
        · exact Or.inr ⟨p, by simp only [DupMembers]; exact Or.inr ⟨hany, Or.inr ⟨hv, hm⟩⟩⟩
      · exact Or.inr ⟨p, by simp only [DupMembers]; exact Or.inr ⟨hany, Or.inl hv⟩⟩
end

/-- the two cases exclude each other, and the first duplicate is unique -/
theorem dup_excludes_distinct (src : Array UInt8) (v : Tree) (o p : Nat) (hd : KeysDistinct src o v) :
    ¬ DupAt src p o v := by
  intro hdup
  have hl : (List.replicate o Cls.sp).length = o := by simp
  obtain ⟨st, h, _⟩ := C16_load_mirrors_tree src v (List.replicate o Cls.sp) [] (by rw [hl]; exact hd)
  have h2 := C16_load_duplicate_key src v (List.replicate o Cls.sp) [] p (by rw [hl]; exact hdup)
  rw [h] at h2
  cases h2

theorem dup_unique (src : Array UInt8) (v : Tree) (o p q : Nat) (hp : DupAt src p o v) (hq : DupAt src q o v) :
    p = q := by
  have hl : (List.replicate o Cls.sp).length = o := by simp
  have h1 := C16_load_duplicate_key src v (List.replicate o Cls.sp) [] p (by rw [hl]; exact hp)
  have h2 := C16_load_duplicate_key src v (List.replicate o Cls.sp) [] q (by rw [hl]; exact hq)
  rw [h1] at h2
  injection h2 with h2
  injection h2

/-- **C16 (loader), both cases.** On the events of any plain-JSON value tree `load` either builds exactly the node
table `nodesOf` of the tree (all objects have pairwise distinct decoded keys), or stops with error 402 at the first
repeated key. -/
theorem C16_load_total (src : Array UInt8) (v : Tree) (ws0 ws1 : List Cls) :
    (∃ st, load src (nlEvs 0 ws0 ++ (schemaEvsAt ws0.length v ++ nlEvs (ws0.length + v.render.length) ws1)) = .ok st ∧
      st.root = some 0 ∧ st.nodes.toList = nodesOf none 0 ws0.length v) ∨
    (∃ p, DupAt src p ws0.length v ∧
      load src (nlEvs 0 ws0 ++ (schemaEvsAt ws0.length v ++ nlEvs (ws0.length + v.render.length) ws1))
        = .error (.duplicateKey p)) := by
  rcases keys_dichotomy src v ws0.length with h | ⟨p, h⟩
  · obtain ⟨st, h1, h2, h3, _⟩ := C16_load_mirrors_tree src v ws0 ws1 h
    exact Or.inl ⟨st, h1, h2, h3⟩
  · exact Or.inr ⟨p, h, C16_load_duplicate_key src v ws0 ws1 p h⟩

#print axioms C16_load_total

end Loader
