import JSight.ValidateK
/-!
C03, allOf as coded (`notations/jschema/internal/loader/compiler_all_of.go`), over the richest validator
schema type (`VK.S`: named types, additionalProperties, key shortcuts).

What the Go code does, and how it is transliterated:

* `CompileAllOf` walks the root schema, then every type of the table in sorted name order (`compileAll`).
* `processNode`: a node carrying an `allOf` rule is *extended first* (`extend` → `extendWith` for every name,
  in list order), then all its children are processed. The inherited children are nodes of already
  compiled types: processing them again changes nothing, so the model compiles the own children only and
  appends the inherited ones (`compileWith`, object case). The order of the two phases is kept because it
  decides which error is reported.
* `extendWith(node, name)`: `processType(name)` (may fail: recursion 703, unknown type 1302, any error
  inside the type), the type's root must be an object (704), the extended node must be an object (1117),
  the additionalProperties rule is merged (`mergeAdd`: copied when the node has none, otherwise the two
  must be `IsEqual` — which compares the schema type and the type name only, NOT the mode, so `"any"`,
  `true` and `false` are all "equal" — else 705), the children are appended one by one with their keys
  (`addKeys`: a (key, isShortcut) pair met before is error 402), the base's required keys are appended to
  the node's required-key list.
* `processType(name)`: in-progress set (`proc`) → 703; `MustType` → 1302; the memo `compiledTypes` is
  not modelled (the type is expanded again: same result, see `AllOfKProofs.processType_proc_irrelevant`);
  the recursion is on a fuel parameter that `AllOfKProofs.compileAll_never_out_of_fuel` shows sufficient.
* an empty `allOf` list is error 809.
-/
namespace AOK
open VK (AddMode)
variable {L : Type}

/-- the `AdditionalProperties` constraint as loaded: `"any"`/`true`, explicit `false`, `"object"`, `"array"`,
a scalar schema type, `"@T"` -/
inductive AP (L : Type)
  | any | no | obj | arr
  | lit (l : L)
  | type (name : String)

/-- `AdditionalProperties.IsEqual`: `schemaType == schemaType && typeName == typeName`; the mode is not compared -/
def AP.isEqual [DecidableEq L] : AP L → AP L → Bool
  | .any, .any | .any, .no | .no, .any | .no, .no => true
  | .obj, .obj | .arr, .arr => true
  | .lit a, .lit b => a == b
  | .type a, .type b => a == b
  | _, _ => false

/-- what the object validator does with the (possibly absent) constraint -/
def modeOf : Option (AP L) → AddMode L
  | none | some .no => .none
  | some .any => .any
  | some .obj => .obj
  | some .arr => .arr
  | some (.lit l) => .lit l
  | some (.type n) => .type n

/-- schemas as loaded and compiled by `CompileBasic`: an object entry is (key, isShortcut, required, child)
— a shortcut's key is kept without its `@`; objects may carry additionalProperties and allOf; `bad` is any
non-object node that carries an allOf rule -/
inductive PS (L : Type)
  | lit (l : L)
  | any
  | arr (items : List (PS L))
  | obj (ents : List (String × Bool × Bool × PS L)) (add : Option (AP L)) (allOf : Option (List String))
  | ref (names : List String) (nul : Option L)
  | bad (allOf : List String)

/-- schemas after `CompileAllOf`: no allOf left; an object has its children (own, then inherited), its
RequiredKeys list and its additionalProperties constraint -/
inductive CS (L : Type)
  | lit (l : L)
  | any
  | arr (items : List (CS L))
  | obj (ents : List (String × Bool × Bool × CS L)) (req : List String) (add : Option (AP L))
  | ref (names : List String) (nul : Option L)

abbrev PEnv (L : Type) := List (String × PS L)
def lookupP (env : PEnv L) (n : String) : Option (PS L) := (env.find? (·.1 == n)).map (·.2)

inductive Err
  | recursion            -- 703 ErrUnacceptableRecursionInAllOfRule
  | unknownType          -- 1302 ErrTypeNotFound
  | notObject            -- 704 ErrUnacceptableUserTypeInAllOfRule
  | unexpectedConstraint -- 1117 ErrUnexpectedConstraint (allOf on a node that is not an object)
  | duplicateKey         -- 402 ErrDuplicateKeysInSchema
  | conflictAdd          -- 705 ErrConflictAdditionalProperties
  | emptyAllOf           -- 809 ErrTypeNameNotFoundInAllOfRule
  | fuel                 -- never returned by `compileAll` (`compileAll_never_out_of_fuel`)
  deriving DecidableEq, Repr

def Err.code : Err → Nat
  | .recursion => 703 | .unknownType => 1302 | .notObject => 704 | .unexpectedConstraint => 1117
  | .duplicateKey => 402 | .conflictAdd => 705 | .emptyAllOf => 809 | .fuel => 0

/-- the key string the Go code keeps (`ObjectNodeKey.Key`, RequiredKeys): a shortcut's key includes the `@` -/
def goKey (k : String) (short : Bool) : String := if short then "@" ++ k else k

/-- (key, isShortcut): what `ObjectNodeKeys` indexes by -/
def keyOf {X : Type} (e : String × Bool × Bool × X) : String × Bool := (e.1, e.2.1)

/-- the RequiredKeys list `CompileBasic` builds: the keys of the children that are not optional, in order -/
def reqOf {X : Type} (ents : List (String × Bool × Bool × X)) : List String :=
  (ents.filter (fun e => e.2.2.1)).map (fun e => goKey e.1 e.2.1)

/-- the state of the object being extended, as far as `extendWith` reads or writes it -/
structure Acc (L : Type) where
  keys : List (String × Bool)                      -- `ObjectNodeKeys`
  inh : List (String × Bool × Bool × CS L)         -- children appended so far
  req : List String                                -- RequiredKeys
  add : Option (AP L)                              -- additionalProperties constraint

/-- additionalProperties: absent in the base → nothing; absent in the node → copied; both → must be `IsEqual` -/
def mergeAdd [DecidableEq L] (to : Option (AP L)) : Option (AP L) → Except Err (Option (AP L))
  | none => .ok to
  | some b =>
    match to with
    | none => .ok (some b)
    | some a => if b.isEqual a then .ok (some a) else .error .conflictAdd

/-- `AddChild` for every child of the base: `ObjectNodeKeys.Set` panics on a (key, isShortcut) met before -/
def addKeys (keys : List (String × Bool)) : List (String × Bool) → Except Err (List (String × Bool))
  | [] => .ok keys
  | k :: ks => if keys.contains k then .error .duplicateKey else addKeys (keys ++ [k]) ks

/-- `extendWith(node, name)` for an object node; `pt` = `processType` -/
def extendWith [DecidableEq L] (pt : String → Except Err (CS L)) (acc : Acc L) (n : String) : Except Err (Acc L) :=
  match pt n with
  | .error e => .error e
  | .ok (.obj bents breq badd) =>
    match mergeAdd acc.add badd with
    | .error e => .error e
    | .ok add' =>
      match addKeys acc.keys (bents.map keyOf) with
      | .error e => .error e
      | .ok keys' => .ok ⟨keys', acc.inh ++ bents, acc.req ++ breq, add'⟩
  | .ok _ => .error .notObject

/-- `extend(node, names)` for an object node -/
def extendAll [DecidableEq L] (pt : String → Except Err (CS L)) : Acc L → List String → Except Err (Acc L)
  | acc, [] => .ok acc
  | acc, n :: ns =>
    match extendWith pt acc n with
    | .error e => .error e
    | .ok acc' => extendAll pt acc' ns

def isObj : CS L → Bool
  | .obj _ _ _ => true
  | _ => false

/-- the allOf phase of `processNode` on an object -/
def extendObj [DecidableEq L] (pt : String → Except Err (CS L)) (acc0 : Acc L) : Option (List String) → Except Err (Acc L)
  | none => .ok acc0
  | some [] => .error .emptyAllOf
  | some (n :: ns) => extendAll pt acc0 (n :: ns)

/-- the allOf phase of `processNode` on a node that is not an object: it always fails -/
def extendBad (pt : String → Except Err (CS L)) : List String → Err
  | [] => .emptyAllOf
  | n :: _ =>
    match pt n with
    | .error e => e
    | .ok b => if isObj b then .unexpectedConstraint else .notObject

mutual
/-- `processNode`, `pt` = `processType` under the current in-progress set -/
def compileWith [DecidableEq L] (pt : String → Except Err (CS L)) : PS L → Except Err (CS L)
  | .lit l => .ok (.lit l)
  | .any => .ok .any
  | .ref names nul => .ok (.ref names nul)
  | .bad names => .error (extendBad pt names)
  | .arr items =>
    match compileList pt items with
    | .error e => .error e
    | .ok items' => .ok (.arr items')
  | .obj ents add allOf =>
    match extendObj pt ⟨ents.map keyOf, [], reqOf ents, add⟩ allOf with
    | .error e => .error e
    | .ok acc =>
      match compileEnts pt ents with
      | .error e => .error e
      | .ok own => .ok (.obj (own ++ acc.inh) acc.req acc.add)
def compileList [DecidableEq L] (pt : String → Except Err (CS L)) : List (PS L) → Except Err (List (CS L))
  | [] => .ok []
  | x :: xs =>
    match compileWith pt x with
    | .error e => .error e
    | .ok x' =>
      match compileList pt xs with
      | .error e => .error e
      | .ok xs' => .ok (x' :: xs')
def compileEnts [DecidableEq L] (pt : String → Except Err (CS L)) :
    List (String × Bool × Bool × PS L) → Except Err (List (String × Bool × Bool × CS L))
  | [] => .ok []
  | (k, sh, r, v) :: es =>
    match compileWith pt v with
    | .error e => .error e
    | .ok v' =>
      match compileEnts pt es with
      | .error e => .error e
      | .ok es' => .ok ((k, sh, r, v') :: es')
end

/-- `processType(name)` while the types `proc` are being processed -/
def processType [DecidableEq L] (env : PEnv L) : Nat → List String → String → Except Err (CS L)
  | 0, _, _ => .error .fuel
  | fuel + 1, proc, n =>
    if proc.contains n then .error .recursion
    else
      match lookupP env n with
      | none => .error .unknownType
      | some t => compileWith (fun m => processType env fuel (n :: proc) m) t

/-- insertion of a name into a sorted list (`sort.Strings`) -/
def insertName (n : String) : List String → List String
  | [] => [n]
  | m :: ms => if n < m then n :: m :: ms else m :: insertName n ms

def sortNames (ns : List String) : List String := ns.foldr insertName []

/-- the first error of `processType` over the names, in order -/
def firstErr [DecidableEq L] (env : PEnv L) (fuel : Nat) : List String → Option Err
  | [] => none
  | n :: ns =>
    match processType env fuel [] n with
    | .error e => some e
    | .ok _ => firstErr env fuel ns

def compileTypes [DecidableEq L] (env : PEnv L) (fuel : Nat) : List String → Except Err (List (String × CS L))
  | [] => .ok []
  | n :: ns =>
    match processType env fuel [] n with
    | .error e => .error e
    | .ok c =>
      match compileTypes env fuel ns with
      | .error e => .error e
      | .ok cs => .ok ((n, c) :: cs)

/-- `CompileAllOf`: the root, then every type in sorted name order; result: the compiled type table (in the
order of `env`) and the compiled root -/
def compileAll [DecidableEq L] (env : PEnv L) (root : PS L) : Except Err (List (String × CS L) × CS L) :=
  let fuel := env.length + 1
  match compileWith (fun m => processType env fuel [] m) root with
  | .error e => .error e
  | .ok root' =>
    match firstErr env fuel (sortNames (env.map (·.1))) with
    | some e => .error e
    | none =>
      match compileTypes env fuel (env.map (·.1)) with
      | .error e => .error e
      | .ok env' => .ok (env', root')

/-! ### what the validator is given -/

mutual
def toVK : CS L → VK.S L
  | .lit l => .lit l
  | .any => .any
  | .ref names nul => .ref names nul
  | .arr items => .arr (toVKList items)
  | .obj ents _ add => .obj (plainOf ents) (shortsOf ents) (modeOf add)
def toVKList : List (CS L) → List (VK.S L)
  | [] => []
  | x :: xs => toVK x :: toVKList xs
/-- the children under plain keys, in order -/
def plainOf : List (String × Bool × Bool × CS L) → List (String × Bool × VK.S L)
  | [] => []
  | (k, sh, r, v) :: es => if sh then plainOf es else (k, r, toVK v) :: plainOf es
/-- the children under key shortcuts, in order -/
def shortsOf : List (String × Bool × Bool × CS L) → List (String × Bool × VK.S L)
  | [] => []
  | (k, sh, r, v) :: es => if sh then (k, r, toVK v) :: shortsOf es else shortsOf es
end

def toVKEnv (env : List (String × CS L)) : VK.Env L := env.map (fun p => (p.1, toVK p.2))

end AOK
