import JSight.KeyOrder
/-!
C13, property order with key shortcuts, whole documents: `VN.J.PermEq` = "the same JSON value up to the order of the
properties, at every depth"; `unambDeep` = key-unambiguity (`KeyOrder.unamb`) at every object the validator visits
(every alternative of the schema position a value is assigned to — literal key, first admitting shortcut,
`additionalProperties: "@T"` — and every array element). Under it `PermEq` documents get the same verdict.
-/
namespace VN.J
variable {D : Type}

mutual
/-- the same JSON value up to property order at every depth: the members of an object are re-spelled one by one
(same keys, `PermEq` values) and then permuted -/
inductive PermEq : J D → J D → Prop
  | lit (d : D) : PermEq (.lit d) (.lit d)
  | arr {xs ys : List (J D)} : PermEqItems xs ys → PermEq (.arr xs) (.arr ys)
  | obj {ms ms'' ms' : List (String × J D)} : PermEqMembers ms ms'' → ms''.Perm ms' → PermEq (.obj ms) (.obj ms')
inductive PermEqItems : List (J D) → List (J D) → Prop
  | nil : PermEqItems [] []
  | cons {x y : J D} {xs ys : List (J D)} : PermEq x y → PermEqItems xs ys → PermEqItems (x :: xs) (y :: ys)
inductive PermEqMembers : List (String × J D) → List (String × J D) → Prop
  | nil : PermEqMembers [] []
  | cons (k : String) {v w : J D} {ms ns : List (String × J D)} :
      PermEq v w → PermEqMembers ms ns → PermEqMembers ((k, v) :: ms) ((k, w) :: ns)
end

mutual
theorem PermEq.refl : (d : J D) → PermEq d d
  | .lit d => .lit d
  | .arr xs => .arr (PermEqItems.refl xs)
  | .obj ms => .obj (PermEqMembers.refl ms) (List.Perm.refl _)
theorem PermEqItems.refl : (xs : List (J D)) → PermEqItems xs xs
  | [] => .nil
  | x :: xs => .cons (PermEq.refl x) (PermEqItems.refl xs)
theorem PermEqMembers.refl : (ms : List (String × J D)) → PermEqMembers ms ms
  | [] => .nil
  | (k, v) :: ms => .cons k (PermEq.refl v) (PermEqMembers.refl ms)
end

/-- permuting the members of the top object -/
theorem PermEq.of_perm {ms ms' : List (String × J D)} (h : ms.Perm ms') : PermEq (.obj ms) (.obj ms') :=
  .obj (PermEqMembers.refl ms) h

end VN.J

namespace KeyOrder
open VK
open VN (J)
open VN.J (PermEq PermEqItems PermEqMembers)
variable {L D : Type}

section deep
variable (env : Env L) (litOK : L → D → Bool) (keyOK : String → String → Bool)

/-- the alternatives the value of key `k` is validated against when no shortcut has been consumed by another key -/
def slotAlts (props shorts : List (String × Bool × S L)) (add : AddMode L) (k : String) : List (S L) :=
  match lookup props k with
  | some s => alts env s
  | none =>
    match shorts.find? (fun sc => keyOK sc.1 k) with
    | some sc => alts env sc.2.2
    | none =>
      match add with
      | .type n => alts env (.ref [n] none)
      | _ => []

mutual
/-- key-unambiguity at every object the validator visits below alternative `a` on document `d`: decided from the
schema, `keyOK` and the KEYS of the document's objects only -/
def unambA : S L → J D → Bool
  | .arr items, .arr xs => unambItems items 0 xs
  | .obj props shorts add, .obj ms => unamb keyOK props shorts (ms.map (·.1)) && unambMembers props shorts add ms
  | _, _ => true
def unambItems : List (S L) → Nat → List (J D) → Bool
  | _, _, [] => true
  | items, i, x :: xs => (match childAt items i with
      | some s => (alts env s).all (fun a => unambA a x)
      | none => true) && unambItems items (i + 1) xs
def unambMembers : List (String × Bool × S L) → List (String × Bool × S L) → AddMode L → List (String × J D) → Bool
  | _, _, _, [] => true
  | props, shorts, add, (k, v) :: ms =>
    (slotAlts env keyOK props shorts add k).all (fun a => unambA a v) && unambMembers props shorts add ms
end

def unambDeep (s : S L) (d : J D) : Bool := (alts env s).all (fun a => unambA env keyOK a d)

/-- verdict of the specification on a property / shortcut value -/
abbrev pvS : S L → J D → Bool := fun s v => (alts env s).any (fun a => shapeA env litOK keyOK a v)
/-- verdict of the specification on an additional property -/
abbrev avS (add : AddMode L) : J D → Bool :=
  fun v => addDecide litOK add v (fun n => (alts env (.ref [n] none)).any (fun a => shapeA env litOK keyOK a v))

theorem any_congr' {α : Type} {f g : α → Bool} : ∀ (l : List α), (∀ a ∈ l, f a = g a) → l.any f = l.any g
  | [], _ => rfl
  | a :: l, h => by
    rw [List.any_cons, List.any_cons, h a List.mem_cons_self, any_congr' l (fun b hb => h b (List.mem_cons_of_mem _ hb))]

theorem addDecide_congr (add : AddMode L) (v w : J D) (h : PermEq v w) (f g : String → Bool)
    (hfg : ∀ n, add = .type n → f n = g n) : addDecide litOK add v f = addDecide litOK add w g := by
  cases add with
  | type n => simp only [addDecide]; exact hfg n rfl
  | none => cases h <;> rfl
  | any => cases h <;> rfl
  | obj => cases h <;> rfl
  | arr => cases h <;> rfl
  | lit l => cases h <;> rfl

theorem mverdict_congr (props shorts : List (String × Bool × S L)) (add : AddMode L) (k : String) (v w : J D)
    (hvw : PermEq v w)
    (ih : ∀ a ∈ slotAlts env keyOK props shorts add k, shapeA env litOK keyOK a v = shapeA env litOK keyOK a w) :
    mverdict keyOK (pvS env litOK keyOK) (avS env litOK keyOK add) props shorts (k, v)
      = mverdict keyOK (pvS env litOK keyOK) (avS env litOK keyOK add) props shorts (k, w) := by
  unfold mverdict slotAlts at *
  cases hl : lookup props k with
  | some s => rw [hl] at ih; exact any_congr' _ ih
  | none =>
    rw [hl] at ih
    cases hf : shorts.find? (fun sc => keyOK sc.1 k) with
    | some sc => simp only [hf] at ih ⊢; exact any_congr' _ ih
    | none =>
      simp only [hf] at ih ⊢
      apply addDecide_congr litOK add v w hvw
      intro n hn
      subst hn
      exact any_congr' _ ih

mutual
theorem shapeA_permEq (a : S L) (d d' : J D) (h : PermEq d d') (hu : unambA env keyOK a d = true) :
    shapeA env litOK keyOK a d = shapeA env litOK keyOK a d' := by
  cases d with
  | lit x => cases h; rfl
  | arr xs =>
    cases h with
    | arr hi =>
      cases a with
      | arr items =>
        simp only [shapeA]
        exact shapeItems_permEq items 0 xs _ hi (by simpa only [unambA] using hu)
      | _ => simp only [shapeA]
  | obj ms =>
    cases h with
    | @obj _ ms'' ms' hm hp =>
      cases a with
      | obj props shorts add =>
        simp only [unambA, Bool.and_eq_true] at hu
        obtain ⟨hk, hc⟩ := members_permEq props shorts add ms ms'' hm hu.2
        have hU : unamb keyOK props shorts (ms.map (·.1)) = true := hu.1
        have hU' : unamb keyOK props shorts (ms'.map (·.1)) = true := by
          rw [← unamb_perm keyOK props shorts (hp.map _), ← hk]; exact hU
        simp only [shapeA, shapeMembers_eq_loop]
        rw [Bool.eq_iff_iff,
          loop_iff keyOK _ _ props shorts _ [] ms ((unamb_iff ..).1 hU) (fun _ _ _ _ _ _ => by simp),
          loop_iff keyOK _ _ props shorts _ [] ms' ((unamb_iff ..).1 hU') (fun _ _ _ _ _ _ => by simp),
          hc, closed_perm keyOK _ _ props shorts _ hp]
      | _ => simp only [shapeA]
termination_by (sizeOf d, 0)
theorem shapeItems_permEq (items : List (S L)) (i : Nat) (xs ys : List (J D)) (h : PermEqItems xs ys)
    (hu : unambItems env keyOK items i xs = true) :
    shapeItems env litOK keyOK items i xs = shapeItems env litOK keyOK items i ys := by
  cases xs with
  | nil => cases h; rfl
  | cons x xs =>
    cases h with
    | @cons _ y _ ys hxy ht =>
      simp only [unambItems, Bool.and_eq_true] at hu
      simp only [shapeItems]
      rw [shapeItems_permEq items (i + 1) xs ys ht hu.2]
      congr 1
      cases hc : childAt items i with
      | none => rfl
      | some s =>
        rw [hc] at hu
        exact any_congr' _ (fun a ha => shapeA_permEq a x y hxy (List.all_eq_true.1 hu.1 a ha))
termination_by (sizeOf xs, 0)
theorem members_permEq (props shorts : List (String × Bool × S L)) (add : AddMode L) (ms ns : List (String × J D))
    (h : PermEqMembers ms ns) (hu : unambMembers env keyOK props shorts add ms = true) :
    ms.map (·.1) = ns.map (·.1) ∧
    ∀ req, Closed keyOK (pvS env litOK keyOK) (avS env litOK keyOK add) props shorts req ms
      ↔ Closed keyOK (pvS env litOK keyOK) (avS env litOK keyOK add) props shorts req ns := by
  cases ms with
  | nil => cases h; exact ⟨rfl, fun _ => Iff.rfl⟩
  | cons m ms =>
    cases h with
    | @cons k v w _ ns hvw ht =>
      simp only [unambMembers, Bool.and_eq_true] at hu
      obtain ⟨hk, hc⟩ := members_permEq props shorts add ms ns ht hu.2
      have hv := mverdict_congr env litOK keyOK props shorts add k v w hvw
        (fun a ha => shapeA_permEq a v w hvw (List.all_eq_true.1 hu.1 a ha))
      refine ⟨by simp only [List.map_cons, hk], fun req => ?_⟩
      rw [closed_cons keyOK _ _ props shorts req (req.filter (fun r => !(mremoves keyOK props shorts k).contains r))
          (mremoves keyOK props shorts k) k v ms _ (fun r => by simp) rfl rfl,
        closed_cons keyOK _ _ props shorts req (req.filter (fun r => !(mremoves keyOK props shorts k).contains r))
          (mremoves keyOK props shorts k) k w ns _ (fun r => by simp) hv.symm rfl, hc]
termination_by (sizeOf ms, 0)
end

theorem shape_permEq (s : S L) (d d' : J D) (h : PermEq d d') (hu : unambDeep env keyOK s d = true) :
    shape env litOK keyOK s d = shape env litOK keyOK s d' :=
  any_congr' _ (fun a ha => shapeA_permEq env litOK keyOK a d d' h (List.all_eq_true.1 hu a ha))

theorem alts_obj (p s : List (String × Bool × S L)) (a : AddMode L) : alts env (.obj p s a) = [.obj p s a] := rfl

/-- one object level, the specification -/
theorem shape_obj_perm (props shorts : List (String × Bool × S L)) (add : AddMode L) {ms ms' : List (String × J D)}
    (h : ms.Perm ms') (hU : unamb keyOK props shorts (ms.map (·.1)) = true) :
    shape env litOK keyOK (.obj props shorts add) (.obj ms) = shape env litOK keyOK (.obj props shorts add) (.obj ms') := by
  simp only [shape, alts_obj, List.any_cons, List.any_nil, Bool.or_false]
  exact shapeA_obj_perm env litOK keyOK props shorts add h hU

/-- one object level, the validator model -/
theorem validateT_obj_perm (props shorts : List (String × Bool × S L)) (add : AddMode L) {ms ms' : List (String × J D)}
    (h : ms.Perm ms') (hU : unamb keyOK props shorts (ms.map (·.1)) = true) :
    validateT env litOK keyOK (.obj props shorts add) (.obj ms)
      = validateT env litOK keyOK (.obj props shorts add) (.obj ms') := by
  rw [C03_key_shortcuts, C03_key_shortcuts]
  exact shape_obj_perm env litOK keyOK props shorts add h hU

/-- whole documents, the validator model -/
theorem validateT_permEq (s : S L) (d d' : J D) (h : PermEq d d') (hu : unambDeep env keyOK s d = true) :
    validateT env litOK keyOK s d = validateT env litOK keyOK s d' := by
  rw [C03_key_shortcuts, C03_key_shortcuts]
  exact shape_permEq env litOK keyOK s d d' h hu

end deep
end KeyOrder
