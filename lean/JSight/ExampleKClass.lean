import JSight.ValidateK
/-!
C15: the class of builder runs for which self-validation is proved (`ExampleKProofs.self_valid_ext`), as a computable
replay of the builder on the schema type of `ValidateK` (definitions only; used by the theorems and by the driver
request `exk`, which reports whether a case lies inside the class).

`exDoc strict …` yields the document the builder emits, or `none` as soon as the run leaves the class:
a recursion cut-off omits the child of a REQUIRED property (K-C15-reqcut / K-C15-or), an array element that is followed
by an emitted element (K-C15-arraycut; with `strict`: any array element), or the value of a key-shortcut property; a key
shortcut whose type is not directly a literal (K-C15-keyalias) or whose example key is also a literal key of the object
(K-C15-keyclash); unknown type, empty name list (builder error). `some none`: the root itself is omitted.
-/
namespace VK
open VN (J)
variable {L D : Type}

def bump (proc : String → Nat) (n : String) : String → Nat := fun m => if m == n then proc m + 1 else proc m

def litOf : Option (S L) → Option L
  | some (.lit l) => some l
  | _ => none

mutual
def exDoc (env : Env L) (ex : L → D) (keyStr : D → String) (strict : Bool) : Nat → (String → Nat) → S L → Option (Option (J D))
  | _, _, .lit l => some (some (.lit (ex l)))
  | _, _, .any => some (some (.arr []))
  | fuel, proc, .arr items =>
    match exItems env ex keyStr strict fuel proc items with
    | some xs => some (some (.arr xs))
    | none => none
  | fuel, proc, .obj props shorts _ =>
    match exProps env ex keyStr strict fuel proc props, exShorts env ex keyStr strict fuel proc (props.map (·.1)) shorts with
    | some pm, some sm => some (some (.obj (pm ++ sm)))
    | _, _ => none
  | 0, _, .ref _ _ => none
  | _ + 1, _, .ref [] _ => none
  | fuel + 1, proc, .ref (n :: _) _ =>
    if proc n > 1 then some none
    else match lookupT env n with
      | some t => exDoc env ex keyStr strict fuel (bump proc n) t
      | none => none
termination_by fuel _ s => (fuel, sizeOf s)
def exItems (env : Env L) (ex : L → D) (keyStr : D → String) (strict : Bool) : Nat → (String → Nat) → List (S L) → Option (List (J D))
  | _, _, [] => some []
  | fuel, proc, s :: ss =>
    match exDoc env ex keyStr strict fuel proc s, exItems env ex keyStr strict fuel proc ss with
    | some (some x), some xs => some (x :: xs)
    -- omitted element: never when `strict`; otherwise only if nothing is emitted after it
    | some none, some xs => if !strict && xs.isEmpty then some [] else none
    | _, _ => none
termination_by fuel _ ss => (fuel, sizeOf ss)
def exProps (env : Env L) (ex : L → D) (keyStr : D → String) (strict : Bool) : Nat → (String → Nat) → List (String × Bool × S L) →
    Option (List (String × J D))
  | _, _, [] => some []
  | fuel, proc, (k, req, s) :: ps =>
    match exDoc env ex keyStr strict fuel proc s, exProps env ex keyStr strict fuel proc ps with
    | some (some x), some xs => some ((k, x) :: xs)
    | some none, some xs => if req then none else some xs          -- omitted child: at an OPTIONAL property only
    | _, _ => none
termination_by fuel _ ps => (fuel, sizeOf ps)
def exShorts (env : Env L) (ex : L → D) (keyStr : D → String) (strict : Bool) : Nat → (String → Nat) → List String →
    List (String × Bool × S L) → Option (List (String × J D))
  | _, _, _, [] => some []
  | fuel, proc, pk, (K, _, s) :: ss =>
    match litOf (lookupT env K) with
    | some l =>
      -- (the builder model `EXK.buildKey` spends one unit of fuel on a key shortcut)
      if fuel = 0 ∨ pk.contains (keyStr (ex l)) = true then none
      else match exDoc env ex keyStr strict fuel proc s, exShorts env ex keyStr strict fuel proc pk ss with
        | some (some x), some xs => some ((keyStr (ex l), x) :: xs)
        | _, _ => none
    | none => none
termination_by fuel _ _ ss => (fuel, sizeOf ss)
end

end VK
