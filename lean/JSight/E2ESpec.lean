import JSight.E2E
import JSight.LayoutTree
import JSight.ValidatePosShape
import JSight.Validate
/-!
Spec side of the text-level theorem `C01_text_level`: what a plain-JSON schema VALUE (`Lay.JV`: tokens and nesting,
no layout) denotes as a schema of the rule-free fragment, and what a document tree denotes as a document.

* `kindOf tok` — the JSON kind of a scalar token (`RulesF.kindOfTok`, the model of `json.Guess`; tied by
  `sem-rules-full` and `e2e-text`).
* `schemaOf opt v : VN.S Kind` — every scalar ↦ a literal of its kind, arrays / objects structurally, keys decoded,
  every key required unless the option `KeysAreOptionalByDefault` (`opt`) is set.
* `docOf d : VN.J Bytes` — the document without layout, keys decoded, scalar tokens as written.
* `kindOKTok` — the kind-compatibility matrix on a document token: same kind, or an integer where a float is expected.
-/
namespace E2E
open Rules (Kind)
open Lay (JV)

def kindOf (tok : List UInt8) : Kind := (RulesF.kindOfTok tok).getD .n

/-- a key as the validator compares it: the decoded bytes (one character per byte) -/
def keyOf (k : List UInt8) : String := Compile.keyStr (Unquote.unquote k)

def kindOKTok (k : Kind) (tok : List UInt8) : Bool :=
  match RulesF.kindOfTok tok with
  | some d => d == k || (d == .i && k == .f)
  | none => false

mutual
def schemaOf (opt : Bool) : JV → VN.S Kind
  | .lit tok => .lit (kindOf tok)
  | .arr items => .arr (schemaItems opt items)
  | .obj ms => .obj (schemaMembers opt ms)
def schemaItems (opt : Bool) : List JV → List (VN.S Kind)
  | [] => []
  | v :: vs => schemaOf opt v :: schemaItems opt vs
def schemaMembers (opt : Bool) : List (List UInt8 × JV) → List (String × Bool × VN.S Kind)
  | [] => []
  | (k, v) :: ms => (keyOf k, !opt, schemaOf opt v) :: schemaMembers opt ms
end

mutual
/-- the kind of every scalar token can be guessed (fails only for `0e1`-like numerals, K-C10-zeroexp, which the schema
scanner does not deliver anyway) -/
def guessable : JV → Bool
  | .lit tok => (RulesF.kindOfTok tok).isSome
  | .arr items => guessableItems items
  | .obj ms => guessableMembers ms
def guessableItems : List JV → Bool
  | [] => true
  | v :: vs => guessable v && guessableItems vs
def guessableMembers : List (List UInt8 × JV) → Bool
  | [] => true
  | (_, v) :: ms => guessable v && guessableMembers ms
end

/-- the document a tree with layout denotes -/
def docOf (d : VPos.T UInt8) : VN.J (List UInt8) := VPos.strip keyOf d

/-! ### the same with concrete kinds (`V.S`, `V.J`: the types of `C01_validate_iff_shape`) -/

def vKind : Kind → V.Kind
  | .i => .int | .f => .flt | .s => .str | .b => .bool | .n => .null

mutual
/-- the schema of a plain-JSON value with concrete kinds -/
def schemaV (opt : Bool) : JV → V.S
  | .lit tok => .lit (vKind (kindOf tok)) false
  | .arr items => .arr (schemaVItems opt items)
  | .obj ms => .obj (schemaVMembers opt ms)
def schemaVItems (opt : Bool) : List JV → List V.S
  | [] => []
  | v :: vs => schemaV opt v :: schemaVItems opt vs
def schemaVMembers (opt : Bool) : List (List UInt8 × JV) → List (String × Bool × V.S)
  | [] => []
  | (k, v) :: ms => (keyOf k, !opt, schemaV opt v) :: schemaVMembers opt ms
end

mutual
def toVJ : VN.J (List UInt8) → V.J
  | .lit tok => .lit (vKind (kindOf tok))
  | .arr xs => .arr (toVJItems xs)
  | .obj ms => .obj (toVJMembers ms)
def toVJItems : List (VN.J (List UInt8)) → List V.J
  | [] => []
  | x :: xs => toVJ x :: toVJItems xs
def toVJMembers : List (String × VN.J (List UInt8)) → List (String × V.J)
  | [] => []
  | (k, v) :: ms => (k, toVJ v) :: toVJMembers ms
end

mutual
/-- every scalar token of the document has a kind -/
def docGuessable : VN.J (List UInt8) → Bool
  | .lit tok => (RulesF.kindOfTok tok).isSome
  | .arr xs => docGuessableItems xs
  | .obj ms => docGuessableMembers ms
def docGuessableItems : List (VN.J (List UInt8)) → Bool
  | [] => true
  | x :: xs => docGuessable x && docGuessableItems xs
def docGuessableMembers : List (String × VN.J (List UInt8)) → Bool
  | [] => true
  | (_, v) :: ms => docGuessable v && docGuessableMembers ms
end

end E2E
