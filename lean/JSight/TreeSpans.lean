import JSight.TreeLen
/-!
C06 corollaries about the denoted events (`evsAt`): every span lies inside the value's text, begins do not exceed ends,
a container's closing event carries the offset of its opening bracket.
-/
namespace JsonScan

theorem render_pos (v : JA) (hv : v.Valid) : 0 < v.render.length := by
  obtain ⟨pre, x, e, _⟩ := render_last_nonws v hv
  rw [e]; simp

theorem renderItems_pos (its : List (List Cls × JA × List Cls)) : 0 < (renderItems its).length := by
  obtain ⟨pre, e⟩ := renderItems_last its; rw [e]; simp

theorem renderMembers_pos (ms : List (List Cls × List Cls × List Cls × List Cls × JA × List Cls)) :
    0 < (renderMembers ms).length := by
  obtain ⟨pre, e⟩ := renderMembers_last ms; rw [e]; simp

/-- inside `[lo, hi)` and well-formed -/
def Ev.within (e : Ev) (lo hi : Nat) : Prop := lo ≤ e.b ∧ e.b ≤ e.e ∧ e.e < hi

theorem Ev.within_mono {e : Ev} {lo hi lo' hi' : Nat} (h : e.within lo hi) (h1 : lo' ≤ lo) (h2 : hi ≤ hi') :
    e.within lo' hi' := ⟨by have := h.1; omega, h.2.1, by have := h.2.2; omega⟩

mutual
theorem spans_value : (v : JA) → v.Valid → (o : Nat) → ∀ e ∈ evsAt o v, e.within o (o + v.render.length)
  | .scalar tok, hv, o => by
    have hp := render_pos (.scalar tok) hv
    simp only [JA.render] at hp
    intro e he
    simp only [evsAt, List.mem_cons, List.mem_nil_iff, or_false] at he
    rcases he with rfl | rfl <;> simp only [Ev.within, JA.render] <;> omega
  | .arr ws0 items, hv, o => by
    obtain ⟨_, hi⟩ : IsWs ws0 ∧ ValidItems items := by simpa [JA.Valid] using hv
    have hpos := renderItems_pos items
    intro e he
    simp only [evsAt, List.mem_cons] at he
    simp only [JA.render, List.length_cons, List.length_append]
    rcases he with rfl | he
    · simp only [Ev.within]; omega
    · rcases spans_items items hi o (o + 1 + ws0.length) e he with ⟨h1, h2, h3⟩ | h
      · simp only [Ev.within]; omega
      · exact Ev.within_mono h (by omega) (by omega)
  | .obj ws0 members, hv, o => by
    obtain ⟨_, hi⟩ : IsWs ws0 ∧ ValidMembers members := by simpa [JA.Valid] using hv
    have hpos := renderMembers_pos members
    intro e he
    simp only [evsAt, List.mem_cons] at he
    simp only [JA.render, List.length_cons, List.length_append]
    rcases he with rfl | he
    · simp only [Ev.within]; omega
    · rcases spans_members members hi o (o + 1 + ws0.length) e he with ⟨h1, h2, h3⟩ | h
      · simp only [Ev.within]; omega
      · exact Ev.within_mono h (by omega) (by omega)
/-- the closing event of the array opened at `a`, or an event inside the items -/
theorem spans_items : (its : List (List Cls × JA × List Cls)) → ValidItems its → (a o : Nat) →
    ∀ e ∈ evsItems a o its,
      (e.ty = .arrE ∧ e.b = a ∧ e.e = o + (renderItems its).length - 1) ∨ e.within o (o + (renderItems its).length - 1)
  | [], _, a, o => by
    intro e he
    simp only [evsItems, List.mem_cons, List.mem_nil_iff, or_false] at he
    subst he
    left; simp [renderItems]
  | (w1, v, w2) :: its, hv, a, o => by
    obtain ⟨_, hvv, _, hits⟩ : IsWs w1 ∧ v.Valid ∧ IsWs w2 ∧ ValidItems its := by simpa [ValidItems] using hv
    have hp := render_pos v hvv
    have hq := renderItems_pos its
    intro e he
    simp only [evsItems, List.mem_cons, List.mem_append] at he
    have hlen : (renderItems ((w1, v, w2) :: its)).length
        = w1.length + v.render.length + w2.length + (if its.isEmpty then 0 else 1) + (renderItems its).length := by
      simp only [renderItems, List.length_append]
      split <;> simp <;> omega
    rw [hlen]
    rcases he with rfl | he | rfl | he
    · right; simp only [Ev.within]; split <;> omega
    · right
      exact Ev.within_mono (spans_value v hvv (o + w1.length) e he) (by omega) (by split <;> omega)
    · right; simp only [Ev.within]; split <;> omega
    · rcases spans_items its hits a _ e he with ⟨h1, h2, h3⟩ | h
      · left; refine ⟨h1, h2, ?_⟩; rw [h3]; split <;> omega
      · right; exact Ev.within_mono h (by split <;> omega) (by split <;> omega)
theorem spans_members : (ms : List (List Cls × List Cls × List Cls × List Cls × JA × List Cls)) → ValidMembers ms →
    (a o : Nat) → ∀ e ∈ evsMembers a o ms,
      (e.ty = .objE ∧ e.b = a ∧ e.e = o + (renderMembers ms).length - 1) ∨ e.within o (o + (renderMembers ms).length - 1)
  | [], _, a, o => by
    intro e he
    simp only [evsMembers, List.mem_cons, List.mem_nil_iff, or_false] at he
    subst he
    left; simp [renderMembers]
  | (w1, k, w2, w3, v, w4) :: ms, hv, a, o => by
    obtain ⟨_, hk, _, _, hvv, _, hms⟩ :
        IsWs w1 ∧ IsKey k ∧ IsWs w2 ∧ IsWs w3 ∧ v.Valid ∧ IsWs w4 ∧ ValidMembers ms := by
      simpa [ValidMembers] using hv
    have hp := render_pos v hvv
    have hq := renderMembers_pos ms
    have hkp : 0 < k.length := by obtain ⟨tl, rfl, _⟩ := hk; simp
    intro e he
    simp only [evsMembers, List.mem_cons, List.mem_append] at he
    have hlen : (renderMembers ((w1, k, w2, w3, v, w4) :: ms)).length
        = w1.length + k.length + w2.length + 1 + w3.length + v.render.length + w4.length
          + (if ms.isEmpty then 0 else 1) + (renderMembers ms).length := by
      simp only [renderMembers, List.length_append, List.length_cons]
      split <;> simp <;> omega
    rw [hlen]
    rcases he with rfl | rfl | rfl | he | rfl | he
    · right; simp only [Ev.within]; split <;> omega
    · right; simp only [Ev.within]; split <;> omega
    · right; simp only [Ev.within]; split <;> omega
    · right
      exact Ev.within_mono (spans_value v hvv _ e he) (by omega) (by split <;> omega)
    · right; simp only [Ev.within]; split <;> omega
    · rcases spans_members ms hms a _ e he with ⟨h1, h2, h3⟩ | h
      · left; refine ⟨h1, h2, ?_⟩; rw [h3]; split <;> omega
      · right; exact Ev.within_mono h (by split <;> omega) (by split <;> omega)
end

/-- **C06, spans**: every event the scanner delivers for a valid document lies inside the document, and begins do not
exceed ends -/
theorem C06_spans (allow : Bool) (v : JA) (hv : v.Valid) (ws0 ws1 : List Cls) (h0 : IsWs ws0) (h1 : IsWs ws1) :
    ∃ evs, eventsLoop allow (ws0 ++ (v.render ++ ws1)).length (ws0 ++ (v.render ++ ws1)) 0 {} [] = .ok evs ∧
      ∀ e ∈ evs, e.b ≤ e.e ∧ e.e < (ws0 ++ (v.render ++ ws1)).length := by
  refine ⟨_, C06_events_of_tree allow v hv ws0 ws1 h0 h1, ?_⟩
  intro e he
  have := spans_value v hv ws0.length e he
  simp only [List.length_append]
  exact ⟨this.2.1, by have := this.2.2; omega⟩

#print axioms C06_spans

end JsonScan
