import JSight.SchemaLenTokEv
/-!
C13, annotated trees: the token grammar of `SchemaLenTok` extended with the MULTI-LINE annotation token
`/* blanks {rules} blanks [- note] */` (`ATok.ml`), the token-level scanner for it (`astep`, `arun`), and the simulation:
the byte-level scanner model follows `astep` for either value of `lengthComputing` (`asim`, `asim_run`);
`emits_atoks_whole`: the events of an accepted token list whose text is the whole input.
-/
namespace SchemaScan
namespace Len

variable {lc : Bool} {data : Array Cls}

/-- what stands between `/*` and `*/` -/
structure MlBody where
  s2 : List Cls
  ob : CObj
  s3 : List Cls
  nt : Option (List Cls × List Cls)

def MlBody.render (b : MlBody) : List Cls :=
  b.s2 ++ (Cls.lbrace :: (b.ob.body ++ (Cls.rbrace :: (b.s3 ++ noteTail b.nt))))

/-- the text of a multi-line note: not empty, no line break, `#`, `*`, does not start with a space or tab -/
def IsMlTxt (txt : List Cls) : Prop :=
  (∃ c cs, txt = c :: cs ∧ c.isSpTab = false) ∧ ∀ c ∈ txt, c.isNoteCh = true

def MlBody.Valid (b : MlBody) : Prop :=
  ABlank .multi b.s2 ∧ b.ob.Valid .multi ∧ ABlank .multi b.s3 ∧
    ∀ s4 txt, b.nt = some (s4, txt) → IsSpTabs s4 ∧ IsMlTxt txt

/-- offset of `{`, of the byte behind `}`, of the byte behind the blanks that follow -/
def MlBody.o (b : MlBody) (h : Nat) : Nat := h + 2 + b.s2.length
def MlBody.e1 (b : MlBody) (h : Nat) : Nat := h + 2 + b.s2.length + 1 + b.ob.body.length + 1
def MlBody.t (b : MlBody) (h : Nat) : Nat := h + 2 + b.s2.length + 1 + b.ob.body.length + 1 + b.s3.length

def mlTail (h t : Nat) : Option (List Cls × List Cls) → List Ev
  | none => [⟨.mlAnnE, h, t + 1⟩]
  | some (s4, txt) =>
    [⟨.mlTxtB, t + 1 + s4.length, t + 1 + s4.length⟩, ⟨.mlTxtE, t + 1 + s4.length, t + 1 + s4.length + txt.length - 1⟩,
      ⟨.mlAnnE, h, t + 1 + s4.length + txt.length + 1⟩]

/-- the events of the annotation whose first `/` stands at `h` -/
def MlBody.evs (b : MlBody) (h : Nat) : List Ev :=
  ⟨.mlAnnB, h, h + 1⟩ :: (nlEvs (h + 2) b.s2 ++ (⟨.objB, b.o h, b.o h⟩ :: (b.ob.evs (b.o h) ++
    (nlEvs (b.e1 h) b.s3 ++ mlTail h (b.t h) b.nt))))

theorem stay_runA (a : Ann) (st : St) (r : List St) (K : List (LexT × Nat)) (CS : List Ctx) (cx : Ctx) (al : Bool) :
    ∀ (w : List Cls), (∀ c ∈ w, ∀ f i p1 p2, dispatch (f + 1) st (cfgAL lc a st r K false i CS cx al) c p1 p2
        = .ok (cfgAL lc a st r K false i CS cx al)) → ∀ (i : Nat), At data i w →
      Path data (cfgAL lc a st r K false i CS cx al) [] (cfgAL lc a st r K false (i + w.length) CS cx al) :=
  stay_run a st r K CS cx al

/-- the tail of a multi-line annotation, from the state behind the rule object and its blanks -/
theorem ml_tail (r0 : St) (h t : Nat) (K : List (LexT × Nat)) (CS : List Ctx) (cx : Ctx) (al : Bool)
    (nt : Option (List Cls × List Cls)) (hnt : ∀ s4 txt, nt = some (s4, txt) → IsSpTabs s4 ∧ IsMlTxt txt)
    (hat : At data t (noteTail nt ++ [Cls.star, Cls.slash])) :
    Path data (cfgAL lc .multi .mlTxtPrefix [r0] ((.mlAnnB, h) :: K) false t CS cx al) (mlTail h t nt)
      (cfgL lc r0 [] K false (t + (noteTail nt).length + 2) CS cx al) := by
  cases nt with
  | none =>
    simp only [noteTail, List.nil_append] at hat
    obtain ⟨h1, h2, _⟩ := hat
    have s1 : Path data (cfgAL lc .multi .mlTxtPrefix [r0] ((.mlAnnB, h) :: K) false t CS cx al) []
        (cfgAL lc .multi .mlAnnEnd [r0] ((.mlAnnB, h) :: K) false (t + 1) CS cx al) :=
      cfgAL_byte h1 (fun p1 p2 => mlpre_star 7 [r0] _ (t + 1) CS cx al p1 p2) rfl rfl
    have s2 : Path data (cfgAL lc .multi .mlAnnEnd [r0] ((.mlAnnB, h) :: K) false (t + 1) CS cx al)
        [⟨.mlAnnE, h, t + 1⟩] (cfgL lc r0 [] K false (t + 1 + 1) CS cx al) :=
      cfgAL_byte h2 (fun p1 p2 => mlend_slash 7 r0 [] _ (t + 1 + 1) CS cx al p1 p2) rfl rfl
    exact (Path.trans s1 s2).cast rfl (cfgL_congr (by simp [noteTail]))
  | some p =>
    obtain ⟨s4, txt⟩ := p
    obtain ⟨h4, ⟨c, cs, rfl, hc0⟩, hall⟩ := hnt s4 (txt) rfl
    simp only [noteTail, List.cons_append, List.append_assoc] at hat
    obtain ⟨hm, hat⟩ := hat
    rw [At_append] at hat
    obtain ⟨hat4, hc, hat⟩ := hat
    rw [At_append] at hat
    obtain ⟨hatcs, hst, hsl, _⟩ := hat
    have s1 : Path data (cfgAL lc .multi .mlTxtPrefix [r0] ((.mlAnnB, h) :: K) false t CS cx al) []
        (cfgAL lc .multi .mlTxtPrefix2 [r0] ((.mlAnnB, h) :: K) false (t + 1) CS cx al) :=
      cfgAL_byte hm (fun p1 p2 => pre_minus 7 .multi rfl [r0] _ (t + 1) CS cx al p1 p2) rfl rfl
    have s2 := stay_run (lc := lc) (data := data) .multi .mlTxtPrefix2 [r0] ((.mlAnnB, h) :: K) CS cx al s4
      (fun x hx f i p1 p2 => pre2_sp f .multi rfl x (h4 x hx) [r0] _ i CS cx al p1 p2) (t + 1) hat4
    have s3 : Path data (cfgAL lc .multi .mlTxtPrefix2 [r0] ((.mlAnnB, h) :: K) false (t + 1 + s4.length) CS cx al)
        [⟨.mlTxtB, t + 1 + s4.length, t + 1 + s4.length⟩]
        (cfgAL lc .multi .mlTxt [r0] ((.mlTxtB, t + 1 + s4.length) :: (.mlAnnB, h) :: K) false (t + 1 + s4.length + 1)
          CS cx al) :=
      cfgAL_byte hc (fun p1 p2 => pre2_first 6 .multi rfl c hc0 (hall c (by simp)) [r0] _ _ CS cx al p1 p2) rfl rfl
    have s4' := stay_run (lc := lc) (data := data) .multi .mlTxt [r0]
      ((.mlTxtB, t + 1 + s4.length) :: (.mlAnnB, h) :: K) CS cx al cs
      (fun x hx f i p1 p2 => txt_char f .multi rfl x (hall x (by simp [hx])) [r0] _ i CS cx al p1 p2) _ hatcs
    have hsl' : data[t + 1 + s4.length + 1 + cs.length + 1]? = some Cls.slash := hsl
    have s5 : Path data (cfgAL lc .multi .mlTxt [r0] ((.mlTxtB, t + 1 + s4.length) :: (.mlAnnB, h) :: K) false
          (t + 1 + s4.length + 1 + cs.length) CS cx al)
        [⟨.mlTxtE, t + 1 + s4.length, t + 1 + s4.length + 1 + cs.length - 1⟩]
        (cfgAL lc .multi .mlAnnEnd [r0] ((.mlAnnB, h) :: K) false (t + 1 + s4.length + 1 + cs.length + 1) CS cx al) := by
      refine (Path.emit1 (s := cfgAL lc .multi .mlTxt [r0] ((.mlTxtB, t + 1 + s4.length) :: (.mlAnnB, h) :: K) false
          (t + 1 + s4.length + 1 + cs.length) CS cx al)
        (s1 := { cfgAL lc .multi .mlAnnEnd [r0] ((.mlTxtB, t + 1 + s4.length) :: (.mlAnnB, h) :: K) false
                  (t + 1 + s4.length + 1 + cs.length + 1) CS cx al with finds := [.mlTxtE] })
        (s2 := cfgAL lc .multi .mlAnnEnd [r0] ((.mlAnnB, h) :: K) false (t + 1 + s4.length + 1 + cs.length + 1) CS cx al)
        (e := ⟨.mlTxtE, t + 1 + s4.length, t + 1 + s4.length + 1 + cs.length + 1 - 1 - 1⟩)
        (t := .mlTxtE) (rest := []) rfl hst ?_ rfl rfl).cast ?_ rfl
      · show dispatch 8 .mlTxt (cfgAL lc .multi .mlTxt [r0] ((.mlTxtB, t + 1 + s4.length) :: (.mlAnnB, h) :: K) false
            (t + 1 + s4.length + 1 + cs.length + 1) CS cx al) .star
          data[t + 1 + s4.length + 1 + cs.length + 1]? data[t + 1 + s4.length + 1 + cs.length + 1 + 1]? = _
        rw [hsl']
        exact mltxt_end 7 [r0] _ _ CS cx al _
      · simp
    have s6 : Path data (cfgAL lc .multi .mlAnnEnd [r0] ((.mlAnnB, h) :: K) false (t + 1 + s4.length + 1 + cs.length + 1)
          CS cx al) [⟨.mlAnnE, h, t + 1 + s4.length + 1 + cs.length + 1⟩]
        (cfgL lc r0 [] K false (t + 1 + s4.length + 1 + cs.length + 1 + 1) CS cx al) :=
      cfgAL_byte hsl' (fun p1 p2 => mlend_slash 7 r0 [] _ _ CS cx al p1 p2) rfl rfl
    refine (Path.trans (Path.trans (Path.trans (Path.trans (Path.trans s1 s2) s3) s4') s5) s6).cast ?_ (cfgL_congr ?_)
    · simp only [mlTail, List.nil_append, List.cons_append, List.length_cons]
      rw [show t + 1 + s4.length + (cs.length + 1) = t + 1 + s4.length + 1 + cs.length by omega]
    · simp only [noteTail, List.length_cons, List.length_append]; omega

theorem wsSt_mlAnn (w : List Cls) : wsSt .mlAnn w = .mlAnn := wsSt_eq (by simp) w
theorem wsSt_mlPre (w : List Cls) : wsSt .mlTxtPrefix w = .mlTxtPrefix := wsSt_eq (by simp) w

/-- **a multi-line annotation as a `Path`**: from the state behind its first `/` (the state `r0` that read it is on the
return stack) to the state behind its closing `/`: `r0` again -/
theorem ml_line (b : MlBody) (hv : b.Valid) (r0 : St) (K : List (LexT × Nat)) (h : Nat)
    (CS : List Ctx) (cx : Ctx) (al : Bool) (hat : At data (h + 1) (Cls.star :: (b.render ++ [Cls.star, Cls.slash]))) :
    Path data (cfgL lc .anyAnnStart [r0] K false (h + 1) CS cx al) (b.evs h)
      (cfgL lc r0 [] K false (h + 2 + b.render.length + 2) CS cx al) := by
  obtain ⟨s2, ob, s3, nt⟩ := b
  obtain ⟨h2, hob, h3, hnt⟩ := hv
  simp only at h2 hob h3 hnt
  obtain ⟨hst, hat⟩ := hat
  have s0 : Path data (cfgL lc .anyAnnStart [r0] K false (h + 1) CS cx al) [⟨.mlAnnB, h, h + 1⟩]
      (cfgAL lc .multi .mlAnn [r0] ((.mlAnnB, h) :: K) false (h + 1 + 1) CS cx al) :=
    cfg_byte hst (fun p1 p2 => ann_mark 7 .multi rfl [r0] K (h + 1 + 1) CS cx al p1 p2) rfl rfl
  simp only [MlBody.render, List.append_assoc, List.cons_append] at hat
  rw [At_append] at hat
  obtain ⟨hat2, hlb, hat⟩ := hat
  have s1 := ablank_run (lc := lc) (data := data) .multi rfl s2 h2 .mlAnn rfl [r0] ((.mlAnnB, h) :: K) (h + 1 + 1) CS cx al hat2
  rw [wsSt_mlAnn] at s1
  have s2' : Path data (cfgAL lc .multi .mlAnn [r0] ((.mlAnnB, h) :: K) false (h + 1 + 1 + s2.length) CS cx al)
      [⟨.objB, h + 1 + 1 + s2.length, h + 1 + 1 + s2.length⟩]
      (cfgAL lc .multi .objKeyOrEmpty [r0] ((.objB, h + 1 + 1 + s2.length) :: (.mlAnnB, h) :: K) false
        (h + 1 + 1 + s2.length + 1) (cx :: CS) { ty := .object } al) :=
    cfgAL_byte hlb (fun p1 p2 => ann_lbrace 6 .multi rfl [r0] _ (h + 1 + 1 + s2.length + 1) CS cx al p1 p2) rfl rfl
  rw [At_append] at hat
  obtain ⟨hatob, hrb, hat⟩ := hat
  have hatob' : At data (h + 1 + 1 + s2.length + 1) (ob.body ++ [Cls.rbrace]) := by
    rw [At_append]; exact ⟨hatob, hrb, trivial⟩
  have s3'' := obj_run (lc := lc) .multi rfl ob hob r0 (h + 1 + 1 + s2.length) h K cx CS { ty := .object } al hatob'
  rw [At_append] at hat
  obtain ⟨hat3, hatn⟩ := hat
  have s4 := ablank_run (lc := lc) (data := data) .multi rfl s3 h3 .mlTxtPrefix rfl [r0] ((.mlAnnB, h) :: K) _ CS cx al hat3
  rw [wsSt_mlPre] at s4
  have s5 := ml_tail (lc := lc) r0 h (h + 1 + 1 + s2.length + 1 + ob.body.length + 1 + s3.length) K CS cx al nt hnt hatn
  refine (Path.trans (Path.trans (Path.trans (Path.trans s0 s1) s2') s3'') (Path.trans s4 s5)).cast ?_ (cfgL_congr ?_)
  · simp only [MlBody.evs, MlBody.o, MlBody.e1, MlBody.t, List.nil_append, List.cons_append, List.append_nil,
      List.append_assoc]
    try rw [show h + 1 + 1 = h + 2 by omega]
  · simp only [MlBody.render, List.length_append, List.length_cons]; omega

/-! ### tokens -/

inductive ATok
  | base (t : Tok)
  | ml (b : MlBody)

def ATok.render : ATok → List Cls
  | .base t => t.render
  | .ml b => Cls.slash :: Cls.star :: (b.render ++ [Cls.star, Cls.slash])

def ATok.WF : ATok → Prop
  | .base t => t.WF
  | .ml b => b.Valid

def renderAToks : List ATok → List Cls
  | [] => []
  | t :: ts => t.render ++ renderAToks ts

/-- a multi-line annotation read at a place between tokens -/
def mlSlot (c : TC) (b : MlBody) : Option (TC × List Ev) :=
  if annLoop c.st && c.al && !c.g then
    some ({ c with cx := cxA c.st c.cx, i := c.i + 2 + b.render.length + 2 }, b.evs c.i)
  else none

def aslot (c : TC) : ATok → Option (TC × List Ev)
  | .base t => slotStep c t
  | .ml b => mlSlot c b

def astep (c : TC) (t : ATok) : Option (TC × List Ev) :=
  if PV c.st then
    if c.g then none
    else match closePV c with
    | some (c1, e1) => (aslot c1 t).map (fun r => (r.1, e1 ++ r.2))
    | none => none
  else aslot c t

theorem astep_base (c : TC) (t : Tok) : astep c (.base t) = tstep c t := rfl

def arun : TC → List ATok → Option (TC × List Ev)
  | c, [] => some (c, [])
  | c, t :: ts =>
    match astep c t with
    | some (c1, e1) => (arun c1 ts).map (fun r => (r.1, e1 ++ r.2))
    | none => none

theorem arun_cons {c c' : TC} {t : ATok} {ts : List ATok} {evs : List Ev} (h : arun c (t :: ts) = some (c', evs)) :
    ∃ c1 e1 e2, astep c t = some (c1, e1) ∧ arun c1 ts = some (c', e2) ∧ evs = e1 ++ e2 := by
  simp only [arun] at h
  cases ht : astep c t with
  | none => rw [ht] at h; cases h
  | some r =>
    obtain ⟨c1, e1⟩ := r
    rw [ht] at h
    simp only at h
    cases hr : arun c1 ts with
    | none => rw [hr] at h; cases h
    | some r2 =>
      obtain ⟨c2, e2⟩ := r2
      rw [hr] at h
      simp only [Option.map_some, Option.some.injEq, Prod.mk.injEq] at h
      obtain ⟨rfl, rfl⟩ := h
      exact ⟨c1, e1, e2, rfl, hr, rfl⟩

/-! ### simulation -/

theorem sim_mlSlot (c c' : TC) (b : MlBody) (evs : List Ev) (h : mlSlot c b = some (c', evs)) (hw : b.Valid)
    (hat : At data c.i (ATok.ml b).render) : Path data (c.sc lc) evs (c'.sc lc) := by
  simp only [mlSlot] at h
  split at h
  · rename_i hl
    simp only [Bool.and_eq_true, Bool.not_eq_true'] at hl
    obtain ⟨⟨hal, halw⟩, hg⟩ := hl
    cases h
    obtain ⟨st, g, K, i, CS, cx, al⟩ := c
    simp only at hal halw hg hat ⊢
    subst hg halw
    simp only [ATok.render] at hat
    obtain ⟨hs, hat'⟩ := hat
    have s1 : Path data (cfgL lc st [] K false i CS cx true) []
        (cfgL lc .anyAnnStart [st] K false (i + 1) CS (cxA st cx) true) :=
      cfg_byte hs (fun p1 p2 => d_slash 7 st hal st K (i + 1) CS cx [] p1 p2) rfl rfl
    have s2 := ml_line (lc := lc) b hw st K i CS (cxA st cx) true hat'
    exact Path.trans s1 s2
  · cases h

theorem asim (c c' : TC) (t : ATok) (evs : List Ev) (h : astep c t = some (c', evs)) (hw : t.WF)
    (hat : At data c.i t.render) : Path data (c.sc lc) evs (c'.sc lc) := by
  cases t with
  | base t => exact sim c c' t evs h hw hat
  | ml b =>
    unfold astep at h
    by_cases hpv : PV c.st = true
    · rw [if_pos hpv] at h
      obtain ⟨st, g, K, i, CS, cx, al⟩ := c
      simp only at h hpv hat ⊢
      cases g with
      | true => simp at h
      | false =>
        simp only [Bool.false_eq_true, if_false, closePV] at h
        cases hp : pendOfK K with
        | none => rw [hp] at h; cases h
        | some pd =>
          rw [hp] at h
          cases pd with
          | root lit b0 =>
            simp only [aslot, mlSlot] at h
            split at h
            · rename_i hl
              simp only [Bool.and_eq_true, Bool.not_eq_true'] at hl
              obtain ⟨⟨_, halw⟩, _⟩ := hl
              simp only [Option.map_some, Option.some.injEq, Prod.mk.injEq] at h
              obtain ⟨rfl, rfl⟩ := h
              subst halw
              rw [pendOfK_root hp]
              simp only [ATok.render] at hat
              obtain ⟨hs, hat'⟩ := hat
              have s1 := S_root_slash (lc := lc) hpv lit b0 i CS cx hs
              have s2 := ml_line (lc := lc) b hw .endTop [] i CS cx true hat'
              exact Path.trans s1 s2
            · cases h
          | ck lit b0 ck b2 R =>
            have haft : annLoop ck.aft = true := by cases ck <;> rfl
            simp only [aslot, mlSlot, haft, Bool.true_and] at h
            split at h
            · rename_i hl
              simp only [Bool.and_eq_true, Bool.not_eq_true'] at hl
              obtain ⟨halw, _⟩ := hl
              simp only [Option.map_some, Option.some.injEq, Prod.mk.injEq] at h
              obtain ⟨rfl, rfl⟩ := h
              subst halw
              rw [pendOfK_ck hp]
              simp only [ATok.render] at hat
              obtain ⟨hs, hat'⟩ := hat
              have s1 := S_close_slash (lc := lc) hpv lit ck b0 b2 R i CS cx hs
              have s2 := ml_line (lc := lc) b hw ck.aft R i CS cx true hat'
              refine (Path.trans s1 s2).cast rfl ?_
              show _ = cfgL lc ck.aft [] R false _ CS (cxA ck.aft cx) true
              rw [cxA_aft]
            · cases h
    · rw [if_neg hpv] at h
      exact sim_mlSlot c c' b evs h hw hat

theorem mlSlot_index {c c' : TC} {b : MlBody} {evs : List Ev} (h : mlSlot c b = some (c', evs)) :
    c'.i = c.i + (ATok.ml b).render.length := by
  simp only [mlSlot] at h
  split at h <;> cases h
  simp only [ATok.render, List.length_cons, List.length_append, List.length_nil]; omega

theorem astep_index {c c' : TC} {t : ATok} {evs : List Ev} (h : astep c t = some (c', evs)) :
    c'.i = c.i + t.render.length := by
  cases t with
  | base t => exact tstep_index h
  | ml b =>
    unfold astep at h
    split at h
    · split at h
      · cases h
      · cases hc : closePV c with
        | none => rw [hc] at h; cases h
        | some r =>
          obtain ⟨c1, e1⟩ := r
          rw [hc] at h
          simp only [aslot] at h
          cases hs : mlSlot c1 b with
          | none => rw [hs] at h; cases h
          | some r2 =>
            rw [hs] at h
            simp only [Option.map_some, Option.some.injEq, Prod.mk.injEq] at h
            obtain ⟨rfl, _⟩ := h
            rw [mlSlot_index hs, closePV_index hc]
    · exact mlSlot_index h

theorem asim_run : ∀ (toks : List ATok) (c c' : TC) (evs : List Ev), arun c toks = some (c', evs) →
    (∀ t ∈ toks, t.WF) → At data c.i (renderAToks toks) → Path data (c.sc lc) evs (c'.sc lc)
  | [], c, c', evs, h, _, _ => by
    simp only [arun, Option.some.injEq, Prod.mk.injEq] at h
    obtain ⟨rfl, rfl⟩ := h
    exact Path.refl _
  | t :: ts, c, c', evs, h, hw, hat => by
    obtain ⟨c1, e1, e2, ht, hr, rfl⟩ := arun_cons h
    simp only [renderAToks] at hat
    rw [At_append] at hat
    have s1 := asim (lc := lc) c c1 t e1 ht (hw t (by simp)) hat.1
    have s2 := asim_run ts c1 c' e2 hr (fun x hx => hw x (by simp [hx])) (by rw [astep_index ht]; exact hat.2)
    exact Path.trans s1 s2

theorem arun_index : ∀ (toks : List ATok) (c c' : TC) (evs : List Ev), arun c toks = some (c', evs) →
    c'.i = c.i + (renderAToks toks).length
  | [], c, c', evs, h => by
    simp only [arun, Option.some.injEq, Prod.mk.injEq] at h
    obtain ⟨rfl, _⟩ := h
    simp [renderAToks]
  | t :: ts, c, c', evs, h => by
    obtain ⟨c1, e1, e2, ht, hr, rfl⟩ := arun_cons h
    rw [arun_index ts c1 c' e2 hr, astep_index ht]
    simp only [renderAToks, List.length_append]; omega

/-! ### no `end-top`, at most eight events per byte -/

theorem mlEvs_facts (b : MlBody) (h : Nat) : noTop (b.evs h) = true ∧ (b.evs h).length ≤ 7 * b.render.length + 14 := by
  obtain ⟨s2, ob, s3, nt⟩ := b
  have h1 := objEvs_length ob (h + 2 + s2.length)
  have h2 := nlEvs_length (h + 2) s2
  have h3 := nlEvs_length (h + 2 + s2.length + 1 + ob.body.length + 1) s3
  cases nt with
  | none =>
    refine ⟨by simp only [MlBody.evs, mlTail, noTop_cons, noTop_append, noTop_objEvs, noTop_nlEvs]; rfl, ?_⟩
    simp only [MlBody.evs, MlBody.o, MlBody.e1, mlTail, MlBody.render, noteTail, List.length_append, List.length_cons,
      List.length_nil]
    omega
  | some p =>
    obtain ⟨s4, txt⟩ := p
    refine ⟨by simp only [MlBody.evs, mlTail, noTop_cons, noTop_append, noTop_objEvs, noTop_nlEvs]; rfl, ?_⟩
    simp only [MlBody.evs, MlBody.o, MlBody.e1, mlTail, MlBody.render, noteTail, List.length_append, List.length_cons,
      List.length_nil]
    omega

theorem astep_evs {c c' : TC} {t : ATok} {evs : List Ev} (h : astep c t = some (c', evs)) (hw : t.WF) :
    noTop evs = true ∧ evs.length ≤ 8 * t.render.length := by
  cases t with
  | base t => exact tstep_evs h hw
  | ml b =>
    have hm : ∀ {c1 c2 : TC} {e : List Ev}, mlSlot c1 b = some (c2, e) →
        noTop e = true ∧ e.length + 2 ≤ 8 * (ATok.ml b).render.length := by
      intro c1 c2 e hs
      simp only [mlSlot] at hs
      split at hs <;> cases hs
      have := mlEvs_facts b c1.i
      refine ⟨this.1, ?_⟩
      simp only [ATok.render, List.length_cons, List.length_append, List.length_nil]; omega
    unfold astep at h
    split at h
    · split at h
      · cases h
      · cases hc : closePV c with
        | none => rw [hc] at h; cases h
        | some r =>
          obtain ⟨c1, e1⟩ := r
          rw [hc] at h
          simp only [aslot] at h
          cases hs : mlSlot c1 b with
          | none => rw [hs] at h; cases h
          | some r2 =>
            rw [hs] at h
            simp only [Option.map_some, Option.some.injEq, Prod.mk.injEq] at h
            obtain ⟨_, rfl⟩ := h
            have h1 := closePV_evs hc
            have h2 := hm hs
            refine ⟨by rw [noTop_append, h1.1, h2.1]; rfl, ?_⟩
            simp only [List.length_append]; omega
    · have := hm h
      exact ⟨this.1, by omega⟩

theorem arun_evs : ∀ (toks : List ATok) (c c' : TC) (evs : List Ev), arun c toks = some (c', evs) →
    (∀ t ∈ toks, t.WF) → noTop evs = true ∧ evs.length ≤ 8 * (renderAToks toks).length
  | [], c, c', evs, h, _ => by
    simp only [arun, Option.some.injEq, Prod.mk.injEq] at h
    obtain ⟨_, rfl⟩ := h
    exact ⟨rfl, Nat.zero_le _⟩
  | t :: ts, c, c', evs, h, hw => by
    obtain ⟨c1, e1, e2, ht, hr, rfl⟩ := arun_cons h
    have h1 := astep_evs ht (hw t (by simp))
    have h2 := arun_evs ts c1 c' e2 hr (fun x hx => hw x (by simp [hx]))
    refine ⟨by rw [noTop_append, h1.1, h2.1]; rfl, ?_⟩
    simp only [renderAToks, List.length_append]; omega

end Len

open Len in
/-- the scan of an accepted token list (multi-line annotations included) whose text is the whole input -/
theorem emits_atoks_whole (toks : List ATok) (hw : ∀ t ∈ toks, t.WF) (c' : TC) (evs : List Ev)
    (h : arun TC.init toks = some (c', evs)) (hend : Complete c')
    (bs : List UInt8) (hbs : bs.map classify = renderAToks toks) :
    Emits (bs.map classify).toArray {} (evs ++ endClosers c') ∧
      (evs ++ endClosers c').length ≤ 8 * (bs.map classify).toArray.size + 1 := by
  have hat : At (bs.map classify).toArray 0 (renderAToks toks) := At_toArray _ [] _ (by rw [hbs]; simp)
  have hsize : (bs.map classify).toArray.size = (renderAToks toks).length := by rw [hbs]; simp
  have P := asim_run (lc := false) toks TC.init c' evs h hw hat
  rw [TC.init_sc] at P
  have hi := arun_index toks TC.init c' evs h
  have hi' : c'.i = (renderAToks toks).length := by rw [hi]; simp [TC.init]
  obtain ⟨hnt, hlen⟩ := arun_evs toks TC.init c' evs h hw
  obtain ⟨st, g, K, i, CS, cx, al⟩ := c'
  simp only at hi' hend
  subst hi'
  have fin : Emits (bs.map classify).toArray (TC.sc false ⟨st, g, K, (renderAToks toks).length, CS, cx, al⟩)
      (endClosers ⟨st, g, K, (renderAToks toks).length, CS, cx, al⟩) := by
    rcases hend with ⟨rfl, rfl⟩ | ⟨hpv, rfl, hK⟩
    · exact Emits.done rfl (by simp only [TC.sc, cfgL]; omega) rfl
    · rcases hK with rfl | ⟨b, rfl⟩
      · exact Emits.done rfl (by simp only [TC.sc, cfgL]; omega) rfl
      · exact Emits.eofLit (s := TC.sc false ⟨st, false, [(.litB, b)], (renderAToks toks).length, CS, cx, al⟩)
          rfl (by simp only [TC.sc, cfgL]; omega) rfl rfl
  refine ⟨P.emits fin, ?_⟩
  have : (endClosers ⟨st, g, K, (renderAToks toks).length, CS, cx, al⟩).length ≤ 1 := by
    unfold endClosers; split <;> simp
  simp only [List.length_append]; rw [hsize]; omega

#print axioms emits_atoks_whole

open Len in
/-- the event stream of the scanner model for the text of an accepted token list, multi-line annotations included -/
theorem scan_atoks_whole (toks : List ATok) (hw : ∀ t ∈ toks, t.WF) (c' : TC) (evs : List Ev)
    (h : arun TC.init toks = some (c', evs)) (hend : Complete c')
    (bs : List UInt8) (hbs : bs.map classify = renderAToks toks) :
    scanAll bs = .ok (evs ++ endClosers c') := by
  obtain ⟨E, hl⟩ := emits_atoks_whole toks hw c' evs h hend bs hbs
  unfold scanAll
  simp only
  have := events_of_emits E (8 * (bs.map classify).toArray.size + 16) [] (by omega)
  simpa using this

#print axioms scan_atoks_whole

end SchemaScan
