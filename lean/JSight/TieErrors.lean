import JSight.GenErrorTable
namespace Gen

def placeholders (code : String) : Option Nat := (templates.find? (·.1 == code)).map (·.2)

/-- every `errors.Format(code, args…)` site passes exactly as many arguments as the template has placeholders -/
theorem C07_format_sites : ∀ s ∈ formatSites, placeholders s.2.2.1 = some s.2.2.2 := by decide +kernel

/-- every bare use of an error code as an error value has a placeholder-free template -/
def bareOK : Bool := bareSites.all fun s => placeholders s.2.2 == some 0
#eval bareSites.filter fun s => placeholders s.2.2 != some 0

end Gen
