import JSight.C02TextEnum
import JSight.RulesFullSpec
/-!
C02 at TEXT level, second part — the EXTENDED grammar of the rule object (statement side; no proof here).

A rule is `blanks NAME spaces ":" blanks VALUE blanks` where
* NAME is bare (name bytes) or QUOTED: `"` + characters of the JSON string grammar (`RulesF.SCh`: raw, two-character
  escape, `\uXXXX`) + `"`; the loader dispatches on `TrimSpaces().Unquote()` of the token, i.e. on the decoded text
  `RulesF.text` (`C02_unquote_is_decode`; `C13_rule_name_spelling` for the plain case);
* VALUE is a literal token or a LIST `[` blanks item blanks `,` … `]` of literal tokens (the value of `enum`); the
  loader keeps the text from `[` to `]`, `Compile.scalarItems` reads the item tokens off it.
`GObj.pairs` = (name as dispatched on, value text) in written order — what `C02T.okRulesE`, `C02T.specOfRules` and
`C02T.closed` take.
-/
namespace Lay
open SchemaScan

inductive GName
  | bare (n : List UInt8)
  | quoted (cs : List RulesF.SCh)

def GName.spell : GName → List UInt8
  | .bare n => n
  | .quoted cs => 34 :: (cs.flatMap RulesF.SCh.render ++ [34])

/-- the name the loader dispatches on -/
def GName.meaning : GName → List UInt8
  | .bare n => n
  | .quoted cs => RulesF.text cs

def GName.Valid : GName → Prop
  | .bare n => IsName (n.map classify)
  | .quoted cs => ∀ c ∈ cs, c.ok

structure GItem where
  w1 : List UInt8
  tok : List UInt8
  w2 : List UInt8

inductive GVal
  | lit (v : List UInt8)
  | list (b0 : List UInt8) (items : List GItem)      -- `b0`: the blanks of an empty list

def renderGItems : List GItem → List UInt8
  | [] => []
  | [i] => i.w1 ++ (i.tok ++ i.w2)
  | i :: is => i.w1 ++ (i.tok ++ (i.w2 ++ (44 :: renderGItems is)))

def GVal.spell : GVal → List UInt8
  | .lit v => v
  | .list b0 [] => 91 :: (b0 ++ [93])
  | .list _ items => 91 :: (renderGItems items ++ [93])

def GVal.Valid (a : Ann) : GVal → Prop
  | .lit v => IsScalar (v.map classify)
  | .list b0 items => ABlank a (b0.map classify) ∧
      ∀ i ∈ items, ABlank a (i.w1.map classify) ∧ IsScalar (i.tok.map classify) ∧ ABlank a (i.w2.map classify)

structure GRule where
  b1 : List UInt8
  name : GName
  n2 : Nat
  b3 : List UInt8
  val : GVal
  b4 : List UInt8

def GRule.render (r : GRule) : List UInt8 :=
  r.b1 ++ (r.name.spell ++ (List.replicate r.n2 32 ++ (58 :: (r.b3 ++ (r.val.spell ++ r.b4)))))

def GRule.Valid (a : Ann) (r : GRule) : Prop :=
  ABlank a (r.b1.map classify) ∧ r.name.Valid ∧ ABlank a (r.b3.map classify) ∧ r.val.Valid a ∧ ABlank a (r.b4.map classify)

inductive GObj
  | empty (b0 : List UInt8)
  | rules (r : GRule) (rs : List GRule) (tc : Option (List UInt8))

def renderGRules : GRule → List GRule → List UInt8
  | r, [] => r.render
  | r, r' :: rs => r.render ++ (44 :: renderGRules r' rs)

def GObj.body : GObj → List UInt8
  | .empty b0 => b0
  | .rules r rs tc => renderGRules r rs ++ renderTcB tc

def GObj.pairs : GObj → List (List UInt8 × List UInt8)
  | .empty _ => []
  | .rules r rs _ => (r.name.meaning, r.val.spell) :: rs.map (fun x => (x.name.meaning, x.val.spell))

def GObj.Valid (a : Ann) : GObj → Prop
  | .empty b0 => ABlank a (b0.map classify)
  | .rules r rs tc => (r.Valid a ∧ ∀ x ∈ rs, x.Valid a) ∧ ∀ b5, tc = some b5 → ABlank a (b5.map classify)

def gannText (a : Ann) (tok s1 s2 : List UInt8) (ob : GObj) (s3 tl : List UInt8) : List UInt8 :=
  tok ++ (s1 ++ (47 :: markB a :: (s2 ++ (123 :: (ob.body ++ (125 :: (s3 ++ tl)))))))

structure GAnnValid (a : Ann) (tok s1 s2 : List UInt8) (ob : GObj) (s3 tl : List UInt8) : Prop where
  tok : IsScalar (tok.map classify)
  s1 : IsSpTabs (s1.map classify)
  s2 : ABlank a (s2.map classify)
  ob : ob.Valid a
  s3 : ABlank a (s3.map classify)
  tl : ATail a (tl.map classify)

/-- every name is bare / every value is a literal: the sub-grammars of the two statements -/
def GObj.allRules : GObj → List GRule
  | .empty _ => []
  | .rules r rs _ => r :: rs
def GObj.literalValues (ob : GObj) : Prop := ∀ r ∈ ob.allRules, ∃ v, r.val = .lit v

end Lay
