import JSight.AnnotNote
import JSight.AnnotLoad
/-!
C13, annotations with a note: the loader model on the events `annEvsN`: as without note, and the node's comment is
the span of the note text.
-/
namespace Loader
open SchemaScan (Ev LexT Ann Cls CRule CObj nlEvs annEvsN noteTailEvs)

theorem st_txtB (src : Array UInt8) (a : Ann) (ha : a.isAnn = true) (nd : Node) (rn : Nat × Nat) (pl x y : Nat) :
    step src (annSt (modeOf a) .commentTextBegin nd rn pl) ⟨a.TB, x, y⟩
      = .ok (annSt (modeOf a) .commentTextEnd nd rn pl) := by
  cases a <;> simp [Ann.isAnn] at ha <;> rfl

theorem st_txtE (src : Array UInt8) (a : Ann) (ha : a.isAnn = true) (nd : Node) (rn : Nat × Nat) (pl x y : Nat) :
    step src (annSt (modeOf a) .commentTextEnd nd rn pl) ⟨a.TE, x, y⟩
      = .ok (annSt (modeOf a) .endOfLoading { nd with comment := some (x, y) } rn pl) := by
  cases a <;> simp [Ann.isAnn] at ha <;> rfl

/-- the events up to the blanks behind the rule object -/
theorem annot_prefix_fold (src : Array UInt8) (a : Ann) (ha : a.isAnn = true) (tok s1 s2 : List Cls) (ob : CObj)
    (s3 : List Cls) :
    ∃ rn', Fold src
      (⟨.litB, 0, 0⟩ :: ⟨.litE, 0, tok.length - 1⟩ :: ⟨a.B, SchemaScan.annOff tok s1, SchemaScan.annOff tok s1 + 1⟩ ::
        (nlEvs (SchemaScan.annOff tok s1 + 2) s2 ++ (⟨.objB, SchemaScan.objOff tok s1 s2, SchemaScan.objOff tok s1 s2⟩ ::
          (ob.evs (SchemaScan.objOff tok s1 s2) ++ nlEvs (SchemaScan.objOff tok s1 s2 + 1 + ob.body.length + 1) s3)))) {}
      (annSt (modeOf a) .commentTextBegin
        (addSpans { kind := .lit, parent := none, value := some (0, tok.length - 1) }
          (ob.spans (SchemaScan.objOff tok s1 s2)) (ob.vspans (SchemaScan.objOff tok s1 s2))) rn' 1) := by
  have hm := @modeOf_ne a
  have f1 : Fold src [⟨.litB, 0, 0⟩, ⟨.litE, 0, tok.length - 1⟩,
      ⟨a.B, SchemaScan.annOff tok s1, SchemaScan.annOff tok s1 + 1⟩] {} _ := st_open src a ha _ _ _
  have f2 := nl_fold src (modeOf a) hm .begin rfl { kind := .lit, parent := none, value := some (0, tok.length - 1) }
    (0, 0) 1 s2 (SchemaScan.annOff tok s1 + 2)
  have f3 := Fold.one (st_objB src (modeOf a) hm { kind := .lit, parent := none, value := some (0, tok.length - 1) }
    (0, 0) 1 (SchemaScan.objOff tok s1 s2) (SchemaScan.objOff tok s1 s2))
  obtain ⟨rn', f4⟩ := obj_fold src (modeOf a) hm 1 ob (SchemaScan.objOff tok s1 s2)
    { kind := .lit, parent := none, value := some (0, tok.length - 1) } (0, 0)
  have f5 := nl_fold src (modeOf a) hm .commentTextBegin rfl
    (addSpans { kind := .lit, parent := none, value := some (0, tok.length - 1) } (ob.spans (SchemaScan.objOff tok s1 s2)) (ob.vspans (SchemaScan.objOff tok s1 s2)))
    rn' 1 s3 (SchemaScan.objOff tok s1 s2 + 1 + ob.body.length + 1)
  refine ⟨rn', (Fold.trans f1 (Fold.trans f2 (Fold.trans f3 (Fold.trans f4 f5)))).cast ?_ rfl⟩
  simp

/-- **the loader on the events of an annotated scalar with a note** -/
theorem annot_fold_note (src : Array UInt8) (a : Ann) (ha : a.isAnn = true) (tok s1 s2 : List Cls) (ob : CObj)
    (s3 n1 note tl : List Cls) :
    ∃ st, Fold src (annEvsN a tok s1 s2 ob s3 n1 note tl) {} st ∧ st.root = some 0 ∧
      st.nodes = #[{ addSpans { kind := .lit, parent := none, value := some (0, tok.length - 1) }
          (ob.spans (SchemaScan.objOff tok s1 s2)) (ob.vspans (SchemaScan.objOff tok s1 s2)) with
        comment := some (SchemaScan.noteOff tok s1 s2 ob s3 n1, SchemaScan.noteOff tok s1 s2 ob s3 n1 + note.length - 1) }] := by
  obtain ⟨rn', fp⟩ := annot_prefix_fold src a ha tok s1 s2 ob s3
  have htail : ∃ x y rest, noteTailEvs (SchemaScan.annOff tok s1) (SchemaScan.noteOff tok s1 s2 ob s3 n1)
        (SchemaScan.noteOff tok s1 s2 ob s3 n1 + note.length) a tl
      = ⟨a.TB, SchemaScan.noteOff tok s1 s2 ob s3 n1, SchemaScan.noteOff tok s1 s2 ob s3 n1⟩ ::
        ⟨a.TE, SchemaScan.noteOff tok s1 s2 ob s3 n1, SchemaScan.noteOff tok s1 s2 ob s3 n1 + note.length - 1⟩ ::
        ⟨a.E, x, y⟩ :: rest ∧ ∀ e ∈ rest, e.ty = .newLine := by
    cases a with
    | none => simp [Ann.isAnn] at ha
    | multi => exact ⟨_, _, _, rfl, nlEvs_ty _ _⟩
    | inline =>
      cases tl with
      | nil => exact ⟨_, _, [], rfl, by simp⟩
      | cons c w =>
        refine ⟨_, _, _, rfl, ?_⟩
        intro e he
        simp only [List.mem_cons] at he
        rcases he with rfl | he
        · rfl
        · exact nlEvs_ty _ _ e he
  obtain ⟨x, y, rest, hte, hrest⟩ := htail
  have g1 := Fold.one (st_txtB src a ha
    (addSpans { kind := .lit, parent := none, value := some (0, tok.length - 1) } (ob.spans (SchemaScan.objOff tok s1 s2)) (ob.vspans (SchemaScan.objOff tok s1 s2)))
    rn' 1 (SchemaScan.noteOff tok s1 s2 ob s3 n1) (SchemaScan.noteOff tok s1 s2 ob s3 n1))
  have g2 := Fold.one (st_txtE src a ha
    (addSpans { kind := .lit, parent := none, value := some (0, tok.length - 1) } (ob.spans (SchemaScan.objOff tok s1 s2)) (ob.vspans (SchemaScan.objOff tok s1 s2)))
    rn' 1 (SchemaScan.noteOff tok s1 s2 ob s3 n1) (SchemaScan.noteOff tok s1 s2 ob s3 n1 + note.length - 1))
  have g3 := Fold.one (st_annE src a ha .endOfLoading
    { addSpans { kind := .lit, parent := none, value := some (0, tok.length - 1) }
        (ob.spans (SchemaScan.objOff tok s1 s2)) (ob.vspans (SchemaScan.objOff tok s1 s2)) with
      comment := some (SchemaScan.noteOff tok s1 s2 ob s3 n1, SchemaScan.noteOff tok s1 s2 ob s3 n1 + note.length - 1) }
    rn' 1 x y)
  obtain ⟨st, g4, hn, hr⟩ := nl_fold_default src rest
    { annSt (modeOf a) .endOfLoading
        { addSpans { kind := .lit, parent := none, value := some (0, tok.length - 1) }
            (ob.spans (SchemaScan.objOff tok s1 s2)) (ob.vspans (SchemaScan.objOff tok s1 s2)) with
          comment := some (SchemaScan.noteOff tok s1 s2 ob s3 n1, SchemaScan.noteOff tok s1 s2 ob s3 n1 + note.length - 1) }
        rn' 1 with mode := .default } hrest rfl
  refine ⟨st, ?_, by rw [hr]; rfl, by rw [hn]; rfl⟩
  have := Fold.trans fp (Fold.trans g1 (Fold.trans g2 (Fold.trans g3 g4)))
  refine this.cast ?_ rfl
  simp [annEvsN, hte, List.append_assoc]

end Loader
