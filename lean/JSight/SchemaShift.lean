import JSight.SchemaStep
/-! `processFound` / `shiftFound`: applying queued lexemes keeps the invariant and cannot crash. -/
namespace SchemaScan

theorem processFound_spec (data : Array Cls) (s : Sc) (t : LexT) {S' : List LexT}
    (h : applyFind t (s.stack.map (·.1)) = some S') :
    ∃ stk e, processFound data s t = .ok ({ s with stack := stk }, e) ∧ stk.map (·.1) = S' := by
  unfold applyFind at h
  unfold processFound
  by_cases h1 : (t == LexT.newLine || t == LexT.endTop) = true
  · simp only [h1, ↓reduceIte] at h ⊢
    exact ⟨s.stack, _, rfl, Option.some.inj h⟩
  · simp only [h1, ↓reduceIte] at h ⊢
    by_cases h2 : t.isOpening = true
    · simp only [h2, ↓reduceIte] at h ⊢
      refine ⟨_, _, rfl, ?_⟩
      rw [← Option.some.inj h]; rfl
    · simp only [h2, ↓reduceIte] at h ⊢
      cases hst : s.stack with
      | nil => rw [hst] at h; simp at h
      | cons a l =>
        obtain ⟨p, b⟩ := a
        rw [hst] at h
        simp only [List.map_cons] at h
        by_cases h3 : isNonScalarPair p t = true
        · simp only [h3, ↓reduceIte]
          refine ⟨_, _, rfl, ?_⟩
          simp only [h3, Bool.true_or, ↓reduceIte] at h
          exact Option.some.inj h
        · simp only [h3, ↓reduceIte]
          by_cases h4 : isScalarPair p t = true
          · simp only [h4, ↓reduceIte]
            refine ⟨_, _, rfl, ?_⟩
            simp only [h4, Bool.or_true, ↓reduceIte] at h
            exact Option.some.inj h
          · simp [h3, h4] at h


theorem shiftFound_nil (data : Array Cls) {s : Sc} (h : s.finds = []) : shiftFound data s = .ok none := by
  unfold shiftFound; rw [h]; rfl

/-- delivering one queued lexeme: cannot fail, keeps the invariant, touches only `finds` and `stack` -/
theorem shiftFound_cons (data : Array Cls) {s : Sc} {t rest} (h : Inv s) (hfs : s.finds = t :: rest) :
    ∃ stk e, shiftFound data s = .ok (some ({ s with finds := rest, stack := stk }, e)) ∧
      Inv { s with finds := rest, stack := stk } := by
  obtain ⟨eff, ⟨hA, hC⟩, hG⟩ := h
  rw [hfs] at hA
  simp only [applyFinds] at hA
  cases hS' : applyFind t (s.stack.map (·.1)) with
  | none => rw [hS'] at hA; simp at hA
  | some S' =>
    rw [hS'] at hA
    obtain ⟨stk, e, hp, hm⟩ := processFound_spec data { s with finds := rest } t hS'
    refine ⟨stk, e, ?_, ⟨eff, ⟨?_, hC⟩, hG⟩⟩
    · unfold shiftFound
      rw [hfs]
      simp only [bind, Except.bind, pure, Except.pure, hp]
    · show applyFinds rest (stk.map (·.1)) = some eff
      rw [hm]; exact hA

end SchemaScan
