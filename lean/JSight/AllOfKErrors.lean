import JSight.AllOfKProofs
/-!
C03, allOf: when the expansion fails, as coded.

* `compileWith_obj_fails_iff`: the expansion of an object with an allOf list fails iff the list is empty, or a
  base does not expand (cycle, unknown type, or a failure inside it: `processType_fails_iff`), or a base is not an
  object, or — all bases being objects — a (key, isShortcut) pair comes twice or two additionalProperties
  constraints are not `IsEqual`, or an own child fails. The statement does not depend on the order in which the
  code meets the defects (the order only decides which one is reported; that is compared with the code by the
  harness).
* `cycle_fails` / `recursion_error_cycle`: the in-progress set reports exactly the cycles of the inheritance
  graph: every table with a cycle among its types is refused, and error 703 is only reported when there is one.
-/
namespace AOK
variable {L : Type}

/-! ### resolution of a list of names -/

theorem resolves_mem_left (pt : String → Except Err (CS L)) : ∀ (names : List String) (bases : List (CS L)),
    Resolves pt names bases → ∀ n ∈ names, ∃ b ∈ bases, pt n = .ok b := by
  intro names bases h
  induction h with
  | nil => intro n hn; cases hn
  | cons hb _ ih =>
    intro n hn
    rcases List.mem_cons.1 hn with rfl | hn
    · exact ⟨_, List.mem_cons_self .., hb⟩
    · obtain ⟨b, hbm, hb'⟩ := ih n hn
      exact ⟨b, List.mem_cons_of_mem _ hbm, hb'⟩

theorem resolves_mem_right (pt : String → Except Err (CS L)) : ∀ (names : List String) (bases : List (CS L)),
    Resolves pt names bases → ∀ b ∈ bases, ∃ n ∈ names, pt n = .ok b := by
  intro names bases h
  induction h with
  | nil => intro b hb; cases hb
  | cons hb _ ih =>
    intro b hbm
    rcases List.mem_cons.1 hbm with rfl | hbm
    · exact ⟨_, List.mem_cons_self .., hb⟩
    · obtain ⟨n, hn, hb'⟩ := ih b hbm
      exact ⟨n, List.mem_cons_of_mem _ hn, hb'⟩

theorem resolves_exists (pt : String → Except Err (CS L)) : ∀ (names : List String),
    (∀ n ∈ names, ∃ b, pt n = .ok b) → ∃ bases, Resolves pt names bases := by
  intro names
  induction names with
  | nil => intro _; exact ⟨[], .nil⟩
  | cons n ns ih =>
    intro h
    obtain ⟨b, hb⟩ := h n (List.mem_cons_self ..)
    obtain ⟨bs, hbs⟩ := ih (fun m hm => h m (List.mem_cons_of_mem _ hm))
    exact ⟨b :: bs, .cons hb hbs⟩

section
variable [DecidableEq L]

/-- **when the expansion of an object fails** -/
theorem compileWith_obj_fails_iff (pt : String → Except Err (CS L)) (ents : List (String × Bool × Bool × PS L))
    (add : Option (AP L)) (names : List String) :
    (∃ e, compileWith pt (.obj ents add (some names)) = .error e) ↔
        names = []
      ∨ (∃ n ∈ names, ∃ e, pt n = .error e)
      ∨ (∃ n ∈ names, ∃ b, pt n = .ok b ∧ isObj b = false)
      ∨ (∃ bases, Resolves pt names bases ∧
          (¬ Fresh (ents.map keyOf) (bases.flatMap keysOf) ∨ ¬ Compatible (add :: bases.map addOf)))
      ∨ (∃ e, compileEnts pt ents = .error e) := by
  have hiff := compileWith_obj_ok_iff pt ents add names
  constructor
  · rintro ⟨e, he⟩
    by_cases h0 : names = []
    · exact Or.inl h0
    by_cases h1 : ∀ n ∈ names, ∃ b, pt n = .ok b
    · obtain ⟨bases, hr⟩ := resolves_exists pt names h1
      by_cases h2 : ∀ b ∈ bases, isObj b = true
      · cases h3 : compileEnts pt ents with
        | error e' => exact Or.inr (Or.inr (Or.inr (Or.inr ⟨e', rfl⟩)))
        | ok own =>
          by_cases h4 : Fresh (ents.map keyOf) (bases.flatMap keysOf) ∧ Compatible (add :: bases.map addOf)
          · have := (hiff _).2 ⟨h0, bases, own, hr, h2, h3, h4.1, h4.2, rfl⟩
            rw [he] at this; cases this
          · refine Or.inr (Or.inr (Or.inr (Or.inl ⟨bases, hr, ?_⟩)))
            by_cases hf : Fresh (ents.map keyOf) (bases.flatMap keysOf)
            · exact Or.inr (fun hc => h4 ⟨hf, hc⟩)
            · exact Or.inl hf
      · obtain ⟨b, hb'⟩ := Classical.not_forall.1 h2
        obtain ⟨hb, hnb⟩ := Classical.not_imp.1 hb'
        obtain ⟨n, hn, hpn⟩ := resolves_mem_right pt names bases hr b hb
        exact Or.inr (Or.inr (Or.inl ⟨n, hn, b, hpn, by simpa using hnb⟩))
    · obtain ⟨n, hn'⟩ := Classical.not_forall.1 h1
      obtain ⟨hn, hne⟩ := Classical.not_imp.1 hn'
      cases hp : pt n with
      | ok b => exact absurd ⟨b, hp⟩ hne
      | error e' => exact Or.inr (Or.inl ⟨n, hn, e', hp⟩)
  · intro h
    cases hc : compileWith pt (.obj ents add (some names)) with
    | error e => exact ⟨e, rfl⟩
    | ok c =>
      exfalso
      obtain ⟨h0, bases, own, hr, hobj, hown, hf, hcomp, _⟩ := (hiff c).1 hc
      rcases h with h | ⟨n, hn, e, he⟩ | ⟨n, hn, b, hb, hnb⟩ | ⟨bases', hr', hbad⟩ | ⟨e, he⟩
      · exact h0 h
      · obtain ⟨b, _, hb⟩ := resolves_mem_left pt names bases hr n hn
        rw [he] at hb; cases hb
      · obtain ⟨b', hb'm, hb'⟩ := resolves_mem_left pt names bases hr n hn
        rw [hb] at hb'; cases hb'
        rw [hobj b hb'm] at hnb; cases hnb
      · have := resolves_unique pt names _ _ hr' hr; subst this
        rcases hbad with hb | hb
        · exact hb hf
        · exact hb hcomp
      · rw [he] at hown; cases hown

/-- a type does not expand iff it is in progress (a cycle), unknown, or its body does not expand -/
theorem processType_fails_iff (env : PEnv L) (f : Nat) (P : List String) (n : String) :
    (∃ e, processType env (f + 1) P n = .error e) ↔
      n ∈ P ∨ lookupP env n = none ∨
      ∃ t, lookupP env n = some t ∧ ∃ e, compileWith (fun m => processType env f (n :: P) m) t = .error e := by
  simp only [processType]
  by_cases hn : P.contains n = true
  · have : n ∈ P := List.contains_iff_mem.1 hn
    simp [this]
  · have : n ∉ P := fun h => hn (List.contains_iff_mem.2 h)
    rw [if_neg hn]
    cases hl : lookupP env n with
    | none => simp
    | some t => simp [this]

/-! ### cycles of the inheritance graph -/

mutual
/-- every type name in an allOf list of a node of the schema -/
def allOfNames : PS L → List String
  | .lit _ => []
  | .any => []
  | .ref _ _ => []
  | .bad names => names
  | .arr items => allOfNamesList items
  | .obj ents _ allOf => (match allOf with | some names => names | none => []) ++ allOfNamesEnts ents
def allOfNamesList : List (PS L) → List String
  | [] => []
  | x :: xs => allOfNames x ++ allOfNamesList xs
def allOfNamesEnts : List (String × Bool × Bool × PS L) → List String
  | [] => []
  | (_, _, _, v) :: es => allOfNames v ++ allOfNamesEnts es
end

/-- type `a` names type `b` in an allOf list somewhere in its body -/
def Dep (env : PEnv L) (a b : String) : Prop := ∃ t, lookupP env a = some t ∧ b ∈ allOfNames t

/-- one or more inheritance steps -/
inductive DepPlus (env : PEnv L) : String → String → Prop
  | one {a b : String} : Dep env a b → DepPlus env a b
  | step {a b c : String} : Dep env a b → DepPlus env b c → DepPlus env a c

theorem extendAll_ok_names (pt : String → Except Err (CS L)) (names : List String) : ∀ (acc acc' : Acc L),
    extendAll pt acc names = .ok acc' → ∀ n ∈ names, ∃ c, pt n = .ok c := by
  induction names with
  | nil => intro _ _ _ n hn; cases hn
  | cons m ms ih =>
    intro acc acc' h n hn
    simp only [extendAll] at h
    cases h1 : extendWith pt acc m with
    | error e => rw [h1] at h; cases h
    | ok a1 =>
      rw [h1] at h
      rcases List.mem_cons.1 hn with rfl | hn
      · unfold extendWith at h1
        cases hp : pt n with
        | error e => rw [hp] at h1; cases h1
        | ok c => exact ⟨c, rfl⟩
      · exact ih a1 acc' h n hn

mutual
/-- an expansion that succeeds has resolved every name of every allOf list -/
theorem compileWith_ok_names (pt : String → Except Err (CS L)) :
    ∀ (t : PS L) (c : CS L), compileWith pt t = .ok c → ∀ n ∈ allOfNames t, ∃ cn, pt n = .ok cn
  | .lit l, c, _ => by simp [allOfNames]
  | .any, c, _ => by simp [allOfNames]
  | .ref names nul, c, _ => by simp [allOfNames]
  | .bad names, c, h => by simp [compileWith] at h
  | .arr items, c, h => by
    rw [compileWith] at h
    cases hl : compileList pt items with
    | error e => rw [hl] at h; cases h
    | ok items' => simpa [allOfNames] using compileList_ok_names pt items items' hl
  | .obj ents add allOf, c, h => by
    rw [compileWith] at h
    cases h1 : extendObj pt ⟨ents.map keyOf, [], reqOf ents, add⟩ allOf with
    | error e => rw [h1] at h; cases h
    | ok acc =>
      rw [h1] at h
      cases h2 : compileEnts pt ents with
      | error e => rw [h2] at h; cases h
      | ok own =>
        intro n hn
        simp only [allOfNames, List.mem_append] at hn
        rcases hn with hn | hn
        · cases allOf with
          | none => cases hn
          | some names =>
            cases names with
            | nil => cases hn
            | cons m ms => simp only [extendObj] at h1; exact extendAll_ok_names pt _ _ _ h1 n hn
        · exact compileEnts_ok_names pt ents own h2 n hn
theorem compileList_ok_names (pt : String → Except Err (CS L)) :
    ∀ (xs : List (PS L)) (cs : List (CS L)), compileList pt xs = .ok cs → ∀ n ∈ allOfNamesList xs, ∃ cn, pt n = .ok cn
  | [], _, _ => by simp [allOfNamesList]
  | x :: xs, cs, h => by
    simp only [compileList] at h
    cases h1 : compileWith pt x with
    | error e => rw [h1] at h; cases h
    | ok x' =>
      rw [h1] at h
      cases h2 : compileList pt xs with
      | error e => rw [h2] at h; cases h
      | ok xs' =>
        intro n hn
        simp only [allOfNamesList, List.mem_append] at hn
        rcases hn with hn | hn
        · exact compileWith_ok_names pt x x' h1 n hn
        · exact compileList_ok_names pt xs xs' h2 n hn
theorem compileEnts_ok_names (pt : String → Except Err (CS L)) :
    ∀ (es : List (String × Bool × Bool × PS L)) (cs : List (String × Bool × Bool × CS L)),
      compileEnts pt es = .ok cs → ∀ n ∈ allOfNamesEnts es, ∃ cn, pt n = .ok cn
  | [], _, _ => by simp [allOfNamesEnts]
  | (k, sh, r, v) :: es, cs, h => by
    simp only [compileEnts] at h
    cases h1 : compileWith pt v with
    | error e => rw [h1] at h; cases h
    | ok v' =>
      rw [h1] at h
      cases h2 : compileEnts pt es with
      | error e => rw [h2] at h; cases h
      | ok es' =>
        intro n hn
        simp only [allOfNamesEnts, List.mem_append] at hn
        rcases hn with hn | hn
        · exact compileWith_ok_names pt v v' h1 n hn
        · exact compileEnts_ok_names pt es es' h2 n hn
end

/-- a type that expands has expanded everything it inherits from, outside the types in progress -/
theorem processType_ok_dep (env : PEnv L) (f : Nat) (P : List String) (a b : String) (c : CS L)
    (h : processType env f P a = .ok c) (hd : Dep env a b) :
    a ∉ P ∧ ∃ g cb, g < f ∧ processType env g (a :: P) b = .ok cb := by
  cases f with
  | zero => simp [processType] at h
  | succ f =>
    simp only [processType] at h
    by_cases hn : P.contains a = true
    · rw [if_pos hn] at h; cases h
    · rw [if_neg hn] at h
      obtain ⟨t, ht, hb⟩ := hd
      rw [ht] at h
      simp only at h
      obtain ⟨cb, hcb⟩ := compileWith_ok_names _ t c h b hb
      exact ⟨fun hm => hn (List.contains_iff_mem.2 hm), f, cb, Nat.lt_succ_self f, hcb⟩

theorem processType_ok_depPlus (env : PEnv L) (a b : String) (hd : DepPlus env a b) :
    ∀ (f : Nat) (P : List String) (c : CS L), processType env f P a = .ok c → b ∉ a :: P := by
  induction hd with
  | one hab =>
    intro f P c h
    obtain ⟨_, g, cb, _, hb⟩ := processType_ok_dep env f P _ _ c h hab
    cases g with
    | zero => simp [processType] at hb
    | succ g =>
      simp only [processType] at hb
      intro hm
      rw [if_pos (List.contains_iff_mem.2 hm)] at hb; cases hb
  | step hab _ ih =>
    intro f P c h
    obtain ⟨_, g, cb, _, hb⟩ := processType_ok_dep env f P _ _ c h hab
    intro hm
    exact ih g _ cb hb (List.mem_cons_of_mem _ hm)

/-- **a cycle of the inheritance graph is refused**: a type that inherits from itself, through any number of
steps and from any depth of its body, never expands -/
theorem cycle_fails (env : PEnv L) (a : String) (hc : DepPlus env a a) (f : Nat) (P : List String) :
    ∃ e, processType env f P a = .error e := by
  cases h : processType env f P a with
  | error e => exact ⟨e, rfl⟩
  | ok c => exact absurd (List.mem_cons_self ..) (processType_ok_depPlus env a a hc f P c h)


/-! ### error 703 is only reported on a cycle -/

/-- the errors `processNode` raises itself (the others come out of `processType`) -/
def Err.isLocal : Err → Bool
  | .notObject | .unexpectedConstraint | .duplicateKey | .conflictAdd | .emptyAllOf => true
  | .recursion | .unknownType | .fuel => false

theorem extendWith_foreign (pt : String → Except Err (CS L)) (acc : Acc L) (n : String) (e : Err)
    (hloc : e.isLocal = false) (h : extendWith pt acc n = .error e) : pt n = .error e := by
  unfold extendWith at h
  cases hp : pt n with
  | error e' => rw [hp] at h; simp only [Except.error.injEq] at h; rw [h]
  | ok b =>
    rw [hp] at h
    cases b with
    | obj bents breq badd =>
      simp only at h
      cases hm : mergeAdd acc.add badd with
      | error e' =>
        rw [hm] at h; have := mergeAdd_error _ _ _ hm; subst this
        simp only [Except.error.injEq] at h; subst h; cases hloc
      | ok a =>
        rw [hm] at h
        simp only at h
        cases hk : addKeys acc.keys (bents.map keyOf) with
        | error e' =>
          rw [hk] at h; have := addKeys_error _ _ _ hk; subst this
          simp only [Except.error.injEq] at h; subst h; cases hloc
        | ok ks => rw [hk] at h; cases h
    | lit l => simp only [Except.error.injEq] at h; subst h; cases hloc
    | any => simp only [Except.error.injEq] at h; subst h; cases hloc
    | arr items => simp only [Except.error.injEq] at h; subst h; cases hloc
    | ref names nul => simp only [Except.error.injEq] at h; subst h; cases hloc

theorem extendAll_foreign (pt : String → Except Err (CS L)) (e : Err) (hloc : e.isLocal = false)
    (names : List String) : ∀ (acc : Acc L), extendAll pt acc names = .error e → ∃ n ∈ names, pt n = .error e := by
  induction names with
  | nil => intro acc h; simp [extendAll] at h
  | cons n ns ih =>
    intro acc h
    simp only [extendAll] at h
    cases h1 : extendWith pt acc n with
    | error e' =>
      rw [h1] at h; simp only [Except.error.injEq] at h; subst h
      exact ⟨n, List.mem_cons_self .., extendWith_foreign pt acc n _ hloc h1⟩
    | ok a1 =>
      rw [h1] at h
      obtain ⟨m, hm, hp⟩ := ih a1 h
      exact ⟨m, List.mem_cons_of_mem _ hm, hp⟩

mutual
/-- an error that `processNode` does not raise itself comes out of `processType` for a name of an allOf list -/
theorem compileWith_foreign (pt : String → Except Err (CS L)) (e : Err) (hloc : e.isLocal = false) :
    ∀ (t : PS L), compileWith pt t = .error e → ∃ n ∈ allOfNames t, pt n = .error e
  | .lit l, h => by simp [compileWith] at h
  | .any, h => by simp [compileWith] at h
  | .ref names nul, h => by simp [compileWith] at h
  | .bad names, h => by
    simp only [compileWith, Except.error.injEq] at h
    cases names with
    | nil => simp only [extendBad] at h; subst h; cases hloc
    | cons n ns =>
      simp only [extendBad] at h
      cases hp : pt n with
      | error e' =>
        rw [hp] at h; simp only at h
        exact ⟨n, by simp [allOfNames], by rw [hp, h]⟩
      | ok b =>
        rw [hp] at h; simp only at h
        split at h <;> (subst h; cases hloc)
  | .arr items, h => by
    rw [compileWith] at h
    cases hl : compileList pt items with
    | error e' =>
      rw [hl] at h; simp only [Except.error.injEq] at h; subst h
      simpa [allOfNames] using compileList_foreign pt _ hloc items hl
    | ok items' => rw [hl] at h; cases h
  | .obj ents add allOf, h => by
    rw [compileWith] at h
    cases h1 : extendObj pt ⟨ents.map keyOf, [], reqOf ents, add⟩ allOf with
    | error e' =>
      rw [h1] at h; simp only [Except.error.injEq] at h; subst h
      cases allOf with
      | none => simp [extendObj] at h1
      | some names =>
        cases names with
        | nil => simp only [extendObj, Except.error.injEq] at h1; subst h1; cases hloc
        | cons n ns =>
          simp only [extendObj] at h1
          obtain ⟨m, hm, hp⟩ := extendAll_foreign pt _ hloc _ _ h1
          exact ⟨m, by simp only [allOfNames, List.mem_append]; exact Or.inl hm, hp⟩
    | ok acc =>
      rw [h1] at h
      cases h2 : compileEnts pt ents with
      | error e' =>
        rw [h2] at h; simp only [Except.error.injEq] at h; subst h
        obtain ⟨m, hm, hp⟩ := compileEnts_foreign pt _ hloc ents h2
        exact ⟨m, by simp only [allOfNames, List.mem_append]; exact Or.inr hm, hp⟩
      | ok own => rw [h2] at h; cases h
theorem compileList_foreign (pt : String → Except Err (CS L)) (e : Err) (hloc : e.isLocal = false) :
    ∀ (xs : List (PS L)), compileList pt xs = .error e → ∃ n ∈ allOfNamesList xs, pt n = .error e
  | [], h => by simp [compileList] at h
  | x :: xs, h => by
    simp only [compileList] at h
    cases h1 : compileWith pt x with
    | error e' =>
      rw [h1] at h; simp only [Except.error.injEq] at h; subst h
      obtain ⟨m, hm, hp⟩ := compileWith_foreign pt _ hloc x h1
      exact ⟨m, by simp only [allOfNamesList, List.mem_append]; exact Or.inl hm, hp⟩
    | ok x' =>
      rw [h1] at h
      cases h2 : compileList pt xs with
      | error e' =>
        rw [h2] at h; simp only [Except.error.injEq] at h; subst h
        obtain ⟨m, hm, hp⟩ := compileList_foreign pt _ hloc xs h2
        exact ⟨m, by simp only [allOfNamesList, List.mem_append]; exact Or.inr hm, hp⟩
      | ok xs' => rw [h2] at h; cases h
theorem compileEnts_foreign (pt : String → Except Err (CS L)) (e : Err) (hloc : e.isLocal = false) :
    ∀ (es : List (String × Bool × Bool × PS L)), compileEnts pt es = .error e → ∃ n ∈ allOfNamesEnts es, pt n = .error e
  | [], h => by simp [compileEnts] at h
  | (k, sh, r, v) :: es, h => by
    simp only [compileEnts] at h
    cases h1 : compileWith pt v with
    | error e' =>
      rw [h1] at h; simp only [Except.error.injEq] at h; subst h
      obtain ⟨m, hm, hp⟩ := compileWith_foreign pt _ hloc v h1
      exact ⟨m, by simp only [allOfNamesEnts, List.mem_append]; exact Or.inl hm, hp⟩
    | ok v' =>
      rw [h1] at h
      cases h2 : compileEnts pt es with
      | error e' =>
        rw [h2] at h; simp only [Except.error.injEq] at h; subst h
        obtain ⟨m, hm, hp⟩ := compileEnts_foreign pt _ hloc es h2
        exact ⟨m, by simp only [allOfNamesEnts, List.mem_append]; exact Or.inr hm, hp⟩
      | ok es' => rw [h2] at h; cases h
end

/-- the types in progress form a chain of inheritance steps that ends in `n` -/
def ChainTo (env : PEnv L) : List String → String → Prop
  | [], _ => True
  | p :: ps, n => Dep env p n ∧ ChainTo env ps p

omit [DecidableEq L] in
theorem depPlus_snoc (env : PEnv L) (a b c : String) (h : DepPlus env a b) (hbc : Dep env b c) : DepPlus env a c := by
  induction h with
  | one hab => exact .step hab (.one hbc)
  | step hab _ ih => exact .step hab (ih hbc)

omit [DecidableEq L] in
theorem chainTo_depPlus (env : PEnv L) : ∀ (P : List String) (n : String), ChainTo env P n → ∀ x ∈ P, DepPlus env x n := by
  intro P
  induction P with
  | nil => intro n _ x hx; cases hx
  | cons p ps ih =>
    intro n h x hx
    obtain ⟨hd, hc⟩ := h
    rcases List.mem_cons.1 hx with rfl | hx
    · exact .one hd
    · exact depPlus_snoc env x p n (ih p hc x hx) hd

/-- **error 703 means a cycle**: when `processType` reports the recursion error for a name reached along a
chain of inheritance steps, some type inherits from itself -/
theorem recursion_error_cycle (env : PEnv L) : ∀ (f : Nat) (P : List String) (n : String),
    ChainTo env P n → processType env f P n = .error .recursion → ∃ a, DepPlus env a a := by
  intro f
  induction f with
  | zero => intro P n _ h; simp [processType] at h
  | succ f ih =>
    intro P n hch h
    simp only [processType] at h
    by_cases hn : P.contains n = true
    · exact ⟨n, chainTo_depPlus env P n hch n (List.contains_iff_mem.1 hn)⟩
    · rw [if_neg hn] at h
      cases hl : lookupP env n with
      | none => rw [hl] at h; cases h
      | some t =>
        rw [hl] at h
        simp only at h
        obtain ⟨m, hm, hp⟩ := compileWith_foreign _ .recursion rfl t h
        exact ih (n :: P) m ⟨⟨t, hl, hm⟩, hch⟩ hp

/-! ### the whole table -/

omit [DecidableEq L] in
theorem mem_insertName (n m : String) (ms : List String) : m ∈ insertName n ms ↔ m = n ∨ m ∈ ms := by
  induction ms with
  | nil => simp [insertName]
  | cons x xs ih =>
    simp only [insertName]
    split
    · simp
    · simp only [List.mem_cons, ih]
      constructor
      · rintro (h | h | h)
        · exact Or.inr (Or.inl h)
        · exact Or.inl h
        · exact Or.inr (Or.inr h)
      · rintro (h | h | h)
        · exact Or.inr (Or.inl h)
        · exact Or.inl h
        · exact Or.inr (Or.inr h)

omit [DecidableEq L] in
theorem mem_sortNames (m : String) (ns : List String) : m ∈ sortNames ns ↔ m ∈ ns := by
  induction ns with
  | nil => simp [sortNames]
  | cons n ns ih =>
    simp only [sortNames, List.foldr_cons] at ih ⊢
    rw [mem_insertName, ih]; simp

theorem firstErr_none (env : PEnv L) (f : Nat) : ∀ (ns : List String), firstErr env f ns = none →
    ∀ n ∈ ns, ∃ c, processType env f [] n = .ok c := by
  intro ns
  induction ns with
  | nil => intro _ n hn; cases hn
  | cons m ms ih =>
    intro h n hn
    simp only [firstErr] at h
    cases hp : processType env f [] m with
    | error e => rw [hp] at h; cases h
    | ok c =>
      rw [hp] at h
      rcases List.mem_cons.1 hn with rfl | hn
      · exact ⟨c, hp⟩
      · exact ih h n hn

theorem firstErr_some (env : PEnv L) (f : Nat) (e : Err) : ∀ (ns : List String), firstErr env f ns = some e →
    ∃ n ∈ ns, processType env f [] n = .error e := by
  intro ns
  induction ns with
  | nil => intro h; simp [firstErr] at h
  | cons m ms ih =>
    intro h
    simp only [firstErr] at h
    cases hp : processType env f [] m with
    | error e' => rw [hp] at h; simp only [Option.some.injEq] at h; subst h; exact ⟨m, List.mem_cons_self .., hp⟩
    | ok c =>
      rw [hp] at h
      obtain ⟨n, hn, hpn⟩ := ih h
      exact ⟨n, List.mem_cons_of_mem _ hn, hpn⟩

omit [DecidableEq L] in
theorem lookupP_some_mem (env : PEnv L) (n : String) (t : PS L) (h : lookupP env n = some t) : n ∈ env.map (·.1) := by
  simp only [lookupP, Option.map_eq_some_iff] at h
  obtain ⟨e, he, _⟩ := h
  have h1 := List.mem_of_find?_eq_some he
  have h2 := List.find?_some he
  simp only [beq_iff_eq] at h2
  exact List.mem_map.2 ⟨e, h1, h2⟩

/-- `CompileAllOf` refuses every table in which a type inherits from itself, whether or not the root uses it -/
theorem compileAll_cycle_fails (env : PEnv L) (root : PS L) (a : String) (hc : DepPlus env a a) :
    ∃ e, compileAll env root = .error e := by
  cases h : compileAll env root with
  | error e => exact ⟨e, rfl⟩
  | ok r =>
    exfalso
    simp only [compileAll] at h
    cases h1 : compileWith (fun m => processType env (env.length + 1) [] m) root with
    | error e => rw [h1] at h; cases h
    | ok root' =>
      rw [h1] at h
      simp only at h
      cases h2 : firstErr env (env.length + 1) (sortNames (env.map (·.1))) with
      | some e => rw [h2] at h; cases h
      | none =>
        have ha : a ∈ env.map (·.1) := by
          cases hc with
          | one hd => obtain ⟨t, ht, _⟩ := hd; exact lookupP_some_mem env a t ht
          | step hd _ => obtain ⟨t, ht, _⟩ := hd; exact lookupP_some_mem env a t ht
        obtain ⟨c, hok⟩ := firstErr_none env _ _ h2 a ((mem_sortNames a _).2 ha)
        obtain ⟨e, he⟩ := cycle_fails env a hc (env.length + 1) []
        rw [hok] at he; cases he

/-- when `CompileAllOf` reports the recursion error (703) some type of the table inherits from itself -/
theorem compileAll_recursion_cycle (env : PEnv L) (root : PS L) (h : compileAll env root = .error .recursion) :
    ∃ a, DepPlus env a a := by
  simp only [compileAll] at h
  cases h1 : compileWith (fun m => processType env (env.length + 1) [] m) root with
  | error e =>
    rw [h1] at h; simp only [Except.error.injEq] at h; subst h
    obtain ⟨m, _, hp⟩ := compileWith_foreign _ .recursion rfl root h1
    exact recursion_error_cycle env _ [] m trivial hp
  | ok root' =>
    rw [h1] at h
    simp only at h
    cases h2 : firstErr env (env.length + 1) (sortNames (env.map (·.1))) with
    | some e =>
      rw [h2] at h; simp only [Except.error.injEq] at h; subst h
      obtain ⟨n, _, hp⟩ := firstErr_some env _ _ _ h2
      exact recursion_error_cycle env _ [] n trivial hp
    | none =>
      rw [h2] at h
      simp only at h
      have : ∀ (ns : List String), compileTypes env (env.length + 1) ns = .error .recursion →
          ∃ n, processType env (env.length + 1) [] n = .error .recursion := by
        intro ns
        induction ns with
        | nil => simp [compileTypes]
        | cons n ns ihn =>
          simp only [compileTypes]
          cases hp : processType env (env.length + 1) [] n with
          | error e => simp only [Except.error.injEq]; intro he; subst he; exact ⟨n, hp⟩
          | ok c =>
            simp only
            cases hq : compileTypes env (env.length + 1) ns with
            | error e => simp only [Except.error.injEq]; intro he; subst he; exact ihn hq
            | ok cs => simp
      cases h3 : compileTypes env (env.length + 1) (env.map (·.1)) with
      | error e =>
        rw [h3] at h; simp only [Except.error.injEq] at h; subst h
        obtain ⟨n, hp⟩ := this _ h3
        exact recursion_error_cycle env _ [] n trivial hp
      | ok env' => rw [h3] at h; cases h

end

end AOK
