import JSight.SchemaLenBase
/-!
Single-byte behaviour of the schema scanner model on plain JSON, for an arbitrary `lengthComputing` flag
(the lemmas of `SchemaEventsStep` restated on `cfgL lc`; same proofs), and as `Path`s.
-/
namespace SchemaScan
namespace Len

variable {lc : Bool}

theorem ev_close (f : Nat) (st : St) (lit : Bool) (ck : CK) (b b2 : Nat) (R : List (LexT × Nat)) (i : Nat)
    (CS : List Ctx) (cx : Ctx) (al : Bool) (c : Cls) (p1 p2 : Option Cls) :
    endValue f (cfgL lc st [] (pendOf lit b ++ (ck.B, b2) :: R) false i CS cx al) c p1 p2
      = dispatch f ck.aft
          { cfgL lc ck.aft [] (pendOf lit b ++ (ck.B, b2) :: R) false i CS cx al with finds := closeTys lit ck } c p1 p2 := by
  cases lit <;> cases ck <;> (unfold endValue dispatch'; rfl)

theorem ev_root (f : Nat) (st : St) (lit : Bool) (b : Nat) (i : Nat)
    (CS : List Ctx) (cx : Ctx) (al : Bool) (c : Cls) (p1 p2 : Option Cls) :
    endValue f (cfgL lc st [] (pendOf lit b) false i CS cx al) c p1 p2
      = dispatch f .endTop
          { cfgL lc .endTop [] (pendOf lit b) false i CS cx al with finds := if lit then [.litE] else [] } c p1 p2 := by
  cases lit <;> (unfold endValue dispatch'; rfl)

theorem loop_sp (f : Nat) (st : St) (h : wsLoop st = true) (c : Cls) (hc : c.isSpTab = true)
    (K : List (LexT × Nat)) (i : Nat) (CS : List Ctx) (cx : Ctx) (al : Bool) (fs : List LexT) (p1 p2 : Option Cls) :
    dispatch (f + 1) st { cfgL lc st [] K false i CS cx al with finds := fs } c p1 p2
      = .ok { cfgL lc st [] K false i CS cx al with finds := fs } := by
  cases st <;> simp [wsLoop] at h <;> cases c <;> simp [Cls.isSpTab] at hc <;> (unfold dispatch; rfl)

theorem loop_nl (f : Nat) (st : St) (h : wsLoop st = true)
    (K : List (LexT × Nat)) (i : Nat) (CS : List Ctx) (cx : Ctx) (al : Bool) (fs : List LexT) (p1 p2 : Option Cls) :
    dispatch (f + 1) st { cfgL lc st [] K false i CS cx al with finds := fs } .nl p1 p2
      = .ok { cfgL lc (nlSt st) [] K false i CS cx (nlAl st al) with finds := fs ++ [.newLine] } := by
  cases st <;> simp [wsLoop] at h <;> (unfold dispatch; rfl)

theorem aft_sep (f : Nat) (ck : CK)
    (K : List (LexT × Nat)) (i : Nat) (CS : List Ctx) (cx : Ctx) (al : Bool) (fs : List LexT) (p1 p2 : Option Cls) :
    dispatch (f + 1) ck.aft { cfgL lc ck.aft [] K false i CS cx al with finds := fs } ck.sep p1 p2
      = .ok { cfgL lc ck.nxt [] K false i CS cx al with finds := fs } := by
  cases ck <;> (unfold dispatch; rfl)

theorem aft_rbrack (f : Nat) (x : LexT × Nat)
    (K : List (LexT × Nat)) (i : Nat) (c0 : Ctx) (CS : List Ctx) (cx : Ctx) (al : Bool) (fs : List LexT) (p1 p2 : Option Cls) :
    dispatch (f + 1) .afterItem { cfgL lc .afterItem [] (x :: K) false i (c0 :: CS) cx al with finds := fs } .rbrack p1 p2
      = .ok { cfgL lc .endValue [] (x :: K) false i CS c0 (!cx.arrayHasItem) with finds := fs ++ [.arrE] } := by
  unfold dispatch; rfl

theorem aft_rbrace (f : Nat)
    (K : List (LexT × Nat)) (i : Nat) (c0 : Ctx) (CS : List Ctx) (cx : Ctx) (al : Bool) (fs : List LexT) (p1 p2 : Option Cls) :
    dispatch (f + 1) .afterValue { cfgL lc .afterValue [] K false i (c0 :: CS) cx al with finds := fs } .rbrace p1 p2
      = .ok { cfgL lc .endValue [] K false i CS c0 al with finds := fs ++ [.objE] } := by
  unfold dispatch; rfl

theorem silent_dispatch (f : Nat) (st : St) (r : List St) (u : Bool) (c : Cls) (st' : St) (r' : List St) (u' : Bool)
    (h : silent st r u c = some (st', r', u'))
    (K : List (LexT × Nat)) (i : Nat) (CS : List Ctx) (cx : Ctx) (al : Bool) (p1 p2 : Option Cls) :
    dispatch (f + 1) st (cfgL lc st r K u i CS cx al) c p1 p2 = .ok (cfgL lc st' r' K u' i CS cx al) := by
  by_cases h3 : st = .u3
  · subst h3
    cases r with
    | nil => simp [silent] at h
    | cons r0 r =>
      cases c <;> simp [silent, Cls.isHex] at h <;>
        (obtain ⟨rfl, rfl, rfl⟩ := h; unfold dispatch; rfl)
  · cases st <;> (try exact absurd rfl h3) <;> simp only [silent, reduceCtorEq] at h <;> cases c <;>
      simp [Cls.isHex] at h <;>
      (obtain ⟨rfl, rfl, rfl⟩ := h; unfold dispatch; try unfold state0) <;> rfl

theorem start_scalar_d (f : Nat) (c : Cls) (st0 : St) (u0 : Bool) (h : litStart c = some (st0, u0)) (ctx : VCtx)
    (K : List (LexT × Nat)) (i : Nat) (CS : List Ctx) (cx : Ctx) (al : Bool) (p1 p2 : Option Cls) :
    dispatch (f + 1) ctx.st (cfgL lc ctx.st [] K false i CS cx al) c p1 p2
      = .ok { cfgL lc st0 [] K u0 i CS (ctx.cx' cx) al with finds := ctx.preTys ++ [.litB] } := by
  cases c <;> simp [litStart] at h <;> obtain ⟨rfl, rfl⟩ := h <;> cases ctx <;> (unfold dispatch; rfl)

theorem start_array_d (f : Nat) (ctx : VCtx)
    (K : List (LexT × Nat)) (i : Nat) (CS : List Ctx) (cx : Ctx) (al : Bool) (p1 p2 : Option Cls) :
    dispatch (f + 1) ctx.st (cfgL lc ctx.st [] K false i CS cx al) .lbrack p1 p2
      = .ok { cfgL lc .arrItemOrEmpty [] K false i (ctx.cx' cx :: CS) { ty := .array } al with
                finds := ctx.preTys ++ [.arrB] } := by
  cases ctx <;> (unfold dispatch; rfl)

theorem start_object_d (f : Nat) (ctx : VCtx)
    (K : List (LexT × Nat)) (i : Nat) (CS : List Ctx) (cx : Ctx) (al : Bool) (p1 p2 : Option Cls) :
    dispatch (f + 1) ctx.st (cfgL lc ctx.st [] K false i CS cx al) .lbrace p1 p2
      = .ok { cfgL lc .objKeyOrEmpty [] K false i (ctx.cx' cx :: CS) { ty := .object } al with
                finds := ctx.preTys ++ [.objB] } := by
  cases ctx <;> (unfold dispatch; rfl)

theorem key_start_d (f : Nat) (st : St) (h : keySt st = true)
    (K : List (LexT × Nat)) (i : Nat) (CS : List Ctx) (cx : Ctx) (al : Bool) (p1 p2 : Option Cls) :
    dispatch (f + 1) st (cfgL lc st [] K false i CS cx al) .quote p1 p2
      = .ok { cfgL lc .inString [] K false i CS cx (keyAl st al) with finds := [.keyB] } := by
  cases st <;> simp [keySt] at h <;> (unfold dispatch; rfl)

theorem empty_arr_d (f : Nat) (x : LexT × Nat)
    (K : List (LexT × Nat)) (i : Nat) (c0 : Ctx) (CS : List Ctx) (cx : Ctx) (al : Bool) (p1 p2 : Option Cls) :
    dispatch (f + 1) .arrItemOrEmpty (cfgL lc .arrItemOrEmpty [] (x :: K) false i (c0 :: CS) cx al) .rbrack p1 p2
      = .ok { cfgL lc .endValue [] (x :: K) false i CS c0 (!cx.arrayHasItem) with finds := [.arrE] } := by
  unfold dispatch; rfl

theorem empty_obj_d (f : Nat)
    (K : List (LexT × Nat)) (i : Nat) (c0 : Ctx) (CS : List Ctx) (cx : Ctx) (al : Bool) (p1 p2 : Option Cls) :
    dispatch (f + 1) .objKeyOrEmpty (cfgL lc .objKeyOrEmpty [] K false i (c0 :: CS) cx al) .rbrace p1 p2
      = .ok { cfgL lc .endValue [] K false i CS c0 true with finds := [.objE] } := by
  unfold dispatch; rfl

theorem cfg_byte {st : St} {r : List St} {K : List (LexT × Nat)} {u : Bool} {i : Nat} {CS : List Ctx} {cx : Ctx}
    {al : Bool} {c : Cls} {s1 s2 : Sc} {evs : List Ev} (hc : data[i]? = some c)
    (hd : ∀ p1 p2, dispatch 8 st (cfgL lc st r K u (i + 1) CS cx al) c p1 p2 = .ok s1)
    (hi : s1.index = i + 1) (hdr : drainL data s1.finds s1 = .ok (s2, evs)) :
    Path data (cfgL lc st r K u i CS cx al) evs s2 :=
  Path.byte (s := cfgL lc st r K u i CS cx al) rfl hc hd hi hdr

theorem S_silent {st : St} {r : List St} {u : Bool} {c : Cls} {st' : St} {r' : List St} {u' : Bool}
    (h : silent st r u c = some (st', r', u'))
    (K : List (LexT × Nat)) (i : Nat) (CS : List Ctx) (cx : Ctx) (al : Bool) (hc : data[i]? = some c) :
    Path data (cfgL lc st r K u i CS cx al) [] (cfgL lc st' r' K u' (i + 1) CS cx al) :=
  cfg_byte hc (fun p1 p2 => silent_dispatch 7 st r u c st' r' u' h K (i + 1) CS cx al p1 p2) rfl rfl

theorem S_sp {st : St} (h : wsLoop st = true) {c : Cls} (hs : c.isSpTab = true)
    (K : List (LexT × Nat)) (i : Nat) (CS : List Ctx) (cx : Ctx) (al : Bool) (hc : data[i]? = some c) :
    Path data (cfgL lc st [] K false i CS cx al) [] (cfgL lc st [] K false (i + 1) CS cx al) :=
  cfg_byte hc (fun p1 p2 => loop_sp 7 st h c hs K (i + 1) CS cx al [] p1 p2) rfl rfl

theorem S_nl {st : St} (h : wsLoop st = true)
    (K : List (LexT × Nat)) (i : Nat) (CS : List Ctx) (cx : Ctx) (al : Bool) (hc : data[i]? = some .nl) :
    Path data (cfgL lc st [] K false i CS cx al) [⟨.newLine, i, i⟩] (cfgL lc (nlSt st) [] K false (i + 1) CS cx (nlAl st al)) :=
  cfg_byte hc (fun p1 p2 => loop_nl 7 st h K (i + 1) CS cx al [] p1 p2) rfl rfl

end Len
end SchemaScan
