import JSight.EnumScan
import JSight.Loader
import JSight.RulesFull
/-!
C18, named enum rule versus inline list: what the `enum` CONSTRAINT of a schema node receives on both routes.

* Route A (named): `rules/enum/enum.go` — `doCompile` folds the events of the rule's own scanner (model `EnumScan`)
  into `Values` (literal values with their guessed `SchemaType`, comments attached to the literal of the same line or
  listed as free-standing entries); `jschema.AddRule` stores the rule after `Check()`; the schema text
  `EX // {enum: @E}` is read by the schema scanner (model `SchemaScan`) and the loader (model `Loader`), whose
  enum-value sub-loader (`embedded_loader_for_rule_enum_value.go`, states `begin → ruleNameBegin → ruleName`) looks the
  rule up, calls `Values()` and appends every non-comment value to the constraint (`constraint.Enum.Append` of
  `NewEnumItem(value, comment)`).
* Route B (inline): `EX // {enum: [1, "a"]}` — the same sub-loader walks the array's events
  (`arrayItemBeginOrArrayEnd → literal → arrayItemEnd`, with `// …` comments inside a multi-line annotation) and
  appends `NewEnumItem(lex.Value(), "")` for every literal.
* `constraint.Enum.Validate` (`c_enum.go`): membership of `NewEnumItem(token)`'s (value, jsonType) among the items'
  (`RulesF.enumItem`: decoded text for strings, SOURCE TEXT otherwise — K-C10-enumtext — and the guessed JSON type).

Panics inside the sub-loader are positioned at the current lexical event by `CatchLexEventError`: `.doc code pos`.
Core Lean only (imported by the driver).
-/
namespace EnumRoute
open RulesF (Bytes)
open Rules (Kind)

/-! ### `GuessSchemaType` (type.go, guessers in fixed order: fix F-24) -/

inductive VType | string | integer | float | boolean | object | array | null | comment
  deriving DecidableEq, Repr, Inhabited

def isIntegerTok (b : Bytes) : Bool :=
  if RulesF.hasDot b && !RulesF.hasExp b then false
  else match RulesF.number b with
    | none => false
    | some n => n.exp == 0

def isFloatTok (b : Bytes) : Bool :=
  if RulesF.hasDot b && !RulesF.hasExp b then true
  else match RulesF.number b with
    | none => false
    | some n => n.exp != 0

/-- `none` = `ErrUnknownSchemaType` -/
def guessSchemaType (b : Bytes) : Option VType :=
  if Unquote.inQuotes b then some .string
  else if isIntegerTok b then some .integer
  else if isFloatTok b then some .float
  else if b == RulesF.sTrue || b == RulesF.sFalse then some .boolean
  else if b == [123] then some .object
  else if b == [91] then some .array
  else if b == RulesF.sNull then some .null
  else none

/-! ### `Enum.doCompile`: events of the rule's scanner → `Values` -/

/-- `enum.Value` -/
structure Value where
  ty : VType
  value : Option Bytes       -- `nil` for a free-standing comment
  comment : Bytes := []
  deriving DecidableEq, Repr

inductive RErr
  | scan (e : EnumScan.Err)          -- error of the rule's scanner (what `Check()` / `AddRule` return)
  | unknownType                      -- `ErrUnknownSchemaType`
  | crash (why : String)             -- a Go runtime panic outside any recover-and-position wrapper
  | doc (code : Nat) (pos : Nat)     -- DocumentError raised while the schema text is loaded
  | sscan (e : SchemaScan.Err)       -- error of the schema scanner
  | lload (e : Loader.LErr)          -- error of the loader outside the enum value
  deriving DecidableEq, Repr

abbrev M := Except RErr

/-- `file.Content().Slice(b, e)` = `content[b : e+1]` -/
def sliceE (bs : Bytes) (b e : Nat) : M Bytes :=
  if b ≤ e + 1 ∧ e + 1 ≤ bs.length then pure ((bs.drop b).take (e + 1 - b))
  else throw (.crash "slice bounds out of range")

/-- the loop variables of `doCompile`; `rvalues` = `e.values` reversed -/
structure CSt where
  rvalues : List Value := []
  collect : Bool := false
  inAnn : Bool := false
  deriving DecidableEq, Repr

/-- `handleEndOfComment` -/
def endOfComment (st : CSt) (comment : Bytes) : M CSt :=
  if st.collect then
    match st.rvalues with
    | v :: vs => pure { st with rvalues := { v with comment := comment } :: vs }
    | [] => throw (.crash "index out of range [-1]")
  else pure { st with rvalues := { ty := .comment, value := none, comment := comment } :: st.rvalues }

/-- one turn of `doCompile`'s loop -/
def compileStep (bs : Bytes) (st : CSt) (ev : EnumScan.Ev) : M CSt :=
  match ev.ty with
  | .litE => do
    let v ← sliceE bs ev.b ev.e
    match guessSchemaType v with
    | none => throw .unknownType
    | some t => pure { st with collect := true, rvalues := { ty := t, value := some v } :: st.rvalues }
  | .newLine => pure (if st.inAnn then st else { st with collect := false })
  | .mlTxtB => pure { st with inAnn := true }
  | .inlTxtE | .mlTxtE => do
    let v ← sliceE bs ev.b ev.e
    let st ← endOfComment st (RulesF.trimSpaces v)
    pure { st with inAnn := false }
  | _ => pure st

/-- `doCompile`: scanning and collecting are interleaved (an error of the collector on an earlier event comes
before a scanner error on a later byte) -/
def compileLoop (bs : Bytes) (content : Array UInt8) (data : Array SchemaScan.Cls) :
    Nat → EnumScan.Sc → CSt → M CSt
  | 0, _, _ => throw (.crash "compile: fuel exhausted")
  | fuel + 1, s, st =>
    match EnumScan.next content data (2 * data.size + 16) s with
    | .error .eos => pure st
    | .error e => throw (.scan e)
    | .ok (s, e) =>
      match compileStep bs st e with
      | .error x => throw x
      | .ok st' => compileLoop bs content data fuel s st'

/-- `Enum.Values()` (= what `Check()` computes) -/
def ruleValues (bs : Bytes) : M (List Value) := do
  let data := (bs.map SchemaScan.classify).toArray
  let st ← compileLoop bs bs.toArray data (8 * data.size + 16) {} {}
  pure st.rvalues.reverse

/-! ### `constraint.Enum` -/

/-- `EnumItem`: source bytes, comment, (value, jsonType) -/
structure CItem where
  src : Bytes
  comment : Bytes
  key : Bytes × Kind
  deriving DecidableEq, Repr

structure Cons where
  ruleName : Bytes := []
  items : List CItem := []
  deriving DecidableEq, Repr

/-- `NewEnumItem`; `none` = the type guess panics -/
def newEnumItem (src comment : Bytes) : Option CItem :=
  (RulesF.enumItem src).map fun k => ⟨src, comment, k⟩

/-- `Enum.Append` under the sub-loader's `CatchLexEventError(lex)`: a duplicate is error 810, a type-guess panic a
generic error (code 0), both at the current event -/
def append (pos : Nat) (c : Cons) (src comment : Bytes) : M Cons :=
  match newEnumItem src comment with
  | none => throw (.doc 0 pos)
  | some it =>
    if c.items.any (fun x => x.key == it.key) then throw (.doc 810 pos)
    else pure { c with items := c.items ++ [it] }

/-- `Enum.Validate(token)` returns without a panic -/
def enumOK (c : Cons) (tok : Bytes) : Bool :=
  match RulesF.enumItem tok with
  | none => false
  | some a => c.items.any (fun it => it.key == a)

/-! ### `enumValueLoader` -/

inductive EL
  | begin | itemOrEnd | commentStart | commentEnd | annotationEnd | literal | itemEnd
  | ruleNameBegin | ruleName | endOfLoading
  deriving DecidableEq, Repr

/-- the rules a schema knows: name → `Values()` (`AddRule` stores a rule only after its `Check()` succeeded) -/
abbrev Rules := List (Bytes × List Value)

def Rules.find (rs : Rules) (name : Bytes) : Option (List Value) :=
  (rs.find? (fun r => r.1 == name)).map (·.2)

/-- the loop of `ruleName`: every non-comment value is appended -/
def appendValues (pos : Nat) : Cons → List Value → M Cons
  | c, [] => pure c
  | c, v :: vs =>
    if v.ty == .comment then appendValues pos c vs
    else
      match v.value with
      | none => throw (.doc 0 pos)       -- cannot happen: only comments have a nil value
      | some src => do
        let c ← append pos c src v.comment
        appendValues pos c vs

/-- `SetComment(lastIdx, text)`: `c.items[idx].comment = text`; out of range is a runtime panic (generic error) -/
def setComment (pos : Nat) (c : Cons) (idx : Nat) (text : Bytes) : M Cons :=
  if idx < c.items.length then
    pure { c with items := c.items.mapIdx fun i it => if i == idx then { it with comment := text } else it }
  else throw (.doc 0 pos)

/-- `enumValueLoader.Load`: (constraint, last index, state, still in progress); `last = none` is `lastIdx = -1`:
inside a list before its first value (fix F-32: a comment there has no value to belong to and is dropped) -/
def elStep (rules : Rules) (src : Bytes) (c : Cons) (last : Option Nat) (st : EL) (e : SchemaScan.Ev) :
    M (Cons × Option Nat × EL × Bool) :=
  match st with
  | .begin =>
    match e.ty with
    | .arrB => pure (c, none, .itemOrEnd, true)
    | .mixB => pure (c, last, .ruleNameBegin, true)
    | _ => throw (.doc 806 e.b)
  | .itemOrEnd =>
    match e.ty with
    | .itemB => pure (c, last, .literal, true)
    | .arrE => pure (c, last, .endOfLoading, false)
    | .inlAnnB => pure (c, last, .commentStart, true)
    | _ => throw (.doc 801 e.b)
  | .commentStart =>
    match e.ty with
    | .inlTxtB => pure (c, last, .commentEnd, true)
    | _ => throw (.doc 801 e.b)
  | .commentEnd =>
    match e.ty with
    | .inlTxtE =>
      match last with
      | none => pure (c, last, .annotationEnd, true)
      | some idx => do
        let c ← setComment e.b c idx (Loader.slice src.toArray e.b e.e)
        pure (c, last, .annotationEnd, true)
    | _ => throw (.doc 801 e.b)
  | .annotationEnd =>
    match e.ty with
    | .inlAnnE => pure (c, last, .itemOrEnd, true)
    | _ => throw (.doc 801 e.b)
  | .literal =>
    match e.ty with
    | .litB => pure (c, last, .literal, true)
    | .litE => do
      let c' ← append e.b c (Loader.slice src.toArray e.b e.e) []
      pure (c', some c.items.length, .itemEnd, true)
    | _ => throw (.doc 807 e.b)
  | .itemEnd =>
    match e.ty with
    | .itemE => pure (c, last, .itemOrEnd, true)
    | _ => throw (.doc 801 e.b)
  | .ruleNameBegin =>
    match e.ty with
    | .tsB => pure (c, last, .ruleName, true)
    | _ => throw (.doc 801 e.b)
  | .ruleName =>
    match e.ty with
    | .tsE =>
      let v := RulesF.trimSpaces (Loader.slice src.toArray e.b e.e)
      match rules.find v with
      | none => throw (.doc 1602 e.b)
      | some vs => do
        let c ← appendValues e.b { c with ruleName := v } vs
        pure (c, last, .endOfLoading, false)
    | _ => throw (.doc 801 e.b)
  | .endOfLoading => throw (.doc 801 e.b)

/-! ### the loader with the enum value interpreted -/

/-- `Loader.St` plus the active enum-value sub-loader and the enum constraints created so far (newest first) -/
structure BSt where
  base : Loader.St := {}
  el : Option (Option Nat × EL) := none       -- (lastIdx, state) of the active `enumValueLoader`
  cons : List Cons := []
  deriving Repr

/-- the event goes to `ruleLoader.load` (not consumed by `handleLex`) -/
def toRule (st : Loader.St) (e : SchemaScan.Ev) : Bool :=
  st.mode != .default && e.ty != .mlAnnB && e.ty != .mlAnnE && !(e.ty == .inlAnnE && st.mode == .inline)

/-- the bytes of `enum` -/
def enumName : Bytes := [101, 110, 117, 109]

/-- `loadEmbeddedValue` for the enum sub-loader -/
def embStep (rules : Rules) (src : Bytes) (st : BSt) (last : Option Nat) (el : EL) (e : SchemaScan.Ev) : M BSt :=
  if e.ty == .newLine then pure st
  else
    match st.cons with
    | [] => throw (.crash "no enum constraint")
    | c :: cs => do
      let (c', last', el', inProgress) ← elStep rules src c last el e
      if inProgress then pure { st with el := some (last', el'), cons := c' :: cs }
      else pure { st with el := none, cons := c' :: cs, base := { st.base with rs := .valueEnd } }

def stepB (rules : Rules) (src : Bytes) (st : BSt) (e : SchemaScan.Ev) : M BSt :=
  if toRule st.base e then
    match st.el with
    | some (last, el) => embStep rules src st last el e
    | none =>
      if st.base.rs == .value && st.base.rsCount == 1 && Loader.nameOf src.toArray st.base.ruleName == enumName then
        -- `ruleValue`, case "enum": a fresh constraint on the node, a fresh sub-loader, the event is handed to it
        let st1 : BSt := { st with base := Loader.addRule st.base (.inl st.base.ruleName), cons := {} :: st.cons }
        embStep rules src st1 (some 0) .begin e
      else
        match Loader.ruleLoad src.toArray st.base e with
        | .error le => throw (.lload le)
        | .ok b => pure { st with base := b }
  else
    match Loader.step src.toArray st.base e with
    | .error le => throw (.lload le)
    | .ok b => pure { st with base := b }

/-- `loader.doLoad` with the schema scanner -/
def loadLoopB (rules : Rules) (src : Bytes) (data : Array SchemaScan.Cls) : Nat → SchemaScan.Sc → BSt → M BSt
  | 0, _, _ => throw (.crash "load: fuel exhausted")
  | fuel + 1, sc, st =>
    match SchemaScan.next data (3 * data.size + 16) sc with
    | .error e => throw (.sscan e)
    | .ok none => pure st
    | .ok (some (sc', e)) =>
      match stepB rules src st e with
      | .error x => throw x
      | .ok st' => loadLoopB rules src data fuel sc' st'

/-- the enum constraints of a schema text, in the order they were created -/
def constraintsOf (rules : Rules) (schema : Bytes) : M (List Cons) := do
  let data := (schema.map SchemaScan.classify).toArray
  let st ← loadLoopB rules schema data (8 * data.size + 16) {} {}
  pure st.cons.reverse

/-- `jschema.New(schema)` + `AddRule(name, enum.New(name, text))` for every rule + load: `.inl` = an `AddRule`
failed (the error of that rule's `Check()`), `.inr` = the outcome of loading the schema text -/
def addRules : List (Bytes × Bytes) → Rules → Except (Bytes × RErr) Rules
  | [], acc => pure acc
  | (n, text) :: rest, acc =>
    match ruleValues text with
    | .error e => throw (n, e)
    | .ok vs => addRules rest ((n, vs) :: acc.filter (fun r => r.1 != n))

/-- the two routes of the property, for ONE enum rule on the schema's node -/
def routeNamed (name ruleText schema : Bytes) : M (List Cons) := do
  let vs ← ruleValues ruleText
  constraintsOf [(name, vs)] schema

def routeInline (schema : Bytes) : M (List Cons) := constraintsOf [] schema

end EnumRoute
