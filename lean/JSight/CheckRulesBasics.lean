import JSight.CheckRulesSpec
/-!
Basic lemmas for the C08 proofs: `Except` plumbing (`toOpt`), the constraint map as a function, the 25 presence
bits and the counting lemmas ("`NumberOfConstraints` minus the allowed ones is 0" = "no other rule").
-/
namespace CR

/-! ### Except -/

def toOpt {ε α : Type} : Except ε α → Option α
  | .ok a => some a
  | .error _ => none

@[simp] theorem toOpt_ok {ε α : Type} (a : α) : toOpt (Except.ok a : Except ε α) = some a := rfl
@[simp] theorem toOpt_error {ε α : Type} (e : ε) : toOpt (Except.error e : Except ε α) = none := rfl

theorem isOk_eq {ε α : Type} (x : Except ε α) : isOk x = (toOpt x).isSome := by cases x <;> rfl

@[simp] theorem toOpt_bind {ε α β : Type} (x : Except ε α) (f : α → Except ε β) :
    toOpt (x >>= f) = (toOpt x).bind fun a => toOpt (f a) := by
  cases x <;> rfl

theorem toOpt_ite_err {ε α : Type} (b : Prop) [Decidable b] (e : ε) (x : Except ε α) :
    toOpt (if b then .error e else x) = if b then none else toOpt x := by
  split <;> simp

theorem toOpt_eq_some {ε α : Type} {x : Except ε α} {a : α} : toOpt x = some a ↔ x = .ok a := by
  cases x <;> simp [toOpt]

theorem toOpt_eq_none {ε α : Type} {x : Except ε α} : toOpt x = none ↔ ∃ e, x = .error e := by
  cases x <;> simp [toOpt]

/-! ### presence bits -/

theorem bnat_le (b : Bool) : bnat b ≤ 1 := by cases b <;> simp [bnat]
theorem bnat_eq_zero (b : Bool) : bnat b = 0 ↔ b = false := by cases b <;> simp [bnat]
@[simp] theorem bnat_true : bnat true = 1 := rfl
@[simp] theorem bnat_false : bnat false = 0 := rfl

theorem len_unfold (m : CMap) : m.len =
  bnat (m.has .minLength) + bnat (m.has .maxLength) + bnat (m.has .min) + bnat (m.has .max) + bnat (m.has .exclusiveMinimum)
  + bnat (m.has .exclusiveMaximum) + bnat (m.has .type) + bnat (m.has .precision) + bnat (m.has .optional)
  + bnat (m.has .minItems) + bnat (m.has .maxItems) + bnat (m.has .additionalProperties) + bnat (m.has .nullable)
  + bnat (m.has .regex) + bnat (m.has .const) + bnat (m.has .or) + bnat (m.has .enum) + bnat (m.has .allOf)
  + bnat (m.has .typesList) + bnat (m.has .any) + bnat (m.has .email) + bnat (m.has .uri) + bnat (m.has .uuid)
  + bnat (m.has .date) + bnat (m.has .datetime) := by
  simp only [CMap.len, CT.all, List.map_cons, List.map_nil, List.sum_cons, List.sum_nil]; omega

/-- the 25 presence bits of a map, as numbers, with their bounds: the facts `omega` needs -/
theorem bits (m : CMap) :
    bnat (m.has .minLength) ≤ 1 ∧ bnat (m.has .maxLength) ≤ 1 ∧ bnat (m.has .min) ≤ 1 ∧ bnat (m.has .max) ≤ 1 ∧ bnat (m.has .exclusiveMinimum) ≤ 1
  ∧ bnat (m.has .exclusiveMaximum) ≤ 1 ∧ bnat (m.has .type) ≤ 1 ∧ bnat (m.has .precision) ≤ 1 ∧ bnat (m.has .optional) ≤ 1
  ∧ bnat (m.has .minItems) ≤ 1 ∧ bnat (m.has .maxItems) ≤ 1 ∧ bnat (m.has .additionalProperties) ≤ 1 ∧ bnat (m.has .nullable) ≤ 1
  ∧ bnat (m.has .regex) ≤ 1 ∧ bnat (m.has .const) ≤ 1 ∧ bnat (m.has .or) ≤ 1 ∧ bnat (m.has .enum) ≤ 1 ∧ bnat (m.has .allOf) ≤ 1
  ∧ bnat (m.has .typesList) ≤ 1 ∧ bnat (m.has .any) ≤ 1 ∧ bnat (m.has .email) ≤ 1 ∧ bnat (m.has .uri) ≤ 1 ∧ bnat (m.has .uuid) ≤ 1
  ∧ bnat (m.has .date) ≤ 1 ∧ bnat (m.has .datetime) ≤ 1 := by
  refine ⟨?_,?_,?_,?_,?_,?_,?_,?_,?_,?_,?_,?_,?_,?_,?_,?_,?_,?_,?_,?_,?_,?_,?_,?_,?_⟩ <;> exact bnat_le _

theorem all_unfold (p : CT → Bool) : CT.all.all p =
  (p .minLength && p .maxLength && p .min && p .max && p .exclusiveMinimum && p .exclusiveMaximum && p .type && p .precision && p .optional
   && p .minItems && p .maxItems && p .additionalProperties && p .nullable && p .regex && p .const && p .or && p .enum && p .allOf
   && p .typesList && p .any && p .email && p .uri && p .uuid && p .date && p .datetime) := by
  simp only [CT.all, List.all_cons, List.all_nil, Bool.and_true, Bool.and_assoc]

theorem all_iff (p : CT → Bool) : CT.all.all p = true ↔ ∀ k, p k = true := by
  constructor
  · intro h k
    rw [all_unfold] at h
    simp only [Bool.and_eq_true] at h
    cases k <;> simp [h]
  · intro h
    rw [all_unfold]
    simp [h]

/-! ### the map as a function -/

@[simp] theorem has_set_same (m : CMap) (k : CT) (v : CV) : (m.set k v).has k = true := by simp [CMap.has, CMap.set]
@[simp] theorem set_same (m : CMap) (k : CT) (v : CV) : (m.set k v) k = some v := by simp [CMap.set]
theorem set_other (m : CMap) {k k' : CT} (v : CV) (h : k' ≠ k) : (m.set k v) k' = m k' := by simp [CMap.set, h]
theorem has_set_other (m : CMap) {k k' : CT} (v : CV) (h : k' ≠ k) : (m.set k v).has k' = m.has k' := by
  simp [CMap.has, CMap.set, h]
@[simp] theorem del_same (m : CMap) (k : CT) : (m.del k) k = none := by simp [CMap.del]
@[simp] theorem has_del_same (m : CMap) (k : CT) : (m.del k).has k = false := by simp [CMap.has, CMap.del]
theorem del_other (m : CMap) {k k' : CT} (h : k' ≠ k) : (m.del k) k' = m k' := by simp [CMap.del, h]
theorem has_del_other (m : CMap) {k k' : CT} (h : k' ≠ k) : (m.del k).has k' = m.has k' := by
  simp [CMap.has, CMap.del, h]

theorem has_iff (m : CMap) (k : CT) : m.has k = true ↔ ∃ v, m k = some v := by
  simp [CMap.has, Option.isSome_iff_exists]

theorem has_false_iff (m : CMap) (k : CT) : m.has k = false ↔ m k = none := by
  simp [CMap.has]

end CR
