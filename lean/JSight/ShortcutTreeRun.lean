import JSight.ShortcutTree
/-!
The run of the schema scanner model over a tree whose leaves are scalars or type shortcuts (`STree`), as a `Path` for
either value of `lengthComputing`; the whole document in ordinary mode (`Emits`, `scanAll`).
-/
namespace SchemaScan
namespace Len

variable {lc : Bool} {data : Array Cls}

theorem itemCtx_root (first : Bool) : itemCtx first ≠ .root := by cases first <;> simp [itemCtx]

mutual
theorem svalue_run : (v : STree) → v.Valid → (ctx : VCtx) → (v.isShort = true → ctx ≠ .root) →
    (K : List (LexT × Nat)) → (o : Nat) →
    At data o v.render → (CS : List Ctx) → (cx : Ctx) → (al : Bool) →
    ∃ st al', EndOK v st ∧
      Path data (cfgL lc ctx.st [] K false o CS cx al) (ctx.preEvs o ++ sOpen o v)
        (cfgL lc st [] (sPend o v ++ (ctx.pre o ++ K)) false (o + v.render.length) CS (ctx.cx' cx) al')
  | .scalar tok, hv, ctx, _, K, o, hat, CS, cx, al => by
    obtain ⟨c, tl, st0, unf0, stE, rfl, hs, hr, hp⟩ : IsScalar tok := by simpa [STree.Valid] using hv
    simp only [STree.render] at hat
    obtain ⟨hc, htl⟩ := hat
    have h1 := S_start_scalar (lc := lc) hs ctx K o CS cx al hc
    have h2 := tok_run (lc := lc) tl _ _ _ _ _ _ hr ((.litB, o) :: (ctx.pre o ++ K)) (o + 1) CS (ctx.cx' cx) al htl
    refine ⟨stE, al, hp, (Path.trans h1 h2).cast ?_ (cfg_congr ?_ ?_)⟩
    · simp [sOpen]
    · simp [sPend]
    · simp only [STree.render, List.length_cons]; omega
  | .short sc sps, hv, ctx, hctx, K, o, hat, CS, cx, al => by
    obtain ⟨hsc, hsp⟩ : sc.Valid ∧ IsSpTabs sps := by simpa [STree.Valid] using hv
    simp only [STree.render, Shortcut.render, List.cons_append] at hat
    obtain ⟨hc, hat⟩ := hat
    rw [At_append] at hat
    obtain ⟨hatn, hats⟩ := hat
    have h1 := S_start_ts (lc := lc) ctx (hctx rfl) K o CS cx al hc
    have h2 := ts_run (lc := lc) _ _ _ _ _ (shortcut_tsRun sc hsc) (K2 o ++ (ctx.pre o ++ K)) (o + 1) CS (ctx.cx' cx) al hatn
    have h3 := ts_run (lc := lc) sps .tsName false _ false (sp_tsRun .tsName (Or.inl rfl) sps hsp false)
      (K2 o ++ (ctx.pre o ++ K)) _ CS (ctx.cx' cx) al hats
    rw [tsSt_of_isEmpty] at h3
    refine ⟨tsSt sps.isEmpty, al, rfl, (Path.trans (Path.trans h1 h2) h3).cast ?_ (cfg_congr ?_ ?_)⟩
    · simp [sOpen]
    · simp [sPend]
    · simp only [STree.render, Shortcut.render, List.length_cons, List.length_append]; omega
  | .arr ws0 items, hv, ctx, _, K, o, hat, CS, cx, al => by
    obtain ⟨hw0, hi⟩ : IsWs ws0 ∧ SValidItems items := by simpa [STree.Valid] using hv
    simp only [STree.render] at hat
    obtain ⟨hc, hat⟩ := hat
    rw [At_append] at hat
    obtain ⟨hat0, hatI⟩ := hat
    have h1 := S_start_array (lc := lc) ctx K o CS cx al hc
    obtain ⟨al1, h2⟩ := ws_run (lc := lc) ws0 hw0 .arrItemOrEmpty rfl ((.arrB, o) :: (ctx.pre o ++ K)) (o + 1)
      (ctx.cx' cx :: CS) { ty := .array } al hat0
    rw [wsSt_eq (by simp)] at h2
    obtain ⟨al2, h3⟩ := sitems_run items hi true (fun _ => rfl) o (ctx.pre o ++ K) (o + 1 + ws0.length) hatI
      (ctx.cx' cx) CS { ty := .array } rfl al1
    have h3' : Path data (cfgL lc .arrItemOrEmpty [] ((.arrB, o) :: (ctx.pre o ++ K)) false (o + 1 + ws0.length)
        (ctx.cx' cx :: CS) { ty := .array } al1) _ _ := h3
    refine ⟨.endValue, al2, rfl, (Path.trans (Path.trans h1 h2) h3').cast ?_ (cfg_congr ?_ ?_)⟩
    · simp [sOpen, sEvsAt]
    · simp [sPend]
    · simp only [STree.render, List.length_cons, List.length_append]; omega
  | .obj ws0 members, hv, ctx, _, K, o, hat, CS, cx, al => by
    obtain ⟨hw0, hi⟩ : IsWs ws0 ∧ SValidMembers members := by simpa [STree.Valid] using hv
    simp only [STree.render] at hat
    obtain ⟨hc, hat⟩ := hat
    rw [At_append] at hat
    obtain ⟨hat0, hatI⟩ := hat
    have h1 := S_start_object (lc := lc) ctx K o CS cx al hc
    obtain ⟨al1, h2⟩ := ws_run (lc := lc) ws0 hw0 .objKeyOrEmpty rfl ((.objB, o) :: (ctx.pre o ++ K)) (o + 1)
      (ctx.cx' cx :: CS) { ty := .object } al hat0
    rw [wsSt_eq (by simp)] at h2
    obtain ⟨al2, h3⟩ := smembers_run members hi true (fun _ => rfl) o (ctx.pre o ++ K) (o + 1 + ws0.length) hatI
      (ctx.cx' cx) CS { ty := .object } rfl al1
    have h3' : Path data (cfgL lc .objKeyOrEmpty [] ((.objB, o) :: (ctx.pre o ++ K)) false (o + 1 + ws0.length)
        (ctx.cx' cx :: CS) { ty := .object } al1) _ _ := h3
    refine ⟨.endValue, al2, rfl, (Path.trans (Path.trans h1 h2) h3').cast ?_ (cfg_congr ?_ ?_)⟩
    · simp [sOpen, sEvsAt]
    · simp [sPend]
    · simp only [STree.render, List.length_cons, List.length_append]; omega
theorem sitems_run : (its : List SItem) → SValidItems its →
    (first : Bool) → (its = [] → first = true) → (a : Nat) → (K : List (LexT × Nat)) → (o : Nat) →
    At data o (sRenderItems its) → (c0 : Ctx) → (CS : List Ctx) → (cx : Ctx) → cx.ty = .array → (al : Bool) →
    ∃ al', Path data (cfgL lc (itemCtx first).st [] ((.arrB, a) :: K) false o (c0 :: CS) cx al) (sEvsItems a o its)
      (cfgL lc .endValue [] K false (o + (sRenderItems its).length) CS c0 al')
  | [], _, first, hf, a, K, o, hat, c0, CS, cx, _, al => by
    rw [hf rfl]
    simp only [sRenderItems] at hat
    exact ⟨_, S_empty_arr a K o c0 CS cx al hat.1⟩
  | (w1, v, w2) :: its, hv, first, _, a, K, o, hat, c0, CS, cx, hcx, al => by
    obtain ⟨hw1, hvv, hw2, hfo, hits⟩ : IsWs w1 ∧ v.Valid ∧ IsWs w2 ∧ Follow v w2 ∧ SValidItems its := by
      simpa [SValidItems] using hv
    simp only [sRenderItems] at hat
    rw [At_append, At_append] at hat
    obtain ⟨hat1, hatv, hat2⟩ := hat
    obtain ⟨al1, h1⟩ := ws_run (lc := lc) w1 hw1 _ (itemCtx_loop first) ((.arrB, a) :: K) o (c0 :: CS) cx al hat1
    rw [wsSt_eq (itemCtx_ne first)] at h1
    obtain ⟨st, al2, hp, h2⟩ := svalue_run v hvv (itemCtx first) (fun _ => itemCtx_root first) ((.arrB, a) :: K)
      (o + w1.length) hatv (c0 :: CS) cx al1
    have hcx2 : ((itemCtx first).cx' cx).ty = .array := by rw [cx'_ty]; exact hcx
    have hpre : (itemCtx first).pre (o + w1.length) ++ (.arrB, a) :: K
        = (.itemB, o + w1.length) :: (.arrB, a) :: K := by cases first <;> rfl
    have hpe : (itemCtx first).preEvs (o + w1.length) = [⟨.itemB, o + w1.length, o + w1.length⟩] := by
      cases first <;> rfl
    rw [hpre, hpe] at h2
    cases its with
    | nil =>
      simp only [List.isEmpty_nil, if_true, List.nil_append, sRenderItems] at hat2
      obtain ⟨al3, h3⟩ := closeV_rbrack (lc := lc) v hp (o + w1.length) (o + w1.length) a K w2 hw2 hfo
        c0 CS _ hcx2 al2 hatv hat2
      refine ⟨al3, (Path.trans (Path.trans h1 h2) h3).cast ?_ (cfg_congr rfl ?_)⟩
      · simp [sEvsItems, sEvsAt_split, closersV, CK.E]
      · simp only [sRenderItems, List.isEmpty_nil, if_true, List.length_append, List.length_cons, List.length_nil]
        omega
    | cons it its' =>
      simp only [List.isEmpty_cons, Bool.false_eq_true, if_false] at hat2
      rw [← List.append_assoc, At_append] at hat2
      obtain ⟨hat2, hat3⟩ := hat2
      have hl : 1 ≤ v.render.length := by
        cases v with
        | scalar tok =>
          have : IsScalar tok := by simpa [STree.Valid] using hvv
          exact scalar_len this
        | short sc sps => simp [STree.render, Shortcut.render]
        | arr _ _ => simp [STree.render]
        | obj _ _ => simp [STree.render]
      obtain ⟨al3, h3⟩ := closeV_sep (lc := lc) v hp .item (by simp) (o + w1.length) (o + w1.length) ((.arrB, a) :: K) w2 hw2
        hfo (c0 :: CS) _ hcx2 al2 hl hatv hat2
      simp only [List.length_append, List.length_cons, List.length_nil] at hat3
      obtain ⟨al4, h4⟩ := sitems_run (it :: its') hits false (by simp) a K
        (o + w1.length + v.render.length + w2.length + 1) (by
          rw [show o + w1.length + v.render.length + w2.length + 1
            = o + w1.length + v.render.length + (w2.length + (0 + 1)) by omega]; exact hat3) c0 CS _ hcx2 al3
      have h4' : Path data (cfgL lc .arrItem [] ((.arrB, a) :: K) false (o + w1.length + v.render.length + w2.length + 1)
          (c0 :: CS) ((itemCtx first).cx' cx) al3) _ _ := h4
      refine ⟨al4, (Path.trans (Path.trans (Path.trans h1 h2) h3) h4').cast ?_ (cfg_congr rfl ?_)⟩
      · simp [sEvsItems, sEvsAt_split, closersV, CK.E]
      · simp only [sRenderItems, List.isEmpty_cons, Bool.false_eq_true, if_false, List.length_append, List.length_cons,
          List.length_nil]
        omega
theorem smembers_run : (ms : List SMember) → SValidMembers ms →
    (first : Bool) → (ms = [] → first = true) → (a : Nat) → (K : List (LexT × Nat)) → (o : Nat) →
    At data o (sRenderMembers ms) → (c0 : Ctx) → (CS : List Ctx) → (cx : Ctx) → cx.ty = .object → (al : Bool) →
    ∃ al', Path data (cfgL lc (keyCtxSt first) [] ((.objB, a) :: K) false o (c0 :: CS) cx al) (sEvsMembers a o ms)
      (cfgL lc .endValue [] K false (o + (sRenderMembers ms).length) CS c0 al')
  | [], _, first, hf, a, K, o, hat, c0, CS, cx, _, al => by
    rw [hf rfl]
    simp only [sRenderMembers] at hat
    exact ⟨_, S_empty_obj a K o c0 CS cx al hat.1⟩
  | (w1, k, w2, w3, v, w4) :: ms, hv, first, _, a, K, o, hat, c0, CS, cx, hcx, al => by
    obtain ⟨hw1, hk, hw2, hw3, hvv, hw4, hfo, hms⟩ :
        IsWs w1 ∧ IsKey k ∧ IsWs w2 ∧ IsWs w3 ∧ v.Valid ∧ IsWs w4 ∧ Follow v w4 ∧ SValidMembers ms := by
      simpa [SValidMembers] using hv
    simp only [sRenderMembers] at hat
    rw [At_append, At_append, At_append] at hat
    obtain ⟨hat1, hatk, hat2, hatc⟩ := hat
    obtain ⟨hcolon, hat⟩ := hatc
    rw [At_append, At_append] at hat
    obtain ⟨hat3, hatv, hat4⟩ := hat
    obtain ⟨al1, h1⟩ := ws_run (lc := lc) w1 hw1 _ (keySt_loop (keyCtx_key first)) ((.objB, a) :: K) o (c0 :: CS) cx al hat1
    have hkat : At data (o + w1.length) (k ++ (w2 ++ [.colon])) := by
      rw [At_append, At_append]
      exact ⟨hatk, hat2, hcolon, trivial⟩
    obtain ⟨al2, h2⟩ := key_run (lc := lc) (keySt_wsSt (keyCtx_key first) w1) k hk ((.objB, a) :: K) w2 hw2 (o + w1.length)
      (c0 :: CS) cx al1 hkat
    obtain ⟨al3, h3⟩ := ws_run (lc := lc) w3 hw3 .objValue rfl ((.objB, a) :: K) (o + w1.length + k.length + w2.length + 1)
      (c0 :: CS) cx al2 hat3
    rw [wsSt_eq (by simp)] at h3
    obtain ⟨st, al4, hp, h4⟩ := svalue_run v hvv .objv (fun _ => by simp) ((.objB, a) :: K)
      (o + w1.length + k.length + w2.length + 1 + w3.length) hatv (c0 :: CS) cx al3
    have h4' : Path data (cfgL lc .objValue [] ((.objB, a) :: K) false (o + w1.length + k.length + w2.length + 1 + w3.length)
        (c0 :: CS) cx al3)
        ([⟨.valB, o + w1.length + k.length + w2.length + 1 + w3.length,
            o + w1.length + k.length + w2.length + 1 + w3.length⟩]
          ++ sOpen (o + w1.length + k.length + w2.length + 1 + w3.length) v)
        (cfgL lc st [] (sPend (o + w1.length + k.length + w2.length + 1 + w3.length) v ++
          (.valB, o + w1.length + k.length + w2.length + 1 + w3.length) :: (.objB, a) :: K) false
          (o + w1.length + k.length + w2.length + 1 + w3.length + v.render.length) (c0 :: CS) cx al4) := h4
    cases ms with
    | nil =>
      simp only [List.isEmpty_nil, if_true, List.nil_append, sRenderMembers] at hat4
      obtain ⟨al5, h5⟩ := closeV_rbrace (lc := lc) v hp _ _ a K w4 hw4 hfo c0 CS cx hcx al4 hatv hat4
      refine ⟨al5, (Path.trans (Path.trans (Path.trans (Path.trans h1 h2) h3) h4') h5).cast ?_ (cfg_congr rfl ?_)⟩
      · simp [sEvsMembers, sEvsAt_split, closersV, CK.E]
      · simp only [sRenderMembers, List.isEmpty_nil, if_true, List.length_append, List.length_cons, List.length_nil]
        omega
    | cons m ms' =>
      simp only [List.isEmpty_cons, Bool.false_eq_true, if_false] at hat4
      rw [← List.append_assoc, At_append] at hat4
      obtain ⟨hat4, hat5⟩ := hat4
      have hl : 1 ≤ v.render.length := by
        cases v with
        | scalar tok =>
          have : IsScalar tok := by simpa [STree.Valid] using hvv
          exact scalar_len this
        | short sc sps => simp [STree.render, Shortcut.render]
        | arr _ _ => simp [STree.render]
        | obj _ _ => simp [STree.render]
      obtain ⟨al5, h5⟩ := closeV_sep (lc := lc) v hp .val (by simp) _ _ ((.objB, a) :: K) w4 hw4 hfo (c0 :: CS) cx hcx al4
        hl hatv hat4
      simp only [List.length_append, List.length_cons, List.length_nil] at hat5
      obtain ⟨al6, h6⟩ := smembers_run (m :: ms') hms false (by simp) a K
        (o + w1.length + k.length + w2.length + 1 + w3.length + v.render.length + w4.length + 1) (by
          rw [show o + w1.length + k.length + w2.length + 1 + w3.length + v.render.length + w4.length + 1
            = o + w1.length + k.length + w2.length + 1 + w3.length + v.render.length + (w4.length + (0 + 1)) by omega]
          exact hat5) c0 CS cx hcx al5
      have h6' : Path data (cfgL lc .objKey [] ((.objB, a) :: K) false
          (o + w1.length + k.length + w2.length + 1 + w3.length + v.render.length + w4.length + 1)
          (c0 :: CS) cx al5) _ _ := h6
      refine ⟨al6, (Path.trans (Path.trans (Path.trans (Path.trans (Path.trans h1 h2) h3) h4') h5) h6').cast ?_
        (cfg_congr rfl ?_)⟩
      · simp [sEvsMembers, sEvsAt_split, closersV, CK.E]
      · simp only [sRenderMembers, List.isEmpty_cons, Bool.false_eq_true, if_false, List.length_append, List.length_cons,
          List.length_nil]
        omega
end

end Len
end SchemaScan
