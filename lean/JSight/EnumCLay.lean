import JSight.EnumCStep
import JSight.EnumEventsItem
/-!
C18, comments in enum rules: LAYOUT WITH COMMENTS on byte classes — a list of pieces (one blank byte, an inline
comment `// sp* text line-break`, a multi-line comment `/* ws text */`), its events, the run of the scanner over a
layout in every state in which the enum scanner accepts comments, and one item `layout token layout (, | ])`.
-/
set_option linter.unusedSimpArgs false
set_option linter.unusedVariables false
namespace EnumScan
open SchemaScan (Cls classify)

variable {content : Array UInt8} {data : Array Cls}

inductive Piece
  | blank (c : Cls)
  | inl (sp txt : List Cls)        -- `//` sp txt NL
  | ml (ws txt : List Cls)         -- `/*` ws txt `*/`
  deriving Repr

def Piece.render : Piece → List Cls
  | .blank c => [c]
  | .inl sp txt => .slash :: .slash :: (sp ++ (txt ++ [.nl]))
  | .ml ws txt => .slash :: .star :: (ws ++ (txt ++ [.star, .slash]))

def Piece.Valid : Piece → Prop
  | .blank c => c.isBlank = true
  | .inl sp txt => IsSp sp ∧ InlTxt txt
  | .ml ws txt => IsWs ws ∧ MlTxt txt

/-- the events of a piece that starts at offset `o` -/
def Piece.evs (o : Nat) : Piece → List Ev
  | .blank c => nlEvs o [c]
  | .inl sp txt => inlEvs (o + 1) sp txt
  | .ml ws txt => mlEvs (o + 1) ws txt

abbrev Lay := List Piece

def Lay.render : Lay → List Cls
  | [] => []
  | p :: L => p.render ++ Lay.render L

def Lay.Valid (L : Lay) : Prop := ∀ p ∈ L, p.Valid

def layEvs : Nat → Lay → List Ev
  | _, [] => []
  | o, p :: L => p.evs o ++ layEvs (o + p.render.length) L

theorem Piece.render_length_inl (sp txt : List Cls) : (Piece.inl sp txt).render.length = 2 + sp.length + txt.length + 1 := by
  simp [Piece.render]; omega
theorem Piece.render_length_ml (ws txt : List Cls) : (Piece.ml ws txt).render.length = 2 + ws.length + txt.length + 2 := by
  simp [Piece.render]; omega

/-- a comment, from the state `st` it interrupts (behind its first `/`) back to `st` -/
theorem preT_comment_body (r0 : St) (K : List (LexT × Nat)) (lc ht : Bool) (uq : List (List UInt8 × Bool))
    (p : Piece) (hv : p.Valid) (hne : ∀ c, p ≠ .blank c) (o : Nat) (hseg : SegA data o p.render) :
    PreT content data ⟨.anyAnnStart, [r0], K, [], o + 1, false, false, lc, ht, uq⟩ (p.evs o)
      ⟨r0, [], K, [], o + p.render.length, false, false, lc, ht, uq⟩ := by
  cases p with
  | blank c => exact absurd rfl (hne c)
  | inl sp txt =>
    obtain ⟨_, hrest⟩ := hseg
    have h := preT_inl_body (content := content) r0 K lc ht uq sp txt hv.1 hv.2 (o + 1) hrest
    refine h.castS ?_
    rw [Piece.render_length_inl]
    congr 1
    omega
  | ml ws txt =>
    obtain ⟨_, hrest⟩ := hseg
    have h := preT_ml_body (content := content) r0 K lc ht uq ws txt hv.1 hv.2 (o + 1) hrest
    refine h.castS ?_
    rw [Piece.render_length_ml]
    congr 1
    omega

theorem Piece.head_slash (p : Piece) (hne : ∀ c, p ≠ .blank c) : ∃ tl, p.render = .slash :: tl := by
  cases p with
  | blank c => exact absurd rfl (hne c)
  | inl sp txt => exact ⟨_, rfl⟩
  | ml ws txt => exact ⟨_, rfl⟩

/-- a layout, in a state in which comments are accepted; `hblank` is the state's treatment of one blank byte -/
theorem preT_lay {st : St} (hst : CmtSt st) (K : List (LexT × Nat)) (lc ht : Bool) (uq : List (List UInt8 × Bool))
    (hblank : ∀ (c : Cls) (i : Nat), c.isBlank = true → data[i]? = some c →
      PreT content data ⟨st, [], K, [], i, false, false, lc, ht, uq⟩ (if c.isNewLine then [⟨.newLine, i, i⟩] else [])
        ⟨st, [], K, [], i + 1, false, false, lc, ht, uq⟩)
    (L : Lay) (hv : L.Valid) : ∀ i, SegA data i (Lay.render L) →
    PreT content data ⟨st, [], K, [], i, false, false, lc, ht, uq⟩ (layEvs i L)
      ⟨st, [], K, [], i + (Lay.render L).length, false, false, lc, ht, uq⟩ := by
  induction L with
  | nil => intro i _; exact PreT.refl _
  | cons p L ih =>
    intro i hseg
    obtain ⟨hp, hL⟩ := SegA_append (show SegA data i (p.render ++ Lay.render L) from hseg)
    have h2 := ih (fun x hx => hv x (by simp [hx])) (i + p.render.length) hL
    have hpv := hv p (by simp)
    have h1 : PreT content data ⟨st, [], K, [], i, false, false, lc, ht, uq⟩ (p.evs i)
        ⟨st, [], K, [], i + p.render.length, false, false, lc, ht, uq⟩ := by
      cases p with
      | blank c =>
        have := hblank c i hpv hp.1
        simpa [Piece.evs, nlEvs, Piece.render] using this
      | inl sp txt =>
        exact (preT_slash hst K i lc ht uq hp.1).trans
          (preT_comment_body st K lc ht uq (.inl sp txt) hpv (by intro c h; cases h) i hp)
      | ml ws txt =>
        exact (preT_slash hst K i lc ht uq hp.1).trans
          (preT_comment_body st K lc ht uq (.ml ws txt) hpv (by intro c h; cases h) i hp)
    have := h1.trans h2
    simp only [Lay.render, layEvs, List.length_append]
    rw [show i + (p.render.length + (Lay.render L).length) = i + p.render.length + (Lay.render L).length by omega]
    exact this

/-- between the items -/
theorem preT_lay_loop {st : St} (hst : LoopSt st) (a : Nat) (lc ht : Bool) (uq : List (List UInt8 × Bool))
    (L : Lay) (hv : L.Valid) (i : Nat) (hseg : SegA data i (Lay.render L)) :
    PreT content data ⟨st, [], [(.arrB, a)], [], i, false, false, lc, ht, uq⟩ (layEvs i L)
      ⟨st, [], [(.arrB, a)], [], i + (Lay.render L).length, false, false, lc, ht, uq⟩ :=
  preT_lay (by rcases hst with h | h | h <;> simp [CmtSt, h]) [(.arrB, a)] lc ht uq
    (fun c i hb hc => preT_blank_loop hst hb a i lc ht uq hc) L hv i hseg

/-- one blank byte behind the list -/
theorem preT_blank_end {st : St} (hst : st = .endValue ∨ st = .endTop) {c : Cls} (hb : c.isBlank = true) (i : Nat)
    (lc : Bool) (uq : List (List UInt8 × Bool)) (hc : data[i]? = some c) :
    PreT content data ⟨st, [], [], [], i, false, false, lc, false, uq⟩
      (if c.isNewLine then [⟨.newLine, i, i⟩] else [])
      ⟨.endTop, [], [], [], i + 1, false, false, lc, false, uq⟩ := by
  rcases hst with rfl | rfl <;> cases c <;> simp [Cls.isBlank, Cls.isSpace, Cls.isNewLine] at hb ⊢ <;>
    first
    | exact PreT.byte hc (fun p1 => by unfold dispatch; first | rfl | (unfold endValue; unfold dispatch; rfl)) rfl
    | exact (PreT.byte hc (fun p1 => by
        unfold dispatch; first | rfl | (unfold endValue; unfold dispatch; rfl)) rfl).trans (PreT.shift rfl)

/-- the state behind a layout that follows the closing bracket -/
def endSt : Lay → St | [] => .endValue | _ => .endTop

/-- the layout behind the closing bracket -/
theorem preT_lay_end (lc : Bool) (uq : List (List UInt8 × Bool)) (L : Lay) (hv : L.Valid) (i : Nat)
    (hseg : SegA data i (Lay.render L)) :
    PreT content data ⟨.endValue, [], [], [], i, false, false, lc, false, uq⟩ (layEvs i L)
      ⟨endSt L, [], [], [], i + (Lay.render L).length, false, false, lc, false, uq⟩ := by
  cases L with
  | nil => exact PreT.refl _
  | cons p L =>
    obtain ⟨hp, hL⟩ := SegA_append (show SegA data i (p.render ++ Lay.render L) from hseg)
    have hpv := hv p (by simp)
    have h2 := preT_lay (content := content) (st := .endTop) (by simp [CmtSt]) [] lc false uq
      (fun c i hb hc => preT_blank_end (Or.inr rfl) hb i lc uq hc) L (fun x hx => hv x (by simp [hx]))
      (i + p.render.length) hL
    have h1 : PreT content data ⟨.endValue, [], [], [], i, false, false, lc, false, uq⟩ (p.evs i)
        ⟨.endTop, [], [], [], i + p.render.length, false, false, lc, false, uq⟩ := by
      cases p with
      | blank c =>
        have := preT_blank_end (content := content) (Or.inl rfl) hpv i lc uq hp.1
        simpa [Piece.evs, nlEvs, Piece.render] using this
      | inl sp txt =>
        exact (preT_slash_endValue i lc false uq hp.1).trans
          (preT_comment_body .endTop [] lc false uq (.inl sp txt) hpv (by intro c h; cases h) i hp)
      | ml ws txt =>
        exact (preT_slash_endValue i lc false uq hp.1).trans
          (preT_comment_body .endTop [] lc false uq (.ml ws txt) hpv (by intro c h; cases h) i hp)
    have := h1.trans h2
    simp only [Lay.render, layEvs, List.length_append, endSt]
    rw [show i + (p.render.length + (Lay.render L).length) = i + p.render.length + (Lay.render L).length by omega]
    exact this

/-! ### one item -/

/-- the closing phase: the literal is complete, a layout follows, then `,` or `]` -/
theorem preT_close_lay {st : St} (hp : PV st = true) {term : Cls} (ht : term = .comma ∨ term = .rbrack)
    (b b' a d : Nat) (lc : Bool) (uq : List (List UInt8 × Bool)) (L : Lay) (hv : L.Valid)
    (hseg : SegA data d (Lay.render L ++ [term])) (hfresh : uq.contains (keyAt content b (d - b)) = false) :
    PreT content data ⟨st, [], [(.litB, b), (.itemB, b'), (.arrB, a)], [], d, false, false, lc, false, uq⟩
      ([⟨.litE, b, d - 1⟩, ⟨.itemE, b', d - 1⟩] ++ (layEvs d L ++ delimEvs a (d + (Lay.render L).length) term))
      ⟨delimSt term, [], delimStack a term, [], d + (Lay.render L).length + 1, false, false, lc, false,
        keyAt content b (d - b) :: uq⟩ := by
  have htd : isDelimC term = true := by rcases ht with rfl | rfl <;> rfl
  have hts : delimStC term = delimSt term ∧ delimRetC term = [] := by rcases ht with rfl | rfl <;> exact ⟨rfl, rfl⟩
  cases L with
  | nil =>
    obtain ⟨hd, _⟩ := hseg
    have h := preT_close (content := content) hp htd b b' a d lc uq hd hfresh
    rw [hts.1, hts.2] at h
    simpa [Lay.render, layEvs] using h
  | cons p L =>
    obtain ⟨hpl, hterm⟩ := SegA_append hseg
    obtain ⟨hterm, _⟩ := hterm
    obtain ⟨hps, hLs⟩ := SegA_append (show SegA data d (p.render ++ Lay.render L) from hpl)
    have hpv := hv p (by simp)
    have hLv : Lay.Valid L := fun x hx => hv x (by simp [hx])
    -- the first piece closes the literal
    have h1 : PreT content data ⟨st, [], [(.litB, b), (.itemB, b'), (.arrB, a)], [], d, false, false, lc, false, uq⟩
        ([⟨.litE, b, d - 1⟩, ⟨.itemE, b', d - 1⟩] ++ p.evs d)
        ⟨.afterItem, [], [(.arrB, a)], [], d + p.render.length, false, false, lc, false,
          keyAt content b (d - b) :: uq⟩ := by
      cases p with
      | blank c =>
        have hb : c.isBlank = true := hpv
        obtain ⟨e1, e2, e3, e4⟩ := blank_delim hb
        have hdc : isDelimC c = true := by
          cases c <;> simp [Cls.isBlank, Cls.isSpace, Cls.isNewLine] at hb <;> rfl
        have hsc : delimStC c = .afterItem ∧ delimRetC c = [] := by
          cases c <;> simp [Cls.isBlank, Cls.isSpace, Cls.isNewLine] at hb <;> exact ⟨rfl, rfl⟩
        have h := preT_close (content := content) hp hdc b b' a d lc uq hps.1 hfresh
        rw [hsc.1, hsc.2, e3, e4] at h
        simpa [Piece.evs, Piece.render] using h
      | inl sp txt =>
        have h := preT_close (content := content) (c := .slash) hp rfl b b' a d lc uq hps.1 hfresh
        have h' := preT_comment_body (content := content) .afterItem [(.arrB, a)] lc false (keyAt content b (d - b) :: uq)
          (.inl sp txt) hpv (by intro c h; cases h) d hps
        exact (h.trans h').cast (by simp [delimEvs])
      | ml ws txt =>
        have h := preT_close (content := content) (c := .slash) hp rfl b b' a d lc uq hps.1 hfresh
        have h' := preT_comment_body (content := content) .afterItem [(.arrB, a)] lc false (keyAt content b (d - b) :: uq)
          (.ml ws txt) hpv (by intro c h; cases h) d hps
        exact (h.trans h').cast (by simp [delimEvs])
    have h2 := preT_lay_loop (content := content) (st := .afterItem) (Or.inr (Or.inr rfl)) a lc false
      (keyAt content b (d - b) :: uq) L hLv (d + p.render.length) hLs
    have hterm' : data[d + p.render.length + (Lay.render L).length]? = some term := by
      have : d + (p.render ++ Lay.render L).length = d + p.render.length + (Lay.render L).length := by
        simp only [List.length_append]; omega
      rw [← this]; exact hterm
    have h3 := preT_term (content := content) ht a (d + p.render.length + (Lay.render L).length) lc false
      (keyAt content b (d - b) :: uq) hterm'
    refine ((h1.trans h2).trans h3).cast ?_ |>.castS ?_
    · simp only [Lay.render, layEvs, List.length_append, List.append_assoc]
      rw [show d + (p.render.length + (Lay.render L).length) = d + p.render.length + (Lay.render L).length by omega]
    · simp only [Lay.render, List.length_append]
      rw [show d + (p.render.length + (Lay.render L).length) + 1 = d + p.render.length + (Lay.render L).length + 1 by omega]

/-- one item: layout, token, layout, `,` or `]` -/
theorem itemC_pre {st : St} (hst : st = .arrItemOrEmpty ∨ st = .arrItem) (L1 : Lay) (tk : List Cls) (L2 : Lay)
    (hL1 : L1.Valid) (htk : IsTok tk) (hL2 : L2.Valid) {term : Cls} (ht : term = .comma ∨ term = .rbrack) (a o : Nat)
    (lc : Bool) (uq : List (List UInt8 × Bool))
    (hseg : SegA data o (Lay.render L1 ++ (tk ++ (Lay.render L2 ++ [term]))))
    (hfresh : uq.contains (keyAt content (o + (Lay.render L1).length) tk.length) = false) :
    PreT content data ⟨st, [], [(.arrB, a)], [], o, false, false, lc, false, uq⟩
      (layEvs o L1 ++ (itemEvs (o + (Lay.render L1).length) (o + (Lay.render L1).length + tk.length) ++
        (layEvs (o + (Lay.render L1).length + tk.length) L2 ++
          delimEvs a (o + (Lay.render L1).length + tk.length + (Lay.render L2).length) term)))
      ⟨delimSt term, [], delimStack a term, [], o + (Lay.render L1).length + tk.length + (Lay.render L2).length + 1,
        false, false, lc, false, keyAt content (o + (Lay.render L1).length) tk.length :: uq⟩ := by
  obtain ⟨c, tl, st0, unf0, stE, rfl, hl, hrun, hpv⟩ := htk
  obtain ⟨s1, hrest⟩ := SegA_append hseg
  obtain ⟨s2, s3⟩ := SegA_append hrest
  obtain ⟨hc, stl⟩ := s2
  have hloop : LoopSt st := by rcases hst with rfl | rfl <;> simp [LoopSt]
  have h1 := preT_lay_loop (content := content) hloop a lc false uq L1 hL1 o s1
  have h2 := preT_litStart (content := content) hst hl a (o + (Lay.render L1).length) lc false uq hc
  have h3 := preT_silentRun (content := content) tl
    [(.litB, o + (Lay.render L1).length), (.itemB, o + (Lay.render L1).length), (.arrB, a)]
    false lc false uq st0 [] unf0 (o + (Lay.render L1).length + 1) stE [] false stl hrun
  have e1 : o + (Lay.render L1).length + 1 + tl.length = o + (Lay.render L1).length + (c :: tl).length := by
    simp only [List.length_cons]; omega
  rw [e1] at h3
  have e2 : o + (Lay.render L1).length + (c :: tl).length - (o + (Lay.render L1).length) = (c :: tl).length := by omega
  have h4 := preT_close_lay (content := content) hpv ht (o + (Lay.render L1).length) (o + (Lay.render L1).length) a
    (o + (Lay.render L1).length + (c :: tl).length) lc uq L2 hL2 s3 (by rw [e2]; exact hfresh)
  rw [e2] at h4
  refine (((h1.trans h2).trans h3).trans h4).cast ?_
  simp [itemEvs, List.append_assoc]

/-- the number of events of a layout is bounded by its length -/
theorem layEvs_length_le (L : Lay) : ∀ (o : Nat), (layEvs o L).length ≤ 3 * (Lay.render L).length := by
  induction L with
  | nil => intro o; simp [layEvs]
  | cons p L ih =>
    intro o
    have h2 := ih (o + p.render.length)
    have h1 : (p.evs o).length ≤ 3 * p.render.length := by
      cases p with
      | blank c =>
        have := nlEvs_length_le o [c]
        simp only [Piece.evs, Piece.render, List.length_cons, List.length_nil] at this ⊢
        omega
      | inl sp txt => simp [Piece.evs, inlEvs, Piece.render]; omega
      | ml ws txt =>
        have := nlEvs_length_le (o + 1 + 1) ws
        simp only [Piece.evs, mlEvs, Piece.render, List.length_cons, List.length_append, List.length_nil] at this ⊢
        omega
    simp only [layEvs, Lay.render, List.length_append]
    omega

/-- **duplicate at this item**: error 810 at the first byte of the token; the byte behind the token is a delimiter -/
theorem itemC_dup {st : St} (hst : st = .arrItemOrEmpty ∨ st = .arrItem) (L1 : Lay) (tk : List Cls) (hL1 : L1.Valid)
    (htk : IsTok tk) {c : Cls} (hc : isDelimC c = true) (a o : Nat) (lc : Bool)
    (uq : List (List UInt8 × Bool)) (hseg : SegA data o (Lay.render L1 ++ (tk ++ [c])))
    (hdup : uq.contains (keyAt content (o + (Lay.render L1).length) tk.length) = true) :
    ∃ n, n ≤ 3 * (Lay.render L1).length + 2 ∧
    OutT content data ⟨st, [], [(.arrB, a)], [], o, false, false, lc, false, uq⟩ n
      (.error (.duplicate (o + (Lay.render L1).length))) := by
  obtain ⟨c0, tl, st0, unf0, stE, rfl, hl, hrun, hpv⟩ := htk
  obtain ⟨s1, hrest⟩ := SegA_append hseg
  obtain ⟨s2, s3⟩ := SegA_append hrest
  obtain ⟨hc0, stl⟩ := s2
  obtain ⟨hd, _⟩ := s3
  have hloop : LoopSt st := by rcases hst with rfl | rfl <;> simp [LoopSt]
  have h1 := preT_lay_loop (content := content) hloop a lc false uq L1 hL1 o s1
  have h2 := preT_litStart (content := content) hst hl a (o + (Lay.render L1).length) lc false uq hc0
  have h3 := preT_silentRun (content := content) tl
    [(.litB, o + (Lay.render L1).length), (.itemB, o + (Lay.render L1).length), (.arrB, a)]
    false lc false uq st0 [] unf0 (o + (Lay.render L1).length + 1) stE [] false stl hrun
  have e1 : o + (Lay.render L1).length + 1 + tl.length = o + (Lay.render L1).length + (c0 :: tl).length := by
    simp only [List.length_cons]; omega
  rw [e1] at h3
  have e2 : o + (Lay.render L1).length + (c0 :: tl).length - (o + (Lay.render L1).length) = (c0 :: tl).length := by omega
  have h4 := outT_dup (content := content) hpv hc (o + (Lay.render L1).length) (o + (Lay.render L1).length) a
    (o + (Lay.render L1).length + (c0 :: tl).length) lc uq hd (by rw [e2]; exact hdup)
  have h := ((h1.trans h2).trans h3) _ _ h4
  refine ⟨_, ?_, h⟩
  have := layEvs_length_le L1 o
  simp only [List.length_append, List.length_cons, List.length_nil]
  omega

/-- a number token, as the automaton reads it: it ends in one of the three number states -/
def IsNumTok (tok : List Cls) : Prop :=
  ∃ c tl st0 unf0 stE, tok = c :: tl ∧ litStart c = some (st0, unf0) ∧
    silentRun st0 [] unf0 tl = some (stE, [], false) ∧ NumEnd stE = true

/-- **exponent at this item**: `e` / `E` directly behind a number token is error 301 at that byte -/
theorem itemC_exp {st : St} (hst : st = .arrItemOrEmpty ∨ st = .arrItem) (L1 : Lay) (tk : List Cls) (hL1 : L1.Valid)
    (htk : IsNumTok tk) {c : Cls} (hc : c = .le ∨ c = .uE) (a o : Nat) (lc : Bool)
    (uq : List (List UInt8 × Bool)) (hseg : SegA data o (Lay.render L1 ++ (tk ++ [c]))) :
    ∃ n, n ≤ 3 * (Lay.render L1).length + 2 ∧
    OutT content data ⟨st, [], [(.arrB, a)], [], o, false, false, lc, false, uq⟩ n
      (.error (.invalidChar (o + (Lay.render L1).length + tk.length)
        "isn't allowed 'cause not obvious it's a float or an integer")) := by
  obtain ⟨c0, tl, st0, unf0, stE, rfl, hl, hrun, hpv⟩ := htk
  obtain ⟨s1, hrest⟩ := SegA_append hseg
  obtain ⟨s2, s3⟩ := SegA_append hrest
  obtain ⟨hc0, stl⟩ := s2
  obtain ⟨hd, _⟩ := s3
  have hloop : LoopSt st := by rcases hst with rfl | rfl <;> simp [LoopSt]
  have h1 := preT_lay_loop (content := content) hloop a lc false uq L1 hL1 o s1
  have h2 := preT_litStart (content := content) hst hl a (o + (Lay.render L1).length) lc false uq hc0
  have h3 := preT_silentRun (content := content) tl
    [(.litB, o + (Lay.render L1).length), (.itemB, o + (Lay.render L1).length), (.arrB, a)]
    false lc false uq st0 [] unf0 (o + (Lay.render L1).length + 1) stE [] false stl hrun
  have e1 : o + (Lay.render L1).length + 1 + tl.length = o + (Lay.render L1).length + (c0 :: tl).length := by
    simp only [List.length_cons]; omega
  rw [e1] at h3
  have h4 := outT_exponent (content := content) hpv hc []
    [(.litB, o + (Lay.render L1).length), (.itemB, o + (Lay.render L1).length), (.arrB, a)]
    (o + (Lay.render L1).length + (c0 :: tl).length) false false lc false uq hd
  have h := ((h1.trans h2).trans h3) _ _ h4
  refine ⟨_, ?_, h⟩
  have := layEvs_length_le L1 o
  simp only [List.length_append, List.length_cons, List.length_nil]
  omega

end EnumScan
