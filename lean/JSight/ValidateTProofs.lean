import JSight.ValidateT
namespace VN
variable {L D : Type} (litOK : L → D → Bool)

/-! ### groups -/

theorem stepG_append (g1 g2 : List (T L)) (e : Ev D) :
    stepG litOK (g1 ++ g2) e
      = ((stepG litOK g1 e).1 ++ (stepG litOK g2 e).1, (stepG litOK g1 e).2 || (stepG litOK g2 e).2) := by
  induction g1 with
  | nil => simp [stepG]
  | cons t ts ih =>
    simp only [List.cons_append, stepG, ih]
    cases (stepT litOK t e).1 <;> simp [Bool.or_assoc]

theorem runQ_nil (es : List (Ev D)) : runQ litOK ([] : List (T L)) es = some ([], false) := by
  induction es with
  | nil => rfl
  | cons e es ih =>
    simp only [runQ, stepG]
    split
    · rfl
    · simpa using ih

theorem runQ_cons_cons (g : List (T L)) (e e' : Ev D) (es : List (Ev D)) :
    runQ litOK g (e :: e' :: es)
      = if (stepG litOK g e).2 then none else runQ litOK (stepG litOK g e).1 (e' :: es) := by
  simp [runQ]

theorem runQ_single (g : List (T L)) (e : Ev D) : runQ litOK g [e] = some (stepG litOK g e) := by
  simp [runQ]

theorem runQ_append (g : List (T L)) (es fs : List (Ev D)) (hfs : fs ≠ []) :
    runQ litOK g (es ++ fs) =
      match runQ litOK g es with
      | none => none
      | some r => if r.2 then none else runQ litOK r.1 fs := by
  induction es generalizing g with
  | nil => simp [runQ]
  | cons e es ih =>
    have hne : (es ++ fs).isEmpty = false := by cases es <;> cases fs <;> simp_all
    simp only [List.cons_append, runQ, hne, Bool.false_eq_true, if_false]
    cases es with
    | nil => simp
    | cons e2 es2 =>
      simp only [List.isEmpty_cons, Bool.false_eq_true, if_false]
      split
      · rfl
      · exact ih _

/-- siblings do not interact -/
theorem runQ_group_append (g1 g2 : List (T L)) (es : List (Ev D)) :
    runQ litOK (g1 ++ g2) es =
      match runQ litOK g1 es, runQ litOK g2 es with
      | some r1, some r2 => some (r1.1 ++ r2.1, r1.2 || r2.2)
      | _, _ => none := by
  induction es generalizing g1 g2 with
  | nil => simp [runQ]
  | cons e es ih =>
    simp only [runQ, stepG_append]
    cases es with
    | nil => simp
    | cons e2 es2 =>
      simp only [List.isEmpty_cons, Bool.false_eq_true, if_false]
      cases h1 : (stepG litOK g1 e).2 <;> cases h2 : (stepG litOK g2 e).2 <;> simp [ih]

/-! ### a parent that is not a leaf only waits for its children -/

theorem stepG_node_wait (P : Frame L) (g : List (T L)) (e : Ev D) :
    stepG litOK [T.node P false g] e
      = (if (stepG litOK g e).2 then [T.node P true (stepG litOK g e).1]
         else if (stepG litOK g e).1.isEmpty then [] else [T.node P false (stepG litOK g e).1], false) := by
  simp only [stepG, stepT, own, assemble, Bool.false_eq_true, if_false, List.map_nil, List.append_nil, Bool.false_or]
  cases (stepG litOK g e).2 <;> cases h : (stepG litOK g e).1.isEmpty <;> simp [h]

theorem node_wait (P : Frame L) (es : List (Ev D)) : ∀ (g g' : List (T L)) (b : Bool),
    runQ litOK g es = some (g', b) → es ≠ [] →
    runQ litOK [T.node P false g] es
      = some (if b then [T.node P true g'] else if g'.isEmpty then [] else [T.node P false g'], false) := by
  induction es with
  | nil => intro g g' b _ h; exact absurd rfl h
  | cons e es ih =>
    intro g g' b h _
    cases es with
    | nil =>
      simp only [runQ_single, Option.some.injEq] at h ⊢
      rw [stepG_node_wait, h]
    | cons e2 es2 =>
      rw [runQ_cons_cons] at h ⊢
      rw [stepG_node_wait]
      cases hs : (stepG litOK g e).2 with
      | true => rw [hs] at h; simp at h
      | false =>
        rw [hs] at h
        simp only [Bool.false_eq_true, if_false] at h ⊢
        cases hemp : (stepG litOK g e).1.isEmpty with
        | true =>
          have : (stepG litOK g e).1 = [] := by simpa using hemp
          rw [this, runQ_nil] at h
          simp only [Option.some.injEq, Prod.mk.injEq] at h
          obtain ⟨rfl, rfl⟩ := h
          simp [runQ_nil]
        | false =>
          simp only [Bool.false_eq_true, if_false]
          exact ih _ _ _ h (by simp)

/-! ### a leaf -/

def leafRes : FeedRes L → List (T L) × Bool
  | .fail => ([], false)
  | .done => ([], true)
  | .stay f' => ([leafT f'], false)
  | .kids f' hs => (if hs.isEmpty then [] else [T.node f' false (hs.map leafT)], false)

theorem stepG_leaf (f : Frame L) (e : Ev D) : stepG litOK [leafT f] e = leafRes (feed1 litOK f e) := by
  simp only [leafT, stepG, stepT, own, assemble, if_true]
  cases feed1 litOK f e with
  | fail => simp [leafRes]
  | done => simp [leafRes]
  | stay f' => simp [leafRes, leafT]
  | kids f' hs => cases hs <;> simp [leafRes]

/-- a leaf, one lexeme, more lexemes to come -/
theorem runQ_leaf (f : Frame L) (e r : Ev D) (rs : List (Ev D)) :
    runQ litOK [leafT f] (e :: r :: rs) =
      if (leafRes (feed1 litOK f e)).2 then none else runQ litOK (leafRes (feed1 litOK f e)).1 (r :: rs) := by
  rw [runQ_cons_cons, stepG_leaf]

theorem runQ_leaf_last (f : Frame L) (e : Ev D) :
    runQ litOK [leafT f] [e] = some (leafRes (feed1 litOK f e)) := by
  rw [runQ_single, stepG_leaf]

/-! ### `any` -/

theorem feed1_any_open (d : Nat) (e : Ev D) (h : e.isOpening = true) :
    feed1 litOK (.any d : Frame L) e = .stay (.any (d + 1)) := by
  simp [feed1, h]

theorem feed1_any_close (d : Nat) (e : Ev D) (h : e.isOpening = false) :
    feed1 litOK (.any (d + 2) : Frame L) e = .stay (.any (d + 1)) := by
  simp [feed1, h]

theorem feed1_any_last (e : Ev D) (h : e.isOpening = false) :
    feed1 litOK (.any 1 : Frame L) e = .done := by
  simp [feed1, h]

mutual
theorem any_keepT (d : J D) (n : Nat) (r : Ev D) (rs : List (Ev D)) :
    runQ litOK [leafT (.any (n+1) : Frame L)] (evs d ++ r :: rs) = runQ litOK [leafT (.any (n+1))] (r :: rs) := by
  cases d with
  | lit k =>
    simp only [evs, List.cons_append, List.nil_append]
    rw [runQ_leaf, feed1_any_open litOK _ _ rfl]
    simp only [leafRes, Bool.false_eq_true, if_false]
    rw [runQ_leaf, feed1_any_close litOK _ _ rfl]
    simp [leafRes]
  | arr xs =>
    have h := any_keep_itemsT xs (n+1) .arrE (r :: rs)
    simp only [evs, List.cons_append, List.append_assoc, List.nil_append]
    obtain ⟨x, y, hxy⟩ : ∃ x y, evsItems xs ++ Ev.arrE :: r :: rs = x :: y := by
      cases evsItems xs <;> simp
    rw [hxy, runQ_leaf, feed1_any_open litOK _ _ rfl]
    simp only [leafRes, Bool.false_eq_true, if_false]
    rw [← hxy, h, runQ_leaf, feed1_any_close litOK _ _ rfl]
    simp [leafRes]
  | obj ms =>
    have h := any_keep_membersT ms (n+1) .objE (r :: rs)
    simp only [evs, List.cons_append, List.append_assoc, List.nil_append]
    obtain ⟨x, y, hxy⟩ : ∃ x y, evsMembers ms ++ Ev.objE :: r :: rs = x :: y := by
      cases evsMembers ms <;> simp
    rw [hxy, runQ_leaf, feed1_any_open litOK _ _ rfl]
    simp only [leafRes, Bool.false_eq_true, if_false]
    rw [← hxy, h, runQ_leaf, feed1_any_close litOK _ _ rfl]
    simp [leafRes]
theorem any_keep_itemsT (xs : List (J D)) (n : Nat) (r : Ev D) (rs : List (Ev D)) :
    runQ litOK [leafT (.any (n+1) : Frame L)] (evsItems xs ++ r :: rs) = runQ litOK [leafT (.any (n+1))] (r :: rs) := by
  cases xs with
  | nil => simp [evsItems]
  | cons x xs =>
    have h1 := any_keepT x (n+1) .itemE (evsItems xs ++ r :: rs)
    have h2 := any_keep_itemsT xs n r rs
    simp only [evsItems, List.cons_append, List.append_assoc]
    obtain ⟨a, b, hab⟩ : ∃ a b, evs x ++ Ev.itemE :: (evsItems xs ++ r :: rs) = a :: b := by
      cases evs x <;> simp
    rw [hab, runQ_leaf, feed1_any_open litOK _ _ rfl]
    simp only [leafRes, Bool.false_eq_true, if_false]
    rw [← hab, h1]
    obtain ⟨a2, b2, hab2⟩ : ∃ a b, evsItems xs ++ r :: rs = a :: b := by
      cases evsItems xs <;> simp
    rw [hab2, runQ_leaf, feed1_any_close litOK _ _ rfl]
    simp only [leafRes, Bool.false_eq_true, if_false]
    rw [← hab2, h2]
theorem any_keep_membersT (ms : List (String × J D)) (n : Nat) (r : Ev D) (rs : List (Ev D)) :
    runQ litOK [leafT (.any (n+1) : Frame L)] (evsMembers ms ++ r :: rs) = runQ litOK [leafT (.any (n+1))] (r :: rs) := by
  cases ms with
  | nil => simp [evsMembers]
  | cons m ms =>
    obtain ⟨k, v⟩ := m
    have h1 := any_keepT v (n+1) .valE (evsMembers ms ++ r :: rs)
    have h2 := any_keep_membersT ms n r rs
    simp only [evsMembers, List.cons_append, List.append_assoc]
    rw [runQ_leaf, feed1_any_open litOK _ _ rfl]
    simp only [leafRes, Bool.false_eq_true, if_false]
    rw [runQ_leaf, feed1_any_close litOK _ _ rfl]
    simp only [leafRes, Bool.false_eq_true, if_false]
    obtain ⟨a, b, hab⟩ : ∃ a b, evs v ++ Ev.valE :: (evsMembers ms ++ r :: rs) = a :: b := by
      cases evs v <;> simp
    rw [hab, runQ_leaf, feed1_any_open litOK _ _ rfl]
    simp only [leafRes, Bool.false_eq_true, if_false]
    rw [← hab, h1]
    obtain ⟨a2, b2, hab2⟩ : ∃ a b, evsMembers ms ++ r :: rs = a :: b := by
      cases evsMembers ms <;> simp
    rw [hab2, runQ_leaf, feed1_any_close litOK _ _ rfl]
    simp only [leafRes, Bool.false_eq_true, if_false]
    rw [← hab2, h2]
end

theorem any_topT (d : J D) : runQ litOK [leafT (.any 0 : Frame L)] (evs d) = some ([], true) := by
  cases d with
  | lit k =>
    simp only [evs]
    rw [runQ_leaf, feed1_any_open litOK _ _ rfl]
    simp only [leafRes, Bool.false_eq_true, if_false]
    rw [runQ_leaf_last, feed1_any_last litOK _ rfl]; rfl
  | arr xs =>
    have h := any_keep_itemsT litOK (L := L) xs 0 .arrE []
    simp only [evs]
    obtain ⟨x, y, hxy⟩ : ∃ x y, evsItems xs ++ [Ev.arrE] = x :: (y : List (Ev D)) := by
      cases evsItems xs <;> simp
    rw [hxy, runQ_leaf, feed1_any_open litOK _ _ rfl]
    simp only [leafRes, Bool.false_eq_true, if_false]
    rw [← hxy, h, runQ_leaf_last, feed1_any_last litOK _ rfl]; rfl
  | obj ms =>
    have h := any_keep_membersT litOK (L := L) ms 0 .objE []
    simp only [evs]
    obtain ⟨x, y, hxy⟩ : ∃ x y, evsMembers ms ++ [Ev.objE] = x :: (y : List (Ev D)) := by
      cases evsMembers ms <;> simp
    rw [hxy, runQ_leaf, feed1_any_open litOK _ _ rfl]
    simp only [leafRes, Bool.false_eq_true, if_false]
    rw [← hxy, h, runQ_leaf_last, feed1_any_last litOK _ rfl]; rfl

/-! ### the union semantics for the shared-parent tree -/

theorem evs_cons (d : J D) : ∃ a b, evs d = a :: b := by
  cases d <;> simp [evs]

theorem evs_ne_nil (d : J D) : evs d ≠ [] := by
  obtain ⟨a, b, h⟩ := evs_cons d; rw [h]; simp

/-- after the children of a position have run over the value: the parent is a leaf again iff one of them accepted -/
theorem position_run (P : Frame L) (s : S L) (x : J D) (r : Ev D) (rs : List (Ev D))
    (hv : runQ litOK ((heads s).map leafT) (evs x) = some ([], shape litOK s x)) :
    runQ litOK (leafRes (FeedRes.kids P (heads s))).1 (evs x ++ r :: rs)
      = if shape litOK s x then runQ litOK [leafT P] (r :: rs) else some ([], false) := by
  by_cases hh : (heads s).isEmpty = true
  · have : heads s = [] := by simpa using hh
    rw [this] at hv
    simp only [List.map_nil, runQ_nil, Option.some.injEq, Prod.mk.injEq, true_and] at hv
    simp [leafRes, this, runQ_nil, ← hv]
  · simp only [leafRes, hh, Bool.false_eq_true, if_false]
    rw [runQ_append litOK _ _ _ (by simp), node_wait litOK P (evs x) _ _ _ hv (evs_ne_nil x)]
    cases shape litOK s x
    · simp [runQ_nil]
    · simp [leafT]

mutual
theorem value_T (s : S L) (d : J D) :
    runQ litOK ((heads s).map leafT) (evs d) = some ([], shape litOK s d) := by
  cases s with
  | alt alts => simpa [heads, shape] using alts_T alts d
  | any => simpa [heads, shape] using any_topT litOK (L := L) d
  | lit l =>
    cases d with
    | lit dk =>
      simp only [heads, List.map_cons, List.map_nil, evs, shape]
      rw [runQ_leaf]
      simp only [feed1, leafRes, Bool.false_eq_true, if_false]
      rw [runQ_leaf_last]
      cases h : litOK l dk <;> simp [feed1, h, leafRes]
    | arr xs =>
      obtain ⟨a, b, hab⟩ : ∃ a b, evsItems xs ++ [Ev.arrE] = a :: (b : List (Ev D)) := by cases evsItems xs <;> simp
      simp only [heads, List.map_cons, List.map_nil, evs, shape, hab]
      rw [runQ_leaf]; simp [feed1, leafRes, runQ_nil]
    | obj ms =>
      obtain ⟨a, b, hab⟩ : ∃ a b, evsMembers ms ++ [Ev.objE] = a :: (b : List (Ev D)) := by cases evsMembers ms <;> simp
      simp only [heads, List.map_cons, List.map_nil, evs, shape, hab]
      rw [runQ_leaf]; simp [feed1, leafRes, runQ_nil]
  | arr items =>
    cases d with
    | lit dk =>
      simp only [heads, List.map_cons, List.map_nil, evs, shape]
      rw [runQ_leaf]; simp [feed1, leafRes, runQ_nil]
    | arr xs =>
      have h := items_T items xs 0
      obtain ⟨a, b, hab⟩ : ∃ a b, evsItems xs ++ [Ev.arrE] = a :: (b : List (Ev D)) := by cases evsItems xs <;> simp
      simp only [heads, List.map_cons, List.map_nil, evs, shape]
      rw [hab, runQ_leaf]
      simp only [feed1, leafRes, Bool.false_eq_true, if_false]
      rw [← hab]; exact h
    | obj ms =>
      obtain ⟨a, b, hab⟩ : ∃ a b, evsMembers ms ++ [Ev.objE] = a :: (b : List (Ev D)) := by cases evsMembers ms <;> simp
      simp only [heads, List.map_cons, List.map_nil, evs, shape, hab]
      rw [runQ_leaf]; simp [feed1, leafRes, runQ_nil]
  | obj props =>
    cases d with
    | lit dk =>
      simp only [heads, List.map_cons, List.map_nil, evs, shape]
      rw [runQ_leaf]; simp [feed1, leafRes, runQ_nil]
    | arr xs =>
      obtain ⟨a, b, hab⟩ : ∃ a b, evsItems xs ++ [Ev.arrE] = a :: (b : List (Ev D)) := by cases evsItems xs <;> simp
      simp only [heads, List.map_cons, List.map_nil, evs, shape, hab]
      rw [runQ_leaf]; simp [feed1, leafRes, runQ_nil]
    | obj ms =>
      have h := members_T props ms (requiredKeys props) none
      obtain ⟨a, b, hab⟩ : ∃ a b, evsMembers ms ++ [Ev.objE] = a :: (b : List (Ev D)) := by cases evsMembers ms <;> simp
      simp only [heads, List.map_cons, List.map_nil, evs, shape]
      rw [hab, runQ_leaf]
      simp only [feed1, leafRes, Bool.false_eq_true, if_false]
      rw [← hab]; exact h
termination_by (sizeOf d, sizeOf s)
theorem alts_T (alts : List (S L)) (d : J D) :
    runQ litOK ((headsList alts).map leafT) (evs d) = some ([], shapeAlts litOK alts d) := by
  cases alts with
  | nil => simp [headsList, shapeAlts, runQ_nil]
  | cons a as =>
    have h1 := value_T a d
    have h2 := alts_T as d
    simp only [headsList, List.map_append, shapeAlts]
    rw [runQ_group_append, h1, h2]
    simp
termination_by (sizeOf d, sizeOf alts)
theorem items_T (items : List (S L)) (xs : List (J D)) (c : Nat) :
    runQ litOK [leafT (.arr items c)] (evsItems xs ++ [.arrE]) = some ([], shapeItems litOK items c xs) := by
  cases xs with
  | nil =>
    simp only [evsItems, List.nil_append, shapeItems]
    rw [runQ_leaf_last]; simp [feed1, leafRes]
  | cons x xs =>
    obtain ⟨a, b, hab⟩ := evs_cons x
    simp only [evsItems, List.cons_append, List.append_assoc, shapeItems]
    cases hc : childAt items c with
    | none =>
      rw [hab]; simp only [List.cons_append]
      rw [runQ_leaf]; simp [feed1, hc, leafRes, runQ_nil]
    | some s =>
      have hv := value_T s x
      have hp := position_run litOK (.arr items (c+1)) s x .itemE (evsItems xs ++ [.arrE]) hv
      have h2 := items_T items xs (c+1)
      have hstep : runQ litOK [leafT (Frame.arr items c)] (Ev.itemB :: (evs x ++ Ev.itemE :: (evsItems xs ++ [Ev.arrE])))
          = runQ litOK (leafRes (FeedRes.kids (.arr items (c+1)) (heads s))).1 (evs x ++ Ev.itemE :: (evsItems xs ++ [Ev.arrE])) := by
        rw [hab]; simp only [List.cons_append]
        rw [runQ_leaf]; simp [feed1, hc, leafRes]
      rw [hstep, hp]
      cases hs : shape litOK s x with
      | false => simp [hs]
      | true =>
        simp only [hs, if_true, Bool.true_and]
        obtain ⟨a2, b2, hab2⟩ : ∃ a b, evsItems xs ++ [Ev.arrE] = a :: (b : List (Ev D)) := by cases evsItems xs <;> simp
        rw [hab2, runQ_leaf]
        simp only [feed1, leafRes, Bool.false_eq_true, if_false]
        rw [← hab2]; exact h2
termination_by (sizeOf xs, 0)
theorem members_T (props : List (String × Bool × S L)) (ms : List (String × J D)) (req : List String)
    (last : Option String) :
    runQ litOK [leafT (.obj props req last)] (evsMembers ms ++ [.objE])
      = some ([], shapeMembers litOK props ms && req.all (fun r => ms.any (fun m => m.1 == r))) := by
  cases ms with
  | nil =>
    simp only [evsMembers, List.nil_append, shapeMembers, all_none_isEmpty, Bool.true_and]
    rw [runQ_leaf_last]
    cases req <;> simp [feed1, leafRes]
  | cons m ms =>
    obtain ⟨k, v⟩ := m
    obtain ⟨a, b, hab⟩ := evs_cons v
    simp only [evsMembers, List.cons_append, List.append_assoc, shapeMembers]
    rw [runQ_leaf]
    simp only [feed1, leafRes, Bool.false_eq_true, if_false]
    rw [runQ_leaf]
    simp only [feed1, leafRes, Bool.false_eq_true, if_false]
    cases hl : lookup props k with
    | none =>
      rw [hab]; simp only [List.cons_append]
      rw [runQ_leaf]; simp [feed1, hl, leafRes, runQ_nil]
    | some s =>
      have hv := value_T s v
      have hp := position_run litOK (.obj props (req.filter (· != k)) (some k)) s v .valE (evsMembers ms ++ [.objE]) hv
      have h2 := members_T props ms (req.filter (· != k)) (some k)
      have hstep : runQ litOK [leafT (Frame.obj props (req.filter (· != k)) (some k))]
            (Ev.valB :: (evs v ++ Ev.valE :: (evsMembers ms ++ [Ev.objE])))
          = runQ litOK (leafRes (FeedRes.kids (.obj props (req.filter (· != k)) (some k)) (heads s))).1
              (evs v ++ Ev.valE :: (evsMembers ms ++ [Ev.objE])) := by
        rw [hab]; simp only [List.cons_append]
        rw [runQ_leaf]; simp [feed1, hl, leafRes]
      rw [hstep, hp]
      cases hs : shape litOK s v with
      | false => simp [hs]
      | true =>
        simp only [hs, if_true, Bool.true_and]
        obtain ⟨a2, b2, hab2⟩ : ∃ a b, evsMembers ms ++ [Ev.objE] = a :: (b : List (Ev D)) := by cases evsMembers ms <;> simp
        rw [hab2, runQ_leaf]
        simp only [feed1, leafRes, Bool.false_eq_true, if_false]
        rw [← hab2, h2, req_step req k v ms]
termination_by (sizeOf ms, 0)
end

/-- **C01/C03** for the shared-parent validator tree (as the code keeps it, with F-11): `Validate` accepts exactly
the union semantics, for every schema with alternatives and every document -/
theorem C03_shared_tree (s : S L) (d : J D) : validateT litOK s d = shape litOK s d := by
  unfold validateT
  rw [value_T]

/-- and therefore the shared-parent tree and the independent-leaves machine agree -/
theorem shared_eq_independent (s : S L) (d : J D) : validateT litOK s d = validate litOK s d := by
  rw [C03_shared_tree, C03_validate_iff_union]

#print axioms C03_shared_tree

end VN
