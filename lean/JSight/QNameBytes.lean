import JSight.Utf8Unquote
import JSight.SchemaEventsTree
import JSight.ByteLemmas
/-!
A string token of the JSON string grammar (`RulesF.SCh`: raw characters as UTF-8, two-character escapes, `\uXXXX`) is a
key of the schema scanner model's token automaton (`SchemaScan.IsKey`): what makes a QUOTED rule name — any JSON string
— scannable.
-/
namespace SchemaScan
open RulesF (SCh Esc)

/-- classes that leave the string automaton in `inString` -/
def plainStr : Cls → Bool
  | .quote | .bslash | .tab | .nl | .ctrl => false
  | _ => true

theorem silent_plain (r : List St) (u : Bool) (c : Cls) (h : plainStr c = true) :
    silent .inString r u c = some (.inString, r, u) := by
  cases c <;> simp [plainStr] at h <;> rfl

theorem plain_byte (b : UInt8) (h : 32 ≤ b.toNat) (h1 : b.toNat ≠ 34) (h2 : b.toNat ≠ 92) :
    plainStr (classify b) = true := by
  have := Bytes.forall_uint8
    (fun b => !(decide (32 ≤ b.toNat) && b.toNat != 34 && b.toNat != 92) || plainStr (classify b)) (by decide +kernel) b
  simp only [Bool.or_eq_true, Bool.not_eq_true', Bool.and_eq_false_iff, decide_eq_false_iff_not, bne_eq_false_iff_eq] at this
  rcases this with (((h' | h') | h') | h')
  · exact absurd h h'
  · exact absurd h' h1
  · exact absurd h' h2
  · exact h'

theorem hex_byte (b : UInt8) (h : RulesF.isHexByte b = true) : (classify b).isHex = true := by
  have := Bytes.forall_uint8 (fun b => !RulesF.isHexByte b || (classify b).isHex) (by decide +kernel) b
  simpa [h] using this

theorem silentRun_plain (r : List St) (u : Bool) : ∀ (bs rest : List Cls), (∀ c ∈ bs, plainStr c = true) →
    silentRun .inString r u (bs ++ rest) = silentRun .inString r u rest
  | [], _, _ => rfl
  | c :: bs, rest, h => by
    simp only [List.cons_append, silentRun, silent_plain r u c (h c (by simp))]
    exact silentRun_plain r u bs rest (fun x hx => h x (by simp [hx]))

/-- the bytes of a raw character of the string grammar -/
theorem chr_plain (c : Char) (hc : (SCh.chr c).ok) : ∀ b ∈ String.utf8EncodeChar c, plainStr (classify b) = true := by
  obtain ⟨h20, hq, hb⟩ := hc
  have hv := RulesF.validNat c
  have n92 : c.val.toNat ≠ 92 := by
    intro h; apply hb; apply Char.ext; apply UInt32.toNat_inj.1; rw [h]; rfl
  have n34 : c.val.toNat ≠ 34 := by
    intro h; apply hq; apply Char.ext; apply UInt32.toNat_inj.1; rw [h]; rfl
  intro b hbm
  rcases RulesF.utf8_cases c with ⟨a, e⟩ | ⟨a1, a2, e⟩ | ⟨a1, a2, e⟩ | ⟨a1, a2, e⟩ <;> rw [e] at hbm <;>
    simp only [List.mem_cons, List.not_mem_nil, or_false] at hbm
  · subst hbm
    have hn := RulesF.toNat_ofNat_lt c.val.toNat (by omega)
    exact plain_byte _ (by omega) (by omega) (by omega)
  · rcases hbm with rfl | rfl
    · have hn := RulesF.toNat_ofNat_lt (c.val.toNat / 64 + 0xC0) (by omega)
      exact plain_byte _ (by omega) (by omega) (by omega)
    · have hn := RulesF.toNat_ofNat_lt (c.val.toNat % 64 + 0x80) (by omega)
      exact plain_byte _ (by omega) (by omega) (by omega)
  · rcases hbm with rfl | rfl | rfl
    · have hn := RulesF.toNat_ofNat_lt (c.val.toNat / 4096 + 0xE0) (by omega)
      exact plain_byte _ (by omega) (by omega) (by omega)
    · have hn := RulesF.toNat_ofNat_lt (c.val.toNat / 64 % 64 + 0x80) (by omega)
      exact plain_byte _ (by omega) (by omega) (by omega)
    · have hn := RulesF.toNat_ofNat_lt (c.val.toNat % 64 + 0x80) (by omega)
      exact plain_byte _ (by omega) (by omega) (by omega)
  · rcases hbm with rfl | rfl | rfl | rfl
    · have hn := RulesF.toNat_ofNat_lt (c.val.toNat / 262144 + 0xF0) (by omega)
      exact plain_byte _ (by omega) (by omega) (by omega)
    · have hn := RulesF.toNat_ofNat_lt (c.val.toNat / 4096 % 64 + 0x80) (by omega)
      exact plain_byte _ (by omega) (by omega) (by omega)
    · have hn := RulesF.toNat_ofNat_lt (c.val.toNat / 64 % 64 + 0x80) (by omega)
      exact plain_byte _ (by omega) (by omega) (by omega)
    · have hn := RulesF.toNat_ofNat_lt (c.val.toNat % 64 + 0x80) (by omega)
      exact plain_byte _ (by omega) (by omega) (by omega)

theorem cls92 : classify 92 = .bslash := by decide
theorem cls117 : classify 117 = .lu := by decide
theorem cls34 : classify 34 = .quote := by decide

/-- one character of the string grammar takes the automaton from `inString` back to `inString` -/
theorem silentRun_sch (r : List St) (u : Bool) (c : SCh) (hc : c.ok) (rest : List Cls) :
    silentRun .inString r u (c.render.map classify ++ rest) = silentRun .inString r u rest := by
  cases c with
  | chr ch =>
    exact silentRun_plain r u _ rest (by
      intro x hx
      obtain ⟨b, hb, rfl⟩ := List.mem_map.1 hx
      exact chr_plain ch hc b hb)
  | esc e => cases e <;> rfl
  | u4 a b c d =>
    obtain ⟨ha, hb, hc', hd⟩ := hc
    have h1 := hex_byte a ha
    have h2 := hex_byte b hb
    have h3 := hex_byte c hc'
    have h4 := hex_byte d hd
    simp only [SCh.render, List.map_cons, List.map_nil, List.cons_append, List.nil_append, silentRun, cls92, cls117,
      silent, h1, h2, h3, h4, if_true]

theorem silentRun_body (r : List St) (u : Bool) : ∀ (cs : List SCh), (∀ c ∈ cs, c.ok) → ∀ (rest : List Cls),
    silentRun .inString r u ((cs.flatMap SCh.render).map classify ++ rest) = silentRun .inString r u rest
  | [], _, _ => rfl
  | c :: cs, h, rest => by
    simp only [List.flatMap_cons, List.map_append, List.append_assoc]
    rw [silentRun_sch r u c (h c (by simp))]
    exact silentRun_body r u cs (fun x hx => h x (by simp [hx])) rest

/-- **every JSON string token is a key of the scanner's token automaton** -/
theorem isKey_of_str (cs : List SCh) (hok : ∀ c ∈ cs, c.ok) :
    IsKey ((34 :: (cs.flatMap SCh.render ++ [34])).map classify) := by
  refine ⟨(cs.flatMap SCh.render ++ [34]).map classify, by simp [cls34], ?_⟩
  rw [List.map_append, silentRun_body [] false cs hok]
  rfl

end SchemaScan
