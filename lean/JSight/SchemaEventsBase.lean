import JSight.SchemaRun
/-!
Schema scanner model (`SchemaScan`): fuel-free description of the event stream.

* `NextOk data s r`   : `Next()` from `s` returns `r` for every sufficient fuel;
* `Emits data s evs`  : draining the scanner from `s` delivers exactly `evs` and then ends;
* `Steps data s evs s'` : from `s` the scanner delivers `evs` and is then in `s'` (continuation form);
* `events_of_emits`   : `Emits data s evs → evs.length < fuel → events data fuel s acc = .ok (acc.reverse ++ evs)`.
-/
namespace SchemaScan

/-! ### `next`, restated with explicit matches -/

/-- the end-of-input rule of `Next()` -/
def eofStep (data : Array Cls) (s : Sc) : M (Option (Sc × Ev)) :=
  if !s.stack.isEmpty then
    let s := { s with index := s.index + 1 }
    match stackTy s 0 with
    | some .litB =>
      if s.unf then throw (.unexpectedEOF (data.size - 1))
      else some <$> processFound data s .litE
    | some .inlAnnB => some <$> processFound data s .inlAnnE
    | some .inlTxtB => some <$> processFound data s .inlTxtE
    | some .tsB =>
      if s.unf then throw (.unexpectedEOF (data.size - 1))
      else some <$> processFound data (found s .mixE) .tsE
    | _ => throw (.unexpectedEOF (data.size - 1))
  else pure none

def nextBody (data : Array Cls) (k : Sc → M (Option (Sc × Ev))) (s : Sc) : M (Option (Sc × Ev)) :=
  match shiftFound data s with
  | .error e => .error e
  | .ok (some r) => .ok (some r)
  | .ok none =>
    if s.index < data.size then
      match dispatch 8 s.step { s with index := s.index + 1 } data[s.index]! data[s.index + 1]? data[s.index + 1 + 1]? with
      | .error e => .error e
      | .ok s1 =>
        match shiftFound data s1 with
        | .error e => .error e
        | .ok (some r) => .ok (some r)
        | .ok none => k s1
    else eofStep data s

theorem next_succ (data : Array Cls) (nf : Nat) (s : Sc) :
    next data (nf + 1) s = nextBody data (next data nf) s := by
  rw [next]
  unfold nextBody
  simp only [bind, Except.bind]
  cases h1 : shiftFound data s with
  | error e => rfl
  | ok o =>
    cases o with
    | some r => rfl
    | none =>
      simp only []
      by_cases hlt : s.index < data.size
      · simp only [hlt, if_true]
        cases h2 : dispatch 8 s.step { s with index := s.index + 1 } data[s.index]! data[s.index + 1]? data[s.index + 1 + 1]? with
        | error e => rfl
        | ok s1 =>
          simp only []
          cases h3 : shiftFound data s1 with
          | error e => rfl
          | ok o2 => cases o2 <;> rfl
      · simp only [hlt, if_false]
        rfl

theorem next_zero (data : Array Cls) (s : Sc) : next data 0 s = .error (.crash "next: fuel exhausted") := rfl

theorem nextBody_mono (data : Array Cls) (k k' : Sc → M (Option (Sc × Ev)))
    (hk : ∀ s r, k s = .ok r → k' s = .ok r) (s : Sc) (r : Option (Sc × Ev))
    (h : nextBody data k s = .ok r) : nextBody data k' s = .ok r := by
  unfold nextBody at h ⊢
  cases h1 : shiftFound data s with
  | error e => rw [h1] at h; cases h
  | ok o =>
    rw [h1] at h
    cases o with
    | some p => exact h
    | none =>
      simp only [] at h ⊢
      by_cases hlt : s.index < data.size
      · simp only [hlt, if_true] at h ⊢
        cases h2 : dispatch 8 s.step { s with index := s.index + 1 } data[s.index]! data[s.index + 1]? data[s.index + 1 + 1]? with
        | error e => rw [h2] at h; cases h
        | ok s1 =>
          rw [h2] at h
          simp only [] at h ⊢
          cases h3 : shiftFound data s1 with
          | error e => rw [h3] at h; cases h
          | ok o2 =>
            rw [h3] at h
            cases o2 with
            | some p => exact h
            | none => exact hk _ _ h
      · simp only [hlt, if_false] at h ⊢
        exact h

theorem next_mono1 (data : Array Cls) : ∀ (nf : Nat) (s : Sc) (r : Option (Sc × Ev)),
    next data nf s = .ok r → next data (nf + 1) s = .ok r
  | 0, s, r, h => by rw [next_zero] at h; cases h
  | nf + 1, s, r, h => by
    rw [next_succ] at h ⊢
    exact nextBody_mono data _ _ (next_mono1 data nf) s r h

theorem next_mono (data : Array Cls) (nf m : Nat) (s : Sc) (r : Option (Sc × Ev))
    (h : next data nf s = .ok r) (hm : nf ≤ m) : next data m s = .ok r := by
  induction m with
  | zero => have : nf = 0 := by omega
            subst this; exact h
  | succ m ih =>
    by_cases hle : nf ≤ m
    · exact next_mono1 data m s r (ih hle)
    · have : nf = m + 1 := by omega
      subst this; exact h

/-! ### fuel-free `Next()` and the event stream -/

def NextOk (data : Array Cls) (s : Sc) (r : Option (Sc × Ev)) : Prop :=
  ∃ nf, nf ≤ data.size - s.index + 2 ∧ next data nf s = .ok r

inductive Emits (data : Array Cls) : Sc → List Ev → Prop
  | nil {s : Sc} : NextOk data s none → Emits data s []
  | cons {s s' : Sc} {e : Ev} {evs : List Ev} : NextOk data s (some (s', e)) → Emits data s' evs → Emits data s (e :: evs)

theorem NextOk.next {data : Array Cls} {s : Sc} {r : Option (Sc × Ev)} (h : NextOk data s r) :
    SchemaScan.next data (3 * data.size + 16) s = .ok r := by
  obtain ⟨nf, hb, hn⟩ := h
  exact next_mono data nf _ s r hn (by omega)

theorem events_of_emits {data : Array Cls} {s : Sc} {evs : List Ev} (h : Emits data s evs) :
    ∀ (fuel : Nat) (acc : List Ev), evs.length < fuel → events data fuel s acc = .ok (acc.reverse ++ evs) := by
  induction h with
  | nil hn =>
    intro fuel acc hf
    cases fuel with
    | zero => cases hf
    | succ f =>
      rw [events]
      simp only [bind, Except.bind, hn.next, List.append_nil]
      rfl
  | cons hn _ ih =>
    intro fuel acc hf
    cases fuel with
    | zero => cases hf
    | succ f =>
      rw [events]
      simp only [bind, Except.bind, hn.next]
      rw [ih f _ (by simpa using hf)]
      simp

/-- from `s` the scanner delivers `evs` and is then in `s'` -/
def Steps (data : Array Cls) (s : Sc) (evs : List Ev) (s' : Sc) : Prop :=
  ∀ tl, Emits data s' tl → Emits data s (evs ++ tl)

theorem Steps.refl (data : Array Cls) (s : Sc) : Steps data s [] s := fun _ h => h

theorem Steps.trans {data : Array Cls} {s s1 s2 : Sc} {a b : List Ev}
    (h1 : Steps data s a s1) (h2 : Steps data s1 b s2) : Steps data s (a ++ b) s2 := by
  intro tl h
  rw [List.append_assoc]
  exact h1 _ (h2 _ h)

theorem Steps.emits {data : Array Cls} {s s1 : Sc} {a b : List Ev}
    (h1 : Steps data s a s1) (h2 : Emits data s1 b) : Emits data s (a ++ b) := h1 _ h2

theorem processFound_finds {data : Array Cls} {s s' : Sc} {t : LexT} {e : Ev}
    (h : processFound data s t = .ok (s', e)) : s'.finds = s.finds ∧ s'.index = s.index := by
  unfold processFound at h
  simp only [] at h
  split at h
  · cases h; exact ⟨rfl, rfl⟩
  · split at h
    · cases h; exact ⟨rfl, rfl⟩
    · split at h
      · cases h
      · split at h
        · cases h; exact ⟨rfl, rfl⟩
        · split at h
          · cases h; exact ⟨rfl, rfl⟩
          · cases h

/-- a queued lexeme is delivered -/
theorem Steps.shift {data : Array Cls} {s s' : Sc} {t : LexT} {rest : List LexT} {e : Ev}
    (hf : s.finds = t :: rest) (hp : processFound data { s with finds := rest } t = .ok (s', e)) :
    Steps data s [e] s' := by
  have hn : NextOk data s (some (s', e)) := by
    refine ⟨1, by omega, ?_⟩
    rw [next_succ]
    unfold nextBody shiftFound
    rw [hf]
    simp only [bind, Except.bind, hp]
    rfl
  intro tl h
  exact Emits.cons hn h

/-- one byte is read (whatever it queues) -/
theorem Steps.read {data : Array Cls} {s s1 : Sc} {c : Cls}
    (hf : s.finds = []) (hc : data[s.index]? = some c)
    (hd : dispatch 8 s.step { s with index := s.index + 1 } c data[s.index + 1]? data[s.index + 1 + 1]? = .ok s1)
    (hi : s1.index = s.index + 1) : Steps data s [] s1 := by
  obtain ⟨hlt, hget⟩ := Array.getElem?_eq_some_iff.mp hc
  have hbang : data[s.index]! = c := by rw [getElem!_pos data s.index hlt]; exact hget
  have key : ∀ nf r, 1 ≤ nf → next data nf s1 = .ok r → next data (nf + 1) s = .ok r := by
    intro nf r h1 hn
    rw [next_succ]
    unfold nextBody
    have hs : shiftFound data s = .ok none := by unfold shiftFound; rw [hf]; rfl
    rw [hs]
    simp only [hlt, if_true, hbang, hd]
    obtain ⟨m, rfl⟩ : ∃ m, nf = m + 1 := ⟨nf - 1, by omega⟩
    rw [next_succ] at hn
    unfold nextBody at hn
    cases h3 : shiftFound data s1 with
    | error e => rw [h3] at hn; cases hn
    | ok o =>
      rw [h3] at hn
      cases o with
      | some p => exact hn
      | none =>
        simp only []
        rw [next_succ]
        unfold nextBody
        rw [h3]
        exact hn
  have lift : ∀ r, NextOk data s1 r → NextOk data s r := by
    intro r ⟨nf, hb, hn⟩
    have h1 : 1 ≤ nf := by
      cases nf with
      | zero => rw [next_zero] at hn; cases hn
      | succ n => omega
    exact ⟨nf + 1, by rw [hi] at hb; omega, key nf r h1 hn⟩
  intro tl h
  cases h with
  | nil hn => exact Emits.nil (lift _ hn)
  | cons hn h' => exact Emits.cons (lift _ hn) h'

/-- deliver a list of queued lexemes -/
def drainL (data : Array Cls) : List LexT → Sc → M (Sc × List Ev)
  | [], s => pure (s, [])
  | t :: rest, s =>
    match processFound data { s with finds := rest } t with
    | .error e => .error e
    | .ok (s', e) =>
      match drainL data rest s' with
      | .error e => .error e
      | .ok (s'', es) => .ok (s'', e :: es)

theorem Steps.drain {data : Array Cls} : ∀ (fs : List LexT) (s s' : Sc) (evs : List Ev),
    s.finds = fs → drainL data fs s = .ok (s', evs) → Steps data s evs s'
  | [], s, s', evs, _, h => by
    simp only [drainL, pure, Except.pure] at h
    cases h
    exact Steps.refl data s
  | t :: rest, s, s', evs, hf, h => by
    simp only [drainL] at h
    cases hp : processFound data { s with finds := rest } t with
    | error e => rw [hp] at h; cases h
    | ok p =>
      obtain ⟨s1, e⟩ := p
      rw [hp] at h
      simp only [] at h
      cases hd : drainL data rest s1 with
      | error e => rw [hd] at h; cases h
      | ok q =>
        obtain ⟨s2, es⟩ := q
        rw [hd] at h
        simp only [] at h
        have h1 := Steps.shift hf hp
        have h2 := Steps.drain rest s1 s2 es (processFound_finds hp).1 hd
        cases h
        exact Steps.trans h1 h2

/-- one byte: dispatch, then deliver everything it queued -/
theorem Steps.byte {data : Array Cls} {s s1 s2 : Sc} {c : Cls} {evs : List Ev}
    (hf : s.finds = []) (hc : data[s.index]? = some c)
    (hd : ∀ p1 p2, dispatch 8 s.step { s with index := s.index + 1 } c p1 p2 = .ok s1)
    (hi : s1.index = s.index + 1)
    (hdr : drainL data s1.finds s1 = .ok (s2, evs)) : Steps data s evs s2 := by
  have h1 := Steps.read hf hc (hd _ _) hi
  have h2 := Steps.drain s1.finds s1 s2 evs rfl hdr
  exact Steps.trans h1 h2

/-- end of input with nothing open -/
theorem Emits.done {data : Array Cls} {s : Sc} (hf : s.finds = []) (hi : data.size ≤ s.index) (hs : s.stack = []) :
    Emits data s [] := by
  refine Emits.nil ⟨1, by omega, ?_⟩
  rw [next_succ]
  unfold nextBody shiftFound eofStep
  rw [hf, hs]
  simp only [show ¬ s.index < data.size by omega, if_false]
  rfl

/-- end of input right after a top-level scalar: the literal is closed -/
theorem Emits.eofLit {data : Array Cls} {s : Sc} {b : Nat} (hf : s.finds = []) (hi : data.size ≤ s.index)
    (hs : s.stack = [(.litB, b)]) (hu : s.unf = false) :
    Emits data s [⟨.litE, b, s.index - 1⟩] := by
  have hn : NextOk data s (some ({ s with index := s.index + 1, stack := [] }, ⟨.litE, b, s.index - 1⟩)) := by
    refine ⟨1, by omega, ?_⟩
    rw [next_succ]
    unfold nextBody shiftFound eofStep
    rw [hf]
    simp only [show ¬ s.index < data.size by omega, if_false]
    obtain ⟨step, ret, stack, ctxStack, ctx, finds, index, ann, unf, lc, bq, al, ht⟩ := s
    simp only at hs hu
    subst hs hu
    rfl
  exact Emits.cons hn (Emits.done hf (by simp only; omega) rfl)

/-! ### input segments -/

/-- the input holds `seg` at offset `o` -/
def At (data : Array Cls) : Nat → List Cls → Prop
  | _, [] => True
  | o, c :: cs => data[o]? = some c ∧ At data (o + 1) cs

theorem At_append (data : Array Cls) : ∀ (a b : List Cls) (o : Nat),
    At data o (a ++ b) ↔ At data o a ∧ At data (o + a.length) b
  | [], b, o => by simp [At]
  | c :: a, b, o => by
    simp only [List.cons_append, At, List.length_cons, At_append data a b (o + 1), and_assoc]
    rw [show o + 1 + a.length = o + (a.length + 1) by omega]

theorem At_toArray (l : List Cls) : ∀ (pre seg : List Cls), l = pre ++ seg → At l.toArray pre.length seg
  | pre, [], _ => trivial
  | pre, c :: cs, h => by
    refine ⟨?_, ?_⟩
    · subst h; simp
    · have := At_toArray l (pre ++ [c]) cs (by simp [h])
      simpa using this

end SchemaScan
