import JSight.Links
/-!
# C09 — specification of "the type names a schema references" (core Lean only)

Written from the property text, independently of any traversal: a name is referenced by a schema iff it
occurs in one of the reference positions of one of its nodes.
-/
namespace LK

/-- `RefsN s n`: the schema text `s` references the user type `n` -/
inductive RefsN : N → String → Prop
  /-- `1 // {type: "@n"}` -/
  | litType (jt : JT) (n : String) (e : Option String) : RefsN (.lit jt (.typ n) e) n
  /-- `1 // {or: [… "@n" …]}` or `{or: [… {type: "@n"} …]}` -/
  | litOr (jt : JT) (ms : List Mem) (n : String) (e : Option String) : Mem.user n ∈ ms → RefsN (.lit jt (.orr ms) e) n
  /-- `@n`, `@a | @n` -/
  | ref (names : List String) (n : String) : n ∈ names → RefsN (.ref names) n
  /-- inside an array item -/
  | item (items : List N) (x : N) (n : String) : x ∈ items → RefsN x n → RefsN (.arr items) n
  /-- `{allOf: "@n"}`, `{allOf: [… "@n" …]}` -/
  | allOf (ao : List String) (ap : Option String) (ps : List (String × Bool × N)) (n : String) :
      n ∈ ao → RefsN (.obj ao ap ps) n
  /-- `{additionalProperties: "@n"}` -/
  | addp (ao : List String) (ps : List (String × Bool × N)) (n : String) : RefsN (.obj ao (some n) ps) n
  /-- key shortcut `@n: value` -/
  | key (ao : List String) (ap : Option String) (ps : List (String × Bool × N)) (n : String) (v : N) :
      (n, true, v) ∈ ps → RefsN (.obj ao ap ps) n
  /-- inside a property value -/
  | prop (ao : List String) (ap : Option String) (ps : List (String × Bool × N)) (k : String) (sc : Bool) (v : N)
      (n : String) : (k, sc, v) ∈ ps → RefsN v n → RefsN (.obj ao ap ps) n

/-- the name is in the type table -/
def InTable (g : G) (n : String) : Prop := ∃ body, lookup g n = some body

/-- referenced anywhere: in the root schema or in the body of a type of the table — whether that type is itself
referenced or not (`CheckRootSchema` walks every type of the table) -/
def Refs (g : G) (n : String) : Prop :=
  RefsN g.root n ∨ ∃ t body, lookup g t = some body ∧ RefsN body n

/-- every referenced user type was added -/
def Resolved (g : G) : Prop := ∀ n, Refs g n → InTable g n

/-- the textbook "keep the first occurrence" -/
def dedupFirst : List String → List String
  | [] => []
  | x :: xs => x :: (dedupFirst xs).filter (· != x)

mutual
/-- every mention of a user type in the text, in the order `UsedUserTypes` meets them: pre-order over the nodes;
at an object first the `allOf` parents, then `additionalProperties`, then for each property in source order its key
(when it is a key shortcut) and its value -/
def mentions : N → List String
  | .lit _ tl _ => tl.userNames
  | .ref names => names
  | .arr items => mentionsItems items
  | .obj ao ap ps => ao ++ ap.toList ++ mentionsProps ps
def mentionsItems : List N → List String
  | [] => []
  | x :: xs => mentions x ++ mentionsItems xs
def mentionsProps : List (String × Bool × N) → List String
  | [] => []
  | (k, sc, v) :: ps => (if sc then [k] else []) ++ mentions v ++ mentionsProps ps
end

end LK
