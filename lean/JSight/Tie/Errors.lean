import JSight.Generated.ErrorTable

/-!
# C07, part 1 — message templates and argument lists agree (tie to the generated table)

`JSight.Generated.ErrorTable` is regenerated from the library's current source by
`vh tgen-errors` (go/parser based extractor, see /verif/harness/x/tgenerrors).
The theorems below are closed by kernel evaluation over that table; they fail to
compile as soon as a construction site and its template disagree, a code has no
template, or the extractor met a flow of an error code it could not attribute to
a constant (`unresolved`).

Runtime meaning (errors/format.go, errors/code.go): `Errorf.Error()` panics with
"Invalid error message" unless the number of `%s`/`%q` of the template equals the
number of arguments given to `errors.Format`; `ErrorCode.Error()` (a bare code used
as an error value) panics unless the template has no placeholder; both panic with
"Unknown error code" for a code without template.
-/

namespace Gen

/-- number of placeholders of the template of `code`, if it has one -/
def placeholders (code : String) : Option Nat := (templates.find? (·.1 == code)).map (·.2)

/-- every `errors.Format(code, args…)` site (direct, through a wrapper function, through a struct field)
passes exactly as many arguments as the template of its code has placeholders -/
theorem C07_format_sites : ∀ s ∈ formatSites, placeholders s.2.2.1 = some s.2.2.2 := by decide +kernel

/-- every bare use of an error code as an error value has a placeholder-free template -/
theorem C07_bare_sites : ∀ s ∈ bareSites, placeholders s.2.2 = some 0 := by decide +kernel

/-- every declared error code has a template -/
theorem C07_every_code_has_template : ∀ c ∈ codes, (placeholders c).isSome = true := by decide +kernel

/-- every template belongs to a declared error code -/
theorem C07_templates_are_codes : ∀ t ∈ templates, t.1 ∈ codes := by decide +kernel

/-- the extractor attributed every flow of an error code to a constant (it fails closed into `unresolved`) -/
theorem C07_nothing_unresolved : unresolved = [] := by decide +kernel

end Gen
