import JSight.Generated.KindMatrix
import JSight.Rules
/-!
Tie for C01 / C02, kind admissibility: the verdict of the real `Validate` on every scalar example kind ×
nullable flag × document token (regenerated on every run by executing the code) equals the Lean model
`Rules.litOK` — same kind; an integer where the example is a float; `null` only where the example is null or
nullable; `1.0` is a float and `2e0` an integer (normalised expansion without fractional digits).
-/
namespace Gen
open Rules

def kindOfName : String → Kind
  | "i" => .i | "f" => .f | "s" => .s | "b" => .b | _ => .n

def rowOK (r : String × Bool × String × Bool) : Bool :=
  litOK { kind := kindOfName r.1, nul := r.2.1 } r.2.2.1 == r.2.2.2

/-- every row of the regenerated matrix is what the model answers -/
theorem C01_kind_matrix : kindMatrix.all rowOK = true := by decide +kernel

/-- the matrix is the full product: 5 example kinds x 2 x 12 document tokens -/
theorem C01_kind_matrix_size : kindMatrix.length = 120 := by decide +kernel

end Gen
