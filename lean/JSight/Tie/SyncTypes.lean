/-!
Row types of the regenerated synchronisation facts (`JSight/Generated/SyncFacts.lean`, written by
`vh tgen-sync` from the Go source on every run). Hand-written, core Lean only; the meaning of every
column is documented in `harness/x/tgensync/*.go` and summarised in `JSight/Tie/Sync.lean`.
-/
namespace Gen

/-- F1: a `sync.Once`-like cell that is a field of a library type -/
structure OnceCell where
  ty : String
  cell : String
  /-- fields written only inside this cell's function -/
  lazyFields : Nat
  /-- exported methods of the type that go through the cell -/
  users : Nat
deriving DecidableEq, Repr

/-- F1: entry point `method` of `ty`'s package touches `cell` (calls its `Do` or reads a field computed under it);
`guarded`: every such read is dominated by a completed (or running) `Do` of the cell on the same object -/
structure OnceGuard where
  ty : String
  method : String
  cell : String
  guarded : Bool
deriving DecidableEq, Repr

/-- F1: an exported method of a type with once cells; `writesOutsideOnce`: it stores into a field of the
type outside every once function -/
structure OnceWrite where
  ty : String
  method : String
  writesOutsideOnce : Bool
deriving DecidableEq, Repr

/-- F1: a method of a once-cell wrapper taking a function; `fnOnlyInsideInner`: the function is used only inside
the inner cell's `Do` -/
structure OnceWrapper where
  ty : String
  method : String
  fnOnlyInsideInner : Bool
deriving DecidableEq, Repr

/-- F2: a function that takes an object out of a `sync.Pool` -/
structure PoolUse where
  pkg : String
  fn : String
  pool : String
  putsBack : Bool
  /-- puts the object back and a returned expression may alias its memory -/
  returnsAlias : Bool
  /-- reachable from the public API in the static call graph -/
  live : Bool
deriving DecidableEq, Repr

/-- F3: an exported method of a lock-bearing container (or of the generator template) -/
structure LockedMethod where
  ty : String
  method : String
  lockKind : String
  deferred : Bool
  released : Bool
  writes : Bool
  writesUnderWriteLock : Bool
  callbackUnder : String
  callsLocking : Bool
  /-- iterates the Go map field instead of the order slice -/
  rangesOverMap : Bool
deriving DecidableEq, Repr

/-- F4: a `for … range <map>` site -/
structure MapRange where
  pkg : String
  fn : String
  ordinal : Nat
  /-- "free" | "sorted" | "other" -/
  cls : String
deriving DecidableEq, Repr

end Gen
