import JSight.Generated.PanicFacts

/-!
# C07, part 4 — the panic / recover discipline above the scanners (static half)

`JSight.Generated.PanicFacts` is regenerated from the library's current source by `vh tgen-panics`
(go/parser + go/types, nothing executed; `harness/x/tgenpanics`). The library reports most errors by
`panic(<error value>)` deep inside loader / compiler / checker / validator and converts them back into a returned
error at the API boundary (`defer func() { err = panics.Handle(recover(), err) }()`, the hand-written blocks of
`formats/json`). `panics.Handle` and the blocks of `formats/json` RE-PANIC a recovered value that is not an
`error`: a panic with a string inside the library leaves the API as a raw panic unless an interior handler
(`lexeme.CatchLexEventError`, `mixedChecker.Check`, …) has converted it on the way up. The tables:

* P1 `panicSites`   every call of the builtin `panic`, with the static type of its argument;
* P2 `recoverSites` every function with a deferred recover handler and the handler's outcome per kind of value,
                    obtained by executing the handler symbolically once for a non-error value, once for every error type
                    of the library and once for a foreign error;
* P3 `entries`      the exported methods of `jschema.Schema`, `json.Document`, `enum.Enum`, `regex.Schema`, the
                    exported functions of their packages, `kit.ConvertError`, `fs.NewFile`: is the body guarded;
* P4 `nonErrorPanicReach`  for every non-error panic site: from which entries it is reachable in a conservative
                    call graph (static calls, interface calls → every implementation, function values → every
                    candidate by signature, fmt → Error / String of its operands), and from which of them without
                    passing below a handler that converts non-errors;
* P5 `errorEscapes` error-typed panic sites reachable from an entry with no handler in between that returns errors.

What the theorems below say when they compile: the discipline has not changed since the review recorded in the
tables of this file. What they do NOT say: that no panic can escape - run-time panics of the language (index out of
range, nil dereference) are `runtime.Error` values, which the boundary handlers return as errors where there is a
handler and which escape where there is none (the enum rule, the regex type, `Document.Check`: these report by
returned errors and have no handler); the scanners' share of that is C07 parts 2-3 (theorems over the models), the
rest is explored by `api-fuzz` and `c07-entries`.
-/

namespace Gen

/-! ## the extractor's own health -/

/-- the library type-checked from source without an error and the call graph resolved every call in the live packages -/
theorem Panics_source_type_checked : panicTypeErrorCount = 0 ∧ unresolvedCalls = [] := by decide +kernel

/-- the graph is not empty and sees the packages part 4 is about -/
theorem Panics_source_type_checked_nonempty :
    900 ≤ graphNodes ∧ 2500 ≤ graphEdges ∧
    ["errors", "formats/json", "internal/lexeme", "internal/panics", "internal/sync", "kit", "notations/jschema",
     "notations/jschema/internal/checker", "notations/jschema/internal/loader", "notations/jschema/internal/scanner",
     "notations/jschema/internal/schema", "notations/jschema/internal/schema/constraint",
     "notations/jschema/internal/validator", "notations/regex", "rules/enum"].all (livePackages.contains ·) = true := by
  decide +kernel

/-! ## P3 — entries -/

/-- REVIEWED entries that call into the library without a recover handler above every call (type, method, reason).
Every explicit panic site that is statically reachable from them without a handler is a row of P4 / P5 and is
reviewed there; what is recorded here is why the entry needs no handler of its own. -/
def reviewedEntries : List (String × String × String) := [
  ("fs", "NewFile",
    "normalizeFileContent's type switch covers the three types of the constraint FileContent (string | bytes.Bytes | []byte); the panic behind it is for a future fourth type"),
  ("formats/json", "New", "fs.NewFile, see there; FromFile only stores the file and creates the scanner (panic-free)"),
  ("notations/jschema", "New", "fs.NewFile, see there; FromFile only stores the file and applies the options (panic-free)"),
  ("notations/regex", "New", "fs.NewFile, see there"),
  ("rules/enum", "New", "fs.NewFile, see there"),
  ("formats/json.Document", "Check",
    "every scanner step runs inside Document.nextLexeme, which has its own handler; outside it check() only builds DocumentError(ErrEmptyJson), whose template has no placeholder (C07_bare_sites)"),
  ("kit", "ConvertError",
    "reads fields of the error and calls Error() of an ErrorCode / Errorf (templates agree: C07_bare_sites, C07_format_sites); the fall-through builds a DocumentError from fmt.Sprintf(\"%s\", err), which calls err.Error() of the caller's error"),
  ("notations/jschema.Schema", "AddRule",
    "calls r.Check() of the rule it is given before storing it: enum.Enum.Check, see there (a rule implemented by the caller is the caller's code)"),
  ("notations/regex.Schema", "Check", "doCompile reports by returned errors: byte loop over the content, regexp.Compile, DocumentError from Format(code, QuoteChar / content) (C07_format_sites)"),
  ("notations/regex.Schema", "Pattern", "compile() only, see regex.Schema.Check"),
  ("notations/regex.Schema", "Len", "compile() only, see regex.Schema.Check"),
  ("notations/regex.Schema", "GetAST", "compile() only, see regex.Schema.Check"),
  ("notations/regex.Schema", "Example", "compile(), then the third-party generator reggen on a pattern that regexp.Compile accepted (opaque to the call graph: explored by api-fuzz / c07-entries)"),
  ("rules/enum.Enum", "Check", "the enum scanner reports by returned errors and contains no panic call; its stack discipline (ds.Stack Peek / Pop / Get never on a short stack) is C07_enum_no_crash"),
  ("rules/enum.Enum", "Len", "the enum scanner in length mode: C07_enum_len_no_crash"),
  ("rules/enum.Enum", "Values", "compile() only, see enum.Enum.Check"),
  ("rules/enum.Enum", "GetAST", "compile(), then a loop over the collected values that calls only String / ToTokenType of root-package types")]

def entryReviewed (e : Entry) : Bool := reviewedEntries.any (fun r => r.1 == e.ty && r.2.1 == e.method)

/-- every public entry that calls into the library installs a recover handler before its first call that is not safe, or
delegates every call to a callee that does (a guarded function, a once cell around a guarded closure) or that
cannot reach a panic - or is one of the reviewed entries that report by returned errors -/
theorem C07_entries_guarded :
    entries.all (fun e => !e.callsLibrary || e.guarded || entryReviewed e) = true := by decide +kernel

/-- the entries the property names that must be found GUARDED (the whole `jschema.Schema` surface except AddRule,
the lexeme stream and the length of a document) -/
def expectedGuardedEntries : List (String × String) := [
  ("notations/jschema.Schema", "Check"), ("notations/jschema.Schema", "Validate"), ("notations/jschema.Schema", "Example"),
  ("notations/jschema.Schema", "GetAST"), ("notations/jschema.Schema", "UsedUserTypes"), ("notations/jschema.Schema", "Len"),
  ("notations/jschema.Schema", "AddType"), ("notations/jschema.Schema", "Build"),
  ("formats/json.Document", "NextLexeme"), ("formats/json.Document", "Len")]

/-- completeness: the expected entries are there, guarded and call the library; every reviewed entry still exists;
the inventory has the expected size (4 object types + constructors and options + `kit.ConvertError`, `fs.NewFile`) -/
theorem C07_entries_guarded_nonempty :
    expectedGuardedEntries.all (fun x => entries.any (fun e => e.ty == x.1 && e.method == x.2 && e.guarded && e.callsLibrary)) = true ∧
    reviewedEntries.all (fun r => entries.any (fun e => e.ty == r.1 && e.method == r.2.1)) = true ∧
    ["notations/jschema.Schema", "formats/json.Document", "rules/enum.Enum", "notations/regex.Schema"].all
      (fun t => entries.any (fun e => e.ty == t && e.method == "Check")) = true ∧
    36 ≤ entries.length := by decide +kernel

/-! ## P1 — panic values -/

/-- REVIEWED panic sites whose value is a string: (package, first string literal of the argument, why the site is an
internal invariant, dynamic evidence, `convertedEverywhere`). They are compared by package and message, not by
function name. `convertedEverywhere = true`: the review relies on the site lying below a converting handler on
EVERY path from an entry, so P4 must show `unconverted = []` for it. -/
def reviewedNonErrorPanics : List (String × String × String × String × Bool) := [
  ("errors", "The file is not specified",
    "DocumentError.preparation is reached through Line / SourceSubString only; String() (= Error()) calls them only under `e.file != nil`",
    "api-fuzz renders every error it gets (Error(), kit.ConvertError): no panic; c07-entries: 0", false),
  ("errors", "Not enough data to generate an error message from template: ",
    "ErrorCode.Error(): a bare code used as an error value has a placeholder-free template - theorem C07_bare_sites over the regenerated error table",
    "c07-entries / api-fuzz: 0 escaped panics", false),
  ("errors", "Unknown error code",
    "ErrorCode.Error() and Errorf.Error(): every declared code has a template - theorem C07_every_code_has_template; codes are constants, never computed",
    "c07-entries / api-fuzz: 0 escaped panics", false),
  ("errors", "Invalid error message: ",
    "Errorf.Error(): every errors.Format site passes as many arguments as its template has placeholders - theorem C07_format_sites",
    "c07-entries / api-fuzz: 0 escaped panics", false),
  ("formats/json", "Incorrect ending of the lexical event",
    "JSON scanner, closing tag against the lexeme stack: `.crash` outcome of the model, excluded for every byte string by C07_json_no_crash; model tied by json-tprod / json-diff",
    "json-exh, json-diff, api-fuzz: never observed", false),
  ("formats/json", "Empty set of found lexical event",
    "JSON scanner, shiftFound on an empty queue: `.crash` outcome of the model, excluded by C07_json_no_crash",
    "json-exh, json-diff, api-fuzz: never observed", false),
  ("fs", "Unhandled content type %T",
    "after a type switch that covers the whole type set of the constraint FileContent",
    "c07-entries calls NewFile / New with all three content types", false),
  ("internal/ds", "Reading a nonexistent element of the stack",
    "Stack.Get: used by the schema scanner's look-back into the lexeme stack; `.crash` outcome of the scanner models, excluded by C07_schema_no_crash / C07_enum_no_crash / C07_json_no_crash",
    "schema-diff, enum-diff, schema-tprod, api-fuzz: never observed", false),
  ("internal/ds", "Reading from empty stack",
    "Stack.Peek / Pop on an empty stack: `.crash` outcome of the three scanner models, excluded by the no_crash theorems; the validator's and the loader's stacks are pushed before they are read",
    "schema-diff, enum-diff, json-diff, api-fuzz: never observed", false),
  ("internal/json", "Node type can't be guessed by value (",
    "LiteralJsonType / JsonType on the text of a literal token a scanner has accepted. The schema and the enum scanners reject every exponent, so string, number, true, false, null, @name are all they pass on (enum: newEnumItem - the only caller that has NO handler above it). The DOCUMENT scanner accepts `0e1`, which internal/json does not recognise as a number (known finding K-C10-zeroexp): the site IS reached from Validate, below literalValidator.feed's CatchLexEventError, which converts the string into a DocumentError (code 0)",
    "REACHED by Validate(`1`, document `0e1`): returned error `ERROR: Node type can't be guessed by value (0e1)` (converted, no panic escapes; counted by c07-entries as known:K-C10-zeroexp). Exhaustive probe, all texts of length <= 4 over -0123456789.eE+ as enum item, schema and document (216 960 calls): 0 panics, 280 converted, all of the class -?0[eE]… and all from the document", false),
  ("internal/json", "Incorrect value",
    "Number.not(cmp) with cmp outside {-1, 0, 1}: cmp is the result of cmpAbs, which returns only those",
    "number-diff: never observed", true),
  ("internal/lexeme", "Unknown lexical event type",
    "stringer of the enumeration LexEventType: values are the declared constants (scanner `found` calls with constants only)",
    "never observed", false),
  ("notations/jschema/internal/scanner", "Method not allowed",
    "Scanner.Length is called by Schema.computeLen only, on a scanner created with the ComputeLength option",
    "c07-entries / c14-len call Schema.Len on every input", false),
  ("notations/jschema/internal/scanner", "Incorrect ending of the lexical event",
    "schema scanner, closing tag against the lexeme stack: `.crash` outcome of the model, excluded by C07_schema_no_crash; model tied by schema-tprod / schema-diff",
    "schema-diff, schema-tprod, api-fuzz: never observed", false),
  ("notations/jschema/internal/scanner", "Empty set of found lexical event",
    "schema scanner, shiftFound on an empty queue: `.crash` outcome of the model, excluded by C07_schema_no_crash",
    "schema-diff, schema-tprod, api-fuzz: never observed", false),
  ("notations/jschema/internal/scanner", "Unexpected context %q",
    "schema scanner, finishShortcut outside the four contexts: `.crash` outcome of the model, excluded by C07_schema_no_crash",
    "schema-diff, schema-tprod, api-fuzz: never observed", false),
  ("notations/jschema/internal/scanner", "Incorrect annotation begin in stack",
    "schema scanner, object end inside an annotation: `.crash` outcome of the model, excluded by C07_schema_no_crash",
    "schema-diff, schema-tprod, api-fuzz: never observed", false),
  ("notations/jschema/internal/schema", "Unexpected lexical event \"",
    "Grow of a literal / array / object / mixed-value node on an event the scanner's grammar does not produce in that position (C06_schema_events_of_tree); always below nodeLoader.Load's CatchLexEventError, which converts it into a DocumentError (P4: unconverted = [])",
    "c07-entries looks for the message inside every returned error text: 0; loader-diff: never observed", true),
  ("notations/jschema/internal/schema", "Can not create node from the lexical event \"",
    "NewNode is called on the four opening events only; below nodeLoader.Load's CatchLexEventError (P4: unconverted = [])",
    "c07-entries looks for the message inside every returned error text: 0", true),
  ("notations/jschema/internal/schema", "Schema key not found in index %d",
    "ObjectNode.Key(i) with i < len(Children()): keys and children of an object node grow together (AddChild / Grow); converted below the loader's and the compiler's handlers, reachable unconverted from Example() only (loop `for i := range node.Children()`)",
    "example-diff, c15, c07-entries (Example on every input): never observed", false),
  ("notations/jschema/internal/schema/constraint", "Unknown constraint type",
    "stringer of the enumeration constraint.Type: values are the declared constants",
    "never observed", false)]

def stringPanicReviewed (pkg msg : String) : Bool :=
  reviewedNonErrorPanics.any (fun r => r.1 == pkg && r.2.1 == msg)

/-- REVIEWED panic sites whose static type is neither an error nor a string: (package, function, type, reason) -/
def reviewedOtherPanics : List (String × String × String × String) := [
  ("notations/jschema/internal/checker", "checkSchema.checkLiteralNode", "errors.Error",
    "`panic(err)` with err of the interface type errors.Error (Filename / Position / Message / ErrCode / IncorrectUserType - it does not embed `error`); the value is the result of nodeChecker.Check, whose implementations (literalChecker, mixedChecker, enumChecker …) return a DocumentError, which is an error; below checkNode's CatchLexEventError, which would convert anything else (P4: unconverted = [])")]

def otherPanicReviewed (s : PanicSite) : Bool :=
  reviewedOtherPanics.any (fun r => r.1 == s.pkg && r.2.1 == s.fn && r.2.2.1 == s.ty)

/-- every `panic` of the library panics with a value whose static type implements `error`, or re-panics a recovered
value as it is, or is a reviewed internal-invariant panic - or sits in a package no public package imports
(`test`, mocks, the code generator) -/
theorem C07_panic_values_are_errors :
    panicSites.all (fun s => s.isError || s.origin == "repanic" || !s.live ||
      (s.origin == "string" && stringPanicReviewed s.pkg s.msg) || otherPanicReviewed s) = true := by decide +kernel

/-- completeness: the inventory has the size of the library's discipline (hundreds of error panics in loader,
compiler, checker, validator, constraints and the two panicking scanners), and it sees the string panics at all -/
theorem C07_panic_values_are_errors_nonempty :
    250 ≤ panicSites.length ∧ 200 ≤ (panicSites.filter (·.isError)).length ∧
    20 ≤ (panicSites.filter (fun s => !s.isError && s.origin == "string" && s.live)).length ∧
    4 ≤ (panicSites.filter (fun s => s.origin == "repanic")).length ∧
    ["formats/json", "notations/jschema/internal/scanner", "notations/jschema/internal/loader",
     "notations/jschema/internal/checker", "notations/jschema/internal/validator",
     "notations/jschema/internal/schema/constraint"].all
      (fun p => panicSites.any (fun s => s.pkg == p && s.isError)) = true := by decide +kernel

/-! ## P2 — recover handlers -/

/-- REVIEWED handlers that drop what they recover: (package, function, reason) -/
def reviewedSwallowers : List (String × String × String) := [
  ("notations/jschema/internal/checker", "getType",
    "lookup with a fallback: the first lookup (root table or nested table) panics with Format(ErrTypeNotFound) when the name is missing, the handler then tries the other table, whose panic propagates. Between the defer and the panic there are only map lookups and Schema.Type (an errors.Format panic): nothing else can be swallowed"),
  ("notations/jschema/internal/validator", "checkConstraint",
    "predicate `does the key satisfy the constraint`: MinLength / MaxLength / Regex / Enum .Validate report a violation by panicking with an errors.Format value, the handler turns any panic into `false`. A run-time panic inside a Validate would read as `key does not match` (a wrong verdict, not a crash): C03_key_shortcuts / sem-keys compare the verdicts")]

def swallowReviewed (r : RecoverSite) : Bool := reviewedSwallowers.any (fun v => v.1 == r.pkg && v.2.1 == r.fn)

/-- outcomes a handler may have for a recovered value that is not an error: it travels on unchanged ("repanic",
"pass"), it becomes an error value that is returned ("convert") or re-panicked ("convertRepanic"), or an error
that was already there wins ("prior": `panics.Handle(r, err)` with `err ≠ nil`) -/
def okNonError : List String := ["repanic", "pass", "convert", "convertRepanic", "prior"]

/-- outcomes a handler may have for a recovered error value -/
def okError : List String := ["return", "wrap", "wrapRepanic", "repanic", "pass", "prior"]

/-- every recover handler on a public path is installed before anything that is not safe runs in its function, and it never
drops what it recovers (no "swallow"), never re-panics a value that is not an error in place of an error
("repanicNonError", "panicOther"), never does something the interpreter could not follow ("unknown") - except
the two reviewed swallowers -/
theorem C07_recover_handlers_convert :
    recoverSites.all (fun r => !r.onPublicPath ||
      (r.first && !r.onNonError.isEmpty && !r.onError.isEmpty &&
        ((r.onNonError.all (okNonError.contains ·) && r.onError.all (okError.contains ·)) || swallowReviewed r))) = true := by
  decide +kernel

/-- the public packages whose handlers are the API boundary -/
def boundaryPkgs : List String := ["notations/jschema", "formats/json", "rules/enum", "notations/regex"]

/-- what the boundary handlers do, exactly: a recovered ERROR is returned (or an earlier error is kept), a recovered
NON-ERROR is re-panicked (or an earlier error is kept) - the boundary never converts a raw value, which is why P4 matters -/
theorem C07_boundary_handlers_return_errors :
    recoverSites.all (fun r => !boundaryPkgs.contains r.pkg ||
      (r.first && !r.onError.isEmpty && r.onError.all (["return", "prior"].contains ·) &&
       !r.onNonError.isEmpty && r.onNonError.all (["repanic", "prior"].contains ·))) = true := by decide +kernel

/-- completeness: the boundary handlers of the schema (Check, Validate, Example, AddType, the once closures of load
and compile, computeLen) and of the document (nextLexeme, computeLen) are found; the interior converters
(`CatchLexEventError` in loader, checker, validator) are found and do convert; the reviewed swallowers exist -/
theorem C07_recover_handlers_convert_nonempty :
    [("notations/jschema", "Schema.Check"), ("notations/jschema", "Schema.Validate"), ("notations/jschema", "Schema.Example"),
     ("notations/jschema", "Schema.AddType"), ("notations/jschema", "Schema.load"), ("notations/jschema", "Schema.compile"),
     ("notations/jschema", "Schema.computeLen"), ("formats/json", "Document.nextLexeme"), ("formats/json", "Document.computeLen")].all
      (fun x => recoverSites.any (fun r => r.pkg == x.1 && r.fn == x.2 && r.first && r.onPublicPath)) = true ∧
    ["notations/jschema/internal/loader", "notations/jschema/internal/checker", "notations/jschema/internal/validator"].all
      (fun p => recoverSites.any (fun r => r.pkg == p && r.onNonError == ["convertRepanic"])) = true ∧
    reviewedSwallowers.all (fun v => recoverSites.any (fun r => r.pkg == v.1 && r.fn == v.2.1 && r.onNonError == ["swallow"])) = true ∧
    25 ≤ recoverSites.length := by decide +kernel

/-! ## P4 — non-error panics and the entries -/

/-- a row of P4 is reviewed when its message is in the reviewed table WITH dynamic evidence -/
def leakReviewed (r : NonErrorReach) : Bool :=
  reviewedNonErrorPanics.any (fun v => v.1 == r.pkg && v.2.1 == r.msg && !v.2.2.2.1.isEmpty && !v.2.2.2.2)

/-- every panic site whose value is not an error is a re-panic of a recovered value, or cannot be reached from a
public entry without passing below a handler that converts non-errors, or is a reviewed internal-invariant site
with its dynamic evidence whose review does not rely on a converting handler above it -/
theorem C07_non_error_panics_unreachable_or_reviewed :
    nonErrorPanicReach.all (fun r => r.origin == "repanic" || r.unconverted.isEmpty ||
      (r.origin == "string" && leakReviewed r)) = true := by decide +kernel

/-- completeness: P4 has a row for every non-error site of P1; the reachability is not trivially empty (the scanners'
invariant panics are reachable from Check, the node builders' are reachable but always converted) -/
theorem C07_non_error_panics_unreachable_or_reviewed_nonempty :
    nonErrorPanicReach.length = (panicSites.filter (fun s => !s.isError)).length ∧
    nonErrorPanicReach.any (fun r => r.pkg == "notations/jschema/internal/scanner" &&
      r.unconverted.contains "notations/jschema.Schema.Check") = true ∧
    nonErrorPanicReach.any (fun r => r.pkg == "notations/jschema/internal/schema" && !r.reach.isEmpty &&
      r.unconverted.isEmpty) = true ∧
    nonErrorPanicReach.any (fun r => r.pkg == "formats/json" && r.origin == "string" &&
      r.unconverted.contains "formats/json.Document.NextLexeme") = true := by decide +kernel

/-! ## P5 — error panics and the entries without a handler -/

/-- REVIEWED error-typed panic sites that the call graph reaches from an entry without a handler in between:
(package, function, reason) -/
def reviewedErrorEscapes : List (String × String × String) := [
  ("notations/jschema/internal/schema/constraint", "AdditionalProperties.String",
    "artefact of the fmt rule: Errorf.Error() formats `args …interface{}` with fmt.Sprintf, so the graph lets it call the String method of every library type; a constraint is an argument of errors.Format only inside the schema compiler, which runs below Schema.load / Schema.compile's handler. json, regex and enum pass bytes, strings and quoted characters"),
  ("notations/jschema/internal/schema/constraint", "enumItemValue.String",
    "same artefact; enumItemValue is formatted by the constraint's own String(), inside the schema compiler")]

/-- every error-typed panic site that is reachable from a public entry lies below a handler that returns errors,
except the reviewed artefacts of the call graph's fmt rule -/
theorem C07_error_panics_caught :
    errorEscapes.all (fun e => reviewedErrorEscapes.any (fun v => v.1 == e.pkg && v.2.1 == e.fn)) = true := by decide +kernel

/-- completeness: the error panics are reachable at all (the library's normal error path) -/
theorem C07_error_panics_caught_nonempty : 200 ≤ reachableErrorSites := by decide +kernel

end Gen
