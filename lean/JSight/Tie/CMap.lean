import JSight.Generated.CMapUses
/-!
Tie for C08 (regenerated on every run from /repo's source by `vh tgen-cmap`): every call on a
constraint map is either an order-insensitive query (`Get`, `GetValue`, `Has`, `Len`, `Set`, `Delete`)
or one of the reviewed iteration sites below, each of which is order-insensitive *for the verdict*:
a key-wise `Filter`, an "every constraint passes" `Each`/`EachSafe`, or AST construction (where the
order is the point, C16). A new iteration over the map anywhere in the library breaks this theorem.
-/
namespace Gen

def orderInsensitive : List String := ["Get", "GetValue", "Has", "Len", "Set", "Delete"]

/-- reviewed iteration sites: (file, function, method, why it cannot make a verdict order-dependent) -/
def reviewedIterations : List (String × String × String × String) := [
  ("notations/jschema/internal/checker/check_schema.go", "checkCompatibilityOfConstraints", "Each",
    "verdict = every constraint is compatible with the node kind (RuleOrder.Prog.all); only the choice of the reported error follows the order"),
  ("notations/jschema/internal/loader/compiler_basic.go", "falseConstraints", "Filter",
    "key-wise predicate (RuleOrder.Prog.filter); correct since fix F-1 (C19)"),
  ("notations/jschema/internal/loader/embedded_loader_for_rule_or_value_rule_set.go", "makeTypeASTNode", "EachSafe",
    "builds the AST of an or rule-set member in written order (C16), no verdict"),
  ("notations/jschema/internal/schema/ast.go", "collectASTRules", "Each", "AST in written order (C16), no verdict"),
  ("notations/jschema/internal/validator/v_array.go", "feed", "EachSafe", "document validation: every array constraint must pass"),
  ("notations/jschema/internal/validator/v_object.go", "validateTypeRules", "EachSafe", "document validation: every key-type rule must pass"),
  ("notations/jschema/internal/validator/validate_literal_value.go", "ValidateLiteralValue", "EachSafe",
    "collects the keys, then every literal validator must pass")]

def okUse (u : String × String × String) : Bool :=
  orderInsensitive.contains u.2.2 || reviewedIterations.any (fun r => r.1 == u.1 && r.2.1 == u.2.1 && r.2.2.1 == u.2.2)

theorem C08_cmap_uses_reviewed : cmapUses.all okUse = true := by decide

/-- the extractor found the pipeline at all (guards against an empty table) -/
theorem C08_cmap_table_nonempty :
    cmapUses.contains ("notations/jschema/internal/loader/compiler_basic.go", "falseConstraints", "Filter") = true ∧
    cmapUses.contains ("notations/jschema/internal/schema/base_node.go", "AddConstraint", "Set") = true := by decide

end Gen
