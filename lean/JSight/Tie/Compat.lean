import JSight.Generated.CompatTable
/-!
Tie for C08, applicability: "every rule applies to the kind of node it annotates — numeric rules on
numbers, length and regex (and the string formats) on strings, item counts on arrays,
additionalProperties and allOf on objects". `applicable` is that table written from the statement;
`Gen.compatTable` is what `IsJsonTypeCompatible` of every constraint type of /repo's current tree
answers (executed through the `verif` hook on every run). `optional` is checked positionally ("only on
object properties") by the compiler, not by this predicate, and `enum` / `const` / `nullable` / `or` /
`type` / `any` are the kind-independent rules.
-/
namespace Gen

inductive Group | numeric | precision | stringy | items | objecty | scalarOnly | constLike | everywhere
  deriving DecidableEq, Repr

/-- which family a rule belongs to, as the statement groups them -/
def groupOf : String → Option Group
  | "min" | "max" | "exclusiveMinimum" | "exclusiveMaximum" => some .numeric
  | "precision" => some .precision
  | "minLength" | "maxLength" | "regex" | "email" | "uri" | "uuid" | "date" | "datetime" => some .stringy
  | "minItems" | "maxItems" => some .items
  | "additionalProperties" | "allOf" | "required-keys" => some .objecty
  | "enum" => some .scalarOnly
  | "const" => some .constLike
  | "nullable" | "optional" | "or" | "type" | "types" | "any" => some .everywhere
  | _ => none

/-- the applicability table of the statement -/
def applicable (rule ty : String) : Option Bool :=
  (groupOf rule).map fun g =>
    match g with
    | .numeric => ty == "integer" || ty == "float"
    | .precision => ty == "float"
    | .stringy => ty == "string"
    | .items => ty == "array"
    | .objecty => ty == "object"
    | .scalarOnly => ty == "string" || ty == "integer" || ty == "float" || ty == "boolean" || ty == "null" || ty == "mixed"
    | .constLike => ty != "object" && ty != "array"
    | .everywhere => true

/-- the code's per-constraint kind-compatibility predicate is the statement's table, for every rule and JSON kind -/
theorem C08_applicability_table : ∀ r ∈ compatTable, applicable r.1 r.2.1 = some r.2.2 := by decide +kernel

/-- the table covers every rule family -/
theorem C08_applicability_covers :
    (["min", "max", "exclusiveMinimum", "exclusiveMaximum", "precision", "minLength", "maxLength", "regex", "minItems",
      "maxItems", "additionalProperties", "allOf", "enum", "const", "nullable", "optional", "or", "type", "any",
      "email", "uri", "uuid", "date", "datetime"].all
      fun r => compatTable.any (fun row => row.1 == r)) = true := by decide +kernel

end Gen
