import JSight.Generated.CompatTable
import JSight.Checker
/-!
Tie for C04 (checker model): `CK.compat` — the `IsJsonTypeCompatible` table `checkCompatibilityOfConstraints` consults —
is what the constraints of /repo's current tree answer (`Gen.compatTable`, regenerated on every run by `vh tgen-compat`
through the hook `VerifCompatTable`), for all 26 constraint types × 9 JSON types.
-/
namespace Gen

/-- `constraint.Type.String()` ↦ `constraint.Type` -/
def ctyOfName : String → Option Nat
  | "minLength" => some 0 | "maxLength" => some 1 | "min" => some 2 | "max" => some 3
  | "exclusiveMinimum" => some 4 | "exclusiveMaximum" => some 5 | "precision" => some 6 | "type" => some 7
  | "types" => some 8 | "optional" => some 9 | "or" => some 10 | "required-keys" => some 11 | "email" => some 12
  | "minItems" => some 13 | "maxItems" => some 14 | "enum" => some 15 | "additionalProperties" => some 16
  | "allOf" => some 17 | "any" => some 18 | "nullable" => some 19 | "regex" => some 20 | "uri" => some 21
  | "date" => some 22 | "datetime" => some 23 | "uuid" => some 24 | "const" => some 25
  | _ => none

/-- `json.Type.String()` ↦ `json.Type` -/
def jtOfName : String → Option CK.JT
  | "unknown" => some .undefined | "object" => some .object | "array" => some .array | "string" => some .string
  | "integer" => some .integer | "float" => some .float | "boolean" => some .boolean | "null" => some .null
  | "mixed" => some .mixed
  | _ => none

def ckCompat (rule ty : String) : Option Bool :=
  match ctyOfName rule, jtOfName ty with
  | some c, some t => some (CK.compat c t)
  | _, _ => none

/-- the checker model's compatibility table is the code's, row by row -/
theorem C04_compat_table : ∀ r ∈ compatTable, ckCompat r.1 r.2.1 = some r.2.2 := by decide +kernel

/-- … and the regenerated table has a row for every constraint type and every JSON type -/
theorem C04_compat_table_complete :
    ((List.range 26).all fun c =>
      ["unknown", "object", "array", "string", "integer", "float", "boolean", "null", "mixed"].all fun t =>
        compatTable.any fun r => ctyOfName r.1 == some c && r.2.1 == t) = true := by decide +kernel

end Gen
