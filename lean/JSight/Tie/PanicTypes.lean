/-!
Row types of the regenerated panic / recover facts (`JSight/Generated/PanicFacts.lean`, written by
`vh tgen-panics` from the Go source on every run). Hand-written, core Lean only; the meaning of every
column is documented in `harness/x/tgenpanics/*.go` and summarised in `JSight/Tie/Panics.lean`.
-/
namespace Gen

/-- P1: a call of the builtin `panic` -/
structure PanicSite where
  /-- package directory relative to the module root -/
  pkg : String
  /-- enclosing declared function, `Recv.Name` or `Name` (a site inside a function literal belongs to the
  function the literal is written in) -/
  fn : String
  /-- static type of the argument -/
  ty : String
  /-- the static type implements `error` -/
  isError : Bool
  /-- "format" (`errors.Errorf`) | "documentError" | "errorCode" | "errorValue" (an interface that embeds
  `error`, `fmt.Errorf …`) | "string" (literal, concatenation, `fmt.Sprintf`) | "repanic" (the argument is the
  variable that holds a recovered value, or a type-asserted alias of it) | "other" -/
  origin : String
  /-- for "string": the first string literal of the argument -/
  msg : String
  /-- the package is in the import closure of the public packages -/
  live : Bool
deriving DecidableEq, Repr

/-- P2: a function, or a function literal written in it, whose body contains `defer h(…)` with a handler `h` that
calls `recover()` directly -/
structure RecoverSite where
  pkg : String
  /-- the declared function (`Recv.Name` or `Name`) -/
  fn : String
  /-- the defer statement is in the body of a function literal inside `fn` (the closure handed to a once cell) -/
  inLiteral : Bool
  /-- "inline", or the library function that calls `recover()` / receives its result -/
  handler : String
  /-- the defer is the function's first top-level recover defer and everything the function calls before it is
  safe (see `harness/x/tgenpanics/guard.go`) -/
  first : Bool
  /-- outcomes of the handler for a recovered value that is not an `error`
  (`harness/x/tgenpanics/handlers.go`): "repanic" | "pass" | "convert" | "convertRepanic" | "prior" | "swallow" |
  "repanicNonError" | "panicOther" | "return" | "unknown" -/
  onNonError : List String
  /-- union of the outcomes over every error type of the library and a foreign error:
  "return" | "wrap" | "wrapRepanic" | "repanic" | "pass" | "prior" | "swallow" | "panicOther" | "unknown" -/
  onError : List String
  /-- reachable from a public entry in the call graph -/
  onPublicPath : Bool
deriving DecidableEq, Repr

/-- P3: an exported method of a public object type (`ty` = "pkg.Type") or an exported function of a public
package (`ty` = "pkg") -/
structure Entry where
  ty : String
  method : String
  /-- every call before the body's first top-level recover defer (all calls, if there is none) is safe:
  panic-free callee, callee that is itself guarded, once cell around a guarded closure -/
  guarded : Bool
  /-- the body contains a call that is not a builtin, a conversion or a standard-library call -/
  callsLibrary : Bool
  /-- "own defer" | "guarded callees" | "no library call" | "unguarded" -/
  how : String
  /-- the calls that made `guarded` false (diagnostic, not compared) -/
  unsafeCalls : List String
deriving DecidableEq, Repr

/-- P4: a panic site whose value is not an `error` -/
structure NonErrorReach where
  pkg : String
  fn : String
  ty : String
  origin : String
  msg : String
  /-- entries ("ty.method") from which the site is reachable in the call graph -/
  reach : List String
  /-- entries from which it is reachable without passing below a recover handler whose every outcome for a
  non-error value is convert / convertRepanic / swallow / prior -/
  unconverted : List String
deriving DecidableEq, Repr

/-- P5: an error-typed panic site reachable from `entries` without passing below a recover handler whose every
outcome for an error value is return / wrap / prior / swallow -/
structure ErrorEscape where
  pkg : String
  fn : String
  ty : String
  origin : String
  entries : List String
deriving DecidableEq, Repr

end Gen
