import JSight.Tie.SyncOnce
import JSight.Tie.SyncPool
import JSight.Tie.SyncLocks
import JSight.Tie.SyncRanges
import JSight.Tie.SyncGlobals
import JSight.Tie.SyncHealth
/-!
# Tie for C11 / C12 / C19 — the protocol models' assumptions, read out of the Go source on every run

`JSight.Generated.SyncFacts` is rewritten by `vh tgen-sync` (harness/x/tgensync: go/parser + go/types over the
library's working tree, nothing executed). The theorems below are closed by `decide` over those finite tables, so
they are kernel-checked statements about the CURRENT source, and stop compiling when the source leaves the
discipline the protocol models assume. The theorems live in one module per fact family (`SyncOnce` F1, `SyncPool` F2,
`SyncLocks` F3, `SyncRanges` F4, `SyncGlobals` F5, `SyncHealth` the extractor's type-check) so that a broken family breaks only the checks of the properties
that lean on it; this module is the umbrella and the documentation. Which hypothesis of which protocol theorem each fact discharges:

* **F1 `onceGuards` → `Protocol.Once.run` / `Protocol.Race.step`** (`Props.C11.C11_once_stable`,
  `Props.C12.C12_once_exactly_once`): in the model the cached value is reachable only through `run` / `step`, i.e.
  every reader goes through the cell. `C12_every_lazy_read_guarded` says the same of the code: every read of a field
  that is computed inside a once function (`Schema.inner / astNode / usedUserTypes`, `Enum.values`,
  `regex.Schema.pattern`, `ErrOnce.err`, `ErrOnceWithValue.value / err`) is dominated, in every exported method and
  through the unexported helpers it calls, by a completed `Do` of that cell on the same object (a cell whose function
  runs another cell's wrapper on all paths implies it: compile ⇒ load).
* **F1 `onceWrites` → "after compilation the schema is only read"** (the informal hypothesis under which
  `C12_once_exactly_once` and `C12_pool_result_is_own` describe the whole object, `PostCompileReadOnly` in DESIGN §4
  C12): no exported method outside the set-up phase stores into a field of the object outside a once function.
  (Mutation of the node graph BEHIND `inner` is not visible to this table; it is what `c12-concurrent` exercises
  and where K-C12-allof lives.)
* **F1 `onceWrappers` → `Once.run` runs `f` at most once**: `ErrOnce.Do` / `ErrOnceWithValue.Do` hand their
  function to the inner `sync.Once` only and never call it directly.
* **F2 `poolUses` → `Protocol.Heap.example` (not `examplePinned`) and step `pc = 2` of `PoolRace.step`**
  (`Props.C11.C11_handed_out_stable`, `Props.C12.C12_pool_result_is_own`): the theorems are about the variant that
  hands out a fresh copy; `C11_no_pooled_alias_returned` says that no function reachable from the API returns an
  expression that may alias an object it puts back into a `sync.Pool` (`copyBytes(buf.Bytes())`, and the loader's
  `l.schema` is re-initialised by `reset()` before every `Put`).
* **F3 `lockedMethods` → methods are atomic steps** (the assumption under which the sequential refinement
  `Props.C19.C19_refines` speaks about concurrent histories — DESIGN §4 C19 `C19_interleaved` — and under which
  "concurrent use is free of data races" reduces to the mutex): every exported method of the three generated
  ordered maps and of the generator template takes `mx.Lock` / `mx.RLock` before it touches the receiver, releases
  it by `defer`, stores into `data` / `order` only under the write lock, and does not call another locking method of
  the same receiver.
* **F3 `otherLockedTypes`, F5 `globalWrites` → the models' state is all the shared state there is**: the once cells,
  the two pools and the three ordered maps are the only synchronised objects (`C12_no_other_mutex`), and no function
  outside `init` stores into a package-level variable (`C12_no_global_state`): results are a function of the
  objects passed in (C11 "history-independent"), and there is no shared location outside the models (C12).
* **F4 `mapRanges` → the permutation parameter of the models** (`Props.C11.C11_leaf_order_free`,
  `Props.C08.C08_verdict_perm`): a model may treat a Go map iteration as order-free only where the loop is; sites
  of class "free" / "sorted" are order-free by construction, every other site is in `reviewedRanges` with its reason.
-/
