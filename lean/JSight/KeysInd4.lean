import JSight.ATreeLoad4
import JSight.KeysInd3
/-! C15 / C13, raw keys: containers as values. -/
namespace AT.K
open SchemaScan (Cls classify Ev LexT St Ctx CK VCtx PV wsLoop cmtLoop nlSt nlAl keySt keyAl closersOf)
open SchemaScan.Len (ATok Tok TC arun astep aslot slotStep closePV noML isObjKey nlStep mlSlot pendOfK annLoop cxA endStOf
  renderAToks Complete endClosers)
open Loader (XNode xfresh Fold NK)
open Loader.K (LS dec)

/-- the annotation behind an opening bracket -/
theorem head_seg (an : Option (Gap × Annot)) (c : TC) (hst : c.st = .arrItemOrEmpty ∨ c.st = .objKeyOrEmpty)
    (hg : c.g = false) (hK : noML c.K = true) (ak : Bool) (pl : Nat) (ak1 : Bool) (pl1 : Nat)
    (hchk : headChk ak pl an = some (ak1, pl1)) (hak : ak = true → c.al = true) (hw : TokOK (headToks an))
    (L : List XNode) (x : XNode) (root : Option Nat) :
    ∃ c', Seg c (headToks an) c' ⟨L ++ [x], some L.length, some L.length, pl, root⟩
        ⟨L ++ [annX (an.map (·.2)) x], some L.length, some L.length, pl1, root⟩ ∧
      c'.st = c.st ∧ c'.K = c.K ∧ c'.CS = c.CS ∧ (ak1 = true → c'.al = true) := by
  match an, hchk, hw with
  | none, hchk, _ =>
    simp only [headChk, Option.some.injEq, Prod.mk.injEq] at hchk
    obtain ⟨rfl, rfl⟩ := hchk
    exact ⟨c, Seg.refl _ _, rfl, rfl, rfl, hak⟩
  | some (gh, a), hchk, hw =>
    simp only [headChk] at hchk
    have hloops : wsLoop c.st = true ∧ cmtLoop c.st = true ∧
        (bif Gap.hasNl gh then nlSt c.st else c.st) = c.st ∧ annLoop c.st = true := by
      rcases hst with h | h <;> rw [h] <;> cases Gap.hasNl gh <;> exact ⟨rfl, rfl, rfl, rfl⟩
    have hgk : gapAk false ak gh = ak := by simp [gapAk]
    obtain ⟨c', s, h1, h2, h3, h4⟩ := gap_ann_seg c gh a hw hloops.1 hloops.2.1 (by rw [hloops.2.2.1]; exact hloops.2.2.2)
      hg hK false (by simp) ak hak pl ak1 pl1 (by rw [hgk]; exact hchk) L x (some L.length) root
    exact ⟨c', s, by rw [h1, hloops.2.2.1], h2, h3, fun _ => h4⟩

theorem loads_end' (isObj : Bool) (i x y : Nat) (L0 : List XNode) (xa : XNode) (M : List XNode) (last : Option Nat)
    (pl : Nat) (root : Option Nat) (hk : xa.kind = (bif isObj then .obj else .arr)) (hw : xa.waiting = false)
    (par : Option Nat) (hpar : xa.parent = par) :
    Loads i [] [⟨(bif isObj then .objE else .arrE), x, y⟩] ⟨L0 ++ xa :: M, some L0.length, last, pl, root⟩
      ⟨L0 ++ xa :: M, par, last, pl, root⟩ := hpar ▸ loads_end isObj i x y L0 xa M last pl root hk hw

theorem value_arr (an : Option (Gap × Annot)) (its : AItems) (hi : ItemsStmt its) : ValueStmt (.arr an its) := by
  intro ctx hctx g K i CS cx al hK ak pl ak' pl' hchk hak hw L0 xa M last root hk hwt
  simp only [ATree.chk] at hchk
  simp only [ATree.toks] at hw
  obtain ⟨_, hw⟩ := tokOK_cons hw
  obtain ⟨hwh, hw⟩ := tokOK_append hw
  obtain ⟨hwi, _⟩ := tokOK_append hw
  have hkk : xa.kind = .arr ∨ xa.kind = .obj := by rw [hk]; exact ctxKind_cases ctx
  -- the opening bracket
  have s1 : Seg ⟨ctx.st, g, K, i, CS, cx, al⟩ [.lbrack]
      ⟨.arrItemOrEmpty, false, (.arrB, i) :: (ctx.pre i ++ K), i + 1, ctx.cx' cx :: CS, { ty := .array }, al⟩
      ⟨L0 ++ xa :: M, some L0.length, last, pl, root⟩
      ⟨(L0 ++ { xa with children := xa.children ++ [L0.length + 1 + M.length] } :: M) ++ [xfresh .arr (some L0.length)],
        some (L0.length + 1 + M.length), some (L0.length + 1 + M.length), pl + 1, root⟩ := by
    refine Seg.tok (t := .lbrack) (step_lbrack ctx g K i CS cx al) ?_ rfl
    rw [preEvs_eq ctx hctx]
    exact ((loads_pre ctx i i L0 xa M last pl root hk hwt).seq
      (loads_create i ⟨.arrB, i, i⟩ .arr rfl rfl L0 xa M last pl root hkk hwt)).mono _
  cases hh : headChk ak (pl + 1) an with
  | none => rw [hh] at hchk; simp at hchk
  | some r =>
    obtain ⟨ak1, pl1⟩ := r
    rw [hh] at hchk
    simp only at hchk
    cases hci : its.chk .first ak1 pl1 with
    | none => rw [hci] at hchk; simp at hchk
    | some pl2 =>
      rw [hci] at hchk
      simp only [Option.map_some, Option.some.injEq, Prod.mk.injEq] at hchk
      obtain ⟨rfl, rfl⟩ := hchk
      have hK1 := noML_push ctx .arrB (Or.inl rfl) i K hK
      obtain ⟨c2, s2, h2st, h2K, h2CS, h2al⟩ := head_seg an
        ⟨.arrItemOrEmpty, false, (.arrB, i) :: (ctx.pre i ++ K), i + 1, ctx.cx' cx :: CS, { ty := .array }, al⟩
        (Or.inl rfl) rfl hK1 ak (pl + 1) ak1 pl1 hh hak hwh
        (L0 ++ { xa with children := xa.children ++ [L0.length + 1 + M.length] } :: M) (xfresh .arr (some L0.length)) root
      obtain ⟨c3, last3, s3, h3st, h3K, h3CS⟩ := hi .first c2 h2st (by rw [h2K]; exact hK1) ak1 pl1 pl2 hci h2al hwi
        (L0 ++ { xa with children := xa.children ++ [L0.length + 1 + M.length] } :: M)
        (annX (an.map (·.2)) (xfresh .arr (some L0.length))) [] (some (L0.length + 1 + M.length)) root
        (by rw [annX_kind]; rfl) (by rw [annX_waiting]; rfl)
      simp only [zip_len] at s2 s3
      -- the closing bracket and the closing lexeme of the value
      obtain ⟨st3, g3, K3, i3, CS3, cx3, al3⟩ := c3
      simp only at h3st h3K h3CS
      rw [h2K] at h3K
      rw [h2CS] at h3CS
      subst h3K h3CS
      have s4 : Seg ⟨st3, g3, (.arrB, i) :: (ctx.pre i ++ K), i3, ctx.cx' cx :: CS, cx3, al3⟩ [.rbrack]
          ⟨(ctxCk ctx).aft, false, K, i3 + 1, CS, ctx.cx' cx, !cx3.arrayHasItem⟩
          ⟨(L0 ++ { xa with children := xa.children ++ [L0.length + 1 + M.length] } :: M) ++
              { annX (an.map (·.2)) (xfresh .arr (some L0.length)) with
                children := (annX (an.map (·.2)) (xfresh .arr (some L0.length))).children ++
                  its.idx (L0.length + 1 + M.length + 1 + ([] : List XNode).length) } ::
              ([] ++ its.nodesK (L0.length + 1 + M.length) (L0.length + 1 + M.length + 1 + ([] : List XNode).length)),
            some (L0.length + 1 + M.length), last3, pl2, root⟩
          ⟨L0 ++ { xa with children := xa.children ++ [L0.length + 1 + M.length] } :: (M ++
              ({ annX (an.map (·.2)) (xfresh .arr (some L0.length)) with
                children := (annX (an.map (·.2)) (xfresh .arr (some L0.length))).children ++
                  its.idx (L0.length + 1 + M.length + 1 + ([] : List XNode).length) } ::
              ([] ++ its.nodesK (L0.length + 1 + M.length) (L0.length + 1 + M.length + 1 + ([] : List XNode).length)))),
            some L0.length, last3, pl2, root⟩ := by
        refine Seg.tokClose (t := .rbrack) (step_rbrack st3 h3st g3 i _ i3 _ CS cx3 al3) rfl rfl
          (by rw [pre_eq ctx hctx]; exact close_ck _ false (ctxCk ctx) 0 i K _ CS _ _) (aft_notPV _) ?_ rfl
        rw [closers_eq]
        have l1 := (loads_end' false i3 i i3 (L0 ++ { xa with children := xa.children ++ [L0.length + 1 + M.length] } :: M)
          { annX (an.map (·.2)) (xfresh .arr (some L0.length)) with
                children := (annX (an.map (·.2)) (xfresh .arr (some L0.length))).children ++
                  its.idx (L0.length + 1 + M.length + 1 + ([] : List XNode).length) }
          ([] ++ its.nodesK (L0.length + 1 + M.length) (L0.length + 1 + M.length + 1 + ([] : List XNode).length))
          last3 pl2 root (by simp only [annX_kind]; rfl) (by simp only [annX_waiting]; rfl) (some L0.length)
          (by simp only [annX_parent]; rfl)).mono [93]
        simp only [zip_len, zip_snoc] at l1
        have l2 := (loads_post ctx i3 i (i3 + 1 - 1) L0 { xa with children := xa.children ++ [L0.length + 1 + M.length] }
          (M ++ ({ annX (an.map (·.2)) (xfresh .arr (some L0.length)) with
                children := (annX (an.map (·.2)) (xfresh .arr (some L0.length))).children ++
                  its.idx (L0.length + 1 + M.length + 1 + ([] : List XNode).length) } ::
              ([] ++ its.nodesK (L0.length + 1 + M.length) (L0.length + 1 + M.length + 1 + ([] : List XNode).length))))
          last3 pl2 root hk hwt).mono [93]
        simp only [zip_snoc]
        exact l1.seq l2
      refine ⟨⟨(ctxCk ctx).aft, false, K, i3 + 1, CS, ctx.cx' cx, !cx3.arrayHasItem⟩, last3, ?_, rfl, rfl, rfl,
        fun h => (by cases h), fun h => (by simp [ATree.hasB] at h)⟩
      have := s1.trans (s2.trans (s3.trans s4))
      simpa [ATree.toks, ATree.nodesKA, ATree.hasB, ATree.nodesK, annX_children, xfresh] using this

theorem value_obj (an : Option (Gap × Annot)) (ms : AMembers) (hi : MembersStmt ms) : ValueStmt (.obj an ms) := by
  intro ctx hctx g K i CS cx al hK ak pl ak' pl' hchk hak hw L0 xa M last root hk hwt
  simp only [ATree.chk] at hchk
  simp only [ATree.toks] at hw
  obtain ⟨_, hw⟩ := tokOK_cons hw
  obtain ⟨hwh, hw⟩ := tokOK_append hw
  obtain ⟨hwi, _⟩ := tokOK_append hw
  have hkk : xa.kind = .arr ∨ xa.kind = .obj := by rw [hk]; exact ctxKind_cases ctx
  -- the opening bracket
  have s1 : Seg ⟨ctx.st, g, K, i, CS, cx, al⟩ [.lbrace]
      ⟨.objKeyOrEmpty, false, (.objB, i) :: (ctx.pre i ++ K), i + 1, ctx.cx' cx :: CS, { ty := .object }, al⟩
      ⟨L0 ++ xa :: M, some L0.length, last, pl, root⟩
      ⟨(L0 ++ { xa with children := xa.children ++ [L0.length + 1 + M.length] } :: M) ++ [xfresh .obj (some L0.length)],
        some (L0.length + 1 + M.length), some (L0.length + 1 + M.length), pl + 1, root⟩ := by
    refine Seg.tok (t := .lbrace) (step_lbrace ctx g K i CS cx al) ?_ rfl
    rw [preEvs_eq ctx hctx]
    exact ((loads_pre ctx i i L0 xa M last pl root hk hwt).seq
      (loads_create i ⟨.objB, i, i⟩ .obj rfl rfl L0 xa M last pl root hkk hwt)).mono _
  cases hh : headChk ak (pl + 1) an with
  | none => rw [hh] at hchk; simp at hchk
  | some r =>
    obtain ⟨ak1, pl1⟩ := r
    rw [hh] at hchk
    simp only at hchk
    cases hci : ms.chk .first [] ak1 pl1 with
    | none => rw [hci] at hchk; simp at hchk
    | some pl2 =>
      rw [hci] at hchk
      simp only [Option.map_some, Option.some.injEq, Prod.mk.injEq] at hchk
      obtain ⟨rfl, rfl⟩ := hchk
      have hK1 := noML_push ctx .objB (Or.inr rfl) i K hK
      obtain ⟨c2, s2, h2st, h2K, h2CS, h2al⟩ := head_seg an
        ⟨.objKeyOrEmpty, false, (.objB, i) :: (ctx.pre i ++ K), i + 1, ctx.cx' cx :: CS, { ty := .object }, al⟩
        (Or.inr rfl) rfl hK1 ak (pl + 1) ak1 pl1 hh hak hwh
        (L0 ++ { xa with children := xa.children ++ [L0.length + 1 + M.length] } :: M) (xfresh .obj (some L0.length)) root
      obtain ⟨c3, last3, s3, h3st, h3K, h3CS⟩ := hi .first c2 h2st (by rw [h2K]; exact hK1) ak1 pl1 pl2
        (L0 ++ { xa with children := xa.children ++ [L0.length + 1 + M.length] } :: M)
        (annX (an.map (·.2)) (xfresh .obj (some L0.length))) (by rw [annX_keys]; exact hci) h2al hwi [] (some (L0.length + 1 + M.length)) root
        (by rw [annX_kind]; rfl) (by rw [annX_waiting]; rfl)
      simp only [zip_len] at s2 s3
      -- the closing bracket and the closing lexeme of the value
      obtain ⟨st3, g3, K3, i3, CS3, cx3, al3⟩ := c3
      simp only at h3st h3K h3CS
      rw [h2K] at h3K
      rw [h2CS] at h3CS
      subst h3K h3CS
      obtain ⟨al4, hstep⟩ := step_rbrace st3 h3st g3 i (ctx.pre i ++ K) i3 (ctx.cx' cx) CS cx3 al3
      have s4 : Seg ⟨st3, g3, (.objB, i) :: (ctx.pre i ++ K), i3, ctx.cx' cx :: CS, cx3, al3⟩ [.rbrace]
          ⟨(ctxCk ctx).aft, false, K, i3 + 1, CS, ctx.cx' cx, al4⟩
          ⟨(L0 ++ { xa with children := xa.children ++ [L0.length + 1 + M.length] } :: M) ++
              { annX (an.map (·.2)) (xfresh .obj (some L0.length)) with
                children := (annX (an.map (·.2)) (xfresh .obj (some L0.length))).children ++
                  ms.idx (L0.length + 1 + M.length + 1 + ([] : List XNode).length),
                keys := (annX (an.map (·.2)) (xfresh .obj (some L0.length))).keys ++ ms.rkeys } ::
              ([] ++ ms.nodesK (L0.length + 1 + M.length) (L0.length + 1 + M.length + 1 + ([] : List XNode).length)),
            some (L0.length + 1 + M.length), last3, pl2, root⟩
          ⟨L0 ++ { xa with children := xa.children ++ [L0.length + 1 + M.length] } :: (M ++
              ({ annX (an.map (·.2)) (xfresh .obj (some L0.length)) with
                children := (annX (an.map (·.2)) (xfresh .obj (some L0.length))).children ++
                  ms.idx (L0.length + 1 + M.length + 1 + ([] : List XNode).length),
                keys := (annX (an.map (·.2)) (xfresh .obj (some L0.length))).keys ++ ms.rkeys } ::
              ([] ++ ms.nodesK (L0.length + 1 + M.length) (L0.length + 1 + M.length + 1 + ([] : List XNode).length)))),
            some L0.length, last3, pl2, root⟩ := by
        refine Seg.tokClose (t := .rbrace) hstep rfl rfl
          (by rw [pre_eq ctx hctx]; exact close_ck _ false (ctxCk ctx) 0 i K _ CS _ _) (aft_notPV _) ?_ rfl
        rw [closers_eq]
        have l1 := (loads_end' true i3 i i3 (L0 ++ { xa with children := xa.children ++ [L0.length + 1 + M.length] } :: M)
          { annX (an.map (·.2)) (xfresh .obj (some L0.length)) with
                children := (annX (an.map (·.2)) (xfresh .obj (some L0.length))).children ++
                  ms.idx (L0.length + 1 + M.length + 1 + ([] : List XNode).length),
                keys := (annX (an.map (·.2)) (xfresh .obj (some L0.length))).keys ++ ms.rkeys }
          ([] ++ ms.nodesK (L0.length + 1 + M.length) (L0.length + 1 + M.length + 1 + ([] : List XNode).length))
          last3 pl2 root (by simp only [annX_kind]; rfl) (by simp only [annX_waiting]; rfl) (some L0.length)
          (by simp only [annX_parent]; rfl)).mono [125]
        simp only [zip_len, zip_snoc] at l1
        have l2 := (loads_post ctx i3 i (i3 + 1 - 1) L0 { xa with children := xa.children ++ [L0.length + 1 + M.length] }
          (M ++ ({ annX (an.map (·.2)) (xfresh .obj (some L0.length)) with
                children := (annX (an.map (·.2)) (xfresh .obj (some L0.length))).children ++
                  ms.idx (L0.length + 1 + M.length + 1 + ([] : List XNode).length),
                keys := (annX (an.map (·.2)) (xfresh .obj (some L0.length))).keys ++ ms.rkeys } ::
              ([] ++ ms.nodesK (L0.length + 1 + M.length) (L0.length + 1 + M.length + 1 + ([] : List XNode).length))))
          last3 pl2 root hk hwt).mono [125]
        simp only [zip_snoc]
        exact l1.seq l2
      refine ⟨⟨(ctxCk ctx).aft, false, K, i3 + 1, CS, ctx.cx' cx, al4⟩, last3, ?_, rfl, rfl, rfl,
        fun h => (by cases h), fun h => (by simp [ATree.hasB] at h)⟩
      have := s1.trans (s2.trans (s3.trans s4))
      simpa [ATree.toks, ATree.nodesKA, ATree.hasB, ATree.nodesK, annX_children, annX_keys, xfresh] using this


end AT.K
