import JSight.SchemaLenAnnStep
/-!
C14, annotated schemas: runs of the scanner model through blanks, names and tokens inside an annotation, for an
arbitrary `lengthComputing` flag, as `Path`s (`AnnotRun` restated; same proofs; the definitions are those of `AnnotRun`).
-/
namespace SchemaScan
namespace Len

variable {lc : Bool}


variable {data : Array Cls}

theorem cfgAL_byte {a : Ann} {st : St} {r : List St} {K : List (LexT × Nat)} {u : Bool} {i : Nat} {CS : List Ctx}
    {cx : Ctx} {al : Bool} {c : Cls} {s1 s2 : Sc} {evs : List Ev} (hc : data[i]? = some c)
    (hd : ∀ p1 p2, dispatch 8 st (cfgAL lc a st r K u (i + 1) CS cx al) c p1 p2 = .ok s1)
    (hi : s1.index = i + 1) (hdr : drainL data s1.finds s1 = .ok (s2, evs)) :
    Path data (cfgAL lc a st r K u i CS cx al) evs s2 :=
  Path.byte (s := cfgAL lc a st r K u i CS cx al) rfl hc hd hi hdr

theorem cfgAL_congr {a : Ann} {st : St} {r : List St} {K K' : List (LexT × Nat)} {u : Bool} {i i' : Nat}
    {CS : List Ctx} {cx : Ctx} {al : Bool} (hK : K = K') (hi : i = i') :
    cfgAL lc a st r K u i CS cx al = cfgAL lc a st r K' u i' CS cx al := by
  subst hK hi; rfl

/-! ### blanks inside an annotation -/

theorem aloop_sp (f : Nat) (a : Ann) (ha : a.isAnn = true) (st : St) (h : aLoop a st = true) (c : Cls)
    (hc : c.isSpTab = true) (r : List St)
    (K : List (LexT × Nat)) (i : Nat) (CS : List Ctx) (cx : Ctx) (al : Bool) (p1 p2 : Option Cls) :
    dispatch (f + 1) st (cfgAL lc a st r K false i CS cx al) c p1 p2 = .ok (cfgAL lc a st r K false i CS cx al) := by
  cases a <;> simp [Ann.isAnn] at ha <;> cases st <;> simp [aLoop, Ann.prefixSt, Ann.startSt] at h <;>
    cases c <;> simp [Cls.isSpTab] at hc <;> (unfold dispatch; rfl)

theorem aloop_nl (f : Nat) (st : St) (h : aLoop .multi st = true) (r : List St)
    (K : List (LexT × Nat)) (i : Nat) (CS : List Ctx) (cx : Ctx) (al : Bool) (p1 p2 : Option Cls) :
    dispatch (f + 1) st (cfgAL lc .multi st r K false i CS cx al) .nl p1 p2
      = .ok { cfgAL lc .multi (nlSt st) r K false i CS cx al with finds := [.newLine] } := by
  cases st <;> simp [aLoop, Ann.prefixSt, Ann.startSt] at h <;> (unfold dispatch; rfl)

theorem aLoop_nlSt {a : Ann} {st : St} (h : aLoop a st = true) : aLoop a (nlSt st) = true := by
  cases a <;> cases st <;> simp [aLoop, Ann.prefixSt, Ann.startSt] at h <;> rfl

theorem ABlank.head {a : Ann} {c : Cls} {ws : List Cls} (h : ABlank a (c :: ws)) : a.okBlank c = true := h c (by simp)
theorem ABlank.tail {a : Ann} {c : Cls} {ws : List Cls} (h : ABlank a (c :: ws)) : ABlank a ws :=
  fun x hx => h x (by simp [hx])

theorem okBlank_cases {a : Ann} {c : Cls} (h : a.okBlank c = true) : c.isSpTab = true ∨ (a = .multi ∧ c = .nl) := by
  simp only [Ann.okBlank, Bool.or_eq_true, Bool.and_eq_true, beq_iff_eq] at h
  exact h

theorem ablank_run (a : Ann) (ha : a.isAnn = true) : ∀ (ws : List Cls), ABlank a ws → ∀ (st : St), aLoop a st = true →
    ∀ (r : List St) (K : List (LexT × Nat)) (i : Nat) (CS : List Ctx) (cx : Ctx) (al : Bool), At data i ws →
    Path data (cfgAL lc a st r K false i CS cx al) (nlEvs i ws) (cfgAL lc a (wsSt st ws) r K false (i + ws.length) CS cx al)
  | [], _, st, _, r, K, i, CS, cx, al, _ => Path.refl _
  | c :: ws, hw, st, hl, r, K, i, CS, cx, al, hat => by
    obtain ⟨hc, hat'⟩ := hat
    rcases okBlank_cases hw.head with hs | ⟨rfl, rfl⟩
    · have ih := ablank_run a ha ws hw.tail st hl r K (i + 1) CS cx al hat'
      have h1 : Path data (cfgAL lc a st r K false i CS cx al) [] (cfgAL lc a st r K false (i + 1) CS cx al) :=
        cfgAL_byte hc (fun p1 p2 => aloop_sp 7 a ha st hl c hs r K (i + 1) CS cx al p1 p2) rfl rfl
      have := Path.trans h1 ih
      simp only [nlEvs, wsSt, if_neg (sptab_ne_nl hs), List.nil_append, List.length_cons]
      rw [show i + (ws.length + 1) = i + 1 + ws.length by omega]
      exact this
    · have ih := ablank_run .multi ha ws hw.tail (nlSt st) (aLoop_nlSt hl) r K (i + 1) CS cx al hat'
      have h1 : Path data (cfgAL lc .multi st r K false i CS cx al) [⟨.newLine, i, i⟩]
          (cfgAL lc .multi (nlSt st) r K false (i + 1) CS cx al) :=
        cfgAL_byte hc (fun p1 p2 => aloop_nl 7 st hl r K (i + 1) CS cx al p1 p2) rfl rfl
      have := Path.trans h1 ih
      simp only [nlEvs, wsSt, if_true, List.length_cons]
      rw [show i + (ws.length + 1) = i + 1 + ws.length by omega]
      exact this

/-! ### a rule: `blanks name spaces : blanks value` up to the last byte of the value -/

theorem name_run (a : Ann) : ∀ (n : List Cls), (∀ c ∈ n, c.isName = true) → ∀ (r : List St)
    (K : List (LexT × Nat)) (i : Nat) (CS : List Ctx) (cx : Ctx) (al : Bool), At data i n →
    Path data (cfgAL lc a .annKey r K false i CS cx al) [] (cfgAL lc a .annKey r K false (i + n.length) CS cx al)
  | [], _, r, K, i, CS, cx, al, _ => Path.refl _
  | c :: cs, hn, r, K, i, CS, cx, al, hat => by
    obtain ⟨hc, hat'⟩ := hat
    have h1 : Path data (cfgAL lc a .annKey r K false i CS cx al) [] (cfgAL lc a .annKey r K false (i + 1) CS cx al) :=
      cfgAL_byte hc (fun p1 p2 => annKey_name 7 a c (hn c (by simp)) r K (i + 1) CS cx al p1 p2) rfl rfl
    have h2 := name_run a cs (fun x hx => hn x (by simp [hx])) r K (i + 1) CS cx al hat'
    have := Path.trans h1 h2
    simp only [List.length_cons]
    rw [show i + (cs.length + 1) = i + 1 + cs.length by omega]
    exact this

theorem spaces_run (a : Ann) : ∀ (n : Nat) (r : List St)
    (K : List (LexT × Nat)) (i : Nat) (CS : List Ctx) (cx : Ctx) (al : Bool), At data i (List.replicate n Cls.sp) →
    Path data (cfgAL lc a .annKeyAfter r K false i CS cx al) [] (cfgAL lc a .annKeyAfter r K false (i + n) CS cx al)
  | 0, r, K, i, CS, cx, al, _ => Path.refl _
  | n + 1, r, K, i, CS, cx, al, hat => by
    simp only [List.replicate_succ] at hat
    obtain ⟨hc, hat'⟩ := hat
    have h1 : Path data (cfgAL lc a .annKeyAfter r K false i CS cx al) []
        (cfgAL lc a .annKeyAfter r K false (i + 1) CS cx al) :=
      cfgAL_byte hc (fun p1 p2 => annKeyAfter_sp 7 a r K (i + 1) CS cx al p1 p2) rfl rfl
    have h2 := spaces_run a n r K (i + 1) CS cx al hat'
    have := Path.trans h1 h2
    rw [show i + (n + 1) = i + 1 + n by omega]
    exact this

theorem tok_runA (a : Ann) : ∀ (tok : List Cls) (st : St) (r : List St) (u : Bool) (st' : St) (r' : List St) (u' : Bool),
    silentRun st r u tok = some (st', r', u') →
    ∀ (K : List (LexT × Nat)) (i : Nat) (CS : List Ctx) (cx : Ctx) (al : Bool), At data i tok →
    Path data (cfgAL lc a st r K u i CS cx al) [] (cfgAL lc a st' r' K u' (i + tok.length) CS cx al)
  | [], st, r, u, st', r', u', h, K, i, CS, cx, al, _ => by
    simp only [silentRun, Option.some.injEq, Prod.mk.injEq] at h
    obtain ⟨rfl, rfl, rfl⟩ := h
    exact Path.refl _
  | c :: cs, st, r, u, st', r', u', h, K, i, CS, cx, al, hat => by
    obtain ⟨hc, hat'⟩ := hat
    simp only [silentRun] at h
    cases hs : silent st r u c with
    | none => rw [hs] at h; cases h
    | some p =>
      obtain ⟨s1, r1, u1⟩ := p
      rw [hs] at h
      have h1 : Path data (cfgAL lc a st r K u i CS cx al) [] (cfgAL lc a s1 r1 K u1 (i + 1) CS cx al) :=
        cfgAL_byte hc (fun p1 p2 => silent_dispatchA 7 a st r u c s1 r1 u1 hs K (i + 1) CS cx al p1 p2) rfl rfl
      have h2 := tok_runA a cs s1 r1 u1 st' r' u' h K (i + 1) CS cx al hat'
      have := Path.trans h1 h2
      simp only [List.length_cons]
      rw [show i + (cs.length + 1) = i + 1 + cs.length by omega]
      exact this

/-- token automaton inside an annotation: the return stack below the token's own pushes is kept -/
theorem silent_ret (st : St) (r : List St) (u : Bool) (c : Cls) (st' : St) (r' : List St) (u' : Bool) (x : St)
    (h : silent st r u c = some (st', r', u')) : silent st (r ++ [x]) u c = some (st', r' ++ [x], u') := by
  by_cases h3 : st = .u3
  · subst h3
    cases r with
    | nil => simp [silent] at h
    | cons r0 r => simp only [silent, List.cons_append] at h ⊢; split at h <;> simp_all
  · cases st <;> (try exact absurd rfl h3) <;> simp only [silent, reduceCtorEq] at h ⊢ <;> cases c <;>
      simp_all [Cls.isHex] <;> (obtain ⟨_, rfl, _⟩ := h; rfl)

theorem silentRun_ret : ∀ (tok : List Cls) (st : St) (r : List St) (u : Bool) (st' : St) (r' : List St) (u' : Bool)
    (x : St), silentRun st r u tok = some (st', r', u') → silentRun st (r ++ [x]) u tok = some (st', r' ++ [x], u')
  | [], st, r, u, st', r', u', x, h => by
    simp only [silentRun, Option.some.injEq, Prod.mk.injEq] at h ⊢
    obtain ⟨rfl, rfl, rfl⟩ := h
    exact ⟨rfl, rfl, rfl⟩
  | c :: cs, st, r, u, st', r', u', x, h => by
    simp only [silentRun] at h ⊢
    cases hs : silent st r u c with
    | none => rw [hs] at h; cases h
    | some p =>
      obtain ⟨s1, r1, u1⟩ := p
      rw [hs] at h
      rw [silent_ret st r u c s1 r1 u1 x hs]
      exact silentRun_ret cs s1 r1 u1 st' r' u' x h

end Len
end SchemaScan
