import JSight.SchemaLenTok
/-!
C14: the byte-level scanner model follows the token-level description `tstep`, for either value of `lengthComputing`:
`sim_slot` (a token read between tokens), `sim_pv` (a token read right behind a value), `sim`, `sim_run`.
-/
namespace SchemaScan
namespace Len

variable {lc : Bool} {data : Array Cls}

theorem slot_byte (c : TC) (ch : Cls) (hne : ch ≠ .slash) {s1 s2 : Sc} {evs : List Ev} (hc : data[c.i]? = some ch)
    (hd : ∀ f p1 p2, dispatch (f + 1) c.st (cfgL lc (gst c.g c.st) [] c.K false (c.i + 1) c.CS c.cx c.al) ch p1 p2 = .ok s1)
    (hi : s1.index = c.i + 1) (hdr : drainL data s1.finds s1 = .ok (s2, evs)) : Path data (c.sc lc) evs s2 :=
  cfg_byte hc (fun p1 p2 => gdispatch c.g c.st _ s1 ch hne p1 p2 (fun f => hd f p1 p2)) hi hdr

theorem gst_nl (g : Bool) (st : St) : nlX st (gst g st) = gst (g && !isObjKey st) (nlSt st) := by
  cases g <;> cases st <;> rfl

theorem sptab_ne_slash {c : Cls} (h : c.isSpTab = true) : c ≠ .slash := by
  intro e; subst e; cases h

theorem sim_nlStep (c c' : TC) (evs : List Ev) (h : nlStep c = some (c', evs)) (hc : data[c.i]? = some .nl) :
    Path data (c.sc lc) evs (c'.sc lc) := by
  unfold nlStep at h
  split at h
  · rename_i hw
    cases h
    refine (slot_byte c .nl (by simp) hc
      (fun f p1 p2 => d_nl f c.st hw _ c.K (c.i + 1) c.CS c.cx c.al [] p1 p2) rfl rfl).cast rfl ?_
    show cfgL lc (nlX c.st (gst c.g c.st)) [] c.K false (c.i + 1) c.CS c.cx (nlAl c.st c.al) = _
    rw [gst_nl]; rfl
  · cases h

theorem sim_slot_sp (c c' : TC) (ch : Cls) (evs : List Ev) (h : slotStep c (.sp ch) = some (c', evs))
    (hw : (Tok.sp ch).WF) (hat : At data c.i (Tok.sp ch).render) : Path data (c.sc lc) evs (c'.sc lc) := by
  simp only [slotStep] at h
  split at h
  · rename_i hl
    cases h
    exact slot_byte c ch (sptab_ne_slash hw) hat.1
      (fun f p1 p2 => d_sp f c.st hl ch hw _ c.K (c.i + 1) c.CS c.cx c.al [] p1 p2) rfl rfl
  · cases h

theorem sim_slot_cmt (c c' : TC) (text : List Cls) (evs : List Ev) (h : slotStep c (.cmt text) = some (c', evs))
    (hw : (Tok.cmt text).WF) (hat : At data c.i (Tok.cmt text).render) : Path data (c.sc lc) evs (c'.sc lc) := by
  simp only [slotStep] at h
  split at h
  · rename_i hl
    cases hn : nlStep { c with i := c.i + 1 + text.length } with
    | none => rw [hn] at h; cases h
    | some r =>
      obtain ⟨c2, e2⟩ := r
      rw [hn] at h
      simp only [Option.map_some, Option.some.injEq, Prod.mk.injEq] at h
      obtain ⟨rfl, rfl⟩ := h
      simp only [Tok.render] at hat
      obtain ⟨hh, hat'⟩ := hat
      have s1 : Path data (c.sc lc) [] (cfgL lc .anyCommentStart [gst c.g c.st] c.K false (c.i + 1) c.CS c.cx c.al) :=
        slot_byte c .hash (by simp) hh
          (fun f p1 p2 => d_hash f c.st hl _ c.K (c.i + 1) c.CS c.cx c.al [] p1 p2) rfl rfl
      have s2 := cmt_line_run (lc := lc) text hw.1 hw.2 (gst c.g c.st) c.K c.i c.CS c.cx c.al hat'
      rw [At_append] at hat'
      have s3 := sim_nlStep (lc := lc) { c with i := c.i + 1 + text.length } c2 e2 hn hat'.2.1
      exact Path.trans (Path.trans s1 s2) s3
  · cases h

theorem sim_slot_ann (c c' : TC) (b : InlBody) (evs : List Ev) (h : slotStep c (.ann b) = some (c', evs))
    (hw : (Tok.ann b).WF) (hat : At data c.i (Tok.ann b).render) : Path data (c.sc lc) evs (c'.sc lc) := by
  simp only [slotStep] at h
  split at h
  · rename_i hl
    simp only [Bool.and_eq_true, Bool.not_eq_true'] at hl
    obtain ⟨⟨⟨hal, halw⟩, hg⟩, hK⟩ := hl
    cases h
    obtain ⟨st, g, K, i, CS, cx, al⟩ := c
    simp only at hal halw hg hK hat ⊢
    subst hg halw
    simp only [Tok.render] at hat
    obtain ⟨hs, hat'⟩ := hat
    have s1 : Path data (cfgL lc st [] K false i CS cx true) []
        (cfgL lc .anyAnnStart [st] K false (i + 1) CS (cxA st cx) true) :=
      cfg_byte hs (fun p1 p2 => d_slash 7 st hal st K (i + 1) CS cx [] p1 p2) rfl rfl
    have s2 := ann_line (lc := lc) b hw st K hK i CS (cxA st cx) true hat'
    exact Path.trans s1 s2
  · cases h

theorem litStart_ne_slash {c : Cls} {r : St × Bool} (h : litStart c = some r) : c ≠ .slash := by
  intro e; subst e; cases h

theorem sim_slot_scalar (c c' : TC) (tok : List Cls) (evs : List Ev) (h : slotStep c (.scalar tok) = some (c', evs))
    (hw : (Tok.scalar tok).WF) (hat : At data c.i (Tok.scalar tok).render) : Path data (c.sc lc) evs (c'.sc lc) := by
  simp only [slotStep] at h
  cases hv : vctxOf c.st with
  | none => rw [hv] at h; cases h
  | some ctx =>
    rw [hv] at h
    simp only [Option.map_some, Option.some.injEq, Prod.mk.injEq] at h
    obtain ⟨rfl, rfl⟩ := h
    obtain ⟨c0, tl, st0, u0, stE, rfl, hs, hr, hp⟩ := hw
    have hE : endStOf (c0 :: tl) = stE := by simp [endStOf, Tree.endSt, hs, hr]
    obtain ⟨st, g, K, i, CS, cx, al⟩ := c
    simp only at hv hat ⊢
    have hst := vctxOf_st hv
    subst hst
    obtain ⟨hc, hattl⟩ := hat
    have s1 : Path data (TC.sc lc ⟨ctx.st, g, K, i, CS, cx, al⟩) (ctx.preEvs i ++ [⟨.litB, i, i⟩])
        (cfgL lc st0 [] ((.litB, i) :: (ctx.pre i ++ K)) u0 (i + 1) CS (ctx.cx' cx) al) := by
      refine slot_byte ⟨ctx.st, g, K, i, CS, cx, al⟩ c0 (litStart_ne_slash hs) hc
        (fun f p1 p2 => d_scalar f c0 st0 u0 hs ctx _ K (i + 1) CS cx al p1 p2) rfl ?_
      cases ctx <;> rfl
    have s2 := tok_run (lc := lc) tl _ _ _ _ _ _ hr ((.litB, i) :: (ctx.pre i ++ K)) (i + 1) CS (ctx.cx' cx) al hattl
    refine (Path.trans s1 s2).cast (by simp) ?_
    show _ = cfgL lc (gst false (endStOf (c0 :: tl))) [] _ false _ CS _ al
    rw [hE]
    exact cfg_congr rfl (by simp only [List.length_cons]; omega)

theorem sim_slot_key (c c' : TC) (k : List Cls) (evs : List Ev) (h : slotStep c (.key k) = some (c', evs))
    (hw : (Tok.key k).WF) (hat : At data c.i (Tok.key k).render) : Path data (c.sc lc) evs (c'.sc lc) := by
  simp only [slotStep] at h
  split at h
  · rename_i hl
    cases h
    obtain ⟨tl, rfl, hr⟩ := hw
    obtain ⟨hc, hattl⟩ := hat
    have s1 : Path data (c.sc lc) [⟨.keyB, c.i, c.i⟩]
        (cfgL lc .inString [] ((.keyB, c.i) :: c.K) false (c.i + 1) c.CS c.cx (keyAl c.st c.al)) :=
      slot_byte c .quote (by simp) hc
        (fun f p1 p2 => d_key f c.st hl _ c.K (c.i + 1) c.CS c.cx c.al p1 p2) rfl rfl
    have s2 := tok_run (lc := lc) tl _ _ _ _ _ _ hr ((.keyB, c.i) :: c.K) (c.i + 1) c.CS c.cx (keyAl c.st c.al) hattl
    refine (Path.trans s1 s2).cast rfl ?_
    exact cfg_congr rfl (by simp only [List.length_cons]; omega)
  · cases h

theorem sim_slot_lbrace (c c' : TC) (evs : List Ev) (h : slotStep c .lbrace = some (c', evs))
    (hat : At data c.i Tok.lbrace.render) : Path data (c.sc lc) evs (c'.sc lc) := by
  simp only [slotStep] at h
  cases hv : vctxOf c.st with
  | none => rw [hv] at h; cases h
  | some ctx =>
    rw [hv] at h
    simp only [Option.map_some, Option.some.injEq, Prod.mk.injEq] at h
    obtain ⟨rfl, rfl⟩ := h
    obtain ⟨st, g, K, i, CS, cx, al⟩ := c
    simp only at hv hat ⊢
    have hst := vctxOf_st hv
    subst hst
    refine slot_byte ⟨ctx.st, g, K, i, CS, cx, al⟩ .lbrace (by simp) hat.1
      (fun f p1 p2 => d_object f ctx _ K (i + 1) CS cx al p1 p2) rfl ?_
    cases ctx <;> rfl

theorem sim_slot_lbrack (c c' : TC) (evs : List Ev) (h : slotStep c .lbrack = some (c', evs))
    (hat : At data c.i Tok.lbrack.render) : Path data (c.sc lc) evs (c'.sc lc) := by
  simp only [slotStep] at h
  cases hv : vctxOf c.st with
  | none => rw [hv] at h; cases h
  | some ctx =>
    rw [hv] at h
    simp only [Option.map_some, Option.some.injEq, Prod.mk.injEq] at h
    obtain ⟨rfl, rfl⟩ := h
    obtain ⟨st, g, K, i, CS, cx, al⟩ := c
    simp only at hv hat ⊢
    have hst := vctxOf_st hv
    subst hst
    refine slot_byte ⟨ctx.st, g, K, i, CS, cx, al⟩ .lbrack (by simp) hat.1
      (fun f p1 p2 => d_array f ctx _ K (i + 1) CS cx al p1 p2) rfl ?_
    cases ctx <;> rfl

theorem sim_slot_rbrace (c c' : TC) (evs : List Ev) (h : slotStep c .rbrace = some (c', evs))
    (hat : At data c.i Tok.rbrace.render) : Path data (c.sc lc) evs (c'.sc lc) := by
  obtain ⟨st, g, K, i, CS, cx, al⟩ := c
  simp only [slotStep] at h
  split at h
  · cases h
    exact slot_byte ⟨.objKeyOrEmpty, g, _, i, _, cx, al⟩ .rbrace (by simp) hat.1
      (fun f p1 p2 => d_empty_obj f _ _ (i + 1) _ _ cx al p1 p2) rfl rfl
  · cases h
    exact slot_byte ⟨.afterValue, g, _, i, _, cx, al⟩ .rbrace (by simp) hat.1
      (fun f p1 p2 => d_rbrace f _ _ (i + 1) _ _ cx al [] p1 p2) rfl rfl
  · cases h

theorem sim_slot_rbrack (c c' : TC) (evs : List Ev) (h : slotStep c .rbrack = some (c', evs))
    (hat : At data c.i Tok.rbrack.render) : Path data (c.sc lc) evs (c'.sc lc) := by
  obtain ⟨st, g, K, i, CS, cx, al⟩ := c
  simp only [slotStep] at h
  split at h
  · cases h
    exact slot_byte ⟨.arrItemOrEmpty, g, _, i, _, cx, al⟩ .rbrack (by simp) hat.1
      (fun f p1 p2 => d_empty_arr f _ _ _ (i + 1) _ _ cx al p1 p2) rfl rfl
  · cases h
    exact slot_byte ⟨.afterItem, g, _, i, _, cx, al⟩ .rbrack (by simp) hat.1
      (fun f p1 p2 => d_rbrack f _ _ _ (i + 1) _ _ cx al [] p1 p2) rfl rfl
  · cases h

theorem sim_slot_comma (c c' : TC) (evs : List Ev) (h : slotStep c .comma = some (c', evs))
    (hat : At data c.i Tok.comma.render) : Path data (c.sc lc) evs (c'.sc lc) := by
  obtain ⟨st, g, K, i, CS, cx, al⟩ := c
  simp only [slotStep] at h
  split at h
  · cases h
    exact slot_byte ⟨.afterItem, g, K, i, CS, cx, al⟩ .comma (by simp) hat.1
      (fun f p1 p2 => d_sep f .item _ K (i + 1) CS cx al [] p1 p2) rfl rfl
  · cases h
    exact slot_byte ⟨.afterValue, g, K, i, CS, cx, al⟩ .comma (by simp) hat.1
      (fun f p1 p2 => d_sep f .val _ K (i + 1) CS cx al [] p1 p2) rfl rfl
  · cases h

theorem sim_slot_colon (c c' : TC) (evs : List Ev) (h : slotStep c .colon = some (c', evs))
    (hat : At data c.i Tok.colon.render) : Path data (c.sc lc) evs (c'.sc lc) := by
  obtain ⟨st, g, K, i, CS, cx, al⟩ := c
  simp only [slotStep] at h
  split at h
  · cases h
    exact slot_byte ⟨.afterKey, g, K, i, CS, cx, al⟩ .colon (by simp) hat.1
      (fun f p1 p2 => d_sep f .key _ K (i + 1) CS cx al [] p1 p2) rfl rfl
  · cases h

/-- a token read at a place between tokens -/
theorem sim_slot (c c' : TC) (t : Tok) (evs : List Ev) (h : slotStep c t = some (c', evs)) (hw : t.WF)
    (hat : At data c.i t.render) : Path data (c.sc lc) evs (c'.sc lc) := by
  cases t with
  | sp ch => exact sim_slot_sp c c' ch evs h hw hat
  | nl => exact sim_nlStep c c' evs h hat.1
  | cmt text => exact sim_slot_cmt c c' text evs h hw hat
  | ann b => exact sim_slot_ann c c' b evs h hw hat
  | scalar tok => exact sim_slot_scalar c c' tok evs h hw hat
  | key k => exact sim_slot_key c c' k evs h hw hat
  | lbrace => exact sim_slot_lbrace c c' evs h hat
  | rbrace => exact sim_slot_rbrace c c' evs h hat
  | lbrack => exact sim_slot_lbrack c c' evs h hat
  | rbrack => exact sim_slot_rbrack c c' evs h hat
  | comma => exact sim_slot_comma c c' evs h hat
  | colon => exact sim_slot_colon c c' evs h hat

/-! ### right behind a value: the first byte of the token closes what is pending -/

theorem S_close_hash {st : St} (hst : PV st = true) (lit : Bool) (ck : CK) (hck : cmtLoop ck.aft = true) (b b2 : Nat)
    (R : List (LexT × Nat)) (i : Nat) (CS : List Ctx) (cx : Ctx) (al : Bool) (hc : data[i]? = some .hash) :
    Path data (cfgL lc st [] (pendOf lit b ++ (ck.B, b2) :: R) false i CS cx al) (closersOf lit ck b b2 (i - 1))
      (cfgL lc .anyCommentStart [ck.aft] R false (i + 1) CS cx al) := by
  refine cfg_byte hc (fun p1 p2 => (pv_dispatch_hash 7 st hst _ p1 p2).trans
    ((ev_close 7 st lit ck b b2 R (i + 1) CS cx al .hash p1 p2).trans
      (d_hash 6 ck.aft hck ck.aft _ (i + 1) CS cx al _ p1 p2))) rfl ?_
  cases lit <;> cases ck <;> first | rfl | exact absurd hck (by decide)

theorem cxA_aft (ck : CK) (cx : Ctx) : cxA ck.aft cx = cx := by cases ck <;> rfl

theorem S_close_slash {st : St} (hst : PV st = true) (lit : Bool) (ck : CK) (b b2 : Nat)
    (R : List (LexT × Nat)) (i : Nat) (CS : List Ctx) (cx : Ctx) (hc : data[i]? = some .slash) :
    Path data (cfgL lc st [] (pendOf lit b ++ (ck.B, b2) :: R) false i CS cx true) (closersOf lit ck b b2 (i - 1))
      (cfgL lc .anyAnnStart [ck.aft] R false (i + 1) CS cx true) := by
  have haft : annLoop ck.aft = true := by cases ck <;> rfl
  refine cfg_byte hc (fun p1 p2 => (SchemaScan.pv_dispatch_slash 7 st hst _ p1 p2).trans
    ((ev_close 7 st lit ck b b2 R (i + 1) CS cx true .slash p1 p2).trans
      (d_slash 6 ck.aft haft ck.aft _ (i + 1) CS cx _ p1 p2))) rfl ?_
  cases lit <;> cases ck <;> rfl

theorem S_root_hash {st : St} (hst : PV st = true) (lit : Bool) (b : Nat)
    (i : Nat) (CS : List Ctx) (cx : Ctx) (al : Bool) (hc : data[i]? = some .hash) :
    Path data (cfgL lc st [] (pendOf lit b) false i CS cx al) (rootClosers lit b (i - 1))
      (cfgL lc .anyCommentStart [.endTop] [] false (i + 1) CS cx al) := by
  refine cfg_byte hc (fun p1 p2 => (pv_dispatch_hash 7 st hst _ p1 p2).trans
    ((ev_root 7 st lit b (i + 1) CS cx al .hash p1 p2).trans
      (d_hash 6 .endTop rfl .endTop _ (i + 1) CS cx al _ p1 p2))) rfl ?_
  cases lit <;> rfl

theorem S_root_slash {st : St} (hst : PV st = true) (lit : Bool) (b : Nat)
    (i : Nat) (CS : List Ctx) (cx : Ctx) (hc : data[i]? = some .slash) :
    Path data (cfgL lc st [] (pendOf lit b) false i CS cx true) (rootClosers lit b (i - 1))
      (cfgL lc .anyAnnStart [.endTop] [] false (i + 1) CS cx true) := by
  refine cfg_byte hc (fun p1 p2 => (SchemaScan.pv_dispatch_slash 7 st hst _ p1 p2).trans
    ((ev_root 7 st lit b (i + 1) CS cx true .slash p1 p2).trans
      (d_slash 6 .endTop rfl .endTop _ (i + 1) CS cx _ p1 p2))) rfl ?_
  cases lit <;> rfl

theorem sim_pv_root (st : St) (hpv : PV st = true) (lit : Bool) (b i : Nat) (CS : List Ctx) (cx : Ctx) (al : Bool)
    (t : Tok) (c' : TC) (e2 : List Ev)
    (h : slotStep ⟨.endTop, false, [], i, CS, cx, al⟩ t = some (c', e2)) (hw : t.WF) (hat : At data i t.render) :
    Path data (cfgL lc st [] (pendOf lit b) false i CS cx al) (rootClosers lit b (i - 1) ++ e2) (c'.sc lc) := by
  cases t with
  | sp ch =>
    simp only [slotStep] at h
    cases h
    rw [List.append_nil]
    exact S_root_sp hpv hw lit b i CS cx al hat.1
  | nl =>
    simp only [slotStep, nlStep] at h
    cases h
    exact S_root_nl hpv lit b i CS cx al hat.1
  | cmt text =>
    simp only [slotStep, nlStep] at h
    cases h
    simp only [Tok.render] at hat
    obtain ⟨hh, hat'⟩ := hat
    have s1 := S_root_hash (lc := lc) hpv lit b i CS cx al hh
    have s2 := cmt_line_run (lc := lc) text hw.1 hw.2 .endTop [] i CS cx al hat'
    rw [At_append] at hat'
    have s3 : Path data (cfgL lc .endTop [] [] false (i + 1 + text.length) CS cx al)
        [⟨.newLine, i + 1 + text.length, i + 1 + text.length⟩]
        (cfgL lc .endTop [] [] false (i + 1 + text.length + 1) CS cx al) := S_nl rfl [] _ CS cx al hat'.2.1
    exact Path.trans s1 (Path.trans s2 s3)
  | ann bd =>
    simp only [slotStep] at h
    split at h
    · rename_i hl
      simp only [Bool.and_eq_true, Bool.not_eq_true'] at hl
      obtain ⟨⟨⟨_, halw⟩, _⟩, hK⟩ := hl
      cases h
      subst halw
      simp only [Tok.render] at hat
      obtain ⟨hs, hat'⟩ := hat
      have s1 := S_root_slash (lc := lc) hpv lit b i CS cx hs
      have s2 := ann_line (lc := lc) bd hw .endTop [] hK i CS cx true hat'
      exact Path.trans s1 s2
    · cases h
  | scalar tok => simp [slotStep, vctxOf] at h
  | key k => simp [slotStep, keySt] at h
  | lbrace => simp [slotStep, vctxOf] at h
  | lbrack => simp [slotStep, vctxOf] at h
  | rbrace => simp [slotStep] at h
  | rbrack => simp [slotStep] at h
  | comma => simp [slotStep] at h
  | colon => simp [slotStep] at h

theorem sim_pv_ck (st : St) (hpv : PV st = true) (lit : Bool) (b : Nat) (ck : CK) (b2 : Nat) (R : List (LexT × Nat))
    (i : Nat) (CS : List Ctx) (cx : Ctx) (al : Bool) (t : Tok) (c' : TC) (e2 : List Ev)
    (h : slotStep ⟨ck.aft, false, R, i, CS, cx, al⟩ t = some (c', e2)) (hw : t.WF) (hat : At data i t.render) :
    Path data (cfgL lc st [] (pendOf lit b ++ (ck.B, b2) :: R) false i CS cx al)
      (closersOf lit ck b b2 (i - 1) ++ e2) (c'.sc lc) := by
  cases t with
  | sp ch =>
    have haft : wsLoop ck.aft = true := by cases ck <;> rfl
    simp only [slotStep, haft, if_true] at h
    cases h
    rw [List.append_nil]
    exact S_close_sp hpv hw lit ck b b2 R i CS cx al hat.1
  | nl =>
    cases ck <;> (simp only [slotStep, nlStep] at h; cases h; exact S_close_nl hpv lit _ b b2 R i CS cx al hat.1)
  | cmt text =>
    simp only [Tok.render] at hat
    obtain ⟨hh, hat'⟩ := hat
    have hnl : data[i + 1 + text.length]? = some Cls.nl := by
      rw [At_append] at hat'; exact hat'.2.1
    cases ck with
    | key => simp [slotStep, cmtLoop, CK.aft] at h
    | item =>
      simp only [slotStep, nlStep] at h
      cases h
      have s1 := S_close_hash (lc := lc) hpv lit .item rfl b b2 R i CS cx al hh
      have s2 := cmt_line_run (lc := lc) text hw.1 hw.2 .afterItem R i CS cx al hat'
      have s3 : Path data (cfgL lc .afterItem [] R false (i + 1 + text.length) CS cx al)
          [⟨.newLine, i + 1 + text.length, i + 1 + text.length⟩]
          (cfgL lc .afterItem [] R false (i + 1 + text.length + 1) CS cx al) := S_nl rfl R _ CS cx al hnl
      exact Path.trans s1 (Path.trans s2 s3)
    | val =>
      simp only [slotStep, nlStep] at h
      cases h
      have s1 := S_close_hash (lc := lc) hpv lit .val rfl b b2 R i CS cx al hh
      have s2 := cmt_line_run (lc := lc) text hw.1 hw.2 .afterValue R i CS cx al hat'
      have s3 : Path data (cfgL lc .afterValue [] R false (i + 1 + text.length) CS cx al)
          [⟨.newLine, i + 1 + text.length, i + 1 + text.length⟩]
          (cfgL lc .afterValue [] R false (i + 1 + text.length + 1) CS cx al) := S_nl rfl R _ CS cx al hnl
      exact Path.trans s1 (Path.trans s2 s3)
  | ann bd =>
    have haft : annLoop ck.aft = true := by cases ck <;> rfl
    simp only [slotStep, haft, Bool.true_and] at h
    split at h
    · rename_i hl
      simp only [Bool.and_eq_true, Bool.not_eq_true'] at hl
      obtain ⟨⟨halw, _⟩, hK⟩ := hl
      cases h
      subst halw
      simp only [Tok.render] at hat
      obtain ⟨hs, hat'⟩ := hat
      have s1 := S_close_slash (lc := lc) hpv lit ck b b2 R i CS cx hs
      have s2 := ann_line (lc := lc) bd hw ck.aft R hK i CS cx true hat'
      refine (Path.trans s1 s2).cast rfl ?_
      show _ = cfgL lc (gst bd.hasNote ck.aft) [] R false _ CS (cxA ck.aft cx) true
      rw [cxA_aft]
    · cases h
  | scalar tok => cases ck <;> simp [slotStep, vctxOf, CK.aft] at h
  | key k => cases ck <;> simp [slotStep, keySt, CK.aft] at h
  | lbrace => cases ck <;> simp [slotStep, vctxOf, CK.aft] at h
  | lbrack => cases ck <;> simp [slotStep, vctxOf, CK.aft] at h
  | rbrace =>
    cases ck with
    | item => simp [slotStep, CK.aft] at h
    | key => simp [slotStep, CK.aft] at h
    | val =>
      cases R with
      | nil => simp [slotStep, CK.aft] at h
      | cons p K' =>
        obtain ⟨t0, a⟩ := p
        cases CS with
        | nil => simp [slotStep, CK.aft] at h
        | cons c0 CS' =>
          cases t0 <;> simp only [slotStep, CK.aft, reduceCtorEq] at h <;> first | (cases h; done) | skip
          cases h
          exact S_close_rbrace hpv lit b b2 a K' i c0 CS' cx al hat.1
  | rbrack =>
    cases ck with
    | val => simp [slotStep, CK.aft] at h
    | key => simp [slotStep, CK.aft] at h
    | item =>
      cases R with
      | nil => simp [slotStep, CK.aft] at h
      | cons p K' =>
        obtain ⟨t0, a⟩ := p
        cases CS with
        | nil => simp [slotStep, CK.aft] at h
        | cons c0 CS' =>
          cases t0 <;> simp only [slotStep, CK.aft, reduceCtorEq] at h <;> first | (cases h; done) | skip
          cases h
          exact S_close_rbrack hpv lit b b2 a K' i c0 CS' cx al hat.1
  | comma =>
    cases ck with
    | key => simp [slotStep, CK.aft] at h
    | item =>
      simp only [slotStep, CK.aft] at h
      cases h
      rw [List.append_nil]
      exact S_close_sep hpv lit .item b b2 R i CS cx al hat.1
    | val =>
      simp only [slotStep, CK.aft] at h
      cases h
      rw [List.append_nil]
      exact S_close_sep hpv lit .val b b2 R i CS cx al hat.1
  | colon =>
    cases ck with
    | item => simp [slotStep, CK.aft] at h
    | val => simp [slotStep, CK.aft] at h
    | key =>
      simp only [slotStep, CK.aft] at h
      cases h
      rw [List.append_nil]
      exact S_close_sep hpv lit .key b b2 R i CS cx al hat.1

/-- **the byte-level scanner follows the token-level description**, one token -/
theorem sim (c c' : TC) (t : Tok) (evs : List Ev) (h : tstep c t = some (c', evs)) (hw : t.WF)
    (hat : At data c.i t.render) : Path data (c.sc lc) evs (c'.sc lc) := by
  unfold tstep at h
  by_cases hpv : PV c.st = true
  · rw [if_pos hpv] at h
    obtain ⟨st, g, K, i, CS, cx, al⟩ := c
    simp only at h hpv hat ⊢
    cases g with
    | true => simp at h
    | false =>
      simp only [Bool.false_eq_true, if_false, closePV] at h
      cases hp : pendOfK K with
      | none => rw [hp] at h; cases h
      | some pd =>
        rw [hp] at h
        cases pd with
        | root lit b =>
          simp only at h
          cases hs : slotStep ⟨.endTop, false, [], i, CS, cx, al⟩ t with
          | none => rw [hs] at h; cases h
          | some r =>
            obtain ⟨c2, e2⟩ := r
            rw [hs] at h
            simp only [Option.map_some, Option.some.injEq, Prod.mk.injEq] at h
            obtain ⟨rfl, rfl⟩ := h
            rw [pendOfK_root hp]
            exact sim_pv_root st hpv lit b i CS cx al t c2 e2 hs hw hat
        | ck lit b ck b2 R =>
          simp only at h
          cases hs : slotStep ⟨ck.aft, false, R, i, CS, cx, al⟩ t with
          | none => rw [hs] at h; cases h
          | some r =>
            obtain ⟨c2, e2⟩ := r
            rw [hs] at h
            simp only [Option.map_some, Option.some.injEq, Prod.mk.injEq] at h
            obtain ⟨rfl, rfl⟩ := h
            rw [pendOfK_ck hp]
            exact sim_pv_ck st hpv lit b ck b2 R i CS cx al t c2 e2 hs hw hat
  · rw [if_neg hpv] at h
    exact sim_slot c c' t evs h hw hat

/-! ### the index moves by the length of the token -/

theorem nlStep_index {c c' : TC} {evs : List Ev} (h : nlStep c = some (c', evs)) : c'.i = c.i + 1 := by
  unfold nlStep at h
  split at h <;> cases h
  rfl

theorem slotStep_index {c c' : TC} {t : Tok} {evs : List Ev} (h : slotStep c t = some (c', evs)) :
    c'.i = c.i + t.render.length := by
  cases t with
  | sp ch => simp only [slotStep] at h; split at h <;> cases h; rfl
  | nl => exact nlStep_index h
  | cmt text =>
    simp only [slotStep] at h
    split at h
    · cases hn : nlStep { c with i := c.i + 1 + text.length } with
      | none => rw [hn] at h; cases h
      | some r =>
        rw [hn] at h
        simp only [Option.map_some, Option.some.injEq, Prod.mk.injEq] at h
        obtain ⟨rfl, _⟩ := h
        rw [nlStep_index hn]
        simp only [Tok.render, List.length_cons, List.length_append, List.length_nil]; omega
    · cases h
  | ann b =>
    simp only [slotStep] at h
    split at h <;> cases h
    simp only [Tok.render, List.length_cons, List.length_append, List.length_nil]; omega
  | scalar tok =>
    simp only [slotStep] at h
    cases hv : vctxOf c.st <;> rw [hv] at h <;> cases h
    rfl
  | key k => simp only [slotStep] at h; split at h <;> cases h; rfl
  | lbrace => simp only [slotStep] at h; cases hv : vctxOf c.st <;> rw [hv] at h <;> cases h; rfl
  | lbrack => simp only [slotStep] at h; cases hv : vctxOf c.st <;> rw [hv] at h <;> cases h; rfl
  | rbrace => simp only [slotStep] at h; split at h <;> cases h <;> rfl
  | rbrack => simp only [slotStep] at h; split at h <;> cases h <;> rfl
  | comma => simp only [slotStep] at h; split at h <;> cases h <;> rfl
  | colon => simp only [slotStep] at h; split at h <;> cases h <;> rfl

theorem closePV_index {c c' : TC} {evs : List Ev} (h : closePV c = some (c', evs)) : c'.i = c.i := by
  unfold closePV at h
  split at h <;> cases h <;> rfl

theorem tstep_index {c c' : TC} {t : Tok} {evs : List Ev} (h : tstep c t = some (c', evs)) :
    c'.i = c.i + t.render.length := by
  unfold tstep at h
  split at h
  · split at h
    · cases h
    · cases hc : closePV c with
      | none => rw [hc] at h; cases h
      | some r =>
        obtain ⟨c1, e1⟩ := r
        rw [hc] at h
        simp only at h
        cases hs : slotStep c1 t with
        | none => rw [hs] at h; cases h
        | some r2 =>
          rw [hs] at h
          simp only [Option.map_some, Option.some.injEq, Prod.mk.injEq] at h
          obtain ⟨rfl, _⟩ := h
          rw [slotStep_index hs, closePV_index hc]
  · exact slotStep_index h

/-- **the byte-level scanner follows the token-level description**, a list of tokens -/
theorem sim_run : ∀ (toks : List Tok) (c c' : TC) (evs : List Ev), trun c toks = some (c', evs) →
    (∀ t ∈ toks, t.WF) → At data c.i (renderToks toks) → Path data (c.sc lc) evs (c'.sc lc)
  | [], c, c', evs, h, _, _ => by
    simp only [trun, Option.some.injEq, Prod.mk.injEq] at h
    obtain ⟨rfl, rfl⟩ := h
    exact Path.refl _
  | t :: ts, c, c', evs, h, hw, hat => by
    simp only [trun] at h
    cases ht : tstep c t with
    | none => rw [ht] at h; cases h
    | some r =>
      obtain ⟨c1, e1⟩ := r
      rw [ht] at h
      simp only at h
      cases hr : trun c1 ts with
      | none => rw [hr] at h; cases h
      | some r2 =>
        obtain ⟨c2, e2⟩ := r2
        rw [hr] at h
        simp only [Option.map_some, Option.some.injEq, Prod.mk.injEq] at h
        obtain ⟨rfl, rfl⟩ := h
        simp only [renderToks] at hat
        rw [At_append] at hat
        have s1 := sim (lc := lc) c c1 t e1 ht (hw t (by simp)) hat.1
        have s2 := sim_run ts c1 c2 e2 hr (fun x hx => hw x (by simp [hx])) (by rw [tstep_index ht]; exact hat.2)
        exact Path.trans s1 s2

theorem trun_index : ∀ (toks : List Tok) (c c' : TC) (evs : List Ev), trun c toks = some (c', evs) →
    c'.i = c.i + (renderToks toks).length
  | [], c, c', evs, h => by
    simp only [trun, Option.some.injEq, Prod.mk.injEq] at h
    obtain ⟨rfl, _⟩ := h
    simp [renderToks]
  | t :: ts, c, c', evs, h => by
    simp only [trun] at h
    cases ht : tstep c t with
    | none => rw [ht] at h; cases h
    | some r =>
      obtain ⟨c1, e1⟩ := r
      rw [ht] at h
      simp only at h
      cases hr : trun c1 ts with
      | none => rw [hr] at h; cases h
      | some r2 =>
        obtain ⟨c2, e2⟩ := r2
        rw [hr] at h
        simp only [Option.map_some, Option.some.injEq, Prod.mk.injEq] at h
        obtain ⟨rfl, _⟩ := h
        rw [trun_index ts c1 c2 e2 hr, tstep_index ht]
        simp only [renderToks, List.length_append]; omega

end Len
end SchemaScan
